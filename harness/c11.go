package main

// C11 — only an effective root identity can assign ownership. SETATTR / CREATE / MKDIR / SYMLINK with every
// sattr3 uid/gid setting, under every squash mode and credential; the backend's Chown/Lchown arguments and
// the owner the backend ends up recording for new objects are checked against the caller's effective identity
// (computed here from the squash rule, independently of the server).

import (
	"fmt"
	"github.com/absfs/absnfs"
	"math/rand"
	"strconv"
	"strings"
)

func init() {
	checks["C11"] = checkC11
	replays["C11"] = caseReplay(judgeC11)
}

// effective identity after squashing, per the documented rule (root / all / none; AUTH_NONE -> nobody)
func effectiveID(squash string, c Cred) (uid, gid uint32) {
	if c.Flavor != 1 {
		return 65534, 65534
	}
	uid, gid = c.UID, c.GID
	switch strings.ToLower(squash) {
	case "none":
	case "all":
		uid, gid = 65534, 65534
	default: // "root" (also the default)
		if uid == 0 {
			uid, gid = 65534, 65534
		} else if gid == 0 {
			gid = 65534
		}
	}
	return
}

func ownerOf(w *World, p string) (int, int, bool) {
	info, err := w.peek(p)
	if err != nil {
		return 0, 0, false
	}
	ri := info.(*rinfo)
	return ri.uid, ri.gid, true
}

func judgeC11(c SrvCase) []Violation {
	w := c.world()
	defer w.Close()
	var vs []Violation
	squash := c.Cfg.Squash
	if squash == "" {
		squash = "none" // newWorldOn's default
	}
	for i, o := range c.Ops {
		if o.Kind == "policy-nosquash" {
			// an operator reloads the policy the way the documented runtime-reconfiguration example does: a PolicyOptions
			// literal that does not mention Squash. The squash mode is immutable at runtime: the update is refused, or, if
			// it were accepted, must leave the configured mode in force — the oracle keeps judging under that mode.
			_ = w.srv.NFS.UpdatePolicyOptions(absnfs.PolicyOptions{ReadOnly: c.Cfg.ReadOnly, MaxFileSize: c.Cfg.MaxFileSize})
			continue
		}
		cred := o.Cred
		if cred.Flavor == 0 && cred.Raw == nil {
			cred = rootCred()
		}
		euid, egid := effectiveID(squash, cred)
		bad := func(class, what string) {
			vs = append(vs, Violation{Class: class, What: fmt.Sprintf("%s [squash=%s cred=%d:%d flavor=%d -> effective %d:%d]", what, squash, cred.UID, cred.GID, cred.Flavor, euid, egid),
				Detail: fmt.Sprintf("op %d: %s", i, o.String())})
		}
		target := o.Dir
		if o.Kind == "create" || o.Kind == "mkdir" || o.Kind == "symlink" {
			target = join(o.Dir, o.Name)
		}
		_, _, existed := ownerOf(w, target)
		bu, bg, _ := ownerOf(w, target)
		// obtain handles first so that the log below belongs to the request itself
		if _, ok := w.handleFor(o.Dir, cred); !ok {
			continue
		}
		w.fs.TakeLog()
		r := w.do(o)
		log := w.fs.TakeLog()
		if r.NoHandle {
			continue
		}
		for _, l := range log {
			f := strings.Fields(l)
			if (f[0] == "Chown" || f[0] == "Lchown") && len(f) >= 4 {
				cu, _ := strconv.Atoi(f[len(f)-4])
				cg, _ := strconv.Atoi(f[len(f)-3])
				if euid != 0 && (uint32(cu) != euid || uint32(cg) != egid) {
					// SETATTR may legitimately re-assert the current owner; anything else is a give-away
					if !(o.Kind == "setattr" && cu == bu && cg == bg) {
						bad("chown-by-non-root", fmt.Sprintf("%s made the backend run %q for a non-root caller", strings.ToUpper(o.Kind), l))
					}
				}
			}
		}
		au, ag, exists := ownerOf(w, target)
		switch o.Kind {
		case "setattr":
			if euid != 0 && exists && existed && (au != bu || ag != bg) && (uint32(au) != euid || uint32(ag) != egid) {
				bad("owner-changed-by-non-root", fmt.Sprintf("SETATTR changed the owner from %d:%d to %d:%d", bu, bg, au, ag))
			}
		case "create", "mkdir", "symlink":
			if r.ok() && !existed && exists {
				wantU, wantG := euid, egid
				if euid == 0 {
					if o.Sa.UID != nil && !(o.Kind == "create" && o.How == 2) {
						wantU = *o.Sa.UID
					}
					if o.Sa.GID != nil && !(o.Kind == "create" && o.How == 2) {
						wantG = *o.Sa.GID
					}
				}
				if uint32(au) != wantU || uint32(ag) != wantG {
					cls := "new-object-owner"
					if euid != 0 {
						cls = "new-object-owner-non-root"
					}
					bad(cls+":"+o.Kind, fmt.Sprintf("%s created an object the backend records as owned by %d:%d, want %d:%d", strings.ToUpper(o.Kind), au, ag, wantU, wantG))
				}
			}
		}
	}
	return vs
}

func genC11(rng *rand.Rand, n int) SrvCase {
	c := SrvCase{}
	c.Cfg.Squash = []string{"root", "all", "none", "ROOT", "None"}[rng.Intn(5)]
	c.Cfg.AttrTTL = 1
	c.Cfg.ViaConn = rng.Intn(2) == 0 // all requests of the history on one connection, identities alternating on it
	c.Seed = []string{"mkdir /d", "file /f " + hx([]byte("x")), "link /l f"}
	creds := []Cred{{Flavor: 1, UID: 0, GID: 0}, {Flavor: 1, UID: 1000, GID: 1000}, {Flavor: 1, UID: 1000, GID: 0}, {Flavor: 1, UID: 0, GID: 5}, {Flavor: 0, Raw: []byte{}}, {Flavor: 1, UID: 65534, GID: 65534}}
	ids := []uint32{0, 1000, 7, 65534}
	for i := 0; i < n; i++ {
		o := SOp{Cred: creds[rng.Intn(len(creds))]}
		if rng.Intn(3) > 0 {
			o.Sa.UID = p32(ids[rng.Intn(len(ids))])
		}
		if rng.Intn(3) > 0 {
			o.Sa.GID = p32(ids[rng.Intn(len(ids))])
		}
		if rng.Intn(3) == 0 {
			o.Sa.Mode = p32(uint32([]int{0o644, 0o600, 0o755}[rng.Intn(3)]))
		}
		name := fmt.Sprintf("n%d", i)
		dir := []string{"/", "/d"}[rng.Intn(2)]
		if rng.Intn(10) == 0 {
			c.Ops = append(c.Ops, SOp{Kind: "policy-nosquash"})
			continue
		}
		switch rng.Intn(5) {
		case 0:
			o.Kind, o.Dir = "setattr", []string{"/f", "/d", "/l", "/"}[rng.Intn(4)]
		case 1:
			o.Kind, o.Dir, o.Name, o.How = "create", dir, name, uint32(rng.Intn(3))
			if o.How == 2 {
				o.Verf = []byte{1, 2, 3, 4, 5, 6, 7, 8}
				o.Sa = Sattr{}
			}
		case 2:
			o.Kind, o.Dir, o.Name = "mkdir", dir, name
		case 3:
			o.Kind, o.Dir, o.Name, o.Target = "symlink", dir, name, "f"
		default:
			o.Kind, o.Dir = "setattr", fmt.Sprintf("/n%d", rng.Intn(i+1))
		}
		c.Ops = append(c.Ops, o)
	}
	return c
}

func checkC11(r *Result, rng *rand.Rand, thorough bool) {
	traces, doneTraces := collectTraces(200)
	defer func() {
		doneTraces()
		compareSrv(r, "srv", *traces)
	}()
	ncases, n := 400, 12
	if thorough {
		ncases, n = 4000, 20
	}
	r.Rule = "SETATTR/CREATE/MKDIR/SYMLINK with every sattr3 uid/gid combination over ids {0,7,1000,65534}, credentials {root, user, user with gid 0, root with gid 5, AUTH_NONE, nobody}, squash modes {root, all, none, mixed case}; half of the histories sent over one record-marking connection (served by the real connection loop) with the identities alternating on it, the rest as separate HandleCall invocations; backend Chown/Lchown arguments and recorded owners of new objects checked"
	for i := 0; i < ncases; i++ {
		c := genC11(rng, 3+rng.Intn(n))
		vs := judgeC11(c)
		r.noteCase(fmt.Sprint(c.strings()), true)
		r.count("squash:" + strings.ToLower(c.Cfg.Squash))
		for _, o := range c.Ops {
			r.count("op:" + o.Kind)
		}
		if len(vs) > 0 {
			reportCase(r, c, vs, judgeC11)
		}
		if i < 2 {
			r.sample(c.strings())
		}
	}
}
