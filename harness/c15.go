package main

// C15 — arbitrary client bytes cannot crash, desynchronise or exhaust the server. A real server (Export:
// record-marking TCP) is fed streams made of valid calls, mutated calls, truncations at every point, random
// bytes and records with huge declared lengths. The Lean call decoder (Rpc.decCall, the model of
// DecodeRPCCall proved allocation-bounded in C12) says which records are decodable calls; the reply stream of
// each connection must be an in-order, duplicate-free subsequence of the decodable calls' XIDs up to the
// first undecodable record, every well-formed NFS call among them must be answered, the connection must be
// closed once the stream is undecodable, the heap must not grow beyond the record bound per message, and a
// probe connection must be served afterwards.

import (
	"encoding/binary"
	"encoding/json"
	"fmt"
	"io"
	"math/rand"
	"net"
	"runtime"
	"strings"
	"time"

	"github.com/absfs/absnfs"
)

func init() {
	checks["C15"] = checkC15
	replays["C15"] = func(r *Result, raw json.RawMessage) {
		var rp struct {
			Case c15Stream `json:"case"`
			Ops  []string  `json:"ops"`
		}
		if err := json.Unmarshal(raw, &rp); err != nil {
			r.Notes = append(r.Notes, "replay: "+err.Error())
			return
		}
		if len(rp.Ops) > 0 && rp.Ops[0] == "rate-limited-pipeline" {
			rateLimitedPipeline(r)
			return
		}
		if len(rp.Ops) > 0 && rp.Ops[0] == "extreme-arguments" {
			extremeArgsProbe(r)
			return
		}
		if len(rp.Ops) > 0 && strings.HasPrefix(rp.Ops[0], "NULL; call with credential flavour") {
			env := newC15Env()
			defer env.close()
			refusedCallsThenReload(r, env, encAuthSys(0, []byte("c"), 0, 0, nil))
			return
		}
		env := newC15Env()
		defer env.close()
		judgeC15(r, env, []c15Stream{rp.Case})
	}
}

// maxRecordBytes is DefaultMaxRecordSize (regenerated into Gen.defaultMaxRecordSize and pinned by Props.C15)
const maxRecordBytes = 1 << 20

type c15Rec struct {
	Payload []byte `json:"payload"`         // the record's bytes (one RPC message, possibly nonsense)
	Frags   []int  `json:"frags,omitempty"` // split points for multi-fragment framing
	Raw     []byte `json:"raw,omitempty"`   // if set: these bytes are sent verbatim instead of a framed record
	Valid   bool   `json:"valid"`           // a well-formed NFS/MOUNT call: must be answered
	Xid     uint32 `json:"xid"`
}

type c15Stream struct {
	Recs []c15Rec `json:"recs"`
}

func (s c15Stream) strings() []string {
	var out []string
	for _, q := range s.Recs {
		if q.Raw != nil {
			out = append(out, fmt.Sprintf("raw %x", trunc(q.Raw, 64)))
		} else {
			out = append(out, fmt.Sprintf("rec valid=%v xid=%d frags=%v %x", q.Valid, q.Xid, q.Frags, trunc(q.Payload, 64)))
		}
	}
	return out
}

func trunc(b []byte, n int) []byte {
	if len(b) > n {
		return b[:n]
	}
	return b
}

func frame(payload []byte, splits []int) []byte {
	var out []byte
	prev := 0
	for _, s := range splits {
		if s <= prev || s >= len(payload) {
			continue
		}
		out = append(out, u32(uint32(s-prev))...)
		out = append(out, payload[prev:s]...)
		prev = s
	}
	out = append(out, u32(0x80000000|uint32(len(payload)-prev))...)
	return append(out, payload[prev:]...)
}

type c15Env struct {
	w    *World
	port int
	root uint64
}

func newC15Env() *c15Env {
	fs := NewRefFS()
	seedFS(fs, []string{"mkdir /d", "file /f " + hx([]byte("0123456789"))})
	w := newWorldOn(fs, SrvCfg{AttrTTL: 5e9})
	w.realClock = true
	absnfs.VerifClockOff()
	if err := w.srv.NFS.Export("/", 0); err != nil {
		panic(err)
	}
	return &c15Env{w: w, port: absnfs.VerifExportPort(w.srv.NFS), root: w.root}
}

func (e *c15Env) close() { w := e.w; w.srv.NFS.Unexport(); w.srv.Close() }

// play sends the stream on one connection and returns the XIDs of the replies, in order, and whether the
// server closed the connection.
func (e *c15Env) play(s c15Stream, expectClose bool) (xids []uint32, closed bool, malformedReply bool) {
	conn, err := net.DialTimeout("tcp", fmt.Sprintf("127.0.0.1:%d", e.port), 2*time.Second)
	if err != nil {
		return nil, false, false
	}
	defer conn.Close()
	// how long to wait for more after the last byte: a stream with a record the server must refuse is expected to
	// end with the server hanging up, which a loaded machine may take a while to do (the wait ends at once when it
	// does); a clean stream just ends after its last reply
	idle := 400 * time.Millisecond
	if expectClose {
		idle = 5 * time.Second
	}
	done := make(chan struct{})
	go func() {
		defer close(done)
		for {
			var rec []byte
			for {
				var hdr [4]byte
				conn.SetReadDeadline(time.Now().Add(idle))
				if _, err := io.ReadFull(conn, hdr[:]); err != nil {
					if err == io.EOF || strings.Contains(err.Error(), "reset") {
						closed = true
					}
					return
				}
				h := binary.BigEndian.Uint32(hdr[:])
				n := h & 0x7fffffff
				if n > 4<<20 {
					malformedReply = true
					return
				}
				buf := make([]byte, n)
				if _, err := io.ReadFull(conn, buf); err != nil {
					malformedReply = true
					return
				}
				rec = append(rec, buf...)
				if h&0x80000000 != 0 {
					break
				}
			}
			if len(rec) < 8 || binary.BigEndian.Uint32(rec[4:]) != 1 {
				malformedReply = true
				return
			}
			xids = append(xids, binary.BigEndian.Uint32(rec))
		}
	}()
	for _, q := range s.Recs {
		conn.SetWriteDeadline(time.Now().Add(5 * time.Second))
		var err error
		if q.Raw != nil {
			_, err = conn.Write(q.Raw)
		} else {
			_, err = conn.Write(frame(q.Payload, q.Frags))
		}
		if err != nil {
			break
		}
	}
	<-done
	return
}

func (e *c15Env) probe() bool {
	return conformantClient(e.port) == "rm"
}

func judgeC15(r *Result, env *c15Env, streams []c15Stream) {
	// ask the model which payloads are decodable calls
	var mc []Case
	for _, s := range streams {
		var ops []string
		for _, q := range s.Recs {
			if q.Raw != nil {
				ops = append(ops, "rpc deccall -")
			} else {
				ops = append(ops, "rpc deccall "+hx(q.Payload))
			}
		}
		mc = append(mc, Case{Ops: ops})
	}
	model, err := runModel(mc)
	if err != nil {
		r.Mismatches = append(r.Mismatches, Mismatch{Stream: "deccall", Index: -1, Model: err.Error()})
		return
	}
	// the connection-loop model's prediction for every stream made of whole records
	var loopCases []Case
	var loopIdx []int
	for i, s := range streams {
		whole := true
		line := "loop serve"
		for _, q := range s.Recs {
			if q.Raw != nil || len(q.Payload) == 0 || len(q.Payload) > maxRecordBytes {
				whole = false
				break
			}
			line += " " + hx(q.Payload)
		}
		if whole {
			loopCases = append(loopCases, Case{Ops: []string{line}})
			loopIdx = append(loopIdx, i)
		}
	}
	loopOut, lerr := runModel(loopCases)
	if lerr != nil {
		r.Mismatches = append(r.Mismatches, Mismatch{Stream: "loop", Index: -1, Model: lerr.Error()})
		return
	}
	loopWant := map[int]string{}
	for k, i := range loopIdx {
		loopWant[i] = loopOut[k][0]
	}
	for i, s := range streams {
		var ms runtime.MemStats
		runtime.GC()
		runtime.ReadMemStats(&ms)
		before := ms.TotalAlloc
		expectClose := false
		for j, q := range s.Recs {
			if q.Raw != nil || !strings.HasPrefix(model[i][j], "some") || len(q.Payload) > maxRecordBytes {
				expectClose = q.Raw == nil
				break
			}
		}
		xids, closed, badReply := env.play(s, expectClose)
		runtime.ReadMemStats(&ms)
		grown := ms.TotalAlloc - before
		r.Compared++
		r.noteCase(fmt.Sprint(s.strings()), true)
		bad := func(class, what string) {
			for _, ex := range r.Violations {
				if ex.Class == class {
					return
				}
			}
			r.violate(Violation{Class: class, What: what, Ops: s.strings(), Case: s})
		}
		// expected: decodable calls up to the first undecodable record
		var expect []uint32
		var must []uint32
		undecodableAt := -1
		sent := 0
		for j, q := range s.Recs {
			sent += len(q.Payload) + len(q.Raw) + 8
			if q.Raw != nil || !strings.HasPrefix(model[i][j], "some") || len(q.Payload) > maxRecordBytes {
				// not a decodable call, or a record larger than DefaultMaxRecordSize (however it is fragmented):
				// it must not be reassembled and answered
				undecodableAt = j
				break
			}
			var xid uint32
			fmt.Sscanf(model[i][j], "some xid=%d", &xid)
			expect = append(expect, xid)
			if q.Valid {
				must = append(must, xid)
			}
		}
		if want, ok := loopWant[i]; ok {
			var l []string
			for _, x := range xids {
				l = append(l, fmt.Sprint(x))
			}
			cl := 0
			if closed {
				cl = 1
			}
			got := fmt.Sprintf("xids=%s closed=%d", strings.Join(l, ","), cl)
			// the client closes its side after the last record; "closed" is only meaningful when the model predicts a close
			if strings.HasSuffix(want, "closed=0") {
				got = fmt.Sprintf("xids=%s closed=0", strings.Join(l, ","))
			}
			if got != want {
				r.Mismatches = append(r.Mismatches, Mismatch{Stream: "loop", Ops: s.strings(), Index: 0, Impl: got, Model: want})
			}
		}
		if badReply {
			bad("malformed-reply-stream", "the server's reply stream is not a sequence of record-marked RPC replies")
		}
		// in-order duplicate-free subsequence
		k := 0
		for _, x := range xids {
			for k < len(expect) && expect[k] != x {
				k++
			}
			if k == len(expect) {
				bad("unexpected-reply", fmt.Sprintf("reply with xid %d is not the answer to a decodable call in arrival order (decodable calls: %v, replies: %v)", x, expect, xids))
				break
			}
			k++
		}
		got := map[uint32]int{}
		for _, x := range xids {
			got[x]++
		}
		for _, x := range must {
			if got[x] == 0 {
				bad("valid-call-unanswered", fmt.Sprintf("well-formed call xid %d before any undecodable record got no reply (replies: %v)", x, xids))
				break
			}
		}
		if undecodableAt >= 0 && !closed && s.Recs[undecodableAt].Raw == nil {
			bad("undecodable-stream-not-closed", fmt.Sprintf("record %d is not a decodable call but the connection stayed open", undecodableAt))
		}
		// allocation: the record reader may hold one record (1 MiB bound) plus copies made while decoding and replying
		if limit := uint64(8<<20) + 6*uint64(sent); grown > limit {
			bad("allocation-beyond-bounds", fmt.Sprintf("a stream of %d bytes made the process allocate %d bytes", sent, grown))
		}
		r.count(fmt.Sprintf("replies:%d", len(xids)))
		if !env.probe() {
			bad("probe-not-served", "after the stream a fresh conformant client is no longer served")
			return
		}
	}
}

func checkC15(r *Result, rng *rand.Rand, thorough bool) {
	extremeArgsProbe(r)
	rateLimitedPipeline(r)
	env := newC15Env()
	defer env.close()
	r.Rule = "streams over a real record-marking TCP connection: valid NFS/MOUNT calls for every procedure, each mutated (byte flips, field overwrites with 0/0xffffffff/0x7fffffff), truncated at every point, reframed into fragments (including empty ones), interleaved with random bytes, records with huge declared fragment/opaque/auth lengths, records over the 1 MiB limit assembled from small fragments; decodability decided by the Lean model of DecodeRPCCall; reply XID sequence, connection closure, allocation per stream and a probe client checked"
	xid := uint32(1000)
	cred := encAuthSys(0, []byte("c"), 0, 0, nil)
	mk := func(prog, vers, proc uint32, args []byte) c15Rec {
		xid++
		return c15Rec{Payload: cat(encCallHdr(xid, 2, prog, vers, proc, 1, cred, 0, nil), args), Valid: true, Xid: xid}
	}
	root := env.root
	valid := func() []c15Rec {
		return []c15Rec{
			mk(progNFS, 3, 0, nil), mk(progMount, 3, 1, xdrOpaque([]byte("/"))), mk(progNFS, 3, 1, fh(root)),
			mk(progNFS, 3, 3, argDirop(root, "f")), mk(progNFS, 3, 4, cat(fh(root), u32(63))), mk(progNFS, 3, 6, argRead(root+2, 0, 4)),
			mk(progNFS, 3, 7, argWrite(root+2, 0, 3, 2, []byte("abc"))), mk(progNFS, 3, 8, argCreate(root, "n", 0, Sattr{}, nil)),
			mk(progNFS, 3, 9, argMkdir(root, "m", Sattr{})), mk(progNFS, 3, 10, argSymlink(root, "s", Sattr{}, "f")), mk(progNFS, 3, 12, argDirop(root, "n")),
			mk(progNFS, 3, 13, argDirop(root, "m")), mk(progNFS, 3, 14, argRename(root, "s", root, "t")), mk(progNFS, 3, 16, argReaddir(root, 0, zeroVerf, 4096)),
			mk(progNFS, 3, 17, argReaddirplus(root, 0, zeroVerf, 4096, 8192)), mk(progNFS, 3, 18, fh(root)), mk(progNFS, 3, 19, fh(root)),
			mk(progNFS, 3, 20, fh(root)), mk(progNFS, 3, 21, argCommit(root+2, 0, 0)), mk(progNFS, 3, 2, argSetattr(root+2, Sattr{Mode: p32(0o600)}, nil)),
			mk(progNFS, 3, 5, fh(root)), mk(progNFS, 3, 11, cat(fh(root), xdrOpaque([]byte("x")), u32(6))), mk(progNFS, 3, 15, cat(fh(root), fh(root), xdrOpaque([]byte("l")))),
			mk(progMount, 3, 5, nil), mk(progMount, 3, 2, nil), mk(progNFS, 3, 99, nil), mk(200000, 1, 0, nil),
		}
	}
	var streams []c15Stream
	// 1. all valid, various framings
	{
		v := valid()
		s := c15Stream{}
		for _, q := range v {
			if rng.Intn(2) == 0 {
				q.Frags = []int{1 + rng.Intn(len(q.Payload))}
			}
			s.Recs = append(s.Recs, q)
		}
		streams = append(streams, s)
	}
	nmut := 60
	if thorough {
		nmut = 600
	}
	// 2. mutations: a few valid calls, one mutated record, more valid calls
	for i := 0; i < nmut; i++ {
		v := valid()
		q := v[rng.Intn(len(v))]
		m := append([]byte{}, q.Payload...)
		switch rng.Intn(5) {
		case 0:
			for k := 0; k < 1+rng.Intn(4); k++ {
				m[rng.Intn(len(m))] ^= byte(1 << uint(rng.Intn(8)))
			}
		case 1:
			off := 4 * rng.Intn(len(m)/4)
			copy(m[off:], u32([]uint32{0, 0xffffffff, 0x7fffffff, 0x80000000, 401, 8193, 1 << 20}[rng.Intn(7)]))
		case 2:
			m = m[:rng.Intn(len(m))]
		case 3:
			m = append(m, randBytes(rng, 1+rng.Intn(40))...)
		case 4:
			m = randBytes(rng, rng.Intn(120))
		}
		mq := c15Rec{Payload: m, Xid: q.Xid}
		if rng.Intn(3) == 0 && len(m) > 2 {
			mq.Frags = []int{rng.Intn(len(m)), rng.Intn(len(m))}
		}
		s := c15Stream{Recs: []c15Rec{v[0], v[2], mq, v[3], v[17]}}
		streams = append(streams, s)
	}
	// 3. every truncation point of one framed valid call (the stream ends mid-record)
	{
		v := valid()
		full := frame(v[3].Payload, nil)
		step := 3
		if thorough {
			step = 1
		}
		for cut := 0; cut < len(full); cut += step {
			streams = append(streams, c15Stream{Recs: []c15Rec{v[0], {Raw: full[:cut]}}})
		}
	}
	// 4. huge declared lengths
	for _, h := range []uint32{0xffffffff, 0x7fffffff, 0x80100001, 0x80100000, 0x800fffff, 0x00100000, 0x7fffffff &^ 0x80000000, 0x80000000, 0} {
		streams = append(streams, c15Stream{Recs: []c15Rec{valid()[0], {Raw: append(u32(h), randBytes(rng, 16)...)}}})
	}
	for _, l := range []uint32{0xffffffff, 0x7fffffff, 401, 1 << 20, 1 << 24} {
		xid++
		pl := cat(u32(xid), u32(0), u32(2), u32(progNFS), u32(3), u32(1), u32(1), u32(l), randBytes(rng, 32))
		streams = append(streams, c15Stream{Recs: []c15Rec{valid()[0], {Payload: pl, Xid: xid}, valid()[2]}})
		xid++
		pl2 := cat(encCallHdr(xid, 2, progNFS, 3, 3, 1, cred, 0, nil), fh(root), u32(l), randBytes(rng, 16))
		streams = append(streams, c15Stream{Recs: []c15Rec{valid()[0], {Payload: pl2, Xid: xid}, valid()[2]}})
		xid++
		pl3 := cat(encCallHdr(xid, 2, progNFS, 3, 7, 1, cred, 0, nil), fh(root+2), u64(0), u32(l), u32(2), u32(l), randBytes(rng, 16))
		streams = append(streams, c15Stream{Recs: []c15Rec{valid()[0], {Payload: pl3, Xid: xid}, valid()[2]}})
	}
	// 4a. an AUTH_SYS credential of 20 bytes that declares 2^30 .. 2^32-1 auxiliary gids
	for _, cnt := range []uint32{17, 1 << 30, 1<<30 + 3, 1 << 31, 0xffffffff} {
		xid++
		base := encAuthSys(1, []byte("h"), 2, 3, nil)
		body := append(base[:len(base)-4], u32(cnt)...)
		pl := encCallHdr(xid, 2, progNFS, 3, 0, 1, body, 0, nil)
		streams = append(streams, c15Stream{Recs: []c15Rec{valid()[0], {Payload: pl, Xid: xid}, valid()[2]}})
	}
	// 4b. records over the 1 MiB record limit built from fragments that are each well below it: a valid NULL call
	// (trailing argument bytes are ignored by NULL, so the record would be answered if it were accepted) padded
	// to 1.25 MiB / 3 MiB and sent in 3 / 7 fragments, with valid calls before and after
	for _, total := range []int{1<<20 + 1, 1<<20 + 1<<18, 3 << 20} {
		xid++
		pl := cat(encCallHdr(xid, 2, progNFS, 3, 0, 1, cred, 0, nil), make([]byte, total-40-len(cred)))
		nf := 3
		if total > 2<<20 {
			nf = 7
		}
		var fr []int
		for k := 1; k < nf; k++ {
			fr = append(fr, k*len(pl)/nf)
		}
		streams = append(streams, c15Stream{Recs: []c15Rec{valid()[0], {Payload: pl, Frags: fr, Xid: xid}, valid()[2]}})
	}
	// 5. pure noise
	for i := 0; i < nmut/6; i++ {
		streams = append(streams, c15Stream{Recs: []c15Rec{{Raw: randBytes(rng, 1+rng.Intn(200))}}})
	}
	judgeC15(r, env, streams)
	r.sample(fmt.Sprintf("%d streams", len(streams)))
	refusedCallsThenReload(r, env, cred)
}

// refusedCallsThenReload: calls the server refuses at the RPC level (an unsupported credential flavour, a garbled
// AUTH_SYS body) are answered once and must leave nothing behind: afterwards an operator's policy reload completes
// and old and new connections are still served. (A refusal path that keeps the policy read-lock shows nothing until
// the next reload, which then never returns while every other call is told to retry.)
func refusedCallsThenReload(r *Result, env *c15Env, cred []byte) {
	xid := uint32(0x51510000)
	null := func() c15Rec {
		xid++
		return c15Rec{Payload: encCallHdr(xid, 2, progNFS, 3, 0, 1, cred, 0, nil), Xid: xid}
	}
	xid++
	dh := c15Rec{Payload: encCallHdr(xid, 2, progNFS, 3, 1, 3, []byte{0, 0, 0, 0}, 0, nil), Xid: xid} // AUTH_DH
	xid++
	garbled := c15Rec{Payload: encCallHdr(xid, 2, progNFS, 3, 1, 1, []byte{1, 2, 3}, 0, nil), Xid: xid}
	for _, st := range []c15Stream{{Recs: []c15Rec{null(), dh, null()}}, {Recs: []c15Rec{null(), garbled, null()}}} {
		env.play(st, false)
		r.count("refused-then-reload")
	}
	n := env.w.srv.NFS
	o := n.GetExportOptions()
	_, hung := returnsInTime(func() error {
		return n.UpdatePolicyOptions(absnfs.PolicyOptions{ReadOnly: o.ReadOnly, Secure: o.Secure, AllowedIPs: o.AllowedIPs, Squash: o.Squash,
			MaxFileSize: o.MaxFileSize, EnableRateLimiting: o.EnableRateLimiting, RateLimitConfig: o.RateLimitConfig, TLS: o.TLS})
	})
	ops := []string{"NULL; call with credential flavour 3 (AUTH_DH); NULL", "NULL; call with a 3-byte AUTH_SYS body; NULL", "UpdatePolicyOptions(unchanged policy)"}
	if hung {
		r.violate(Violation{Class: "C15/stops-serving-after-refused-call", What: "after calls that were refused at the RPC level, a policy reload with an unchanged policy did not return within 5 s (a refusal path kept the policy lock): every other connection is told to retry for as long as it waits", Ops: ops})
		return
	}
	if !env.probe() {
		r.violate(Violation{Class: "C15/stops-serving-after-refused-call", What: "after refused calls and a policy reload a conformant client on a new connection is no longer served", Ops: ops})
	}
}

// ---- extreme but well-formed arguments, in a child process ----
// Every procedure that takes numbers from the client is called on live handles with boundary values (cookies,
// offsets, counts, sizes, masks at 2^31, 2^32-1, 2^63-1, 2^63, 2^64-1; maximal names). A panic in a handler
// goroutine kills the whole process, so the calls run in a child: the parent learns which call it was.

func init() {
	children["c15-extreme"] = func(args []string) {
		env := newC15Env()
		root := env.root
		dirH, _ := env.w.handleFor("/d", rootCred())
		fileH, _ := env.w.handleFor("/f", rootCred())
		conn, err := net.DialTimeout("tcp", fmt.Sprintf("127.0.0.1:%d", env.port), 2*time.Second)
		if err != nil {
			fmt.Println("step dial: " + err.Error())
			return
		}
		defer conn.Close()
		xid := uint32(5000)
		for _, c := range extremeCalls(root, dirH, fileH) {
			xid++
			fmt.Printf("step %s\n", c.desc)
			_, err := rmCall(conn, xid, c.prog, 3, c.proc, c.args)
			if err != nil {
				// the server may refuse and even close the connection; what it must not do is die
				conn.Close()
				conn, err = net.DialTimeout("tcp", fmt.Sprintf("127.0.0.1:%d", env.port), 2*time.Second)
				if err != nil {
					fmt.Println("step reconnect-failed: " + err.Error())
					return
				}
			}
			fmt.Println("ok")
		}
		if conformantClient(env.port) != "rm" {
			fmt.Println("step probe-client-not-served")
			return
		}
		fmt.Println("ok")
	}
}

type extremeCall struct {
	desc       string
	prog, proc uint32
	args       []byte
}

func extremeCalls(root, dirH, fileH uint64) []extremeCall {
	var out []extremeCall
	big64 := []uint64{1 << 31, 1<<32 - 1, 1 << 32, 1<<63 - 1, 1 << 63, 1<<63 + 1, 1<<64 - 1}
	big32 := []uint32{0, 1, 1<<31 - 1, 1 << 31, 1<<32 - 1}
	for _, d := range []uint64{root, dirH, fileH} {
		for _, ck := range big64 {
			for _, cnt := range []uint32{0, 4096, 1<<32 - 1} {
				out = append(out, extremeCall{fmt.Sprintf("READDIR handle=%d cookie=%d count=%d", d, ck, cnt), progNFS, 16, argReaddir(d, ck, zeroVerf, cnt)})
				out = append(out, extremeCall{fmt.Sprintf("READDIRPLUS handle=%d cookie=%d maxcount=%d", d, ck, cnt), progNFS, 17, argReaddirplus(d, ck, zeroVerf, cnt, cnt)})
			}
		}
	}
	for _, off := range append([]uint64{0, 5, 10, 11}, big64...) {
		for _, cnt := range big32 {
			out = append(out, extremeCall{fmt.Sprintf("READ offset=%d count=%d", off, cnt), progNFS, 6, argRead(fileH, off, cnt)})
			out = append(out, extremeCall{fmt.Sprintf("COMMIT offset=%d count=%d", off, cnt), progNFS, 21, argCommit(fileH, off, cnt)})
		}
		if off >= 1<<31 {
			out = append(out, extremeCall{fmt.Sprintf("WRITE offset=%d 3 bytes", off), progNFS, 7, argWrite(fileH, off, 3, 2, []byte("abc"))})
			out = append(out, extremeCall{fmt.Sprintf("WRITE offset=%d count field %d with 3 bytes", off, uint32(off)), progNFS, 7, argWrite(fileH, off, uint32(off), 2, []byte("abc"))})
			sz := off
			out = append(out, extremeCall{fmt.Sprintf("SETATTR size=%d", off), progNFS, 2, argSetattr(fileH, Sattr{Size: &sz}, nil)})
			out = append(out, extremeCall{fmt.Sprintf("CREATE size=%d", off), progNFS, 8, argCreate(root, "big", 0, Sattr{Size: &sz}, nil)})
		}
	}
	for _, m := range big32 {
		out = append(out, extremeCall{fmt.Sprintf("ACCESS mask=%d", m), progNFS, 4, cat(fh(root), u32(m))})
		mm := m
		out = append(out, extremeCall{fmt.Sprintf("SETATTR mode=%d uid=%d", m, m), progNFS, 2, argSetattr(fileH, Sattr{Mode: &mm, UID: &mm, GID: &mm}, nil)})
		out = append(out, extremeCall{fmt.Sprintf("CREATE how=%d", m), progNFS, 8, cat(argDirop(root, "h"), u32(m))})
		out = append(out, extremeCall{fmt.Sprintf("WRITE stable=%d", m), progNFS, 7, argWrite(fileH, 0, 3, m, []byte("abc"))})
		out = append(out, extremeCall{fmt.Sprintf("MKNOD type=%d", m), progNFS, 11, cat(argDirop(root, "n"), u32(m))})
	}
	for _, n := range []int{255, 256, 8192, 8193} {
		name := strings.Repeat("n", n)
		out = append(out, extremeCall{fmt.Sprintf("LOOKUP name of %d bytes", n), progNFS, 3, argDirop(root, name)},
			extremeCall{fmt.Sprintf("SYMLINK target of %d bytes", n), progNFS, 10, argSymlink(root, "s", Sattr{}, name)},
			extremeCall{fmt.Sprintf("RENAME to a name of %d bytes", n), progNFS, 14, argRename(root, "f", root, name)},
			extremeCall{fmt.Sprintf("MNT path of %d bytes", n), progMount, 1, xdrOpaque([]byte("/" + name))})
	}
	return out
}

// extremeArgsProbe runs the child and reports the step that killed it, if any.
func extremeArgsProbe(r *Result) {
	lines, stderr, finished := runChild("c15-extreme")
	steps := 0
	last := ""
	for _, l := range lines {
		if strings.HasPrefix(l, "step ") {
			steps++
			last = strings.TrimPrefix(l, "step ")
		}
	}
	r.noteCase("extreme-arguments", true)
	r.Histogram["extreme-argument-calls"] += steps
	if finished && (len(lines) < 2 || lines[len(lines)-2] == "ok") {
		return
	}
	what := fmt.Sprintf("the server process died (or stopped serving) during the well-formed call %q", last)
	if strings.HasPrefix(last, "probe-client") || strings.HasPrefix(last, "reconnect-failed") || strings.HasPrefix(last, "dial") {
		what = "after the boundary-value calls the server no longer serves a conformant client: " + last
	}
	r.violate(Violation{Class: "C15/server-died", What: what, Detail: stderr, Ops: []string{"extreme-arguments"}})
}

// rateLimitedPipeline: "answers each decodable call at most once" also when the connection loop refuses calls
// itself: a burst of pipelined NULL calls beyond the per-connection limit; every XID is answered exactly once
// (accepted or MSG_DENIED), nothing else arrives.
func rateLimitedPipeline(r *Result) {
	cfg := absnfs.DefaultRateLimiterConfig()
	cfg.PerConnectionRequestsPerSecond, cfg.PerConnectionBurstSize = 1, 3
	s, err := newSrv(NewRefFS(), absnfs.ExportOptions{EnableRateLimiting: true, RateLimitConfig: &cfg})
	must(err)
	defer s.Close()
	p := servePeer(s, "10.3.3.3", 900)
	defer p.Close()
	const calls = 8
	var out []byte
	cred := encAuthSys(0, []byte("c"), 0, 0, nil)
	for i := 0; i < calls; i++ {
		out = append(out, frame(cat(encCallHdr(uint32(7000+i), 2, progNFS, 3, 0, 1, cred, 0, nil)), nil)...)
	}
	go func() { p.c.SetWriteDeadline(time.Now().Add(5 * time.Second)); p.c.Write(out) }()
	seen := map[uint32]int{}
	total := 0
	for {
		var hdr [4]byte
		p.c.SetReadDeadline(time.Now().Add(1500 * time.Millisecond))
		if _, err := io.ReadFull(p.c, hdr[:]); err != nil {
			break
		}
		n := binary.BigEndian.Uint32(hdr[:]) & 0x7fffffff
		if n > 1<<20 {
			break
		}
		buf := make([]byte, n)
		if _, err := io.ReadFull(p.c, buf); err != nil {
			break
		}
		total++
		if len(buf) >= 4 {
			seen[binary.BigEndian.Uint32(buf)]++
		}
		if total > 4*calls {
			break
		}
	}
	r.noteCase("rate-limited-pipeline", true)
	r.Histogram["rate-limited-pipeline-replies"] += total
	for i := 0; i < calls; i++ {
		if n := seen[uint32(7000+i)]; n > 1 {
			r.violate(Violation{Class: "C15/call-answered-twice", What: fmt.Sprintf("%d pipelined NULL calls against a per-connection burst of 3: %d replies arrived, xid %d was answered %d times", calls, total, 7000+i, n), Ops: []string{"rate-limited-pipeline"}})
			return
		}
	}
}
