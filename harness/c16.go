package main

// C16 — drain-and-swap. The interleaving is controlled from outside: every backend call of a request blocks on a
// gate of the reference backend until the schedule releases it, UpdatePolicyOptions runs in its own goroutine,
// and the same schedule is fed to the Lean `Drain` model. Policies are identified by their MaxFileSize value.
// A second part opens a real record-marking connection *before* a policy update and checks that the update's
// rate limiting governs it afterwards.

import (
	"encoding/binary"
	"encoding/json"
	"fmt"
	"math/rand"
	"net"
	"sort"
	"strings"
	"sync"
	"time"

	"github.com/absfs/absnfs"
)

func init() {
	checks["C16"] = checkC16
	c16ops := opsReplay("drain", runDrainOps, func(r *Result, ops, impl []string) { drainOracle(r, ops, impl) })
	replays["C16"] = func(r *Result, raw json.RawMessage) {
		var rp struct {
			Ops []string `json:"ops"`
		}
		json.Unmarshal(raw, &rp)
		switch {
		case len(rp.Ops) > 0 && strings.HasPrefix(rp.Ops[0], "UpdatePolicyOptions(AllowedIPs="):
			policyValueFrozenAtUpdate(r)
		case len(rp.Ops) > 0 && rp.Ops[0] == "limiter-follows-update":
			limiterFollowsUpdate(r)
		case len(rp.Ops) > 0 && rp.Ops[0] == "mid-drain-every-procedure":
			midDrainEveryProcedure(r)
		default:
			c16ops(r, raw)
		}
	}
}

type drainEnv struct {
	fs       *RefFS
	s        *Srv
	handles  map[int]uint64
	gates    map[string]chan struct{} // path -> release channel
	atGate   map[string]chan struct{} // path -> signalled when the request reached the backend
	mu       sync.Mutex
	replies  map[int]chan string
	admitted map[int]int64
	updDone  chan struct{}
}

func newDrainEnv() *drainEnv {
	e := &drainEnv{fs: NewRefFS(), handles: map[int]uint64{}, gates: map[string]chan struct{}{}, atGate: map[string]chan struct{}{},
		replies: map[int]chan string{}, admitted: map[int]int64{}}
	e.fs.logOn = false
	for i := 0; i < 8; i++ {
		f, _ := e.fs.Create(fmt.Sprintf("/f%d", i))
		f.Close()
	}
	s, err := newSrv(e.fs, absnfs.ExportOptions{Timeouts: &absnfs.TimeoutConfig{DefaultTimeout: 150 * time.Millisecond}})
	must(err)
	e.s = s
	root, _ := s.Mount("/")
	for i := 0; i < 8; i++ {
		e.handles[i], _ = s.Lookup(root, fmt.Sprintf("f%d", i), rootCred())
	}
	e.fs.gate = func(call string) {
		if !strings.HasPrefix(call, "Lstat /f") {
			return
		}
		p := strings.TrimPrefix(call, "Lstat ")
		e.mu.Lock()
		g, ok := e.gates[p]
		a := e.atGate[p]
		e.mu.Unlock()
		if !ok {
			return
		}
		select {
		case a <- struct{}{}:
		default:
		}
		<-g
	}
	return e
}

func (e *drainEnv) policyID() int64 { return e.s.NFS.GetExportOptions().MaxFileSize }

func runDrainOps(ops []string) []string {
	e := newDrainEnv()
	defer func() {
		// release everything still gated, then close
		e.mu.Lock()
		for _, g := range e.gates {
			select {
			case <-g:
			default:
				close(g)
			}
		}
		e.mu.Unlock()
		time.Sleep(5 * time.Millisecond)
		e.s.Close()
	}()
	out := make([]string, len(ops))
	active := map[int]bool{}
	for i, op := range ops {
		f := strings.Fields(op)
		switch f[1] {
		case "reset":
			out[i] = "ok"
		case "req":
			var r int
			fmt.Sscan(f[2], &r)
			if r < 0 || r >= 8 || active[r] {
				out[i] = "bad-op"
				continue
			}
			p := fmt.Sprintf("/f%d", r)
			e.mu.Lock()
			e.gates[p] = make(chan struct{})
			e.atGate[p] = make(chan struct{}, 1)
			at := e.atGate[p]
			e.mu.Unlock()
			pol := e.policyID()
			done := make(chan string, 1)
			e.replies[r] = done
			h := e.handles[r]
			go func() {
				// each request gets its own Srv view (own xid counter) over the same handler
				s2 := &Srv{NFS: e.s.NFS, H: e.s.H, S: e.s.S, IP: "127.0.0.1", Port: 700}
				rep := s2.NFSCall(1, rootCred(), fh(h))
				switch {
				case rep.Err != nil:
					done <- "timeout"
				case len(rep.Data) == 4 && status(rep) == 10008:
					done <- "jukebox"
				default:
					done <- fmt.Sprintf("status=%d", status(rep))
				}
			}()
			select {
			case <-at:
				active[r] = true
				e.admitted[r] = pol
				out[i] = fmt.Sprintf("admitted %d", pol)
			case res := <-done:
				e.mu.Lock()
				delete(e.gates, p)
				e.mu.Unlock()
				if res == "jukebox" {
					out[i] = "refused"
				} else {
					out[i] = "unexpected:" + res
				}
			case <-time.After(2 * time.Second):
				out[i] = "stuck"
			}
		case "upd":
			var p int64
			fmt.Sscan(f[2], &p)
			if e.updDone != nil {
				select {
				case <-e.updDone:
				default:
					out[i] = "bad-op"
					continue
				}
			}
			e.updDone = make(chan struct{})
			d := e.updDone
			go func() {
				e.s.NFS.UpdatePolicyOptions(absnfs.PolicyOptions{MaxFileSize: p})
				close(d)
			}()
			time.Sleep(15 * time.Millisecond) // let the updater reach Lock()
			out[i] = "started"
		case "release":
			var r int
			fmt.Sscan(f[2], &r)
			if !active[r] {
				out[i] = "bad-op"
				continue
			}
			p := fmt.Sprintf("/f%d", r)
			inforce := e.policyID() // policy in force while the request performs its backend operation
			e.mu.Lock()
			g := e.gates[p]
			delete(e.gates, p)
			e.mu.Unlock()
			close(g)
			delete(active, r)
			select {
			case <-e.replies[r]:
			case <-time.After(2 * time.Second):
			}
			time.Sleep(15 * time.Millisecond) // let a waiting updater finish if it now can
			out[i] = fmt.Sprintf("backend admitted=%d inforce=%d", e.admitted[r], inforce)
		case "wait":
			// longer than the RPC-level timeout (150 ms): every request still inside the backend has by now been
			// abandoned by its caller ("operation timed out"), but is still executing under the policy it was admitted with
			time.Sleep(220 * time.Millisecond)
			out[i] = "ok"
		case "state":
			upd := "idle"
			if e.updDone != nil {
				select {
				case <-e.updDone:
				default:
					upd = "waiting"
				}
			}
			out[i] = fmt.Sprintf("upd=%s policy=%d active=%d", upd, e.policyID(), len(active))
		default:
			out[i] = "bad-op"
		}
	}
	return out
}

func drainOracle(r *Result, ops, impl []string) {
	pre := func(i int) []string { return append([]string(nil), ops[:i+1]...) }
	updRunning := false
	var pending int64
	act := 0
	for i, op := range ops {
		f := strings.Fields(op)
		switch f[1] {
		case "req":
			if strings.HasPrefix(impl[i], "admitted") {
				act++
				if updRunning {
					r.violate(Violation{Class: "C16/admitted-mid-drain", What: "a request was admitted while a policy update was waiting for in-flight requests", Ops: pre(i)})
				}
			} else if impl[i] == "refused" {
				if !updRunning {
					r.violate(Violation{Class: "C16/refused-without-drain", What: "a request got the retry-later reply although no update was in progress", Ops: pre(i)})
				}
			} else if impl[i] != "bad-op" {
				r.violate(Violation{Class: "C16/unexpected-reply", What: "request outcome: " + impl[i], Ops: pre(i)})
			}
		case "upd":
			if impl[i] == "started" {
				updRunning = true
				fmt.Sscan(f[2], &pending)
				if act == 0 {
					updRunning = false
				}
			}
		case "release":
			var a, p int64
			if n, _ := fmt.Sscanf(impl[i], "backend admitted=%d inforce=%d", &a, &p); n == 2 {
				act--
				if a != p {
					r.violate(Violation{Class: "C16/ran-under-other-policy", What: fmt.Sprintf("a request admitted under policy %d performed its backend operation while policy %d was in force", a, p), Ops: pre(i)})
				}
				if act == 0 {
					updRunning = false
				}
			}
		case "state":
			var upd string
			var pol int64
			var n int
			fmt.Sscanf(impl[i], "upd=%s policy=%d active=%d", &upd, &pol, &n)
			if upd == "idle" && updRunning {
				r.violate(Violation{Class: "C16/update-returned-early", What: fmt.Sprintf("UpdatePolicyOptions returned while %d requests admitted under the old policy were still executing", act), Ops: pre(i)})
			}
			if upd == "waiting" && act == 0 {
				r.violate(Violation{Class: "C16/update-stuck", What: "UpdatePolicyOptions has not returned although no request is in flight", Ops: pre(i)})
			}
		}
	}
}

func genDrainCase(rng *rand.Rand, n int) []string {
	ops := []string{"drain reset"}
	active := map[int]bool{}
	upd := false
	next := int64(1)
	for len(ops) < n {
		switch x := rng.Intn(10); {
		case x < 4:
			r := rng.Intn(8)
			if active[r] {
				continue
			}
			ops = append(ops, fmt.Sprintf("drain req %d", r))
			if !upd {
				active[r] = true
			}
		case x < 6 && !upd:
			ops = append(ops, fmt.Sprintf("drain upd %d", next))
			next++
			upd = len(active) > 0
		case x < 9 && len(active) > 0:
			for r := range active {
				ops = append(ops, fmt.Sprintf("drain release %d", r))
				delete(active, r)
				break
			}
			if len(active) == 0 {
				upd = false
			}
		default:
			if len(active) > 0 && rng.Intn(3) == 0 {
				ops = append(ops, "drain wait")
			}
			ops = append(ops, "drain state")
		}
	}
	for r := range active {
		ops = append(ops, fmt.Sprintf("drain release %d", r))
	}
	ops = append(ops, "drain state")
	return ops
}

// limiterFollowsUpdate: a connection opened (and used) before a rate-limiting update is judged by the new
// configuration afterwards — whether limiting was off, on with generous limits, or on with tight limits before.
func limiterFollowsUpdate(r *Result) {
	gen := absnfs.DefaultRateLimiterConfig()
	gen.GlobalRequestsPerSecond, gen.PerIPRequestsPerSecond, gen.PerIPBurstSize = 100000, 100000, 100000
	gen.PerConnectionRequestsPerSecond, gen.PerConnectionBurstSize = 100000, 100000
	tight := absnfs.DefaultRateLimiterConfig()
	tight.PerIPRequestsPerSecond, tight.PerIPBurstSize = 1, 2
	tight.PerConnectionRequestsPerSecond = 0
	type step struct {
		name   string
		policy absnfs.PolicyOptions
		maxOK  int // at most this many of 8 immediate calls may be accepted afterwards (8: all must be)
	}
	scenarios := map[string][]step{
		"off->tight":           {{"off", absnfs.PolicyOptions{EnableRateLimiting: false}, 8}, {"tight", absnfs.PolicyOptions{EnableRateLimiting: true, RateLimitConfig: &tight}, 3}},
		"generous->tight":      {{"generous", absnfs.PolicyOptions{EnableRateLimiting: true, RateLimitConfig: &gen}, 8}, {"tight", absnfs.PolicyOptions{EnableRateLimiting: true, RateLimitConfig: &tight}, 3}},
		"tight->generous":      {{"tight", absnfs.PolicyOptions{EnableRateLimiting: true, RateLimitConfig: &tight}, 3}, {"generous", absnfs.PolicyOptions{EnableRateLimiting: true, RateLimitConfig: &gen}, 8}},
		"default->tight":       {{"tight", absnfs.PolicyOptions{EnableRateLimiting: true, RateLimitConfig: &tight}, 3}},
		"generous->off->tight": {{"generous", absnfs.PolicyOptions{EnableRateLimiting: true, RateLimitConfig: &gen}, 8}, {"off", absnfs.PolicyOptions{EnableRateLimiting: false}, 8}, {"tight", absnfs.PolicyOptions{EnableRateLimiting: true, RateLimitConfig: &tight}, 3}},
	}
	names := make([]string, 0, len(scenarios))
	for k := range scenarios {
		names = append(names, k)
	}
	sort.Strings(names)
	for _, name := range names {
		steps := scenarios[name]
		func() {
			fs := NewRefFS()
			n, err := absnfs.New(fs, absnfs.ExportOptions{})
			must(err)
			defer n.Close()
			s, err := absnfs.NewServer(absnfs.ServerOptions{Port: 0, Hostname: "127.0.0.1", UseRecordMarking: true})
			must(err)
			s.SetHandler(n)
			must(s.Listen())
			defer s.Stop()
			conn, err := net.DialTimeout("tcp", fmt.Sprintf("127.0.0.1:%d", s.GetPort()), 2*time.Second)
			must(err)
			defer conn.Close()
			xid := uint32(1)
			if _, err := rmCall(conn, xid, progNFS, 3, 0, nil); err != nil {
				r.Notes = append(r.Notes, "limiter check skipped: "+err.Error())
				return
			}
			for _, st := range steps {
				cur := n.GetExportOptions()
				p := st.policy
				p.Squash, p.ReadOnly, p.Secure, p.AllowedIPs = cur.Squash, cur.ReadOnly, cur.Secure, cur.AllowedIPs
				must(n.UpdatePolicyOptions(p))
				accepted := 0
				t0 := time.Now()
				for i := 0; i < 8; i++ {
					xid++
					rep, err := rmCall(conn, xid, progNFS, 3, 0, nil)
					if err != nil {
						break
					}
					if be32(rep[8:]) != 1 {
						accepted++
					}
				}
				r.noteCase("limiter-follows-update "+name+" "+st.name, true)
				r.count("limiter-follows-update")
				// burst 2 at 1/s: two at once plus one per elapsed second (the calls normally take milliseconds)
				if st.maxOK < 8 && accepted > st.maxOK+int(time.Since(t0)/time.Second) {
					r.violate(Violation{Class: "C16/old-connection-not-limited", What: fmt.Sprintf("scenario %s: after the update to %q (per-IP burst 2, 1/s) returned, a connection opened and used before it had %d of 8 immediate calls accepted", name, st.name, accepted),
						Ops: []string{"limiter-follows-update"}})
				}
				if st.maxOK == 8 && accepted < 8 {
					r.violate(Violation{Class: "C16/old-connection-keeps-old-limits", What: fmt.Sprintf("scenario %s: after the update to %q returned, a connection opened and used before it had only %d of 8 calls accepted (still judged by the earlier configuration)", name, st.name, accepted),
						Ops: []string{"limiter-follows-update"}})
				}
				time.Sleep(5 * time.Millisecond)
			}
		}()
	}
	r.sample(map[string]any{"scenario": "a connection opened and used, then successive UpdatePolicyOptions (off / generous / tight limits) each followed by 8 NULL calls on the old connection", "scenarios": names})
}

func checkC16(r *Result, rng *rand.Rand, thorough bool) {
	r.Rule = "schedules of request arrival / backend-call release / UpdatePolicyOptions start over up to 8 concurrent requests and successive policy values, driven through gates in the reference backend (short DefaultTimeout so callers time out while their goroutine still holds the lock), same schedule fed to the model; plus a real TCP connection opened before a rate-limiting update; non-trivial = schedule contains an update started while a request is in flight; distinct = distinct schedules"
	ncases, n := 12, 14
	if thorough {
		ncases, n = 150, 24
	}
	var cases []Case
	var impl [][]string
	for i := 0; i < ncases; i++ {
		ops := genDrainCase(rng, n)
		im := runDrainOps(ops)
		drainOracle(r, ops, im)
		cases = append(cases, Case{Ops: ops})
		impl = append(impl, im)
		nt := false
		for _, l := range im {
			if l == "refused" {
				nt = true
				r.count("refused-mid-drain")
			}
			if strings.HasPrefix(l, "admitted") {
				r.count("admitted")
			}
		}
		r.noteCase(strings.Join(ops, ";"), nt)
		if i < 2 {
			r.sample(map[string]any{"ops": ops, "impl": im})
		}
	}
	limiterFollowsUpdate(r)
	midDrainEveryProcedure(r)
	policyValueFrozenAtUpdate(r)
	compareWithModel(r, "drain", cases, impl, nil)
}

// midDrainEveryProcedure: "requests arriving mid-drain get a retry-later reply" for every procedure a client can
// send. One GETATTR is held inside the backend, an update is started (it waits for the drain), then one call of each
// NFSv3 procedure 1..21 and MOUNT MNT arrives: each must be an accepted reply whose result carries NFS3ERR_JUKEBOX
// (MOUNT: a non-zero mountstat3), never PROC_UNAVAIL, GARBAGE_ARGS or an ordinary result.
func midDrainEveryProcedure(r *Result) {
	e := newDrainEnv()
	p := "/f0"
	e.mu.Lock()
	e.gates[p] = make(chan struct{})
	e.atGate[p] = make(chan struct{}, 1)
	at, gate := e.atGate[p], e.gates[p]
	e.mu.Unlock()
	held := make(chan struct{})
	go func() {
		s2 := &Srv{NFS: e.s.NFS, H: e.s.H, S: e.s.S, IP: "127.0.0.1", Port: 700}
		s2.NFSCall(1, rootCred(), fh(e.handles[0]))
		close(held)
	}()
	select {
	case <-at:
	case <-time.After(2 * time.Second):
		r.Notes = append(r.Notes, "mid-drain scenario skipped: the held request never reached the backend")
		close(gate)
		e.s.Close()
		return
	}
	updDone := make(chan struct{})
	go func() {
		e.s.NFS.UpdatePolicyOptions(absnfs.PolicyOptions{MaxFileSize: 77})
		close(updDone)
	}()
	time.Sleep(30 * time.Millisecond) // let the updater reach Lock()
	h := e.handles[1]
	args := map[uint32][]byte{1: fh(h), 2: argSetattr(h, Sattr{}, nil), 3: argDirop(h, "x"), 4: cat(fh(h), u32(1)), 5: fh(h), 6: argRead(h, 0, 1),
		7: argWrite(h, 0, 1, 2, []byte("x")), 8: argCreate(h, "x", 0, Sattr{}, nil), 9: argMkdir(h, "x", Sattr{}), 10: argSymlink(h, "x", Sattr{}, "t"),
		11: cat(argDirop(h, "x"), u32(6)), 12: argDirop(h, "x"), 13: argDirop(h, "x"), 14: argRename(h, "x", h, "y"), 15: cat(fh(h), argDirop(h, "x")),
		16: argReaddir(h, 0, zeroVerf, 4096), 17: argReaddirplus(h, 0, zeroVerf, 4096, 8192), 18: fh(h), 19: fh(h), 20: fh(h), 21: argCommit(h, 0, 0)}
	s2 := &Srv{NFS: e.s.NFS, H: e.s.H, S: e.s.S, IP: "127.0.0.1", Port: 701}
	for proc := uint32(1); proc <= 21; proc++ {
		select {
		case <-updDone:
			r.Notes = append(r.Notes, "mid-drain scenario cut short: the update returned while a request was still held")
			proc = 99
			continue
		default:
		}
		rep := s2.NFSCall(proc, rootCred(), args[proc])
		r.noteCase(fmt.Sprint("mid-drain proc ", proc), true)
		r.count("mid-drain-procedure")
		ok := rep.Err == nil && rep.Status == 0 && rep.AcceptStatus == 0 && len(rep.Data) >= 4 && binary.BigEndian.Uint32(rep.Data) == 10008
		if !ok {
			st := uint32(0)
			if len(rep.Data) >= 4 {
				st = binary.BigEndian.Uint32(rep.Data)
			}
			r.violate(Violation{Class: "C16/mid-drain-not-retry-later", What: fmt.Sprintf("NFS procedure %d arriving while an update waits for the drain: err=%v reply_stat=%d accept_stat=%d status=%d, want an accepted reply carrying NFS3ERR_JUKEBOX (10008)", proc, rep.Err, rep.Status, rep.AcceptStatus, st),
				Ops: []string{"mid-drain-every-procedure"}})
			break
		}
	}
	close(gate)
	select {
	case <-held:
	case <-time.After(2 * time.Second):
	}
	select {
	case <-updDone:
	case <-time.After(3 * time.Second):
	}
	e.s.Close()
}

// policyValueFrozenAtUpdate: "every later request is judged under the new policy" — the policy that was handed to the
// update, as it was when the update returned. A caller that re-uses the value it passed (its AllowedIPs slice, its
// RateLimiterConfig) while preparing the next policy, or one that is then rejected, changes nothing: there was no
// drain and no swap.
func policyValueFrozenAtUpdate(r *Result) {
	fs := NewRefFS()
	s, err := newSrv(fs, absnfs.ExportOptions{})
	must(err)
	defer s.Close()
	admitted := func(ip string) bool {
		s.IP = ip
		rep := s.Call(progNFS, 3, 0, rootCred(), nil)
		return rep.Err == nil && rep.Status == 0
	}
	cur := s.NFS.GetExportOptions()
	ips := []string{"192.0.2.10", "192.0.2.11"}
	rl := absnfs.DefaultRateLimiterConfig()
	pol := absnfs.PolicyOptions{Squash: cur.Squash, AllowedIPs: ips, RateLimitConfig: &rl}
	must(s.NFS.UpdatePolicyOptions(pol))
	ops := []string{"UpdatePolicyOptions(AllowedIPs=[192.0.2.10 192.0.2.11])"}
	r.count("policy-value-frozen")
	r.noteCase("policy-value-frozen", true)
	if !admitted("192.0.2.10") || admitted("198.51.100.20") {
		r.violate(Violation{Class: "C16/policy-not-applied", What: "after UpdatePolicyOptions returned, requests are not judged under the AllowedIPs it installed", Ops: ops})
		return
	}
	// the caller re-uses its slice and its limiter configuration for the next policy …
	ips[0] = "198.51.100.20"
	rl.GlobalRequestsPerSecond = 1
	ops = append(ops, "caller overwrites its own slice element 0 with 198.51.100.20 (no update call)")
	if !admitted("192.0.2.10") || admitted("198.51.100.20") {
		r.violate(Violation{Class: "C16/policy-changed-without-update", What: "the policy requests are judged under changed although no update ran (no drain, no swap): the installed policy shares memory with the value the caller passed", Ops: ops})
		return
	}
	// … including one that is then rejected
	ips2 := []string{"203.0.113.5"}
	bad := absnfs.PolicyOptions{Squash: "all", AllowedIPs: ips2}
	if cur.Squash == "all" {
		bad.Squash = "root"
	}
	if err := s.NFS.UpdatePolicyOptions(bad); err == nil {
		r.Notes = append(r.Notes, "policy-value-frozen: an update changing Squash was accepted")
	}
	ops = append(ops, "UpdatePolicyOptions(Squash changed, AllowedIPs=[203.0.113.5]) -> rejected")
	if !admitted("192.0.2.10") || admitted("203.0.113.5") {
		r.violate(Violation{Class: "C16/rejected-update-took-effect", What: "after a REJECTED update, requests are judged under the rejected policy", Ops: ops})
	}
	if got := s.NFS.GetExportOptions().AllowedIPs; len(got) != 2 || got[0] != "192.0.2.10" {
		r.violate(Violation{Class: "C16/policy-changed-without-update", What: fmt.Sprintf("GetExportOptions reports AllowedIPs=%v after the caller changed its own slice", got), Ops: ops})
	}
}
