package main

// C09 (host filter + secure port gate) and C10 (credential flavors + squashing).

import (
	"bytes"
	"encoding/binary"
	"encoding/json"
	"fmt"
	"math/big"
	"math/rand"
	"net"
	"strconv"
	"strings"
	"sync"
	"sync/atomic"
	"time"

	"github.com/absfs/absnfs"
)

func init() {
	checks["C09"] = checkC09
	checks["C10"] = checkC10
	c09ops := opsReplay("hostfilter", runAuthOps, func(r *Result, ops, impl []string) {
		for i := range ops {
			hostOracle(r, ops[i], impl[i])
		}
	})
	replays["C09"] = func(r *Result, raw json.RawMessage) {
		var rp struct {
			Ops []string `json:"ops"`
		}
		json.Unmarshal(raw, &rp)
		if len(rp.Ops) > 0 && rp.Ops[0] == "late-admission" {
			lateAdmission(r, 150)
			return
		}
		if len(rp.Ops) > 0 && strings.HasPrefix(rp.Ops[0], "gate ") {
			gateCheck(r, rand.New(rand.NewSource(1))) // the gate scenarios are a fixed table: replayed as a whole
			return
		}
		c09ops(r, raw)
	}
	c10ops := opsReplay("squash", runAuthOps, func(r *Result, ops, impl []string) {
		for i := range ops {
			squashOracle(r, ops[i], impl[i])
		}
	})
	replays["C10"] = func(r *Result, raw json.RawMessage) {
		var rp struct {
			Ops []string `json:"ops"`
		}
		json.Unmarshal(raw, &rp)
		if len(rp.Ops) > 0 && strings.HasPrefix(rp.Ops[0], "applied ") {
			var mode string
			var c Cred
			fmt.Sscanf(rp.Ops[0], "applied %s %d %d %d", &mode, &c.Flavor, &c.UID, &c.GID)
			via := strings.HasSuffix(rp.Ops[0], "via=true")
			w := newWorld(SrvCfg{Squash: mode, AttrTTL: time.Nanosecond, ViaConn: via})
			w.noTrace = true
			if via {
				appliedOne(r, w, mode, Cred{Flavor: 1, UID: 0, GID: 0}, "f-root-first")
			}
			appliedOne(r, w, mode, c, "f")
			w.Close()
			return
		}
		c10ops(r, raw)
	}
}

// Op lines carry both the text the real code sees and the parsed form the model sees:
//   auth allowed <client-model> <entries-model...> ## <client-text> <entries-text...>
//   auth validate <client-model> <secure> <port> <flavor> <bodyhex> <squashhex> <entries-model...> ## <client-text> <entries-text,...>
// everything after "##" is ignored by the model driver? No — the driver parses whole lines, so the text part
// is kept in a side table keyed by the model line.

func ip128(ip net.IP) *big.Int { return new(big.Int).SetBytes(ip.To16()) }

func clientModel(text string) string {
	ip := net.ParseIP(text)
	if ip == nil {
		return "bad"
	}
	return "n:" + ip128(ip).String()
}

func entryModel(text string) string {
	if strings.Contains(text, "/") {
		_, n, err := net.ParseCIDR(text)
		if err != nil {
			return "bad"
		}
		if ip4 := n.IP.To4(); ip4 != nil {
			m := n.Mask
			if len(m) == 16 {
				m = m[12:]
			}
			ones, _ := net.IPMask(m).Size()
			return fmt.Sprintf("c4:%d/%d", new(big.Int).SetBytes(ip4).Uint64(), ones)
		}
		ones, _ := n.Mask.Size()
		return fmt.Sprintf("c6:%s/%d", ip128(n.IP).String(), ones)
	}
	ip := net.ParseIP(text)
	if ip == nil {
		return "bad"
	}
	return "s:" + ip128(ip).String()
}

func mkAllowedOp(client string, entries []string) string {
	parts := []string{"auth", "allowed", clientModel(client)}
	for _, e := range entries {
		parts = append(parts, entryModel(e))
	}
	return strings.Join(parts, " ") + " #" + hx([]byte(client+"\x01"+encEntries(entries)))
}

func mkValidateOp(client string, secure bool, port int, flavor uint32, body []byte, squash string, entries []string) string {
	sec := "0"
	if secure {
		sec = "1"
	}
	parts := []string{"auth", "validate", clientModel(client), sec, strconv.Itoa(port), fmt.Sprint(flavor), hx(body), hx([]byte(squash))}
	for _, e := range entries {
		parts = append(parts, entryModel(e))
	}
	return strings.Join(parts, " ") + " #" + hx([]byte(client+"\x01"+encEntries(entries)))
}

// textOf recovers the address texts the real code is given from the trailing "#<hex>" token (which the
// model driver ignores).
func textOf(op string) (string, []string) {
	i := strings.LastIndex(op, " #")
	if i < 0 {
		return "", nil
	}
	raw := string(unhx(op[i+2:]))
	client, rest, _ := strings.Cut(raw, "\x01")
	var es []string
	if rest != "" {
		es = strings.Split(rest[1:], "\x00")
	}
	return client, es
}

func encEntries(entries []string) string {
	s := ""
	for _, e := range entries {
		s += "\x00" + e
	}
	return s
}

var filterNFS *absnfs.AbsfsNFS
var filterSrv *absnfs.Server

func runAuthOp(op string) string {
	f := strings.Fields(op)
	client, entries := textOf(op)
	switch f[1] {
	case "allowed":
		// the three places the membership rule lives: auth.go filter (via ValidateAuthentication with
		// AUTH_NONE), auth.go:isIPAllowed directly, and the accept-time Server filter.
		pol := &absnfs.PolicyOptions{AllowedIPs: entries}
		cred := &absnfs.RPCCredential{Flavor: 0}
		res := absnfs.ValidateAuthentication(&absnfs.AuthContext{ClientIP: client, ClientPort: 5000, Credential: cred}, pol)
		a := res.Allowed
		b := len(entries) == 0 || absnfs.VerifAuthIPAllowed(client, entries)
		if filterSrv == nil {
			n, err := absnfs.New(NewRefFS(), absnfs.ExportOptions{})
			must(err)
			filterNFS = n
			_, filterSrv = absnfs.VerifNewProcHandler(n, false)
		}
		must(filterNFS.UpdatePolicyOptions(absnfs.PolicyOptions{AllowedIPs: entries}))
		c := absnfs.VerifServerIPAllowed(filterSrv, client)
		if a != b || b != c {
			return fmt.Sprintf("inconsistent validate=%v auth-filter=%v server-filter=%v", a, b, c)
		}
		if a {
			return "1"
		}
		return "0"
	case "validate":
		sec := f[3] == "1"
		port, _ := strconv.Atoi(f[4])
		fl, _ := strconv.Atoi(f[5])
		body := unhx(f[6])
		sq := string(unhx(f[7]))
		pol := &absnfs.PolicyOptions{AllowedIPs: entries, Secure: sec, Squash: sq}
		ctx := &absnfs.AuthContext{ClientIP: client, ClientPort: port, Credential: &absnfs.RPCCredential{Flavor: uint32(fl), Body: body}}
		res := absnfs.ValidateAuthentication(ctx, pol)
		if !res.Allowed {
			return "denied"
		}
		var aux []string
		if ctx.AuthSys != nil {
			for _, g := range ctx.AuthSys.AuxGIDs {
				aux = append(aux, fmt.Sprint(g))
			}
		}
		return fmt.Sprintf("allowed %d %d [%s]", res.UID, res.GID, strings.Join(aux, ","))
	}
	return "bad-op"
}

func runAuthOps(ops []string) []string {
	out := make([]string, len(ops))
	for i, op := range ops {
		out[i] = runAuthOp(op)
	}
	return out
}

// hostOracle: membership on the 128-bit embedding, straight from the property statement.
func hostOracle(r *Result, op, impl string) {
	f := strings.Fields(op)
	if f[1] != "allowed" {
		return
	}
	if strings.HasPrefix(impl, "inconsistent") {
		r.violate(Violation{Class: "C09/filters-disagree", What: "request-level and connection-level filters disagree: " + impl, Ops: []string{op}, Detail: fmt.Sprint(textOf(op))})
		return
	}
	client, entries := textOf(op)
	want := len(entries) == 0
	cip := net.ParseIP(client)
	skip := false
	if !want && cip != nil {
		c := ip128(cip)
		for _, e := range entries {
			if strings.Contains(e, "/") {
				base, pfx, ok := strings.Cut(e, "/")
				bip := net.ParseIP(base)
				n, err := strconv.Atoi(pfx)
				if !ok || bip == nil || err != nil || n < 0 || pfx != strconv.Itoa(n) {
					continue
				}
				p128 := n
				if !strings.Contains(base, ":") {
					if n > 32 {
						continue
					}
					p128 = 96 + n
				} else if n > 128 {
					continue
				} else if n < 96 && cip.To4() != nil {
					// v6-text CIDR shorter than /96 against an IPv4 client: Go compares families, the
					// 128-bit embedding would not; the property does not say — not compared.
					skip = true
					continue
				}
				sh := uint(128 - p128)
				if new(big.Int).Rsh(c, sh).Cmp(new(big.Int).Rsh(ip128(bip), sh)) == 0 {
					want = true
				}
			} else if bip := net.ParseIP(e); bip != nil && ip128(bip).Cmp(c) == 0 {
				want = true
			}
		}
	}
	if skip && !want {
		r.count("oracle-skipped-v6cidr-lt96")
		return
	}
	got := impl == "1"
	if got != want {
		r.violate(Violation{Class: "C09/membership", What: fmt.Sprintf("client %q vs list %q: admitted=%v, membership rule says %v", client, entries, got, want), Ops: []string{op}, Detail: fmt.Sprint(textOf(op))})
	}
}

var ipPool = []string{"192.168.1.100", "192.168.1.1", "192.168.2.1", "10.0.0.1", "10.255.255.255", "127.0.0.1", "0.0.0.0", "255.255.255.255",
	"::ffff:192.168.1.100", "::ffff:10.0.0.1", "::ffff:c0a8:101", "::1", "::", "fe80::1", "2001:db8::1", "2001:db8:0:1::5", "ffff:ffff:ffff:ffff:ffff:ffff:ffff:ffff",
	"0:0:0:0:0:ffff:0a00:0001", "64:ff9b::a00:1"}
var badIPs = []string{"", "not-an-ip", "192.168.1", "192.168.1.256", "1.2.3.4.5", "::g", "192.168.1.100:80", " 10.0.0.1", "10.0.0.1 ", "[::1]"}

func randIP(rng *rand.Rand) string {
	switch rng.Intn(10) {
	case 0:
		return badIPs[rng.Intn(len(badIPs))]
	case 1, 2:
		return net.IP(randBytes(rng, 4)).String()
	case 3:
		return net.IP(randBytes(rng, 16)).String()
	case 4:
		b := randBytes(rng, 4)
		return "::ffff:" + net.IP(b).String()
	}
	return ipPool[rng.Intn(len(ipPool))]
}

func randEntry(rng *rand.Rand, near string) string {
	switch rng.Intn(8) {
	case 0:
		return []string{"192.168.1.0/33", "10.0.0.0/-1", "garbage/24", "10.0.0.0/", "/24", "::/129", "10.0.0.0/8/8", "1.2.3.4/0x8"}[rng.Intn(8)]
	case 1:
		return badIPs[rng.Intn(len(badIPs))]
	case 2, 3: // CIDR around the client
		ip := net.ParseIP(near)
		if ip == nil {
			ip = net.ParseIP("192.168.1.100")
		}
		if ip4 := ip.To4(); ip4 != nil && rng.Intn(4) != 0 {
			b := append([]byte(nil), ip4...)
			if rng.Intn(2) == 0 {
				b[rng.Intn(4)] ^= byte(1 << uint(rng.Intn(8)))
			}
			if rng.Intn(5) == 0 { // written in mapped form
				return fmt.Sprintf("::ffff:%s/%d", net.IP(b).String(), 96+rng.Intn(33))
			}
			return fmt.Sprintf("%s/%d", net.IP(b).String(), rng.Intn(33))
		}
		b := append([]byte(nil), ip.To16()...)
		if rng.Intn(2) == 0 {
			b[rng.Intn(16)] ^= byte(1 << uint(rng.Intn(8)))
		}
		return fmt.Sprintf("%s/%d", net.IP(b).String(), rng.Intn(129))
	case 4:
		return near
	}
	return randIP(rng)
}

func checkC09(r *Result, rng *rand.Rand, thorough bool) {
	r.Rule = "(client address text, AllowedIPs list) pairs: every IPv4 prefix length 0..32 and IPv6 0..128 around a client, with one flipped bit inside/outside the prefix, IPv4-mapped forms, malformed clients and entries, random lists; plus Secure x port boundary; plus HandleCall with a recording backend for denied requests; non-trivial = list non-empty; distinct = distinct op lines"
	var ops []string
	// systematic: every prefix length, client inside and just outside
	base4 := net.ParseIP("203.0.113.77").To4()
	for n := 0; n <= 32; n++ {
		for _, flip := range []int{-1, n - 1, n, 31} { // bit index to flip in the client (-1: none)
			c := append([]byte(nil), base4...)
			if flip >= 0 && flip < 32 {
				c[flip/8] ^= 0x80 >> uint(flip%8)
			}
			for _, form := range []string{"%s", "::ffff:%s"} {
				ops = append(ops, mkAllowedOp(fmt.Sprintf(form, net.IP(c).String()), []string{fmt.Sprintf("203.0.113.77/%d", n)}))
			}
			ops = append(ops, mkAllowedOp(net.IP(c).String(), []string{"bogus", fmt.Sprintf("::ffff:203.0.113.77/%d", 96+n)}))
		}
	}
	base6 := net.ParseIP("2001:db8:a:b:c:d:e:f")
	step := 1
	if !thorough {
		step = 3
	}
	for n := 0; n <= 128; n += step {
		for _, flip := range []int{-1, n - 1, n, 127} {
			c := append([]byte(nil), base6...)
			if flip >= 0 && flip < 128 {
				c[flip/8] ^= 0x80 >> uint(flip%8)
			}
			ops = append(ops, mkAllowedOp(net.IP(c).String(), []string{fmt.Sprintf("2001:db8:a:b:c:d:e:f/%d", n)}))
		}
	}
	nr := 4000
	if thorough {
		nr = 200000
	}
	for i := 0; i < nr; i++ {
		c := randIP(rng)
		var es []string
		for k := rng.Intn(5); k > 0; k-- {
			es = append(es, randEntry(rng, c))
		}
		ops = append(ops, mkAllowedOp(c, es))
	}
	// secure-port boundary through ValidateAuthentication
	for _, port := range []int{0, 1, 1022, 1023, 1024, 1025, 65535} {
		for _, sec := range []bool{false, true} {
			for _, fl := range []uint32{0, 1} {
				ops = append(ops, mkValidateOp("10.0.0.1", sec, port, fl, encAuthSys(1, []byte("h"), 1000, 1000, nil), "none", nil))
				ops = append(ops, mkValidateOp("10.0.0.1", sec, port, fl, encAuthSys(1, []byte("h"), 1000, 1000, nil), "none", []string{"10.0.0.0/8"}))
				ops = append(ops, mkValidateOp("10.0.0.1", sec, port, fl, encAuthSys(1, []byte("h"), 1000, 1000, nil), "none", []string{"11.0.0.0/8"}))
			}
		}
	}
	impl := runAuthOps(ops)
	for i, op := range ops {
		hostOracle(r, op, impl[i])
		_, es := textOf(op)
		r.noteCase(op, len(es) > 0)
		r.count(strings.Fields(op)[1] + "=" + strings.Fields(impl[i])[0])
		f := strings.Fields(op)
		if f[1] == "validate" && f[3] == "1" {
			port, _ := strconv.Atoi(f[4])
			if port >= 1024 && impl[i] != "denied" {
				r.violate(Violation{Class: "C09/secure-port", What: fmt.Sprintf("Secure export admitted a request from port %d", port), Ops: []string{op}})
			}
		}
		if i%(len(ops)/6+1) == 0 {
			c, e := textOf(op)
			r.sample(map[string]any{"client": c, "allowed_ips": e, "admitted": impl[i]})
		}
	}
	// HandleCall gate: a denied request gets MSG_DENIED and no backend call, for every program/procedure
	gateCheck(r, rng)
	rounds := 12
	if thorough {
		rounds = 150
	}
	lateAdmission(r, rounds)
	var cases []Case
	var il [][]string
	for i := 0; i < len(ops); i += 2000 {
		j := min(i+2000, len(ops))
		cases = append(cases, Case{Ops: ops[i:j]})
		il = append(il, impl[i:j])
	}
	compareWithModel(r, "hostfilter", cases, il, runAuthOps)
}

func gateCheck(r *Result, rng *rand.Rand) {
	fs := NewRefFS()
	must(fs.Mkdir("/d", 0o755))
	for _, cfg := range []struct {
		name string
		opt  absnfs.ExportOptions
		ip   string
		port int
		deny bool
		// roundtrip: before the probes, do the documented read-modify-write of an unrelated option
		// (GetExportOptions, IdleTimeout += 1s, UpdateExportOptions): the access policy must survive it
		roundtrip bool
	}{
		{"ip-denied", absnfs.ExportOptions{AllowedIPs: []string{"10.0.0.0/8"}}, "192.168.1.1", 700, true, false},
		{"ip-mapped-denied", absnfs.ExportOptions{AllowedIPs: []string{"10.0.0.0/8"}}, "::ffff:192.168.1.1", 700, true, false},
		{"ip-allowed", absnfs.ExportOptions{AllowedIPs: []string{"10.0.0.0/8"}}, "::ffff:10.1.2.3", 700, false, false},
		{"secure-denied", absnfs.ExportOptions{Secure: true}, "10.0.0.1", 1024, true, false},
		{"secure-allowed", absnfs.ExportOptions{Secure: true}, "10.0.0.1", 1023, false, false},
		{"bad-client", absnfs.ExportOptions{AllowedIPs: []string{"0.0.0.0/0", "::/0"}}, "bogus", 700, true, false},
		{"ip-denied-after-update", absnfs.ExportOptions{AllowedIPs: []string{"10.0.0.0/8"}}, "192.168.1.1", 700, true, true},
		{"ip-allowed-after-update", absnfs.ExportOptions{AllowedIPs: []string{"10.0.0.0/8"}}, "10.1.2.3", 700, false, true},
		{"secure-denied-after-update", absnfs.ExportOptions{Secure: true}, "10.0.0.1", 50000, true, true},
		{"secure-allowed-after-update", absnfs.ExportOptions{Secure: true}, "10.0.0.1", 1023, false, true},
		{"both-denied-after-update", absnfs.ExportOptions{Secure: true, AllowedIPs: []string{"10.0.0.0/8"}}, "10.0.0.1", 2049, true, true},
		// a non-empty list that names no address (what splitting an unset environment variable yields, or typos):
		// the filter is on and nobody is listed
		{"nobody-listed-empty-entry", absnfs.ExportOptions{AllowedIPs: []string{""}}, "10.0.0.1", 700, true, false},
		{"nobody-listed-empty-entries", absnfs.ExportOptions{AllowedIPs: []string{"", ""}}, "127.0.0.1", 700, true, false},
		{"nobody-listed-garbage", absnfs.ExportOptions{AllowedIPs: []string{"not-an-address", "10.0.0.0/99", " "}}, "10.0.0.1", 700, true, false},
		{"nobody-listed-empty-entry-after-update", absnfs.ExportOptions{AllowedIPs: []string{""}}, "10.0.0.1", 700, true, true},
	} {
		s, err := newSrv(fs, cfg.opt)
		must(err)
		if cfg.roundtrip {
			o := s.NFS.GetExportOptions()
			o.IdleTimeout += time.Second
			if err := s.NFS.UpdateExportOptions(o); err != nil {
				panic("gateCheck: options round trip refused: " + err.Error())
			}
		}
		// obtain the root handle as an admitted client first
		s.IP, s.Port = "10.0.0.1", 700
		if cfg.name == "bad-client" {
			s.IP = "10.0.0.1"
		}
		root, st := s.Mount("/")
		if strings.HasPrefix(cfg.name, "nobody-listed") {
			// nobody can mount; the calls below name a handle value that would be the root's
			if st == 0 {
				r.violate(Violation{Class: "C09/gate", What: cfg.name + ": MNT from 10.0.0.1 was served although AllowedIPs lists no address", Ops: []string{"gate " + cfg.name + " prog=100005 proc=1"}})
			}
			root = 1
		} else if st != 0 {
			panic("gateCheck: mount failed")
		}
		s.IP, s.Port = cfg.ip, cfg.port
		fs.TakeLog()
		type pc struct {
			prog, vers, proc uint32
			args             []byte
		}
		calls := []pc{{progMount, 3, 0, nil}, {progMount, 3, 1, xdrOpaque([]byte("/"))}, {progMount, 3, 5, nil}, {99999, 1, 0, nil}}
		for proc := uint32(0); proc <= 22; proc++ {
			args := cat(fh(root), xdrOpaque([]byte("x")), randBytes(rng, 40))
			calls = append(calls, pc{progNFS, 3, proc, args})
		}
		for _, c := range calls {
			for _, cred := range []Cred{rootCred(), {Flavor: 0}, {Flavor: 1, UID: 1000, GID: 1000, Aux: []uint32{0}}} {
				rep := s.Call(c.prog, c.vers, c.proc, cred, c.args)
				log := fs.TakeLog()
				r.noteCase(fmt.Sprintf("gate %s %d %d %d", cfg.name, c.prog, c.proc, cred.Flavor), true)
				r.count("gate-" + cfg.name)
				if cfg.deny {
					if rep.Err != nil || rep.Status != 1 || len(log) != 0 {
						r.violate(Violation{Class: "C09/gate", What: fmt.Sprintf("%s: prog=%d proc=%d got reply_stat=%d err=%v backend calls=%v (want MSG_DENIED, none)", cfg.name, c.prog, c.proc, rep.Status, rep.Err, log),
							Ops: []string{fmt.Sprintf("gate %s prog=%d proc=%d", cfg.name, c.prog, c.proc)}})
					}
				} else if rep.Err == nil && rep.Status != 0 {
					r.violate(Violation{Class: "C09/gate-over-deny", What: fmt.Sprintf("%s: admitted client was denied (prog=%d proc=%d)", cfg.name, c.prog, c.proc)})
				}
			}
		}
		s.Close()
	}
}

// ---- C10 ----

func squashOracle(r *Result, op, impl string) {
	f := strings.Fields(op)
	if f[1] != "validate" {
		return
	}
	fl, _ := strconv.Atoi(f[5])
	body := unhx(f[6])
	sq := strings.ToLower(string(unhx(f[7])))
	_, es := textOf(op)
	if len(es) > 0 || f[3] == "1" {
		return // gate cases are C09's
	}
	fail := func(what string) {
		r.violate(Violation{Class: "C10/squash", What: what, Ops: []string{op}})
	}
	switch fl {
	case 0:
		if impl != "allowed 65534 65534 []" {
			fail("AUTH_NONE did not map to 65534/65534: " + impl)
		}
		return
	case 1:
	default:
		if impl != "denied" {
			fail(fmt.Sprintf("flavor %d was not denied: %s", fl, impl))
		}
		return
	}
	// independent AUTH_SYS parse
	rd := bytes.NewReader(body)
	rdU32 := func() (uint32, bool) {
		var b [4]byte
		if _, err := rd.Read(b[:]); err != nil || rd.Len() < 0 {
			return 0, false
		}
		return uint32(b[0])<<24 | uint32(b[1])<<16 | uint32(b[2])<<8 | uint32(b[3]), true
	}
	ok := len(body) > 0
	var uid, gid, cnt uint32
	var gids []uint32
	if ok {
		_, ok = rdU32()
	}
	if ok {
		var l uint32
		l, ok = rdU32()
		pl := int64(l+3) &^ 3
		if ok && (l > 8192 || pl > int64(rd.Len())) {
			ok = false
		}
		if ok {
			rd.Seek(pl, 1)
		}
	}
	if ok {
		uid, ok = rdU32()
	}
	if ok && rd.Len() >= 4 {
		gid, ok = rdU32()
	} else {
		ok = false
	}
	if ok && rd.Len() >= 4 {
		cnt, ok = rdU32()
	} else {
		ok = false
	}
	if ok && cnt > 16 {
		ok = false
	}
	for i := uint32(0); ok && i < cnt; i++ {
		if rd.Len() < 4 {
			ok = false
			break
		}
		g, _ := rdU32()
		gids = append(gids, g)
	}
	if !ok {
		if impl != "denied" {
			fail("undecodable AUTH_SYS body was not denied: " + impl)
		}
		return
	}
	wu, wg := uid, gid
	wa := append([]uint32(nil), gids...)
	switch sq {
	case "all":
		wu, wg = 65534, 65534
		for i := range wa {
			wa[i] = 65534
		}
	case "root":
		if uid == 0 {
			wu, wg = 65534, 65534
		} else if gid == 0 {
			wg = 65534
		}
		for i := range wa {
			if wa[i] == 0 {
				wa[i] = 65534
			}
		}
	case "none", "":
	default:
		wu, wg = 65534, 65534
	}
	as := make([]string, len(wa))
	for i, g := range wa {
		as[i] = fmt.Sprint(g)
	}
	want := fmt.Sprintf("allowed %d %d [%s]", wu, wg, strings.Join(as, ","))
	if impl != want {
		fail(fmt.Sprintf("squash %q of uid=%d gid=%d aux=%v gave %q, want %q", sq, uid, gid, gids, impl, want))
	}
}

func checkC10(r *Result, rng *rand.Rand, thorough bool) {
	r.Rule = "credentials: boundary ids {0,1,65533,65534,65535,2^31,2^32-1} for uid/gid, aux lists of those up to 16 (and 17), squash modes incl. mixed case / empty / garbage / non-ASCII, flavors 0..3 and 6, every truncation of sampled bodies; aliasing checked by comparing the caller's aux array before/after; non-trivial = AUTH_SYS body decodes; distinct = distinct op lines"
	ids := []uint32{0, 1, 65533, 65534, 65535, 1 << 31, 0xffffffff, 1000}
	modes := []string{"root", "all", "none", "", "ROOT", "Root", "aLL", "NONE", "rooty", "squash", "all ", "Kroot", "ro\x00ot", "r\xffot"}
	var ops []string
	n := 1500
	if thorough {
		n = 120000
	}
	for i := 0; i < n; i++ {
		var gids []uint32
		k := []int{0, 0, 1, 2, 3, 15, 16, 17}[rng.Intn(8)]
		for j := 0; j < k; j++ {
			gids = append(gids, ids[rng.Intn(len(ids))])
		}
		body := encAuthSys(rng.Uint32(), randBytes(rng, rng.Intn(9)), ids[rng.Intn(len(ids))], ids[rng.Intn(len(ids))], gids)
		fl := uint32(1)
		if rng.Intn(6) == 0 {
			fl = []uint32{0, 2, 3, 6, 0xffffffff}[rng.Intn(5)]
		}
		if rng.Intn(10) == 0 && len(body) > 0 {
			body = body[:rng.Intn(len(body))]
		}
		if rng.Intn(25) == 0 && len(body) > 0 {
			body[rng.Intn(len(body))] ^= 0xff
		}
		ops = append(ops, mkValidateOp("10.0.0.1", false, 5000, fl, body, modes[rng.Intn(len(modes))], nil))
	}
	// every truncation of two bodies under each main mode
	for _, m := range []string{"root", "all", "none", "bogus"} {
		body := encAuthSys(7, []byte("host1"), 0, 0, []uint32{0, 5, 0})
		for k := 0; k <= len(body); k++ {
			ops = append(ops, mkValidateOp("10.0.0.1", false, 5000, 1, body[:k], m, nil))
		}
	}
	impl := runAuthOps(ops)
	for i, op := range ops {
		squashOracle(r, op, impl[i])
		r.noteCase(op, impl[i] != "denied")
		r.count(strings.Fields(impl[i])[0])
		if i%(len(ops)/6+1) == 0 {
			f := strings.Fields(op)
			r.sample(map[string]string{"flavor": f[5], "body": f[6], "squash": string(unhx(f[7])), "result": impl[i]})
		}
	}
	// aliasing: a pre-parsed credential whose aux array is shared with the caller
	for _, m := range []string{"root", "all", "none", "x", "ROOT"} {
		for trial := 0; trial < 50; trial++ {
			shared := make([]uint32, 1+rng.Intn(16))
			for j := range shared {
				shared[j] = ids[rng.Intn(len(ids))]
			}
			before := append([]uint32(nil), shared...)
			as := &absnfs.AuthSysCredential{UID: ids[rng.Intn(len(ids))], GID: ids[rng.Intn(len(ids))], AuxGIDs: shared}
			ctx := &absnfs.AuthContext{ClientIP: "10.0.0.1", ClientPort: 9, Credential: &absnfs.RPCCredential{Flavor: 1}, AuthSys: as}
			absnfs.ValidateAuthentication(ctx, &absnfs.PolicyOptions{Squash: m})
			r.noteCase(fmt.Sprint("alias", m, before), true)
			r.count("alias-check")
			for j := range shared {
				if shared[j] != before[j] {
					r.violate(Violation{Class: "C10/aux-aliasing", What: fmt.Sprintf("squash %q modified the caller's auxiliary gid array: %v -> %v", m, before, shared),
						Ops: []string{fmt.Sprintf("alias %s %v", m, before)}})
					break
				}
			}
		}
	}
	appliedIdentity(r, rng)
	var cases []Case
	var il [][]string
	for i := 0; i < len(ops); i += 2000 {
		j := min(i+2000, len(ops))
		cases = append(cases, Case{Ops: ops[i:j]})
		il = append(il, impl[i:j])
	}
	compareWithModel(r, "squash", cases, il, runAuthOps)
}

// appliedIdentity: the identity a request actually runs with, observed through the whole HandleCall path (not
// ValidateAuthentication alone): a CREATE without uid/gid in its sattr3 makes the backend record the caller's
// effective identity as the owner of the new file, so the recorded owner must be squash(mode, credential) for
// every flavor and mode spelling the constructor accepts.
func appliedIdentity(r *Result, rng *rand.Rand) {
	creds := []Cred{{Flavor: 0}, {Flavor: 0, Raw: []byte{}}, {Flavor: 1, UID: 0, GID: 0}, {Flavor: 1, UID: 1000, GID: 1000}, {Flavor: 1, UID: 1000, GID: 0},
		{Flavor: 1, UID: 0, GID: 5}, {Flavor: 1, UID: 1000, GID: 1000, Aux: []uint32{0, 2000}}, {Flavor: 1, UID: 65534, GID: 7}}
	for k, mode := range []string{"root", "all", "none", "Root", "ALL", "None", "rOOt", "none", "root", "all"} {
		// the last three runs send all their calls over ONE connection (root's first): the identity of a call is
		// that call's credential, not the connection's first
		via := k >= 7
		w := newWorld(SrvCfg{Squash: mode, AttrTTL: time.Nanosecond, ViaConn: via})
		w.noTrace = true
		order := creds
		if via {
			order = append([]Cred{{Flavor: 1, UID: 0, GID: 0}}, creds...)
		}
		for i, c := range order {
			if i >= 3 && rng.Intn(3) == 0 {
				continue
			}
			if i == 2 && k%2 == 1 {
				// an operator reloads the policy with a PolicyOptions value that does not mention Squash (what the documented
				// runtime-reconfiguration example does): the squash mode is immutable at runtime, so whether the update is
				// refused or not, the requests that follow are still squashed under the configured mode
				_ = w.srv.NFS.UpdatePolicyOptions(absnfs.PolicyOptions{ReadOnly: false})
				r.count("applied-identity:policy-reload")
			}
			appliedOne(r, w, mode, c, fmt.Sprintf("f%d", i))
		}
		w.Close()
	}
}

func appliedOne(r *Result, w *World, mode string, c Cred, name string) {
	rep := w.callRaw(progNFS, 3, 8, c, argCreate(w.root, name, 0, Sattr{}, nil))
	r.noteCase(fmt.Sprint("applied", mode, c, w.cfg.ViaConn), true)
	r.count("applied-identity")
	if rep.Err != nil || rep.Status != 0 || rep.AcceptStatus != 0 || len(rep.Data) < 4 || binary.BigEndian.Uint32(rep.Data) != 0 {
		r.count("applied-identity:create-refused")
		return
	}
	wu, wg := effectiveID(mode, Cred{Flavor: c.Flavor, UID: c.UID, GID: c.GID})
	gu, gg, ok := ownerOf(w, "/"+name)
	if !ok {
		return
	}
	if uint32(gu) != wu || uint32(gg) != wg {
		r.violate(Violation{Class: "C10/applied-identity", What: fmt.Sprintf("squash %q, flavor %d credential %d:%d: the request ran as %d:%d (owner recorded for the file it created), the squash rule gives %d:%d",
			mode, c.Flavor, c.UID, c.GID, gu, gg, wu, wg) + map[bool]string{true: " [all calls on one connection, uid 0 first]", false: ""}[w.cfg.ViaConn], Ops: []string{fmt.Sprintf("applied %s %d %d %d via=%v", mode, c.Flavor, c.UID, c.GID, w.cfg.ViaConn)}})
	}
}

// lateAdmission: the host filter gates every request under the policy in force when it is admitted. Clients
// that the current (long) allow-list admits keep sending GETATTRs while the export is switched to a list that
// excludes them (or to Secure, their port being unprivileged). Once the update has returned, no backend call may
// begin on behalf of such a client: requests admitted earlier have finished (the update drains them), later ones
// are denied. A request validated against the old policy but executed after the switch shows up as a backend
// call that starts after the update returned.
func lateAdmission(r *Result, rounds int) {
	var old []string
	for i := 0; i < 1500; i++ {
		old = append(old, fmt.Sprintf("172.%d.%d.0/24", 16+i%16, i%250), fmt.Sprintf("2001:db8:%x::/48", i))
	}
	old = append(old, "10.0.0.9")
	for round := 0; round < rounds; round++ {
		secure := round%3 == 2
		fs := NewRefFS()
		fs.logOn = false
		var updated atomic.Bool
		var late atomic.Int64
		var lateCall atomic.Value
		fs.gate = func(call string) {
			if updated.Load() {
				late.Add(1)
				lateCall.Store(call)
			}
		}
		s, err := newSrv(fs, absnfs.ExportOptions{AllowedIPs: old, AttrCacheTimeout: time.Nanosecond})
		must(err)
		s.IP, s.Port = "10.0.0.9", 5000
		root, st := s.Mount("/")
		if st != 0 {
			s.Close()
			r.Notes = append(r.Notes, "late admission: mount refused")
			return
		}
		stop := make(chan struct{})
		var wg sync.WaitGroup
		var sent atomic.Int64
		for g := 0; g < 6; g++ {
			wg.Add(1)
			go func() {
				defer wg.Done()
				for {
					select {
					case <-stop:
						return
					default:
					}
					s.NFSCall(1, rootCred(), fh(root))
					sent.Add(1)
				}
			}()
		}
		time.Sleep(time.Duration(1+round%5) * time.Millisecond)
		cur := s.NFS.GetExportOptions()
		if secure {
			cur.Secure = true
		} else {
			cur.AllowedIPs = []string{"192.0.2.1"}
		}
		uerr := s.NFS.UpdateExportOptions(cur)
		updated.Store(true)
		time.Sleep(3 * time.Millisecond)
		close(stop)
		wg.Wait()
		s.Close()
		r.noteCase(fmt.Sprint("late-admission", round), true)
		r.count("late-admission")
		r.Histogram["late-admission:requests"] += int(sent.Load())
		if uerr != nil {
			r.Notes = append(r.Notes, "late admission: update refused: "+uerr.Error())
			continue
		}
		if n := late.Load(); n > 0 {
			what := "AllowedIPs that excludes the client"
			if secure {
				what = "Secure (the client's port is 5000)"
			}
			r.violate(Violation{Class: "C09/served-after-restricting-update", What: fmt.Sprintf("%d backend call(s) (e.g. %v) began after UpdateExportOptions switching to %s had returned: a request judged under the old policy ran under the new one", n, lateCall.Load(), what),
				Ops: []string{"late-admission"}})
			return
		}
	}
}
