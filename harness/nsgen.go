package main

// Namespace history generator shared by the server-level checks. The generator keeps a shadow RefFS (the
// POSIX-like tree model) so that most requests name things that exist; it is applied with direct backend
// calls, never through the server.

import (
	"math/rand"
	"os"
	"path"
	"strings"
)

var dirFileNames = []string{"a", "b", "c", "d"}
var linkNames = []string{"l1", "l2"}

type nsGen struct {
	rng    *rand.Rand
	shadow *RefFS
	depth  int
	// knobs
	withData    bool // include read/write/setattr(size)
	withSetattr bool
	badNames    bool // include invalid names / targets
	creds       []Cred
	withMnt     bool // include MNT of existing directories under non-canonical spellings
	// tight: two names only and mostly LOOKUP/MKDIR/RMDIR/RENAME/CREATE/REMOVE, so that names are reused for
	// different objects (and looked up while absent) many times within one history
	tight bool
}

func (g *nsGen) names() []string {
	if g.tight {
		return dirFileNames[:2]
	}
	return dirFileNames
}

func (g *nsGen) tree() (dirs, files, links []string) {
	var rec func(p string)
	rec = func(p string) {
		dirs = append(dirs, p)
		ents, _ := g.shadow.ReadDir(p)
		for _, e := range ents {
			cp := join(p, e.Name())
			switch {
			case e.IsDir():
				rec(cp)
			case e.Type()&os.ModeSymlink != 0:
				links = append(links, cp)
			default:
				files = append(files, cp)
			}
		}
	}
	rec("/")
	return
}

func depthOf(p string) int {
	if p == "/" {
		return 0
	}
	n := 0
	for _, c := range p {
		if c == '/' {
			n++
		}
	}
	return n
}

func (g *nsGen) cred() Cred {
	if len(g.creds) == 0 {
		return Cred{}
	}
	return g.creds[g.rng.Intn(len(g.creds))]
}

// next produces one request and applies its POSIX effect to the shadow.
func (g *nsGen) next() SOp {
	rng := g.rng
	dirs, files, links := g.tree()
	anyObj := append(append(append([]string{}, dirs...), files...), links...)
	dir := dirs[rng.Intn(len(dirs))]
	names := g.names()
	name := names[rng.Intn(len(names))]
	// a directory the client may hold a handle for although it is gone: occasionally name a removed path
	o := SOp{Cred: g.cred()}
	k := rng.Intn(100)
	if g.tight {
		k = []int{0, 0, 0, 0, 14, 14, 24, 24, 24, 40, 48, 48, 54, 54, 54, 54, 64, 72}[rng.Intn(18)]
	}
	switch {
	case k < 14:
		o.Kind, o.Dir, o.Name = "lookup", dir, name
		if rng.Intn(5) == 0 {
			o.Name = linkNames[rng.Intn(2)]
		}
	case k < 24:
		o.Kind, o.Dir, o.Name, o.How = "create", dir, name, uint32(rng.Intn(2))
		if rng.Intn(3) == 0 {
			o.Sa.Mode = p32(uint32([]int{0o644, 0o600, 0o755, 0o4755}[rng.Intn(4)]))
		}
		if rng.Intn(4) == 0 {
			o.Sa.Size = p64(uint64(rng.Intn(12))) // open(O_CREAT|O_TRUNC)-style: only UNCHECKED over an existing file applies it
		}
		g.applyCreate(o)
	case k < 34:
		o.Kind, o.Dir, o.Name = "mkdir", dir, name
		if depthOf(dir) >= g.depth {
			o.Kind = "lookup"
			break
		}
		if rng.Intn(3) == 0 {
			o.Sa.Mode = p32(uint32([]int{0o755, 0o700, 0o777}[rng.Intn(3)]))
		}
		g.shadow.Mkdir(join(dir, name), 0o755)
	case k < 40:
		o.Kind, o.Dir, o.Name = "symlink", dir, linkNames[rng.Intn(2)]
		if rng.Intn(5) == 0 {
			o.Name = name // a link under a name files and directories use too
		}
		o.Target = []string{"a", "b", "nowhere", "a/b", "c/d/a"}[rng.Intn(5)]
		g.shadow.Symlink(o.Target, join(dir, o.Name))
	case k < 48:
		o.Kind, o.Dir, o.Name = "remove", dir, g.childName(dir, false)
		if info, err := g.shadow.Lstat(join(dir, o.Name)); err == nil && !info.IsDir() {
			g.shadow.Remove(join(dir, o.Name))
		} else if err == nil {
			o.Kind = "rmdir"
			g.shadow.Remove(join(dir, o.Name))
		}
	case k < 54:
		o.Kind, o.Dir, o.Name = "rmdir", dir, g.childName(dir, true)
		if rng.Intn(4) == 0 {
			o.Name = linkNames[rng.Intn(2)]
		}
		if info, err := g.shadow.Lstat(join(dir, o.Name)); err == nil && info.IsDir() {
			g.shadow.Remove(join(dir, o.Name))
		}
	case k < 64:
		o.Kind, o.Dir, o.Name = "rename", dir, g.childName(dir, false)
		o.Dir2 = dirs[rng.Intn(len(dirs))]
		o.Name2 = names[rng.Intn(len(names))]
		if isLinkName(o.Name) && rng.Intn(3) > 0 {
			o.Name2 = linkNames[rng.Intn(2)] // mostly links keep to their own names; sometimes one takes a file's or directory's name
		}
		if info, err := g.shadow.Lstat(join(dir, o.Name)); err == nil && info.IsDir() && depthOf(o.Dir2) >= g.depth {
			o.Dir2 = "/"
		}
		g.shadow.Rename(join(o.Dir, o.Name), join(o.Dir2, o.Name2))
	case k < 72:
		o.Kind, o.Dir, o.Count = "readdir", dir, uint32([]int{4096, 8192, 300, 512}[rng.Intn(4)])
		if rng.Intn(2) == 0 {
			o.Kind = "readdirplus"
			o.Count = uint32([]int{8192, 32768, 700, 1024}[rng.Intn(4)])
		}
	case k < 82:
		o.Kind, o.Dir = "getattr", anyObj[rng.Intn(len(anyObj))]
		if g.withMnt && rng.Intn(3) == 0 {
			// MNT names an export path: any spelling of a directory path.Clean maps to it must yield the same object
			o.Kind, o.Dir = "mnt", dir
			o.Target = mntSpelling(rng, dir)
		}
	case k < 86:
		o.Kind, o.Dir = "readlink", pick(rng, links, pick(rng, files, "/"))
	case k < 90:
		o.Kind, o.Dir, o.Mask = "access", anyObj[rng.Intn(len(anyObj))], uint32(rng.Intn(64))
	default:
		if g.withData && len(files) > 0 {
			f := files[rng.Intn(len(files))]
			switch rng.Intn(3) {
			case 0:
				if len(links) > 0 && rng.Intn(4) == 0 {
					f = links[rng.Intn(len(links))] // WRITE on the handle of a symbolic link
				}
				o.Kind, o.Dir, o.Off, o.Data = "write", f, uint64(rng.Intn(20)), randBytes(rng, 1+rng.Intn(16))
				if fl, err := g.shadow.OpenFile(f, os.O_WRONLY, 0); err == nil {
					fl.WriteAt(o.Data, int64(o.Off))
					fl.Close()
				}
			case 1:
				o.Kind, o.Dir, o.Off, o.Count = "read", f, uint64(rng.Intn(20)), uint32(rng.Intn(40))
			default:
				sz := uint64(rng.Intn(30))
				o.Kind, o.Dir, o.Sa = "setattr", f, Sattr{Size: &sz}
				g.shadow.Truncate(f, int64(sz))
			}
		} else if g.withSetattr {
			o.Kind, o.Dir = "setattr", anyObj[rng.Intn(len(anyObj))]
			if len(links) > 0 && rng.Intn(4) == 0 {
				o.Dir = links[rng.Intn(len(links))]
				if rng.Intn(3) == 0 {
					o.Sa.Size = p64(uint64(rng.Intn(4)))
				}
			}
			o.Sa.Mode = p32(uint32([]int{0o644, 0o600, 0o755, 0o700, 0o40755, 0o100644, 0o7777, 0}[rng.Intn(8)]))
			if rng.Intn(3) == 0 {
				o.Sa.UID = p32(uint32(rng.Intn(3)))
			}
		} else {
			o.Kind, o.Dir = "getattr", anyObj[rng.Intn(len(anyObj))]
		}
	}
	return o
}

func isLinkName(n string) bool { return n == "l1" || n == "l2" }

func (g *nsGen) applyCreate(o SOp) {
	p := join(o.Dir, o.Name)
	if info, err := g.shadow.Lstat(p); err == nil {
		if o.How == 0 && o.Sa.Size != nil && info.Mode().IsRegular() {
			g.shadow.Truncate(p, int64(*o.Sa.Size))
		}
		return
	}
	if f, err := g.shadow.Create(p); err == nil {
		f.Close()
	}
}

// childName picks an existing child of dir most of the time.
func (g *nsGen) childName(dir string, wantDir bool) string {
	ents, _ := g.shadow.ReadDir(dir)
	var names []string
	for _, e := range ents {
		if !wantDir || e.IsDir() {
			names = append(names, e.Name())
		}
	}
	if len(names) == 0 || g.rng.Intn(6) == 0 {
		return g.names()[g.rng.Intn(len(g.names()))]
	}
	return names[g.rng.Intn(len(names))]
}

func genNsCase(rng *rand.Rand, n int, g *nsGen) SrvCase {
	c := SrvCase{}
	g.rng = rng
	g.shadow = NewRefFS()
	if g.depth == 0 {
		g.depth = 2
	}
	// a small initial tree
	if rng.Intn(2) == 0 {
		c.Seed = append(c.Seed, "mkdir /a", "file /a/b "+hx(randBytes(rng, 5)), "file /c "+hx(randBytes(rng, 9)), "link /l1 c", "link /a/l2 nowhere")
	}
	seedFS(g.shadow, c.Seed)
	for i := 0; i < n; i++ {
		c.Ops = append(c.Ops, g.next())
	}
	// one history in four travels over one record-marking connection served by the real connection loop
	// (framing, per-call credential, peer address) instead of one HandleCall per request
	c.Cfg.ViaConn = rng.Intn(4) == 0
	return c
}

var _ = path.Join

// mntSpelling returns a way a client may spell the directory p in a MNT request (path.Clean maps all of them to p).
func mntSpelling(rng *rand.Rand, p string) string {
	if p == "/" {
		return []string{"/", "//", "/.", "/./", "///"}[rng.Intn(5)]
	}
	switch rng.Intn(7) {
	case 0:
		return p
	case 1:
		return p + "/"
	case 2:
		return "/" + p
	case 3:
		return p + "/."
	case 4:
		return "/." + p
	case 5:
		return "/" + strings.Replace(p[1:], "/", "//", 1) + "//"
	default:
		return p + "/./"
	}
}
