package main

// Server-level utilities: a real AbsfsNFS + NFSProcedureHandler over a backend, driven through HandleCall
// with real XDR argument bytes (no TCP).

import (
	"bytes"
	"encoding/binary"
	"fmt"
	"sync/atomic"

	"github.com/absfs/absfs"
	"github.com/absfs/absnfs"
)

const (
	progNFS   = 100003
	progMount = 100005
)

type Cred struct {
	Flavor uint32
	UID    uint32
	GID    uint32
	Aux    []uint32
	Raw    []byte // if non-nil, used as the credential body verbatim
}

func rootCred() Cred { return Cred{Flavor: 1, UID: 0, GID: 0} }

func (c Cred) body() []byte {
	if c.Raw != nil {
		return c.Raw
	}
	if c.Flavor != 1 {
		return nil
	}
	return encAuthSys(0, []byte("h"), c.UID, c.GID, c.Aux)
}

type Srv struct {
	FS   absfs.SymlinkFileSystem
	NFS  *absnfs.AbsfsNFS
	H    *absnfs.NFSProcedureHandler
	S    *absnfs.Server
	IP   string
	Port int
	xid  uint32
}

func newSrv(fs absfs.SymlinkFileSystem, opts absnfs.ExportOptions) (*Srv, error) {
	n, err := absnfs.New(fs, opts)
	if err != nil {
		return nil, err
	}
	h, s := absnfs.VerifNewProcHandler(n, false)
	return &Srv{FS: fs, NFS: n, H: h, S: s, IP: "127.0.0.1", Port: 700}, nil
}

func (s *Srv) Close() { s.NFS.Close() }

// Reply is the decoded outcome of one call.
type Reply struct {
	Err          error  // HandleCall returned an error (timeout)
	Status       uint32 // reply_stat
	AcceptStatus uint32
	Data         []byte // procedure results
	Wire         []byte // EncodeRPCReply bytes
	Xid          uint32
}

// Call sends one procedure call through the real HandleCall.
func (s *Srv) Call(prog, vers, proc uint32, cred Cred, args []byte) Reply {
	xid := atomic.AddUint32(&s.xid, 1)
	call := &absnfs.RPCCall{
		Header:     absnfs.RPCMsgHeader{Xid: xid, MsgType: 0, RPCVersion: 2, Program: prog, Version: vers, Procedure: proc},
		Credential: absnfs.RPCCredential{Flavor: cred.Flavor, Body: cred.body()},
		Verifier:   absnfs.RPCVerifier{Flavor: 0, Body: []byte{}},
	}
	ctx := &absnfs.AuthContext{ClientIP: s.IP, ClientPort: s.Port, Credential: &call.Credential}
	rep, err := s.H.HandleCall(call, bytes.NewReader(args), ctx)
	if err != nil {
		return Reply{Err: err, Xid: xid}
	}
	out := Reply{Status: rep.Status, AcceptStatus: rep.AcceptStatus, Xid: xid}
	if d, ok := rep.Data.([]byte); ok {
		out.Data = d
	}
	var b bytes.Buffer
	absnfs.EncodeRPCReply(&b, rep)
	out.Wire = b.Bytes()
	return out
}

func (s *Srv) NFSCall(proc uint32, cred Cred, args []byte) Reply {
	return s.Call(progNFS, 3, proc, cred, args)
}

// Mount returns the handle of the export root ("/").
func (s *Srv) Mount(p string) (uint64, uint32) {
	r := s.Call(progMount, 3, 1, rootCred(), xdrOpaque([]byte(p)))
	if r.Err != nil || len(r.Data) < 4 {
		return 0, 0xffffffff
	}
	st := binary.BigEndian.Uint32(r.Data)
	if st != 0 || len(r.Data) < 16 {
		return 0, st
	}
	return binary.BigEndian.Uint64(r.Data[8:16]), 0
}

func fh(h uint64) []byte { return append(u32(8), u64(h)...) }

func cat(bs ...[]byte) []byte {
	var out []byte
	for _, b := range bs {
		out = append(out, b...)
	}
	return out
}

func status(r Reply) uint32 {
	if len(r.Data) < 4 {
		return 0xffffffff
	}
	return binary.BigEndian.Uint32(r.Data)
}

// Lookup returns the handle for name in dir.
func (s *Srv) Lookup(dir uint64, name string, cred Cred) (uint64, uint32) {
	r := s.NFSCall(3, cred, cat(fh(dir), xdrOpaque([]byte(name))))
	st := status(r)
	if st != 0 || len(r.Data) < 16 {
		return 0, st
	}
	return binary.BigEndian.Uint64(r.Data[8:16]), 0
}

func must(err error) {
	if err != nil {
		panic(fmt.Sprint("harness setup: ", err))
	}
}
