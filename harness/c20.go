package main

// C20 — the real WorkerPool under Stop / Resize with busy workers and queued tasks. `select` cannot be
// steered, so the shapes the model's counterexample has are repeated many times and every observed
// per-task outcome must be one the model admits; the oracle counts executions, deliveries, blocked
// submitters and peak concurrency directly.

import (
	"encoding/json"
	"fmt"
	"math/rand"
	"strings"
	"sync"
	"sync/atomic"
	"time"

	"github.com/absfs/absnfs"
)

func init() {
	checks["C20"] = checkC20
	replays["C20"] = func(r *Result, raw json.RawMessage) { checkC20(r, rand.New(rand.NewSource(1)), false) }
}

type trialResult struct {
	outcomes []string // per accepted task: exec | told | blocked | nil | twice
	peak     int32
	limit    int32
	rejected int
	// after a completed Resize: peak concurrency under fresh load, and the new size
	peakAfter, limitAfter int32
}

// runPoolTrial: `n` workers all kept busy, `k` more tasks submitted with SubmitWait (they queue), then
// `action` ("stop", "grow", "shrink", "stop+submit") while the blockers are released.
func runPoolTrial(n, k int, action string, rng *rand.Rand, viaSubmitWait bool) trialResult {
	owner, err := absnfs.New(NewRefFS(), absnfs.ExportOptions{MaxWorkers: 1})
	must(err)
	defer owner.Close()
	p := absnfs.NewWorkerPool(n, owner)
	p.Start()
	var cur, peak int32
	track := func() func() {
		c := atomic.AddInt32(&cur, 1)
		for {
			o := atomic.LoadInt32(&peak)
			if c <= o || atomic.CompareAndSwapInt32(&peak, o, c) {
				break
			}
		}
		return func() { atomic.AddInt32(&cur, -1) }
	}
	release := make(chan struct{})
	started := make(chan struct{}, n)
	for i := 0; i < n; i++ {
		p.Submit(func() interface{} {
			done := track()
			defer done()
			started <- struct{}{}
			<-release
			return "blocker"
		})
	}
	for i := 0; i < n; i++ {
		select {
		case <-started:
		case <-time.After(2 * time.Second):
		}
	}
	res := trialResult{limit: int32(n)}
	execCount := make([]int32, k)
	outcomes := make([]string, k)
	accepted := make([]bool, k)
	var wg sync.WaitGroup
	queued := make(chan struct{}, k)
	naps := make([]time.Duration, k) // drawn here: the rng is not safe for use from the task goroutines
	for i := range naps {
		naps[i] = time.Duration(rng.Intn(200)) * time.Microsecond
	}
	for i := 0; i < k; i++ {
		i := i
		wg.Add(1)
		go func() {
			defer wg.Done()
			task := func() interface{} {
				done := track()
				defer done()
				atomic.AddInt32(&execCount[i], 1)
				time.Sleep(naps[i])
				return i + 1000
			}
			if viaSubmitWait {
				// SubmitWait (what ExecuteWithWorker calls): ok=false means "not executed, run it yourself"
				accepted[i] = true
				type wr struct {
					v  interface{}
					ok bool
				}
				resc := make(chan wr, 1)
				go func() { v, ok := p.SubmitWait(task); resc <- wr{v, ok} }()
				time.Sleep(300 * time.Microsecond) // let the task reach the queue before the action starts
				queued <- struct{}{}
				select {
				case x := <-resc:
					switch {
					case !x.ok:
						outcomes[i] = "told"
					case x.v == nil:
						outcomes[i] = "nil"
					default:
						outcomes[i] = "exec"
					}
				case <-time.After(1500 * time.Millisecond):
					outcomes[i] = "blocked"
				}
				return
			}
			ch := p.Submit(task)
			queued <- struct{}{}
			if ch == nil {
				return // not accepted: the caller would run it itself
			}
			accepted[i] = true
			select {
			case v, ok := <-ch:
				switch {
				case !ok:
					outcomes[i] = "told"
				case v == nil:
					outcomes[i] = "nil"
				default:
					outcomes[i] = "exec"
				}
			case <-time.After(1500 * time.Millisecond):
				outcomes[i] = "blocked"
			}
		}()
	}
	for i := 0; i < k; i++ {
		<-queued
	}
	newSize := n
	var act sync.WaitGroup
	act.Add(1)
	go func() {
		defer act.Done()
		switch action {
		case "stop", "stop+submit":
			p.Stop()
		case "grow":
			newSize = n + 2
			p.Resize(newSize)
		case "shrink":
			newSize = 1
			p.Resize(newSize)
		}
	}()
	time.Sleep(time.Duration(rng.Intn(300)) * time.Microsecond)
	close(release)
	act.Wait()
	wg.Wait()
	if newSize > n {
		res.limit = int32(newSize)
	}
	// after a resize the pool is running again with its new size: give re-enqueued work a moment, then load it with
	// more tasks than the larger of the two sizes and measure how many run at once — the bound is the NEW size now
	if action == "grow" || action == "shrink" {
		time.Sleep(2 * time.Millisecond)
		var cur2, peak2 int32
		rel2 := make(chan struct{})
		m := 2*n + 4
		for i := 0; i < m; i++ {
			p.Submit(func() interface{} {
				c := atomic.AddInt32(&cur2, 1)
				for {
					o := atomic.LoadInt32(&peak2)
					if c <= o || atomic.CompareAndSwapInt32(&peak2, o, c) {
						break
					}
				}
				<-rel2
				atomic.AddInt32(&cur2, -1)
				return nil
			})
		}
		time.Sleep(15 * time.Millisecond)
		close(rel2)
		time.Sleep(3 * time.Millisecond)
		res.peakAfter, res.limitAfter = atomic.LoadInt32(&peak2), int32(newSize)
		p.Stop()
	}
	res.peak = atomic.LoadInt32(&peak)
	for i := 0; i < k; i++ {
		if !accepted[i] {
			res.rejected++
			continue
		}
		o := outcomes[i]
		c := atomic.LoadInt32(&execCount[i])
		switch {
		case c > 1:
			o = "twice"
		case o == "exec" && c != 1:
			o = "nil" // a value arrived although the task never ran
		case o == "told" && c != 0:
			// executed but the submitter was told it was not: would make the caller run it a second time
			o = "twice"
		}
		res.outcomes = append(res.outcomes, o)
	}
	return res
}

func checkC20(r *Result, rng *rand.Rand, thorough bool) {
	r.Rule = "trials on the real WorkerPool: n in {1,2,4} workers all busy, k in {1..2n+1} further tasks submitted (alternately through Submit + result channel and through SubmitWait, the call ExecuteWithWorker makes; queue partially full, full, overfull), then Stop / Resize(grow) / Resize(shrink) while the busy tasks are released at a random instant; per accepted task the observed outcome (executed once+delivered / told not executed / blocked > 1.5 s / nil result / executed twice) must be admitted by the model; peak concurrency is measured; non-trivial = at least one task was queued when the action started; distinct = distinct (n,k,action,outcome vector)"
	trials := 40
	if thorough {
		trials = 600
	}
	var ops []string
	seen := map[string]bool{}
	for i := 0; i < trials; i++ {
		n := []int{1, 2, 4}[rng.Intn(3)]
		k := 1 + rng.Intn(2*n+1)
		action := []string{"stop", "stop", "grow", "shrink"}[rng.Intn(4)]
		via := i%2 == 1
		tr := runPoolTrial(n, k, action, rng, via)
		key := fmt.Sprintf("n=%d k=%d %s submitwait=%v %v", n, k, action, via, tr.outcomes)
		r.noteCase(key, len(tr.outcomes) > 0)
		r.count(action)
		if i < 3 {
			r.sample(map[string]any{"workers": n, "queued": k, "action": action, "outcomes": tr.outcomes, "peak": tr.peak, "rejected": tr.rejected})
		}
		if tr.limitAfter > 0 && tr.peakAfter > tr.limitAfter {
			r.violate(Violation{Class: "C20/over-concurrency-after-resize", What: fmt.Sprintf("after Resize(%d) had returned, %d tasks ran concurrently (%s)", tr.limitAfter, tr.peakAfter, key), Ops: []string{key}})
		}
		if tr.peak > tr.limit {
			r.violate(Violation{Class: "C20/over-concurrency", What: fmt.Sprintf("%d tasks ran concurrently with pool size %d (%s)", tr.peak, tr.limit, key), Ops: []string{key}})
		}
		for _, o := range tr.outcomes {
			r.count("outcome-" + o)
			switch o {
			case "blocked":
				r.violate(Violation{Class: "C20/submitter-blocked", What: "a submitter whose task was accepted never got a result nor a closed channel (" + key + ")", Ops: []string{key}})
			case "nil":
				r.violate(Violation{Class: "C20/nil-result", What: "a submitter received a nil result with ok=true for a task that never ran (" + key + ")", Ops: []string{key}})
			case "twice":
				r.violate(Violation{Class: "C20/executed-twice", What: "a task ran more than once, or ran although its submitter was told it had not (" + key + ")", Ops: []string{key}})
			}
			if !seen[o] {
				seen[o] = true
				ops = append(ops, "pool allowed "+o)
			}
		}
	}
	// every outcome kind observed must be admitted by the model
	impl := make([]string, len(ops))
	for i := range ops {
		impl[i] = "1" // it was observed on the real pool
	}
	var cases []Case
	var il [][]string
	for i, op := range ops {
		cases = append(cases, Case{Ops: []string{op}})
		il = append(il, []string{impl[i]})
	}
	compareWithModel(r, "pool-outcomes", cases, il, nil)
	r.Notes = append(r.Notes, "observed outcome kinds: "+strings.Join(ops, "; "))
}
