package main

// C02 — namespace operations refine a POSIX-like tree model, and caches are transparent. Each history is run
// under the 8 combinations of attribute-cache TTL x directory cache x negative caching. Every run is judged
// against a shadow RefFS driven by direct calls (the tree model); the replies of every run are compared with
// those of the run without effective caching.

import (
	"fmt"
	"math/rand"
	"os"
	"sort"
	"strings"
	"time"
)

func init() {
	checks["C02"] = checkC02
	replays["C02"] = caseReplay(judgeC02)
}

func ftypeOfMode(m os.FileMode) uint32 {
	switch {
	case m.IsDir():
		return 2
	case m&os.ModeSymlink != 0:
		return 5
	}
	return 1
}

func attrSig(a *Fattr) string {
	if a == nil {
		return "-"
	}
	return fmt.Sprintf("t%d m%o n%d u%d g%d s%d i%x", a.Type, a.Mode, a.Nlink, a.UID, a.GID, a.Size, a.FileID)
}

// replySig canonicalises what the client saw (no times, no handle values).
func replySig(o SOp, r SRes) string {
	if r.NoHandle {
		return "nohandle"
	}
	if r.Res.Bad {
		return "bad"
	}
	s := fmt.Sprintf("st=%d", r.Res.Status)
	switch o.Kind {
	case "lookup":
		s += " obj=" + attrSig(r.Res.Obj)
	case "getattr", "readlink", "access", "read":
		s += " obj=" + attrSig(r.Res.Obj)
		if o.Kind == "readlink" {
			s += " target=" + string(r.Res.Data)
		}
		if o.Kind == "access" {
			s += fmt.Sprintf(" access=%d", r.Res.Access)
		}
		if o.Kind == "read" {
			s += fmt.Sprintf(" data=%x eof=%v", r.Res.Data, r.Res.Eof)
		}
	case "create", "mkdir", "symlink":
		s += " obj=" + attrSig(r.Res.Obj) + " dir=" + attrSig(r.Res.Wcc.Post)
	case "remove", "rmdir", "setattr", "write":
		s += " post=" + attrSig(r.Res.Wcc.Post)
	case "rename":
		s += " from=" + attrSig(r.Res.Wcc.Post) + " to=" + attrSig(r.Res.Wcc2.Post)
	case "readdir", "readdirplus":
		s += " dir=" + attrSig(r.Res.Dir) + " ents="
		for _, e := range r.Entries {
			s += fmt.Sprintf("%s:%x", e.Name, e.FileID)
			if o.Kind == "readdirplus" {
				s += "(" + attrSig(e.Attr) + ")"
			}
			s += ","
		}
	}
	return s
}

type nsRun struct {
	sigs  []string
	trees []string
	res   []SRes
}

func runNs(c SrvCase, cfg SrvCfg) nsRun {
	cc := c
	cc.Cfg = cfg
	w := cc.world()
	defer w.Close()
	var out nsRun
	for _, o := range c.Ops {
		r := w.do(o)
		out.res = append(out.res, r)
		out.sigs = append(out.sigs, replySig(o, r))
		out.trees = append(out.trees, w.fs.TreeSig())
	}
	return out
}

func lkind(fs *RefFS, p string) string {
	info, err := fs.Lstat(p)
	if err != nil {
		return ""
	}
	switch {
	case info.IsDir():
		return "dir"
	case info.Mode()&os.ModeSymlink != 0:
		return "link"
	}
	return "file"
}

// posixExpect applies o to the shadow and says whether the tree model expects success ("ok"), failure ("fail")
// or leaves it open ("any").
func posixExpect(sh *RefFS, o SOp, serverOK bool) string {
	p := join(o.Dir, o.Name)
	dk := lkind(sh, o.Dir)
	switch o.Kind {
	case "lookup":
		if dk == "dir" && lkind(sh, p) != "" {
			return "ok"
		}
		return "fail"
	case "getattr", "access":
		if dk != "" {
			return "ok"
		}
		return "fail"
	case "readlink":
		if dk == "link" {
			return "ok"
		}
		return "fail"
	case "readdir", "readdirplus":
		if dk == "dir" {
			return "ok"
		}
		return "fail"
	case "read":
		if dk == "file" {
			return "ok"
		}
		return "fail"
	case "write":
		if dk != "file" {
			return "fail"
		}
		if f, err := sh.OpenFile(o.Dir, os.O_WRONLY, 0); err == nil {
			f.WriteAt(o.Data, int64(o.Off))
			f.Close()
		}
		return "ok"
	case "setattr":
		if dk == "" {
			return "fail"
		}
		if o.Sa.Size != nil {
			if dk != "file" {
				return "any"
			}
			sh.Truncate(o.Dir, int64(*o.Sa.Size))
		}
		return "ok"
	case "create":
		if dk != "dir" {
			return "fail"
		}
		switch k := lkind(sh, p); {
		case k == "":
			f, err := sh.Create(p)
			if err != nil {
				return "fail"
			}
			f.Close()
			return "ok"
		case o.How == 1 || k != "file":
			return "fail"
		case o.How == 2:
			return "any"
		default:
			if o.Sa.Size != nil {
				return "any"
			}
			return "ok"
		}
	case "mkdir":
		if dk != "dir" {
			return "fail"
		}
		if sh.Mkdir(p, 0o755) == nil {
			return "ok"
		}
		return "fail"
	case "symlink":
		if dk != "dir" {
			return "fail"
		}
		if sh.Symlink(o.Target, p) == nil {
			return "ok"
		}
		return "fail"
	case "remove":
		if dk != "dir" {
			return "fail"
		}
		switch lkind(sh, p) {
		case "":
			return "fail"
		case "dir":
			// RFC 1813 lets REMOVE on a directory go either way; follow the server if the model can
			if serverOK {
				if sh.Remove(p) == nil {
					return "ok"
				}
				return "fail"
			}
			return "fail"
		}
		if sh.Remove(p) == nil {
			return "ok"
		}
		return "fail"
	case "rmdir":
		if dk != "dir" || lkind(sh, p) != "dir" {
			return "fail"
		}
		if sh.Remove(p) == nil {
			return "ok"
		}
		return "fail"
	case "rename":
		if dk != "dir" || lkind(sh, o.Dir2) != "dir" {
			return "fail"
		}
		if sh.Rename(p, join(o.Dir2, o.Name2)) == nil {
			return "ok"
		}
		return "fail"
	}
	return "any"
}

func listing(sh *RefFS, dir string) []string {
	ents, _ := sh.ReadDir(dir)
	var out []string
	for _, e := range ents {
		out = append(out, e.Name())
	}
	sort.Strings(out)
	return out
}

// judgeTree judges one run against the tree model.
func judgeTree(c SrvCase, run nsRun, cfg SrvCfg) []Violation {
	var vs []Violation
	sh := NewRefFS()
	seedFS(sh, c.Seed)
	for i, o := range c.Ops {
		r := run.res[i]
		bad := func(class, what string) {
			vs = append(vs, Violation{Class: class, What: what + " [" + cfg.String() + "]", Detail: fmt.Sprintf("op %d: %s -> %s", i, o.String(), run.sigs[i])})
		}
		if r.NoHandle {
			continue // the client could not even name the object; judged at the failing LOOKUP of another op
		}
		if r.Res.Bad {
			bad("bad-reply", "undecodable reply to "+o.Kind)
			continue
		}
		before := sh.TreeSig()
		// read-side expectations are computed before the op is applied to the shadow
		var wantNames []string
		var wantTarget string
		if o.Kind == "readdir" || o.Kind == "readdirplus" {
			wantNames = listing(sh, o.Dir)
		}
		if o.Kind == "readlink" {
			wantTarget, _ = sh.Readlink(o.Dir)
		}
		exp := posixExpect(sh, o, r.ok())
		switch {
		case exp == "ok" && !r.ok():
			bad("refused:"+o.Kind, fmt.Sprintf("%s failed with status %d where the tree model succeeds", strings.ToUpper(o.Kind), r.Res.Status))
		case exp == "fail" && r.ok():
			bad("accepted:"+o.Kind, fmt.Sprintf("%s replied OK where the tree model fails", strings.ToUpper(o.Kind)))
		}
		if r.ok() && exp != "fail" {
			switch o.Kind {
			case "readdir", "readdirplus":
				var got []string
				for _, e := range r.Entries {
					got = append(got, e.Name)
				}
				sort.Strings(got)
				if fmt.Sprint(got) != fmt.Sprint(wantNames) {
					bad("listing:"+o.Kind, fmt.Sprintf("%s returned %v, the directory holds %v", strings.ToUpper(o.Kind), got, wantNames))
				}
			case "readlink":
				if string(r.Res.Data) != wantTarget {
					bad("readlink-target", fmt.Sprintf("READLINK returned %q, the link holds %q", r.Res.Data, wantTarget))
				}
			case "lookup":
				if info, err := sh.Lstat(join(o.Dir, o.Name)); err == nil && r.Res.Obj != nil && r.Res.Obj.Type != ftypeOfMode(info.Mode()) {
					bad("lookup-type", fmt.Sprintf("LOOKUP reported type %d for a %s", r.Res.Obj.Type, lkind(sh, join(o.Dir, o.Name))))
				}
			}
		}
		if !r.ok() && exp == "any" {
			// open outcome: the model follows the server; nothing was applied for failures
		}
		if run.trees[i] != sh.TreeSig() {
			if !r.ok() && run.trees[i] != before && exp != "ok" {
				bad("failed-op-changed-tree:"+o.Kind, fmt.Sprintf("%s failed (status %d) but the backend tree changed", strings.ToUpper(o.Kind), r.Res.Status))
			} else if exp == "any" {
				// follow the server on open outcomes
			} else {
				bad("tree-differs:"+o.Kind, fmt.Sprintf("after %s the backend tree differs from the tree model", strings.ToUpper(o.Kind)))
			}
			sh = resyncShadow(run.trees[i])
		}
	}
	return vs
}

// resyncShadow rebuilds a shadow from a TreeSig.
func resyncShadow(sig string) *RefFS {
	sh := NewRefFS()
	for _, ent := range strings.Split(sig, ";") {
		parts := strings.SplitN(ent, ":", 3)
		if len(parts) < 2 || parts[1] == "/" {
			continue
		}
		switch parts[0] {
		case "d":
			sh.Mkdir(parts[1], 0o755)
		case "f":
			f, _ := sh.Create(parts[1])
			if len(parts) > 2 {
				f.Write(unhx(parts[2]))
			}
			f.Close()
		case "l":
			sh.Symlink(parts[2], parts[1])
		}
	}
	return sh
}

func cacheConfigs(base SrvCfg, thorough bool) []SrvCfg {
	var out []SrvCfg
	ttls := []time.Duration{time.Nanosecond, 5 * time.Second}
	for _, ttl := range ttls {
		for _, dc := range []bool{false, true} {
			for _, neg := range []bool{false, true} {
				c := base
				c.AttrTTL, c.DirCache, c.Neg = ttl, dc, neg
				out = append(out, c)
			}
		}
	}
	if thorough {
		for _, ttl := range []time.Duration{7 * time.Millisecond, 40 * time.Millisecond} {
			c := base
			c.AttrTTL, c.DirCache, c.Neg = ttl, true, true
			out = append(out, c)
			c.AttrSize = 3
			out = append(out, c)
		}
	}
	return out
}

var c02Thorough bool

func judgeC02(c SrvCase) []Violation {
	cfgs := cacheConfigs(c.Cfg, c02Thorough)
	var vs []Violation
	var base nsRun
	for i, cfg := range cfgs {
		run := runNs(c, cfg)
		vs = append(vs, judgeTree(c, run, cfg)...)
		if i == 0 {
			base = run
			continue
		}
		for j := range c.Ops {
			if run.sigs[j] != base.sigs[j] {
				vs = append(vs, Violation{Class: "cache-visible:" + c.Ops[j].Kind,
					What:   fmt.Sprintf("enabling caches changed the reply to %s [%s]", strings.ToUpper(c.Ops[j].Kind), cfg.String()),
					Detail: fmt.Sprintf("op %d: %s | without caches: %s | with: %s", j, c.Ops[j].String(), base.sigs[j], run.sigs[j])})
				break
			}
		}
	}
	return vs
}

func checkC02(r *Result, rng *rand.Rand, thorough bool) {
	traces, doneTraces := collectTraces(200)
	defer func() {
		doneTraces()
		compareSrv(r, "srv", *traces)
	}()
	ncases, n := 120, 40
	if thorough {
		ncases, n = 600, 80
	}
	c02Thorough = thorough
	staleLinkCorpus(r)
	r.Rule = "random LOOKUP/CREATE/MKDIR/SYMLINK/REMOVE/RMDIR/RENAME/READDIR(PLUS)/GETATTR/READLINK/ACCESS histories (names a-d, links l1-l2, depth <= 2; every third history 'tight': names a-b only and mostly LOOKUP/MKDIR/RMDIR/RENAME/CREATE/REMOVE so that names are reused and looked up while absent) run under all 8 combinations of attribute TTL x dir cache x negative cache (thorough: plus mid-history expiry and a 3-entry attribute cache); each run judged against a shadow tree model, every run's replies compared with the cache-less run"
	for i := 0; i < ncases; i++ {
		g := &nsGen{depth: 2, tight: i%3 == 2}
		c := genNsCase(rng, 5+rng.Intn(n), g)
		vs := judgeC02(c)
		r.noteCase(fmt.Sprint(c.strings()), true)
		for _, o := range c.Ops {
			r.count("op:" + o.Kind)
		}
		if len(vs) > 0 {
			reportCase(r, c, vs, judgeC02)
		}
		if i < 2 {
			r.sample(c.strings())
		}
	}
}

// staleLinkCorpus runs first: the history behind Props.C26's kernel-evaluated `sl_*` demo (DESIGN §11.7). A client keeps
// the handle of a directory /k; /k is removed and a link to another directory /o is renamed into its place; READDIR
// through the old handle makes the server store /o's listing under the key /k. The directory cache then holds a strict
// superset of what the backend has below /k — the one shape in which "cached = backend" fails — and replies must still
// be those of the cache-less run, before and after /o changes. The requests are replayed in the Lean model as well.
func staleLinkCorpus(r *Result) {
	c := SrvCase{Cfg: SrvCfg{KeepStale: true}}
	c.Ops = []SOp{
		{Kind: "mkdir", Dir: "/", Name: "k"}, {Kind: "mkdir", Dir: "/", Name: "o"}, {Kind: "mkdir", Dir: "/o", Name: "x"},
		{Kind: "readdir", Dir: "/k", Count: 4096},
		{Kind: "rmdir", Dir: "/", Name: "k"}, {Kind: "symlink", Dir: "/", Name: "l", Target: "o"},
		{Kind: "rename", Dir: "/", Name: "l", Dir2: "/", Name2: "k"},
		{Kind: "readdir", Dir: "/k", Count: 4096}, {Kind: "readdirplus", Dir: "/k", Count: 4096},
		{Kind: "mkdir", Dir: "/o", Name: "y"}, {Kind: "readdir", Dir: "/k", Count: 4096}, {Kind: "readdir", Dir: "/o", Count: 4096},
		{Kind: "remove", Dir: "/", Name: "k"}, {Kind: "mkdir", Dir: "/", Name: "k"}, {Kind: "readdir", Dir: "/k", Count: 4096},
		{Kind: "mkdir", Dir: "/k", Name: "z"}, {Kind: "readdir", Dir: "/k", Count: 4096},
	}
	r.noteCase("corpus: stale-link", true)
	r.count("corpus-stale-link")
	var base nsRun
	for i, cfg := range cacheConfigs(c.Cfg, c02Thorough) {
		run := runNs(c, cfg)
		if i == 0 {
			base = run
			continue
		}
		for j := range c.Ops {
			if run.sigs[j] != base.sigs[j] {
				v := Violation{Class: "cache-visible:" + c.Ops[j].Kind,
					What:   fmt.Sprintf("stale-link corpus: enabling caches changed the reply to %s [%s]", strings.ToUpper(c.Ops[j].Kind), cfg.String()),
					Detail: fmt.Sprintf("op %d: %s | without caches: %s | with: %s", j, c.Ops[j].String(), base.sigs[j], run.sigs[j])}
				v.Ops, v.Case = c.strings(), c
				r.violate(v)
				return
			}
		}
	}
	// the last two listings are not vacuous: the new /k is empty, then holds z
	n := len(c.Ops)
	if !strings.Contains(base.sigs[n-1], "z") {
		r.Notes = append(r.Notes, "stale-link corpus: the final listing does not name z: "+base.sigs[n-1])
	}
}
