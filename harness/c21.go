package main

// C21 — the real AttrCache and DirCache on the virtual clock against the Lean `Lru` model (results, sizes and
// the full recency order), plus a reference written from the property statement.

import (
	"encoding/json"
	"fmt"
	"math/rand"
	"os"
	"strconv"
	"strings"
	"sync"
	"time"

	"github.com/absfs/absnfs"
)

func init() {
	checks["C21"] = checkC21
	c21ops := opsReplay("lru", runLruOps, func(r *Result, ops, impl []string) { lruOracle(r, ops, impl) })
	replays["C21"] = func(r *Result, raw json.RawMessage) {
		var rp struct {
			Ops []string `json:"ops"`
		}
		json.Unmarshal(raw, &rp)
		if len(rp.Ops) > 0 && rp.Ops[0] == "fresh-put-survives-concurrent-gets" {
			freshPutSurvivesConcurrentGets(r, 60000)
			return
		}
		c21ops(r, raw)
	}
}

type fakeInfo struct{ name string }

func (f fakeInfo) Name() string       { return f.name }
func (f fakeInfo) Size() int64        { return 0 }
func (f fakeInfo) Mode() os.FileMode  { return 0 }
func (f fakeInfo) ModTime() time.Time { return time.Time{} }
func (f fakeInfo) IsDir() bool        { return false }
func (f fakeInfo) Sys() any           { return nil }

func runLruOps(ops []string) []string {
	attr := map[string]*absnfs.AttrCache{}
	dir := map[string]*absnfs.DirCache{}
	defer absnfs.VerifClockOff()
	absnfs.VerifSetClock(0)
	out := make([]string, len(ops))
	atoi := func(s string) int64 { v, _ := strconv.ParseInt(s, 10, 64); return v }
	for i, op := range ops {
		f := strings.Fields(op)
		switch f[1] {
		case "newattr":
			attr[f[2]] = absnfs.NewAttrCache(time.Duration(atoi(f[4])), int(atoi(f[3])))
			out[i] = "ok"
			continue
		case "newdir":
			dir[f[2]] = absnfs.NewDirCache(time.Duration(atoi(f[4])), int(atoi(f[3])), int(atoi(f[5])))
			out[i] = "ok"
			continue
		case "ischild":
			if absnfs.VerifIsChildOf(string(unhx(f[2])), string(unhx(f[3]))) {
				out[i] = "1"
			} else {
				out[i] = "0"
			}
			continue
		}
		a, isA := attr[f[2]]
		d, isD := dir[f[2]]
		if !isA && !isD {
			out[i] = "bad-op"
			continue
		}
		out[i] = "ok"
		switch f[1] {
		case "put":
			absnfs.VerifSetClock(atoi(f[3]))
			k, v := string(unhx(f[4])), atoi(f[5])
			if isA {
				a.Put(k, &absnfs.NFSAttrs{Size: v})
			} else {
				l := make([]os.FileInfo, v)
				for j := range l {
					l[j] = fakeInfo{fmt.Sprintf("e%d", j)}
				}
				d.Put(k, l)
				for j := range l { // copy isolation: later mutation of the caller's slice must not show
					l[j] = fakeInfo{"MUTATED"}
				}
			}
		case "putneg":
			absnfs.VerifSetClock(atoi(f[3]))
			if isA {
				a.PutNegative(string(unhx(f[4])))
			} else {
				out[i] = "bad-op"
			}
		case "get":
			absnfs.VerifSetClock(atoi(f[3]))
			k := string(unhx(f[4]))
			if isA {
				at, found := a.Get(k)
				switch {
				case found && at != nil:
					out[i] = fmt.Sprintf("hit %d", at.Size)
					at.Size = -777 // copy isolation
				case found:
					out[i] = "neg"
				default:
					out[i] = "miss"
				}
			} else {
				l, found := d.Get(k)
				if found {
					out[i] = fmt.Sprintf("hit %d", len(l))
					for j := range l {
						if l[j].Name() != fmt.Sprintf("e%d", j) {
							out[i] = "hit-corrupted"
						}
						l[j] = fakeInfo{"MUTATED"}
					}
				} else {
					out[i] = "miss"
				}
			}
		case "inv":
			if isA {
				a.Invalidate(string(unhx(f[3])))
			} else {
				d.Invalidate(string(unhx(f[3])))
			}
		case "invneg":
			if isA {
				a.InvalidateNegativeInDir(string(unhx(f[3])))
			} else {
				out[i] = "bad-op"
			}
		case "resize":
			if isA {
				a.Resize(int(atoi(f[3])))
			} else {
				d.Resize(int(atoi(f[3])))
			}
		case "ttl":
			if isA {
				a.UpdateTTL(time.Duration(atoi(f[3])))
			} else {
				d.UpdateTTL(time.Duration(atoi(f[3])))
			}
		case "confneg":
			if isA {
				a.ConfigureNegativeCaching(f[3] == "1", time.Duration(atoi(f[4])))
			} else {
				out[i] = "bad-op"
			}
		case "clear":
			if isA {
				a.Clear()
			} else {
				d.Clear()
			}
		case "size":
			if isA {
				out[i] = fmt.Sprint(a.Size())
			} else {
				out[i] = fmt.Sprint(d.Size())
			}
		case "order":
			var ks []string
			if isA {
				ks = absnfs.VerifAttrCacheOrder(a)
			} else {
				ks = absnfs.VerifDirCacheOrder(d)
			}
			parts := make([]string, len(ks))
			for j, k := range ks {
				if strings.HasSuffix(k, "!") {
					parts[j] = hx([]byte(k[:len(k)-1])) + "!"
				} else if strings.HasPrefix(k, "#") || strings.HasSuffix(k, "?") {
					parts[j] = k
				} else {
					parts[j] = hx([]byte(k))
				}
			}
			out[i] = strings.Join(parts, ",")
		default:
			out[i] = "bad-op"
		}
	}
	return out
}

// lruOracle: property-level facts checked on the outputs alone (single cache named in the case).
func lruOracle(r *Result, ops, impl []string) {
	type ent struct {
		val       int64
		neg       bool
		expire    int64
		touch     int  // op index of last use
		maybeGone bool // enough other keys were used since its last use that eviction is allowed
	}
	type cstate struct {
		isDir         bool
		cap           int64
		ttl, negTtl   int64
		enableNeg     bool
		ents          map[string]*ent
		maxDirSize    int64
		distinctSince map[string]map[string]bool
	}
	caches := map[string]*cstate{}
	atoi := func(s string) int64 { v, _ := strconv.ParseInt(s, 10, 64); return v }
	pre := func(i int) []string { return append([]string(nil), ops[:i+1]...) }
	for i, op := range ops {
		f := strings.Fields(op)
		if f[1] == "newattr" {
			cp := atoi(f[3])
			if cp <= 0 {
				cp = 10000
			}
			caches[f[2]] = &cstate{cap: cp, ttl: atoi(f[4]), negTtl: 5e9, ents: map[string]*ent{}}
			continue
		}
		if f[1] == "newdir" {
			cp, ttl, mds := atoi(f[3]), atoi(f[4]), atoi(f[5])
			if cp <= 0 {
				cp = 1000
			}
			if ttl <= 0 {
				ttl = 10e9
			}
			if mds <= 0 {
				mds = 10000
			}
			caches[f[2]] = &cstate{isDir: true, cap: cp, ttl: ttl, maxDirSize: mds, ents: map[string]*ent{}}
			continue
		}
		c := caches[f[2]]
		if c == nil {
			continue
		}
		// bookkeeping of "other keys used since": a key certainly survives while fewer than cap distinct
		// other keys were stored or hit after its last use
		use := func(k string) {
			for other, e := range c.ents {
				_ = e
				if other != k {
					if c.distinctSince == nil {
						c.distinctSince = map[string]map[string]bool{}
					}
					if c.distinctSince[other] == nil {
						c.distinctSince[other] = map[string]bool{}
					}
					c.distinctSince[other][k] = true
					if int64(len(c.distinctSince[other])) >= c.cap {
						e.maybeGone = true
					}
				}
			}
			if c.distinctSince != nil {
				delete(c.distinctSince, k)
			}
			if e := c.ents[k]; e != nil {
				e.maybeGone = false
			}
		}
		switch f[1] {
		case "put":
			now, k, v := atoi(f[3]), string(unhx(f[4])), atoi(f[5])
			if c.isDir && v > c.maxDirSize {
				break
			}
			c.ents[k] = &ent{val: v, expire: now + c.ttl, touch: i}
			use(k)
		case "putneg":
			now, k := atoi(f[3]), string(unhx(f[4]))
			if c.enableNeg {
				c.ents[k] = &ent{neg: true, expire: now + c.negTtl, touch: i}
				use(k)
			}
		case "get":
			now, k := atoi(f[3]), string(unhx(f[4]))
			e := c.ents[k]
			live := e != nil && (now < e.expire || (c.isDir && now == e.expire))
			switch {
			case strings.HasPrefix(impl[i], "hit"):
				if !live || e.neg || impl[i] != fmt.Sprintf("hit %d", e.val) {
					r.violate(Violation{Class: "C21/wrong-value", What: fmt.Sprintf("Get(%q) at t=%d returned %q but the most recent stored value is %+v (live=%v)", k, now, impl[i], e, live), Ops: pre(i)})
				} else {
					use(k)
				}
			case impl[i] == "neg":
				if !c.enableNeg {
					r.violate(Violation{Class: "C21/negative-while-disabled", What: fmt.Sprintf("Get(%q) hit a negative entry although negative caching is disabled", k), Ops: pre(i)})
				} else if !live || !e.neg {
					r.violate(Violation{Class: "C21/wrong-value", What: fmt.Sprintf("Get(%q) returned a negative hit but reference has %+v live=%v", k, e, live), Ops: pre(i)})
				} else {
					use(k)
				}
			case impl[i] == "miss":
				if live && !e.maybeGone {
					// stored, not expired, not invalidated, and fewer than cap other keys used since: must still be there
					r.violate(Violation{Class: "C21/lost-entry", What: fmt.Sprintf("Get(%q) at t=%d missed although the value stored at op %d is unexpired and only %d other keys were used since (cap %d)", k, now, e.touch, len(c.distinctSince[k]), c.cap), Ops: pre(i)})
				}
				if e != nil && !live {
					delete(c.ents, k)
				}
				if e != nil && live { // legitimately evicted
					delete(c.ents, k)
				}
			case impl[i] == "hit-corrupted":
				r.violate(Violation{Class: "C21/copy-isolation", What: "a cached listing was changed through a slice handed to / returned to a caller", Ops: pre(i)})
			}
		case "inv":
			delete(c.ents, string(unhx(f[3])))
		case "invneg":
			d := string(unhx(f[3]))
			for k, e := range c.ents {
				if e.neg && refIsChild(k, d) {
					delete(c.ents, k)
				}
			}
		case "resize":
			n := atoi(f[3])
			if n <= 0 {
				if c.isDir {
					n = 1000
				} else {
					n = 10000
				}
			}
			if n < c.cap { // eviction may happen: forget the must-be-present knowledge
				for _, e := range c.ents {
					e.maybeGone = true
				}
			}
			c.cap = n
		case "ttl":
			t := atoi(f[3])
			if t <= 0 {
				if c.isDir {
					t = 10e9
				} else {
					t = 5e9
				}
			}
			c.ttl = t
		case "confneg":
			c.enableNeg = f[3] == "1"
			if t := atoi(f[4]); t > 0 {
				c.negTtl = t
			}
			if !c.enableNeg {
				for k, e := range c.ents {
					if e.neg {
						delete(c.ents, k)
					}
				}
			}
		case "clear":
			c.ents = map[string]*ent{}
		case "size":
			if atoi(impl[i]) > c.cap {
				r.violate(Violation{Class: "C21/capacity", What: fmt.Sprintf("cache holds %s entries, capacity %d", impl[i], c.cap), Ops: pre(i)})
			}
		case "order":
			if strings.Contains(impl[i], "#map-size-differs") || strings.Contains(impl[i], "?") {
				r.violate(Violation{Class: "C21/list-map-out-of-sync", What: "recency list and map disagree: " + impl[i], Ops: pre(i)})
			}
			if !c.enableNeg && strings.Contains(impl[i], "!") {
				r.violate(Violation{Class: "C21/negative-while-disabled", What: "negative entries present while negative caching is disabled: " + impl[i], Ops: pre(i)})
			}
		}
	}
}

func refIsChild(p, d string) bool {
	if d == "/" {
		return len(p) >= 2 && p[0] == '/' && !strings.Contains(p[1:], "/")
	}
	if !strings.HasPrefix(p, d+"/") {
		return false
	}
	rem := p[len(d)+1:]
	return rem != "" && !strings.Contains(rem, "/")
}

func genLruCase(rng *rand.Rand, n int) []string {
	isDir := rng.Intn(3) == 0
	capN := []int{1, 2, 3, 8}[rng.Intn(4)]
	name := "c"
	var ops []string
	ttl := int64([]int{1, 5, 50, 1000}[rng.Intn(4)])
	if isDir {
		ops = append(ops, fmt.Sprintf("lru newdir %s %d %d %d", name, capN, ttl, []int{0, 3, 10}[rng.Intn(3)]))
	} else {
		ops = append(ops, fmt.Sprintf("lru newattr %s %d %d", name, capN, ttl))
	}
	keys := []string{"/", "/a", "/b", "/a/x", "/a/y", "/a/x/z", "/ab", "/b/x", "/c"}
	key := func() string { return hx([]byte(keys[rng.Intn(min(len(keys), capN*2+2))])) }
	now := int64(0)
	for len(ops) < n {
		if rng.Intn(3) == 0 {
			now += int64([]int{0, 1, 2, 5, 60}[rng.Intn(5)])
		}
		switch x := rng.Intn(100); {
		case x < 30:
			ops = append(ops, fmt.Sprintf("lru put %s %d %s %d", name, now, key(), rng.Intn(12)))
		case x < 40 && !isDir:
			ops = append(ops, fmt.Sprintf("lru putneg %s %d %s", name, now, key()))
		case x < 70:
			ops = append(ops, fmt.Sprintf("lru get %s %d %s", name, now, key()))
		case x < 76:
			ops = append(ops, fmt.Sprintf("lru inv %s %s", name, key()))
		case x < 80 && !isDir:
			ops = append(ops, fmt.Sprintf("lru invneg %s %s", name, key()))
		case x < 83:
			ops = append(ops, fmt.Sprintf("lru resize %s %d", name, []int{0, 1, 2, 3, 8, -1}[rng.Intn(6)]))
		case x < 86:
			ops = append(ops, fmt.Sprintf("lru ttl %s %d", name, []int{0, 1, 5, 50, -3}[rng.Intn(5)]))
		case x < 91 && !isDir:
			ops = append(ops, fmt.Sprintf("lru confneg %s %d %d", name, rng.Intn(2), []int{0, 2, 7, -1}[rng.Intn(4)]))
		case x < 92:
			ops = append(ops, fmt.Sprintf("lru clear %s", name))
		case x < 96:
			ops = append(ops, fmt.Sprintf("lru size %s", name))
		default:
			ops = append(ops, fmt.Sprintf("lru order %s", name))
		}
	}
	ops = append(ops, fmt.Sprintf("lru order %s", name), fmt.Sprintf("lru size %s", name))
	return ops
}

func checkC21(r *Result, rng *rand.Rand, thorough bool) {
	r.Rule = "op sequences (put/putneg/get/invalidate/invalidate-negative-in-dir/resize/ttl/configure-negative/clear, clock advances on the virtual clock) on the real AttrCache and DirCache, capacity in {1,2,3,8}, key universe about twice the capacity so eviction, expiry and overwrite all occur; results, sizes and the full recency order are compared with the model; non-trivial = sequence contains an eviction-capable put and a get; distinct = distinct op sequences. isChildOf is compared exhaustively on strings over {'/','a','b'} up to length 5"
	ncases, n := 150, 120
	if thorough {
		ncases, n = 6000, 300
	}
	var cases []Case
	var impl [][]string
	for i := 0; i < ncases; i++ {
		ops := genLruCase(rng, n)
		im := runLruOps(ops)
		lruOracle(r, ops, im)
		cases = append(cases, Case{Ops: ops})
		impl = append(impl, im)
		r.noteCase(strings.Join(ops, ";"), true)
		r.count(strings.Fields(ops[0])[1])
		for j, l := range im {
			if strings.Contains(ops[j], " get ") {
				r.count("get-" + strings.Fields(l + " x")[0])
			}
		}
		if i < 2 {
			r.sample(map[string]any{"ops": ops[:14], "impl": im[:14]})
		}
	}
	// the same contract while several goroutines use the cache (the two-phase Get of the model: decision under the read
	// lock, removal of an expired entry under the write lock only if the entry found THEN is expired)
	iters := 6000
	if thorough {
		iters = 60000
	}
	freshPutSurvivesConcurrentGets(r, iters)
	// recorded finding witness (corpus): negative entries must not survive disabling
	w := []string{"lru newattr c 4 1000", "lru confneg c 1 0", "lru putneg c 0 2f61", "lru confneg c 0 0", "lru get c 1 2f61", "lru order c"}
	im := runLruOps(w)
	lruOracle(r, w, im)
	cases = append(cases, Case{Ops: w})
	impl = append(impl, im)
	r.noteCase(strings.Join(w, ";"), true)
	// isChildOf: bounded-exhaustive
	alpha := []byte{'/', 'a', 'b'}
	var strs []string
	var rec func(cur []byte, d int)
	rec = func(cur []byte, d int) {
		strs = append(strs, string(cur))
		if d == 0 {
			return
		}
		for _, c := range alpha {
			rec(append(append([]byte(nil), cur...), c), d-1)
		}
	}
	rec(nil, 5)
	var cops []string
	for _, d := range strs {
		if len(d) > 3 {
			continue
		}
		for _, p := range strs {
			cops = append(cops, fmt.Sprintf("lru ischild %s %s", hx([]byte(p)), hx([]byte(d))))
		}
	}
	cim := runLruOps(cops)
	for i, op := range cops {
		r.noteCase(op, cim[i] == "1")
		f := strings.Fields(op)
		p, d := string(unhx(f[2])), string(unhx(f[3]))
		// property-level reference only on clean absolute directory paths (what the server passes)
		if strings.HasPrefix(d, "/") && (d == "/" || !strings.HasSuffix(d, "/")) && !strings.Contains(d, "//") && strings.HasPrefix(p, "/") {
			if want := refIsChild(p, d); want != (cim[i] == "1") {
				r.violate(Violation{Class: "C21/ischildof", What: fmt.Sprintf("isChildOf(%q,%q)=%s, 'direct child' says %v", p, d, cim[i], want), Ops: []string{op}})
			}
		}
	}
	r.count("ischild-pairs")
	cases = append(cases, Case{Ops: cops})
	impl = append(impl, cim)
	compareWithModel(r, "lru", cases, impl, runLruOps)
}

// freshPutSurvivesConcurrentGets: "a lookup returns the most recent value stored for the key if it has not expired,
// been invalidated or been evicted" with readers running. One writer stores an already-expired listing (TTL 1 ns), then
// a fresh one (TTL 1 h) for the same key and looks it up at once; eight readers Get the key all the time. The fresh
// value was neither invalidated nor evicted (capacity 8, one key), so the writer's Get must hit and return it — a
// reader that removes "the expired entry" it saw earlier must not remove the one that replaced it. Both caches.
func freshPutSurvivesConcurrentGets(r *Result, iters int) {
	absnfs.VerifClockOff()
	r.noteCase("fresh-put-survives-concurrent-gets", true)
	r.Histogram["fresh-put-iterations"] += iters
	{
		d := absnfs.NewDirCache(time.Hour, 8, 1000)
		stop := make(chan struct{})
		var wg sync.WaitGroup
		for g := 0; g < 8; g++ {
			wg.Add(1)
			go func() {
				defer wg.Done()
				for {
					select {
					case <-stop:
						return
					default:
						d.Get("/k")
					}
				}
			}()
		}
		lost := 0
		old := []os.FileInfo{fakeInfo{"old"}}
		fresh := []os.FileInfo{fakeInfo{"fresh"}}
		for i := 0; i < iters; i++ {
			d.UpdateTTL(time.Nanosecond)
			d.Put("/k", old)
			d.UpdateTTL(time.Hour)
			d.Put("/k", fresh)
			got, ok := d.Get("/k")
			if !ok || len(got) != 1 || got[0].Name() != "fresh" {
				lost++
			}
		}
		close(stop)
		wg.Wait()
		if lost > 0 {
			r.violate(Violation{Class: "C21/fresh-value-lost-under-concurrent-gets", What: fmt.Sprintf("DirCache: in %d of %d iterations a listing stored with a 1 h TTL, not invalidated and not evicted, was gone at the next Get while other goroutines were looking the key up", lost, iters),
				Ops: []string{"fresh-put-survives-concurrent-gets"}})
			return
		}
	}
	{
		c := absnfs.NewAttrCache(time.Hour, 8)
		stop := make(chan struct{})
		var wg sync.WaitGroup
		for g := 0; g < 8; g++ {
			wg.Add(1)
			go func() {
				defer wg.Done()
				for {
					select {
					case <-stop:
						return
					default:
						c.Get("/k")
					}
				}
			}()
		}
		lost := 0
		for i := 0; i < iters; i++ {
			c.UpdateTTL(time.Nanosecond)
			c.Put("/k", &absnfs.NFSAttrs{Size: 1})
			c.UpdateTTL(time.Hour)
			c.Put("/k", &absnfs.NFSAttrs{Size: 2})
			got, ok := c.Get("/k")
			if !ok || got == nil || got.Size != 2 {
				lost++
			}
		}
		close(stop)
		wg.Wait()
		if lost > 0 {
			r.violate(Violation{Class: "C21/fresh-value-lost-under-concurrent-gets", What: fmt.Sprintf("AttrCache: in %d of %d iterations attributes stored with a 1 h TTL, not invalidated and not evicted, were gone at the next Get while other goroutines were looking the key up", lost, iters),
				Ops: []string{"fresh-put-survives-concurrent-gets"}})
		}
	}
}
