package main

// Decoders for NFSv3 results used by the property oracles (independent of the Lean decoder, which judges
// well-formedness for C14). They are lenient: on a shape they do not understand they set Bad.

import (
	"encoding/binary"
)

type Fattr struct {
	Type, Mode, Nlink, UID, GID uint32
	Size, Used, Fsid, FileID    uint64
	MtimeSec, MtimeNsec         uint32
}

type xr struct {
	b   []byte
	pos int
	bad bool
}

func (r *xr) u32() uint32 {
	if r.pos+4 > len(r.b) {
		r.bad = true
		return 0
	}
	v := binary.BigEndian.Uint32(r.b[r.pos:])
	r.pos += 4
	return v
}
func (r *xr) u64() uint64 {
	if r.pos+8 > len(r.b) {
		r.bad = true
		return 0
	}
	v := binary.BigEndian.Uint64(r.b[r.pos:])
	r.pos += 8
	return v
}
func (r *xr) bytes(n int) []byte {
	if n < 0 || r.pos+n > len(r.b) {
		r.bad = true
		return nil
	}
	v := r.b[r.pos : r.pos+n]
	r.pos += n
	return v
}
func (r *xr) opaque() []byte {
	n := int(r.u32())
	if r.bad || n > len(r.b) {
		r.bad = true
		return nil
	}
	v := r.bytes(n)
	r.bytes((4 - n%4) % 4)
	return v
}
func (r *xr) fattr() *Fattr {
	a := &Fattr{}
	a.Type, a.Mode, a.Nlink, a.UID, a.GID = r.u32(), r.u32(), r.u32(), r.u32(), r.u32()
	a.Size, a.Used = r.u64(), r.u64()
	r.u32()
	r.u32()
	a.Fsid, a.FileID = r.u64(), r.u64()
	r.u32()
	r.u32()
	a.MtimeSec, a.MtimeNsec = r.u32(), r.u32()
	r.u32()
	r.u32()
	return a
}
func (r *xr) postOp() *Fattr {
	if r.u32() == 1 {
		return r.fattr()
	}
	return nil
}

type WccD struct {
	PreSize *uint64
	Post    *Fattr
}

func (r *xr) wcc() WccD {
	var w WccD
	if r.u32() == 1 {
		s := r.u64()
		w.PreSize = &s
		r.bytes(16)
	}
	w.Post = r.postOp()
	return w
}
func (r *xr) postFh() (uint64, bool) {
	if r.u32() == 1 {
		if r.u32() != 8 {
			r.bad = true
			return 0, false
		}
		return r.u64(), true
	}
	return 0, false
}

type DirEntD struct {
	FileID uint64
	Name   string
	Cookie uint64
	Attr   *Fattr
	Fh     uint64
	HasFh  bool
}

// NfsRes is the decoded result of one NFS procedure (fields used depend on the procedure).
type NfsRes struct {
	Status  uint32
	Obj     *Fattr // object attributes (GETATTR, LOOKUP obj, ACCESS, READ, READLINK, CREATE...)
	Dir     *Fattr // LOOKUP dir attributes / READDIR dir attributes
	Wcc     WccD
	Wcc2    WccD
	Fh      uint64
	HasFh   bool
	Access  uint32
	Count   uint32
	Eof     bool
	Data    []byte
	Commit  uint32
	Verf    []byte
	Entries []DirEntD
	Fsinfo  []uint32 // rtmax rtpref rtmult wtmax wtpref wtmult dtpref
	Bad     bool     // did not have the expected shape
	Len     int
}

func decodeNfs(proc uint32, data []byte) NfsRes {
	r := &xr{b: data}
	res := NfsRes{Len: len(data)}
	if proc == 0 {
		return res
	}
	res.Status = r.u32()
	ok := res.Status == 0
	switch proc {
	case 1:
		if ok {
			res.Obj = r.fattr()
		}
	case 2, 12, 13:
		res.Wcc = r.wcc()
	case 3:
		if ok {
			if r.u32() != 8 {
				r.bad = true
			}
			res.Fh, res.HasFh = r.u64(), true
			res.Obj = r.postOp()
		}
		res.Dir = r.postOp()
	case 4:
		res.Obj = r.postOp()
		if ok {
			res.Access = r.u32()
		}
	case 5:
		res.Obj = r.postOp()
		if ok {
			res.Data = r.opaque()
		}
	case 6:
		res.Obj = r.postOp()
		if ok {
			res.Count = r.u32()
			res.Eof = r.u32() == 1
			res.Data = r.opaque()
		}
	case 7:
		res.Wcc = r.wcc()
		if ok {
			res.Count, res.Commit = r.u32(), r.u32()
			res.Verf = r.bytes(8)
		}
	case 8, 9, 10, 11:
		if ok {
			res.Fh, res.HasFh = r.postFh()
			res.Obj = r.postOp()
		}
		res.Wcc = r.wcc()
	case 14:
		res.Wcc = r.wcc()
		res.Wcc2 = r.wcc()
	case 15:
		res.Obj = r.postOp()
		res.Wcc = r.wcc()
	case 16, 17:
		res.Dir = r.postOp()
		if ok {
			res.Verf = r.bytes(8)
			for !r.bad && r.u32() == 1 {
				var e DirEntD
				e.FileID = r.u64()
				e.Name = string(r.opaque())
				e.Cookie = r.u64()
				if proc == 17 {
					e.Attr = r.postOp()
					e.Fh, e.HasFh = r.postFh()
				}
				res.Entries = append(res.Entries, e)
			}
			res.Eof = r.u32() == 1
		}
	case 18:
		res.Obj = r.postOp()
		if ok {
			r.bytes(52)
		}
	case 19:
		res.Obj = r.postOp()
		if ok {
			for i := 0; i < 7; i++ {
				res.Fsinfo = append(res.Fsinfo, r.u32())
			}
			r.bytes(20)
		}
	case 20:
		res.Obj = r.postOp()
		if ok {
			r.bytes(24)
		}
	case 21:
		res.Wcc = r.wcc()
		if ok {
			res.Verf = r.bytes(8)
		}
	}
	res.Bad = r.bad || r.pos != len(data)
	return res
}

// ---- argument encoders ----

type Sattr struct {
	Mode, UID, GID *uint32
	Size           *uint64
	AtimeHow       uint32
	MtimeHow       uint32
}

func (s Sattr) enc() []byte {
	var out []byte
	o32 := func(p *uint32) {
		if p == nil {
			out = append(out, u32(0)...)
		} else {
			out = append(out, u32(1)...)
			out = append(out, u32(*p)...)
		}
	}
	o32(s.Mode)
	o32(s.UID)
	o32(s.GID)
	if s.Size == nil {
		out = append(out, u32(0)...)
	} else {
		out = append(out, u32(1)...)
		out = append(out, u64(*s.Size)...)
	}
	for _, how := range []uint32{s.AtimeHow, s.MtimeHow} {
		out = append(out, u32(how)...)
		if how == 2 {
			out = append(out, u32(1700000000)...)
			out = append(out, u32(0)...)
		}
	}
	return out
}

func p32(v uint32) *uint32 { return &v }
func p64(v uint64) *uint64 { return &v }
