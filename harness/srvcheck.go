package main

// "SRV": the server model's own correspondence stream (not a property): mixed namespace/data/attribute
// histories under random configurations, every request replayed by the Lean model.

import (
	"fmt"
	"math/rand"
	"time"
)

func init() { checks["SRV"] = checkSRV }

func randCfg(rng *rand.Rand) SrvCfg {
	c := SrvCfg{}
	c.AttrTTL = []time.Duration{time.Nanosecond, 5 * time.Second, 7 * time.Millisecond, 40 * time.Millisecond}[rng.Intn(4)]
	c.AttrSize = []int{0, 0, 3, 8}[rng.Intn(4)]
	c.DirCache = rng.Intn(2) == 0
	c.Neg = rng.Intn(2) == 0
	c.Transfer = []int{0, 0, 512, 100}[rng.Intn(4)]
	c.Squash = []string{"none", "root", "all"}[rng.Intn(3)]
	if rng.Intn(4) == 0 {
		c.MaxHandles = 4 + rng.Intn(6)
	}
	if rng.Intn(5) == 0 {
		c.MaxFileSize = int64(10 + rng.Intn(40))
	}
	return c
}

func checkSRV(r *Result, rng *rand.Rand, thorough bool) {
	ncases, n := 150, 40
	if thorough {
		ncases, n = 1500, 80
	}
	r.Rule = "random namespace/data/SETATTR histories under random cache, transfer-size, squash, handle-limit and MaxFileSize settings; every request and the final backend tree replayed by the Lean server model"
	traces, done := collectTraces(ncases)
	defer done()
	creds := []Cred{{}, {}, {Flavor: 1, UID: 1000, GID: 1000}, {Flavor: 1, UID: 0, GID: 0, Aux: []uint32{0, 4}}, {Flavor: 1, UID: 7, GID: 0}}
	for i := 0; i < ncases; i++ {
		g := &nsGen{depth: 2, withData: rng.Intn(2) == 0, withSetattr: true, creds: creds}
		c := genNsCase(rng, 5+rng.Intn(n), g)
		c.Cfg = randCfg(rng)
		w := c.world()
		for _, o := range c.Ops {
			w.do(o)
			r.count("op:" + o.Kind)
		}
		w.Close()
		r.noteCase(fmt.Sprint(c.strings()), true)
	}
	compareSrv(r, "srv", *traces)
}

func init() {
	checks["SRVDBG"] = func(r *Result, rng *rand.Rand, thorough bool) {
		traces, done := collectTraces(1)
		defer done()
		g := &nsGen{depth: 2, withData: true, withSetattr: true}
		c := genNsCase(rng, 12, g)
		c.Cfg = randCfg(rng)
		w := c.world()
		for _, o := range c.Ops {
			w.do(o)
		}
		w.Close()
		for i, l := range (*traces)[0].lines {
			fmt.Println(l)
			fmt.Println("   WANT", (*traces)[0].want[i])
		}
	}
}
