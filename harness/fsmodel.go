package main

// Direct correspondence of the reference backend (refbackend.go) with the Lean `Fs` model: the same op lines on
// both, no server in between, so that a server-level disagreement can be attributed to the right layer.

import (
	"errors"
	"fmt"
	"io"
	"math/rand"
	"os"
	"strings"
	"syscall"
)

func fsErr(err error) string {
	if err == nil {
		return "ok"
	}
	var en syscall.Errno
	if errors.As(err, &en) {
		return errnoName(err)
	}
	return "ERR:" + err.Error()
}

func kindCh(m os.FileMode) string {
	switch {
	case m.IsDir():
		return "d"
	case m&os.ModeSymlink != 0:
		return "l"
	}
	return "f"
}

func runFsOps(ops []string) []string {
	fs := NewRefFS()
	fs.logOn = false
	out := make([]string, len(ops))
	P := func(h string) string {
		p := string(unhx(h))
		if p == "" {
			p = "/"
		}
		return p
	}
	for i, op := range ops {
		f := strings.Fields(op)
		switch f[1] {
		case "reset":
			fs = NewRefFS()
			fs.logOn = false
			out[i] = "ok"
		case "dump":
			out[i] = fs.Dump(true)
		case "lstat", "stat":
			var fi os.FileInfo
			var err error
			if f[1] == "lstat" {
				fi, err = fs.Lstat(P(f[2]))
			} else {
				fi, err = fs.Stat(P(f[2]))
			}
			if err != nil {
				out[i] = fsErr(err)
			} else {
				ri := fi.(*rinfo)
				out[i] = fmt.Sprintf("%s %o %d %d %d", kindCh(ri.mode), uint32(ri.mode.Perm()), ri.size, ri.uid, ri.gid)
			}
		case "readlink":
			t, err := fs.Readlink(P(f[2]))
			if err != nil {
				out[i] = fsErr(err)
			} else {
				out[i] = hx([]byte(t))
			}
		case "read":
			var off, cnt int64
			fmt.Sscan(f[3], &off)
			fmt.Sscan(f[4], &cnt)
			fl, err := fs.OpenFile(P(f[2]), os.O_RDONLY, 0)
			if err != nil {
				out[i] = fsErr(err)
				continue
			}
			buf := make([]byte, cnt)
			n, err := fl.ReadAt(buf, off)
			if err != nil && err != io.EOF {
				out[i] = fsErr(err)
			} else {
				out[i] = hx(buf[:n])
			}
			fl.Close()
		case "write":
			var off int64
			fmt.Sscan(f[3], &off)
			fl, err := fs.OpenFile(P(f[2]), os.O_WRONLY, 0)
			if err != nil {
				out[i] = fsErr(err)
				continue
			}
			_, err = fl.WriteAt(unhx(f[4]), off)
			fl.Close()
			out[i] = fsErr(err)
		case "truncate":
			var n int64
			fmt.Sscan(f[3], &n)
			out[i] = fsErr(fs.Truncate(P(f[2]), n))
		case "create":
			fl, err := fs.Create(P(f[2]))
			if err == nil {
				fl.Close()
			}
			out[i] = fsErr(err)
		case "mkdir":
			var perm uint32
			fmt.Sscanf(f[3], "%o", &perm)
			out[i] = fsErr(fs.Mkdir(P(f[2]), os.FileMode(perm)))
		case "symlink":
			out[i] = fsErr(fs.Symlink(string(unhx(f[2])), P(f[3])))
		case "remove":
			out[i] = fsErr(fs.Remove(P(f[2])))
		case "rename":
			out[i] = fsErr(fs.Rename(P(f[2]), P(f[3])))
		case "chmod":
			var perm uint32
			fmt.Sscanf(f[3], "%o", &perm)
			out[i] = fsErr(fs.Chmod(P(f[2]), os.FileMode(perm)))
		case "chown", "lchown":
			var u, g int
			fmt.Sscan(f[3], &u)
			fmt.Sscan(f[4], &g)
			if f[1] == "chown" {
				out[i] = fsErr(fs.Chown(P(f[2]), u, g))
			} else {
				out[i] = fsErr(fs.Lchown(P(f[2]), u, g))
			}
		case "readdir":
			fl, err := fs.OpenFile(P(f[2]), os.O_RDONLY, 0)
			if err != nil {
				out[i] = fsErr(err)
				continue
			}
			l, err := fl.Readdir(-1)
			fl.Close()
			if err != nil {
				out[i] = fsErr(err)
				continue
			}
			parts := make([]string, len(l))
			for k, e := range l {
				parts[k] = hx([]byte(e.Name())) + ":" + kindCh(e.Mode())
			}
			out[i] = strings.Join(parts, ",")
		default:
			out[i] = "bad-op"
		}
	}
	return out
}

var fsNames = []string{"a", "b", "c"}

func randFsPath(rng *rand.Rand) string {
	d := rng.Intn(4)
	p := ""
	for i := 0; i < d; i++ {
		p += "/" + fsNames[rng.Intn(len(fsNames))]
	}
	if p == "" {
		p = "/"
	}
	return p
}

func genFsCase(rng *rand.Rand, n int) []string {
	ops := []string{"fs reset"}
	for len(ops) < n {
		p := hx([]byte(randFsPath(rng)))
		switch rng.Intn(16) {
		case 0, 1:
			ops = append(ops, fmt.Sprintf("fs mkdir %s %o", p, []int{0o755, 0o700, 0o777, 0o1755}[rng.Intn(4)]))
		case 2, 3:
			ops = append(ops, "fs create "+p)
		case 4:
			t := []string{"a", "b", "../a", "a/b", "/a", "/a/b", ".", "..", "c/../a", "nowhere", "./b"}[rng.Intn(11)]
			ops = append(ops, fmt.Sprintf("fs symlink %s %s", hx([]byte(t)), p))
		case 5:
			ops = append(ops, "fs remove "+p)
		case 6, 7:
			ops = append(ops, fmt.Sprintf("fs rename %s %s", p, hx([]byte(randFsPath(rng)))))
		case 8:
			ops = append(ops, fmt.Sprintf("fs write %s %d %s", p, []int{0, 1, 3, 10}[rng.Intn(4)], hx(randBytes(rng, rng.Intn(5)))))
		case 9:
			ops = append(ops, fmt.Sprintf("fs truncate %s %d", p, rng.Intn(8)))
		case 10:
			ops = append(ops, fmt.Sprintf("fs read %s %d %d", p, rng.Intn(6), rng.Intn(8)))
		case 11:
			ops = append(ops, "fs lstat "+p, "fs stat "+p)
		case 12:
			ops = append(ops, "fs readlink "+p)
		case 13:
			ops = append(ops, fmt.Sprintf("fs chmod %s %o", p, rng.Intn(512)))
		case 14:
			ops = append(ops, fmt.Sprintf("fs %s %s %d %d", []string{"chown", "lchown"}[rng.Intn(2)], p, rng.Intn(3), rng.Intn(3)))
		case 15:
			ops = append(ops, "fs readdir "+p)
		}
		if rng.Intn(4) == 0 {
			ops = append(ops, "fs dump")
		}
	}
	ops = append(ops, "fs dump")
	return ops
}

// fsLayerCheck compares refbackend with the Lean Fs model; used by C02 (and available as `vharness FS`).
func fsLayerCheck(r *Result, rng *rand.Rand, ncases, n int) {
	var cases []Case
	var impl [][]string
	for i := 0; i < ncases; i++ {
		ops := genFsCase(rng, n)
		im := runFsOps(ops)
		cases = append(cases, Case{Ops: ops})
		impl = append(impl, im)
		r.count("fs-layer-case")
	}
	compareWithModel(r, "fs-layer", cases, impl, runFsOps)
}

func init() {
	checks["FS"] = func(r *Result, rng *rand.Rand, th bool) {
		n := 100
		if th {
			n = 2000
		}
		fsLayerCheck(r, rng, n, 60)
	}
}
