package main

import (
	"bufio"
	"bytes"
	"crypto/sha1"
	"encoding/hex"
	"encoding/json"
	"fmt"
	"math/rand"
	"os"
	"os/exec"
	"sort"
	"strings"
	"time"
)

// Case is one independent operation sequence; the model driver is reset between cases.
type Case struct {
	Name string   `json:"name,omitempty"`
	Ops  []string `json:"ops"`
}

// Violation is a failure of the property statement itself, observed on the real code.
type Violation struct {
	Class  string   `json:"class"` // stable class id, matched against known_findings.json
	What   string   `json:"what"`
	Ops    []string `json:"ops,omitempty"`
	Detail string   `json:"detail,omitempty"`
	Case   any      `json:"case,omitempty"` // structured replay input (server-level checks)
}

// Mismatch is a disagreement between the Lean model and the implementation.
type Mismatch struct {
	Stream string   `json:"stream"`
	Ops    []string `json:"ops"`
	Index  int      `json:"index"`
	Impl   string   `json:"impl"`
	Model  string   `json:"model"`
}

type Result struct {
	Property    string         `json:"property"`
	Tier        string         `json:"tier"`
	Seed        int64          `json:"seed"`
	Evaluations int            `json:"evaluations"`
	Distinct    int            `json:"distinct_nontrivial"`
	Rule        string         `json:"rule"`
	Samples     []any          `json:"samples"`
	Histogram   map[string]int `json:"histogram"`
	Compared    int            `json:"traces_validated_against_impl"`
	Mismatches  []Mismatch     `json:"model_mismatches"`
	Violations  []Violation    `json:"violations"`
	Notes       []string       `json:"notes,omitempty"`
	WallS       float64        `json:"wall_s"`

	distinct map[string]bool
}

func newResult(prop, tier string, seed int64) *Result {
	return &Result{Property: prop, Tier: tier, Seed: seed, Histogram: map[string]int{}, distinct: map[string]bool{},
		Mismatches: []Mismatch{}, Violations: []Violation{}, Samples: []any{}}
}

func (r *Result) count(key string) { r.Histogram[key]++ }

// noteCase records an evaluated case; nontrivial cases are counted once per distinct content.
func (r *Result) noteCase(key string, nontrivial bool) {
	r.Evaluations++
	if nontrivial {
		h := sha1.Sum([]byte(key))
		r.distinct[string(h[:])] = true
	}
}

func (r *Result) sample(v any) {
	if len(r.Samples) < 8 {
		r.Samples = append(r.Samples, v)
	}
}

// violate records a violation: at most 8 per class (so that a frequent class, e.g. a known finding, cannot
// crowd out a different one) and 200 in all.
func (r *Result) violate(v Violation) {
	n := 0
	for _, x := range r.Violations {
		if x.Class == v.Class {
			n++
		}
	}
	if n < 8 && len(r.Violations) < 200 {
		r.Violations = append(r.Violations, v)
	}
}

func (r *Result) finish(start time.Time, out string) {
	r.Distinct = len(r.distinct)
	r.WallS = time.Since(start).Seconds()
	b, _ := json.MarshalIndent(r, "", " ")
	if out == "" || out == "-" {
		os.Stdout.Write(b)
		return
	}
	os.WriteFile(out, b, 0o644)
}

// ---- Lean model driver ----

var driverPath string

// runModel feeds all cases to the Lean driver (a `reset` line before each case) and returns, per case, the
// model's output lines.
func runModel(cases []Case) ([][]string, error) {
	var in bytes.Buffer
	for _, c := range cases {
		in.WriteString("reset\n")
		for _, op := range c.Ops {
			if strings.ContainsAny(op, "\n\r") {
				return nil, fmt.Errorf("op contains newline: %q", op)
			}
			in.WriteString(op)
			in.WriteByte('\n')
		}
	}
	var out bytes.Buffer
	input := in.Bytes()
	for attempt := 0; ; attempt++ {
		cmd := exec.Command(driverPath)
		cmd.Stdin = bytes.NewReader(input)
		out.Reset()
		cmd.Stdout = &out
		cmd.Stderr = realStderr
		err := cmd.Run()
		if err == nil {
			break
		}
		// the driver binary is replaced when another check relinks it: wait for the new one rather than report
		// a disagreement that is not one
		if _, statErr := os.Stat(driverPath); (os.IsNotExist(statErr) || strings.Contains(err.Error(), "text file busy") || strings.Contains(err.Error(), "no such file")) && attempt < 120 {
			time.Sleep(500 * time.Millisecond)
			continue
		}
		return nil, fmt.Errorf("lean driver failed: %v", err)
	}
	sc := bufio.NewScanner(&out)
	sc.Buffer(make([]byte, 1<<20), 1<<28)
	res := make([][]string, len(cases))
	for i, c := range cases {
		if !sc.Scan() || sc.Text() != "ok" {
			return nil, fmt.Errorf("lean driver: missing reset ack for case %d (got %q)", i, sc.Text())
		}
		lines := make([]string, 0, len(c.Ops))
		for range c.Ops {
			if !sc.Scan() {
				return nil, fmt.Errorf("lean driver: output ended early in case %d", i)
			}
			lines = append(lines, sc.Text())
		}
		res[i] = lines
	}
	return res, nil
}

// compareWithModel runs the model on the cases and diffs against the implementation's lines.
// On a disagreement the case is shrunk with `rerun` (which re-executes the implementation on an op list).
func compareWithModel(r *Result, stream string, cases []Case, impl [][]string, rerun func(ops []string) []string) {
	if len(cases) == 0 {
		return
	}
	model, err := runModel(cases)
	if err != nil {
		r.Mismatches = append(r.Mismatches, Mismatch{Stream: stream, Ops: nil, Index: -1, Impl: "", Model: err.Error()})
		return
	}
	reported := 0
	for i, c := range cases {
		r.Compared++
		idx := firstDiff(impl[i], model[i])
		if idx < 0 {
			continue
		}
		if reported >= 5 {
			continue
		}
		reported++
		ops := c.Ops
		if rerun != nil {
			ops = shrink(ops, func(cand []string) bool {
				im := rerun(cand)
				mo, err := runModel([]Case{{Ops: cand}})
				return err == nil && firstDiff(im, mo[0]) >= 0
			})
			im := rerun(ops)
			mo, _ := runModel([]Case{{Ops: ops}})
			j := firstDiff(im, mo[0])
			if j >= 0 {
				r.Mismatches = append(r.Mismatches, Mismatch{Stream: stream, Ops: ops, Index: j, Impl: get(im, j), Model: get(mo[0], j)})
				continue
			}
		}
		r.Mismatches = append(r.Mismatches, Mismatch{Stream: stream, Ops: c.Ops, Index: idx, Impl: get(impl[i], idx), Model: get(model[i], idx)})
	}
}

func get(l []string, i int) string {
	if i < len(l) {
		return l[i]
	}
	return "<missing>"
}

func firstDiff(a, b []string) int {
	n := len(a)
	if len(b) > n {
		n = len(b)
	}
	for i := 0; i < n; i++ {
		if get(a, i) != get(b, i) {
			return i
		}
	}
	return -1
}

// shrink: greedy delta debugging on the op list (remove chunks while `bad` stays true).
func shrink(ops []string, bad func([]string) bool) []string {
	cur := append([]string(nil), ops...)
	deadline := time.Now().Add(20 * time.Second)
	for chunk := len(cur) / 2; chunk >= 1; chunk /= 2 {
		for i := 0; i+chunk <= len(cur) && time.Now().Before(deadline); {
			cand := append(append([]string(nil), cur[:i]...), cur[i+chunk:]...)
			if len(cand) > 0 && bad(cand) {
				cur = cand
			} else {
				i += chunk
			}
		}
	}
	return cur
}

// ---- helpers ----

func hx(b []byte) string {
	if len(b) == 0 {
		return "-"
	}
	return hex.EncodeToString(b)
}

func unhx(s string) []byte {
	if s == "-" {
		return nil
	}
	b, err := hex.DecodeString(s)
	if err != nil {
		panic("bad hex " + s)
	}
	return b
}

func randBytes(rng *rand.Rand, n int) []byte {
	b := make([]byte, n)
	rng.Read(b)
	return b
}

func sortedKeys(m map[string]int) []string {
	ks := make([]string, 0, len(m))
	for k := range m {
		ks = append(ks, k)
	}
	sort.Strings(ks)
	return ks
}

func jsonUnmarshal(b []byte, v any) error { return json.Unmarshal(b, v) }
