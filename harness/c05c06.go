package main

// C05 / C06 — the real FileHandleMap against the Lean `Handles` model (same op sequence), with
// oracles stated from the properties: live when issued, one per path, bounded; never re-pointed.

import (
	"encoding/binary"
	"encoding/json"
	"fmt"
	"math/rand"
	"sort"
	"strconv"
	"strings"
	"sync"
	"sync/atomic"
	"time"

	"github.com/absfs/absnfs"
)

func init() {
	checks["C05"] = func(r *Result, rng *rand.Rand, th bool) { checkHandles(r, rng, th, "C05") }
	checks["C06"] = func(r *Result, rng *rand.Rand, th bool) { checkHandles(r, rng, th, "C06") }
	for _, prop := range []string{"C05", "C06"} {
		prop := prop
		tableReplay := opsReplay("handles", runHandleOps, func(r *Result, ops, impl []string) { handleOracle(r, ops, impl, prop) })
		served := caseReplay(func(c SrvCase) []Violation { return judgeServedHandles(c, prop) })
		replays[prop] = func(r *Result, raw json.RawMessage) {
			var ro struct {
				Ops []string `json:"ops"`
			}
			if json.Unmarshal(raw, &ro) == nil && len(ro.Ops) > 0 && ro.Ops[0] == "issued-handle-under-concurrent-relookups" {
				issuedHandleUnderConcurrentRelookups(r, 600000)
				return
			}
			var rp struct {
				Case *SrvCase `json:"case"`
			}
			if json.Unmarshal(raw, &rp) == nil && rp.Case != nil && len(rp.Case.Ops) > 0 {
				served(r, raw)
				return
			}
			tableReplay(r, raw)
		}
	}
}

// judgeServedHandles: the handles the *server* hands out (LOOKUP, CREATE, MKDIR, SYMLINK, READDIRPLUS entries, MNT in
// any spelling of the path) over a namespace history: right after a reply carried a handle for a path, the table
// resolves that value to that path (C05: live when issued; C06: it names that object and no other), and MNT of a
// directory the client already holds a handle for returns that handle (C05: one per path).
func judgeServedHandles(c SrvCase, prop string) []Violation {
	w := c.world()
	defer w.Close()
	var vs []Violation
	for i, o := range c.Ops {
		before := len(w.handleBad)
		held, had := w.handles[o.Dir]
		fresh := had && w.inoAt[o.Dir] == w.inoOf(o.Dir)
		r := w.do(o)
		for _, b := range w.handleBad[before:] {
			cls := prop + "/handle-names-other-path"
			vs = append(vs, Violation{Class: cls, What: b, Detail: fmt.Sprintf("op %d: %s", i, o.String())})
		}
		if o.Kind == "mnt" && r.MntFh != 0 && fresh && held != r.MntFh && prop == "C05" {
			vs = append(vs, Violation{Class: "C05/second-handle-for-one-path", What: fmt.Sprintf("MNT %q returned handle %d for %s while the handle %d given for that path is live", o.Target, r.MntFh, o.Dir, held),
				Detail: fmt.Sprintf("op %d: %s", i, o.String())})
		}
	}
	return vs
}

func servedHandles(r *Result, rng *rand.Rand, thorough bool, prop string) {
	ncases, n := 60, 40
	if thorough {
		ncases, n = 600, 80
	}
	for i := 0; i < ncases; i++ {
		g := &nsGen{depth: 2, withMnt: true, tight: i%3 == 2}
		c := genNsCase(rng, 5+rng.Intn(n), g)
		c.Cfg.AttrTTL = []time.Duration{time.Nanosecond, 5 * time.Second}[rng.Intn(2)]
		vs := judgeServedHandles(c, prop)
		r.noteCase(fmt.Sprint("served", c.strings()), true)
		r.count("served-handles-history")
		if len(vs) > 0 {
			reportCase(r, c, vs, func(cc SrvCase) []Violation { return judgeServedHandles(cc, prop) })
		}
	}
}

// allocAux is what the oracle may know about one alloc beyond its output: the path the returned value
// resolved to just before the call ("" if none) and the number of live handles before the call.
type allocAux struct {
	prev   string
	before int
	gone   []uint64 // values that were live before the call and are dead or re-pointed after it (evictions)
}

// lastAllocAux is filled by the latest runHandleOps call (indexed like its ops).
var lastAllocAux []allocAux

// ops: handles init <max> | alloc <pathhex> | get <id> | release <id> | releaseall | count | dump
func runHandleOps(ops []string) []string {
	var fm *absnfs.FileHandleMap
	out := make([]string, len(ops))
	aux := make([]allocAux, len(ops))
	defer func() { lastAllocAux = aux }()
	for i, op := range ops {
		f := strings.Fields(op)
		if fm == nil && f[1] != "init" {
			fm = absnfs.VerifNewFileHandleMap(0)
		}
		switch f[1] {
		case "init":
			m, _ := strconv.Atoi(f[2])
			fm = absnfs.VerifNewFileHandleMap(m)
			out[i] = "ok"
		case "alloc":
			before := absnfs.VerifHandleDump(fm)
			h := absnfs.VerifAllocPath(fm, string(unhx(f[2])))
			aux[i] = allocAux{prev: before[h], before: len(before)}
			after := absnfs.VerifHandleDump(fm)
			for id, p0 := range before {
				if after[id] != p0 {
					aux[i].gone = append(aux[i].gone, id)
				}
			}
			out[i] = fmt.Sprint(h)
		case "get":
			h, _ := strconv.ParseUint(f[2], 10, 64)
			if p, ok := absnfs.VerifGetPath(fm, h); ok {
				out[i] = hx([]byte(p))
			} else {
				out[i] = "none"
			}
		case "release":
			h, _ := strconv.ParseUint(f[2], 10, 64)
			if _, ok := absnfs.VerifGetPath(fm, h); ok {
				aux[i].before = 1 // the value was live: Release puts it on the free list
			}
			fm.Release(h)
			out[i] = "ok"
		case "releaseall":
			fm.ReleaseAll()
			out[i] = "ok"
		case "count":
			out[i] = fmt.Sprint(fm.Count())
		case "dump":
			d := absnfs.VerifHandleDump(fm)
			ids := make([]uint64, 0, len(d))
			for h := range d {
				ids = append(ids, h)
			}
			sort.Slice(ids, func(a, b int) bool { return ids[a] < ids[b] })
			parts := make([]string, len(ids))
			for k, h := range ids {
				parts[k] = fmt.Sprintf("%d:%s", h, hx([]byte(d[h])))
			}
			out[i] = strings.Join(parts, ",")
		default:
			out[i] = "bad-op"
		}
	}
	return out
}

// handleOracle replays the observable outputs against the property statements.
// A "burst" is a maximal run of consecutive alloc ops (as in one READDIRPLUS reply); generated cases put a
// `dump` right after each burst so liveness of all of its handles can be judged.
func handleOracle(r *Result, ops, impl []string, prop string) {
	aux := lastAllocAux
	if len(aux) != len(ops) {
		aux = make([]allocAux, len(ops))
	}
	maxH := 100000
	live := map[uint64]string{}   // reference: what must be live, from outputs only (updated from dumps)
	issued := map[uint64]string{} // ghost: first path each id value was issued for
	everFreed := map[uint64]bool{}
	inFree := map[uint64]bool{}   // shadow of the free list: values released or evicted since the last init / releaseall
	holder := map[uint64]string{} // the path each value was handed out for most recently
	var burst []struct {
		h uint64
		p string
	}
	prefix := func(i int) []string { return append([]string(nil), ops[:i+1]...) }
	for i, op := range ops {
		f := strings.Fields(op)
		switch f[1] {
		case "init":
			m, _ := strconv.Atoi(f[2])
			if m > 0 {
				maxH = m
			} else {
				maxH = 100000
			}
			live, issued, everFreed = map[uint64]string{}, map[uint64]string{}, map[uint64]bool{}
			inFree, holder = map[uint64]bool{}, map[uint64]string{}
		case "alloc":
			p := string(unhx(f[2]))
			h, _ := strconv.ParseUint(impl[i], 10, 64)
			// values evicted inside this very call are no longer live (a batch is only dumped at its end)
			for _, id := range aux[i].gone {
				if id != h {
					delete(live, id)
				}
			}
			// one per path
			for h0, p0 := range live {
				if p0 == p && h0 != h && prop == "C05" {
					r.violate(Violation{Class: "C05/not-deduplicated", What: fmt.Sprintf("path %q already had live handle %d but Allocate returned %d", p, h0, h), Ops: prefix(i)})
				}
			}
			fromFree := inFree[h]
			for _, id := range aux[i].gone {
				everFreed[id] = true // evicted inside this call (seen through the table, not through outputs)
				if id == h {
					fromFree = true // evicted and handed out again within this call
				} else {
					inFree[id] = true
				}
			}
			delete(inFree, h)
			if a := aux[i]; a.prev != "" && a.prev != p && a.before < maxH && prop == "C06" {
				// no eviction can have happened inside this call (the table was below its limit), so the value
				// handed out for p was, at that moment, the live handle of another path
				r.violate(Violation{Class: "C06/live-handle-reissued", What: fmt.Sprintf("handle value %d was the live handle of %q (table at %d of %d) when Allocate returned it for %q", h, a.prev, a.before, maxH, p), Ops: prefix(i)})
			} else if first, ok := issued[h]; ok && first != p && holder[h] != p && prop == "C06" {
				// (a re-issue for the path that already holds the value is the dedup branch, not a new event)
				// ids come either from the counter (always larger than every id issued before) or from the
				// free list: a previously issued value coming back for another path is free-list reuse
				cls := "C06/free-list-id-reuse"
				if !fromFree {
					// not popped from the free list (it was emptied by ReleaseAll, or never held this value): the
					// counter itself handed out a value it had handed out before
					cls = "C06/counter-reissued-value"
				}
				r.violate(Violation{Class: cls, What: fmt.Sprintf("handle value %d was issued for %q and is now issued for %q", h, first, p), Ops: prefix(i)})
			}
			if _, ok := issued[h]; !ok {
				issued[h] = p
			}
			holder[h] = p
			live[h] = p
			burst = append(burst, struct {
				h uint64
				p string
			}{h, p})
		case "get":
			h, _ := strconv.ParseUint(f[2], 10, 64)
			if impl[i] != "none" && prop == "C06" {
				p := string(unhx(impl[i]))
				if first, ok := issued[h]; ok && first != p {
					cls := "C06/repointed"
					if everFreed[h] {
						cls = "C06/free-list-id-reuse"
					}
					r.violate(Violation{Class: cls, What: fmt.Sprintf("handle value %d, first given out for %q, now resolves to %q", h, first, p), Ops: prefix(i)})
				}
			}
		case "release":
			h, _ := strconv.ParseUint(f[2], 10, 64)
			if _, ok := live[h]; ok {
				everFreed[h] = true
			}
			if aux[i].before == 1 {
				inFree[h] = true
			}
			delete(live, h)
		case "releaseall":
			for h := range live {
				everFreed[h] = true
			}
			live = map[uint64]string{}
			inFree = map[uint64]bool{} // ReleaseAll starts a new, empty free list
		case "dump":
			cur := map[uint64]string{}
			if impl[i] != "" {
				for _, e := range strings.Split(impl[i], ",") {
					k, v, _ := strings.Cut(e, ":")
					h, _ := strconv.ParseUint(k, 10, 64)
					cur[h] = string(unhx(v))
				}
			}
			if prop == "C05" {
				if len(cur) > maxH {
					r.violate(Violation{Class: "C05/unbounded", What: fmt.Sprintf("%d live handles with maximum %d", len(cur), maxH), Ops: prefix(i)})
				}
				for k, b := range burst {
					if cur[b.h] != b.p {
						if len(burst) > 1 && k < len(burst)-1 {
							r.violate(Violation{Class: "C05/readdirplus-evicts-own-handles", What: fmt.Sprintf("handle %d issued for %q earlier in a %d-handle batch is dead (or re-pointed: %q) at the end of the batch", b.h, b.p, len(burst), cur[b.h]), Ops: prefix(i)})
						} else {
							r.violate(Violation{Class: "C05/issued-handle-dead", What: fmt.Sprintf("handle %d just issued for %q does not resolve to it (resolves to %q)", b.h, b.p, cur[b.h]), Ops: prefix(i)})
						}
					}
				}
			}
			for h := range live {
				if _, ok := cur[h]; !ok {
					everFreed[h] = true // evicted
				}
			}
			live = cur
			burst = nil
		}
		if f[1] != "alloc" && f[1] != "dump" {
			burst = nil
		}
	}
}

func genHandleCase(rng *rand.Rand, maxH int, n int, bursts bool) []string {
	ops := []string{fmt.Sprintf("handles init %d", maxH)}
	eff := maxH
	if eff <= 0 {
		eff = 40 // keep the id space small in generated histories even when max is the default
	}
	npaths := eff*2 + 3
	var issued []uint64
	path := func() string { return hx([]byte(fmt.Sprintf("/p%d", rng.Intn(npaths)))) }
	for len(ops) < n {
		switch x := rng.Intn(10); {
		case x < 6:
			k := 1
			if bursts && rng.Intn(3) == 0 {
				k = 2 + rng.Intn(4)
			}
			for j := 0; j < k; j++ {
				ops = append(ops, "handles alloc "+path())
			}
			ops = append(ops, "handles dump")
		case x < 8:
			ops = append(ops, fmt.Sprintf("handles get %d", 1+rng.Intn(npaths+2)))
		case x < 9:
			ops = append(ops, fmt.Sprintf("handles release %d", 1+rng.Intn(npaths+2)))
			ops = append(ops, "handles dump")
		default:
			if rng.Intn(8) == 0 {
				ops = append(ops, "handles releaseall", "handles dump")
			} else {
				ops = append(ops, "handles count")
			}
		}
	}
	_ = issued
	return ops
}

func checkHandles(r *Result, rng *rand.Rand, thorough bool, prop string) {
	r.Rule = "alloc/get/release/releaseall histories on the real FileHandleMap for max in {1,2,3,10,11,100,0(default)}, many times longer than max, single allocations and batches of 2..5 (a READDIRPLUS reply), path universe about twice max so that dedup, free-list reuse and eviction all occur; a case is non-trivial when at least one eviction or release happened; distinct = distinct op sequences"
	ncases, n := 60, 150
	if thorough {
		ncases, n = 1500, 400
	}
	var cases []Case
	var impl [][]string
	for i := 0; i < ncases; i++ {
		maxH := []int{1, 2, 3, 10, 11, 100, 0, -5}[rng.Intn(8)]
		ln := n
		if maxH == 100 {
			ln = n * 4
		}
		// first half of the cases: single allocations only (what MNT/LOOKUP/CREATE/MKDIR/SYMLINK do)
		ops := genHandleCase(rng, maxH, ln, i%2 == 1)
		im := runHandleOps(ops)
		handleOracle(r, ops, im, prop)
		cases = append(cases, Case{Ops: ops})
		impl = append(impl, im)
		nt := false
		for _, o := range ops {
			if strings.Contains(o, "release") {
				nt = true
			}
		}
		r.noteCase(strings.Join(ops, ";"), nt || maxH > 0)
		r.count(fmt.Sprintf("max=%d", maxH))
		if i < 2 {
			r.sample(map[string]any{"ops": ops[:min(len(ops), 14)], "impl": im[:min(len(im), 14)]})
		}
	}
	// the witnesses of the recorded findings always run (corpus)
	for _, w := range [][]string{
		{"handles init 2", "handles alloc 2f61", "handles alloc 2f62", "handles alloc 2f63", "handles dump", "handles alloc 2f64", "handles dump", "handles alloc 2f65", "handles dump"},
		{"handles init 2", "handles alloc 2f61", "handles alloc 2f62", "handles release 1", "handles dump", "handles alloc 2f63", "handles alloc 2f64", "handles dump"},
		{"handles init 0", "handles alloc 2f61", "handles release 1", "handles alloc 2f62", "handles get 1"},
	} {
		im := runHandleOps(w)
		handleOracle(r, w, im, prop)
		cases = append(cases, Case{Ops: w})
		impl = append(impl, im)
		r.noteCase(strings.Join(w, ";"), true)
		r.count("corpus")
	}
	if prop == "C06" {
		staleCheck(r, rng)
		iters := 600000
		if thorough {
			iters = 3000000
		}
		issuedHandleUnderConcurrentRelookups(r, iters)
	}
	servedHandles(r, rng, thorough, prop)
	compareWithModel(r, "handles", cases, impl, runHandleOps)
}

// staleCheck: at handler level, a handle value that is not (or no longer) tracked gets NFS3ERR_STALE from
// every procedure that takes a handle, also after Unexport and re-mount.
func staleCheck(r *Result, rng *rand.Rand) {
	fs := NewRefFS()
	must(fs.Mkdir("/d", 0o755))
	must(fs.Mkdir("/e", 0o755))
	f, _ := fs.Create("/d/f")
	f.Close()
	s, err := newSrv(fs, absnfs.ExportOptions{})
	must(err)
	defer s.Close()
	root, _ := s.Mount("/")
	d, _ := s.Lookup(root, "d", rootCred())
	fhd, _ := s.Lookup(d, "f", rootCred())
	sattr := cat(u32(0), u32(0), u32(0), u32(0), u32(0), u32(0))
	argsFor := func(proc uint32, h uint64) []byte {
		switch proc {
		case 1, 5, 18, 19, 20: // GETATTR READLINK FSSTAT FSINFO PATHCONF
			return fh(h)
		case 2:
			return cat(fh(h), sattr, u32(0))
		case 3, 12, 13:
			return cat(fh(h), xdrOpaque([]byte("x")))
		case 4:
			return cat(fh(h), u32(0x3f))
		case 6:
			return cat(fh(h), u64(0), u32(10))
		case 7:
			return cat(fh(h), u64(0), u32(3), u32(2), xdrOpaque([]byte("abc")))
		case 8:
			return cat(fh(h), xdrOpaque([]byte("x")), u32(0), sattr)
		case 9:
			return cat(fh(h), xdrOpaque([]byte("x")), sattr)
		case 10:
			return cat(fh(h), xdrOpaque([]byte("x")), sattr, xdrOpaque([]byte("t")))
		case 14:
			return cat(fh(h), xdrOpaque([]byte("x")), fh(h), xdrOpaque([]byte("y")))
		case 16:
			return cat(fh(h), u64(0), make([]byte, 8), u32(4096))
		case 17:
			return cat(fh(h), u64(0), make([]byte, 8), u32(4096), u32(8192))
		case 21:
			return cat(fh(h), u64(0), u32(0))
		}
		return nil
	}
	procs := []uint32{1, 2, 3, 4, 5, 6, 7, 8, 9, 10, 12, 13, 14, 16, 17, 18, 19, 20, 21}
	check := func(label string, h uint64) {
		before := fs.Dump(true)
		for _, proc := range procs {
			rep := s.NFSCall(proc, rootCred(), argsFor(proc, h))
			st := status(rep)
			r.noteCase(fmt.Sprintf("stale %s proc=%d", label, proc), true)
			r.count("stale-" + label)
			if st != 70 {
				r.violate(Violation{Class: "C06/stale-handle-served", What: fmt.Sprintf("%s handle %d: procedure %d answered status %d, want NFS3ERR_STALE(70)", label, h, proc, st),
					Ops: []string{fmt.Sprintf("stale %s proc=%d", label, proc)}})
			}
		}
		if fs.Dump(true) != before {
			r.violate(Violation{Class: "C06/stale-handle-served", What: label + " handle: backend changed"})
		}
	}
	check("never-issued", 0xdeadbeefcafe)
	check("zero", 0)
	absnfs.VerifFileMap(s.NFS).Release(fhd)
	check("released", fhd)
	s.NFS.Unexport()
	check("after-unexport-dir", d)
	check("after-unexport-root", root)
	// re-export: new handles are issued; the old values must not come back for other objects
	// (objects are looked up in another order than before, so that a numbering that starts over would hand
	// the old values to other objects; Unexport empties the free list, so this is not free-list reuse)
	root2, _ := s.Mount("/")
	e2, _ := s.Lookup(root2, "e", rootCred())
	d2, _ := s.Lookup(root2, "d", rootCred())
	for _, old := range []struct {
		h uint64
		p string
	}{{root, "/"}, {d, "/d"}, {fhd, "/d/f"}} {
		if p, ok := absnfs.VerifHandlePath(s.NFS, old.h); ok && p != old.p {
			r.violate(Violation{Class: "C06/ids-restart-after-releaseall", What: fmt.Sprintf("after Unexport and re-mount handle %d (was %q) resolves to %q", old.h, old.p, p)})
			rep := s.NFSCall(1, rootCred(), fh(old.h))
			if status(rep) != 70 {
				r.violate(Violation{Class: "C06/stale-handle-served", What: fmt.Sprintf("the handle %d a client got for %q before Unexport is served (GETATTR status %d) against %q after re-export", old.h, old.p, status(rep), p)})
			}
		}
	}
	_, _ = d2, e2
	_ = binary.BigEndian
}

// issuedHandleUnderConcurrentRelookups: a table at its limit (2) used by two clients at once. One keeps re-looking-up
// one path (the de-duplication branch of Allocate); the other allocates handles for fresh paths and uses each at once.
// A value just issued for a path resolves to that path, or — if the other client's allocation evicted it in between — to
// nothing (NFS3ERR_STALE); it never resolves to the other client's path. (A de-duplication hit that writes through a
// handle value read before the lock was taken does exactly that when the value was evicted and reissued meanwhile.)
func issuedHandleUnderConcurrentRelookups(r *Result, iters int) {
	fm := absnfs.VerifNewFileHandleMap(2)
	var stopped atomic.Bool
	var wg sync.WaitGroup
	wg.Add(1)
	go func() {
		defer wg.Done()
		for !stopped.Load() {
			absnfs.VerifAllocPath(fm, "/P")
		}
	}()
	r.noteCase("issued-handle-under-concurrent-relookups", true)
	r.Histogram["concurrent-relookup-iterations"] += iters
	for i := 0; i < iters; i++ {
		q := fmt.Sprintf("/q%d", i)
		v := absnfs.VerifAllocPath(fm, q)
		if p, ok := absnfs.VerifGetPath(fm, v); ok && p != q {
			stopped.Store(true)
			wg.Wait()
			r.violate(Violation{Class: "C06/issued-handle-repointed-under-concurrency", What: fmt.Sprintf("handle %d was issued for %q and, used at once, resolves to %q (a table of 2 handles shared with a client that keeps re-looking-up /P)", v, q, p),
				Ops: []string{"issued-handle-under-concurrent-relookups"}})
			return
		}
	}
	stopped.Store(true)
	wg.Wait()
}
