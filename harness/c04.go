package main

// C04 — reported attributes are consistent across procedures and with the backend. Every attribute block in
// every reply is attributed to a path and compared with the backend's lstat (type, size, permission bits) at
// that moment; the fileid reported for one object at one path must never change.

import (
	"fmt"
	"math/rand"
	"os"
	"time"
)

func init() {
	checks["C04"] = checkC04
	replays["C04"] = caseReplay(judgeC04)
}

type attrObs struct {
	path  string
	a     *Fattr
	where string
}

// attrsIn lists the post-operation attribute blocks of a reply with the path each describes.
func attrsIn(o SOp, r SRes) []attrObs {
	var out []attrObs
	add := func(p string, a *Fattr, where string) {
		if a != nil {
			out = append(out, attrObs{p, a, where})
		}
	}
	child := join(o.Dir, o.Name)
	switch o.Kind {
	case "getattr", "access", "read", "readlink", "fsstat", "fsinfo", "pathconf":
		add(o.Dir, r.Res.Obj, o.Kind+" obj")
	case "mnt":
		add(o.Dir, r.Res.Obj, "getattr through the MNT handle")
	case "lookup":
		add(child, r.Res.Obj, "lookup obj")
		add(o.Dir, r.Res.Dir, "lookup dir")
	case "create", "mkdir", "symlink":
		add(child, r.Res.Obj, o.Kind+" obj")
		add(o.Dir, r.Res.Wcc.Post, o.Kind+" dir wcc")
	case "remove", "rmdir":
		add(o.Dir, r.Res.Wcc.Post, o.Kind+" dir wcc")
	case "rename":
		add(o.Dir, r.Res.Wcc.Post, "rename from wcc")
		add(o.Dir2, r.Res.Wcc2.Post, "rename to wcc")
	case "setattr", "write", "commit":
		add(o.Dir, r.Res.Wcc.Post, o.Kind+" wcc")
	case "readdir", "readdirplus":
		add(o.Dir, r.Res.Dir, o.Kind+" dir")
		for i := range r.Entries {
			add(join(o.Dir, r.Entries[i].Name), r.Entries[i].Attr, "readdirplus entry")
		}
	}
	return out
}

func judgeC04(c SrvCase) []Violation {
	w := c.world()
	defer w.Close()
	var vs []Violation
	type key struct {
		path string
		ino  uint64
	}
	fileids := map[key]uint64{}
	fidFrom := map[key]string{}
	for i, o := range c.Ops {
		bad := func(class, what string) {
			vs = append(vs, Violation{Class: class, What: what, Detail: fmt.Sprintf("op %d: %s", i, o.String())})
		}
		preSize := int64(-1)
		if info, err := w.peek(o.Dir); err == nil {
			preSize = info.Size()
		}
		isLink := false
		var dumpBefore string
		if info, err := w.peek(o.Dir); err == nil && info.Mode()&os.ModeSymlink != 0 && o.Kind == "setattr" {
			isLink, dumpBefore = true, w.fs.Dump(true)
		}
		r := w.do(o)
		if isLink && !r.NoHandle && w.fs.Dump(true) != dumpBefore {
			bad("setattr-through-symlink", "SETATTR on the handle of a symbolic link changed another object (the link's target)")
		}
		if o.Kind == "mnt" && r.MntFh != 0 {
			// one object, one identity: the handle MNT gives for a spelling of a directory is the handle the
			// client already holds for that directory (handles are per path, fileids per path)
			if h, ok := w.handles[o.Dir]; ok && w.inoAt[o.Dir] == w.inoOf(o.Dir) && h != r.MntFh {
				bad("mnt-second-identity", fmt.Sprintf("MNT %q returned handle %d for the directory %s, which the client reaches as handle %d by LOOKUP", o.Target, r.MntFh, o.Dir, h))
			}
		}
		if r.NoHandle || r.Res.Bad {
			continue
		}
		if r.Res.Wcc.PreSize != nil && preSize >= 0 && (o.Kind == "setattr" || o.Kind == "write") && int64(*r.Res.Wcc.PreSize) != preSize {
			bad("wcc-pre-size", fmt.Sprintf("%s pre-op size %d, backend had %d", o.Kind, *r.Res.Wcc.PreSize, preSize))
		}
		checkFid := func(p string, fid uint64, where string) {
			k := key{p, w.inoOf(p)}
			if k.ino == 0 {
				return
			}
			if old, ok := fileids[k]; ok && old != fid {
				bad("fileid-changed", fmt.Sprintf("%s reports fileid %x for %s, %s reported %x for the same object", where, fid, p, fidFrom[k], old))
			} else if !ok {
				fileids[k], fidFrom[k] = fid, where
			}
		}
		for _, ob := range attrsIn(o, r) {
			info, err := w.peek(ob.path)
			if err != nil {
				continue // the object is gone (e.g. stale handle whose path was reused): nothing to compare with
			}
			if want := ftypeOfMode(info.Mode()); ob.a.Type != want {
				bad("type-differs", fmt.Sprintf("%s reports type %d for %s, the backend's lstat says %d", ob.where, ob.a.Type, ob.path, want))
			}
			if uint64(info.Size()) != ob.a.Size {
				bad("size-differs", fmt.Sprintf("%s reports size %d for %s, the backend's lstat says %d", ob.where, ob.a.Size, ob.path, info.Size()))
			}
			if uint32(info.Mode().Perm()) != ob.a.Mode&0o777 {
				bad("perm-differs", fmt.Sprintf("%s reports mode %o for %s, the backend's lstat says %o", ob.where, ob.a.Mode, ob.path, info.Mode().Perm()))
			}
			checkFid(ob.path, ob.a.FileID, ob.where)
		}
		if o.Kind == "readdir" || o.Kind == "readdirplus" {
			for _, e := range r.Entries {
				checkFid(join(o.Dir, e.Name), e.FileID, o.Kind+" entry fileid")
			}
		}
	}
	return vs
}

func (w *World) peek(p string) (os.FileInfo, error) {
	return w.fs.Peek(p)
}

func genC04(rng *rand.Rand, n int) SrvCase {
	g := &nsGen{depth: 2, withData: rng.Intn(2) == 0, withSetattr: true, withMnt: true, tight: rng.Intn(3) == 0}
	c := genNsCase(rng, n, g)
	c.Cfg.AttrTTL = []time.Duration{time.Nanosecond, 5 * time.Second, 20 * time.Millisecond}[rng.Intn(3)]
	c.Cfg.DirCache = rng.Intn(2) == 0
	c.Cfg.Neg = rng.Intn(2) == 0
	// one history in three: the client keeps the handles it has when the object at their path is replaced (the
	// server's handles name paths): whatever such a request does, it does to the object now at that path
	c.Cfg.KeepStale = rng.Intn(3) == 0
	if c.Cfg.KeepStale && rng.Intn(2) == 0 {
		// a name changes hands while the client holds its handle: a file is removed and a symbolic link (to another
		// object) is renamed into its place, then attributes are set through the old handle — they are the link's
		// business now, never its target's — and everything is looked at again
		c.Seed = append(c.Seed, "file /zt "+hx([]byte("target")))
		at := rng.Intn(len(c.Ops) + 1)
		mode := uint32([]int{0o600, 0o640, 0o755, 0o400}[rng.Intn(4)])
		pat := []SOp{{Kind: "create", Dir: "/", Name: "zs"}, {Kind: "lookup", Dir: "/", Name: "zs"}, {Kind: "lookup", Dir: "/", Name: "zt"},
			{Kind: "symlink", Dir: "/", Name: "zl", Target: "zt"}, {Kind: "remove", Dir: "/", Name: "zs"}, {Kind: "rename", Dir: "/", Name: "zl", Dir2: "/", Name2: "zs"},
			{Kind: "setattr", Dir: "/zs", Sa: Sattr{Mode: &mode}}, {Kind: "getattr", Dir: "/zt"}, {Kind: "lookup", Dir: "/", Name: "zt"}, {Kind: "getattr", Dir: "/zs"}, {Kind: "readdirplus", Dir: "/", Count: 8192}}
		ops := append([]SOp{}, c.Ops[:at]...)
		ops = append(ops, pat...)
		c.Ops = append(ops, c.Ops[at:]...)
	}
	return c
}

func checkC04(r *Result, rng *rand.Rand, thorough bool) {
	traces, doneTraces := collectTraces(200)
	defer func() {
		doneTraces()
		compareSrv(r, "srv", *traces)
	}()
	ncases, n := 400, 40
	if thorough {
		ncases, n = 3000, 80
	}
	r.Rule = "random namespace + SETATTR(mode incl. type bits, uid) + WRITE/SETATTR(size) + MNT (non-canonical spellings of existing directories, then GETATTR through that handle) histories over files, directories and (dangling) symlinks under random cache settings; every attribute block of every reply compared with the backend's lstat of the path it describes, fileid per (path, object) must be constant"
	for i := 0; i < ncases; i++ {
		c := genC04(rng, 5+rng.Intn(n))
		vs := judgeC04(c)
		r.noteCase(fmt.Sprint(c.strings()), true)
		for _, o := range c.Ops {
			r.count("op:" + o.Kind)
		}
		if len(vs) > 0 {
			reportCase(r, c, vs, judgeC04)
		}
		if i < 2 {
			r.sample(c.strings())
		}
	}
}
