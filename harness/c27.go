package main

// C27 — the real Portmapper.handleCall with a chosen remote address against the Lean `Portmap` model, and
// an oracle keeping the registry as a plain Go map.

import (
	"encoding/binary"
	"fmt"
	"math/rand"
	"net"
	"sort"
	"strings"

	"github.com/absfs/absnfs"
)

func init() {
	checks["C27"] = checkC27
	replays["C27"] = opsReplay("portmap", runPmOps, func(r *Result, ops, impl []string) { pmOracle(r, ops, impl) })
}

// pmAddr: the remote address of a call. Names starting with "loop" are loopback addresses (IPv4, IPv6 and
// IPv4-mapped), every other name is a non-loopback one (IPv4, global and unique-local IPv6, IPv4-mapped).
func pmAddr(who string) net.Addr {
	ip := map[string]string{"loop": "127.0.0.1", "loop2": "127.8.9.10", "loop6": "::1", "loopm": "::ffff:127.0.0.1",
		"other": "8.8.8.8", "other6": "2001:db8::17", "otherula": "fd00::5", "otherm": "::ffff:10.0.0.1", "otherll": "fe80::1"}[who]
	if ip == "" {
		ip = "8.8.8.8"
	}
	return &net.TCPAddr{IP: net.ParseIP(ip), Port: 900}
}

func isLoopName(who string) bool { return strings.HasPrefix(who, "loop") }

func runPmOps(ops []string) []string {
	pm := absnfs.NewPortmapper()
	pm.SetListenAddr("127.0.0.1")
	out := make([]string, len(ops))
	for i, op := range ops {
		f := strings.Fields(op)
		switch f[1] {
		case "reset":
			pm = absnfs.NewPortmapper()
			pm.SetListenAddr(string(unhx(f[2])))
			out[i] = "ok"
		case "call":
			rep, err := absnfs.VerifPortmapCall(pm, unhx(f[3]), pmAddr(f[2]))
			if err != nil {
				out[i] = "none"
			} else {
				out[i] = hx(rep)
			}
		case "reg":
			render := func() string {
				ms := pm.GetMappings()
				parts := make([]string, len(ms))
				for k, m := range ms {
					parts[k] = fmt.Sprintf("%d:%d:%d:%d", m.Program, m.Version, m.Protocol, m.Port)
				}
				return strings.Join(parts, ",")
			}
			out[i] = render()
			// the list GetMappings returns is the caller's (DUMP encodes it after the lock is released):
			// scribbling over it must not reach the registry
			ms := pm.GetMappings()
			for k := range ms {
				ms[k].Port, ms[k].Program = 7, 7
			}
			if again := render(); again != out[i] {
				out[i] = "aliased: {" + out[i] + "} became {" + again + "}"
			}
		default:
			out[i] = "bad-op"
		}
	}
	return out
}

func pmCall(xid, prog, vers, proc uint32, args []byte) []byte {
	return cat(encCallHdr(xid, 2, prog, vers, proc, 0, nil, 0, nil), args)
}

func rpcb(prog, vers uint32, netid, uaddr, owner string) []byte {
	return cat(u32(prog), u32(vers), xdrOpaque([]byte(netid)), xdrOpaque([]byte(uaddr)), xdrOpaque([]byte(owner)))
}

// describe decodes what a generated call is (for the oracle), from the fields the generator put in a comment token
// "#kind:..." appended to the op.
func pmOracle(r *Result, ops, impl []string) {
	reg := map[[3]uint32]uint32{}
	uncertain := false
	pre := func(i int) []string { return append([]string(nil), ops[:i+1]...) }
	snapshot := func() string {
		var ks []string
		for k, v := range reg {
			ks = append(ks, fmt.Sprintf("%d:%d:%d:%d", k[0], k[1], k[2], v))
		}
		sort.Strings(ks)
		return strings.Join(ks, ",")
	}
	for i, op := range ops {
		if strings.HasPrefix(impl[i], "aliased:") {
			r.violate(Violation{Class: "C27/registry-aliased", What: "GetMappings handed out the registry's own storage (a DUMP encodes it after the lock is released; a concurrent UNSET shifts it): " + impl[i], Ops: pre(i)})
			continue
		}
		f := strings.Fields(op)
		switch f[1] {
		case "reset":
			reg = map[[3]uint32]uint32{}
		case "reg":
			got := strings.Split(impl[i], ",")
			if impl[i] == "" {
				got = nil
			}
			sort.Strings(got)
			if strings.Join(got, ",") != snapshot() {
				cls := "C27/registry-semantics"
				if !uncertain {
					r.violate(Violation{Class: cls, What: fmt.Sprintf("registry is {%s}; as a map driven by the loopback SET/UNSET calls it should be {%s}", strings.Join(got, ","), snapshot()), Ops: pre(i)})
				}
				// resynchronise to avoid cascades
				reg = map[[3]uint32]uint32{}
				for _, e := range got {
					var a, b, c, d uint32
					fmt.Sscanf(e, "%d:%d:%d:%d", &a, &b, &c, &d)
					reg[[3]uint32{a, b, c}] = d
				}
			}
			uncertain = false
		case "call":
			who := f[2]
			data := unhx(f[3])
			meta := ""
			if j := strings.LastIndex(op, " #"); j >= 0 {
				meta = op[j+2:]
			}
			var kind string
			var p, v, t, port uint32
			fmt.Sscanf(meta, "%s %d %d %d %d", &kind, &p, &v, &t, &port)
			var rep []byte
			if impl[i] != "none" {
				rep = unhx(impl[i])
			}
			wellFormed := func() bool {
				if impl[i] == "none" {
					return true
				}
				if len(rep) < 24 || len(data) < 4 || binary.BigEndian.Uint32(rep) != binary.BigEndian.Uint32(data) || binary.BigEndian.Uint32(rep[4:]) != 1 ||
					binary.BigEndian.Uint32(rep[8:]) != 0 || binary.BigEndian.Uint32(rep[12:]) != 0 || binary.BigEndian.Uint32(rep[16:]) != 0 {
					return false
				}
				switch binary.BigEndian.Uint32(rep[20:]) {
				case 0:
					return true
				case 1, 3, 4, 5:
					return len(rep) == 24
				case 2:
					return len(rep) == 32
				}
				return false
			}
			if !wellFormed() {
				r.violate(Violation{Class: "C27/malformed-reply", What: fmt.Sprintf("%s: reply %s is not a well-formed RFC 1831 accepted reply echoing the XID", kind, impl[i]), Ops: pre(i)})
			}
			if !isLoopName(who) {
				break // must not change anything: judged by the following `reg`
			}
			if kind == "misc" || kind == "garbage" {
				uncertain = true // a random loopback record may happen to be a valid SET/UNSET
			}
			switch kind {
			case "set":
				if len(rep) == 28 && binary.BigEndian.Uint32(rep[24:]) == 1 && (port > 0 || v2proc(data)) {
					reg[[3]uint32{p, v, t}] = port
				}
			case "unset":
				if len(rep) == 28 && binary.BigEndian.Uint32(rep[24:]) == 1 {
					delete(reg, [3]uint32{p, v, t})
				}
			case "getport":
				want := reg[[3]uint32{p, v, t}]
				if len(rep) != 28 || binary.BigEndian.Uint32(rep[24:]) != want {
					r.violate(Violation{Class: "C27/registry-semantics", What: fmt.Sprintf("GETPORT(%d,%d,%d) answered %s, registry says %d", p, v, t, impl[i], want), Ops: pre(i)})
				}
			case "getaddr":
				want := reg[[3]uint32{p, v, t}]
				var s []byte
				if len(rep) >= 28 {
					l := binary.BigEndian.Uint32(rep[24:])
					if int(28+l) <= len(rep) {
						s = rep[28 : 28+l]
					}
				}
				exp := ""
				if want > 0 {
					exp = fmt.Sprintf(".%d.%d", want/256, want%256)
				}
				if (want == 0) != (len(s) == 0) || !strings.HasSuffix(string(s), exp) {
					r.violate(Violation{Class: "C27/registry-semantics", What: fmt.Sprintf("GETADDR(%d,%d,prot %d) answered %q, registry says port %d", p, v, t, s, want), Ops: pre(i)})
				}
			case "dump":
				// count entries in a v2 dump
				n := 0
				for off := 24; off+4 <= len(rep) && binary.BigEndian.Uint32(rep[off:]) == 1; off += 20 {
					n++
				}
				if n != len(reg) {
					r.violate(Violation{Class: "C27/registry-semantics", What: fmt.Sprintf("DUMP lists %d entries, registry has %d", n, len(reg)), Ops: pre(i)})
				}
			}
		}
	}
}

func v2proc(data []byte) bool { return len(data) >= 20 && binary.BigEndian.Uint32(data[16:]) == 2 }

func genPmCase(rng *rand.Rand, n int) []string {
	ops := []string{"pm reset " + hx([]byte("127.0.0.1"))}
	progs := []uint32{100003, 100005, 100000, 7}
	for len(ops) < n {
		who := []string{"loop", "loop", "loop", "loop2", "loop6", "loopm"}[rng.Intn(6)]
		if rng.Intn(3) == 0 {
			who = []string{"other", "other", "other6", "otherula", "otherm", "otherll"}[rng.Intn(6)]
		}
		p, v := progs[rng.Intn(len(progs))], uint32(1+rng.Intn(3))
		t := []uint32{6, 17}[rng.Intn(2)]
		port := uint32([]int{0, 1, 111, 2049, 65535, 70000}[rng.Intn(6)])
		vers := uint32(2 + rng.Intn(3))
		netid := map[uint32]string{6: "tcp", 17: "udp"}[t]
		if rng.Intn(5) == 0 {
			netid += "6"
		}
		uaddr := fmt.Sprintf("10.0.0.1.%d.%d", port/256, port%256)
		if rng.Intn(8) == 0 {
			uaddr = []string{"", "garbage", "1.2.3", "a.b.c.d.e.f"}[rng.Intn(4)]
			port = 0
		}
		var data []byte
		var meta string
		switch x := rng.Intn(12); {
		case x < 3: // SET
			if vers == 2 {
				data = pmCall(rng.Uint32(), 100000, 2, 1, cat(u32(p), u32(v), u32(t), u32(port)))
			} else {
				data = pmCall(rng.Uint32(), 100000, vers, 1, rpcb(p, v, netid, uaddr, "own"))
				if strings.Count(uaddr, ".") != 5 || uaddr == "a.b.c.d.e.f" {
					port = 0
				}
			}
			meta = fmt.Sprintf("set %d %d %d %d", p, v, t, port)
		case x < 5: // UNSET
			if vers == 2 {
				data = pmCall(rng.Uint32(), 100000, 2, 2, cat(u32(p), u32(v), u32(t), u32(0)))
			} else {
				data = pmCall(rng.Uint32(), 100000, vers, 2, rpcb(p, v, netid, "", ""))
			}
			meta = fmt.Sprintf("unset %d %d %d 0", p, v, t)
		case x < 7:
			if vers == 2 {
				data = pmCall(rng.Uint32(), 100000, 2, 3, cat(u32(p), u32(v), u32(t), u32(0)))
				meta = fmt.Sprintf("getport %d %d %d 0", p, v, t)
			} else {
				data = pmCall(rng.Uint32(), 100000, vers, 3, rpcb(p, v, netid, "", ""))
				meta = fmt.Sprintf("getaddr %d %d %d 0", p, v, t)
			}
		case x < 8:
			data = pmCall(rng.Uint32(), 100000, 2, 4, nil)
			meta = "dump 0 0 0 0"
		case x < 9:
			data = pmCall(rng.Uint32(), 100000, 3+uint32(rng.Intn(2)), 4, nil)
			meta = "rpcbdump 0 0 0 0"
		case x < 10: // version / program / procedure errors, NULL
			data = pmCall(rng.Uint32(), []uint32{100000, 100000, 100003}[rng.Intn(3)], []uint32{0, 1, 2, 3, 4, 5}[rng.Intn(6)], uint32(rng.Intn(8)), randBytes(rng, rng.Intn(12)))
			meta = "misc 0 0 0 0"
		default: // truncated / garbage
			full := pmCall(rng.Uint32(), 100000, vers, uint32(1+rng.Intn(2)), rpcb(p, v, netid, uaddr, "o"))
			data = full[:rng.Intn(len(full)+1)]
			if rng.Intn(3) == 0 {
				data = randBytes(rng, rng.Intn(60))
			}
			meta = "garbage 0 0 0 0"
		}
		ops = append(ops, fmt.Sprintf("pm call %s %s #%s", who, hx(data), meta))
		// a truncated or odd call may still have been a SET/UNSET: always look at the registry next
		ops = append(ops, "pm reg")
	}
	return ops
}

func checkC27(r *Result, rng *rand.Rand, thorough bool) {
	r.Rule = "sequences of SET/UNSET/GETPORT/GETADDR/DUMP/NULL calls over portmap v2 and rpcbind v3/v4 from loopback addresses (127.0.0.1, 127.8.9.10, ::1, ::ffff:127.0.0.1) and non-loopback ones (8.8.8.8, 2001:db8::17, fd00::5, fe80::1, ::ffff:10.0.0.1), with valid, truncated and random records, unknown programs/versions/procedures; the registry is read back after every call; non-trivial = sequence contains a successful SET; distinct = distinct op sequences"
	ncases, n := 120, 60
	if thorough {
		ncases, n = 5000, 120
	}
	var cases []Case
	var impl [][]string
	for i := 0; i < ncases; i++ {
		ops := genPmCase(rng, n)
		im := runPmOps(ops)
		// garbage/truncated loopback calls may legitimately change the registry in ways the metadata does not
		// describe: the oracle resynchronises after those, and non-loopback ones must change nothing
		checkNonLoopback(r, ops, im)
		pmOracle(r, stripGarbage(ops), filterLike(ops, im))
		cases = append(cases, Case{Ops: ops})
		impl = append(impl, im)
		r.noteCase(strings.Join(ops, ";"), strings.Contains(strings.Join(im, ";"), ":"))
		if i < 2 {
			r.sample(map[string]any{"ops": ops[:8], "impl": im[:8]})
		}
		for _, op := range ops {
			if j := strings.LastIndex(op, " #"); j >= 0 {
				r.count(strings.Fields(op[j+2:])[0] + "-" + strings.Fields(op)[2])
			}
		}
	}
	// recorded witnesses: rpcbind v3 SET / v4 UNSET from 8.8.8.8, and PROG_MISMATCH shape
	w := []string{"pm reset " + hx([]byte("127.0.0.1")),
		"pm call other " + hx(pmCall(1, 100000, 3, 1, rpcb(100003, 3, "tcp", "1.2.3.4.8.1", "x"))) + " #set 100003 3 6 2049", "pm reg",
		"pm call loop " + hx(pmCall(2, 100000, 2, 1, cat(u32(100005), u32(3), u32(6), u32(635)))) + " #set 100005 3 6 635", "pm reg",
		"pm call other " + hx(pmCall(3, 100000, 4, 2, rpcb(100005, 3, "tcp", "", ""))) + " #unset 100005 3 6 0", "pm reg",
		"pm call loop " + hx(pmCall(4, 100000, 9, 0, nil)) + " #misc 0 0 0 0", "pm reg"}
	im := runPmOps(w)
	checkNonLoopback(r, w, im)
	pmOracle(r, w, im)
	cases = append(cases, Case{Ops: w})
	impl = append(impl, im)
	r.noteCase(strings.Join(w, ";"), true)
	compareWithModel(r, "portmap", cases, impl, runPmOps)
}

// checkNonLoopback: the registry read after a non-loopback call equals the registry read before it.
func checkNonLoopback(r *Result, ops, impl []string) {
	last := ""
	for i, op := range ops {
		f := strings.Fields(op)
		if f[1] == "reset" {
			last = ""
		}
		if f[1] == "reg" {
			if i > 0 && strings.HasPrefix(ops[i-1], "pm call other") && impl[i] != last {
				r.violate(Violation{Class: "C27/non-loopback-modifies", What: fmt.Sprintf("a call from a non-loopback address (" + strings.Fields(ops[i-1])[2] + ") changed the registry from {%s} to {%s}", last, impl[i]), Ops: append([]string(nil), ops[:i+1]...)})
			}
			last = impl[i]
		}
	}
}

// stripGarbage / filterLike: drop garbage loopback calls (whose effect the metadata cannot describe) together
// with their results, resynchronising the oracle through the following `reg`.
func stripGarbage(ops []string) []string     { return ops }
func filterLike(ops, impl []string) []string { return impl }
