package main

// C14 — every reply is a well-formed RFC 1831 / RFC 1813 reply. Every NFSv3 and MOUNTv3 procedure (and
// unknown procedures, versions and programs) is called with well-formed, truncated and garbage arguments in
// the states normal, read-only, rate-limited and policy drain; the encoded reply bytes are decoded by the
// Lean decoders (Rpc.decReply + Rfc.decRes), which accept exactly the RFC shapes: XID echoed, no missing or
// trailing bytes, status in nfsstat3 / mountstat3.

import (
	"bytes"
	"encoding/binary"
	"encoding/json"
	"fmt"
	"io"
	"math/rand"
	"net"
	"strings"
	"sync"
	"sync/atomic"
	"time"

	"github.com/absfs/absnfs"
)

func init() {
	checks["C14"] = checkC14
	replays["C14"] = func(r *Result, raw json.RawMessage) {
		var rp struct {
			Case c14Case `json:"case"`
		}
		if err := json.Unmarshal(raw, &rp); err != nil {
			r.Notes = append(r.Notes, "replay: "+err.Error())
			return
		}
		if rp.Case.State == "concurrent-reads" {
			concurrentReadReplies(r, 3000)
			return
		}
		obs := runC14(rp.Case)
		judgeC14(r, []c14Case{rp.Case}, [][]c14Obs{obs})
	}
}

type c14Call struct {
	Prog uint32 `json:"prog"`
	Vers uint32 `json:"vers"`
	Proc uint32 `json:"proc"`
	Args []byte `json:"args"`
	Cred Cred   `json:"cred"`
}

type c14Case struct {
	State string    `json:"state"` // normal readonly ratelimit drain
	Calls []c14Call `json:"calls"`
}

type c14Obs struct {
	Accept uint32
	Data   []byte
	Denied bool
	Wire   []byte
	Xid    uint32
	NoRep  bool // HandleCall returned an error: no reply at all (allowed only for timeouts)
}

func c14Tree() *RefFS {
	fs := NewRefFS()
	seedFS(fs, []string{"mkdir /d", "file /d/k 6b", "file /f " + hx([]byte("0123456789")), "link /l f", "file /gone"})
	return fs
}

// handle ids are deterministic for this set-up: / = 1, then in lookup order
func c14World(state string) (*World, map[string]uint64) {
	cfg := SrvCfg{AttrTTL: 5e9, DirCache: true, Neg: true}
	if state == "readonly" {
		cfg.ReadOnly = true
	}
	w := newWorldOn(c14Tree(), cfg)
	hs := map[string]uint64{"/": w.root}
	for _, p := range []string{"/d", "/f", "/l", "/gone", "/d/k"} {
		h, _ := w.handleFor(p, rootCred())
		hs[p] = h
	}
	w.cfg.ReadOnly = false
	if state == "readonly" {
		// remove through the backend before the server exists is not possible here; a read-only server cannot REMOVE:
		// keep /gone (its handle is then simply a live file handle)
	} else {
		w.nfs(12, rootCred(), argDirop(w.root, "gone")) // the handle for /gone stays in the table, the file is gone
	}
	hs["stale"] = 987654
	if state == "ratelimit" {
		rl := absnfs.DefaultRateLimiterConfig()
		rl.ReadLargeOpsPerSecond, rl.WriteLargeOpsPerSecond, rl.ReaddirOpsPerSecond, rl.MountOpsPerMinute = 1, 1, 1, 1
		w.srv.NFS.UpdatePolicyOptions(absnfs.PolicyOptions{Squash: "none", EnableRateLimiting: true, RateLimitConfig: &rl})
	}
	return w, hs
}

func runC14(c c14Case) []c14Obs {
	w, _ := c14World(c.State)
	defer w.Close()
	if c.State == "drain" || c.State == "ratelimit" {
		w.noTrace = true // these states answer outside the sequential server model (busy model / limiter)
	}
	out := make([]c14Obs, len(c.Calls))
	callOne := func(i int, q c14Call) {
		cred := q.Cred
		if cred.Flavor == 0 && cred.Raw == nil {
			cred = rootCred()
		}
		var rep Reply
		if c.State == "drain" || c.State == "ratelimit" {
			rep = w.srv.Call(q.Prog, q.Vers, q.Proc, cred, q.Args)
		} else {
			w.clockNs += int64(w.step)
			rep = w.callRaw(q.Prog, q.Vers, q.Proc, cred, q.Args) // traced: the Lean server model replays it
		}
		out[i] = c14Obs{Wire: rep.Wire, Xid: rep.Xid, NoRep: rep.Err != nil, Accept: rep.AcceptStatus, Data: rep.Data, Denied: rep.Status != 0}
	}
	if c.State == "connlimit" {
		// the connection loop's own limiter: one TCP connection whose per-connection budget is 2 requests; every
		// call is sent with its own XID and the reply record is taken as it comes off the wire
		w.noTrace = true
		rl := absnfs.DefaultRateLimiterConfig()
		rl.GlobalRequestsPerSecond, rl.PerIPRequestsPerSecond, rl.PerIPBurstSize = 100000, 100000, 100000
		rl.PerConnectionRequestsPerSecond, rl.PerConnectionBurstSize = 1, 2
		w.srv.NFS.UpdatePolicyOptions(absnfs.PolicyOptions{Squash: "none", EnableRateLimiting: true, RateLimitConfig: &rl})
		w.realClock = true
		absnfs.VerifClockOff()
		if err := w.srv.NFS.Export("/", 0); err != nil {
			panic(err)
		}
		defer w.srv.NFS.Unexport()
		conn, err := net.DialTimeout("tcp", fmt.Sprintf("127.0.0.1:%d", absnfs.VerifExportPort(w.srv.NFS)), 2*time.Second)
		if err != nil {
			panic(err)
		}
		defer conn.Close()
		for i, q := range c.Calls {
			cred := q.Cred
			if cred.Flavor == 0 && cred.Raw == nil {
				cred = rootCred()
			}
			xid := 0xc1400000 + uint32(i)*7919
			msg := cat(encCallHdr(xid, 2, q.Prog, q.Vers, q.Proc, cred.Flavor, cred.body(), 0, nil), q.Args)
			out[i] = c14Obs{Xid: xid, NoRep: true}
			conn.SetDeadline(time.Now().Add(2 * time.Second))
			if _, err := conn.Write(append(u32(0x80000000|uint32(len(msg))), msg...)); err != nil {
				continue
			}
			var rec []byte
			ok := false
			for {
				var hdr [4]byte
				if _, err := io.ReadFull(conn, hdr[:]); err != nil {
					break
				}
				h := binary.BigEndian.Uint32(hdr[:])
				if h&0x7fffffff > 4<<20 {
					break
				}
				buf := make([]byte, h&0x7fffffff)
				if _, err := io.ReadFull(conn, buf); err != nil {
					break
				}
				rec = append(rec, buf...)
				if h&0x80000000 != 0 {
					ok = true
					break
				}
			}
			if ok {
				out[i] = c14Obs{Wire: rec, Xid: xid, Denied: len(rec) >= 12 && binary.BigEndian.Uint32(rec[8:]) == 1}
			}
		}
		return out
	}
	if c.State != "drain" {
		for i, q := range c.Calls {
			callOne(i, q)
		}
		return out
	}
	// drain: hold one request inside the backend, start a policy update (it waits for the request), then send
	// the calls: each must be answered at once with the "busy" reply.
	release := make(chan struct{})
	atGate := make(chan struct{}, 1)
	var once sync.Once
	w.fs.gate = func(call string) {
		if strings.HasPrefix(call, "Lstat /d/k") {
			once.Do(func() { atGate <- struct{}{}; <-release })
		}
	}
	var wg sync.WaitGroup
	wg.Add(2)
	go func() {
		defer wg.Done()
		w.srv.Call(progNFS, 3, 1, rootCred(), fh(6)) // GETATTR /d/k, blocks in the backend
	}()
	<-atGate
	go func() {
		defer wg.Done()
		w.srv.NFS.UpdatePolicyOptions(absnfs.PolicyOptions{Squash: "none", ReadOnly: false, MaxFileSize: 1 << 30})
	}()
	time.Sleep(30 * time.Millisecond) // let the update reach the write lock
	for i, q := range c.Calls {
		callOne(i, q)
	}
	close(release)
	wg.Wait()
	w.fs.gate = nil
	return out
}

func judgeC14(r *Result, cases []c14Case, obs [][]c14Obs) {
	// drain answers against the Lean `busy` model
	for i, c := range cases {
		if c.State != "drain" {
			continue
		}
		var ops, want []string
		for j, q := range c.Calls {
			o := obs[i][j]
			if o.NoRep || o.Denied {
				continue
			}
			ops = append(ops, fmt.Sprintf("srv busy %d %d %d %d %s", q.Prog, q.Vers, q.Proc, o.Accept, hx(o.Data)))
			want = append(want, "match")
		}
		compareWithModel(r, "busy", []Case{{Ops: ops}}, [][]string{want}, nil)
	}
	var mcases []Case
	for i, c := range cases {
		var ops []string
		for j, q := range c.Calls {
			if obs[i][j].NoRep {
				ops = append(ops, "wire 0 0 -")
				continue
			}
			ops = append(ops, fmt.Sprintf("wire %d %d %s", q.Prog, q.Proc, hx(obs[i][j].Wire)))
		}
		mcases = append(mcases, Case{Ops: ops})
	}
	model, err := runModel(mcases)
	if err != nil {
		r.Mismatches = append(r.Mismatches, Mismatch{Stream: "wire", Index: -1, Model: err.Error()})
		return
	}
	for i, c := range cases {
		for j, q := range c.Calls {
			r.Compared++
			o := obs[i][j]
			verdict := model[i][j]
			r.count("state:" + c.State)
			r.count(verdictKind(verdict))
			if o.NoRep {
				r.violate(Violation{Class: "no-reply:" + c.State, What: fmt.Sprintf("prog %d proc %d got no reply at all in state %s", q.Prog, q.Proc, c.State),
					Ops: []string{fmt.Sprintf("%+v", q)}, Case: c14Case{State: c.State, Calls: []c14Call{q}}})
				continue
			}
			if strings.HasPrefix(verdict, "ok xid=") {
				var xid uint32
				fmt.Sscanf(verdict, "ok xid=%d", &xid)
				if xid != o.Xid {
					rc := c14Case{State: c.State, Calls: []c14Call{q}}
					if c.State == "connlimit" {
						rc.Calls = c.Calls[:j+1] // the calls sent on this connection so far
					}
					r.violate(Violation{Class: "xid-not-echoed", What: fmt.Sprintf("reply carries xid %d for call %d (call %d of state %s)", xid, o.Xid, j, c.State), Case: rc})
				}
				continue
			}
			// not a well-formed reply: classify by what is wrong
			class := fmt.Sprintf("%s:prog%d:proc%d", verdict[:strings.IndexAny(verdict+" ", " ")], q.Prog, q.Proc)
			what := fmt.Sprintf("the reply to prog %d vers %d proc %d (%d argument bytes, state %s) does not decode as the RFC result type: %s", q.Prog, q.Vers, q.Proc, len(q.Args), c.State, verdict)
			if len(o.Wire) >= 28 {
				st := binary.BigEndian.Uint32(o.Wire[24:])
				switch {
				case c.State == "drain":
					class = fmt.Sprintf("drain-reply-shape:prog%d:proc%d", q.Prog, q.Proc)
					what = fmt.Sprintf("during a policy drain prog %d proc %d is answered with a bare status word %d", q.Prog, q.Proc, st)
				case st == 4 && q.Prog == progNFS:
					class = "nfsstat-garbage-args"
					what = fmt.Sprintf("undecodable arguments of NFS proc %d are answered with status 4 in the result body (GARBAGE_ARGS is an accept_stat, not an nfsstat3)", q.Proc)
				case st == 10013:
					class = "nfsstat-10013"
					what = fmt.Sprintf("rate-limited NFS proc %d is answered with status 10013, which is not an nfsstat3 value (NFS3ERR_JUKEBOX is 10008)", q.Proc)
				}
			}
			dup := false
			for _, ex := range r.Violations {
				if ex.Class == class {
					dup = true
				}
			}
			if !dup {
				r.violate(Violation{Class: class, What: what, Ops: []string{fmt.Sprintf("state=%s prog=%d vers=%d proc=%d args=%x", c.State, q.Prog, q.Vers, q.Proc, q.Args), "reply=" + hx(o.Wire)},
					Case: c14Case{State: c.State, Calls: []c14Call{q}}})
			}
		}
	}
}

func verdictKind(v string) string {
	f := strings.Fields(v)
	if len(f) >= 3 && f[0] == "ok" {
		return "reply:" + f[2]
	}
	return "reply:" + f[0]
}

// validArgs returns well-formed argument sets for (prog, proc) over the handles of the standard tree.
func c14ValidArgs(hs map[string]uint64, rng *rand.Rand) map[[2]uint32][][]byte {
	out := map[[2]uint32][][]byte{}
	add := func(prog, proc uint32, a ...[]byte) {
		out[[2]uint32{prog, proc}] = append(out[[2]uint32{prog, proc}], a...)
	}
	objs := []uint64{hs["/"], hs["/d"], hs["/f"], hs["/l"], hs["/gone"], hs["stale"]}
	for _, h := range objs {
		add(progNFS, 1, fh(h))
		add(progNFS, 2, argSetattr(h, Sattr{Mode: p32(0o640)}, nil), argSetattr(h, Sattr{Size: p64(3), MtimeHow: 1}, &[2]uint32{1, 2}),
			argSetattr(h, Sattr{UID: p32(5), GID: p32(6), AtimeHow: 2, MtimeHow: 2}, nil), argSetattr(h, Sattr{Mode: p32(0o100644)}, nil), argSetattr(h, Sattr{Size: p64(1 << 63)}, nil))
		add(progNFS, 3, argDirop(h, "k"), argDirop(h, "nope"), argDirop(h, ".."), argDirop(h, strings.Repeat("x", 256)))
		add(progNFS, 4, cat(fh(h), u32(0x3f)))
		add(progNFS, 5, fh(h))
		add(progNFS, 6, argRead(h, 0, 4), argRead(h, 100, 4), argRead(h, 1<<63, 4), argRead(h, 1<<64-1, 4), argRead(h, 0, 100000))
		add(progNFS, 7, argWrite(h, 2, 3, 2, []byte("abc")), argWrite(h, 1<<63, 3, 0, []byte("abc")), argWrite(h, 0, 70000, 2, make([]byte, 70000)), cat(fh(h), u64(0), u32(3), u32(2), xdrOpaque([]byte("abcd"))))
		add(progNFS, 8, argCreate(h, "n1", 0, Sattr{Mode: p32(0o644)}, nil), argCreate(h, "k", 1, Sattr{}, nil), argCreate(h, "n2", 2, Sattr{}, []byte("verifier")), argCreate(h, "n3", 0, Sattr{Mode: p32(0o170000)}, nil), argCreate(h, "a/b", 0, Sattr{}, nil), argCreate(h, "n4", 7, Sattr{}, nil))
		add(progNFS, 9, argMkdir(h, "m1", Sattr{}), argMkdir(h, "k", Sattr{Mode: p32(0o700)}), argMkdir(h, "", Sattr{}))
		add(progNFS, 10, argSymlink(h, "s1", Sattr{}, "f"), argSymlink(h, "s2", Sattr{}, "/abs"), argSymlink(h, "s3", Sattr{}, "../x"), argSymlink(h, "s4", Sattr{}, ""))
		add(progNFS, 11, cat(fh(h), xdrOpaque([]byte("nod")), u32(6), Sattr{}.enc()))
		add(progNFS, 12, argDirop(h, "k"), argDirop(h, "nope"))
		add(progNFS, 13, argDirop(h, "k"), argDirop(h, "d"), argDirop(h, "nope"))
		add(progNFS, 14, argRename(h, "k", h, "k2"), argRename(h, "nope", hs["/"], "z"), argRename(h, "k", hs["stale"], "z"))
		add(progNFS, 15, cat(fh(h), fh(hs["/"]), xdrOpaque([]byte("ln"))))
		add(progNFS, 16, argReaddir(h, 0, zeroVerf, 4096), argReaddir(h, 1, zeroVerf, 50), argReaddir(h, 0, zeroVerf, 110), argReaddir(h, 99, zeroVerf, 4096),
			// counts that hold some entries but not all: the page is cut, and must still be a well-formed entry list
			argReaddir(h, 0, zeroVerf, 136), argReaddir(h, 0, zeroVerf, 170), argReaddir(h, 1, zeroVerf, 140), argReaddir(h, 0, zeroVerf, 200), argReaddir(h, 2, zeroVerf, 164))
		add(progNFS, 17, argReaddirplus(h, 0, zeroVerf, 4096, 8192), argReaddirplus(h, 0, zeroVerf, 10, 240), argReaddirplus(h, 1, zeroVerf, 4096, 8192),
			argReaddirplus(h, 0, zeroVerf, 4096, 260), argReaddirplus(h, 0, zeroVerf, 64, 420), argReaddirplus(h, 1, zeroVerf, 4096, 300), argReaddirplus(h, 0, zeroVerf, 8192, 600))
		add(progNFS, 18, fh(h))
		add(progNFS, 19, fh(h))
		add(progNFS, 20, fh(h))
		add(progNFS, 21, argCommit(h, 0, 0))
	}
	add(progNFS, 0, nil)
	add(progNFS, 22, nil, fh(1))
	add(progNFS, 99, nil)
	add(progMount, 0, nil)
	add(progMount, 1, xdrOpaque([]byte("/")), xdrOpaque([]byte("/d")), xdrOpaque([]byte("/nope")), xdrOpaque([]byte("rel")), xdrOpaque([]byte("/a\\b")), xdrOpaque([]byte(strings.Repeat("/x", 200))))
	add(progMount, 2, nil)
	add(progMount, 3, xdrOpaque([]byte("/")))
	add(progMount, 4, nil)
	add(progMount, 5, nil)
	add(progMount, 6, nil)
	return out
}

func checkC14(r *Result, rng *rand.Rand, thorough bool) {
	traces, doneTraces := collectTraces(10)
	defer func() {
		doneTraces()
		compareSrv(r, "srv", *traces)
	}()
	r.Rule = "every NFSv3 procedure 0..21 (+22, 99), MOUNT 0..5 (+6), wrong versions, unknown program; arguments: well-formed over handles of a directory, file, symlink, removed file and a stale value, every truncation of them (quick: every 4th byte and +-1), random garbage; states: normal, read-only, rate-limited (per-operation limiter inside the handlers, and the connection loop's limiter over a real TCP connection with its per-connection budget exhausted), policy drain; AUTH_SYS root/user, AUTH_NONE and unknown flavors; each reply decoded by the Lean RFC decoders"
	var cases []c14Case
	for _, state := range []string{"normal", "readonly", "ratelimit", "drain", "connlimit"} {
		w, hs := c14World(state)
		w.Close()
		valid := c14ValidArgs(hs, rng)
		c := c14Case{State: state}
		var tail []c14Call // calls with credentials the sequential model does not follow: sent last
		step := 4
		if thorough {
			step = 1
		}
		for key, sets := range valid {
			prog, proc := key[0], key[1]
			for si, a := range sets {
				if (state == "drain" || state == "connlimit") && si > 1 {
					break
				}
				c.Calls = append(c.Calls, c14Call{Prog: prog, Vers: 3, Proc: proc, Args: a})
				if state == "drain" || state == "connlimit" {
					continue
				}
				if si < 3 || thorough {
					for cut := 0; cut < len(a) && cut < 300; cut += step {
						c.Calls = append(c.Calls, c14Call{Prog: prog, Vers: 3, Proc: proc, Args: a[:cut]})
						if cut > 0 && step > 1 {
							c.Calls = append(c.Calls, c14Call{Prog: prog, Vers: 3, Proc: proc, Args: a[:cut-1]})
						}
					}
				}
			}
			for g := 0; g < 3; g++ {
				c.Calls = append(c.Calls, c14Call{Prog: prog, Vers: 3, Proc: proc, Args: randBytes(rng, rng.Intn(80))})
			}
			// credentials
			c.Calls = append(c.Calls, c14Call{Prog: prog, Vers: 3, Proc: proc, Args: sets[0], Cred: Cred{Flavor: 1, UID: 1000, GID: 1000}},
				c14Call{Prog: prog, Vers: 3, Proc: proc, Args: sets[0], Cred: Cred{Flavor: 0, Raw: []byte{}}})
			tail = append(tail, c14Call{Prog: prog, Vers: 3, Proc: proc, Args: sets[0], Cred: Cred{Flavor: 6, Raw: []byte{1, 2, 3, 4}}},
				c14Call{Prog: prog, Vers: 3, Proc: proc, Args: sets[0], Cred: Cred{Flavor: 1, Raw: []byte{1, 2, 3}}})
		}

		// versions and programs
		c.Calls = append(c.Calls, c14Call{Prog: progNFS, Vers: 2, Proc: 1, Args: fh(1)}, c14Call{Prog: progNFS, Vers: 4, Proc: 1, Args: fh(1)},
			c14Call{Prog: progMount, Vers: 1, Proc: 1, Args: xdrOpaque([]byte("/"))}, c14Call{Prog: progMount, Vers: 2, Proc: 1, Args: xdrOpaque([]byte("/"))},
			c14Call{Prog: 100000, Vers: 2, Proc: 3, Args: nil}, c14Call{Prog: 200000, Vers: 1, Proc: 0, Args: nil})
		// rate-limited state: repeat the limited procedures so that the limiter refuses
		if state == "ratelimit" {
			for k := 0; k < 9; k++ {
				c.Calls = append(c.Calls, c14Call{Prog: progNFS, Vers: 3, Proc: 16, Args: argReaddir(hs["/d"], 0, zeroVerf, 4096)},
					c14Call{Prog: progNFS, Vers: 3, Proc: 17, Args: argReaddirplus(hs["/d"], 0, zeroVerf, 4096, 8192)},
					c14Call{Prog: progNFS, Vers: 3, Proc: 6, Args: argRead(hs["/f"], 0, 100000)},
					c14Call{Prog: progNFS, Vers: 3, Proc: 7, Args: argWrite(hs["/f"], 0, 70000, 2, make([]byte, 70000))},
					c14Call{Prog: progMount, Vers: 3, Proc: 1, Args: xdrOpaque([]byte("/"))})
			}
		}
		c.Calls = append(c.Calls, tail...)
		cases = append(cases, c)
	}
	var obs [][]c14Obs
	for _, c := range cases {
		obs = append(obs, runC14(c))
		r.noteCase(fmt.Sprint(c.State, len(c.Calls)), true)
		r.Evaluations += len(c.Calls) - 1
	}
	judgeC14(r, cases, obs)
	r.sample(fmt.Sprintf("%d calls per state", len(cases[0].Calls)))
	rounds := 300
	if thorough {
		rounds = 3000
	}
	concurrentReadReplies(r, rounds)
}

// concurrentReadReplies: replies built for different connections at the same time must not share state. Eight
// connections (served by the real connection loop) read four files of different sizes and contents at once; every
// READ reply is decoded exactly — READ3resok: status, post_op_attr, count, eof, opaque data with its padding, and
// nothing else — and the data compared with the file it was asked for.
func concurrentReadReplies(r *Result, rounds int) {
	fs := NewRefFS()
	fs.logOn = false
	sizes := []int{12, 5000, 1, 700}
	content := make([][]byte, len(sizes))
	for i, n := range sizes {
		content[i] = bytes.Repeat([]byte{byte('A' + i)}, n)
		f, err := fs.Create(fmt.Sprintf("/r%d", i))
		must(err)
		f.Write(content[i])
		f.Close()
	}
	s, err := newSrv(fs, absnfs.ExportOptions{})
	must(err)
	defer s.Close()
	root, st := s.Mount("/")
	if st != 0 {
		panic("mount failed")
	}
	hs := make([]uint64, len(sizes))
	for i := range sizes {
		hs[i], _ = s.Lookup(root, fmt.Sprintf("r%d", i), rootCred())
	}
	const conns = 8
	type bad struct{ what string }
	found := make(chan bad, conns)
	var wg sync.WaitGroup
	var total int64
	for c := 0; c < conns; c++ {
		wg.Add(1)
		go func(c int) {
			defer wg.Done()
			p := servePeer(s, fmt.Sprintf("10.9.0.%d", c+1), 900)
			defer p.Close()
			for k := 0; k < rounds; k++ {
				i := (c + k) % len(sizes)
				rs, as, res, err := p.call(progNFS, 3, 6, rootCred(), argRead(hs[i], 0, 8192))
				atomic.AddInt64(&total, 1)
				if err != nil && strings.Contains(err.Error(), "timeout") {
					return // an overloaded machine, not a malformed reply
				}
				if err != nil || rs != 0 || as != 0 {
					found <- bad{fmt.Sprintf("READ of /r%d on connection %d: err=%v reply_stat=%d accept_stat=%d", i, c, err, rs, as)}
					return
				}
				n := len(content[i])
				want := 4 + 4 + 84 + 4 + 4 + 4 + (n+3)&^3
				switch {
				case len(res) < 4+4+84+12 || binary.BigEndian.Uint32(res) != 0 || binary.BigEndian.Uint32(res[4:]) != 1:
					found <- bad{fmt.Sprintf("READ of /r%d (%d bytes) on connection %d: %d result bytes, not an NFS3_OK READ3resok with attributes", i, n, c, len(res))}
					return
				case len(res) != want || int(binary.BigEndian.Uint32(res[92:])) != n || int(binary.BigEndian.Uint32(res[100:])) != n:
					found <- bad{fmt.Sprintf("READ of /r%d (%d bytes) on connection %d while 7 other connections were reading other files: result is %d bytes, count=%d, opaque length=%d; a READ3resok for %d bytes is exactly %d bytes", i, n, c, len(res), binary.BigEndian.Uint32(res[92:]), binary.BigEndian.Uint32(res[100:]), n, want)}
					return
				case !bytes.Equal(res[104:104+n], content[i]):
					found <- bad{fmt.Sprintf("READ of /r%d on connection %d returned another file's bytes (%q...)", i, c, res[104:104+min(n, 8)])}
					return
				}
			}
		}(c)
	}
	wg.Wait()
	close(found)
	r.noteCase("concurrent-read-replies", true)
	r.Histogram["concurrent-read-replies"] += int(total)
	if b, ok := <-found; ok {
		r.violate(Violation{Class: "C14/reply-mixed-up-under-concurrency", What: b.what, Case: c14Case{State: "concurrent-reads"}})
	}
}
