package main

// C01 — file data: histories of CREATE / WRITE / SETATTR(size) / READ on a few files through the real
// handlers, judged against a byte-array model per file (independent of the Lean model) and against the
// backend's bytes.

import (
	"bytes"
	"encoding/json"
	"fmt"
	"math"
	"math/rand"
	"time"
)

func init() {
	checks["C01"] = checkC01
	replays["C01"] = caseReplay(judgeC01)
}

// caseReplay builds a replay function for checks whose replay input is a SrvCase.
func caseReplay(judge func(SrvCase) []Violation) replayFn {
	return func(r *Result, raw json.RawMessage) {
		var rp struct {
			Case SrvCase `json:"case"`
		}
		if err := json.Unmarshal(raw, &rp); err != nil {
			r.Notes = append(r.Notes, "replay: "+err.Error())
			return
		}
		r.noteCase(fmt.Sprint(rp.Case.strings()), true)
		for _, v := range judge(rp.Case) {
			v.Ops = rp.Case.strings()
			v.Case = rp.Case
			r.violate(v)
		}
		r.sample(rp.Case.strings())
	}
}

const backendMax = 64 << 20 // RefFS.maxSize

func effTransfer(cfg SrvCfg) int {
	if cfg.Transfer <= 0 {
		return 65536
	}
	return cfg.Transfer
}

type byteFile struct {
	data []byte
	verf []byte // verifier of the EXCLUSIVE create that made it (nil otherwise)
}

func resize(b []byte, n int) []byte {
	if n <= len(b) {
		return b[:n:n]
	}
	return append(b, make([]byte, n-len(b))...)
}

// judgeC01 runs the case and returns the violations of the statement.
func judgeC01(c SrvCase) []Violation {
	w := c.world()
	defer w.Close()
	model := map[string]*byteFile{}
	for _, s := range c.Seed {
		var p, h string
		if n, _ := fmt.Sscanf(s, "file %s %s", &p, &h); n >= 1 {
			model[p] = &byteFile{data: unhx(h)}
		}
	}
	var vs []Violation
	bad := func(class, what string, o SOp) {
		vs = append(vs, Violation{Class: class, What: what, Detail: o.String()})
	}
	xfer := effTransfer(c.Cfg)
	for _, o := range c.Ops {
		p := o.Dir
		if o.Kind == "create" {
			p = join(o.Dir, o.Name)
		}
		f := model[p]
		res := w.do(o)
		if res.NoHandle {
			if f != nil {
				bad("lookup-refused", "the client cannot obtain a handle for an existing file", o)
			}
			continue
		}
		if res.Res.Bad {
			bad("bad-reply", fmt.Sprintf("undecodable reply to %s", o.Kind), o)
			continue
		}
		st := res.Res.Status
		switch o.Kind {
		case "create":
			if st == 0 {
				if f == nil {
					model[p] = &byteFile{}
					if o.How == 2 {
						model[p].verf = o.Verf
					}
				} else if o.How == 0 && o.Sa.Size != nil {
					f.data = resize(f.data, int(*o.Sa.Size)) // only UNCHECKED applies a size to an existing file
				} else if o.How == 1 {
					bad("guarded-create-accepted", "GUARDED CREATE over an existing file replied NFS3_OK (the file's bytes are at its mercy)", o)
				}
				// otherwise: existing data must be unchanged (checked against the backend below)
			}
		case "write":
			if f == nil {
				continue
			}
			end := new(bigInt).add(o.Off, uint64(len(o.Data)))
			if st == 0 {
				n := int(res.Res.Count)
				if n > len(o.Data) {
					bad("write-count", fmt.Sprintf("WRITE acknowledged %d bytes of a %d byte payload", n, len(o.Data)), o)
					n = len(o.Data)
				}
				if end.fitsInt64() && int(o.Off)+n <= backendMax {
					if n > 0 {
						if int(o.Off)+n > len(f.data) {
							f.data = resize(f.data, int(o.Off)+n)
						}
						copy(f.data[o.Off:], o.Data[:n])
					}
				} else if n > 0 {
					bad("write-count", "WRITE acknowledged bytes at an offset the backend cannot hold", o)
				}
			} else {
				legit := !end.fitsInt64() || end.lo > backendMax || len(o.Data) > xfer
				if !legit {
					bad("write-refused", fmt.Sprintf("WRITE of %d bytes at %d failed with status %d", len(o.Data), o.Off, st), o)
				}
			}
		case "setattr":
			if f == nil || o.Sa.Size == nil {
				continue
			}
			sz := *o.Sa.Size
			if o.Guard != nil {
				// the guard names a ctime the file does not have: refused with NOT_SYNC, the bytes stay (compared with the backend below)
				if st != 10002 {
					bad("guarded-setattr-not-refused", fmt.Sprintf("SETATTR(size=%d) guarded by a ctime the file does not have replied %d, want NFS3ERR_NOT_SYNC", sz, st), o)
					if st == 0 && sz <= backendMax {
						f.data = resize(f.data, int(sz))
					}
				}
				break
			}
			if st == 0 {
				if sz > backendMax {
					bad("setattr-size", "SETATTR(size) beyond the backend's limit reported success", o)
				} else {
					f.data = resize(f.data, int(sz))
				}
			} else if sz <= backendMax {
				bad("setattr-refused", fmt.Sprintf("SETATTR(size=%d) failed with status %d", sz, st), o)
			}
		case "read":
			if f == nil {
				continue
			}
			size := uint64(len(f.data))
			if st != 0 {
				// a READ may be refused only when its offset is not a file offset at all (above 2^63-1) or offset+count
				// leaves the 64-bit range; a range that merely extends past 2^63-1 from a valid offset is "beyond EOF"
				end := new(bigInt).add(o.Off, uint64(o.Count))
				if o.Off <= math.MaxInt64 && !end.hi && end.lo != math.MaxUint64 {
					bad("read-refused", fmt.Sprintf("READ off=%d count=%d of a %d byte file failed with status %d", o.Off, o.Count, size, st), o)
				}
				continue
			}
			want := uint64(o.Count)
			if want > uint64(xfer) {
				want = uint64(xfer)
			}
			if o.Off >= size {
				want = 0
			} else if want > size-o.Off {
				want = size - o.Off
			}
			if uint64(res.Res.Count) != want || uint64(len(res.Res.Data)) != want {
				bad("read-count", fmt.Sprintf("READ off=%d count=%d size=%d transfer=%d returned count=%d (%d data bytes), want %d",
					o.Off, o.Count, size, xfer, res.Res.Count, len(res.Res.Data), want), o)
				continue
			}
			if want > 0 && !bytes.Equal(res.Res.Data, f.data[o.Off:o.Off+want]) {
				bad("read-data", fmt.Sprintf("READ off=%d count=%d returned bytes that differ from the byte-array model", o.Off, o.Count), o)
			}
			wantEof := o.Off+want >= size
			if res.Res.Eof != wantEof {
				bad("read-eof", fmt.Sprintf("READ off=%d count=%d size=%d returned eof=%v, want %v", o.Off, o.Count, size, res.Res.Eof, wantEof), o)
			}
			if res.Res.Obj != nil && res.Res.Obj.Size != size {
				bad("read-attr-size", fmt.Sprintf("READ post-op size %d, model size %d", res.Res.Obj.Size, size), o)
			}
		}
		// the backend holds the same bytes as the model, for every file
		for mp, mf := range model {
			got, ok := w.fs.FileData(mp)
			if !ok {
				bad("backend-differs", "file "+mp+" vanished from the backend", o)
				delete(model, mp)
				continue
			}
			if !bytes.Equal(got, mf.data) {
				bad("backend-differs", fmt.Sprintf("after %s the backend holds %d bytes for %s, the byte-array model %d (first difference at %d)",
					o.Kind, len(got), mp, len(mf.data), firstByteDiff(got, mf.data)), o)
				mf.data = got // resynchronise so that later ops are judged on their own
			}
		}
	}
	return vs
}

func firstByteDiff(a, b []byte) int {
	n := len(a)
	if len(b) < n {
		n = len(b)
	}
	for i := 0; i < n; i++ {
		if a[i] != b[i] {
			return i
		}
	}
	return n
}

// bigInt is a 65-bit sum helper (offset + count without overflow).
type bigInt struct {
	hi bool
	lo uint64
}

func (b *bigInt) add(x, y uint64) *bigInt {
	b.lo = x + y
	b.hi = b.lo < x
	return b
}
func (b *bigInt) fitsInt64() bool { return !b.hi && b.lo <= math.MaxInt64 }

func genC01(rng *rand.Rand, n int) SrvCase {
	c := SrvCase{}
	c.Cfg.AttrTTL = []time.Duration{time.Nanosecond, 5 * time.Second, 50 * time.Millisecond}[rng.Intn(3)]
	c.Cfg.Transfer = []int{0, 0, 512, 100, 4096}[rng.Intn(5)]
	c.Cfg.Neg = rng.Intn(2) == 0
	c.Cfg.DirCache = rng.Intn(2) == 0
	files := []string{"f0", "f1"}
	if rng.Intn(2) == 0 {
		c.Seed = append(c.Seed, "file /f0 "+hx(randBytes(rng, rng.Intn(40))))
	}
	sizes := map[string]int{}
	xfer := effTransfer(c.Cfg)
	if c.Cfg.Transfer > 0 && c.Cfg.Transfer <= 512 && rng.Intn(2) == 0 {
		// a file several transfer sizes long: READs whose count exceeds what is left, which in turn exceeds the
		// transfer size, are clipped by the transfer size
		n := 2*xfer + rng.Intn(xfer)
		c.Seed = []string{"file /f0 " + hx(randBytes(rng, n))}
		sizes["f0"] = n
	}
	offset := func(name string) uint64 {
		sz := uint64(sizes[name])
		switch rng.Intn(12) {
		case 0:
			return 0
		case 1:
			return sz
		case 2:
			return sz + uint64(rng.Intn(20))
		case 3:
			if sz > 0 {
				return sz - 1
			}
			return 0
		case 4:
			return math.MaxInt64 - uint64(rng.Intn(3))
		case 5:
			return 1<<63 + uint64(rng.Intn(3))
		case 6:
			return math.MaxUint64 - uint64(rng.Intn(300))
		default:
			return uint64(rng.Intn(int(sz) + 8))
		}
	}
	for i := 0; i < n; i++ {
		name := files[rng.Intn(len(files))]
		switch k := rng.Intn(20); {
		case k < 3:
			o := SOp{Kind: "create", Dir: "/", Name: name, How: uint32(rng.Intn(3))}
			if o.How == 2 {
				o.Verf = []byte{byte(rng.Intn(2)), 0, 0, 0, 0, 0, 0, byte(rng.Intn(2))}
			} else if rng.Intn(3) == 0 {
				o.Sa.Size = p64(uint64([]int{0, 0, 3, 100}[rng.Intn(4)]))
			}
			if rng.Intn(2) == 0 && o.How != 2 {
				o.Sa.Mode = p32(0o644)
			}
			c.Ops = append(c.Ops, o)
		case k < 10:
			l := rng.Intn(40)
			switch rng.Intn(8) {
			case 0:
				l = 0
			case 1:
				l = xfer
			case 2:
				l = xfer + 1 + rng.Intn(8)
			}
			if l > 70000 {
				l = 70000
			}
			o := SOp{Kind: "write", Dir: "/" + name, Off: offset(name), Data: randBytes(rng, l)}
			c.Ops = append(c.Ops, o)
			if o.Off < 1<<20 && int(o.Off)+l > sizes[name] && l <= xfer {
				sizes[name] = int(o.Off) + l
			}
		case k < 13:
			var sz uint64
			switch rng.Intn(8) {
			case 0:
				sz = 0
			case 1:
				sz = math.MaxInt64
			case 2:
				sz = 1 << 63
			case 3:
				sz = backendMax + 1
			default:
				sz = uint64(rng.Intn(sizes[name] + 30))
			}
			so := SOp{Kind: "setattr", Dir: "/" + name, Sa: Sattr{Size: p64(sz)}}
			if rng.Intn(4) == 0 {
				// sattrguard3 with a ctime the object does not have: NFS3ERR_NOT_SYNC, nothing applied
				so.Guard = &[2]uint32{7, uint32(rng.Intn(3))}
			}
			c.Ops = append(c.Ops, so)
			if sz < 1<<20 && so.Guard == nil {
				sizes[name] = int(sz)
			}
		default:
			cnt := uint32(rng.Intn(50))
			switch rng.Intn(8) {
			case 0:
				cnt = 0
			case 1:
				cnt = uint32(xfer)
			case 2:
				cnt = uint32(xfer) + 1 + uint32(rng.Intn(100))
			case 3:
				cnt = math.MaxUint32
			case 4:
				cnt = 1 << 20
			}
			c.Ops = append(c.Ops, SOp{Kind: "read", Dir: "/" + name, Off: offset(name), Count: cnt})
		}
	}
	return c
}

func checkC01(r *Result, rng *rand.Rand, thorough bool) {
	traces, doneTraces := collectTraces(200)
	defer func() {
		doneTraces()
		compareSrv(r, "srv", *traces)
	}()
	ncases, n := 300, 30
	if thorough {
		ncases, n = 1500, 60
	}
	r.Rule = "random CREATE/WRITE/SETATTR(size)/READ histories on two files (offsets 0, EOF, beyond EOF, near 2^63 and 2^64; counts 0..above the transfer size) under several cache and transfer-size settings, judged against a byte-array model and the backend's bytes"
	for i := 0; i < ncases; i++ {
		c := genC01(rng, 5+rng.Intn(n))
		vs := judgeC01(c)
		r.noteCase(fmt.Sprint(c.strings()), true)
		for _, o := range c.Ops {
			r.count("op:" + o.Kind)
		}
		r.count(fmt.Sprintf("transfer:%d", effTransfer(c.Cfg)))
		if len(vs) > 0 {
			reportCase(r, c, vs, judgeC01)
		}
		if i < 2 {
			r.sample(c.strings())
		}
	}
}
