//go:debug tls10server=1

// vharness: correspondence drivers and property oracles, run against /repo's working tree (built with
// -tags verif -overlay). One subcommand per property.
package main

import (
	"encoding/json"
	"flag"
	"fmt"
	"math/rand"
	"os"
	"time"
)

type checkFn func(r *Result, rng *rand.Rand, thorough bool)
type replayFn func(r *Result, rp json.RawMessage)

var realStderr *os.File

var checks = map[string]checkFn{}
var replays = map[string]replayFn{}

func main() {
	if len(os.Args) < 2 {
		fmt.Fprintln(os.Stderr, "usage: vharness <property> [--tier quick|thorough] [--seed n] [--driver path] [--out file] [--replay file]")
		os.Exit(2)
	}
	prop := os.Args[1]
	fs := flag.NewFlagSet("vharness", flag.ExitOnError)
	tier := fs.String("tier", "quick", "")
	seed := fs.Int64("seed", 1, "")
	out := fs.String("out", "-", "")
	replay := fs.String("replay", "", "")
	fs.StringVar(&driverPath, "driver", "/verif/lean/.lake/build/bin/driver", "")
	fs.Parse(os.Args[2:])
	// the server logs to os.Stderr (captured when its loggers are created): silence it, keep ours
	realStderr = os.Stderr
	if dn, err := os.OpenFile(os.DevNull, os.O_WRONLY, 0); err == nil && os.Getenv("VERIF_SERVER_LOG") == "" {
		os.Stderr = dn
	}
	start := time.Now()
	r := newResult(prop, *tier, *seed)
	if *replay != "" {
		b, err := os.ReadFile(*replay)
		if err != nil {
			fmt.Fprintln(os.Stderr, err)
			os.Exit(2)
		}
		fn, ok := replays[prop]
		if !ok {
			fmt.Fprintln(os.Stderr, "no replay for", prop)
			os.Exit(2)
		}
		fn(r, b)
		r.finish(start, *out)
		return
	}
	fn, ok := checks[prop]
	if !ok {
		fmt.Fprintln(os.Stderr, "unknown property", prop)
		os.Exit(2)
	}
	rng := rand.New(rand.NewSource(*seed*7919 + int64(len(prop))))
	fn(r, rng, *tier == "thorough")
	r.finish(start, *out)
}

// opsReplay is the generic replay for op-list subsystems: replay file carries {"ops": [...]}.
func opsReplay(stream string, run func(ops []string) []string, oracle func(r *Result, ops, impl []string)) replayFn {
	return func(r *Result, raw json.RawMessage) {
		var rp struct {
			Ops []string `json:"ops"`
		}
		json.Unmarshal(raw, &rp)
		impl := run(rp.Ops)
		r.noteCase(fmt.Sprint(rp.Ops), true)
		if oracle != nil {
			oracle(r, rp.Ops, impl)
		}
		compareWithModel(r, stream, []Case{{Ops: rp.Ops}}, [][]string{impl}, nil)
		r.sample(map[string]any{"ops": rp.Ops, "impl": impl})
	}
}
