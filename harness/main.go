//go:debug tls10server=1

// vharness: correspondence drivers and property oracles, run against /repo's working tree (built with
// -tags verif -overlay). One subcommand per property.
package main

import (
	"bytes"
	"encoding/json"
	"flag"
	"fmt"
	"math/rand"
	"os"
	"os/exec"
	"strings"
	"time"
)

type checkFn func(r *Result, rng *rand.Rand, thorough bool)
type replayFn func(r *Result, rp json.RawMessage)

var realStderr *os.File

var checks = map[string]checkFn{}

// children: probes executed in a child process (vharness CHILD:<name> args...), each printing "step <what>" before
// and "ok" after every step, so that the parent can tell which step killed the process
var children = map[string]func(args []string){}

// runChild runs a child probe and returns its stdout lines, its stderr tail and whether it finished.
func runChild(name string, args ...string) (lines []string, stderr string, finished bool) {
	return runChildEnv(name, nil, args...)
}

// runChildEnv: the same with extra environment variables (what a process reads once at start, e.g. the host trust store)
func runChildEnv(name string, env []string, args ...string) (lines []string, stderr string, finished bool) {
	exe, err := os.Executable()
	if err != nil {
		return nil, err.Error(), false
	}
	cmd := exec.Command(exe, append([]string{"CHILD:" + name}, args...)...)
	cmd.Env = append(os.Environ(), env...)
	var out, errb bytes.Buffer
	cmd.Stdout, cmd.Stderr = &out, &errb
	done := make(chan error, 1)
	if err := cmd.Start(); err != nil {
		return nil, err.Error(), false
	}
	go func() { done <- cmd.Wait() }()
	select {
	case <-done:
	case <-time.After(120 * time.Second):
		cmd.Process.Kill()
		<-done
	}
	lines = strings.Split(strings.TrimSpace(out.String()), "\n")
	e := errb.String()
	if i := strings.Index(e, "panic:"); i >= 0 {
		e = e[i:]
	}
	if len(e) > 1500 {
		e = e[:1500]
	}
	return lines, e, len(lines) > 0 && lines[len(lines)-1] == "child-done"
}

var replays = map[string]replayFn{}

func main() {
	if len(os.Args) < 2 {
		fmt.Fprintln(os.Stderr, "usage: vharness <property> [--tier quick|thorough] [--seed n] [--driver path] [--out file] [--replay file]")
		os.Exit(2)
	}
	prop := os.Args[1]
	if strings.HasPrefix(prop, "CHILD:") {
		// a probe that may kill the process it runs in (a panic in a server goroutine): run by runChild
		fn, ok := children[strings.TrimPrefix(prop, "CHILD:")]
		if !ok {
			os.Exit(2)
		}
		if dn, err := os.OpenFile(os.DevNull, os.O_WRONLY, 0); err == nil {
			realStderr = os.Stderr
			_ = dn
		}
		fn(os.Args[2:])
		fmt.Println("child-done")
		return
	}
	fs := flag.NewFlagSet("vharness", flag.ExitOnError)
	tier := fs.String("tier", "quick", "")
	seed := fs.Int64("seed", 1, "")
	out := fs.String("out", "-", "")
	replay := fs.String("replay", "", "")
	fs.StringVar(&driverPath, "driver", "/verif/lean/.lake/build/bin/driver", "")
	fs.Parse(os.Args[2:])
	// the server logs to os.Stderr (captured when its loggers are created): silence it, keep ours
	realStderr = os.Stderr
	if dn, err := os.OpenFile(os.DevNull, os.O_WRONLY, 0); err == nil && os.Getenv("VERIF_SERVER_LOG") == "" {
		os.Stderr = dn
	}
	start := time.Now()
	r := newResult(prop, *tier, *seed)
	if *replay != "" {
		b, err := os.ReadFile(*replay)
		if err != nil {
			fmt.Fprintln(os.Stderr, err)
			os.Exit(2)
		}
		fn, ok := replays[prop]
		if !ok {
			fmt.Fprintln(os.Stderr, "no replay for", prop)
			os.Exit(2)
		}
		fn(r, b)
		r.finish(start, *out)
		return
	}
	fn, ok := checks[prop]
	if !ok {
		fmt.Fprintln(os.Stderr, "unknown property", prop)
		os.Exit(2)
	}
	rng := rand.New(rand.NewSource(*seed*7919 + int64(len(prop))))
	fn(r, rng, *tier == "thorough")
	r.finish(start, *out)
}

// opsReplay is the generic replay for op-list subsystems: replay file carries {"ops": [...]}.
func opsReplay(stream string, run func(ops []string) []string, oracle func(r *Result, ops, impl []string)) replayFn {
	return func(r *Result, raw json.RawMessage) {
		var rp struct {
			Ops []string `json:"ops"`
		}
		json.Unmarshal(raw, &rp)
		impl := run(rp.Ops)
		r.noteCase(fmt.Sprint(rp.Ops), true)
		if oracle != nil {
			oracle(r, rp.Ops, impl)
		}
		compareWithModel(r, stream, []Case{{Ops: rp.Ops}}, [][]string{impl}, nil)
		r.sample(map[string]any{"ops": rp.Ops, "impl": impl})
	}
}
