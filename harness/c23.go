package main

// C23 — READ and WRITE within the advertised FSINFO limits are served. For every configured TransferSize
// (at construction and set at runtime) the server is asked FSINFO, then READs and WRITEs with counts up to
// the advertised maxima are sent, in-process and over a real record-marking TCP connection.

import (
	"bytes"
	"encoding/binary"
	"encoding/json"
	"fmt"
	"io"
	"math/rand"
	"net"
	"time"

	"github.com/absfs/absnfs"
)

func init() {
	checks["C23"] = checkC23
	replays["C23"] = func(r *Result, raw json.RawMessage) {
		var rp struct {
			Case c23Case `json:"case"`
		}
		if err := json.Unmarshal(raw, &rp); err != nil {
			r.Notes = append(r.Notes, "replay: "+err.Error())
			return
		}
		if rp.Case.Transfer == -999 {
			c23DuringUpdate(r, true)
			return
		}
		r.noteCase(fmt.Sprint(rp.Case), true)
		for _, v := range judgeC23(rp.Case) {
			v.Ops, v.Case = []string{fmt.Sprintf("%+v", rp.Case)}, rp.Case
			r.violate(v)
		}
	}
}

type c23Case struct {
	Transfer int      `json:"transfer"` // TransferSize at construction
	Runtime  int      `json:"runtime"`  // if non-zero: TransferSize set through UpdateTuningOptions afterwards
	Counts   []uint32 `json:"counts"`   // extra counts to try (clipped to the advertised maxima)
	TCP      bool     `json:"tcp"`
}

// rmCallBig is rmCall with multi-fragment reply reassembly and a larger deadline.
func rmCallBig(conn net.Conn, xid, proc uint32, args []byte) ([]byte, error) {
	msg := cat(encCallHdr(xid, 2, progNFS, 3, proc, 1, encAuthSys(0, []byte("c"), 0, 0, nil), 0, nil), args)
	conn.SetDeadline(time.Now().Add(5 * time.Second))
	if _, err := conn.Write(append(u32(0x80000000|uint32(len(msg))), msg...)); err != nil {
		return nil, err
	}
	var rec []byte
	for {
		var hdr [4]byte
		if _, err := io.ReadFull(conn, hdr[:]); err != nil {
			return nil, err
		}
		h := binary.BigEndian.Uint32(hdr[:])
		n := h & 0x7fffffff
		if n > 8<<20 {
			return nil, fmt.Errorf("fragment of %d bytes", n)
		}
		buf := make([]byte, n)
		if _, err := io.ReadFull(conn, buf); err != nil {
			return nil, err
		}
		rec = append(rec, buf...)
		if h&0x80000000 != 0 {
			break
		}
	}
	if len(rec) < 24 || binary.BigEndian.Uint32(rec) != xid {
		return nil, fmt.Errorf("reply does not echo the xid")
	}
	if binary.BigEndian.Uint32(rec[8:]) != 0 || binary.BigEndian.Uint32(rec[20:]) != 0 {
		return nil, fmt.Errorf("rpc-level rejection")
	}
	return rec[24:], nil
}

func judgeC23(c c23Case) []Violation {
	var vs []Violation
	bad := func(class, what string) {
		vs = append(vs, Violation{Class: class, What: fmt.Sprintf("%s [TransferSize=%d runtime=%d tcp=%v]", what, c.Transfer, c.Runtime, c.TCP)})
	}
	fs := NewRefFS()
	big := make([]byte, 3<<20)
	for i := range big {
		big[i] = byte(i * 7)
	}
	fl, _ := fs.Create("/big")
	fl.Write(big)
	fl.Close()
	fl, _ = fs.Create("/w")
	fl.Close()
	w := newWorldOn(fs, SrvCfg{Transfer: c.Transfer, AttrTTL: 1})
	w.noTrace = true // megabyte payloads: the model-compared twin below uses small ones
	defer w.Close()
	defer c23Twin(c)
	if c.Runtime != 0 {
		w.srv.NFS.UpdateTuningOptions(func(t *absnfs.TuningOptions) { t.TransferSize = c.Runtime })
		w.tr(fmt.Sprintf("srv transfer %d", w.srv.NFS.GetExportOptions().TransferSize), "ok")
	}
	cred := rootCred()
	_, info := w.nfs(19, cred, fh(w.root))
	if info.Bad || info.Status != 0 || len(info.Fsinfo) < 7 {
		bad("fsinfo-failed", "FSINFO failed")
		return vs
	}
	rtmax, rtpref, wtmax, wtpref := info.Fsinfo[0], info.Fsinfo[1], info.Fsinfo[3], info.Fsinfo[4]
	if rtpref > rtmax || wtpref > wtmax || rtmax == 0 || wtmax == 0 || rtpref == 0 || wtpref == 0 {
		bad("fsinfo-inconsistent", fmt.Sprintf("FSINFO rtmax=%d rtpref=%d wtmax=%d wtpref=%d", rtmax, rtpref, wtmax, wtpref))
	}
	bh, _ := w.handleFor("/big", cred)
	wh, _ := w.handleFor("/w", cred)
	var conn net.Conn
	if c.TCP {
		if err := w.srv.NFS.Export("/", 0); err != nil {
			bad("export-failed", err.Error())
			return vs
		}
		var err error
		conn, err = net.DialTimeout("tcp", fmt.Sprintf("127.0.0.1:%d", absnfs.VerifExportPort(w.srv.NFS)), 2*time.Second)
		if err != nil {
			bad("connect-failed", err.Error())
			return vs
		}
		defer conn.Close()
	}
	xid := uint32(100)
	call := func(proc uint32, args []byte) (NfsRes, error) {
		if !c.TCP {
			_, res := w.nfs(proc, cred, args)
			if res.Bad {
				return res, fmt.Errorf("rpc-level failure")
			}
			return res, nil
		}
		xid++
		data, err := rmCallBig(conn, xid, proc, args)
		if err != nil {
			return NfsRes{}, err
		}
		return decodeNfs(proc, data), nil
	}
	readCounts := append([]uint32{1, rtpref, rtmax, rtmax - 1, rtmax/2 + 1}, c.Counts...)
	for _, n := range readCounts {
		if n == 0 || n > rtmax {
			continue
		}
		res, err := call(6, argRead(bh, 0, n))
		switch {
		case err != nil:
			bad("read-dropped", fmt.Sprintf("READ count=%d (rtmax=%d) got no reply: %v", n, rtmax, err))
			return vs
		case res.Status != 0:
			bad("read-refused", fmt.Sprintf("READ count=%d within rtmax=%d failed with status %d", n, rtmax, res.Status))
		case res.Count < 1:
			bad("read-empty", fmt.Sprintf("READ count=%d before EOF returned no data", n))
		}
	}
	writeCounts := append([]uint32{1, wtpref, wtmax, wtmax - 1, wtmax/2 + 1}, c.Counts...)
	for _, n := range writeCounts {
		if n == 0 || n > wtmax {
			continue
		}
		res, err := call(7, argWrite(wh, 0, n, 2, big[:n]))
		switch {
		case err != nil:
			bad("write-dropped", fmt.Sprintf("WRITE count=%d (wtmax=%d) got no reply: %v", n, wtmax, err))
			return vs
		case res.Status != 0:
			bad("write-refused", fmt.Sprintf("WRITE count=%d within wtmax=%d failed with status %d", n, wtmax, res.Status))
		case res.Count < 1:
			bad("write-empty", fmt.Sprintf("WRITE count=%d stored nothing", n))
		}
	}
	return vs
}

func checkC23(r *Result, rng *rand.Rand, thorough bool) {
	traces, doneTraces := collectTraces(200)
	defer func() {
		doneTraces()
		compareSrv(r, "srv", *traces)
	}()
	sizes := []int{0, -5, 1, 512, 1024, 4096, 65536, 65537, 100000, 1<<20 - 4097, 1<<20 - 4096, 1<<20 - 4095, 1<<20 - 100, 1<<20 - 1, 1 << 20, 1<<20 + 1, 2 << 20, 16 << 20}
	r.Rule = "for TransferSize in {unset, negative, 1, 512, 1K, 4K, 64K, 64K+1, 100000, 1M-4097, 1M-4096, 1M-4095, 1M-100, 1M-1, 1M, 1M+1, 2M, 16M} x {at construction, set at runtime} x {in-process, real record-marking TCP}: FSINFO, then READ and WRITE with counts 1, pref, max, max-1, max/2+1 and random counts up to the advertised maxima"
	n := 0
	for _, tcp := range []bool{false, true} {
		for _, runtime := range []bool{false, true} {
			for _, sz := range sizes {
				c := c23Case{Transfer: sz, TCP: tcp}
				if runtime {
					c = c23Case{Transfer: []int{0, 4096, 1 << 20}[rng.Intn(3)], Runtime: sz, TCP: tcp}
					if sz == 0 {
						continue
					}
				}
				k := 3
				if thorough {
					k = 12
				}
				for i := 0; i < k; i++ {
					c.Counts = append(c.Counts, uint32(1+rng.Intn(1<<20)), uint32(1+rng.Intn(70000)))
				}
				if tcp && !thorough && n%2 == 1 {
					n++
					continue
				}
				n++
				vs := judgeC23(c)
				r.noteCase(fmt.Sprint(c), true)
				r.count(fmt.Sprintf("tcp=%v runtime=%v", tcp, runtime))
				for _, v := range vs {
					dup := false
					for _, ex := range r.Violations {
						if ex.Class == v.Class {
							dup = true
						}
					}
					if !dup {
						v.Ops, v.Case = []string{fmt.Sprintf("%+v", c)}, c
						r.violate(v)
					}
				}
			}
		}
	}
	r.sample(fmt.Sprint(sizes))
	c23DuringUpdate(r, thorough)
}

// c23DuringUpdate: "including values set at runtime" — while UpdateTuningOptions is swapping the transfer size
// (between the default, written as 0, and explicit values) READs of a non-empty file with a count far below
// every advertised maximum keep being sent; each must return data.
func c23DuringUpdate(r *Result, thorough bool) {
	fs := NewRefFS()
	seedFS(fs, []string{"file /big " + hx(make([]byte, 3000))})
	w := newWorldOn(fs, SrvCfg{AttrTTL: 1})
	defer w.Close()
	w.noTrace = true
	cred := rootCred()
	bh, _ := w.handleFor("/big", cred)
	dur := 250 * time.Millisecond
	if thorough {
		dur = 2 * time.Second
	}
	stop := make(chan struct{})
	done := make(chan struct{})
	go func() {
		defer close(done)
		for i := 0; ; i++ {
			select {
			case <-stop:
				return
			default:
			}
			v := []int{0, 4096, 0, 65536, 1024, 65536, 1024}[i%7]
			w.srv.NFS.UpdateTuningOptions(func(t *absnfs.TuningOptions) { t.TransferSize = v })
		}
	}()
	reads, empty := 0, 0
	var first string
	deadline := time.Now().Add(dur)
	for time.Now().Before(deadline) {
		rep := w.srv.Call(progNFS, 3, 6, cred, argRead(bh, 0, 512))
		reads++
		res := decodeNfs(6, rep.Data)
		if rep.Err != nil || res.Bad || res.Status != 0 || res.Count == 0 {
			empty++
			if first == "" {
				first = fmt.Sprintf("err=%v status=%d count=%d eof=%v", rep.Err, res.Status, res.Count, res.Eof)
			}
		}
	}
	// WRITEs while TransferSize moves between 64 KiB and 1 KiB: whatever a WRITE stores, its reply says so — the
	// count in an NFS3_OK reply is the number of payload bytes the (fresh) file now holds
	writes, lied := 0, 0
	var firstLie string
	payload := bytes.Repeat([]byte("w"), 4096)
	wdeadline := time.Now().Add(dur)
	for i := 0; time.Now().Before(wdeadline); i++ {
		name := fmt.Sprintf("wr%d", i)
		crep := w.srv.Call(progNFS, 3, 8, cred, argCreate(w.root, name, 0, Sattr{}, nil))
		cres := decodeNfs(8, crep.Data)
		if crep.Err != nil || cres.Bad || cres.Status != 0 || !cres.HasFh {
			continue
		}
		rep := w.srv.Call(progNFS, 3, 7, cred, argWrite(cres.Fh, 0, uint32(len(payload)), 2, payload))
		res := decodeNfs(7, rep.Data)
		writes++
		if rep.Err == nil && !res.Bad && res.Status == 0 {
			held, _ := fs.FileData("/" + name)
			if int(res.Count) != len(held) {
				lied++
				if firstLie == "" {
					firstLie = fmt.Sprintf("WRITE of %d bytes was answered NFS3_OK count=%d, the file holds %d bytes", len(payload), res.Count, len(held))
				}
			}
		}
		w.srv.Call(progNFS, 3, 12, cred, argDirop(w.root, name))
	}
	close(stop)
	<-done
	r.Histogram["writes-during-update"] += writes
	if lied > 0 {
		r.violate(Violation{Class: "write-count-not-what-was-stored", What: fmt.Sprintf("%d of %d WRITEs sent while UpdateTuningOptions was switching TransferSize: %s", lied, writes, firstLie),
			Ops: []string{"read-during-tuning-update"}, Case: c23Case{Transfer: -999}})
	}
	r.noteCase("read-during-tuning-update", true)
	r.Histogram["reads-during-update"] += reads
	if empty > 0 {
		r.violate(Violation{Class: "read-empty-during-update", What: fmt.Sprintf("%d of %d READs (count 512, offset 0, 3000-byte file) sent while UpdateTuningOptions was switching TransferSize returned no data (first: %s)", empty, reads, first),
			Ops: []string{"read-during-tuning-update"}, Case: c23Case{Transfer: -999}})
	}
}

// c23Twin: the same configuration on a small file with small counts, traced for the Lean model (FSINFO body,
// READ/WRITE clamping against TransferSize).
func c23Twin(c c23Case) {
	fs := NewRefFS()
	seedFS(fs, []string{"file /big " + hx(make([]byte, 3000)), "file /w"})
	w := newWorldOn(fs, SrvCfg{Transfer: c.Transfer, AttrTTL: 1})
	defer w.Close()
	if c.Runtime != 0 {
		w.srv.NFS.UpdateTuningOptions(func(t *absnfs.TuningOptions) { t.TransferSize = c.Runtime })
		w.tr(fmt.Sprintf("srv transfer %d", w.srv.NFS.GetExportOptions().TransferSize), "ok")
	}
	cred := rootCred()
	w.nfs(19, cred, fh(w.root))
	bh, _ := w.handleFor("/big", cred)
	wh, _ := w.handleFor("/w", cred)
	for _, n := range []uint32{1, 100, 511, 512, 513, 1024, 2000, 4096} {
		w.nfs(6, cred, argRead(bh, 0, n))
		if n <= 2000 {
			w.nfs(7, cred, argWrite(wh, 0, n, 2, make([]byte, n)))
		}
	}
}
