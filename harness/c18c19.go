package main

// C18 / C19 — the real TokenBucket / RateLimiter on the virtual clock against the Lean `Bucket` model
// (exact rationals), plus oracles stated from the properties on an exact big.Rat reference.
// float64 vs exact: instants where a consulted bucket's exact level is within 1e-6 of 1 are never compared;
// the case is cut just before such an instant (counted in the histogram).

import (
	"encoding/json"
	"fmt"
	"math/big"
	"math/rand"
	"strconv"
	"strings"
	"sync"
	"sync/atomic"
	"time"

	"github.com/absfs/absnfs"
)

func init() {
	checks["C18"] = func(r *Result, rng *rand.Rand, th bool) { checkLimiter(r, rng, th, "C18") }
	checks["C19"] = func(r *Result, rng *rand.Rand, th bool) { checkLimiter(r, rng, th, "C19") }
	c18ops := opsReplay("ratelimit", runRlOps, func(r *Result, ops, impl []string) { rlOracle(r, ops, impl, "C18") })
	replays["C18"] = func(r *Result, raw json.RawMessage) {
		var rp struct {
			Ops []string `json:"ops"`
		}
		json.Unmarshal(raw, &rp)
		if len(rp.Ops) > 0 && rp.Ops[0] == "concurrent-first-requests" {
			concurrentFirstRequests(r, 4000)
			return
		}
		c18ops(r, raw)
	}
	c19ops := opsReplay("ratelimit", runRlOps, func(r *Result, ops, impl []string) { rlOracle(r, ops, impl, "C19") })
	replays["C19"] = func(r *Result, raw json.RawMessage) {
		var rp struct {
			Ops []string `json:"ops"`
		}
		json.Unmarshal(raw, &rp)
		if len(rp.Ops) > 0 && strings.HasPrefix(rp.Ops[0], "peers ") {
			peersScenario(r, strings.Fields(rp.Ops[0])[1:])
			return
		}
		c19ops(r, raw)
	}
}

// ---- exact reference bucket ----
type xb struct {
	tokens, max, rate *big.Rat
	last, t0          int64
	admitted          int64
	// float64 mirror of the same bucket, computed with the operations TokenBucket.Allow performs
	ftok, fmax, frate float64
}

func newXB(rate *big.Rat, burst int64, now int64) *xb {
	fr, _ := new(big.Float).SetRat(rate).Float64()
	if rate.IsInt() {
		fr = float64(rate.Num().Int64())
	} else {
		fr = float64(rate.Num().Int64()) / float64(rate.Denom().Int64())
	}
	return &xb{tokens: big.NewRat(burst, 1), max: big.NewRat(burst, 1), rate: rate, last: now, t0: now,
		ftok: float64(burst), fmax: float64(burst), frate: fr}
}

// flevel: the float64 value TokenBucket computes at `now`
func (b *xb) flevel(now int64) float64 {
	d := time.Duration(now - b.last)
	t := b.ftok + d.Seconds()*b.frate
	if t > b.fmax {
		t = b.fmax
	}
	return t
}
func (b *xb) level(now int64) *big.Rat {
	el := big.NewRat(now-b.last, 1000000000)
	t := new(big.Rat).Add(b.tokens, new(big.Rat).Mul(el, b.rate))
	if t.Cmp(b.max) > 0 {
		t = new(big.Rat).Set(b.max)
	}
	return t
}

// near: float64 rounding would flip the decision at this instant (exact and float disagree on ">= 1")
func (b *xb) near(now int64) bool {
	exact := b.level(now).Cmp(big.NewRat(1, 1)) >= 0
	return exact != (b.flevel(now) >= 1.0)
}
func (b *xb) allow(now int64) bool {
	ft := b.flevel(now)
	if ft >= 1.0 {
		ft -= 1.0
	}
	b.ftok = ft
	t := b.level(now)
	b.last = now
	if t.Cmp(big.NewRat(1, 1)) >= 0 {
		b.tokens = t.Sub(t, big.NewRat(1, 1))
		b.admitted++
		return true
	}
	b.tokens = t
	return false
}

// within reports admitted <= burst + rate*(now-t0) (+1e-6)
func (b *xb) within(now int64) bool {
	lim := new(big.Rat).Add(b.max, new(big.Rat).Mul(b.rate, big.NewRat(now-b.t0, 1000000000)))
	lim.Add(lim, big.NewRat(1, 1000000))
	return big.NewRat(b.admitted, 1).Cmp(lim) <= 0
}

type rlCfg struct {
	g, ip, ipb, pc, pcb, rl, wl, rd, mnt int64
	ci                                   int64
}

func atoi64(s string) int64 { v, _ := strconv.ParseInt(s, 10, 64); return v }

// runRlOps executes ops on the real limiter(s).
func runRlOps(ops []string) []string {
	defer absnfs.VerifClockOff()
	absnfs.VerifSetClock(0)
	tbs := map[string]*absnfs.TokenBucket{}
	rls := map[string]*absnfs.RateLimiter{}
	out := make([]string, len(ops))
	for i, op := range ops {
		f := strings.Fields(op)
		switch f[1] {
		case "bucket":
			absnfs.VerifSetClock(atoi64(f[6]))
			rate := float64(atoi64(f[3])) / float64(atoi64(f[4]))
			tbs[f[2]] = absnfs.NewTokenBucket(rate, int(atoi64(f[5])))
			out[i] = "ok"
		case "allow":
			if tbs[f[2]] == nil {
				out[i] = "bad-op"
				continue
			}
			absnfs.VerifSetClock(atoi64(f[3]))
			out[i] = b01(tbs[f[2]].Allow())
		case "new":
			absnfs.VerifSetClock(atoi64(f[3]))
			c := absnfs.RateLimiterConfig{GlobalRequestsPerSecond: int(atoi64(f[4])), PerIPRequestsPerSecond: int(atoi64(f[5])), PerIPBurstSize: int(atoi64(f[6])),
				PerConnectionRequestsPerSecond: int(atoi64(f[7])), PerConnectionBurstSize: int(atoi64(f[8])), ReadLargeOpsPerSecond: int(atoi64(f[9])),
				WriteLargeOpsPerSecond: int(atoi64(f[10])), ReaddirOpsPerSecond: int(atoi64(f[11])), MountOpsPerMinute: int(atoi64(f[12])), CleanupInterval: time.Duration(atoi64(f[13]))}
			rls[f[2]] = absnfs.NewRateLimiter(c)
			out[i] = "ok"
		case "request", "op", "global":
			if rls[f[2]] == nil {
				out[i] = "bad-op"
				continue
			}
			switch f[1] {
			case "request":
				absnfs.VerifSetClock(atoi64(f[5]))
				out[i] = b01(rls[f[2]].AllowRequest(f[3], f[4]))
			case "op":
				absnfs.VerifSetClock(atoi64(f[5]))
				out[i] = b01(rls[f[2]].AllowOperation(f[3], absnfs.OperationType(f[4])))
			case "global":
				absnfs.VerifSetClock(atoi64(f[3]))
				v := rls[f[2]].GetStats()["global_tokens"].(float64)
				out[i] = fmt.Sprintf("%d/1", int64(v+0.5))
			}
		default:
			out[i] = "bad-op"
		}
	}
	return out
}

func b01(b bool) string {
	if b {
		return "1"
	}
	return "0"
}

// rlRef is the exact reference of one RateLimiter, with the *required* semantics (own limits first).
type rlRef struct {
	cfg    rlCfg
	global *xb
	ip     map[string]*xb
	conn   map[string]*xb
	op     map[string]*xb
}

func opRate(c rlCfg, op string) (*big.Rat, int64) {
	switch op {
	case "read_large":
		return big.NewRat(c.rl, 1), 10
	case "write_large":
		return big.NewRat(c.wl, 1), 5
	case "readdir":
		return big.NewRat(c.rd, 1), 5
	case "mount":
		return big.NewRat(c.mnt, 60), 2
	}
	return big.NewRat(0, 1), 0
}

// rlOracle checks the property statements on the real decisions. It keeps exact shadow buckets that are
// advanced with the REAL decisions (so that it judges each decision on its own), and flags:
//
//	C18/over-admit        a bucket admitted more than burst + rate*elapsed
//	C18/refused-with-room refused although every consulted bucket holds >= 1 token (exact, margin 1e-6)
//	C19/global-charged    a request refused by the client's own limit lowered the global bucket
//	C19/starved           a compliant client refused because the global bucket had been drained by
//	                      requests that were themselves refused
func rlOracle(r *Result, ops, impl []string, prop string) {
	refs := map[string]*rlRef{}
	single := map[string]*xb{}
	pre := func(i int) []string { return append([]string(nil), ops[:i+1]...) }
	one := big.NewRat(1, 1)
	margin := big.NewRat(1, 1000000)
	has := func(b *xb, now int64) bool { // certainly >= 1
		return b.level(now).Cmp(new(big.Rat).Add(one, margin)) >= 0
	}
	lacks := func(b *xb, now int64) bool { // certainly < 1
		return b.level(now).Cmp(new(big.Rat).Sub(one, margin)) < 0
	}
	charge := func(b *xb, now int64, admitted bool) { // advance shadow with the real outcome
		t := b.level(now)
		b.last = now
		if admitted {
			t.Sub(t, one)
			if t.Sign() < 0 {
				t.SetInt64(0)
			}
			b.admitted++
		}
		b.tokens = t
	}
	for i, op := range ops {
		f := strings.Fields(op)
		switch f[1] {
		case "bucket":
			single[f[2]] = newXB(big.NewRat(atoi64(f[3]), atoi64(f[4])), atoi64(f[5]), atoi64(f[6]))
		case "allow":
			b := single[f[2]]
			if b == nil {
				continue
			}
			now := atoi64(f[3])
			got := impl[i] == "1"
			if prop == "C18" {
				if !got && has(b, now) {
					r.violate(Violation{Class: "C18/refused-with-room", What: fmt.Sprintf("bucket %s refused at t=%d with %s tokens", f[2], now, b.level(now).FloatString(6)), Ops: pre(i)})
				}
			}
			charge(b, now, got)
			if prop == "C18" && !b.within(now) {
				r.violate(Violation{Class: "C18/over-admit", What: fmt.Sprintf("bucket %s admitted %d requests in %d ns (burst %s, rate %s/s)", f[2], b.admitted, now-b.t0, b.max.FloatString(0), b.rate.FloatString(4)), Ops: pre(i)})
			}
		case "new":
			c := rlCfg{atoi64(f[4]), atoi64(f[5]), atoi64(f[6]), atoi64(f[7]), atoi64(f[8]), atoi64(f[9]), atoi64(f[10]), atoi64(f[11]), atoi64(f[12]), atoi64(f[13])}
			refs[f[2]] = &rlRef{cfg: c, global: newXB(big.NewRat(c.g, 1), c.g, atoi64(f[3])), ip: map[string]*xb{}, conn: map[string]*xb{}, op: map[string]*xb{}}
		case "request":
			ref := refs[f[2]]
			if ref == nil {
				continue
			}
			ip, conn, now := f[3], f[4], atoi64(f[5])
			got := impl[i] == "1"
			ib := ref.ip[ip]
			if ib == nil {
				ib = newXB(big.NewRat(ref.cfg.ip, 1), ref.cfg.ipb, now)
				ref.ip[ip] = ib
			}
			var cb *xb
			if ref.cfg.pc > 0 {
				cb = ref.conn[conn]
				if cb == nil {
					cb = newXB(big.NewRat(ref.cfg.pc, 1), ref.cfg.pcb, now)
					ref.conn[conn] = cb
				}
			}
			ownRefuses := lacks(ib, now) || (cb != nil && lacks(cb, now) && has(ib, now))
			ownPasses := has(ib, now) && (cb == nil || has(cb, now))
			gBefore := ref.global.level(now)
			if got {
				charge(ib, now, true)
				if cb != nil {
					charge(cb, now, true)
				}
				charge(ref.global, now, true)
				for name, b := range map[string]*xb{"per-IP " + ip: ib, "global": ref.global} {
					if prop == "C18" && !b.within(now) {
						r.violate(Violation{Class: "C18/over-admit", What: fmt.Sprintf("%s limiter admitted %d requests in %d ns (burst %s, rate %s/s)", name, b.admitted, now-b.t0, b.max.FloatString(0), b.rate.FloatString(4)), Ops: pre(i)})
					}
				}
				if cb != nil && prop == "C18" && !cb.within(now) {
					r.violate(Violation{Class: "C18/over-admit", What: fmt.Sprintf("per-connection limiter %s admitted %d requests in %d ns", conn, cb.admitted, now-cb.t0), Ops: pre(i)})
				}
			} else {
				switch {
				case ownPasses && has(ref.global, now):
					cls, what := "C18/refused-with-room", "refused although the per-IP, per-connection and global budgets all have room"
					if prop == "C19" {
						cls, what = "C19/starved", "a client within its own limits was refused although the requests actually admitted are within the global limit"
					}
					r.violate(Violation{Class: cls, What: fmt.Sprintf("%s (ip=%s t=%d global=%s)", what, ip, now, gBefore.FloatString(4)), Ops: pre(i)})
				case ownRefuses:
					// own limit refused: per the property the global bucket must not be charged; the shadow
					// global stays as it is. The real one is observed by a following `global` op.
					// An own bucket consulted before the refusing one may have given a token in the real
					// limiter (per-IP is charged before per-connection refuses, or the reverse: the order is
					// not assumed), so the shadow takes it where it could have been taken and stays a lower
					// bound of the real level; no admission is counted.
					for _, b := range []*xb{ib, cb} {
						if b == nil {
							continue
						}
						adm := b.admitted
						charge(b, now, !lacks(b, now))
						b.admitted = adm
					}
				default:
					// refusal attributable to the global bucket (or too close to call). Whether the client's own
					// buckets were charged depends on the consultation order, which the oracle must not assume:
					// take the tokens in the shadow whenever the real bucket could have given one (level not
					// certainly below 1: an own bucket holding exactly 1 IS charged by an own-first limiter
					// before the global bucket refuses), so that the shadow stays a lower bound of the real
					// level, but do not count an admission (admitted stays a lower bound of the real count).
					for _, b := range []*xb{ib, cb} {
						if b == nil {
							continue
						}
						adm := b.admitted
						charge(b, now, !lacks(b, now))
						b.admitted = adm
					}
					charge(ref.global, now, false)
				}
			}
		case "global":
			ref := refs[f[2]]
			if ref == nil {
				continue
			}
			now := atoi64(f[3])
			want := ref.global.level(now)
			var got big.Rat
			got.SetString(impl[i])
			diff := new(big.Rat).Sub(want, &got)
			if prop == "C19" && diff.Cmp(big.NewRat(1, 2)) > 0 {
				r.violate(Violation{Class: "C19/global-charged", What: fmt.Sprintf("global bucket holds %s tokens at t=%d; counting only requests that passed their own limits it should hold %s", impl[i], now, want.FloatString(3)), Ops: pre(i)})
			}
		case "op":
			ref := refs[f[2]]
			if ref == nil {
				continue
			}
			ip, o, now := f[3], f[4], atoi64(f[5])
			got := impl[i] == "1"
			key := ip + "|" + o
			b := ref.op[key]
			if b == nil {
				rate, burst := opRate(ref.cfg, o)
				b = newXB(rate, burst, now)
				ref.op[key] = b
			}
			if prop == "C18" && !got && has(b, now) {
				r.violate(Violation{Class: "C18/refused-with-room", What: fmt.Sprintf("%s operation from %s refused at t=%d with %s tokens", o, ip, now, b.level(now).FloatString(6)), Ops: pre(i)})
			}
			charge(b, now, got)
			if prop == "C18" && !b.within(now) {
				r.violate(Violation{Class: "C18/over-admit", What: fmt.Sprintf("%s limiter for %s admitted %d operations in %d ns (burst %s, rate %s/s)", o, ip, b.admitted, now-b.t0, b.max.FloatString(0), b.rate.FloatString(4)), Ops: pre(i)})
			}
		}
	}
}

// genRlCase builds one case; an exact simulation with the MODEL's semantics is used only to cut the case
// before an instant where some consulted bucket is within 1e-6 of the threshold.
func genRlCase(r *Result, rng *rand.Rand, n int) []string {
	var ops []string
	now := int64(rng.Intn(3)) * 1000000000
	steps := []int64{0, 0, 1000000, 100000000, 500000000, 1000000000, 1000000000, 6000000000, 61000000000, 600000000000}
	if rng.Intn(3) == 0 {
		// a bare token bucket
		num, den := []int64{0, 1, 1, 2, 10, 50, 1}[rng.Intn(7)], []int64{1, 1, 6, 1, 1, 1, 3}[rng.Intn(7)]
		burst := int64([]int{0, 1, 2, 5}[rng.Intn(4)])
		ops = append(ops, fmt.Sprintf("rl bucket b %d %d %d %d", num, den, burst, now))
		sim := newXB(big.NewRat(num, den), burst, now)
		for len(ops) < n {
			now += steps[rng.Intn(len(steps))]
			if sim.near(now) {
				r.count("cut-near-threshold")
				break
			}
			sim.allow(now)
			ops = append(ops, fmt.Sprintf("rl allow b %d", now))
		}
		return ops
	}
	c := rlCfg{g: int64([]int{1, 2, 5, 100}[rng.Intn(4)]), ip: int64([]int{0, 1, 2, 50}[rng.Intn(4)]), ipb: int64([]int{0, 1, 2, 5}[rng.Intn(4)]),
		pc: int64([]int{0, 1, 50}[rng.Intn(3)]), pcb: int64([]int{1, 2, 5}[rng.Intn(3)]), rl: 100, wl: 50, rd: int64([]int{1, 50}[rng.Intn(2)]), mnt: int64([]int{10, 60, 1}[rng.Intn(3)]),
		ci: []int64{1000000000, 300000000000}[rng.Intn(2)]}
	ops = append(ops, fmt.Sprintf("rl new r %d %d %d %d %d %d %d %d %d %d %d", now, c.g, c.ip, c.ipb, c.pc, c.pcb, c.rl, c.wl, c.rd, c.mnt, c.ci))
	// exact simulation of the required (own-first) semantics to avoid near-threshold instants
	sim := &rlRef{cfg: c, global: newXB(big.NewRat(c.g, 1), c.g, now), ip: map[string]*xb{}, conn: map[string]*xb{}, op: map[string]*xb{}}
	ips := []string{"10.0.0.1", "10.0.0.2", "10.0.0.3", "10.0.0.4"}
	abusive := ips[0]
	hotOp := []string{"readdir", "mount", "write_large"}[rng.Intn(3)] // the operation the abusive client hammers in this case
	opEvery := []int{5, 5, 2}[rng.Intn(3)]
	for len(ops) < n {
		now += steps[rng.Intn(len(steps))]
		if rng.Intn(opEvery) == 0 {
			ip := ips[rng.Intn(len(ips))]
			o := []string{"read_large", "write_large", "readdir", "mount"}[rng.Intn(4)]
			if rng.Intn(2) == 0 {
				ip, o = abusive, hotOp
			}
			key := ip + "|" + o
			b := sim.op[key]
			if b == nil {
				rate, burst := opRate(c, o)
				b = newXB(rate, burst, now)
				sim.op[key] = b
			}
			if b.near(now) {
				r.count("cut-near-threshold")
				break
			}
			b.allow(now)
			ops = append(ops, fmt.Sprintf("rl op r %s %s %d", ip, o, now))
			continue
		}
		ip := ips[rng.Intn(len(ips))]
		if rng.Intn(2) == 0 {
			ip = abusive // one client hammers
		}
		conn := fmt.Sprintf("conn-%s-%d", ip[len(ip)-1:], rng.Intn(2))
		ib := sim.ip[ip]
		if ib == nil {
			ib = newXB(big.NewRat(c.ip, 1), c.ipb, now)
			sim.ip[ip] = ib
		}
		var cb *xb
		if c.pc > 0 {
			cb = sim.conn[conn]
			if cb == nil {
				cb = newXB(big.NewRat(c.pc, 1), c.pcb, now)
				sim.conn[conn] = cb
			}
		}
		if ib.near(now) || (cb != nil && cb.near(now)) || sim.global.near(now) {
			r.count("cut-near-threshold")
			break
		}
		if ib.allow(now) {
			if cb == nil || cb.allow(now) {
				sim.global.allow(now)
			}
		}
		ops = append(ops, fmt.Sprintf("rl request r %s %s %d", ip, conn, now))
		if rng.Intn(6) == 0 {
			// observe the global bucket at an instant where its exact level is an integer
			if l := sim.global.level(now); l.IsInt() {
				ops = append(ops, fmt.Sprintf("rl global r %d", now))
			}
		}
	}
	return ops
}

func checkLimiter(r *Result, rng *rand.Rand, thorough bool, prop string) {
	r.Rule = "request timing sequences on the virtual clock (steps 0, 1ms, 0.1s, 0.5s, 1s, 6s, 61s, 10min) against real TokenBucket and RateLimiter: global/per-IP/per-connection/per-operation limiters, 4 IPs (one abusive, hammering one operation type per case), rates {0,1,2,50}/s and 10|60|1 per minute, bursts {0,1,2,5}, cleanup interval 1s|5min so that cleanup passes occur; a case is cut before any instant where float64 rounding would flip a consulted bucket's decision (exact rational vs a float64 mirror of TokenBucket.Allow); non-trivial = at least one refusal and one admission; distinct = distinct op sequences"
	ncases, n := 200, 80
	if thorough {
		ncases, n = 8000, 200
	}
	var cases []Case
	var impl [][]string
	for i := 0; i < ncases; i++ {
		ops := genRlCase(r, rng, n)
		im := runRlOps(ops)
		rlOracle(r, ops, im, prop)
		cases = append(cases, Case{Ops: ops})
		impl = append(impl, im)
		a, d := 0, 0
		for _, l := range im {
			if l == "1" {
				a++
			} else if l == "0" {
				d++
			}
		}
		r.noteCase(strings.Join(ops, ";"), a > 0 && d > 0)
		r.Histogram["admitted"] += a
		r.Histogram["refused"] += d
		r.count(strings.Fields(ops[0])[1])
		if i < 2 {
			r.sample(map[string]any{"ops": ops[:min(12, len(ops))], "impl": im[:min(12, len(im))]})
		}
	}
	// recorded witness (corpus): per-IP burst 1, an abusive client must not drain the global bucket
	w := []string{"rl new r 0 5 1 1 0 1 100 50 50 10 300000000000"}
	for k := 0; k < 20; k++ {
		w = append(w, "rl request r 10.0.0.1 conn-1-0 0")
	}
	w = append(w, "rl global r 0", "rl request r 10.0.0.2 conn-2-0 0")
	im := runRlOps(w)
	rlOracle(r, w, im, prop)
	cases = append(cases, Case{Ops: w})
	impl = append(impl, im)
	r.noteCase(strings.Join(w, ";"), true)
	if prop == "C19" {
		otherClientsOverConnections(r)
	}
	if prop == "C18" {
		rounds := 300
		if thorough {
			rounds = 4000
		}
		concurrentFirstRequests(r, rounds)
	}
	compareWithModel(r, "ratelimit", cases, impl, runRlOps)
}

// otherClientsOverConnections: the same statement with the clients the server sees — connections from different
// peer addresses (IPv4, IPv6, IPv4-mapped) served by the real connection loop. One client floods far beyond its
// per-IP limit; every other client, which has sent nothing, must still be admitted (the global bucket has room).
func otherClientsOverConnections(r *Result) {
	groups := [][]string{
		{"10.0.0.1", "10.0.0.2", "192.168.7.9"},
		{"2001:db8::1", "2001:db8::2", "fe80::1234"},
		{"::ffff:10.0.0.1", "::ffff:10.0.0.2", "2001:db8::7"},
		{"2001:db8::1", "10.0.0.2", "::1"},
	}
	for _, g := range groups {
		peersScenario(r, g)
	}
}

func peersScenario(r *Result, g []string) {
	{
		cfg := absnfs.DefaultRateLimiterConfig()
		cfg.GlobalRequestsPerSecond = 1000
		cfg.PerIPRequestsPerSecond, cfg.PerIPBurstSize = 1, 5
		cfg.PerConnectionRequestsPerSecond, cfg.PerConnectionBurstSize = 1000, 1000
		absnfs.VerifSetClock(0)
		s, err := newSrv(NewRefFS(), absnfs.ExportOptions{EnableRateLimiting: true, RateLimitConfig: &cfg})
		must(err)
		abuser := servePeer(s, g[0], 40000)
		admitted := 0
		for i := 0; i < 60; i++ {
			rs, _, _, err := abuser.call(progNFS, 3, 0, rootCred(), nil)
			if err != nil {
				break
			}
			if rs == 0 {
				admitted++
			}
		}
		r.noteCase(fmt.Sprint("peers", g), true)
		r.count("peers-over-connections")
		for _, ip := range g[1:] {
			v := servePeer(s, ip, 40001)
			rs, _, _, err := v.call(progNFS, 3, 0, rootCred(), nil)
			v.Close()
			if err != nil || rs != 0 {
				r.violate(Violation{Class: "C19/other-client-refused", What: fmt.Sprintf("client %s flooded 60 calls against a per-IP burst of 5 (%d admitted); the first call of client %s, which had sent nothing, was then refused (reply_stat %d, err %v) although the global limit of 1000/s was untouched by refused traffic", g[0], admitted, ip, rs, err),
					Ops: []string{"peers " + strings.Join(g, " ")}})
			}
		}
		if admitted > 5 {
			r.violate(Violation{Class: "C19/own-limit-not-applied", What: fmt.Sprintf("client %s had %d of 60 immediate calls admitted against a per-IP burst of 5", g[0], admitted), Ops: []string{"peers " + strings.Join(g, " ")}})
		}
		abuser.Close()
		s.Close()
		absnfs.VerifClockOff()
	}
}

// concurrentFirstRequests: "each rate limit admits at most burst + rate x elapsed" also when the first requests of a
// connection arrive together (AllowRequest is exported and called from every connection goroutine; a client may
// multiplex). Per-connection limit 1/s, burst 1, everything else generous; per round a fresh connection ID and 32
// simultaneous first requests on it: however the race for creating the connection's bucket goes, one bucket judges
// them all.
func concurrentFirstRequests(r *Result, rounds int) {
	absnfs.VerifClockOff()
	cfg := absnfs.DefaultRateLimiterConfig()
	cfg.GlobalRequestsPerSecond, cfg.PerIPRequestsPerSecond, cfg.PerIPBurstSize = 10000000, 10000000, 10000000
	cfg.PerConnectionRequestsPerSecond, cfg.PerConnectionBurstSize = 1, 1
	rl := absnfs.NewRateLimiter(cfg)
	worst := 0
	for round := 0; round < rounds; round++ {
		id := fmt.Sprintf("conn-first-%d", round)
		var admitted int32
		start := make(chan struct{})
		var wg sync.WaitGroup
		t0 := time.Now()
		for g := 0; g < 32; g++ {
			wg.Add(1)
			go func() {
				defer wg.Done()
				<-start
				if rl.AllowRequest("10.9.9.9", id) {
					atomic.AddInt32(&admitted, 1)
				}
			}()
		}
		close(start)
		wg.Wait()
		// burst 1 + 1/s x elapsed, the elapsed time rounded up generously
		bound := 1 + int(time.Since(t0)/time.Second) + 1
		if int(admitted) > worst {
			worst = int(admitted)
		}
		if int(admitted) > bound {
			r.violate(Violation{Class: "C18/concurrent-first-requests", What: fmt.Sprintf("per-connection limit 1/s burst 1: %d of 32 simultaneous first requests of one connection were admitted within %v (bound %d)", admitted, time.Since(t0).Round(time.Millisecond), bound),
				Ops: []string{"concurrent-first-requests"}})
			break
		}
	}
	r.noteCase("concurrent-first-requests", true)
	r.Histogram["concurrent-first-requests-rounds"] += rounds
	r.Histogram["concurrent-first-requests-worst-admitted"] = worst
}
