package main

// C12 — ACCESS: the real handleAccess (through HandleCall) against the Lean decision function, and an
// independent oracle written from the property statement.

import (
	"encoding/binary"
	"encoding/json"
	"fmt"
	"math/rand"
	"os"
	"strings"

	"github.com/absfs/absnfs"
)

func init() {
	checks["C12"] = checkC12
	c12ops := opsReplay("access", func(ops []string) []string {
		e := newAccessEnv()
		defer e.close()
		out := make([]string, len(ops))
		for i, op := range ops {
			out[i] = e.run(op)
		}
		return out
	}, func(r *Result, ops, impl []string) {
		for i, op := range ops {
			accessOracle(r, op, impl[i])
		}
	})
	replays["C12"] = func(r *Result, raw json.RawMessage) {
		var rp struct {
			Ops []string `json:"ops"`
		}
		json.Unmarshal(raw, &rp)
		if len(rp.Ops) > 0 && strings.Contains(rp.Ops[0], "[sent with AUTH_NONE") {
			// the decision for a caller without AUTH_SYS credentials: sent again with AUTH_NONE (the op line carries the
			// identity the oracle expects, 65534:65534)
			e := newAccessEnv()
			defer e.close()
			for _, op := range rp.Ops {
				var p *Peer
				if strings.Contains(op, "over a connection") {
					p = servePeer(e.rw, "10.7.7.8", 901)
				}
				got := e.runAs(op, Cred{Flavor: 0, Raw: []byte{}}, p)
				if p != nil {
					p.Close()
				}
				accessOracle(r, op, got)
				r.noteCase(op, true)
			}
			return
		}
		c12ops(r, raw)
	}
}

type accessEnv struct {
	fs       *RefFS
	rw, ro   *Srv
	sq       map[string]*Srv      // servers over the same backend with another squash mode (accessq ops)
	sqH      map[string][2]uint64 // their handles for /f and /d
	fRW, dRW uint64
	fRO, dRO uint64
}

func newAccessEnv() *accessEnv {
	fs := NewRefFS()
	fs.logOn = false
	must(fs.Mkdir("/d", 0o755))
	f, err := fs.Create("/f")
	must(err)
	f.Close()
	rw, err := newSrv(fs, absnfs.ExportOptions{Squash: "none"})
	must(err)
	ro, err := newSrv(fs, absnfs.ExportOptions{Squash: "none", ReadOnly: true})
	must(err)
	e := &accessEnv{fs: fs, rw: rw, ro: ro}
	root, st := rw.Mount("/")
	if st != 0 {
		panic("mount failed")
	}
	e.fRW, _ = rw.Lookup(root, "f", rootCred())
	e.dRW, _ = rw.Lookup(root, "d", rootCred())
	root2, _ := ro.Mount("/")
	e.fRO, _ = ro.Lookup(root2, "f", rootCred())
	e.dRO, _ = ro.Lookup(root2, "d", rootCred())
	return e
}

func (e *accessEnv) close() {
	e.rw.Close()
	e.ro.Close()
	for _, s := range e.sq {
		s.Close()
	}
}

// squashed returns a server with the given squash mode (as spelled) over the same backend
func (e *accessEnv) squashed(mode string) (*Srv, [2]uint64) {
	if e.sq == nil {
		e.sq, e.sqH = map[string]*Srv{}, map[string][2]uint64{}
	}
	if s, ok := e.sq[mode]; ok {
		return s, e.sqH[mode]
	}
	s, err := newSrv(e.fs, absnfs.ExportOptions{Squash: mode})
	must(err)
	root, _ := s.Mount("/")
	var h [2]uint64
	// handles are obtained with AUTH_SYS 0:0, which every mode lets LOOKUP
	h[0], _ = s.Lookup(root, "f", rootCred())
	h[1], _ = s.Lookup(root, "d", rootCred())
	e.sq[mode], e.sqH[mode] = s, h
	return s, h
}

// squashIDs: the effective identity of an AUTH_SYS credential per the documented rule (C10), auxiliary gids included
func squashIDs(mode string, uid, gid uint32, aux []uint32) (uint32, uint32, []uint32) {
	out := append([]uint32(nil), aux...)
	switch strings.ToLower(mode) {
	case "none":
	case "all":
		uid, gid = 65534, 65534
		for i := range out {
			out[i] = 65534
		}
	default:
		if uid == 0 {
			uid, gid = 65534, 65534
		} else if gid == 0 {
			gid = 65534
		}
		for i := range out {
			if out[i] == 0 {
				out[i] = 65534
			}
		}
	}
	return uid, gid, out
}

// op: access <mode-octal> <isDir> <ro> <effUid> <effGid> <aux|-> <fUid> <fGid> <mask>
func (e *accessEnv) run(op string) string {
	var mode uint32
	var isDir, ro int
	var eu, eg, fu, fg, mask uint32
	var auxs string
	sqMode := ""
	if strings.HasPrefix(op, "accessq ") {
		// accessq <squash-mode> <mode-octal> <isDir> <uid> <gid> <aux|-> <fUid> <fGid> <mask>: the identity is what
		// the client sends; the export squashes it (read-write export)
		if _, err := fmt.Sscanf(op, "accessq %s %o %d %d %d %s %d %d %d", &sqMode, &mode, &isDir, &eu, &eg, &auxs, &fu, &fg, &mask); err != nil {
			return "bad-op"
		}
	} else if _, err := fmt.Sscanf(op, "access %o %d %d %d %d %s %d %d %d", &mode, &isDir, &ro, &eu, &eg, &auxs, &fu, &fg, &mask); err != nil {
		return "bad-op"
	}
	var aux []uint32
	if auxs != "-" {
		for _, a := range strings.Split(auxs, ",") {
			var v uint32
			fmt.Sscan(a, &v)
			aux = append(aux, v)
		}
	}
	if sqMode != "" {
		// the credential as sent; the server squashes it
		p := "/f"
		if isDir == 1 {
			p = "/d"
		}
		e.fs.Chmod(p, os.FileMode(mode&0o777))
		s, hs := e.squashed(sqMode)
		h := hs[isDir]
		absnfs.VerifNodeSetOwner(s.NFS, h, fu, fg)
		r := s.NFSCall(4, Cred{Flavor: 1, UID: eu, GID: eg, Aux: aux}, cat(fh(h), u32(mask)))
		if r.Err != nil || status(r) != 0 || len(r.Data) != 4+4+84+4 {
			return fmt.Sprintf("error status=%d len=%d", status(r), len(r.Data))
		}
		return fmt.Sprint(binary.BigEndian.Uint32(r.Data[92:]))
	}
	p := "/f"
	if isDir == 1 {
		p = "/d"
	}
	e.fs.Chmod(p, os.FileMode(mode&0o777))
	s, h := e.rw, e.fRW
	switch {
	case ro == 1 && isDir == 1:
		s, h = e.ro, e.dRO
	case ro == 1:
		s, h = e.ro, e.fRO
	case isDir == 1:
		h = e.dRW
	}
	absnfs.VerifNodeSetOwner(s.NFS, h, fu, fg)
	r := s.NFSCall(4, Cred{Flavor: 1, UID: eu, GID: eg, Aux: aux}, cat(fh(h), u32(mask)))
	if r.Err != nil || status(r) != 0 || len(r.Data) != 4+4+84+4 {
		return fmt.Sprintf("error status=%d len=%d", status(r), len(r.Data))
	}
	return fmt.Sprint(binary.BigEndian.Uint32(r.Data[92:]))
}

// accessOracle recomputes the expected grant directly from the property statement.
func accessOracle(r *Result, op, impl string) {
	var mode uint32
	var isDir, ro int
	var eu, eg, fu, fg, mask uint32
	var auxs string
	if strings.HasPrefix(op, "accessq ") {
		var sqMode string
		fmt.Sscanf(op, "accessq %s %o %d %d %d %s %d %d %d", &sqMode, &mode, &isDir, &eu, &eg, &auxs, &fu, &fg, &mask)
		var aux []uint32
		if auxs != "-" {
			for _, a := range strings.Split(auxs, ",") {
				var v uint32
				fmt.Sscan(a, &v)
				aux = append(aux, v)
			}
		}
		var eaux []uint32
		eu, eg, eaux = squashIDs(sqMode, eu, eg, aux)
		auxs = "-"
		if len(eaux) > 0 {
			var l []string
			for _, g := range eaux {
				l = append(l, fmt.Sprint(g))
			}
			auxs = strings.Join(l, ",")
		}
	} else {
		fmt.Sscanf(op, "access %o %d %d %d %d %s %d %d %d", &mode, &isDir, &ro, &eu, &eg, &auxs, &fu, &fg, &mask)
	}
	var got uint32
	if _, err := fmt.Sscan(impl, &got); err != nil {
		r.violate(Violation{Class: "C12/access-failed", What: "ACCESS on a live handle did not return NFS3_OK: " + impl, Ops: []string{op}})
		return
	}
	inAux := false
	if auxs != "-" {
		for _, a := range strings.Split(auxs, ",") {
			var v uint32
			fmt.Sscan(a, &v)
			if v == fg {
				inAux = true
			}
		}
	}
	var bits uint32
	switch {
	case eu == 0:
		bits = 7
	case eu == fu:
		bits = mode >> 6 & 7
	case eg == fg || inAux:
		bits = mode >> 3 & 7
	default:
		bits = mode & 7
	}
	var want uint32
	if mask&1 != 0 && bits&4 != 0 {
		want |= 1
	}
	if mask&2 != 0 && isDir == 1 && bits&1 != 0 {
		want |= 2
	}
	if mask&0x20 != 0 && bits&1 != 0 {
		want |= 0x20
	}
	if ro == 0 && bits&2 != 0 {
		want |= mask & (4 | 8)
		if isDir == 1 {
			want |= mask & 0x10
		}
	}
	switch {
	case got&^mask != 0:
		r.violate(Violation{Class: "C12/over-grant", What: fmt.Sprintf("granted %#x is not a subset of requested %#x", got, mask), Ops: []string{op}})
	case ro == 1 && got&(4|8|0x10) != 0:
		r.violate(Violation{Class: "C12/readonly-grant", What: fmt.Sprintf("read-only export granted %#x", got), Ops: []string{op}})
	case got != want:
		r.violate(Violation{Class: "C12/wrong-decision", What: fmt.Sprintf("granted %#x, UNIX rules give %#x", got, want), Ops: []string{op}})
	}
}

func checkC12(r *Result, rng *rand.Rand, thorough bool) {
	r.Rule = "ACCESS calls through the real HandleCall over (mode, file|dir, read-only, identity relation incl. aux gids and uid 0, 32-bit mask); quick: all 512 rwx modes x 2 x 2 x 7 relations with sampled masks + random; thorough: all 512 modes x file/dir x ro x 7 relations x all 64 masks (exhaustive) + random high-bit masks; plus the same decisions on exports with squash root/all/none in every accepted spelling, the credential (uid 0, gid 0, auxiliary gid 0 or the file's group) squashed by the server; every case is non-trivial (a decision is computed); distinct = distinct op lines"
	e := newAccessEnv()
	defer e.close()
	// identity relations: (effUid, effGid, aux, fileUid, fileGid)
	type rel struct {
		eu, eg uint32
		aux    string
		fu, fg uint32
	}
	rels := []rel{
		{1000, 100, "-", 1000, 100},       // owner (and group)
		{1000, 100, "-", 1000, 200},       // owner only
		{1001, 100, "-", 1000, 100},       // primary group
		{1001, 101, "7,100,9", 1000, 100}, // auxiliary group
		{1001, 101, "7,9", 1000, 100},     // other
		{0, 0, "-", 1000, 100},            // root
		{1000, 100, "200", 0, 0},          // file owned by root, caller other
	}
	var ops []string
	if thorough {
		for mode := 0; mode < 512; mode++ {
			for d := 0; d < 2; d++ {
				for ro := 0; ro < 2; ro++ {
					for _, x := range rels {
						for mask := 0; mask < 64; mask++ {
							ops = append(ops, fmt.Sprintf("access %o %d %d %d %d %s %d %d %d", mode, d, ro, x.eu, x.eg, x.aux, x.fu, x.fg, mask))
						}
					}
				}
			}
		}
		r.Notes = append(r.Notes, "exhaustive over 512 modes x {file,dir} x {rw,ro} x 7 identity relations x 64 masks")
	} else {
		for mode := 0; mode < 512; mode++ {
			for d := 0; d < 2; d++ {
				for ro := 0; ro < 2; ro++ {
					for _, x := range rels {
						for _, mask := range []int{0x3f, rng.Intn(64)} {
							ops = append(ops, fmt.Sprintf("access %o %d %d %d %d %s %d %d %d", mode, d, ro, x.eu, x.eg, x.aux, x.fu, x.fg, mask))
						}
					}
				}
			}
		}
	}
	nr := 3000
	if thorough {
		nr = 50000
	}
	ids := []uint32{0, 1, 100, 1000, 65534, 0xffffffff}
	for i := 0; i < nr; i++ {
		pick := func() uint32 { return ids[rng.Intn(len(ids))] }
		aux := "-"
		if rng.Intn(2) == 0 {
			var a []string
			for k := rng.Intn(4); k >= 0; k-- {
				a = append(a, fmt.Sprint(pick()))
			}
			aux = strings.Join(a, ",")
		}
		mask := rng.Uint32()
		if rng.Intn(2) == 0 {
			mask &= 0xff
		}
		ops = append(ops, fmt.Sprintf("access %o %d %d %d %d %s %d %d %d", rng.Intn(512), rng.Intn(2), rng.Intn(2), pick(), pick(), aux, pick(), pick(), mask))
	}
	// the identity the rules are applied to is the one the export's squash mode leaves (auxiliary gids included):
	// the same decisions with the credential as sent and a squashing export, for every spelling the constructor accepts
	nq := 600
	if thorough {
		nq = 12000
	}
	var qops []string
	for i := 0; i < nq; i++ {
		sqMode := []string{"root", "all", "none", "Root", "ALL", "None", "aLl", "ROOT"}[rng.Intn(8)]
		x := rels[rng.Intn(len(rels))]
		uid, gid, aux := x.eu, x.eg, x.aux
		switch rng.Intn(4) {
		case 0:
			uid, gid = 0, 0
		case 1:
			aux = []string{"0", "100,0", "0,200", "100"}[rng.Intn(4)]
		}
		fu, fg := x.fu, x.fg
		if rng.Intn(3) == 0 {
			fu, fg = []uint32{0, 65534, 1000}[rng.Intn(3)], []uint32{0, 65534, 100}[rng.Intn(3)]
		}
		qops = append(qops, fmt.Sprintf("accessq %s %o %d %d %d %s %d %d %d", sqMode, rng.Intn(512), rng.Intn(2), uid, gid, aux, fu, fg, []int{0x3f, rng.Intn(64)}[rng.Intn(2)]))
	}
	for range qops {
		r.count("squashed-export")
	}
	ops = append(ops, qops...)
	impl := make([]string, len(ops))
	for i, op := range ops {
		impl[i] = e.run(op)
		accessOracle(r, op, impl[i])
		r.noteCase(op, true)
		f := strings.Fields(op)
		if f[0] == "access" {
			r.count("dir=" + f[2] + ",ro=" + f[3])
		}
		if i%(len(ops)/6+1) == 0 {
			r.sample(map[string]string{"op": op, "granted": impl[i]})
		}
	}
	// a caller without AUTH_SYS credentials (AUTH_NONE) is "nobody" (65534:65534, no auxiliary groups): its decisions
	// are those of that identity, through HandleCall and over a connection alike
	{
		nn := 400
		if thorough {
			nn = 6000
		}
		pn := servePeer(e.rw, "10.7.7.8", 901)
		for i := 0; i < nn; i++ {
			mode, isDir, ro := rng.Intn(512), rng.Intn(2), rng.Intn(2)
			fu, fg := []uint32{0, 1000, 65534}[rng.Intn(3)], []uint32{0, 100, 65534}[rng.Intn(3)]
			mask := []int{0x3f, rng.Intn(64)}[rng.Intn(2)]
			as := fmt.Sprintf("access %o %d %d 65534 65534 - %d %d %d", mode, isDir, ro, fu, fg, mask)
			got := e.runAs(as, Cred{Flavor: 0, Raw: []byte{}}, nil)
			accessOracle(r, as+"   [sent with AUTH_NONE]", got)
			if ro == 0 && i%4 == 0 {
				got2 := e.runAs(as, Cred{Flavor: 0, Raw: []byte{}}, pn)
				accessOracle(r, as+"   [sent with AUTH_NONE over a connection]", got2)
			}
			r.count("auth-none")
		}
		pn.Close()
	}
	// the same decisions when the calls share one connection: a decision depends on the call's own credential,
	// not on who else used the connection before
	{
		p := servePeer(e.rw, "10.7.7.7", 900)
		n := 0
		for i, op := range ops {
			f := strings.Fields(op)
			if f[0] != "access" || f[3] != "0" || i%7 != 0 || n >= 400 {
				continue
			}
			n++
			got := e.runOn(op, p)
			if got != impl[i] {
				r.violate(Violation{Class: "C12/decision-depends-on-connection-history", What: fmt.Sprintf("sent on a connection other identities had used before, ACCESS was answered %s; the same call on its own is answered %s", got, impl[i]), Ops: []string{op}})
				break
			}
		}
		p.Close()
		r.Histogram["one-connection"] += n
	}
	// model correspondence in chunks of 5000 ops per case
	var cases []Case
	var il [][]string
	for i := 0; i < len(ops); i += 5000 {
		j := i + 5000
		if j > len(ops) {
			j = len(ops)
		}
		cases = append(cases, Case{Ops: ops[i:j]})
		il = append(il, impl[i:j])
	}
	compareWithModel(r, "access", cases, il, func(o []string) []string {
		out := make([]string, len(o))
		for i, op := range o {
			out[i] = e.run(op)
		}
		return out
	})
}

// runAs performs the ACCESS of a plain "access" op with the given credential instead of the op's identity; through
// HandleCall, or over the connection p (read-write export only) when p is not nil.
func (e *accessEnv) runAs(op string, cred Cred, p *Peer) string {
	var mode uint32
	var isDir, ro int
	var eu, eg, fu, fg, mask uint32
	var auxs string
	if _, err := fmt.Sscanf(op, "access %o %d %d %d %d %s %d %d %d", &mode, &isDir, &ro, &eu, &eg, &auxs, &fu, &fg, &mask); err != nil {
		return "bad-op"
	}
	path := "/f"
	if isDir == 1 {
		path = "/d"
	}
	e.fs.Chmod(path, os.FileMode(mode&0o777))
	s, h := e.rw, e.fRW
	switch {
	case ro == 1 && isDir == 1:
		s, h = e.ro, e.dRO
	case ro == 1:
		s, h = e.ro, e.fRO
	case isDir == 1:
		h = e.dRW
	}
	absnfs.VerifNodeSetOwner(s.NFS, h, fu, fg)
	if p != nil {
		rs, as, data, err := p.call(progNFS, 3, 4, cred, cat(fh(h), u32(mask)))
		if err != nil || rs != 0 || as != 0 || len(data) != 4+4+84+4 || binary.BigEndian.Uint32(data) != 0 {
			return fmt.Sprintf("error reply_stat=%d accept_stat=%d len=%d err=%v", rs, as, len(data), err)
		}
		return fmt.Sprint(binary.BigEndian.Uint32(data[92:]))
	}
	r := s.NFSCall(4, cred, cat(fh(h), u32(mask)))
	if r.Err != nil || status(r) != 0 || len(r.Data) != 4+4+84+4 {
		return fmt.Sprintf("error status=%d len=%d", status(r), len(r.Data))
	}
	return fmt.Sprint(binary.BigEndian.Uint32(r.Data[92:]))
}

// runOn sends the ACCESS of a plain "access" op (read-write export) over the given connection.
func (e *accessEnv) runOn(op string, p *Peer) string {
	var mode uint32
	var isDir, ro int
	var eu, eg, fu, fg, mask uint32
	var auxs string
	if _, err := fmt.Sscanf(op, "access %o %d %d %d %d %s %d %d %d", &mode, &isDir, &ro, &eu, &eg, &auxs, &fu, &fg, &mask); err != nil {
		return "bad-op"
	}
	var aux []uint32
	if auxs != "-" {
		for _, a := range strings.Split(auxs, ",") {
			var v uint32
			fmt.Sscan(a, &v)
			aux = append(aux, v)
		}
	}
	path, h := "/f", e.fRW
	if isDir == 1 {
		path, h = "/d", e.dRW
	}
	e.fs.Chmod(path, os.FileMode(mode&0o777))
	absnfs.VerifNodeSetOwner(e.rw.NFS, h, fu, fg)
	rs, as, data, err := p.call(progNFS, 3, 4, Cred{Flavor: 1, UID: eu, GID: eg, Aux: aux}, cat(fh(h), u32(mask)))
	if err != nil || rs != 0 || as != 0 || len(data) != 4+4+84+4 || binary.BigEndian.Uint32(data) != 0 {
		return fmt.Sprintf("error reply_stat=%d accept_stat=%d len=%d err=%v", rs, as, len(data), err)
	}
	return fmt.Sprint(binary.BigEndian.Uint32(data[92:]))
}
