package main

// refbackend: a small in-memory absfs.SymlinkFileSystem written to be exactly the Lean `Fs` model
// (lean/Absnfs/Fs.lean) under the documented absfs/POSIX contract, with the instrumentation the checks
// need built in: a call log, a volatile/durable split with Sync and Crash, per-call gates, fault injection.
//
// Semantics (each point mirrored in the Lean model):
//   - paths are absolute, '/'-separated; resolution does not follow intermediate symlinks (ENOTDIR);
//   - Lstat/Lchown/Readlink/Remove/Rename/Symlink/Mkdir act on the named entry itself;
//     Stat/OpenFile/Create/Chmod/Chown/Chtimes/Truncate/ReadDir follow a final symlink (depth <= 8);
//   - WriteAt beyond EOF zero-fills; a zero-length WriteAt changes nothing; Truncate extends with zeros;
//   - Create = O_RDWR|O_CREATE|O_TRUNC; Mkdir/Symlink on an existing name -> EEXIST;
//   - Remove removes files, symlinks and empty directories (ENOTEMPTY otherwise);
//   - Rename replaces an existing non-directory (or an empty directory by a directory), refuses to move a
//     directory into its own subtree (EINVAL);
//   - Chmod keeps the file type; sizes above maxSize -> EFBIG; directory listings are sorted by name.

import (
	"errors"
	"fmt"
	"io"
	"io/fs"
	"os"
	"path"
	"sort"
	"strings"
	"sync"
	"syscall"
	"time"

	"github.com/absfs/absfs"
)

type rkind int

const (
	kFile rkind = iota
	kDir
	kLink
)

type rnode struct {
	kind     rkind
	perm     os.FileMode // permission bits only (0..07777 mapped to Go's bits by the caller)
	uid, gid int
	mtime    time.Time
	ino      uint64
	data     []byte            // kFile: current (volatile) contents
	durable  []byte            // kFile: contents as of the last Sync (nil = never synced / empty)
	synced   bool              // kFile: durable == data
	children map[string]*rnode // kDir
	target   string            // kLink
}

type RefFS struct {
	mu      sync.Mutex
	root    *rnode
	nextIno uint64
	tick    int64
	maxSize int64

	// instrumentation
	log       []string // every call, "Op arg arg -> errno"
	pathLog   []PathUse
	targetLog []string
	logOn   bool
	gate    func(call string)       // called (without the lock) before each call; may block
	fault   func(call string) error // non-nil error => the call fails with it before touching state
	panicOn string                  // op name that panics when called
}

func NewRefFS() *RefFS {
	r := &RefFS{nextIno: 2, maxSize: 64 << 20, logOn: true}
	r.root = &rnode{kind: kDir, perm: 0o755, children: map[string]*rnode{}, ino: 1, mtime: r.now()}
	return r
}

func (r *RefFS) now() time.Time {
	r.tick++
	return time.Unix(1_600_000_000+r.tick, 0)
}

var mutatingOps = map[string]bool{"OpenFileW": true, "WriteAt": true, "Truncate": true, "Create": true, "Remove": true,
	"Rename": true, "Mkdir": true, "Symlink": true, "Chmod": true, "Chown": true, "Lchown": true, "Chtimes": true, "FTruncate": true}

func errnoName(err error) string {
	if err == nil {
		return "ok"
	}
	var en syscall.Errno
	if errors.As(err, &en) {
		switch en {
		case syscall.ENOENT:
			return "ENOENT"
		case syscall.EEXIST:
			return "EEXIST"
		case syscall.ENOTDIR:
			return "ENOTDIR"
		case syscall.EISDIR:
			return "EISDIR"
		case syscall.ENOTEMPTY:
			return "ENOTEMPTY"
		case syscall.EINVAL:
			return "EINVAL"
		case syscall.EFBIG:
			return "EFBIG"
		case syscall.ELOOP:
			return "ELOOP"
		case syscall.EIO:
			return "EIO"
		}
		return en.Error()
	}
	return "ERR"
}

func perr(op, p string, e syscall.Errno) error { return &os.PathError{Op: op, Path: p, Err: e} }

// enter is called at the start of every exported operation.
func (r *RefFS) enter(call string) error {
	if g := r.gate; g != nil {
		g(call)
	}
	if r.panicOn != "" && strings.HasPrefix(call, r.panicOn) {
		panic("refbackend: injected panic in " + call)
	}
	if f := r.fault; f != nil {
		if err := f(call); err != nil {
			r.record(call, err)
			return err
		}
	}
	return nil
}

func (r *RefFS) record(call string, err error) {
	if !r.logOn {
		return
	}
	r.mu.Lock()
	r.log = append(r.log, call+" -> "+errnoName(err))
	r.mu.Unlock()
}

// PathUse is one path argument handed to the backend (structured twin of the text log, safe for any bytes).
type PathUse struct {
	Op   string
	Path string
}

func (r *RefFS) notePath(op, p string) {
	if !r.logOn {
		return
	}
	r.mu.Lock()
	r.pathLog = append(r.pathLog, PathUse{op, p})
	r.mu.Unlock()
}

func (r *RefFS) noteTarget(t string) {
	if !r.logOn {
		return
	}
	r.mu.Lock()
	r.targetLog = append(r.targetLog, t)
	r.mu.Unlock()
}

// TakePaths returns and clears the structured path log and the symlink targets seen.
func (r *RefFS) TakePaths() ([]PathUse, []string) {
	r.mu.Lock()
	defer r.mu.Unlock()
	p, t := r.pathLog, r.targetLog
	r.pathLog, r.targetLog = nil, nil
	return p, t
}

func (r *RefFS) TakeLog() []string {
	r.mu.Lock()
	defer r.mu.Unlock()
	l := r.log
	r.log = nil
	return l
}

func splitPath(p string) ([]string, bool) {
	if !strings.HasPrefix(p, "/") {
		return nil, false
	}
	var out []string
	for _, c := range strings.Split(p, "/") {
		if c == "" || c == "." {
			continue
		}
		out = append(out, c)
	}
	return out, true
}

// walk resolves the components without following any symlink. Returns parent, node (nil if the last
// component is missing but the parent exists), errno.
func (r *RefFS) walk(comps []string) (parent *rnode, n *rnode, errno syscall.Errno) {
	cur := r.root
	if len(comps) == 0 {
		return nil, cur, 0
	}
	for i, c := range comps {
		if cur.kind != kDir {
			return nil, nil, syscall.ENOTDIR
		}
		if c == ".." { // not produced by the server; treated as a missing entry
			return nil, nil, syscall.ENOENT
		}
		next, ok := cur.children[c]
		if i == len(comps)-1 {
			if !ok {
				return cur, nil, syscall.ENOENT
			}
			return cur, next, 0
		}
		if !ok {
			return nil, nil, syscall.ENOENT
		}
		cur = next
	}
	return nil, nil, syscall.ENOENT
}

// resolve returns the node at p; with follow, a final symlink is chased (relative to its directory).
// It also returns the final (link-free) path reached, and for a missing final component the parent + name.
func (r *RefFS) resolve(p string, follow bool) (n *rnode, parent *rnode, name string, final string, errno syscall.Errno) {
	for depth := 0; depth <= 8; depth++ {
		comps, ok := splitPath(p)
		if !ok {
			return nil, nil, "", p, syscall.EINVAL
		}
		par, nd, e := r.walk(comps)
		nm := ""
		if len(comps) > 0 {
			nm = comps[len(comps)-1]
		}
		if e != 0 {
			return nil, par, nm, p, e
		}
		if follow && nd.kind == kLink {
			t := nd.target
			if strings.HasPrefix(t, "/") {
				p = path.Clean(t)
			} else {
				p = path.Clean(path.Join("/"+strings.Join(comps[:len(comps)-1], "/"), t))
			}
			continue
		}
		return nd, par, nm, "/" + strings.Join(comps, "/"), 0
	}
	return nil, nil, "", p, syscall.ELOOP
}

type rinfo struct {
	name  string
	size  int64
	mode  os.FileMode
	mtime time.Time
	uid   int
	gid   int
	ino   uint64
}

func (i *rinfo) Name() string               { return i.name }
func (i *rinfo) Size() int64                { return i.size }
func (i *rinfo) Mode() os.FileMode          { return i.mode }
func (i *rinfo) ModTime() time.Time         { return i.mtime }
func (i *rinfo) IsDir() bool                { return i.mode.IsDir() }
func (i *rinfo) Sys() any                   { return i }
func (i *rinfo) Type() fs.FileMode          { return i.mode.Type() }
func (i *rinfo) Info() (fs.FileInfo, error) { return i, nil }

func infoOf(name string, n *rnode) *rinfo {
	m := n.perm
	var sz int64
	switch n.kind {
	case kDir:
		m |= os.ModeDir
	case kLink:
		m |= os.ModeSymlink
		sz = int64(len(n.target))
	case kFile:
		sz = int64(len(n.data))
	}
	return &rinfo{name: name, size: sz, mode: m, mtime: n.mtime, uid: n.uid, gid: n.gid, ino: n.ino}
}

func baseName(p string) string {
	if p == "/" {
		return "/"
	}
	return path.Base(p)
}

// ---- SymLinker ----

func (r *RefFS) Lstat(name string) (os.FileInfo, error) {
	call := "Lstat " + name
	r.notePath("Lstat", name)
	if err := r.enter(call); err != nil {
		return nil, err
	}
	r.mu.Lock()
	n, _, _, _, e := r.resolve(name, false)
	var fi os.FileInfo
	if e == 0 {
		fi = infoOf(baseName(name), n)
	}
	r.mu.Unlock()
	if e != 0 {
		err := perr("lstat", name, e)
		r.record(call, err)
		return nil, err
	}
	r.record(call, nil)
	return fi, nil
}

func (r *RefFS) Stat(name string) (os.FileInfo, error) {
	call := "Stat " + name
	r.notePath("Stat", name)
	if err := r.enter(call); err != nil {
		return nil, err
	}
	r.mu.Lock()
	n, _, _, _, e := r.resolve(name, true)
	var fi os.FileInfo
	if e == 0 {
		fi = infoOf(baseName(name), n)
	}
	r.mu.Unlock()
	if e != 0 {
		err := perr("stat", name, e)
		r.record(call, err)
		return nil, err
	}
	r.record(call, nil)
	return fi, nil
}

func (r *RefFS) Readlink(name string) (string, error) {
	call := "Readlink " + name
	r.notePath("Readlink", name)
	if err := r.enter(call); err != nil {
		return "", err
	}
	r.mu.Lock()
	n, _, _, _, e := r.resolve(name, false)
	t := ""
	if e == 0 {
		if n.kind != kLink {
			e = syscall.EINVAL
		} else {
			t = n.target
		}
	}
	r.mu.Unlock()
	if e != 0 {
		err := perr("readlink", name, e)
		r.record(call, err)
		return "", err
	}
	r.record(call, nil)
	return t, nil
}

func (r *RefFS) Symlink(oldname, newname string) error {
	call := fmt.Sprintf("Symlink %q %s", oldname, newname)
	r.notePath("Symlink", newname)
	r.noteTarget(oldname)
	if err := r.enter(call); err != nil {
		return err
	}
	r.mu.Lock()
	n, par, nm, _, e := r.resolve(newname, false)
	switch {
	case e == 0 && n != nil:
		e = syscall.EEXIST
	case e == syscall.ENOENT && par != nil:
		e = 0
		par.children[nm] = &rnode{kind: kLink, perm: 0o777, target: oldname, ino: r.nextIno, mtime: r.now()}
		r.nextIno++
		par.mtime = r.now()
	}
	r.mu.Unlock()
	var err error
	if e != 0 {
		err = perr("symlink", newname, e)
	}
	r.record(call, err)
	return err
}

func (r *RefFS) Lchown(name string, uid, gid int) error {
	call := fmt.Sprintf("Lchown %s %d %d", name, uid, gid)
	r.notePath("Lchown", name)
	if err := r.enter(call); err != nil {
		return err
	}
	return r.chown(call, "lchown", name, uid, gid, false)
}

func (r *RefFS) Chown(name string, uid, gid int) error {
	call := fmt.Sprintf("Chown %s %d %d", name, uid, gid)
	r.notePath("Chown", name)
	if err := r.enter(call); err != nil {
		return err
	}
	return r.chown(call, "chown", name, uid, gid, true)
}

func (r *RefFS) chown(call, op, name string, uid, gid int, follow bool) error {
	r.mu.Lock()
	n, _, _, _, e := r.resolve(name, follow)
	if e == 0 {
		n.uid, n.gid = uid, gid
	}
	r.mu.Unlock()
	var err error
	if e != 0 {
		err = perr(op, name, e)
	}
	r.record(call, err)
	return err
}

// ---- Filer ----

func (r *RefFS) Mkdir(name string, perm os.FileMode) error {
	call := fmt.Sprintf("Mkdir %s %o", name, uint32(perm))
	r.notePath("Mkdir", name)
	if err := r.enter(call); err != nil {
		return err
	}
	r.mu.Lock()
	n, par, nm, _, e := r.resolve(name, false)
	switch {
	case e == 0 && n != nil:
		e = syscall.EEXIST
	case e == syscall.ENOENT && par != nil:
		e = 0
		par.children[nm] = &rnode{kind: kDir, perm: perm & 0o7777 & os.ModePerm, children: map[string]*rnode{}, ino: r.nextIno, mtime: r.now()}
		r.nextIno++
		par.mtime = r.now()
	}
	r.mu.Unlock()
	var err error
	if e != 0 {
		err = perr("mkdir", name, e)
	}
	r.record(call, err)
	return err
}

func (r *RefFS) Remove(name string) error {
	call := "Remove " + name
	r.notePath("Remove", name)
	if err := r.enter(call); err != nil {
		return err
	}
	r.mu.Lock()
	n, par, nm, _, e := r.resolve(name, false)
	if e == 0 {
		switch {
		case par == nil:
			e = syscall.EINVAL // the root
		case n.kind == kDir && len(n.children) > 0:
			e = syscall.ENOTEMPTY
		default:
			delete(par.children, nm)
			par.mtime = r.now()
		}
	}
	r.mu.Unlock()
	var err error
	if e != 0 {
		err = perr("remove", name, e)
	}
	r.record(call, err)
	return err
}

func isAncestor(a, n *rnode) bool { // is a == n or an ancestor of n's subtree containing... (search)
	if a == n {
		return true
	}
	if a.kind != kDir {
		return false
	}
	for _, c := range a.children {
		if isAncestor(c, n) {
			return true
		}
	}
	return false
}

func (r *RefFS) Rename(oldpath, newpath string) error {
	call := fmt.Sprintf("Rename %s %s", oldpath, newpath)
	r.notePath("Rename", oldpath)
	r.notePath("Rename", newpath)
	if err := r.enter(call); err != nil {
		return err
	}
	r.mu.Lock()
	e := r.renameLocked(oldpath, newpath)
	r.mu.Unlock()
	var err error
	if e != 0 {
		err = &os.LinkError{Op: "rename", Old: oldpath, New: newpath, Err: e}
	}
	r.record(call, err)
	return err
}

func (r *RefFS) renameLocked(oldpath, newpath string) syscall.Errno {
	on, opar, onm, _, e := r.resolve(oldpath, false)
	if e != 0 {
		return e
	}
	if opar == nil {
		return syscall.EINVAL
	}
	nn, npar, nnm, _, e2 := r.resolve(newpath, false)
	if e2 != 0 && !(e2 == syscall.ENOENT && npar != nil) {
		return e2
	}
	if e2 == 0 && npar == nil {
		return syscall.EINVAL // onto the root
	}
	if nn == on {
		return 0
	}
	if on.kind == kDir && isAncestor(on, npar) {
		return syscall.EINVAL
	}
	if nn != nil {
		switch {
		case on.kind == kDir && nn.kind != kDir:
			return syscall.ENOTDIR
		case on.kind != kDir && nn.kind == kDir:
			return syscall.EISDIR
		case on.kind == kDir && len(nn.children) > 0:
			return syscall.ENOTEMPTY
		}
	}
	delete(opar.children, onm)
	npar.children[nnm] = on
	opar.mtime = r.now()
	npar.mtime = r.now()
	return 0
}

func (r *RefFS) Chmod(name string, mode os.FileMode) error {
	call := fmt.Sprintf("Chmod %s %o", name, uint32(mode))
	r.notePath("Chmod", name)
	if err := r.enter(call); err != nil {
		return err
	}
	r.mu.Lock()
	n, _, _, _, e := r.resolve(name, true)
	if e == 0 {
		n.perm = mode & os.ModePerm
	}
	r.mu.Unlock()
	var err error
	if e != 0 {
		err = perr("chmod", name, e)
	}
	r.record(call, err)
	return err
}

func (r *RefFS) Chtimes(name string, atime, mtime time.Time) error {
	call := "Chtimes " + name
	r.notePath("Chtimes", name)
	if err := r.enter(call); err != nil {
		return err
	}
	r.mu.Lock()
	n, _, _, _, e := r.resolve(name, true)
	if e == 0 {
		n.mtime = mtime
	}
	r.mu.Unlock()
	var err error
	if e != 0 {
		err = perr("chtimes", name, e)
	}
	r.record(call, err)
	return err
}

func (r *RefFS) truncNode(n *rnode, size int64) syscall.Errno {
	switch {
	case n.kind == kDir:
		return syscall.EISDIR
	case n.kind != kFile:
		return syscall.EINVAL
	case size < 0:
		return syscall.EINVAL
	case size > r.maxSize:
		return syscall.EFBIG
	}
	if int64(len(n.data)) == size {
		return 0
	}
	if size < int64(len(n.data)) {
		n.data = n.data[:size:size]
	} else {
		n.data = append(n.data, make([]byte, size-int64(len(n.data)))...)
	}
	n.synced = false
	n.mtime = r.now()
	return 0
}

func (r *RefFS) Truncate(name string, size int64) error {
	call := fmt.Sprintf("Truncate %s %d", name, size)
	r.notePath("Truncate", name)
	if err := r.enter(call); err != nil {
		return err
	}
	r.mu.Lock()
	n, _, _, _, e := r.resolve(name, true)
	if e == 0 {
		e = r.truncNode(n, size)
	}
	r.mu.Unlock()
	var err error
	if e != 0 {
		err = perr("truncate", name, e)
	}
	r.record(call, err)
	return err
}

func (r *RefFS) OpenFile(name string, flag int, perm os.FileMode) (absfs.File, error) {
	op := "OpenFile"
	if flag&(os.O_WRONLY|os.O_RDWR|os.O_CREATE|os.O_TRUNC|os.O_APPEND) != 0 {
		op = "OpenFileW"
	}
	call := fmt.Sprintf("%s %s %#x", op, name, flag)
	r.notePath(op, name)
	if err := r.enter(call); err != nil {
		return nil, err
	}
	r.mu.Lock()
	n, par, nm, final, e := r.resolve(name, true)
	if e == syscall.ENOENT && par != nil && flag&os.O_CREATE != 0 {
		n = &rnode{kind: kFile, perm: perm & os.ModePerm, ino: r.nextIno, mtime: r.now(), synced: false}
		r.nextIno++
		par.children[nm] = n
		par.mtime = r.now()
		e = 0
	} else if e == 0 && flag&os.O_CREATE != 0 && flag&os.O_EXCL != 0 {
		e = syscall.EEXIST
	}
	if e == 0 && n.kind == kDir && flag&(os.O_WRONLY|os.O_RDWR|os.O_TRUNC) != 0 {
		e = syscall.EISDIR
	}
	if e == 0 && n.kind == kFile && flag&os.O_TRUNC != 0 {
		e = r.truncNode(n, 0)
	}
	r.mu.Unlock()
	if e != 0 {
		err := perr("open", name, e)
		r.record(call, err)
		return nil, err
	}
	r.record(call, nil)
	return &rfile{fs: r, n: n, name: final, flag: flag}, nil
}

func (r *RefFS) ReadDir(name string) ([]fs.DirEntry, error) {
	f, err := r.OpenFile(name, os.O_RDONLY, 0)
	if err != nil {
		return nil, err
	}
	defer f.Close()
	return f.ReadDir(-1)
}

func (r *RefFS) ReadFile(name string) ([]byte, error) {
	r.mu.Lock()
	defer r.mu.Unlock()
	n, _, _, _, e := r.resolve(name, true)
	if e != 0 {
		return nil, perr("readfile", name, e)
	}
	if n.kind != kFile {
		return nil, perr("readfile", name, syscall.EISDIR)
	}
	return append([]byte(nil), n.data...), nil
}

func (r *RefFS) Sub(dir string) (fs.FS, error) { return nil, absfs.ErrNotImplemented }

// ---- FileSystem ----

func (r *RefFS) Chdir(dir string) error               { return nil }
func (r *RefFS) Getwd() (string, error)               { return "/", nil }
func (r *RefFS) TempDir() string                      { return "/tmp" }
func (r *RefFS) Open(name string) (absfs.File, error) { return r.OpenFile(name, os.O_RDONLY, 0) }
func (r *RefFS) Create(name string) (absfs.File, error) {
	call := "Create " + name
	r.notePath("Create", name)
	if g := r.gate; g != nil {
		g(call)
	}
	if r.fault != nil {
		if err := r.fault(call); err != nil {
			r.record(call, err)
			return nil, err
		}
	}
	r.record(call, nil)
	return r.OpenFile(name, os.O_RDWR|os.O_CREATE|os.O_TRUNC, 0o666)
}
func (r *RefFS) MkdirAll(name string, perm os.FileMode) error {
	comps, _ := splitPath(name)
	p := ""
	for _, c := range comps {
		p += "/" + c
		if err := r.Mkdir(p, perm); err != nil && !errors.Is(err, syscall.EEXIST) {
			return err
		}
	}
	return nil
}
func (r *RefFS) RemoveAll(p string) error { return absfs.ErrNotImplemented }

// ---- files ----

type rfile struct {
	fs   *RefFS
	n    *rnode
	name string
	flag int
	pos  int64
}

func (f *rfile) Name() string { return f.name }
func (f *rfile) Close() error {
	f.fs.record("Close "+f.name, nil)
	return nil
}
func (f *rfile) Sync() error {
	call := "Sync " + f.name
	if err := f.fs.enter(call); err != nil {
		return err
	}
	f.fs.mu.Lock()
	if f.n.kind == kFile {
		f.n.durable = append([]byte(nil), f.n.data...)
		f.n.synced = true
	}
	f.fs.mu.Unlock()
	f.fs.record(call, nil)
	return nil
}
func (f *rfile) Stat() (os.FileInfo, error) {
	f.fs.mu.Lock()
	defer f.fs.mu.Unlock()
	return infoOf(baseName(f.name), f.n), nil
}
func (f *rfile) Read(p []byte) (int, error) {
	n, err := f.ReadAt(p, f.pos)
	f.pos += int64(n)
	return n, err
}
func (f *rfile) ReadAt(p []byte, off int64) (int, error) {
	call := fmt.Sprintf("ReadAt %s %d %d", f.name, off, len(p))
	if err := f.fs.enter(call); err != nil {
		return 0, err
	}
	f.fs.mu.Lock()
	defer f.fs.mu.Unlock()
	if f.n.kind != kFile {
		return 0, perr("read", f.name, syscall.EISDIR)
	}
	if off < 0 {
		return 0, perr("read", f.name, syscall.EINVAL)
	}
	if off >= int64(len(f.n.data)) {
		return 0, io.EOF
	}
	n := copy(p, f.n.data[off:])
	if n < len(p) {
		return n, io.EOF
	}
	return n, nil
}
func (f *rfile) Write(p []byte) (int, error) {
	n, err := f.WriteAt(p, f.pos)
	f.pos += int64(n)
	return n, err
}
func (f *rfile) WriteAt(p []byte, off int64) (int, error) {
	call := fmt.Sprintf("WriteAt %s %d %d", f.name, off, len(p))
	if err := f.fs.enter(call); err != nil {
		return 0, err
	}
	f.fs.mu.Lock()
	var e syscall.Errno
	switch {
	case f.flag&(os.O_WRONLY|os.O_RDWR) == 0:
		e = syscall.EBADF
	case f.n.kind != kFile:
		e = syscall.EISDIR
	case off < 0:
		e = syscall.EINVAL
	case len(p) == 0:
	case off > f.fs.maxSize || off+int64(len(p)) > f.fs.maxSize:
		e = syscall.EFBIG
	default:
		end := off + int64(len(p))
		if end > int64(len(f.n.data)) {
			f.n.data = append(f.n.data, make([]byte, end-int64(len(f.n.data)))...)
		}
		copy(f.n.data[off:], p)
		f.n.synced = false
		f.n.mtime = f.fs.now()
	}
	f.fs.mu.Unlock()
	if e != 0 {
		err := perr("write", f.name, e)
		f.fs.record(call, err)
		return 0, err
	}
	f.fs.record(call, nil)
	return len(p), nil
}
func (f *rfile) WriteString(s string) (int, error) { return f.Write([]byte(s)) }
func (f *rfile) Seek(offset int64, whence int) (int64, error) {
	switch whence {
	case io.SeekStart:
		f.pos = offset
	case io.SeekCurrent:
		f.pos += offset
	case io.SeekEnd:
		f.fs.mu.Lock()
		f.pos = int64(len(f.n.data)) + offset
		f.fs.mu.Unlock()
	}
	return f.pos, nil
}
func (f *rfile) Truncate(size int64) error {
	call := fmt.Sprintf("FTruncate %s %d", f.name, size)
	if err := f.fs.enter(call); err != nil {
		return err
	}
	f.fs.mu.Lock()
	e := f.fs.truncNode(f.n, size)
	f.fs.mu.Unlock()
	var err error
	if e != 0 {
		err = perr("truncate", f.name, e)
	}
	f.fs.record(call, err)
	return err
}
func (f *rfile) Readdir(n int) ([]os.FileInfo, error) {
	call := "Readdir " + f.name
	if err := f.fs.enter(call); err != nil {
		return nil, err
	}
	f.fs.mu.Lock()
	defer f.fs.mu.Unlock()
	if f.n.kind != kDir {
		err := perr("readdir", f.name, syscall.ENOTDIR)
		return nil, err
	}
	names := make([]string, 0, len(f.n.children))
	for k := range f.n.children {
		names = append(names, k)
	}
	sort.Strings(names)
	out := make([]os.FileInfo, 0, len(names))
	for _, k := range names {
		out = append(out, infoOf(k, f.n.children[k]))
	}
	if n > 0 && len(out) > n {
		out = out[:n]
	}
	return out, nil
}
func (f *rfile) Readdirnames(n int) ([]string, error) {
	l, err := f.Readdir(n)
	if err != nil {
		return nil, err
	}
	out := make([]string, len(l))
	for i, x := range l {
		out[i] = x.Name()
	}
	return out, nil
}
func (f *rfile) ReadDir(n int) ([]fs.DirEntry, error) {
	l, err := f.Readdir(n)
	if err != nil {
		return nil, err
	}
	out := make([]fs.DirEntry, len(l))
	for i, x := range l {
		out[i] = x.(*rinfo)
	}
	return out, nil
}

// ---- crash simulation (C22) ----

// Crash discards everything not yet synced: every regular file reverts to its durable contents.
func (r *RefFS) Crash() {
	r.mu.Lock()
	defer r.mu.Unlock()
	var rec func(n *rnode)
	rec = func(n *rnode) {
		switch n.kind {
		case kFile:
			n.data = append([]byte(nil), n.durable...)
			n.synced = true
		case kDir:
			for _, c := range n.children {
				rec(c)
			}
		}
	}
	rec(r.root)
}

// Dump renders the whole tree canonically (sorted), for comparison with the model and across runs.
// withData includes file contents in hex.
func (r *RefFS) Dump(withData bool) string {
	r.mu.Lock()
	defer r.mu.Unlock()
	var sb strings.Builder
	var rec func(p string, n *rnode)
	rec = func(p string, n *rnode) {
		switch n.kind {
		case kDir:
			fmt.Fprintf(&sb, "d:%s:%o:%d:%d;", p, uint32(n.perm), n.uid, n.gid)
			names := make([]string, 0, len(n.children))
			for k := range n.children {
				names = append(names, k)
			}
			sort.Strings(names)
			for _, k := range names {
				cp := p + "/" + k
				if p == "/" {
					cp = "/" + k
				}
				rec(cp, n.children[k])
			}
		case kFile:
			if withData {
				fmt.Fprintf(&sb, "f:%s:%o:%d:%d:%s;", p, uint32(n.perm), n.uid, n.gid, hx(n.data))
			} else {
				fmt.Fprintf(&sb, "f:%s:%o:%d:%d:%d;", p, uint32(n.perm), n.uid, n.gid, len(n.data))
			}
		case kLink:
			fmt.Fprintf(&sb, "l:%s:%s;", p, hx([]byte(n.target)))
		}
	}
	rec("/", r.root)
	return sb.String()
}

// FileData returns the current contents of the regular file at p (no symlink following).
func (r *RefFS) FileData(p string) ([]byte, bool) {
	r.mu.Lock()
	defer r.mu.Unlock()
	n, _, _, _, e := r.resolve(p, false)
	if e != 0 || n.kind != kFile {
		return nil, false
	}
	return append([]byte(nil), n.data...), true
}

var _ absfs.SymlinkFileSystem = (*RefFS)(nil)

// Clone returns a deep copy of the tree (no instrumentation, log off): used as the POSIX shadow by oracles.
func (r *RefFS) Clone() *RefFS {
	r.mu.Lock()
	defer r.mu.Unlock()
	c := &RefFS{nextIno: r.nextIno, tick: r.tick, maxSize: r.maxSize, logOn: false}
	var cp func(n *rnode) *rnode
	cp = func(n *rnode) *rnode {
		m := *n
		m.data = append([]byte(nil), n.data...)
		m.durable = append([]byte(nil), n.durable...)
		if n.children != nil {
			m.children = map[string]*rnode{}
			for k, v := range n.children {
				m.children[k] = cp(v)
			}
		}
		return &m
	}
	c.root = cp(r.root)
	return c
}

// TreeSig renders names, kinds, file contents and link targets only (no modes, owners or times).
func (r *RefFS) TreeSig() string {
	r.mu.Lock()
	defer r.mu.Unlock()
	var sb strings.Builder
	var rec func(p string, n *rnode)
	rec = func(p string, n *rnode) {
		switch n.kind {
		case kDir:
			fmt.Fprintf(&sb, "d:%s;", p)
			names := make([]string, 0, len(n.children))
			for k := range n.children {
				names = append(names, k)
			}
			sort.Strings(names)
			for _, k := range names {
				cp := p + "/" + k
				if p == "/" {
					cp = "/" + k
				}
				rec(cp, n.children[k])
			}
		case kFile:
			fmt.Fprintf(&sb, "f:%s:%s;", p, hx(n.data))
		case kLink:
			fmt.Fprintf(&sb, "l:%s:%s;", p, n.target)
		}
	}
	rec("/", r.root)
	return sb.String()
}

// DurableData returns what a crash right now would leave of the regular file at p.
func (r *RefFS) DurableData(p string) ([]byte, bool) {
	r.mu.Lock()
	defer r.mu.Unlock()
	n, _, _, _, e := r.resolve(p, false)
	if e != 0 || n.kind != kFile {
		return nil, false
	}
	return append([]byte(nil), n.durable...), true
}

// DumpHex is Dump(true) with every path hex-encoded (safe for any byte in a name).
func (r *RefFS) DumpHex() string {
	r.mu.Lock()
	defer r.mu.Unlock()
	var sb strings.Builder
	var rec func(p string, n *rnode)
	rec = func(p string, n *rnode) {
		switch n.kind {
		case kDir:
			fmt.Fprintf(&sb, "d:%s:%o:%d:%d;", hx([]byte(p)), uint32(n.perm), n.uid, n.gid)
			names := make([]string, 0, len(n.children))
			for k := range n.children {
				names = append(names, k)
			}
			sort.Strings(names)
			for _, k := range names {
				cp := p + "/" + k
				if p == "/" {
					cp = "/" + k
				}
				rec(cp, n.children[k])
			}
		case kFile:
			fmt.Fprintf(&sb, "f:%s:%o:%d:%d:%s;", hx([]byte(p)), uint32(n.perm), n.uid, n.gid, hx(n.data))
		case kLink:
			fmt.Fprintf(&sb, "l:%s:%s;", hx([]byte(p)), hx([]byte(n.target)))
		}
	}
	rec("/", r.root)
	return sb.String()
}

// Peek is Lstat without logging, gates or faults (for oracles).
func (r *RefFS) Peek(p string) (os.FileInfo, error) {
	r.mu.Lock()
	defer r.mu.Unlock()
	n, _, _, _, e := r.resolve(p, false)
	if e != 0 {
		return nil, perr("lstat", p, e)
	}
	return infoOf(baseName(p), n), nil
}
