package main

// C24 — runtime reconfiguration: random sequences of UpdateExportOptions / UpdateTuningOptions /
// UpdatePolicyOptions with arbitrary (zero, negative, partially filled, nil-pointer) values on a real
// AbsfsNFS, compared with the Lean `Config` model through GetExportOptions, and an oracle from the property:
// positive sizes/timeouts, READ/WRITE/LOOKUP still served, rejected update changes nothing.

import (
	"fmt"
	"math/rand"
	"runtime"
	"strconv"
	"strings"
	"time"

	"github.com/absfs/absnfs"
)

func init() {
	checks["C24"] = checkC24
	replays["C24"] = opsReplay("config", runCfgOps, func(r *Result, ops, impl []string) { cfgOracle(r, ops, impl) })
}

var numFields = []string{"TransferSize", "AttrCacheTimeout", "AttrCacheSize", "NegativeCacheTimeout", "DirCacheTimeout", "DirCacheMaxEntries",
	"DirCacheMaxDirSize", "MaxWorkers", "MaxConnections", "IdleTimeout", "SendBufferSize", "ReceiveBufferSize"}

func parseIntList(s string) []int64 {
	var out []int64
	for _, x := range strings.Split(s, ",") {
		v, _ := strconv.ParseInt(x, 10, 64)
		out = append(out, v)
	}
	return out
}

func setNum(o *absnfs.ExportOptions, n []int64) {
	o.TransferSize, o.AttrCacheTimeout, o.AttrCacheSize = int(n[0]), time.Duration(n[1]), int(n[2])
	o.NegativeCacheTimeout, o.DirCacheTimeout, o.DirCacheMaxEntries = time.Duration(n[3]), time.Duration(n[4]), int(n[5])
	o.DirCacheMaxDirSize, o.MaxWorkers, o.MaxConnections, o.IdleTimeout = int(n[6]), int(n[7]), int(n[8]), time.Duration(n[9])
	o.SendBufferSize, o.ReceiveBufferSize = int(n[10]), int(n[11])
}

func tmoOf(s string) *absnfs.TimeoutConfig {
	if s == "nil" {
		return nil
	}
	n := parseIntList(s)
	return &absnfs.TimeoutConfig{ReadTimeout: time.Duration(n[0]), WriteTimeout: time.Duration(n[1]), LookupTimeout: time.Duration(n[2]), ReaddirTimeout: time.Duration(n[3]),
		CreateTimeout: time.Duration(n[4]), RemoveTimeout: time.Duration(n[5]), RenameTimeout: time.Duration(n[6]), HandleTimeout: time.Duration(n[7]), DefaultTimeout: time.Duration(n[8])}
}

func setFlags(o *absnfs.ExportOptions, f string) {
	o.CacheNegativeLookups, o.EnableDirCache, o.TCPKeepAlive, o.TCPNoDelay, o.Async = f[0] == '1', f[1] == '1', f[2] == '1', f[3] == '1', f[4] == '1'
}

func rlOf(s string) *absnfs.RateLimiterConfig {
	if s == "nil" {
		return nil
	}
	v, _ := strconv.Atoi(s)
	c := absnfs.DefaultRateLimiterConfig()
	c.GlobalRequestsPerSecond = v
	return &c
}

func allowedOf(s string) []string {
	n, _ := strconv.Atoi(s)
	var l []string
	for i := 0; i < n; i++ {
		l = append(l, fmt.Sprintf("10.0.0.%d", i+1))
	}
	return l
}

func setPolicy(o *absnfs.ExportOptions, f []string) {
	o.ReadOnly, o.Secure, o.Squash = f[0] == "1", f[1] == "1", string(unhx(f[2]))
	o.MaxFileSize, _ = strconv.ParseInt(f[3], 10, 64)
	o.EnableRateLimiting = f[4] == "1"
	o.RateLimitConfig = rlOf(f[5])
	o.AllowedIPs = allowedOf(f[6])
}

func dumpCfg(n *absnfs.AbsfsNFS) string {
	o := n.GetExportOptions()
	num := []int64{int64(o.TransferSize), int64(o.AttrCacheTimeout), int64(o.AttrCacheSize), int64(o.NegativeCacheTimeout), int64(o.DirCacheTimeout), int64(o.DirCacheMaxEntries),
		int64(o.DirCacheMaxDirSize), int64(o.MaxWorkers), int64(o.MaxConnections), int64(o.IdleTimeout), int64(o.SendBufferSize), int64(o.ReceiveBufferSize)}
	ns := make([]string, len(num))
	for i, v := range num {
		ns[i] = fmt.Sprint(v)
	}
	tm := "nil"
	if t := o.Timeouts; t != nil {
		tm = fmt.Sprintf("%d,%d,%d,%d,%d,%d,%d,%d,%d", t.ReadTimeout, t.WriteTimeout, t.LookupTimeout, t.ReaddirTimeout, t.CreateTimeout, t.RemoveTimeout, t.RenameTimeout, t.HandleTimeout, t.DefaultTimeout)
	}
	b := func(x bool) string {
		if x {
			return "1"
		}
		return "0"
	}
	rl := "nil"
	if o.RateLimitConfig != nil {
		rl = fmt.Sprint(o.RateLimitConfig.GlobalRequestsPerSecond)
	}
	return fmt.Sprintf("num=%s tmo=%s flags=%s ro=%s sec=%s squash=%s maxfs=%d rl=%s rlcfg=%s allowed=%d", strings.Join(ns, ","), tm,
		b(o.CacheNegativeLookups)+b(o.EnableDirCache)+b(o.TCPKeepAlive)+b(o.TCPNoDelay)+b(o.Async), b(o.ReadOnly), b(o.Secure), hx([]byte(o.Squash)), o.MaxFileSize, b(o.EnableRateLimiting), rl, len(o.AllowedIPs))
}

// reported-vs-in-force differences seen by the last runCfgOps (index of the `cfg get` op, description)
type cfgDiff struct {
	at   int
	what string
}

var cfgNotInForce []cfgDiff

var cfgSrv *Srv // the server of the case being run (used by the oracle's I/O probe)

func runCfgOps(ops []string) []string {
	cfgNotInForce = nil
	out := make([]string, len(ops))
	var n *absnfs.AbsfsNFS
	defer func() {
		if n != nil {
			n.Close()
		}
	}()
	for i, op := range ops {
		f := strings.Fields(op)
		switch f[1] {
		case "new":
			if n != nil {
				n.Close()
			}
			var o absnfs.ExportOptions
			setNum(&o, parseIntList(f[3]))
			o.Timeouts = tmoOf(f[4])
			setFlags(&o, f[5])
			setPolicy(&o, f[6:13])
			fs := NewRefFS()
			fl, _ := fs.Create("/f")
			fl.Write([]byte("0123456789"))
			fl.Close()
			var err error
			n, err = absnfs.New(fs, o)
			if err != nil {
				n = nil
				out[i] = "error"
			} else {
				out[i] = "ok"
			}
		case "get":
			if n == nil {
				out[i] = "none"
			} else {
				out[i] = dumpCfg(n)
				// the components work with what is reported
				{
					o := n.GetExportOptions()
					am, at, dm, dt, wk := absnfs.VerifInForce(n)
					var diff []string
					if am != o.AttrCacheSize {
						diff = append(diff, fmt.Sprintf("AttrCacheSize reported %d, attribute cache holds at most %d", o.AttrCacheSize, am))
					}
					if at != o.AttrCacheTimeout {
						diff = append(diff, fmt.Sprintf("AttrCacheTimeout reported %v, attribute cache uses %v", o.AttrCacheTimeout, at))
					}
					if o.EnableDirCache && dm != 0 && dm != o.DirCacheMaxEntries {
						diff = append(diff, fmt.Sprintf("DirCacheMaxEntries reported %d, directory cache holds at most %d", o.DirCacheMaxEntries, dm))
					}
					if o.EnableDirCache && dm != 0 && dt != o.DirCacheTimeout {
						diff = append(diff, fmt.Sprintf("DirCacheTimeout reported %v, directory cache uses %v", o.DirCacheTimeout, dt))
					}
					if wk != 0 && wk != o.MaxWorkers {
						diff = append(diff, fmt.Sprintf("MaxWorkers reported %d, the pool runs %d", o.MaxWorkers, wk))
					}
					if len(diff) > 0 {
						cfgNotInForce = append(cfgNotInForce, cfgDiff{at: i, what: strings.Join(diff, "; ")})
					}
				}
				// what GetExportOptions hands out is the caller's: scribbling over it must not reach the live configuration
				o := n.GetExportOptions()
				if o.Timeouts != nil {
					*o.Timeouts = absnfs.TimeoutConfig{ReadTimeout: -7, WriteTimeout: -7, LookupTimeout: -7, ReaddirTimeout: -7, CreateTimeout: -7,
						RemoveTimeout: -7, RenameTimeout: -7, HandleTimeout: -7, DefaultTimeout: -7}
				}
				for k := range o.AllowedIPs {
					o.AllowedIPs[k] = "203.0.113.77"
				}
				if o.RateLimitConfig != nil {
					o.RateLimitConfig.GlobalRequestsPerSecond, o.RateLimitConfig.PerIPRequestsPerSecond = -3, -3
				}
				if o.Log != nil {
					o.Log.Level = "scribbled"
				}
				if again := dumpCfg(n); again != out[i] {
					out[i] = "aliased: {" + out[i] + "} became {" + again + "} after the caller changed its copy"
				}
			}
		case "probe": // not sent to the model: READ/WRITE/LOOKUP through the real handlers
			out[i] = probeIO(n)
		case "tuning":
			if n == nil {
				out[i] = "bad-op"
				continue
			}
			var o absnfs.ExportOptions
			setNum(&o, parseIntList(f[2]))
			o.Timeouts = tmoOf(f[3])
			setFlags(&o, f[4])
			n.UpdateTuningOptions(func(t *absnfs.TuningOptions) {
				t.TransferSize, t.AttrCacheTimeout, t.AttrCacheSize, t.NegativeCacheTimeout = o.TransferSize, o.AttrCacheTimeout, o.AttrCacheSize, o.NegativeCacheTimeout
				t.DirCacheTimeout, t.DirCacheMaxEntries, t.DirCacheMaxDirSize, t.MaxWorkers = o.DirCacheTimeout, o.DirCacheMaxEntries, o.DirCacheMaxDirSize, o.MaxWorkers
				t.MaxConnections, t.IdleTimeout, t.SendBufferSize, t.ReceiveBufferSize = o.MaxConnections, o.IdleTimeout, o.SendBufferSize, o.ReceiveBufferSize
				t.CacheNegativeLookups, t.EnableDirCache, t.TCPKeepAlive, t.TCPNoDelay, t.Async = o.CacheNegativeLookups, o.EnableDirCache, o.TCPKeepAlive, o.TCPNoDelay, o.Async
				t.Timeouts = o.Timeouts
			})
			out[i] = "ok"
		case "policy":
			if n == nil {
				out[i] = "bad-op"
				continue
			}
			var o absnfs.ExportOptions
			setPolicy(&o, f[2:9])
			err, hung := returnsInTime(func() error {
				return n.UpdatePolicyOptions(absnfs.PolicyOptions{ReadOnly: o.ReadOnly, Secure: o.Secure, Squash: o.Squash, MaxFileSize: o.MaxFileSize,
					EnableRateLimiting: o.EnableRateLimiting, RateLimitConfig: o.RateLimitConfig, AllowedIPs: o.AllowedIPs})
			})
			if hung {
				out[i] = "hung"
				for j := i + 1; j < len(ops); j++ {
					out[j] = "skipped"
				}
				n = nil // its locks are in an unknown state: leave it alone
				return out
			}
			if err != nil {
				out[i] = "rejected"
			} else {
				out[i] = "ok"
			}
		case "export":
			if n == nil {
				out[i] = "bad-op"
				continue
			}
			var o absnfs.ExportOptions
			setNum(&o, parseIntList(f[2]))
			o.Timeouts = tmoOf(f[3])
			setFlags(&o, f[4])
			setPolicy(&o, f[5:12])
			err, hung := returnsInTime(func() error { return n.UpdateExportOptions(o) })
			if hung {
				out[i] = "hung"
				for j := i + 1; j < len(ops); j++ {
					out[j] = "skipped"
				}
				n = nil // its locks are in an unknown state: leave it alone
				return out
			}
			if err != nil {
				out[i] = "rejected"
			} else {
				out[i] = "ok"
			}
		default:
			out[i] = "bad-op"
		}
	}
	return out
}

// probeIO: READ returns the 10 bytes, LOOKUP finds the file (through real handlers, generous wall-clock limit)
func probeIO(n *absnfs.AbsfsNFS) (res string) {
	if n == nil {
		return "none"
	}
	defer func() {
		if e := recover(); e != nil {
			res = fmt.Sprint("panic: ", e)
		}
	}()
	h, _ := absnfs.VerifNewProcHandler(n, false)
	s := &Srv{NFS: n, H: h, IP: "10.0.0.1", Port: 700}
	done := make(chan string, 1)
	go func() {
		defer func() {
			if e := recover(); e != nil {
				done <- fmt.Sprint("panic: ", e)
			}
		}()
		root, st := s.Mount("/")
		if st != 0 {
			done <- fmt.Sprintf("mount-status-%d", st)
			return
		}
		fhd, st := s.Lookup(root, "f", rootCred())
		if st != 0 {
			done <- fmt.Sprintf("lookup-status-%d", st)
			return
		}
		rep := s.NFSCall(6, rootCred(), cat(fh(fhd), u64(0), u32(10)))
		if rep.Err != nil || status(rep) != 0 || len(rep.Data) < 100 {
			done <- fmt.Sprintf("read-failed-%v-%d", rep.Err, status(rep))
			return
		}
		cnt := be32(rep.Data[92:])
		done <- fmt.Sprintf("read-%d", cnt)
	}()
	select {
	case r := <-done:
		return r
	case <-time.After(5 * time.Second):
		return "timeout"
	}
}

func be32(b []byte) uint32 { return uint32(b[0])<<24 | uint32(b[1])<<16 | uint32(b[2])<<8 | uint32(b[3]) }

// cfgOracle: positivity, serviceability, all-or-nothing, stated on the real outputs only.
func cfgOracle(r *Result, ops, impl []string) {
	for i, l := range impl {
		if l == "hung" {
			r.violate(Violation{Class: "C24/update-never-returned", What: "with no request in flight, " + strings.Fields(ops[i])[1] + " update did not return within 5 s (a lock an earlier, possibly rejected, update left held)", Ops: ops[:i+1]})
			return
		}
	}
	pre := func(i int) []string { return append([]string(nil), ops[:i+1]...) }
	for _, d := range cfgNotInForce {
		if d.at < len(ops) {
			r.violate(Violation{Class: "C24/reported-not-in-force", What: "GetExportOptions does not report the configuration in force: " + d.what, Ops: pre(d.at)})
			break
		}
	}
	lastGet := ""
	for i, op := range ops {
		if strings.HasPrefix(impl[i], "aliased:") {
			r.violate(Violation{Class: "C24/returned-options-alias-live-config", What: "GetExportOptions returned a structure that shares memory with the configuration in force: " + impl[i], Ops: pre(i)})
			continue
		}
		f := strings.Fields(op)
		switch f[1] {
		case "get":
			if impl[i] == "none" {
				continue
			}
			// all numeric and duration fields positive, timeouts present and positive
			for _, part := range strings.Fields(impl[i]) {
				k, v, _ := strings.Cut(part, "=")
				if k == "num" || k == "tmo" {
					if v == "nil" {
						r.violate(Violation{Class: "C24/unserviceable-config", What: "Timeouts is nil after a runtime update", Ops: pre(i)})
						continue
					}
					for j, x := range parseIntList(v) {
						if x <= 0 {
							name := fmt.Sprint(k, "[", j, "]")
							if k == "num" {
								name = numFields[j]
							}
							r.violate(Violation{Class: "C24/unserviceable-config", What: fmt.Sprintf("%s = %d after a runtime update (zero/negative fields must take the construction default)", name, x), Ops: pre(i)})
						}
					}
				}
			}
			// a rejected update must leave everything as it was
			if i >= 2 && impl[i-1] == "rejected" && lastGet != "" && impl[i] != lastGet {
				r.violate(Violation{Class: "C24/rejected-update-applied", What: fmt.Sprintf("a rejected update changed the configuration from {%s} to {%s}", lastGet, impl[i]), Ops: pre(i)})
			}
			lastGet = impl[i]
		case "probe":
			var k int
			if _, err := fmt.Sscanf(impl[i], "read-%d", &k); (err != nil || k < 1) && impl[i] != "none" {
				r.violate(Violation{Class: "C24/unserviceable-io", What: "after the update sequence LOOKUP + READ of a 10-byte file gave " + impl[i], Ops: pre(i)})
			}
		case "new":
			lastGet = ""
		}
	}
}

func genCfgCase(rng *rand.Rand, n int) []string {
	cpu := runtime.NumCPU()
	val := func(def int64) int64 {
		switch rng.Intn(5) {
		case 0:
			return 0
		case 1:
			return -int64(1 + rng.Intn(5))
		case 2:
			return def
		}
		return []int64{1, 2, 3, 8, 4096, 1000000000}[rng.Intn(6)]
	}
	numStr := func(allZero bool) string {
		defs := []int64{65536, 5e9, 10000, 5e9, 10e9, 1000, 10000, 8, 100, 300e9, 262144, 262144}
		parts := make([]string, 12)
		for i, d := range defs {
			v := val(d)
			if allZero {
				v = 0
			}
			if i == 7 && v > 64 {
				v = 3 // keep worker pools small
			}
			parts[i] = fmt.Sprint(v)
		}
		return strings.Join(parts, ",")
	}
	tmoStr := func() string {
		if rng.Intn(3) == 0 {
			return "nil"
		}
		parts := make([]string, 9)
		for i := range parts {
			v := val(30e9)
			if v > 0 && v < 1000000000 {
				v = 2000000000 // keep real timeouts generous: the probe does real I/O
			}
			parts[i] = fmt.Sprint(v)
		}
		return strings.Join(parts, ",")
	}
	flags := func() string {
		s := ""
		for i := 0; i < 5; i++ {
			s += fmt.Sprint(rng.Intn(2))
		}
		return s
	}
	squashes := []string{"", "root", "all", "none"}
	cur := squashes[rng.Intn(4)]
	pol := func(sq string) string {
		rl := "nil"
		if rng.Intn(2) == 0 {
			rl = fmt.Sprint([]int{5, 77, 10000}[rng.Intn(3)])
		}
		// never switch on read-only / secure / allowed-IP filtering here: the probe must be able to do I/O
		return fmt.Sprintf("0 0 %s %d %d %s 0", hx([]byte(sq)), []int64{0, 100, -1}[rng.Intn(3)], rng.Intn(2), rl)
	}
	ops := []string{fmt.Sprintf("cfg new %d %s %s %s %s", cpu, numStr(rng.Intn(3) == 0), tmoStr(), flags(), pol(cur)), "cfg get"}
	for len(ops) < n {
		switch rng.Intn(4) {
		case 0:
			ops = append(ops, fmt.Sprintf("cfg tuning %s %s %s", numStr(rng.Intn(4) == 0), tmoStr(), flags()))
		case 1:
			sq := cur
			if rng.Intn(4) == 0 {
				sq = squashes[rng.Intn(4)]
			}
			ops = append(ops, "cfg policy "+pol(sq))
		default:
			sq := []string{"", cur}[rng.Intn(2)]
			if rng.Intn(4) == 0 {
				sq = squashes[1+rng.Intn(3)]
			}
			ops = append(ops, fmt.Sprintf("cfg export %s %s %s %s", numStr(rng.Intn(4) == 0), tmoStr(), flags(), pol(sq)))
		}
		ops = append(ops, "cfg get")
	}
	return ops
}

func checkC24(r *Result, rng *rand.Rand, thorough bool) {
	r.Rule = "sequences of UpdateExportOptions / UpdateTuningOptions / UpdatePolicyOptions on a real AbsfsNFS with zero, negative, default and small positive values per field, nil or partially filled Timeouts, nil RateLimitConfig, Squash kept / empty / changed; GetExportOptions is read after every call and a LOOKUP+READ probe through the real handlers ends every case; non-trivial = sequence contains a zero/negative field or a rejected update; distinct = distinct op sequences"
	ncases, n := 40, 16
	if thorough {
		ncases, n = 600, 30
	}
	var cases []Case
	var impl [][]string
	for i := 0; i < ncases; i++ {
		ops := genCfgCase(rng, n)
		full := append(append([]string(nil), ops...), "cfg probe")
		im := runCfgOps(full)
		cfgOracle(r, full, im)
		cases = append(cases, Case{Ops: ops})
		impl = append(impl, im[:len(ops)])
		r.noteCase(strings.Join(ops, ";"), true)
		r.count("probe=" + im[len(im)-1])
		for _, l := range im {
			if l == "rejected" {
				r.count("rejected")
			}
		}
		if i < 2 {
			r.sample(map[string]any{"ops": ops[:6], "impl": im[:6]})
		}
	}
	// recorded witnesses: the zero-valued update and the half-applied rejected update
	cpu := runtime.NumCPU()
	z := "0,0,0,0,0,0,0,0,0,0,0,0"
	w := []string{fmt.Sprintf("cfg new %d %s nil 00000 0 0 %s 0 0 nil 0", cpu, z, hx([]byte("root"))), "cfg get",
		"cfg export " + z + " nil 00000 0 0 - 0 0 nil 0", "cfg get",
		"cfg export 1234,0,0,0,0,0,0,0,0,0,0,0 nil 00000 0 0 " + hx([]byte("all")) + " 0 0 nil 0", "cfg get"}
	full := append(append([]string(nil), w...), "cfg probe")
	im := runCfgOps(full)
	cfgOracle(r, full, im)
	cases = append(cases, Case{Ops: w})
	impl = append(impl, im[:len(w)])
	r.noteCase(strings.Join(w, ";"), true)
	compareWithModel(r, "config", cases, impl, func(o []string) []string { return runCfgOps(o) })
}

// returnsInTime runs an update with nothing else going on: it has nothing to wait for, so not returning within
// 5 seconds means it never will (a lock left held by an earlier call)
func returnsInTime(fn func() error) (err error, hung bool) {
	done := make(chan error, 1)
	go func() { done <- fn() }()
	select {
	case err = <-done:
		return err, false
	case <-time.After(5 * time.Second):
		return nil, true
	}
}
