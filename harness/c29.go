package main

// C29 — concurrent requests are race-free and linearizable (for requests on distinct names sharing directories
// and handles, caches at minimal TTL). Several client goroutines send their own request streams through the
// real HandleCall at the same time, with random yields and delays injected inside every backend call. Each
// stream only names its own files, in shared directories; hence every serial order gives each stream the
// replies of its own solo run — which is what is compared — and the final tree is the union of the solo trees.
// Afterwards the handle table and the caches are compared with the backend. The thorough tier builds the
// harness with the race detector.

import (
	"bytes"
	"encoding/binary"
	"encoding/json"
	"fmt"
	"math/rand"
	"runtime"
	"sort"
	"strings"
	"sync"
	"sync/atomic"
	"time"

	"github.com/absfs/absnfs"
)

func init() {
	checks["C29"] = checkC29
	replays["C29"] = func(r *Result, raw json.RawMessage) {
		var rp struct {
			Case c29Case  `json:"case"`
			Ops  []string `json:"ops"`
		}
		if err := json.Unmarshal(raw, &rp); err != nil {
			r.Notes = append(r.Notes, "replay: "+err.Error())
			return
		}
		if len(rp.Ops) > 0 && rp.Ops[0] == "dir-cache-storm" {
			dirCacheStorm(r, 4*time.Second)
			return
		}
		if len(rp.Ops) > 0 && rp.Ops[0] == "minimal-ttl-storm" {
			minimalTTLStorm(r, 4*time.Second)
			return
		}
		if len(rp.Ops) > 0 && rp.Ops[0] == "completed-writes-then-read" {
			completedWritesThenRead(r, rand.New(rand.NewSource(7)), 3000)
			return
		}
		if len(rp.Case.Streams) == 0 {
			sameNameStorm(r, 12000) // the storm has no input: it is replayed as a whole
			return
		}
		for i := 0; i < 20; i++ {
			for _, v := range judgeC29(rp.Case, int64(i)) {
				v.Ops, v.Case = rp.Case.strings(), rp.Case
				r.violate(v)
			}
		}
		r.noteCase(fmt.Sprint(rp.Case.strings()), true)
	}
}

type c29Case struct {
	Cached  bool    `json:"cached"` // caches enabled (5s TTL, dir cache, negative cache) instead of minimal TTL
	Streams [][]SOp `json:"streams"`
}

func (c c29Case) strings() []string {
	out := []string{fmt.Sprintf("cached=%v", c.Cached)}
	for i, s := range c.Streams {
		for _, o := range s {
			out = append(out, fmt.Sprintf("T%d: %s", i, o.String()))
		}
	}
	return out
}

func c29World(cached bool) *World {
	fs := NewRefFS()
	seedFS(fs, []string{"mkdir /d"})
	cfg := SrvCfg{AttrTTL: time.Nanosecond}
	if cached {
		cfg = SrvCfg{AttrTTL: 5 * time.Second, DirCache: true, Neg: true}
	}
	w := newWorldOn(fs, cfg)
	w.noTrace = true
	// real time: a 1ns TTL is always expired. (Until the fifth session every call switched the virtual clock back on,
	// frozen at 0: "minimal TTL" entries then never expired, and a LOOKUP that stored its result after a concurrent
	// RENAME's invalidation — legal with caches enabled — looked like a serialisation failure. DESIGN §11.7.)
	w.realClock = true
	absnfs.VerifClockOff()
	return w
}

// ownSig: what a stream can be held to whatever the others do — status, data, and the attributes of its own objects.
func ownSig(o SOp, r SRes) string {
	if r.NoHandle {
		return "nohandle"
	}
	if r.Res.Bad {
		return "bad"
	}
	s := fmt.Sprintf("%s st=%d", o.Kind, r.Res.Status)
	a := func(x *Fattr) string {
		if x == nil {
			return "-"
		}
		return fmt.Sprintf("t%d s%d i%x", x.Type, x.Size, x.FileID)
	}
	switch o.Kind {
	case "lookup", "create", "mkdir", "symlink", "getattr", "readlink":
		s += " obj=" + a(r.Res.Obj)
		if o.Kind == "readlink" {
			s += " target=" + string(r.Res.Data)
		}
	case "read":
		s += fmt.Sprintf(" data=%x eof=%v obj=%s", r.Res.Data, r.Res.Eof, a(r.Res.Obj))
	case "write":
		s += fmt.Sprintf(" count=%d post=%s", r.Res.Count, a(r.Res.Wcc.Post))
	case "setattr":
		s += " post=" + a(r.Res.Wcc.Post)
	case "readdir", "readdirplus":
		var own []string
		for _, e := range r.Entries {
			if o.Name2 != "" && strings.HasPrefix(e.Name, o.Name2) {
				own = append(own, e.Name)
			}
		}
		sort.Strings(own)
		s += " own=" + strings.Join(own, ",")
	}
	return s
}

// a private client per stream over a shared server (handles learnt by one stream are its own business)
func streamClient(w *World) *World {
	return &World{cfg: w.cfg, fs: w.fs, srv: w.srv, root: w.root, handles: map[string]uint64{"/": w.root}, inoAt: map[string]uint64{"/": 1},
		step: 0, noTrace: true, keepStale: true, realClock: w.realClock}
}

func judgeC29(c c29Case, seed int64) []Violation {
	var vs []Violation
	// solo runs: each stream alone on a fresh server
	solo := make([][]string, len(c.Streams))
	soloTrees := map[string]bool{}
	for i, st := range c.Streams {
		w := c29World(c.Cached)
		cl := streamClient(w)
		for _, o := range st {
			solo[i] = append(solo[i], ownSig(o, cl.do(o)))
		}
		for _, ent := range strings.Split(w.fs.TreeSig(), ";") {
			if ent != "" && ent != "d:/" && ent != "d:/d" {
				soloTrees[ent] = true
			}
		}
		w.srv.Close()
	}
	// concurrent run
	w := c29World(c.Cached)
	defer w.srv.Close()
	rng := rand.New(rand.NewSource(seed))
	var gmu sync.Mutex
	w.fs.gate = func(call string) {
		gmu.Lock()
		k := rng.Intn(10)
		gmu.Unlock()
		switch {
		case k < 4:
			runtime.Gosched()
		case k < 6:
			time.Sleep(time.Duration(k) * 20 * time.Microsecond)
		}
	}
	got := make([][]string, len(c.Streams))
	var wg sync.WaitGroup
	panics := make(chan string, len(c.Streams))
	for i := range c.Streams {
		wg.Add(1)
		go func(i int) {
			defer wg.Done()
			defer func() {
				if p := recover(); p != nil {
					panics <- fmt.Sprint(p)
				}
			}()
			cl := streamClient(w)
			for _, o := range c.Streams[i] {
				got[i] = append(got[i], ownSig(o, cl.do(o)))
			}
		}(i)
	}
	done := make(chan struct{})
	go func() { wg.Wait(); close(done) }()
	select {
	case <-done:
	case <-time.After(20 * time.Second):
		return append(vs, Violation{Class: "deadlock", What: "concurrent request streams did not finish within 20s"})
	}
	w.fs.gate = nil
	select {
	case p := <-panics:
		vs = append(vs, Violation{Class: "panic", What: "panic in a request stream: " + p})
	default:
	}
	for i := range c.Streams {
		for j := range c.Streams[i] {
			if j < len(got[i]) && got[i][j] != solo[i][j] && !c.Cached {
				vs = append(vs, Violation{Class: "not-serializable:" + c.Streams[i][j].Kind,
					What:   fmt.Sprintf("stream %d request %d got a reply no serial execution gives", i, j),
					Detail: fmt.Sprintf("%s | concurrent: %s | every serial order: %s", c.Streams[i][j].String(), got[i][j], solo[i][j])})
				break
			}
		}
	}
	// final tree = union of the solo trees
	final := map[string]bool{}
	for _, ent := range strings.Split(w.fs.TreeSig(), ";") {
		if ent != "" && ent != "d:/" && ent != "d:/d" {
			final[ent] = true
		}
	}
	if fmt.Sprint(keysOf(final)) != fmt.Sprint(keysOf(soloTrees)) {
		vs = append(vs, Violation{Class: "final-tree", What: "the final tree is not the one every serial execution produces",
			Detail: fmt.Sprintf("concurrent: %v | serial: %v", keysOf(final), keysOf(soloTrees))})
	}
	// afterwards: handle table and caches agree with the backend
	for h, p := range absnfs.VerifHandleDump(absnfs.VerifFileMap(w.srv.NFS)) {
		_, lerr := w.fs.Lstat(p)
		rep := w.srv.NFSCall(1, rootCred(), fh(h))
		res := decodeNfs(1, rep.Data)
		if (lerr == nil) != (res.Status == 0) {
			vs = append(vs, Violation{Class: "handle-disagrees", What: fmt.Sprintf("after the run GETATTR of handle %d (%s) replies %d, backend lstat error: %v", h, p, res.Status, lerr)})
			break
		}
		if lerr == nil && res.Obj != nil {
			info, _ := w.fs.Lstat(p)
			if uint64(info.Size()) != res.Obj.Size || ftypeOfMode(info.Mode()) != res.Obj.Type {
				vs = append(vs, Violation{Class: "handle-disagrees", What: fmt.Sprintf("after the run GETATTR of %s reports type %d size %d, the backend has type %d size %d", p, res.Obj.Type, res.Obj.Size, ftypeOfMode(info.Mode()), info.Size())})
				break
			}
		}
	}
	// every cached attribute entry matches the backend (positive: exists with that type/size; negative: absent)
	cl := streamClient(w)
	for _, p := range absnfs.VerifAttrCacheOrder(absnfs.VerifAttrCache(w.srv.NFS)) {
		p = strings.TrimRight(p, "!?") // negative entries carry a marker
		if p == "/" || p == "" || strings.HasPrefix(p, "#") {
			continue
		}
		dir, name := p[:strings.LastIndex(p, "/")], p[strings.LastIndex(p, "/")+1:]
		if dir == "" {
			dir = "/"
		}
		r := cl.do(SOp{Kind: "lookup", Dir: dir, Name: name})
		info, lerr := w.fs.Lstat(p)
		if r.NoHandle {
			continue
		}
		if (lerr == nil) != r.ok() {
			vs = append(vs, Violation{Class: "cache-disagrees", What: fmt.Sprintf("after the run LOOKUP %s replies %d, backend lstat error: %v (stale cache entry)", p, r.Res.Status, lerr)})
			break
		}
		if lerr == nil && r.Res.Obj != nil && (uint64(info.Size()) != r.Res.Obj.Size || ftypeOfMode(info.Mode()) != r.Res.Obj.Type) {
			vs = append(vs, Violation{Class: "cache-disagrees", What: fmt.Sprintf("after the run LOOKUP %s reports type %d size %d, the backend has type %d size %d (stale cache entry)", p, r.Res.Obj.Type, r.Res.Obj.Size, ftypeOfMode(info.Mode()), info.Size())})
			break
		}
	}
	return vs
}

func keysOf(m map[string]bool) []string {
	var l []string
	for k := range m {
		l = append(l, k)
	}
	sort.Strings(l)
	return l
}

func genC29(rng *rand.Rand) c29Case {
	c := c29Case{Cached: rng.Intn(3) == 0}
	nt := 2 + rng.Intn(3)
	for t := 0; t < nt; t++ {
		var st []SOp
		dirs := []string{"/", "/d"}
		names := []string{fmt.Sprintf("t%da", t), fmt.Sprintf("t%db", t)}
		exists := map[string]string{} // path -> kind
		n := 4 + rng.Intn(10)
		for i := 0; i < n; i++ {
			dir, name := dirs[rng.Intn(2)], names[rng.Intn(2)]
			p := join(dir, name)
			switch k := rng.Intn(12); {
			case k < 3:
				st = append(st, SOp{Kind: "create", Dir: dir, Name: name, How: uint32(rng.Intn(2))})
				if exists[p] == "" {
					exists[p] = "f"
				}
			case k < 4:
				st = append(st, SOp{Kind: "mkdir", Dir: dir, Name: name})
				if exists[p] == "" {
					exists[p] = "d"
				}
			case k < 6 && exists[p] == "f":
				st = append(st, SOp{Kind: "write", Dir: p, Off: uint64(rng.Intn(8)), Data: randBytes(rng, 1+rng.Intn(8))})
			case k < 8 && exists[p] == "f":
				st = append(st, SOp{Kind: "read", Dir: p, Off: 0, Count: 64})
			case k < 9:
				st = append(st, SOp{Kind: "lookup", Dir: dir, Name: name})
			case k < 10 && exists[p] != "":
				kind := "remove"
				if exists[p] == "d" {
					kind = "rmdir"
				}
				st = append(st, SOp{Kind: kind, Dir: dir, Name: name})
				delete(exists, p)
			case k < 11 && exists[p] != "":
				d2, n2 := dirs[rng.Intn(2)], names[rng.Intn(2)]
				st = append(st, SOp{Kind: "rename", Dir: dir, Name: name, Dir2: d2, Name2: n2})
				// bookkeeping only approximates; the solo run is the reference
				if exists[join(d2, n2)] == "" || exists[join(d2, n2)] == exists[p] {
					exists[join(d2, n2)] = exists[p]
					if join(d2, n2) != p {
						delete(exists, p)
					}
				}
			default:
				if rng.Intn(3) == 0 {
					// list the *shared* directory while the other streams create, remove and rename in it (the stream is
					// held to what it says about the stream's own names)
					kind := []string{"readdir", "readdirplus"}[rng.Intn(2)]
					st = append(st, SOp{Kind: kind, Dir: dir, Count: 8192, Name2: fmt.Sprintf("t%d", t)})
				} else if rng.Intn(2) == 0 {
					// SETATTR on the *shared* directory (its mode, unchanged): takes the directory node's write lock while
					// other streams look names up in it
					st = append(st, SOp{Kind: "setattr", Dir: dir, Sa: Sattr{Mode: p32(0o755)}})
				} else {
					st = append(st, SOp{Kind: "getattr", Dir: p})
				}
			}
		}
		c.Streams = append(c.Streams, st)
	}
	return c
}

func checkC29(r *Result, rng *rand.Rand, thorough bool) {
	ncases, reps := 60, 3
	if thorough {
		ncases, reps = 400, 6
	}
	// first of all, in a child process: if concurrent use of the caches at minimal TTL brings the process down, the streams
	// below would take this process — and the report — with them
	stormFirst := 1000 * time.Millisecond
	if thorough {
		stormFirst = 4600 * time.Millisecond
	}
	minimalTTLStorm(r, stormFirst)
	for _, v := range r.Violations {
		if v.Class == "C29/crash-under-concurrency" {
			r.Rule = "minimal-TTL storm in a child process (the in-process stream runs were not started: the server process does not survive concurrent requests)"
			return
		}
	}
	r.Rule = "2-4 concurrent request streams (CREATE/MKDIR/WRITE/READ/LOOKUP/REMOVE/RMDIR/RENAME/GETATTR on stream-private names in two shared directories, READDIR(PLUS) and SETATTR of the shared directories themselves, through the real HandleCall), random yields and delays inside every backend call, several schedules per case; minimal-TTL runs compared reply by reply with each stream's solo run (= every serial order) and final tree with the union; runs with caches enabled checked for crashes, final tree and post-run agreement of handle table and caches with the backend; thorough tier under the race detector; plus a storm of 8 simultaneous LOOKUPs of one not-yet-handled name (1500 / 12000 fresh names): one handle value for all, one live handle per path"
	for i := 0; i < ncases; i++ {
		c := genC29(rng)
		r.noteCase(fmt.Sprint(c.strings()), true)
		r.count(fmt.Sprintf("streams:%d cached:%v", len(c.Streams), c.Cached))
		for k := 0; k < reps; k++ {
			vs := judgeC29(c, int64(i*100+k))
			r.Compared++
			for _, v := range vs {
				if v.Class == "deadlock" {
					// the stuck goroutines keep their locks: nothing further on this process is meaningful
					v.Ops, v.Case = c.strings(), c
					r.violate(v)
					r.Notes = append(r.Notes, "stopped at the first deadlock")
					return
				}
			}
			for _, v := range vs {
				dup := false
				for _, ex := range r.Violations {
					if ex.Class == v.Class {
						dup = true
					}
				}
				if !dup {
					v.Ops, v.Case = c.strings(), c
					r.violate(v)
				}
			}
		}
		if i < 1 {
			r.sample(c.strings())
		}
	}
	rounds := 1500
	if thorough {
		rounds = 12000
	}
	sameNameStorm(r, rounds)
	wr := 300
	if thorough {
		wr = 3000
	}
	completedWritesThenRead(r, rng, wr)
	storm := 400 * time.Millisecond
	if thorough {
		storm = 4 * time.Second
	}
	dirCacheStorm(r, storm)
}

// minimalTTLStorm: with an attribute-cache TTL of 1 ns every cache read finds an expired entry, so the expiry path of
// the cache runs on every request; eight clients sharing one directory (GETATTR of it, LOOKUPs in it, CREATE/REMOVE of
// their own names) drive that path from many goroutines at once. A map corrupted by an unsynchronised write makes the
// Go runtime abort the process ("concurrent map writes"), which no recover can stop — so the storm runs in a child
// process and the parent reports how it ended.
func minimalTTLStorm(r *Result, dur time.Duration) {
	lines, stderr, finished := runChild("c29-ttl-storm", fmt.Sprint(int64(dur/time.Millisecond)))
	r.noteCase("minimal-ttl-storm", true)
	for _, l := range lines {
		var n int
		if _, err := fmt.Sscanf(l, "requests %d", &n); err == nil {
			r.Histogram["minimal-ttl-storm-requests"] += n
		}
	}
	if finished && len(lines) >= 2 && lines[len(lines)-2] == "ok" {
		return
	}
	what := "the server process died while eight clients shared a directory under a 1 ns attribute-cache TTL"
	for _, l := range lines {
		if strings.HasPrefix(l, "bad ") {
			what = "minimal-TTL storm: " + strings.TrimPrefix(l, "bad ")
		}
	}
	if i := strings.Index(stderr, "fatal error:"); i >= 0 {
		j := strings.Index(stderr[i:], "\n")
		if j < 0 {
			j = len(stderr) - i
		}
		what += " (" + stderr[i:i+j] + ")"
	}
	r.violate(Violation{Class: "C29/crash-under-concurrency", What: what, Detail: stderr, Ops: []string{"minimal-ttl-storm"}})
}

func init() {
	children["c29-ttl-storm"] = func(args []string) {
		ms := 1000
		if len(args) > 0 {
			fmt.Sscan(args[0], &ms)
		}
		fs := NewRefFS()
		seedFS(fs, []string{"mkdir /shared", "file /shared/a " + hx([]byte("a")), "file /shared/b " + hx([]byte("b"))})
		s, err := newSrv(fs, absnfs.ExportOptions{AttrCacheTimeout: time.Nanosecond})
		if err != nil {
			fmt.Println("bad new: " + err.Error())
			return
		}
		absnfs.VerifClockOff()
		root, _ := s.Mount("/")
		dir, st := s.Lookup(root, "shared", rootCred())
		if st != 0 {
			fmt.Println("bad lookup of the shared directory")
			return
		}
		stop := time.Now().Add(time.Duration(ms) * time.Millisecond)
		var wg sync.WaitGroup
		var total int64
		var badMu sync.Mutex
		bad := ""
		for g := 0; g < 8; g++ {
			wg.Add(1)
			go func(g int) {
				defer wg.Done()
				name := []byte(fmt.Sprintf("own%d", g))
				n := 0
				for i := 0; time.Now().Before(stop); i++ {
					var rep Reply
					switch i % 5 {
					case 0:
						rep = s.NFSCall(1, rootCred(), fh(dir))
					case 1:
						rep = s.NFSCall(3, rootCred(), cat(fh(dir), xdrOpaque([]byte("a"))))
					case 2:
						rep = s.NFSCall(8, rootCred(), cat(fh(dir), xdrOpaque(name), u32(0), Sattr{}.enc()))
					case 3:
						rep = s.NFSCall(3, rootCred(), cat(fh(dir), xdrOpaque(name)))
					default:
						rep = s.NFSCall(12, rootCred(), cat(fh(dir), xdrOpaque(name)))
					}
					n++
					if rep.Err != nil || rep.Status != 0 || rep.AcceptStatus != 0 || len(rep.Data) < 4 || (i%5 < 2 && binary.BigEndian.Uint32(rep.Data) != 0) {
						badMu.Lock()
						bad = fmt.Sprintf("request %d of client %d (kind %d) was not answered NFS3_OK: err=%v accept=%d", i, g, i%5, rep.Err, rep.AcceptStatus)
						badMu.Unlock()
						break
					}
				}
				atomic.AddInt64(&total, int64(n))
			}(g)
		}
		wg.Wait()
		fmt.Printf("requests %d\n", total)
		if bad != "" {
			fmt.Println("bad " + bad)
		} else {
			fmt.Println("ok")
		}
	}
}

// dirCacheStorm: with the directory cache on, four clients list one shared directory without pause while four others
// create and remove their own names in it (every mutation invalidates the listing the readers are using). Every
// request must be answered: a client that gets no reply for three seconds is stuck behind a lock nobody will release.
func dirCacheStorm(r *Result, dur time.Duration) {
	fs := NewRefFS()
	fs.logOn = false
	seedFS(fs, []string{"mkdir /d"})
	w := newWorldOn(fs, SrvCfg{AttrTTL: 5 * time.Second, DirCache: true, Neg: true})
	w.noTrace = true
	w.realClock = true
	absnfs.VerifClockOff()
	dh, _ := w.handleFor("/d", rootCred())
	var progress [8]int64
	stop := make(chan struct{})
	var wg sync.WaitGroup
	for k := 0; k < 8; k++ {
		wg.Add(1)
		go func(k int) {
			defer wg.Done()
			s2 := &Srv{NFS: w.srv.NFS, H: w.srv.H, S: w.srv.S, IP: "127.0.0.1", Port: 900 + k}
			name := fmt.Sprintf("s%d", k)
			for {
				select {
				case <-stop:
					return
				default:
				}
				if k < 4 {
					if k%2 == 0 {
						s2.NFSCall(16, rootCred(), argReaddir(dh, 0, zeroVerf, 8192))
					} else {
						s2.NFSCall(17, rootCred(), argReaddirplus(dh, 0, zeroVerf, 8192, 32768))
					}
				} else {
					s2.NFSCall(8, rootCred(), argCreate(dh, name, 0, Sattr{}, nil))
					s2.NFSCall(12, rootCred(), argDirop(dh, name))
				}
				atomic.AddInt64(&progress[k], 1)
			}
		}(k)
	}
	deadline := time.Now().Add(dur)
	var last [8]int64
	lastMove := time.Now()
	stuck := false
	for time.Now().Before(deadline) || stuck {
		time.Sleep(50 * time.Millisecond)
		moved := false
		for k := range progress {
			if v := atomic.LoadInt64(&progress[k]); v != last[k] {
				last[k], moved = v, true
			}
		}
		if moved {
			lastMove = time.Now()
			stuck = false
		} else {
			stuck = true
			if time.Since(lastMove) > 3*time.Second {
				var total int64
				for _, v := range last {
					total += v
				}
				r.violate(Violation{Class: "deadlock", What: fmt.Sprintf("directory cache on, 4 clients listing /d while 4 others create and remove names in it: after %d answered rounds no request was answered for 3 s", total),
					Ops: []string{"dir-cache-storm"}, Case: c29Case{Cached: true}})
				r.Notes = append(r.Notes, "stopped at the first deadlock")
				return // the stuck goroutines keep their locks
			}
		}
	}
	close(stop)
	wg.Wait()
	var total int64
	for _, v := range last {
		total += v
	}
	r.Histogram["dir-cache-storm-rounds"] += int(total)
	r.noteCase("dir-cache-storm", true)
	w.Close()
}

// completedWritesThenRead: real-time order on one file. 2-4 clients extend the same file at the same time through
// the same handle (disjoint ranges), other clients LOOKUP / READDIRPLUS / GETATTR it meanwhile; every backend call
// is delayed by a random yield. Once all WRITEs have been answered NFS3_OK, a READ of the whole file (attribute
// cache at minimal TTL) must return every byte written: no serial order of the completed requests ends with a
// shorter file.
func completedWritesThenRead(r *Result, rng *rand.Rand, rounds int) {
	fs := NewRefFS()
	fs.logOn = false
	seedFS(fs, []string{"mkdir /d"})
	jit := rand.New(rand.NewSource(rng.Int63()))
	var jmu sync.Mutex
	fs.gate = func(call string) {
		jmu.Lock()
		k := jit.Intn(8)
		jmu.Unlock()
		switch {
		case k < 3:
			runtime.Gosched()
		case k == 3:
			time.Sleep(time.Duration(20+k*10) * time.Microsecond)
		}
	}
	w := newWorldOn(fs, SrvCfg{AttrTTL: time.Nanosecond})
	defer w.Close()
	w.noTrace = true
	w.realClock = true
	absnfs.VerifClockOff()
	dh, _ := w.handleFor("/d", rootCred())
	short, first := 0, ""
	wrong, firstWrong := 0, ""
	for i := 0; i < rounds; i++ {
		name := fmt.Sprintf("w%d", i)
		h, st := w.srv.Lookup(dh, name, rootCred())
		if st != 0 {
			rep := w.srv.NFSCall(8, rootCred(), argCreate(dh, name, 0, Sattr{}, nil))
			if status(rep) != 0 {
				continue
			}
			h, _ = w.srv.Lookup(dh, name, rootCred())
		}
		writers := 2 + rng.Intn(3)
		chunk := 10
		var wg sync.WaitGroup
		start := make(chan struct{})
		okWrites := make([]bool, writers)
		for k := 0; k < writers; k++ {
			wg.Add(1)
			go func(k int) {
				defer wg.Done()
				s2 := &Srv{NFS: w.srv.NFS, H: w.srv.H, S: w.srv.S, IP: "127.0.0.1", Port: 700 + k}
				<-start
				rep := s2.NFSCall(7, rootCred(), argWrite(h, uint64(k*chunk), uint32(chunk), 2, bytes.Repeat([]byte{byte('a' + k)}, chunk)))
				okWrites[k] = status(rep) == 0
			}(k)
		}
		for k := 0; k < 2; k++ {
			wg.Add(1)
			go func(k int) { // bystanders that make the server stat the file and re-install its node meanwhile
				defer wg.Done()
				s2 := &Srv{NFS: w.srv.NFS, H: w.srv.H, S: w.srv.S, IP: "127.0.0.1", Port: 800 + k}
				<-start
				if k == 0 {
					s2.Lookup(dh, name, rootCred())
					s2.NFSCall(1, rootCred(), fh(h))
				} else {
					s2.NFSCall(17, rootCred(), argReaddirplus(dh, 0, zeroVerf, 65536, 65536))
				}
			}(k)
		}
		close(start)
		wg.Wait()
		want := 0
		for k, ok := range okWrites {
			if ok && (k+1)*chunk > want {
				want = (k + 1) * chunk
			}
		}
		rep := w.srv.NFSCall(6, rootCred(), argRead(h, 0, 4096))
		r.Histogram["completed-writes-then-read"]++
		if status(rep) != 0 || len(rep.Data) < 104 {
			continue
		}
		got := int(binary.BigEndian.Uint32(rep.Data[92:]))
		if got < want {
			short++
			if first == "" {
				first = fmt.Sprintf("round %d: %d clients each wrote %d bytes of /d/%s at disjoint offsets and all were answered NFS3_OK; the READ of the whole file that followed returned %d of %d bytes", i, writers, chunk, name, got, want)
			}
		} else {
			// contents: every serial order of non-overlapping writes leaves each payload in its own range
			// (Props.C29.written_range_reads_back / disjoint_writes_any_order)
			data := rep.Data[104:]
			if len(data) > got {
				data = data[:got]
			}
			for k, ok := range okWrites {
				if !ok || (k+1)*chunk > len(data) {
					continue
				}
				if !bytes.Equal(data[k*chunk:(k+1)*chunk], bytes.Repeat([]byte{byte('a' + k)}, chunk)) {
					wrong++
					if firstWrong == "" {
						firstWrong = fmt.Sprintf("round %d: %d clients wrote /d/%s at disjoint offsets, all answered NFS3_OK; bytes [%d,%d) read back as %q, not the payload of writer %d", i, writers, name, k*chunk, (k+1)*chunk, data[k*chunk:(k+1)*chunk], k)
					}
					break
				}
			}
		}
		w.srv.NFSCall(12, rootCred(), argDirop(dh, name))
	}
	r.noteCase("completed-writes-then-read", true)
	if short > 0 {
		r.violate(Violation{Class: "read-misses-completed-writes", What: fmt.Sprintf("%d of %d rounds; %s", short, rounds, first), Case: c29Case{Cached: false}, Ops: []string{"completed-writes-then-read"}})
	}
	if wrong > 0 {
		r.violate(Violation{Class: "read-differs-from-every-serial-order", What: fmt.Sprintf("%d of %d rounds; %s", wrong, rounds, firstWrong), Case: c29Case{Cached: false}, Ops: []string{"completed-writes-then-read"}})
	}
}

// sameNameStorm: sharing handles — 8 clients LOOKUP the same name, which has no handle yet, at the same moment
// (released together by a barrier), for many fresh names. Every serial order gives all of them one and the
// same handle, and leaves exactly one live handle for the path.
func sameNameStorm(r *Result, rounds int) {
	const clients = 8
	fs := NewRefFS()
	seedFS(fs, []string{"mkdir /d"})
	for i := 0; i < rounds; i++ {
		f, _ := fs.Create(fmt.Sprintf("/d/s%d", i))
		f.Close()
	}
	w := newWorldOn(fs, SrvCfg{AttrTTL: 5 * time.Second})
	defer w.Close()
	w.noTrace = true
	w.realClock = true
	absnfs.VerifClockOff()
	absnfs.VerifSetMaxHandles(w.srv.NFS, 10*rounds+100)
	dh, _ := w.handleFor("/d", rootCred())
	badRounds, orphanRounds := 0, 0
	var first string
	for i := 0; i < rounds; i++ {
		name := fmt.Sprintf("s%d", i)
		var wg sync.WaitGroup
		start := make(chan struct{})
		got := make([]uint64, clients)
		for k := 0; k < clients; k++ {
			wg.Add(1)
			go func(k int) {
				defer wg.Done()
				s2 := &Srv{NFS: w.srv.NFS, H: w.srv.H, S: w.srv.S, IP: "127.0.0.1", Port: 700 + k}
				<-start
				h, st := s2.Lookup(dh, name, rootCred())
				if st == 0 {
					got[k] = h
				}
			}(k)
		}
		close(start)
		wg.Wait()
		same := true
		for k := 1; k < clients; k++ {
			if got[k] != got[0] {
				same = false
			}
		}
		n := 0
		for _, p := range absnfs.VerifHandleDump(absnfs.VerifFileMap(w.srv.NFS)) {
			if p == "/d/"+name {
				n++
			}
		}
		if !same || n != 1 {
			if !same {
				badRounds++
			}
			if n != 1 {
				orphanRounds++
			}
			if first == "" {
				first = fmt.Sprintf("round %d: handles handed out for /d/%s: %v; live handles for that path: %d", i, name, got, n)
			}
		}
	}
	r.noteCase("same-name-lookup-storm", true)
	r.Histogram["storm-rounds"] += rounds
	if badRounds > 0 || orphanRounds > 0 {
		r.violate(Violation{Class: "same-path-two-handles", What: fmt.Sprintf("%d of %d rounds of 8 simultaneous LOOKUPs of one name gave different handles for it, %d left more than one live handle for the path (%s)", badRounds, rounds, orphanRounds, first),
			Ops: []string{"same-name-lookup-storm"}, Case: c29Case{}})
	}
}

var _ = bytes.Equal
