package main

// C17 — real Server on loopback: concurrent opens/closes, tiny IdleTimeout, Stop/Close at random points.
// Oracle: simultaneously served connections <= MaxConnections, connCount == len(activeConns) at every
// observation and 0 at the end, no goroutine left after Stop, handles and caches empty after Close/Unexport,
// repetitions harmless. The model is compared on the accounting outcome of each run.

import (
	"crypto/tls"
	"crypto/x509"
	"encoding/binary"
	"encoding/json"
	"fmt"
	"math/rand"
	"net"
	"path/filepath"
	"runtime"
	"strings"
	"sync"
	"sync/atomic"
	"time"

	"github.com/absfs/absnfs"
)

func init() {
	checks["C17"] = checkC17
	replays["C17"] = func(r *Result, raw json.RawMessage) { checkC17(r, rand.New(rand.NewSource(1)), false) }
}

type connRun struct {
	max, clients  int
	servedPeak    int32
	countMismatch string
	endCount      int
	endMap        int
	leaked        int
	afterStopDial bool
}

func runConnScenario(rng *rand.Rand, max, clients int, idle time.Duration, stopEarly bool) connRun {
	res := connRun{max: max, clients: clients}
	base := runtime.NumGoroutine()
	n, err := absnfs.New(NewRefFS(), absnfs.ExportOptions{MaxConnections: max, IdleTimeout: idle, MaxWorkers: 2})
	must(err)
	s, err := absnfs.NewServer(absnfs.ServerOptions{Port: 0, Hostname: "127.0.0.1", UseRecordMarking: true})
	must(err)
	s.SetHandler(n)
	must(s.Listen())
	port := s.GetPort()
	var served, peak int32
	var wg sync.WaitGroup
	stopObs := make(chan struct{})
	var obsWG sync.WaitGroup
	obsWG.Add(1)
	go func() { // observer: the counter and the map must agree at every instant
		defer obsWG.Done()
		for {
			select {
			case <-stopObs:
				return
			default:
			}
			c, m := absnfs.VerifConnCounts(s)
			if c != m || c < 0 || (max > 0 && c > max) {
				res.countMismatch = fmt.Sprintf("connCount=%d len(activeConns)=%d max=%d", c, m, max)
			}
			time.Sleep(200 * time.Microsecond)
		}
	}()
	for i := 0; i < clients; i++ {
		wg.Add(1)
		hold := time.Duration(rng.Intn(20)) * time.Millisecond
		go func() {
			defer wg.Done()
			conn, err := net.DialTimeout("tcp", fmt.Sprintf("127.0.0.1:%d", port), time.Second)
			if err != nil {
				return
			}
			defer conn.Close()
			if _, err := rmCall(conn, 5, progNFS, 3, 0, nil); err != nil {
				return // refused at the limit (closed by the server) or shut down
			}
			c := atomic.AddInt32(&served, 1)
			for {
				o := atomic.LoadInt32(&peak)
				if c <= o || atomic.CompareAndSwapInt32(&peak, o, c) {
					break
				}
			}
			time.Sleep(hold)
			atomic.AddInt32(&served, -1)
		}()
	}
	if stopEarly {
		time.Sleep(time.Duration(rng.Intn(10)) * time.Millisecond)
		s.Stop()
	}
	wg.Wait()
	if !stopEarly {
		// idle reaping: a connection left open and silent is closed by the server
		if idle > 0 && idle < time.Second {
			conn, err := net.DialTimeout("tcp", fmt.Sprintf("127.0.0.1:%d", port), time.Second)
			if err == nil {
				rmCall(conn, 6, progNFS, 3, 0, nil)
				time.Sleep(idle*2 + 60*time.Millisecond)
				conn.SetReadDeadline(time.Now().Add(50 * time.Millisecond))
				var b [1]byte
				if _, err := conn.Read(b[:]); err == nil || strings.Contains(err.Error(), "timeout") {
					res.countMismatch = "a connection idle for more than 2 x IdleTimeout was not closed"
				}
				conn.Close()
			}
		}
		time.Sleep(15 * time.Millisecond)
		c, m := absnfs.VerifConnCounts(s)
		res.endCount, res.endMap = c, m
		s.Stop()
	} else {
		c, m := absnfs.VerifConnCounts(s)
		res.endCount, res.endMap = c, m
	}
	close(stopObs)
	obsWG.Wait()
	if c, err := net.DialTimeout("tcp", fmt.Sprintf("127.0.0.1:%d", port), 200*time.Millisecond); err == nil {
		// a listener that still accepts after Stop
		if _, err := rmCall(c, 9, progNFS, 3, 0, nil); err == nil {
			res.afterStopDial = true
		}
		c.Close()
	}
	s.Stop() // repeating is harmless
	n.Close()
	n.Close()
	res.servedPeak = atomic.LoadInt32(&peak)
	for i := 0; i < 50; i++ {
		if runtime.NumGoroutine() <= base+1 {
			break
		}
		time.Sleep(10 * time.Millisecond)
	}
	res.leaked = runtime.NumGoroutine() - base
	return res
}

func checkC17(r *Result, rng *rand.Rand, thorough bool) {
	r.Rule = "real TCP server: MaxConnections in {1,2,3}, 3 x max concurrent clients holding their connection 0-20 ms, IdleTimeout 40 ms (reaper interval 20 ms) or 5 min, Stop at a random instant or after all clients left; an observer samples connCount vs len(activeConns) every 0.2 ms; goroutines counted after Stop; Close/Unexport repeated and after in-flight handlers; Stop under a storm of arriving connections (120 established, 8 dialers); non-trivial = more clients than the limit; distinct = distinct (max, clients, idle, stop, outcome)"
	runs := 8
	if thorough {
		runs = 120
		stormRounds = 25
	}
	var cases []Case
	var impl [][]string
	for i := 0; i < runs; i++ {
		max := 1 + rng.Intn(3)
		idle := []time.Duration{40 * time.Millisecond, 5 * time.Minute}[rng.Intn(2)]
		stopEarly := rng.Intn(3) == 0
		res := runConnScenario(rng, max, 3*max, idle, stopEarly)
		key := fmt.Sprintf("max=%d clients=%d idle=%v stopEarly=%v peak=%d end=%d/%d", max, 3*max, idle, stopEarly, res.servedPeak, res.endCount, res.endMap)
		r.noteCase(key, true)
		r.count(fmt.Sprintf("stopEarly=%v", stopEarly))
		if i < 3 {
			r.sample(map[string]any{"max": max, "clients": 3 * max, "idle": idle.String(), "stop_early": stopEarly, "served_peak": res.servedPeak, "end_count": res.endCount, "goroutines_left": res.leaked})
		}
		if int(res.servedPeak) > max {
			r.violate(Violation{Class: "C17/over-limit", What: fmt.Sprintf("%d connections were served simultaneously with MaxConnections=%d", res.servedPeak, max), Ops: []string{key}})
		}
		if res.countMismatch != "" {
			r.violate(Violation{Class: "C17/accounting", What: res.countMismatch, Ops: []string{key}})
		}
		if !stopEarly && (res.endCount != 0 || res.endMap != 0) {
			r.violate(Violation{Class: "C17/accounting", What: fmt.Sprintf("after every client left: connCount=%d, %d connections still registered", res.endCount, res.endMap), Ops: []string{key}})
		}
		if res.afterStopDial {
			r.violate(Violation{Class: "C17/served-after-stop", What: "a connection was served after Server.Stop returned", Ops: []string{key}})
		}
		if res.leaked > 2 {
			r.violate(Violation{Class: "C17/goroutine-leak", What: fmt.Sprintf("%d goroutines more than before the server was started remain after Stop and Close", res.leaked), Ops: []string{key}})
		}
		// the model's accounting outcome for the same run: everything accepted is eventually uncounted
		cases = append(cases, Case{Ops: []string{fmt.Sprintf("conns final %d %d", max, 3*max)}})
		out := "count=0"
		if !stopEarly {
			out = fmt.Sprintf("count=%d", res.endCount)
		}
		impl = append(impl, []string{out})
	}
	closeChecks(r)
	compareWithModel(r, "conns", cases, impl, nil)
}

// closeChecks: Close / Unexport release everything, are idempotent — and the recorded finding: an in-flight
// handler goroutine repopulates handles and cache after Close returned.
var stormRounds = 3

func closeChecks(r *Result) {
	for _, which := range []string{"close", "unexport", "close-close", "unexport-close"} {
		fs := NewRefFS()
		f, _ := fs.Create("/a")
		f.Close()
		s, err := newSrv(fs, absnfs.ExportOptions{EnableDirCache: true})
		must(err)
		root, _ := s.Mount("/")
		s.Lookup(root, "a", rootCred())
		s.NFSCall(16, rootCred(), cat(fh(root), u64(0), make([]byte, 8), u32(4096)))
		before := absnfs.VerifHandleCount(s.NFS)
		switch which {
		case "close":
			s.NFS.Close()
		case "unexport":
			s.NFS.Unexport()
		case "close-close":
			s.NFS.Close()
			s.NFS.Close()
		case "unexport-close":
			s.NFS.Unexport()
			s.NFS.Unexport()
			s.NFS.Close()
		}
		h, a, d := absnfs.VerifHandleCount(s.NFS), absnfs.VerifAttrCacheSize(s.NFS), absnfs.VerifDirCacheSize(s.NFS)
		r.noteCase("close-check "+which, before > 0)
		r.count("close-check")
		if h != 0 || a != 0 || d != 0 {
			r.violate(Violation{Class: "C17/close-leaves-state", What: fmt.Sprintf("after %s: %d handles, %d attribute-cache entries, %d directory-cache entries", which, h, a, d), Ops: []string{which}})
		}
		if which != "close" && which != "close-close" {
			s.NFS.Close()
		}
	}
	// in-flight handler vs Close
	fs := NewRefFS()
	f, _ := fs.Create("/slow")
	f.Close()
	s, err := newSrv(fs, absnfs.ExportOptions{Timeouts: &absnfs.TimeoutConfig{DefaultTimeout: 60 * time.Millisecond}})
	must(err)
	root, _ := s.Mount("/")
	gate := make(chan struct{})
	reached := make(chan struct{}, 1)
	fs.gate = func(call string) {
		if call == "Lstat /slow" {
			select {
			case reached <- struct{}{}:
			default:
			}
			<-gate
		}
	}
	done := make(chan struct{})
	go func() {
		s2 := &Srv{NFS: s.NFS, H: s.H, S: s.S, IP: "127.0.0.1", Port: 700}
		s2.Lookup(root, "slow", rootCred())
		close(done)
	}()
	select {
	case <-reached:
	case <-time.After(time.Second):
	}
	<-done // the caller timed out (60 ms); the handler goroutine is still inside the backend
	s.NFS.Close()
	h0, a0 := absnfs.VerifHandleCount(s.NFS), absnfs.VerifAttrCacheSize(s.NFS)
	close(gate)
	time.Sleep(30 * time.Millisecond)
	h1, a1 := absnfs.VerifHandleCount(s.NFS), absnfs.VerifAttrCacheSize(s.NFS)
	r.noteCase("close-with-inflight-handler", true)
	r.count("close-inflight")
	if h0 != 0 || a0 != 0 {
		r.violate(Violation{Class: "C17/close-leaves-state", What: fmt.Sprintf("right after Close: %d handles, %d cache entries", h0, a0)})
	}
	closeDuringRequest(r)
	idleReapingAllListeners(r)
	refusedPeersAreNotCounted(r)
	limitLoweredAtRuntime(r)
	stopUnderConnectStorm(r, stormRounds)
	if h1 != 0 || a1 != 0 {
		r.violate(Violation{Class: "C17/close-with-inflight-handler", What: fmt.Sprintf("a LOOKUP still inside the backend when Close returned put %d handle(s) and %d attribute-cache entr(ies) back afterwards", h1, a1),
			Ops: []string{"close-with-inflight-handler"}})
	}
}

// closeDuringRequest: Close is called while a request sent over an exported TCP connection is still inside the
// backend; the request completes while Close is stopping the server (well inside its grace period), the client
// reads its reply and hangs up. When Close returns, nothing may be left: the teardown must release handles and
// caches after the last request has finished, not before.
func closeDuringRequest(r *Result) {
	fs := NewRefFS()
	f, _ := fs.Create("/slow")
	f.Close()
	s, err := newSrv(fs, absnfs.ExportOptions{})
	must(err)
	if err := s.NFS.Export("/", 0); err != nil {
		panic(err)
	}
	port := absnfs.VerifExportPort(s.NFS)
	gate := make(chan struct{})
	reached := make(chan struct{}, 1)
	fs.gate = func(call string) {
		if call == "Lstat /slow" {
			select {
			case reached <- struct{}{}:
				<-gate
			default:
			}
		}
	}
	replied := make(chan string, 1)
	go func() {
		conn, err := net.DialTimeout("tcp", fmt.Sprintf("127.0.0.1:%d", port), 2*time.Second)
		if err != nil {
			replied <- "no-connect"
			return
		}
		defer conn.Close()
		rep, err := rmCall(conn, 21, progMount, 3, 1, xdrOpaque([]byte("/")))
		if err != nil || len(rep) < 40 {
			replied <- "mnt-failed"
			return
		}
		root := binary.BigEndian.Uint64(rep[32:])
		if _, err := rmCall(conn, 22, progNFS, 3, 3, argDirop(root, "slow")); err != nil {
			replied <- "lookup: " + err.Error()
			return
		}
		replied <- "ok"
	}()
	select {
	case <-reached:
	case <-time.After(2 * time.Second):
		r.Notes = append(r.Notes, "close-during-request: the LOOKUP never reached the backend")
		close(gate)
		s.NFS.Close()
		return
	}
	closed := make(chan struct{})
	go func() { s.NFS.Close(); close(closed) }()
	time.Sleep(150 * time.Millisecond) // Close is now inside Server.Stop, waiting for the connection
	close(gate)
	outcome := <-replied
	select {
	case <-closed:
	case <-time.After(8 * time.Second):
		r.violate(Violation{Class: "C17/close-hangs", What: "Close did not return within 8 s of the last request finishing", Ops: []string{"close-during-request"}})
		return
	}
	h, a, d := absnfs.VerifHandleCount(s.NFS), absnfs.VerifAttrCacheSize(s.NFS), absnfs.VerifDirCacheSize(s.NFS)
	r.noteCase("close-during-request", true)
	r.count("close-during-request:" + outcome)
	if h != 0 || a != 0 || d != 0 {
		r.violate(Violation{Class: "C17/close-leaves-state", What: fmt.Sprintf("a request that finished while Close was stopping the server (client outcome %q) left %d handle(s), %d attribute-cache and %d directory-cache entr(ies) behind when Close returned", outcome, h, a, d), Ops: []string{"close-during-request"}})
	}
}

// stopUnderConnectStorm: Stop while many connections exist and more keep arriving. After Stop has returned no
// connection may still be served and none may still be accounted for — also the ones that were accepted while
// Stop was busy closing the others.
func stopUnderConnectStorm(r *Result, rounds int) {
	for round := 0; round < rounds; round++ {
		n, err := absnfs.New(NewRefFS(), absnfs.ExportOptions{MaxConnections: 0, IdleTimeout: 5 * time.Minute, MaxWorkers: 2})
		must(err)
		s, err := absnfs.NewServer(absnfs.ServerOptions{Port: 0, Hostname: "127.0.0.1", UseRecordMarking: true})
		must(err)
		s.SetHandler(n)
		must(s.Listen())
		port := s.GetPort()
		var mu sync.Mutex
		var conns []net.Conn
		dialOne := func(xid uint32) {
			c, err := net.DialTimeout("tcp", fmt.Sprintf("127.0.0.1:%d", port), time.Second)
			if err != nil {
				return
			}
			if _, err := rmCall(c, xid, progNFS, 3, 0, nil); err != nil {
				c.Close()
				return
			}
			mu.Lock()
			conns = append(conns, c)
			mu.Unlock()
		}
		for i := 0; i < 120; i++ {
			dialOne(uint32(1000 + i))
		}
		stop := make(chan struct{})
		var wg sync.WaitGroup
		for g := 0; g < 8; g++ {
			wg.Add(1)
			go func(g int) {
				defer wg.Done()
				for k := 0; ; k++ {
					select {
					case <-stop:
						return
					default:
					}
					dialOne(uint32(100000 + g*10000 + k))
				}
			}(g)
		}
		time.Sleep(time.Duration(2+round%5) * time.Millisecond)
		stopErr := s.Stop()
		close(stop)
		wg.Wait()
		served := 0
		mu.Lock()
		all := conns
		mu.Unlock()
		for i, c := range all {
			if _, err := rmCall(c, uint32(900000+i), progNFS, 3, 0, nil); err == nil {
				served++
			}
			c.Close()
		}
		cnt, inMap := absnfs.VerifConnCounts(s)
		n.Close()
		r.noteCase(fmt.Sprintf("stop-under-connect-storm round %d", round), true)
		r.count("stop-storm")
		if served > 0 || stopErr != nil {
			r.violate(Violation{Class: "C17/served-after-stop", What: fmt.Sprintf("Stop under a storm of new connections: Stop returned %v; afterwards %d of %d connections still answered a NULL call (connCount=%d, registered=%d)", stopErr, served, len(all), cnt, inMap),
				Ops: []string{"stop-under-connect-storm"}})
			return
		}
	}
}

// idleReapingAllListeners: the idle reaper must run whatever kind of listener the server opened — plain TCP with
// record marking, plain TCP without, TLS. A client connects (TLS: completes the handshake), stays silent, and must
// be closed and uncounted soon after IdleTimeout.
func idleReapingAllListeners(r *Result) {
	if thePKI == nil {
		thePKI = newPKI()
	}
	p := thePKI
	idle := 60 * time.Millisecond
	for _, kind := range []string{"plain-rm", "plain-raw", "tls"} {
		opts := absnfs.ExportOptions{IdleTimeout: idle, MaxWorkers: 2, MaxConnections: 4}
		if kind == "tls" {
			opts.TLS = &absnfs.TLSConfig{Enabled: true, CertFile: filepath.Join(p.dir, "srv.pem"), KeyFile: filepath.Join(p.dir, "srv.key"), MinVersion: tls.VersionTLS12, MaxVersion: tls.VersionTLS13}
		}
		n, err := absnfs.New(NewRefFS(), opts)
		must(err)
		s, err := absnfs.NewServer(absnfs.ServerOptions{Port: 0, Hostname: "127.0.0.1", UseRecordMarking: kind != "plain-raw"})
		must(err)
		s.SetHandler(n)
		if err := s.Listen(); err != nil {
			r.Notes = append(r.Notes, "idle reaping ("+kind+") skipped: "+err.Error())
			n.Close()
			continue
		}
		var conn net.Conn
		addr := fmt.Sprintf("127.0.0.1:%d", s.GetPort())
		if kind == "tls" {
			pool := x509.NewCertPool()
			pool.AppendCertsFromPEM(p.caPEM)
			conn, err = tls.DialWithDialer(&net.Dialer{Timeout: 2 * time.Second}, "tcp", addr, &tls.Config{RootCAs: pool, ServerName: "localhost", MinVersion: tls.VersionTLS12})
		} else {
			conn, err = net.DialTimeout("tcp", addr, 2*time.Second)
		}
		r.noteCase("idle-reaping "+kind, true)
		r.count("idle-reaping:" + kind)
		if err != nil {
			r.Notes = append(r.Notes, "idle reaping ("+kind+"): could not connect: "+err.Error())
		} else {
			// silent client; the server should hang up within IdleTimeout + one reaper interval (allow a wide margin)
			closed := false
			deadline := time.Now().Add(idle*3 + 1500*time.Millisecond)
			conn.SetReadDeadline(deadline)
			var b [1]byte
			t0 := time.Now()
			_, rerr := conn.Read(b[:])
			if rerr != nil && !strings.Contains(rerr.Error(), "timeout") {
				closed = true
			}
			c, m := absnfs.VerifConnCounts(s)
			if !closed {
				r.violate(Violation{Class: "C17/idle-connection-not-reaped", What: fmt.Sprintf("%s listener, IdleTimeout %v: a connection that stayed silent for %v was not closed (connCount=%d, activeConns=%d)", kind, idle, time.Since(t0).Round(time.Millisecond), c, m),
					Ops: []string{"idle-reaping " + kind}})
			}
			conn.Close()
		}
		s.Stop()
		n.Close()
	}
}

// refusedPeersAreNotCounted: a connection the host filter refuses at accept has ended; it must not occupy a
// MaxConnections slot. Disallowed peers (127.0.0.2, when the machine lets a client bind it) connect more often than
// the limit, then an allowed client must be served and the counters must be back to what it alone accounts for.
// limitLoweredAtRuntime: MaxConnections is a runtime-tunable bound. Lowered below the number of connections already
// open, it admits nobody until enough of them have ended; it never stops bounding.
func limitLoweredAtRuntime(r *Result) {
	n, err := absnfs.New(NewRefFS(), absnfs.ExportOptions{MaxConnections: 4, IdleTimeout: 5 * time.Minute, MaxWorkers: 2})
	must(err)
	defer n.Close()
	s, err := absnfs.NewServer(absnfs.ServerOptions{Port: 0, Hostname: "127.0.0.1", UseRecordMarking: true})
	must(err)
	s.SetHandler(n)
	must(s.Listen())
	defer s.Stop()
	addr := fmt.Sprintf("127.0.0.1:%d", s.GetPort())
	served := func() (net.Conn, bool) {
		c, err := net.DialTimeout("tcp", addr, 2*time.Second)
		if err != nil {
			return nil, false
		}
		c.SetDeadline(time.Now().Add(2 * time.Second))
		if _, err := rmCall(c, 77, progNFS, 3, 0, nil); err != nil {
			c.Close()
			return nil, false
		}
		return c, true
	}
	var open []net.Conn
	defer func() {
		for _, c := range open {
			c.Close()
		}
	}()
	for i := 0; i < 4; i++ {
		c, ok := served()
		if !ok {
			r.Notes = append(r.Notes, "limit-lowered scenario skipped: could not open 4 connections under MaxConnections 4")
			return
		}
		open = append(open, c)
	}
	r.noteCase("limit-lowered", true)
	r.count("limit-lowered")
	n.UpdateTuningOptions(func(tu *absnfs.TuningOptions) { tu.MaxConnections = 2 })
	extra := 0
	for i := 0; i < 6; i++ {
		if c, ok := served(); ok {
			extra++
			open = append(open, c)
		}
	}
	cnt, _ := absnfs.VerifConnCounts(s)
	if extra > 0 {
		r.violate(Violation{Class: "C17/over-limit-after-lowering", What: fmt.Sprintf("with 4 connections open MaxConnections was lowered to 2; %d further connections were then admitted and served (connCount=%d)", extra, cnt), Ops: []string{"limit-lowered"}})
	}
}

func refusedPeersAreNotCounted(r *Result) {
	n, err := absnfs.New(NewRefFS(), absnfs.ExportOptions{AllowedIPs: []string{"127.0.0.1"}, MaxConnections: 2, IdleTimeout: 5 * time.Minute, MaxWorkers: 2})
	must(err)
	defer n.Close()
	s, err := absnfs.NewServer(absnfs.ServerOptions{Port: 0, Hostname: "127.0.0.1", UseRecordMarking: true})
	must(err)
	s.SetHandler(n)
	must(s.Listen())
	defer s.Stop()
	addr := fmt.Sprintf("127.0.0.1:%d", s.GetPort())
	refused := 0
	for i := 0; i < 5; i++ {
		d := net.Dialer{Timeout: time.Second, LocalAddr: &net.TCPAddr{IP: net.ParseIP("127.0.0.2")}}
		c, err := d.Dial("tcp", addr)
		if err != nil {
			r.Notes = append(r.Notes, "refused-peers scenario skipped: cannot dial from 127.0.0.2: "+err.Error())
			return
		}
		// the server hangs up on a peer that is not listed
		c.SetReadDeadline(time.Now().Add(2 * time.Second))
		var b [1]byte
		if _, err := c.Read(b[:]); err != nil && !strings.Contains(err.Error(), "timeout") {
			refused++
		}
		c.Close()
	}
	time.Sleep(50 * time.Millisecond)
	cnt, inMap := absnfs.VerifConnCounts(s)
	r.noteCase("refused-peers", true)
	r.count("refused-peers")
	if refused == 5 && (cnt != 0 || inMap != 0) {
		r.violate(Violation{Class: "C17/refused-connection-stays-counted", What: fmt.Sprintf("5 connections from 127.0.0.2 were refused by the host filter (AllowedIPs 127.0.0.1) and have ended, yet connCount=%d, activeConns=%d", cnt, inMap), Ops: []string{"refused-peers"}})
		return
	}
	conn, err := net.DialTimeout("tcp", addr, 2*time.Second)
	if err == nil {
		_, err = rmCall(conn, 31, progNFS, 3, 0, nil)
		conn.Close()
	}
	if err != nil {
		r.violate(Violation{Class: "C17/refused-connection-stays-counted", What: fmt.Sprintf("after 5 refused connections from an unlisted address (MaxConnections 2) the listed client 127.0.0.1 is not served: %v (connCount=%d, activeConns=%d)", err, cnt, inMap), Ops: []string{"refused-peers"}})
	}
}
