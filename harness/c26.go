package main

// C26 — directory listings page completely and respect the client's size limit. Directories with names of
// every length class are listed with READDIR and READDIRPLUS for count/maxcount values from 0 upward, always
// following the returned cookies; each reply's encoded size is compared with the limit, the concatenation
// with the directory.

import (
	"encoding/json"
	"fmt"
	"math/rand"
	"sort"
	"strings"
)

func init() {
	checks["C26"] = checkC26
	replays["C26"] = func(r *Result, raw json.RawMessage) {
		var rp struct {
			Case c26Case `json:"case"`
		}
		if err := json.Unmarshal(raw, &rp); err != nil {
			r.Notes = append(r.Notes, "replay: "+err.Error())
			return
		}
		r.noteCase(fmt.Sprint(rp.Case), true)
		for _, v := range judgeC26(rp.Case) {
			v.Ops, v.Case = rp.Case.strings(), rp.Case
			r.violate(v)
		}
	}
}

const nfsErrTooSmall = 10005

type c26Case struct {
	NameLens []int  `json:"namelens"` // one entry per name: its length (names are made unique)
	Plus     bool   `json:"plus"`
	Count    uint32 `json:"count"`
	DirCache bool   `json:"dircache"`
	DirCount uint32 `json:"dircount,omitempty"` // READDIRPLUS dircount hint when it differs from maxcount (0: same as Count)
}

func (c c26Case) strings() []string {
	return []string{fmt.Sprintf("dir with name lengths %v; plus=%v count=%d dircount=%d dircache=%v", c.NameLens, c.Plus, c.Count, c.DirCount, c.DirCache)}
}

func nameOfLen(i, l int) string {
	s := fmt.Sprintf("%d", i)
	if len(s) >= l {
		return string(rune('a'+i%26)) + strings.Repeat("z", l-1)
	}
	return s + strings.Repeat("x", l-len(s))
}

func pad4(n int) int { return (n + 3) &^ 3 }

func judgeC26(c c26Case) []Violation {
	var vs []Violation
	bad := func(class, what string) {
		vs = append(vs, Violation{Class: class, What: what + fmt.Sprintf(" [plus=%v count=%d]", c.Plus, c.Count)})
	}
	fs := NewRefFS()
	fs.Mkdir("/dir", 0o755)
	var names []string
	used := map[string]bool{}
	for i, l := range c.NameLens {
		n := nameOfLen(i, l)
		if used[n] || l < 1 {
			continue
		}
		used[n] = true
		names = append(names, n)
		switch i % 3 {
		case 0:
			f, _ := fs.Create("/dir/" + n)
			f.Close()
		case 1:
			fs.Mkdir("/dir/"+n, 0o755)
		default:
			fs.Symlink("t", "/dir/"+n)
		}
	}
	sort.Strings(names)
	w := newWorldOn(fs, SrvCfg{AttrTTL: 5e9, DirCache: c.DirCache})
	defer w.Close()
	cred := rootCred()
	dh, ok := w.handleFor("/dir", cred)
	if !ok {
		return nil
	}
	proc := uint32(16)
	fixed, perEntry := 88+8+8, 24
	if c.Plus {
		proc, perEntry = 17, 24+88+16
	}
	var got []DirEntD
	cookie := uint64(0)
	verf := zeroVerf
	complete := false
	for page := 0; page < 2000; page++ {
		var res NfsRes
		if c.Plus {
			// maxcount bounds the reply; dircount is only a hint about the names (Linux clients send about maxcount/8)
			dc := c.Count
			if c.DirCount != 0 {
				dc = c.DirCount
			}
			_, res = w.nfs(17, cred, argReaddirplus(dh, cookie, verf, dc, c.Count))
		} else {
			_, res = w.nfs(16, cred, argReaddir(dh, cookie, verf, c.Count))
		}
		if res.Bad {
			bad("bad-reply", "undecodable reply")
			return vs
		}
		remaining := len(names) - len(got)
		if res.Status == nfsErrTooSmall {
			// legitimate only when not even the next entry fits
			if remaining > 0 {
				next := names[len(got)]
				if need := fixed + perEntry + pad4(len(next)); uint32(need) <= c.Count {
					bad("toosmall-but-fits", fmt.Sprintf("NFS3ERR_TOOSMALL although the next entry (%d byte name) needs only %d bytes", len(next), need))
				}
			} else if uint32(fixed) <= c.Count {
				bad("toosmall-but-fits", "NFS3ERR_TOOSMALL although nothing remains to be listed")
			}
			return vs
		}
		if res.Status != 0 {
			bad("listing-failed", fmt.Sprintf("proc %d failed with status %d", proc, res.Status))
			return vs
		}
		if size := res.Len - 4; uint32(size) > c.Count {
			cls := "reply-exceeds-count"
			if int(c.Count) < fixed {
				cls = "reply-exceeds-tiny-count" // the limit cannot even hold an empty listing
			}
			bad(cls, fmt.Sprintf("reply body of %d bytes for a limit of %d (page %d, %d entries)", size, c.Count, page, len(res.Entries)))
		}
		if len(res.Entries) == 0 && !res.Eof {
			bad("no-progress", fmt.Sprintf("page %d returned no entry and no eof", page))
			return vs
		}
		if len(res.Entries) == 0 && remaining > 0 {
			bad("early-eof", fmt.Sprintf("eof with %d entries still unlisted", remaining))
			return vs
		}
		got = append(got, res.Entries...)
		if len(res.Verf) == 8 {
			verf = res.Verf
		}
		if res.Eof {
			complete = true
			break
		}
		cookie = res.Entries[len(res.Entries)-1].Cookie
	}
	if !complete {
		bad("never-eof", "2000 pages without eof")
		return vs
	}
	var gotNames []string
	for _, e := range got {
		gotNames = append(gotNames, e.Name)
	}
	sort.Strings(gotNames)
	if fmt.Sprint(gotNames) != fmt.Sprint(names) {
		bad("listing-incomplete", fmt.Sprintf("concatenated pages hold %d entries, the directory %d (missing or duplicated names)", len(gotNames), len(names)))
	}
	for _, e := range got {
		_, lr := w.nfs(3, cred, argDirop(dh, e.Name))
		if lr.Status == 0 && lr.Obj != nil && lr.Obj.FileID != e.FileID {
			bad("entry-fileid", fmt.Sprintf("entry %q listed with fileid %x, LOOKUP says %x", e.Name, e.FileID, lr.Obj.FileID))
			break
		}
	}
	return vs
}

func checkC26(r *Result, rng *rand.Rand, thorough bool) {
	traces, doneTraces := collectTraces(200)
	defer func() {
		doneTraces()
		compareSrv(r, "srv", *traces)
	}()
	lens := []int{1, 2, 3, 4, 5, 7, 8, 9, 31, 32, 33, 63, 64, 65, 100, 127, 128, 129, 200, 253, 254, 255}
	counts := []uint32{0, 1, 50, 100, 103, 104, 105, 127, 128, 129, 131, 132, 150, 200, 231, 232, 233, 256, 300, 383, 384, 385, 400, 487, 488, 489, 512, 1000, 1024, 4096, 8192, 32768, 65536, 1 << 20, 0xffffffff}
	ncases := 400
	if thorough {
		ncases = 4000
	}
	r.Rule = "directories of 0..24 entries (files, directories, symlinks) with name lengths drawn from {1..9,31..33,63..65,100,127..129,200,253..255} x READDIR/READDIRPLUS x count/maxcount in {0,1,50,100..105,127..132,150,200,231..233,256,300,383..385,400,487..489,512,1000,1024,4096,8192,32768,65536,1M,2^32-1} and random values, cookies followed to eof; every length 1..255 once with a tight count"
	run := func(c c26Case) {
		vs := judgeC26(c)
		r.noteCase(fmt.Sprint(c), true)
		r.count(fmt.Sprintf("plus=%v", c.Plus))
		for _, v := range vs {
			dup := false
			for _, ex := range r.Violations {
				if ex.Class == v.Class {
					dup = true
				}
			}
			if dup {
				continue
			}
			// shrink the directory
			small := c
			for len(small.NameLens) > 1 {
				shr := false
				for i := range small.NameLens {
					cand := small
					cand.NameLens = append(append([]int{}, small.NameLens[:i]...), small.NameLens[i+1:]...)
					if hasClass(judgeC26(cand), v.Class) {
						small, shr = cand, true
						break
					}
				}
				if !shr {
					break
				}
			}
			for _, sv := range judgeC26(small) {
				if sv.Class == v.Class {
					v = sv
				}
			}
			v.Ops, v.Case = small.strings(), small
			r.violate(v)
		}
	}
	for i := 0; i < ncases; i++ {
		n := rng.Intn(25)
		c := c26Case{Plus: rng.Intn(2) == 0, DirCache: rng.Intn(2) == 0}
		for j := 0; j < n; j++ {
			c.NameLens = append(c.NameLens, lens[rng.Intn(len(lens))])
		}
		if rng.Intn(4) == 0 {
			c.Count = uint32(rng.Intn(3000))
		} else {
			c.Count = counts[rng.Intn(len(counts))]
		}
		if c.Plus && rng.Intn(2) == 0 {
			c.DirCount = []uint32{c.Count/8 + 1, 8, 150, 1 << 20, c.Count*4 + 1}[rng.Intn(5)]
		}
		run(c)
		if i < 2 {
			r.sample(c.strings())
		}
	}
	// every name length once, with the tightest count that fits exactly that entry and one that is 1 byte short
	for l := 1; l <= 255; l++ {
		for _, plus := range []bool{false, true} {
			need := 104 + 24 + pad4(l)
			if plus {
				need = 104 + 128 + pad4(l)
			}
			for _, cnt := range []int{need, need - 1, need + 4} {
				if !thorough && l%8 != 0 && l < 250 {
					continue
				}
				run(c26Case{NameLens: []int{l, l}, Plus: plus, Count: uint32(cnt)})
			}
		}
	}
}
