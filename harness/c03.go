package main

// C03 — CREATE never destroys or silently reuses an existing object: every create mode against every kind of
// existing object, with sattr3 combinations and verifiers, judged on the reply status and on the backend tree
// (names, kinds, file bytes, link targets) before and after.

import (
	"bytes"
	"fmt"
	"math/rand"
	"os"
	"time"
)

func init() {
	checks["C03"] = checkC03
	replays["C03"] = caseReplay(judgeC03)
}

const nfsErrExist = 17

func judgeC03(c SrvCase) []Violation {
	w := c.world()
	defer w.Close()
	var vs []Violation
	bad := func(class, what string, o SOp) {
		vs = append(vs, Violation{Class: class, What: what, Detail: o.String()})
	}
	madeBy := map[string][]byte{} // path -> verifier of the EXCLUSIVE create that made the object now there
	for _, o := range c.Ops {
		p := join(o.Dir, o.Name)
		before := w.fs.TreeSig()
		info, lerr := w.fs.Lstat(p)
		exists := lerr == nil
		res := w.do(o)
		after := w.fs.TreeSig()
		if res.NoHandle {
			continue
		}
		if o.Kind != "create" {
			// remove / write / rename-style ops in between: any change of the object at p forgets its creator
			if before != after {
				for k := range madeBy {
					delete(madeBy, k)
				}
			}
			continue
		}
		if res.Res.Bad {
			bad("bad-reply", "undecodable CREATE reply", o)
			continue
		}
		st := res.Res.Status
		if !exists {
			if st == 0 {
				ni, err := w.fs.Lstat(p)
				if err != nil || !ni.Mode().IsRegular() {
					bad("create-missing", "CREATE replied OK but no regular file exists at the name", o)
				}
				if o.How == 2 {
					madeBy[p] = o.Verf
				} else {
					delete(madeBy, p)
				}
			} else if before != after {
				bad("failed-create-changed-tree", fmt.Sprintf("CREATE failed with %d but changed the tree", st), o)
			}
			continue
		}
		kind := "file"
		if info.IsDir() {
			kind = "dir"
		} else if info.Mode()&os.ModeSymlink != 0 {
			kind = "symlink"
		}
		switch o.How {
		case 1: // GUARDED
			if st != nfsErrExist {
				bad("guarded-not-exist", fmt.Sprintf("GUARDED CREATE over an existing %s replied %d, want NFS3ERR_EXIST", kind, st), o)
			}
			if before != after {
				bad("guarded-changed-object", fmt.Sprintf("GUARDED CREATE over an existing %s changed the tree", kind), o)
			}
		case 2: // EXCLUSIVE
			retrans := madeBy[p] != nil && bytes.Equal(madeBy[p], o.Verf)
			if st == 0 && !retrans {
				if madeBy[p] != nil {
					bad("exclusive-other-verifier", fmt.Sprintf("EXCLUSIVE CREATE over a file made by an EXCLUSIVE CREATE with another verifier (%x) replied OK", madeBy[p]), o)
				} else {
					bad("exclusive-over-foreign-object", fmt.Sprintf("EXCLUSIVE CREATE over an existing %s that no EXCLUSIVE CREATE made replied OK", kind), o)
				}
			}
			if st != 0 && st != nfsErrExist {
				bad("exclusive-status", fmt.Sprintf("EXCLUSIVE CREATE over an existing %s replied %d, want NFS3ERR_EXIST", kind, st), o)
			}
			if before != after {
				bad("exclusive-changed-object", fmt.Sprintf("EXCLUSIVE CREATE over an existing %s changed the tree", kind), o)
			}
		default: // UNCHECKED
			if o.Sa.Size == nil || kind != "file" {
				if before != after {
					bad("unchecked-changed-data", fmt.Sprintf("UNCHECKED CREATE without size over an existing %s changed data or the tree", kind), o)
				}
			} else if st == 0 {
				got, _ := w.fs.FileData(p)
				old := w2data(before, p)
				want := resize(old, int(*o.Sa.Size))
				if !bytes.Equal(got, want) && !bytes.Equal(got, old) {
					bad("unchecked-size", fmt.Sprintf("UNCHECKED CREATE size=%d over an existing file left %d bytes that are not the old data resized", *o.Sa.Size, len(got)), o)
				}
			} else if before != after {
				bad("failed-create-changed-tree", fmt.Sprintf("CREATE failed with %d but changed the tree", st), o)
			}
		}
	}
	return vs
}

// w2data extracts the hex data of file p from a TreeSig.
func w2data(sig, p string) []byte {
	key := "f:" + p + ":"
	i := bytes.Index([]byte(sig), []byte(key))
	if i < 0 {
		return nil
	}
	rest := sig[i+len(key):]
	j := bytes.IndexByte([]byte(rest), ';')
	return unhx(rest[:j])
}

func genC03(rng *rand.Rand) SrvCase {
	c := SrvCase{}
	c.Cfg.AttrTTL = []time.Duration{time.Nanosecond, 5 * time.Second}[rng.Intn(2)]
	c.Cfg.Neg = rng.Intn(2) == 0
	c.Cfg.DirCache = rng.Intn(2) == 0
	c.Seed = append(c.Seed, "file /x "+hx(randBytes(rng, 1+rng.Intn(20))))
	switch rng.Intn(6) {
	case 0: // nothing at /t
	case 1:
		c.Seed = append(c.Seed, "file /t "+hx(randBytes(rng, 1+rng.Intn(30))))
	case 2:
		c.Seed = append(c.Seed, "mkdir /t", "file /t/k "+hx(randBytes(rng, 3)))
	case 3:
		c.Seed = append(c.Seed, "link /t x")
	case 4:
		c.Seed = append(c.Seed, "link /t nowhere")
	case 5:
		c.Seed = append(c.Seed, "file /t")
	}
	verf := func() []byte {
		return [][]byte{{0, 0, 0, 0, 0, 0, 0, 0}, {1, 0, 0, 0, 0, 0, 0, 0}, {0, 0, 0, 0, 0, 0, 0, 1}, {9, 9, 9, 9, 9, 9, 9, 9}}[rng.Intn(4)]
	}
	n := 1 + rng.Intn(6)
	for i := 0; i < n; i++ {
		switch k := rng.Intn(12); {
		case k < 8:
			o := SOp{Kind: "create", Dir: "/", Name: "t", How: uint32(rng.Intn(3))}
			if rng.Intn(6) == 0 {
				// a legal name that only differs from the taken one by surrounding white space: its own object
				o.Name = []string{"t ", " t", "t\t", " t ", "t  "}[rng.Intn(5)]
			}
			if o.How == 2 {
				o.Verf = verf()
			} else {
				if rng.Intn(2) == 0 {
					o.Sa.Mode = p32(uint32([]int{0o644, 0o600, 0o7777, 0}[rng.Intn(4)]))
				}
				if rng.Intn(3) == 0 {
					o.Sa.UID = p32(uint32(rng.Intn(3)))
				}
				if rng.Intn(3) == 0 {
					o.Sa.GID = p32(uint32(rng.Intn(3)))
				}
				if rng.Intn(4) == 0 {
					o.Sa.Size = p64(uint64(rng.Intn(40)))
				}
				o.Sa.AtimeHow = uint32(rng.Intn(3))
				o.Sa.MtimeHow = uint32(rng.Intn(3))
			}
			c.Ops = append(c.Ops, o)
		case k < 9:
			c.Ops = append(c.Ops, SOp{Kind: "remove", Dir: "/", Name: "t"})
		case k < 10:
			c.Ops = append(c.Ops, SOp{Kind: "write", Dir: "/t", Off: uint64(rng.Intn(5)), Data: randBytes(rng, 1+rng.Intn(8))})
		case k < 11:
			c.Ops = append(c.Ops, SOp{Kind: "lookup", Dir: "/", Name: "t"})
		default:
			c.Ops = append(c.Ops, SOp{Kind: "rename", Dir: "/", Name: "x", Dir2: "/", Name2: "t"})
		}
	}
	if rng.Intn(8) == 0 {
		// the verifier remembered for a name is the one of the create that made the CURRENT file: exclusive create,
		// remove, exclusive create with another verifier, then the first verifier again (must be refused) and the
		// second again (a retransmission: accepted)
		a, b := verf(), verf()
		for bytes.Equal(a, b) {
			b = verf()
		}
		c.Ops = append(c.Ops, SOp{Kind: "remove", Dir: "/", Name: "t"},
			SOp{Kind: "create", Dir: "/", Name: "t", How: 2, Verf: a}, SOp{Kind: "remove", Dir: "/", Name: "t"},
			SOp{Kind: "create", Dir: "/", Name: "t", How: 2, Verf: b}, SOp{Kind: "create", Dir: "/", Name: "t", How: 2, Verf: a},
			SOp{Kind: "create", Dir: "/", Name: "t", How: 2, Verf: b})
	}
	return c
}

func checkC03(r *Result, rng *rand.Rand, thorough bool) {
	traces, doneTraces := collectTraces(200)
	defer func() {
		doneTraces()
		compareSrv(r, "srv", *traces)
	}()
	ncases := 1500
	if thorough {
		ncases = 10000
	}
	r.Rule = "every create mode (UNCHECKED/GUARDED/EXCLUSIVE) x existing object (none, file with data, empty file, directory, symlink, dangling symlink) x sattr3 combination x verifier, in short histories with REMOVE/WRITE/LOOKUP/RENAME in between; status and backend tree before/after"
	for i := 0; i < ncases; i++ {
		c := genC03(rng)
		vs := judgeC03(c)
		r.noteCase(fmt.Sprint(c.strings()), true)
		for _, o := range c.Ops {
			if o.Kind == "create" {
				r.count(fmt.Sprintf("create how=%d", o.How))
			}
		}
		if len(c.Seed) > 1 {
			r.count("existing:" + c.Seed[1][:4])
		} else {
			r.count("existing:none")
		}
		if len(vs) > 0 {
			reportCase(r, c, vs, judgeC03)
		}
		if i < 2 {
			r.sample(c.strings())
		}
	}
}
