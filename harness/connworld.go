package main

// Peers: in-memory connections served by the real connection loop (record marking), whose server side reports a
// chosen peer address — IPv4, IPv6, IPv4-mapped — so that what the loop derives from the connection (client
// address for host filtering and per-IP limiting, the per-call credential) can be exercised with several
// clients and several identities per connection.

import (
	"encoding/binary"
	"fmt"
	"io"
	"net"
	"time"

	"github.com/absfs/absnfs"
)

type peerConn struct {
	net.Conn
	remote net.Addr
}

func (c *peerConn) RemoteAddr() net.Addr { return c.remote }

type Peer struct {
	c   net.Conn
	xid uint32
	ip  string
}

// servePeer starts the real record-marking connection loop of s on one end of a pipe and returns the client end.
func servePeer(s *Srv, ip string, port int) *Peer {
	cl, sv := net.Pipe()
	go absnfs.VerifServeConn(s.S, s.H, &peerConn{Conn: sv, remote: &net.TCPAddr{IP: net.ParseIP(ip), Port: port}}, true)
	return &Peer{c: cl, xid: 100, ip: ip}
}

func (p *Peer) Close() { p.c.Close() }

// call sends one record-marked call with the given credential; returns (reply_stat, accept_stat, results, err).
func (p *Peer) call(prog, vers, proc uint32, cred Cred, args []byte) (uint32, uint32, []byte, error) {
	p.xid++
	msg := cat(encCallHdr(p.xid, 2, prog, vers, proc, cred.Flavor, cred.body(), 0, nil), args)
	p.c.SetDeadline(time.Now().Add(10 * time.Second))
	if _, err := p.c.Write(frame(msg, nil)); err != nil {
		return 0, 0, nil, err
	}
	var hdr [4]byte
	if _, err := io.ReadFull(p.c, hdr[:]); err != nil {
		return 0, 0, nil, err
	}
	h := binary.BigEndian.Uint32(hdr[:])
	if h&0x80000000 == 0 || h&0x7fffffff > 1<<21 {
		return 0, 0, nil, fmt.Errorf("not a single-fragment record header: %#x", h)
	}
	buf := make([]byte, h&0x7fffffff)
	if _, err := io.ReadFull(p.c, buf); err != nil {
		return 0, 0, nil, err
	}
	if len(buf) < 12 || binary.BigEndian.Uint32(buf) != p.xid || binary.BigEndian.Uint32(buf[4:]) != 1 {
		return 0, 0, nil, fmt.Errorf("reply does not echo the xid / is not a REPLY")
	}
	rs := binary.BigEndian.Uint32(buf[8:])
	if rs != 0 {
		return rs, 0, nil, nil // MSG_DENIED
	}
	// accepted: verifier (flavor, opaque), accept_stat, results
	if len(buf) < 24 {
		return rs, 0, nil, fmt.Errorf("short accepted reply")
	}
	vl := int(binary.BigEndian.Uint32(buf[16:]))
	off := 20 + (vl+3)&^3
	if len(buf) < off+4 {
		return rs, 0, nil, fmt.Errorf("short accepted reply")
	}
	return rs, binary.BigEndian.Uint32(buf[off:]), buf[off+4:], nil
}
