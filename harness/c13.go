package main

// C13 — codecs: correspondence of every Go codec with the Lean model on the same byte strings, and
// property oracles stated directly from the property (round trip, exact consumption, limits, bounded
// allocation, reassembly, write∘read = id).

import (
	"bytes"
	"encoding/binary"
	"fmt"
	"io"
	"math/rand"
	"runtime"
	"strings"

	"github.com/absfs/absnfs"
)

func init() {
	checks["C13"] = checkC13
	replays["C13"] = opsReplay("codec", runCodecOps, codecReplayOracle)
}

// codecReplayOracle re-judges the ops of a replay file whose verdict does not need the model: what a refused
// file handle leaves in the stream.
func codecReplayOracle(r *Result, ops, impl []string) {
	for i, op := range ops {
		f := strings.Fields(op)
		if len(f) != 3 || f[0] != "xdr" || f[1] != "decfh" || i >= len(impl) {
			continue
		}
		in := unhx(f[2])
		if len(in) < 4 {
			continue
		}
		l := binary.BigEndian.Uint32(in)
		padded := int((l + 3) &^ 3)
		if l > 64 || l == 8 || len(in) < 4+padded {
			continue
		}
		if want := "none rest=" + hx(in[4+padded:]); impl[i] != want {
			r.violate(Violation{Class: "C13/fh-refusal-desync", What: fmt.Sprintf("a refused %d-byte file handle left %q in the stream, expected %q (the handle and its padding consumed)", l, impl[i], want), Ops: []string{op}})
		}
	}
}

// the oracle's own calls of the decoders: a panic becomes an error (the comparison with the model reports the input)
func safeDecStr(rd io.Reader) (s string, err error) {
	defer func() {
		if e := recover(); e != nil {
			err = fmt.Errorf("panic: %v", e)
		}
	}()
	return absnfs.VerifXdrDecodeString(rd)
}

func safeDecFh(rd io.Reader) (h uint64, err error) {
	defer func() {
		if e := recover(); e != nil {
			err = fmt.Errorf("panic: %v", e)
		}
	}()
	return absnfs.VerifXdrDecodeFileHandle(rd)
}

func u32(v uint32) []byte { b := make([]byte, 4); binary.BigEndian.PutUint32(b, v); return b }
func u64(v uint64) []byte { b := make([]byte, 8); binary.BigEndian.PutUint64(b, v); return b }

func xdrOpaque(s []byte) []byte {
	out := append(u32(uint32(len(s))), s...)
	for len(out)%4 != 0 {
		out = append(out, 0)
	}
	return out
}

func rest(r *bytes.Reader) []byte { b, _ := io.ReadAll(r); return b }

// runCodecOp executes one codec op line against the real code and returns the canonical result line.
func runCodecOp(op string) (line string) {
	defer func() {
		if e := recover(); e != nil {
			line = fmt.Sprintf("panic %v", e)
		}
	}()
	f := strings.Fields(op)
	switch {
	case f[0] == "xdr" && f[1] == "decstr":
		r := bytes.NewReader(unhx(f[2]))
		s, err := absnfs.VerifXdrDecodeString(r)
		if err != nil {
			return "none"
		}
		return "some " + hx([]byte(s)) + " rest=" + hx(rest(r))
	case f[0] == "xdr" && f[1] == "encstr":
		var b bytes.Buffer
		absnfs.VerifXdrEncodeString(&b, string(unhx(f[2])))
		return hx(b.Bytes())
	case f[0] == "xdr" && f[1] == "decfh":
		r := bytes.NewReader(unhx(f[2]))
		h, err := absnfs.VerifXdrDecodeFileHandle(r)
		if err != nil {
			// what a refusal leaves in the stream matters too: a wrong-size handle is skipped with its padding
			return "none rest=" + hx(rest(r))
		}
		return fmt.Sprintf("some %d rest=%s", h, hx(rest(r)))
	case f[0] == "xdr" && f[1] == "encfh":
		var v uint64
		fmt.Sscan(f[2], &v)
		var b bytes.Buffer
		absnfs.VerifXdrEncodeFileHandle(&b, v)
		return hx(b.Bytes())
	case f[0] == "xdr" && f[1] == "u32":
		r := bytes.NewReader(unhx(f[2]))
		v, err := absnfs.VerifXdrDecodeUint32(r)
		if err != nil {
			return "none"
		}
		return fmt.Sprintf("some %d rest=%s", v, hx(rest(r)))
	case f[0] == "xdr" && f[1] == "decsattr":
		r := bytes.NewReader(unhx(f[2]))
		s, err := absnfs.VerifDecodeSattr3(r)
		if err != nil {
			return "none"
		}
		opt := func(set bool, v uint64) string {
			if set {
				return fmt.Sprint(v)
			}
			return "-"
		}
		return fmt.Sprintf("some mode=%s uid=%s gid=%s size=%s atime=%d:%d:%d mtime=%d:%d:%d rest=%s",
			opt(s.SetMode, uint64(s.Mode)), opt(s.SetUID, uint64(s.UID)), opt(s.SetGID, uint64(s.GID)), opt(s.SetSize, s.Size),
			s.SetAtime, s.AtimeSec, s.AtimeNsec, s.SetMtime, s.MtimeSec, s.MtimeNsec, hx(rest(r)))
	case f[0] == "rpc" && f[1] == "deccall":
		r := bytes.NewReader(unhx(f[2]))
		c, err := absnfs.DecodeRPCCall(r)
		if err != nil {
			return "none"
		}
		return fmt.Sprintf("some xid=%d rpcv=%d prog=%d vers=%d proc=%d cred=%d:%s verf=%d:%s rest=%s",
			c.Header.Xid, c.Header.RPCVersion, c.Header.Program, c.Header.Version, c.Header.Procedure,
			c.Credential.Flavor, hx(c.Credential.Body), c.Verifier.Flavor, hx(c.Verifier.Body), hx(rest(r)))
	case f[0] == "rpc" && f[1] == "encreply":
		var xid, st, acc, vf uint32
		fmt.Sscan(f[2], &xid)
		fmt.Sscan(f[3], &st)
		fmt.Sscan(f[4], &acc)
		fmt.Sscan(f[5], &vf)
		rep := &absnfs.RPCReply{Header: absnfs.RPCMsgHeader{Xid: xid}, Status: st, AcceptStatus: acc,
			Verifier: absnfs.RPCVerifier{Flavor: vf, Body: unhx(f[6])}, Data: unhx(f[7])}
		if rep.Data.([]byte) == nil {
			rep.Data = []byte{}
		}
		var b bytes.Buffer
		if err := absnfs.EncodeRPCReply(&b, rep); err != nil {
			return "error"
		}
		return hx(b.Bytes())
	case f[0] == "rpc" && f[1] == "authsys":
		a, err := absnfs.ParseAuthSysCredential(unhx(f[2]))
		if err != nil {
			return "none"
		}
		g := make([]string, len(a.AuxGIDs))
		for i, x := range a.AuxGIDs {
			g[i] = fmt.Sprint(x)
		}
		return fmt.Sprintf("some stamp=%d machine=%s uid=%d gid=%d gids=%s", a.Stamp, hx([]byte(a.MachineName)), a.UID, a.GID, strings.Join(g, ","))
	case f[0] == "rm" && f[1] == "read":
		var m int
		fmt.Sscan(f[2], &m)
		r := bytes.NewReader(unhx(f[3]))
		rd := absnfs.NewRecordMarkingReader(r)
		rd.MaxRecordSize = m
		d, err := rd.ReadRecord()
		if err != nil {
			return "none"
		}
		return "some " + hx(d) + " rest=" + hx(rest(r))
	case f[0] == "rm" && f[1] == "write":
		var m int
		fmt.Sscan(f[2], &m)
		var b bytes.Buffer
		w := absnfs.NewRecordMarkingWriterWithSize(&b, m)
		if err := w.WriteRecord(unhx(f[3])); err != nil {
			return "error"
		}
		return hx(b.Bytes())
	}
	return "bad-op"
}

func runCodecOps(ops []string) []string {
	out := make([]string, len(ops))
	for i, op := range ops {
		out[i] = runCodecOp(op)
	}
	return out
}

func allocDelta(f func()) uint64 {
	var a, b runtime.MemStats
	runtime.GC()
	runtime.ReadMemStats(&a)
	f()
	runtime.ReadMemStats(&b)
	return b.TotalAlloc - a.TotalAlloc
}

func noNul(rng *rand.Rand, n int) []byte {
	b := randBytes(rng, n)
	for i := range b {
		if b[i] == 0 {
			b[i] = byte(1 + rng.Intn(255))
		}
	}
	return b
}

func encAuthSys(stamp uint32, machine []byte, uid, gid uint32, gids []uint32) []byte {
	out := append(u32(stamp), xdrOpaque(machine)...)
	out = append(out, u32(uid)...)
	out = append(out, u32(gid)...)
	out = append(out, u32(uint32(len(gids)))...)
	for _, g := range gids {
		out = append(out, u32(g)...)
	}
	return out
}

func encCallHdr(xid, rpcv, prog, vers, proc, cf uint32, cred []byte, vf uint32, verf []byte) []byte {
	out := u32(xid)
	out = append(out, u32(0)...)
	for _, v := range []uint32{rpcv, prog, vers, proc, cf} {
		out = append(out, u32(v)...)
	}
	out = append(out, xdrOpaque(cred)...)
	out = append(out, u32(vf)...)
	out = append(out, xdrOpaque(verf)...)
	return out
}

func checkC13(r *Result, rng *rand.Rand, thorough bool) {
	r.Rule = "codec op lines generated from structured values (boundary lengths 0..9, limit-1..limit+1, random contents), every truncation point of sampled encodings, random byte mutations and random fragmentations; a case is non-trivial when the input is a valid encoding, a truncation/mutation of one, or a declared length at a limit boundary; distinct = distinct op lines"
	var ops []string
	add := func(kind, op string) {
		ops = append(ops, op)
		r.count(kind)
	}
	reps := 3
	if thorough {
		reps = 40
	}
	strLens := []int{0, 1, 2, 3, 4, 5, 6, 7, 8, 9, 254, 255, 256, 8191, 8192}
	// ---- oracles + op generation: strings
	for rep := 0; rep < reps; rep++ {
		for _, n := range strLens {
			s := noNul(rng, n)
			tail := randBytes(rng, rng.Intn(6))
			enc := append(xdrOpaque(s), tail...)
			add("decstr-valid", "xdr decstr "+hx(enc))
			add("encstr", "xdr encstr "+hx(s))
			// oracle: round trip + exact consumption
			rd := bytes.NewReader(enc)
			got, err := safeDecStr(rd)
			pad := (4 - n%4) % 4
			if err != nil || got != string(s) || !bytes.Equal(rest(bytes.NewReader(enc[4+n+pad:])), tail) || rd.Len() != len(tail) {
				r.violate(Violation{Class: "C13/string-roundtrip", What: fmt.Sprintf("string of %d bytes did not round-trip exactly (err=%v, left=%d want %d)", n, err, rd.Len(), len(tail)), Ops: []string{"xdr decstr " + hx(enc)}})
			}
			var eb bytes.Buffer
			absnfs.VerifXdrEncodeString(&eb, string(s))
			if !bytes.Equal(eb.Bytes(), xdrOpaque(s)) {
				r.violate(Violation{Class: "C13/string-encode", What: "xdrEncodeString is not len‖data‖zero-pad", Ops: []string{"xdr encstr " + hx(s)}})
			}
			// NUL inside: must be rejected
			if n > 0 {
				z := append([]byte(nil), s...)
				z[rng.Intn(n)] = 0
				add("decstr-nul", "xdr decstr "+hx(xdrOpaque(z)))
			}
			// truncations
			if n <= 9 || rep == 0 {
				cuts := []int{0, 1, 3, 4, 5, 4 + n - 1, 4 + n, 4 + n + pad - 1}
				if n <= 9 {
					cuts = nil
					for k := 0; k < 4+n+pad; k++ {
						cuts = append(cuts, k)
					}
				}
				for _, k := range cuts {
					if k < 0 || k >= 4+n+pad {
						continue
					}
					add("decstr-trunc", "xdr decstr "+hx(xdrOpaque(s)[:k]))
					if _, err := safeDecStr(bytes.NewReader(xdrOpaque(s)[:k])); err == nil {
						r.violate(Violation{Class: "C13/string-truncation-accepted", What: fmt.Sprintf("truncated string encoding (%d of %d bytes) accepted", k, 4+n+pad), Ops: []string{"xdr decstr " + hx(xdrOpaque(s)[:k])}})
					}
				}
			}
		}
		// oversize declared lengths: rejected, no big allocation
		for _, n := range []uint32{8193, 8194, 8195, 8196, 65536, 1 << 20, 1 << 30, 0x7fffffff, 0x80000000, 0xfffffffc, 0xfffffffd, 0xfffffffe, 0xffffffff} {
			in := append(u32(n), randBytes(rng, 16)...)
			add("decstr-oversize", "xdr decstr "+hx(in))
			var err error
			d := allocDelta(func() { _, err = safeDecStr(bytes.NewReader(in)) })
			if err == nil || d > 16384 {
				r.violate(Violation{Class: "C13/string-limit", What: fmt.Sprintf("declared string length %d: err=%v allocated=%d bytes", n, err, d), Ops: []string{"xdr decstr " + hx(in)}})
			}
		}
		// complete encodings just beyond the documented limits must be rejected (not merely short reads)
		for _, n := range []int{8193, 8196, 16384} {
			in := xdrOpaque(noNul(rng, n))
			add("decstr-oversize-full", "xdr decstr "+hx(in))
			if _, err := safeDecStr(bytes.NewReader(in)); err == nil {
				r.violate(Violation{Class: "C13/string-limit", What: fmt.Sprintf("a complete %d-byte string (limit 8192) was accepted", n), Ops: []string{"xdr decstr " + hx(in)}})
			}
		}
		for _, n := range []int{401, 404, 800} {
			big := randBytes(rng, n)
			for which := 0; which < 2; which++ {
				var in []byte
				if which == 0 {
					in = encCallHdr(1, 2, 100003, 3, 0, 1, big, 0, nil)
				} else {
					in = encCallHdr(1, 2, 100003, 3, 0, 1, []byte{1}, 0, big)
				}
				add("deccall-oversize-full", "rpc deccall "+hx(in))
				if _, err := absnfs.DecodeRPCCall(bytes.NewReader(in)); err == nil {
					r.violate(Violation{Class: "C13/auth-limit", What: fmt.Sprintf("a complete %d-byte auth body (limit 400) was accepted", n), Ops: []string{"rpc deccall " + hx(in)}})
				}
			}
		}
		for _, n := range []int{65, 68, 128} {
			in := xdrOpaque(randBytes(rng, n))
			add("decfh-oversize-full", "xdr decfh "+hx(in))
			var err error
			d := allocDelta(func() { _, err = safeDecFh(bytes.NewReader(in)) })
			if err == nil {
				r.violate(Violation{Class: "C13/fh-limit", What: fmt.Sprintf("a complete %d-byte file handle (limit 64) was accepted", n), Ops: []string{"xdr decfh " + hx(in)}})
			}
			_ = d
		}
		// ---- file handles
		for _, l := range []uint32{0, 1, 2, 3, 4, 5, 6, 7, 8, 9, 10, 11, 12, 13, 31, 33, 61, 62, 63, 64, 65, 1 << 20, 0xffffffff} {
			body := randBytes(rng, int((l+3)&^3)%128)
			if l > 64 {
				body = randBytes(rng, 16)
			}
			in := append(u32(l), body...)
			add("decfh", "xdr decfh "+hx(in))
			// the same handle followed by the next item of the argument list, and cut short inside its padding
			withNext := append(append([]byte{}, in...), xdrOpaque([]byte("next-item"))...)
			add("decfh", "xdr decfh "+hx(withNext))
			if l <= 64 && l != 8 {
				// oracle (independent of the model): a complete wrong-size handle is consumed with its padding,
				// so the next item decodes as it was encoded
				rd := bytes.NewReader(withNext)
				_, err := safeDecFh(rd)
				next, nerr := safeDecStr(rd)
				if err == nil || nerr != nil || next != "next-item" || rd.Len() != 0 {
					r.violate(Violation{Class: "C13/fh-refusal-desync", What: fmt.Sprintf("after a refused %d-byte file handle the next item decodes as %q (err %v, %d bytes left) instead of \"next-item\": the handle was not consumed with its padding", l, next, nerr, rd.Len()), Ops: []string{"xdr decfh " + hx(withNext)}})
				}
			}
			if l <= 64 && len(in) > 5 {
				add("decfh", "xdr decfh "+hx(in[:len(in)-1-rng.Intn(2)]))
			}
			if l > 64 {
				var err error
				d := allocDelta(func() { _, err = safeDecFh(bytes.NewReader(in)) })
				if err == nil || d > 8192 {
					r.violate(Violation{Class: "C13/fh-limit", What: fmt.Sprintf("declared handle length %d: err=%v allocated=%d", l, err, d), Ops: []string{"xdr decfh " + hx(in)}})
				}
			}
		}
		for i := 0; i < 6; i++ {
			h := rng.Uint64()
			if i == 0 {
				h = 0
			} else if i == 1 {
				h = ^uint64(0)
			}
			add("encfh", fmt.Sprintf("xdr encfh %d", h))
			var b bytes.Buffer
			absnfs.VerifXdrEncodeFileHandle(&b, h)
			tail := randBytes(rng, rng.Intn(5))
			rd := bytes.NewReader(append(b.Bytes(), tail...))
			got, err := safeDecFh(rd)
			if err != nil || got != h || rd.Len() != len(tail) {
				r.violate(Violation{Class: "C13/fh-roundtrip", What: fmt.Sprintf("handle %d did not round-trip", h), Ops: []string{fmt.Sprintf("xdr encfh %d", h)}})
			}
			add("decfh-valid", "xdr decfh "+hx(append(b.Bytes(), tail...)))
			for k := 0; k < 12; k++ {
				add("decfh-trunc", "xdr decfh "+hx(b.Bytes()[:k]))
			}
		}
		// ---- sattr3
		for i := 0; i < 12; i++ {
			var b []byte
			for f := 0; f < 3; f++ {
				if rng.Intn(2) == 0 {
					b = append(b, u32(uint32(rng.Intn(3)))...) // flag 0,1,2 (2 is "non-zero")
					if binary.BigEndian.Uint32(b[len(b)-4:]) != 0 {
						b = append(b, u32(rng.Uint32())...)
					}
				} else {
					b = append(b, u32(0)...)
				}
			}
			if rng.Intn(2) == 0 {
				b = append(b, u32(1)...)
				b = append(b, u64(rng.Uint64())...)
			} else {
				b = append(b, u32(0)...)
			}
			for t := 0; t < 2; t++ {
				how := uint32(rng.Intn(4))
				b = append(b, u32(how)...)
				if how == 2 {
					b = append(b, u32(rng.Uint32())...)
					b = append(b, u32(rng.Uint32())...)
				}
			}
			b = append(b, randBytes(rng, rng.Intn(5))...)
			add("decsattr", "xdr decsattr "+hx(b))
			if i < 3 {
				for k := 0; k < len(b); k++ {
					add("decsattr-trunc", "xdr decsattr "+hx(b[:k]))
				}
			}
		}
		// ---- RPC call headers
		for _, cl := range []int{0, 1, 3, 4, 5, 399, 400} {
			for _, vl := range []int{0, 2, 400} {
				cred, verf := randBytes(rng, cl), randBytes(rng, vl)
				tail := randBytes(rng, rng.Intn(9))
				hdr := encCallHdr(rng.Uint32(), rng.Uint32()%4, 100003+uint32(rng.Intn(3)), uint32(rng.Intn(5)), uint32(rng.Intn(24)), uint32(rng.Intn(4)), cred, uint32(rng.Intn(2)), verf)
				in := append(append([]byte(nil), hdr...), tail...)
				add("deccall-valid", "rpc deccall "+hx(in))
				rd := bytes.NewReader(in)
				c, err := absnfs.DecodeRPCCall(rd)
				if err != nil || !bytes.Equal(c.Credential.Body, cred) || !bytes.Equal(c.Verifier.Body, verf) || rd.Len() != len(tail) {
					r.violate(Violation{Class: "C13/call-roundtrip", What: fmt.Sprintf("call header cred=%d verf=%d bytes did not round-trip (err=%v)", cl, vl, err), Ops: []string{"rpc deccall " + hx(in)}})
				}
				if cl <= 5 && vl <= 2 {
					for k := 0; k < len(hdr); k++ {
						add("deccall-trunc", "rpc deccall "+hx(hdr[:k]))
						if _, err := absnfs.DecodeRPCCall(bytes.NewReader(hdr[:k])); err == nil {
							r.violate(Violation{Class: "C13/call-truncation-accepted", What: "truncated call header accepted", Ops: []string{"rpc deccall " + hx(hdr[:k])}})
						}
					}
				}
			}
		}
		for _, n := range []uint32{401, 402, 1 << 16, 0x7fffffff, 0xffffffff} {
			// oversize credential, then oversize verifier
			in := append(u32(1), u32(0)...)
			in = append(in, u32(2)...)
			in = append(in, u32(100003)...)
			in = append(in, u32(3)...)
			in = append(in, u32(0)...)
			in = append(in, u32(1)...)
			in1 := append(append([]byte(nil), in...), u32(n)...)
			in1 = append(in1, randBytes(rng, 8)...)
			in2 := append(append([]byte(nil), in...), xdrOpaque([]byte{1, 2, 3})...)
			in2 = append(in2, u32(0)...)
			in2 = append(in2, u32(n)...)
			in2 = append(in2, randBytes(rng, 8)...)
			for _, x := range [][]byte{in1, in2} {
				add("deccall-oversize", "rpc deccall "+hx(x))
				var err error
				d := allocDelta(func() { _, err = absnfs.DecodeRPCCall(bytes.NewReader(x)) })
				if err == nil || d > 16384 {
					r.violate(Violation{Class: "C13/auth-limit", What: fmt.Sprintf("declared auth length %d: err=%v allocated=%d", n, err, d), Ops: []string{"rpc deccall " + hx(x)}})
				}
			}
		}
		// ---- AUTH_SYS
		for _, ng := range []int{0, 1, 2, 15, 16, 17, 18, 1000} {
			for _, ml := range []int{0, 1, 5, 255} {
				gids := make([]uint32, ng)
				for i := range gids {
					gids[i] = []uint32{0, 1, 65534, 65535, rng.Uint32()}[rng.Intn(5)]
				}
				m := randBytes(rng, ml)
				body := encAuthSys(rng.Uint32(), m, rng.Uint32(), rng.Uint32(), gids)
				if ng == 1000 {
					body = append(encAuthSys(1, m, 2, 3, nil)[:len(encAuthSys(1, m, 2, 3, nil))-4], u32(0xffffffff)...)
				}
				add("authsys", "rpc authsys "+hx(body))
				a, err := absnfs.ParseAuthSysCredential(body)
				if ng <= 16 {
					ok := err == nil && a.MachineName == string(m) && len(a.AuxGIDs) == ng
					if ok {
						for i := range gids {
							ok = ok && a.AuxGIDs[i] == gids[i]
						}
					}
					if !ok {
						r.violate(Violation{Class: "C13/authsys-roundtrip", What: fmt.Sprintf("AUTH_SYS body with %d gids did not round-trip (err=%v)", ng, err), Ops: []string{"rpc authsys " + hx(body)}})
					}
				} else if err == nil {
					r.violate(Violation{Class: "C13/authsys-gid-limit", What: fmt.Sprintf("AUTH_SYS body declaring %d gids accepted", ng), Ops: []string{"rpc authsys " + hx(body)}})
				}
				if ng <= 2 && ml <= 5 {
					for k := 0; k < len(body); k++ {
						add("authsys-trunc", "rpc authsys "+hx(body[:k]))
					}
				}
			}
			// declared gid counts beyond the limit, with nothing behind them: refused before any allocation of that size
			for _, cnt := range []uint32{17, 100, 1 << 16, 1 << 30, 1<<30 + 5, 1 << 31, 0xc0000000, 0xffffffff} {
				base := encAuthSys(1, []byte("h"), 2, 3, nil)
				body := append(base[:len(base)-4], u32(cnt)...)
				add("authsys-count", "rpc authsys "+hx(body))
				var err error
				d := allocDelta(func() { _, err = absnfs.ParseAuthSysCredential(body) })
				if err == nil || d > 65536 {
					r.violate(Violation{Class: "C13/authsys-gid-limit", What: fmt.Sprintf("AUTH_SYS body declaring %d gids: err=%v allocated=%d bytes", cnt, err, d), Ops: []string{"rpc authsys " + hx(body)}})
				}
			}
		}
		// ---- replies
		for st := uint32(0); st <= 1; st++ {
			for acc := uint32(0); acc <= 5; acc++ {
				data := randBytes(rng, rng.Intn(12))
				add("encreply", fmt.Sprintf("rpc encreply %d %d %d %d %s %s", rng.Uint32(), st, acc, rng.Intn(2), hx(randBytes(rng, []int{0, 1, 4, 7}[rng.Intn(4)])), hx(data)))
			}
		}
		// ---- record marking
		sizes := []int{0, 1, 2, 3, 4, 5, 100, 4096, 65536}
		for _, total := range sizes {
			data := randBytes(rng, total)
			// random fragmentation
			var stream []byte
			var pieces []int
			left := data
			for {
				n := len(left)
				last := true
				if n > 0 && rng.Intn(3) != 0 {
					n = rng.Intn(n + 1)
					last = n == len(left) && rng.Intn(2) == 0
					if n < len(left) {
						last = false
					}
				}
				h := uint32(n)
				if last {
					h |= 0x80000000
				}
				stream = append(stream, u32(h)...)
				stream = append(stream, left[:n]...)
				pieces = append(pieces, n)
				left = left[n:]
				if last {
					break
				}
				if len(pieces) > 64 {
					stream = append(stream, u32(0x80000000|uint32(len(left)))...)
					stream = append(stream, left...)
					break
				}
			}
			tail := randBytes(rng, rng.Intn(7))
			in := append(append([]byte(nil), stream...), tail...)
			add("rm-read-frag", "rm read 0 "+hx(in))
			rd := bytes.NewReader(in)
			got, err := absnfs.NewRecordMarkingReader(rd).ReadRecord()
			if err != nil || !bytes.Equal(got, data) || rd.Len() != len(tail) {
				r.violate(Violation{Class: "C13/record-reassembly", What: fmt.Sprintf("record of %d bytes in fragments %v did not reassemble (err=%v)", total, pieces, err), Ops: []string{"rm read 0 " + hx(in)}})
			}
			// write then read, several fragment sizes
			for _, mf := range []int{0, 1, 3, 1000, 1 << 20} {
				add("rm-write", fmt.Sprintf("rm write %d %s", mf, hx(data)))
				var b bytes.Buffer
				absnfs.NewRecordMarkingWriterWithSize(&b, mf).WriteRecord(data)
				if mf == 1 && total > 4096 {
					continue
				}
				back, err := absnfs.NewRecordMarkingReader(bytes.NewReader(b.Bytes())).ReadRecord()
				if err != nil || !bytes.Equal(back, data) {
					r.violate(Violation{Class: "C13/record-write-read", What: fmt.Sprintf("write(maxFragment=%d) then read of %d bytes is not the identity (err=%v)", mf, total, err), Ops: []string{fmt.Sprintf("rm write %d %s", mf, hx(data))}})
				}
			}
			if total <= 5 {
				for k := 0; k < len(stream); k++ {
					add("rm-read-trunc", "rm read 0 "+hx(stream[:k]))
				}
			}
		}
		// record limit: small custom limits at the boundary, and the 1 MiB default
		for _, m := range []int{1, 8, 100} {
			for _, n := range []int{m - 1, m, m + 1} {
				d := randBytes(rng, n)
				in := append(u32(0x80000000|uint32(n)), d...)
				add("rm-read-limit", fmt.Sprintf("rm read %d %s", m, hx(in)))
				// the limit bounds the record, however it is fragmented
				judge := func(in []byte, frags string) {
					rd := absnfs.NewRecordMarkingReader(bytes.NewReader(in))
					rd.MaxRecordSize = m
					got, err := rd.ReadRecord()
					switch {
					case n > m && err == nil:
						r.violate(Violation{Class: "C13/record-limit", What: fmt.Sprintf("a record of %d bytes (%s) was accepted with MaxRecordSize %d", n, frags, m), Ops: []string{fmt.Sprintf("rm read %d %s", m, hx(in))}})
					case n <= m && (err != nil || !bytes.Equal(got, d)):
						r.violate(Violation{Class: "C13/record-reassembly", What: fmt.Sprintf("a record of %d bytes (%s) within MaxRecordSize %d was not returned intact (err=%v)", n, frags, m, err), Ops: []string{fmt.Sprintf("rm read %d %s", m, hx(in))}})
					}
				}
				judge(in, "one fragment")
				// split in two fragments crossing the limit
				if n >= 2 {
					in2 := append(u32(uint32(n/2)), d[:n/2]...)
					in2 = append(in2, u32(0x80000000|uint32(n-n/2))...)
					in2 = append(in2, d[n/2:]...)
					add("rm-read-limit", fmt.Sprintf("rm read %d %s", m, hx(in2)))
					judge(in2, "two fragments")
				}
				// one byte per fragment
				if n >= 3 && n <= 9 {
					var in3 []byte
					for k := 0; k < n; k++ {
						hdr := uint32(1)
						if k == n-1 {
							hdr |= 0x80000000
						}
						in3 = append(append(in3, u32(hdr)...), d[k])
					}
					add("rm-read-limit", fmt.Sprintf("rm read %d %s", m, hx(in3)))
					judge(in3, fmt.Sprintf("%d one-byte fragments", n))
				}
			}
		}
		for _, n := range []uint32{0x7fffffff, 1<<20 + 1, 0x40000000} {
			in := append(u32(0x80000000|n), randBytes(rng, 32)...)
			add("rm-read-oversize", "rm read 0 "+hx(in))
			var err error
			d := allocDelta(func() { _, err = absnfs.NewRecordMarkingReader(bytes.NewReader(in)).ReadRecord() })
			if err == nil || d > 65536 {
				r.violate(Violation{Class: "C13/record-limit", What: fmt.Sprintf("fragment declaring %d bytes: err=%v allocated=%d", n, err, d), Ops: []string{"rm read 0 " + hx(in)}})
			}
		}
		// ---- random mutations of valid encodings
		for i := 0; i < 30; i++ {
			base := xdrOpaque(noNul(rng, rng.Intn(12)))
			if len(base) > 0 {
				base[rng.Intn(len(base))] ^= byte(1 << uint(rng.Intn(8)))
			}
			add("decstr-mutated", "xdr decstr "+hx(base))
		}
	}
	// 1 MiB boundary (once per run: exactly at and one above the documented record limit)
	{
		d := randBytes(rng, 1<<20)
		in := append(u32(0x80000000|1<<20), d...)
		add("rm-read-1MiB", "rm read 0 "+hx(in))
		got, err := absnfs.NewRecordMarkingReader(bytes.NewReader(in)).ReadRecord()
		if err != nil || !bytes.Equal(got, d) {
			r.violate(Violation{Class: "C13/record-limit", What: "a record of exactly 1 MiB was refused", Ops: []string{"rm read 0 <1MiB>"}})
		}
		in2 := append(u32(0x80000000|(1<<20+1)), append(d, 7)...)
		add("rm-read-1MiB+1", "rm read 0 "+hx(in2))
		if _, err := absnfs.NewRecordMarkingReader(bytes.NewReader(in2)).ReadRecord(); err == nil {
			r.violate(Violation{Class: "C13/record-limit", What: "a record of 1 MiB + 1 was accepted", Ops: []string{"rm read 0 <1MiB+1>"}})
		}
		var b bytes.Buffer
		absnfs.NewRecordMarkingWriter(&b).WriteRecord(d)
		add("rm-write-1MiB", "rm write 1048576 "+hx(d))
	}
	impl := runCodecOps(ops)
	for i, op := range ops {
		nt := impl[i] != "none" || strings.Contains(op, "decstr") || strings.Contains(op, "deccall") || strings.Contains(op, "rm read") || strings.Contains(op, "authsys") || strings.Contains(op, "decfh") || strings.Contains(op, "decsattr")
		r.noteCase(op, nt)
		if strings.HasPrefix(impl[i], "panic") {
			r.violate(Violation{Class: "C13/panic", What: impl[i], Ops: []string{op}})
		}
	}
	for i := 0; i < len(ops) && i < 400; i += 57 {
		o := ops[i]
		if len(o) > 160 {
			o = o[:160] + "…"
		}
		l := impl[i]
		if len(l) > 120 {
			l = l[:120] + "…"
		}
		r.sample(map[string]string{"op": o, "impl": l})
	}
	// correspondence: one op per case keeps shrinking trivial and the report precise
	cases := make([]Case, len(ops))
	implLines := make([][]string, len(ops))
	for i, op := range ops {
		cases[i] = Case{Ops: []string{op}}
		implLines[i] = []string{impl[i]}
	}
	compareWithModel(r, "codec", cases, implLines, runCodecOps)
}
