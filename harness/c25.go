package main

// C25 — MaxFileSize is enforced. The same WRITE / SETATTR(size) / CREATE(size) history runs against a server
// with a positive MaxFileSize (at construction or set at runtime) and against one without a limit: requests
// that would take a file past the limit must fail with NFS3ERR_FBIG and leave the file unchanged, all others
// must behave exactly as without the limit.

import (
	"math"
	"bytes"
	"encoding/json"
	"fmt"
	"math/rand"
	"time"

	"github.com/absfs/absnfs"
)

func init() {
	checks["C25"] = checkC25
	replays["C25"] = func(r *Result, raw json.RawMessage) {
		var rp struct {
			Case c25Case `json:"case"`
		}
		if err := json.Unmarshal(raw, &rp); err != nil {
			r.Notes = append(r.Notes, "replay: "+err.Error())
			return
		}
		r.noteCase(fmt.Sprint(rp.Case.strings()), true)
		for _, v := range judgeC25(rp.Case) {
			v.Ops, v.Case = rp.Case.strings(), rp.Case
			r.violate(v)
		}
	}
}

const nfsErrFbig = 27

type c25Case struct {
	Base    SrvCase `json:"base"`
	Max     int64   `json:"max"`
	Runtime bool    `json:"runtime"` // set through UpdatePolicyOptions after construction
	// ViaExport: (with Runtime) set through GetExportOptions / UpdateExportOptions instead
	ViaExport bool `json:"via_export"`
	// Roundtrip: once the limit is in force, do the documented read-modify-write of an unrelated option
	// (opts := GetExportOptions(); opts.IdleTimeout += 1s; UpdateExportOptions(opts)): the limit must survive
	Roundtrip bool `json:"roundtrip"`
}

func (c c25Case) strings() []string {
	return append([]string{fmt.Sprintf("MaxFileSize=%d runtime=%v viaExport=%v roundtrip=%v", c.Max, c.Runtime, c.ViaExport, c.Roundtrip)}, c.Base.strings()...)
}

func judgeC25(c c25Case) []Violation {
	var vs []Violation
	lim := c.Base
	if !c.Runtime {
		lim.Cfg.MaxFileSize = c.Max
	}
	wl := lim.world()
	defer wl.Close()
	if c.Runtime {
		if c.ViaExport {
			o := wl.srv.NFS.GetExportOptions()
			o.MaxFileSize = c.Max
			if err := wl.srv.NFS.UpdateExportOptions(o); err != nil {
				return nil
			}
		} else if err := wl.srv.NFS.UpdatePolicyOptions(absnfs.PolicyOptions{MaxFileSize: c.Max, Squash: "none"}); err != nil {
			return nil
		}
		wl.tr(fmt.Sprintf("srv maxfile %d", c.Max), "ok")
	}
	if c.Roundtrip {
		o := wl.srv.NFS.GetExportOptions()
		o.IdleTimeout += time.Second
		if err := wl.srv.NFS.UpdateExportOptions(o); err != nil {
			return nil
		}
	}
	// the unlimited twin runs on its own backend
	free := c.Base
	free.Cfg.MaxFileSize = 0
	fsf := NewRefFS()
	seedFS(fsf, free.Seed)
	for i, o := range c.Base.Ops {
		bad := func(class, what string) {
			vs = append(vs, Violation{Class: class, What: fmt.Sprintf("%s [MaxFileSize=%d runtime=%v viaExport=%v roundtrip=%v]", what, c.Max, c.Runtime, c.ViaExport, c.Roundtrip), Detail: fmt.Sprintf("op %d: %s", i, o.String())})
		}
		p := o.Dir
		if o.Kind == "create" {
			p = join(o.Dir, o.Name)
		}
		before, existed := wl.fs.FileData(p)
		var newEnd uint64
		grows := false
		switch o.Kind {
		case "write":
			newEnd = o.Off + uint64(len(o.Data))
			grows = existed && len(o.Data) > 0
		case "setattr":
			if o.Sa.Size != nil {
				newEnd, grows = *o.Sa.Size, existed
			}
		case "create":
			// only an UNCHECKED create over an existing regular file applies a size
			if o.Sa.Size != nil && o.How == 0 && existed {
				newEnd, grows = *o.Sa.Size, true
			}
		}
		over := grows && newEnd > uint64(c.Max)
		rl := wl.do(o)
		after, _ := wl.fs.FileData(p)
		if len(after) > int(c.Max) && len(after) > len(before) {
			bad("file-exceeds-limit:"+o.Kind, fmt.Sprintf("%s made %s %d bytes long", o.Kind, p, len(after)))
		}
		if over {
			// a size that does not even fit the protocol's signed 64-bit file sizes may also be refused as invalid (SETATTR / CREATE)
			invalidSize := o.Kind != "write" && newEnd > math.MaxInt64 && rl.Res.Status == 22
			if !rl.NoHandle && !rl.Res.Bad && rl.Res.Status != nfsErrFbig && !invalidSize {
				bad("over-limit-status:"+o.Kind, fmt.Sprintf("%s to %d bytes replied %d, want NFS3ERR_FBIG", o.Kind, newEnd, rl.Res.Status))
			}
			if existed && !bytes.Equal(before, after) {
				bad("over-limit-changed-file:"+o.Kind, fmt.Sprintf("%s past the limit changed the file", o.Kind))
				return vs // the twin cannot follow from here
			}
			continue // the unlimited twin does not run this request
		}
		// within the limit: identical to the unlimited server
		wf := newWorldOn(fsf, free.Cfg)
		wf.clockNs = wl.clockNs - int64(wl.step)
		rf := wf.do(o)
		wf.srv.Close()
		if rl.NoHandle != rf.NoHandle || (!rl.NoHandle && (rl.Res.Status != rf.Res.Status || rl.Res.Count != rf.Res.Count)) {
			bad("within-limit-differs", fmt.Sprintf("%s within the limit: status %d count %d, without a limit: status %d count %d", o.Kind, rl.Res.Status, rl.Res.Count, rf.Res.Status, rf.Res.Count))
		}
		if wl.fs.TreeSig() != fsf.TreeSig() {
			bad("within-limit-tree-differs", fmt.Sprintf("after %s within the limit the backend differs from the unlimited server's", o.Kind))
			return vs
		}
	}
	return vs
}

func genC25(rng *rand.Rand, n int) c25Case {
	c := c25Case{Max: []int64{1, 10, 100, 4096, 65541}[rng.Intn(5)], Runtime: rng.Intn(2) == 0, ViaExport: rng.Intn(2) == 0, Roundtrip: rng.Intn(3) == 0}
	c.Base.Cfg.AttrTTL = 1
	if rng.Intn(2) == 0 {
		c.Base.Cfg.AttrTTL = 5e9
	}
	c.Base.Seed = []string{"file /f0 " + hx(randBytes(rng, rng.Intn(int(min64(c.Max, 20))+1)))}
	if c.Max <= 4096 && rng.Intn(3) == 0 {
		// a file that is already larger than the limit (it was there before the limit was configured): shrinking
		// it to a size still above the limit is refused like any other size above the limit
		c.Base.Seed = []string{"file /f0 " + hx(randBytes(rng, int(c.Max)+1+rng.Intn(120)))}
	}
	around := func() uint64 {
		switch rng.Intn(6) {
		case 0:
			return uint64(c.Max)
		case 1:
			return uint64(c.Max) + 1
		case 2:
			return uint64(c.Max) - 1
		case 3:
			return uint64(c.Max) + uint64(rng.Intn(100))
		case 4:
			return []uint64{1 << 40, 1 << 62, 1<<63 - 1, 1 << 63, 1<<63 + 100, 1<<64 - 4096}[rng.Intn(6)]
		}
		return uint64(rng.Int63n(c.Max + 1))
	}
	for i := 0; i < n; i++ {
		name := []string{"f0", "f1"}[rng.Intn(2)]
		switch k := rng.Intn(10); {
		case k < 2:
			o := SOp{Kind: "create", Dir: "/", Name: name, How: uint32(rng.Intn(2))}
			if rng.Intn(2) == 0 {
				sz := around()
				o.Sa.Size = &sz
			}
			c.Base.Ops = append(c.Base.Ops, o)
		case k < 7:
			l := 1 + rng.Intn(8)
			end := around()
			off := uint64(0)
			if end > uint64(l) {
				off = end - uint64(l)
			}
			if rng.Intn(4) == 0 {
				off = end
			}
			c.Base.Ops = append(c.Base.Ops, SOp{Kind: "write", Dir: "/" + name, Off: off, Data: randBytes(rng, l)})
		default:
			sz := around()
			c.Base.Ops = append(c.Base.Ops, SOp{Kind: "setattr", Dir: "/" + name, Sa: Sattr{Size: &sz}})
		}
	}
	return c
}

func min64(a, b int64) int64 {
	if a < b {
		return a
	}
	return b
}

func checkC25(r *Result, rng *rand.Rand, thorough bool) {
	traces, doneTraces := collectTraces(200)
	defer func() {
		doneTraces()
		compareSrv(r, "srv", *traces)
	}()
	ncases, n := 300, 12
	if thorough {
		ncases, n = 3000, 25
	}
	r.Rule = "WRITE / SETATTR(size) / CREATE(size) histories with offsets and sizes at, just below, just above and far above MaxFileSize in {1,10,100,4096,65541} (set at construction, through UpdatePolicyOptions or through GetExportOptions/UpdateExportOptions; in a third of the cases followed by the documented read-modify-write of an unrelated option), run in lock-step with an unlimited server"
	for i := 0; i < ncases; i++ {
		c := genC25(rng, 2+rng.Intn(n))
		vs := judgeC25(c)
		r.noteCase(fmt.Sprint(c.strings()), true)
		r.count(fmt.Sprintf("max=%d", c.Max))
		if len(vs) > 0 {
			seen := map[string]bool{}
			for _, v := range vs {
				if seen[v.Class] {
					continue
				}
				seen[v.Class] = true
				dup := false
				for _, ex := range r.Violations {
					if ex.Class == v.Class {
						dup = true
					}
				}
				if dup {
					continue
				}
				small := c
				small.Base = shrinkCase(c.Base, func(b SrvCase) bool {
					cc := c
					cc.Base = b
					return hasClass(judgeC25(cc), v.Class)
				})
				for _, sv := range judgeC25(small) {
					if sv.Class == v.Class {
						v = sv
						break
					}
				}
				v.Ops, v.Case = small.strings(), small
				r.violate(v)
			}
		}
		if i < 2 {
			r.sample(c.strings())
		}
	}
}
