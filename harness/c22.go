package main

// C22 — data acknowledged as stable survives a crash. Histories of CREATE / WRITE (every stable_how) /
// COMMIT / SETATTR(size) run over the crash-simulating backend; at every crash point (before every backend
// call and after every reply) the durable image of each file must contain every byte that was acknowledged
// with committed = FILE_SYNC, or covered by a later successful COMMIT, and not touched by a request that
// started since. Write verifiers are collected from every WRITE and COMMIT reply.

import (
	"bytes"
	"fmt"
	"math/rand"
	"os"
	"strings"
	"syscall"

	"github.com/absfs/absnfs"
)

func init() {
	checks["C22"] = checkC22
	replays["C22"] = caseReplay(judgeC22)
}

type stableFile struct {
	cur   []byte // contents according to the acknowledged history (volatile view)
	sure  []bool // sure[i]: byte i is acknowledged stable with value cur[i]
	exist bool
}

func (f *stableFile) grow(n int) {
	for len(f.cur) < n {
		f.cur = append(f.cur, 0)
		f.sure = append(f.sure, false)
	}
}

func judgeC22(c SrvCase) []Violation {
	w := c.world()
	defer w.Close()
	var vs []Violation
	files := map[string]*stableFile{}
	for _, s := range c.Seed {
		var p, h string
		if n, _ := fmt.Sscanf(s, "file %s %s", &p, &h); n >= 1 {
			d := unhx(h)
			f := &stableFile{cur: d, sure: make([]bool, len(d)), exist: true}
			for i := range f.sure {
				f.sure[i] = true // seedFS syncs what it writes
			}
			files[p] = f
		}
	}
	var curOp string
	points := 0
	seen := map[string]bool{}
	checkPoint := func(where string) {
		points++
		for p, f := range files {
			if !f.exist {
				continue
			}
			d, ok := w.fs.DurableData(p)
			if !ok {
				continue
			}
			for i, s := range f.sure {
				if !s {
					continue
				}
				if i >= len(d) || d[i] != f.cur[i] {
					if !seen[p] {
						seen[p] = true
						vs = append(vs, Violation{Class: "acked-data-lost", What: fmt.Sprintf("a crash %s loses byte %d of %s, acknowledged as stable (durable image has %d bytes)", where, i, p, len(d)),
							Detail: curOp})
					}
					break
				}
			}
		}
	}
	w.fs.gate = func(call string) { checkPoint("before backend call " + call + " during " + curOp) }
	defer func() { w.fs.gate = nil }()
	var verfs [][]byte
	for i, o := range c.Ops {
		curOp = fmt.Sprintf("op %d: %s", i, o.String())
		p := o.Dir
		if o.Kind == "create" {
			p = join(o.Dir, o.Name)
		}
		f := files[p]
		prevLen := 0
		if f != nil {
			prevLen = len(f.cur)
		}
		// a request that may modify bytes withdraws the guarantee for them from the moment it starts
		switch o.Kind {
		case "write":
			if f != nil && o.Off < 1<<20 {
				f.grow(int(o.Off) + len(o.Data))
				for j := range o.Data {
					f.sure[int(o.Off)+j] = false
				}
			}
		case "setattr":
			if f != nil && o.Sa.Size != nil && *o.Sa.Size < 1<<20 {
				for j := int(*o.Sa.Size); j < len(f.sure); j++ {
					f.sure[j] = false
				}
			}
		case "create":
			if f != nil && o.Sa.Size != nil {
				for j := int(*o.Sa.Size); j < len(f.sure); j++ {
					f.sure[j] = false
				}
			}
		}
		if o.Kind == "commit" && o.Mask == faultOpenW {
			// the backend refuses write-mode opens while this COMMIT runs (a file without write permission on a
			// backend that enforces modes): the model has no faults, so the trace ends here
			if _, ok := w.handleFor(o.Dir, rootCred()); ok {
				w.flushTrace()
				w.noTrace = true
				w.fs.fault = func(call string) error {
					if strings.HasPrefix(call, "OpenFileW") {
						return syscall.EACCES
					}
					return nil
				}
			}
		}
		shrunk := false
		if o.Kind == "write" && o.Mask == shrinkXfer {
			// an operator lowers TransferSize (runtime tuning, lock-free by design) while this WRITE is between its own
			// size check and the backend write: the write may be cut short, and the reply must say so. The model has no
			// mid-request tuning change, so the trace ends here.
			if _, ok := w.handleFor(o.Dir, rootCred()); ok {
				w.flushTrace()
				w.noTrace = true
				base := w.fs.gate
				w.fs.gate = func(call string) {
					if !shrunk {
						shrunk = true
						w.srv.NFS.UpdateTuningOptions(func(t *absnfs.TuningOptions) { t.TransferSize = 4 })
					}
					base(call)
				}
				defer func() { w.fs.gate = base }()
			}
		}
		r := w.do(o)
		w.fs.fault = nil
		if shrunk {
			w.srv.NFS.UpdateTuningOptions(func(t *absnfs.TuningOptions) { t.TransferSize = 65536 })
		}
		if o.Kind == "write" && f != nil && o.Off < 1<<20 {
			// the file is as long as before, or reaches the end of what the reply says was written (a short or a
			// refused write extends it no further)
			end := prevLen
			if !r.NoHandle && !r.Res.Bad && r.ok() && int(o.Off)+int(r.Res.Count) > end && int(r.Res.Count) <= len(o.Data) {
				end = int(o.Off) + int(r.Res.Count)
			}
			if end < len(f.cur) {
				f.cur, f.sure = f.cur[:end], f.sure[:end]
			}
		}
		if r.NoHandle || r.Res.Bad {
			checkPoint("after " + curOp)
			continue
		}
		switch o.Kind {
		case "create":
			if r.ok() && f == nil {
				files[p] = &stableFile{exist: true}
			} else if r.ok() && o.Sa.Size != nil && o.How != 2 {
				n := int(*o.Sa.Size)
				f.grow(n)
				f.cur, f.sure = f.cur[:n], f.sure[:n]
			}
		case "write":
			if f != nil && r.ok() {
				n := int(r.Res.Count)
				if n > len(o.Data) {
					n = len(o.Data)
				}
				copy(f.cur[o.Off:], o.Data[:n])
				if r.Res.Commit == 2 || r.Res.Commit == 1 {
					for j := 0; j < n; j++ {
						f.sure[int(o.Off)+j] = true
					}
				}
				verfs = append(verfs, r.Res.Verf)
			}
		case "setattr":
			if f != nil && r.ok() && o.Sa.Size != nil {
				n := int(*o.Sa.Size)
				f.grow(n)
				f.cur, f.sure = f.cur[:n], f.sure[:n]
			}
		case "commit":
			if f != nil && r.ok() {
				lo, hi := 0, len(f.cur)
				if o.Count != 0 {
					lo, hi = int(o.Off), int(o.Off)+int(o.Count)
				} else {
					lo = int(o.Off)
				}
				for j := lo; j < hi && j < len(f.sure); j++ {
					if j >= 0 {
						f.sure[j] = true
					}
				}
				verfs = append(verfs, r.Res.Verf)
			}
		case "remove":
			if f != nil && r.ok() {
				delete(files, p)
			}
		}
		checkPoint("after " + curOp)
	}
	for _, v := range verfs[min(1, len(verfs)):] {
		if !bytes.Equal(v, verfs[0]) {
			vs = append(vs, Violation{Class: "verifier-changed", What: fmt.Sprintf("write verifier changed within one server instance: %x then %x", verfs[0], v)})
			break
		}
	}
	crashPointsSeen += points
	return vs
}

var crashPointsSeen int

// shrinkXfer marks a WRITE during which TransferSize is lowered to 4 (SOp.Mask is otherwise unused by WRITE)
const shrinkXfer = 0x5123

// faultOpenW marks a COMMIT during which the backend refuses write-mode opens (SOp.Mask is otherwise unused by COMMIT)
const faultOpenW = 0xfa17

func genC22(rng *rand.Rand, n int) SrvCase {
	c := SrvCase{}
	c.Cfg.AttrTTL = 1
	if rng.Intn(2) == 0 {
		c.Cfg.AttrTTL = 5e9
	}
	c.Cfg.Async = rng.Intn(2) == 0
	if rng.Intn(2) == 0 {
		c.Seed = append(c.Seed, "file /f0 "+hx(randBytes(rng, rng.Intn(20))))
	}
	for i := 0; i < n; i++ {
		name := []string{"f0", "f1"}[rng.Intn(2)]
		switch k := rng.Intn(10); {
		case k < 2:
			c.Ops = append(c.Ops, SOp{Kind: "create", Dir: "/", Name: name, How: uint32(rng.Intn(2))})
		case k < 7:
			st := uint32(rng.Intn(3))
			o := SOp{Kind: "write", Dir: "/" + name, Off: uint64(rng.Intn(24)), Data: randBytes(rng, 1+rng.Intn(12)), Stable: &st}
			if rng.Intn(8) == 0 {
				o.Mask = shrinkXfer
			}
			c.Ops = append(c.Ops, o)
		case k < 8:
			sz := uint64(rng.Intn(20))
			o := SOp{Kind: "setattr", Dir: "/" + name, Sa: Sattr{Size: &sz}}
			switch rng.Intn(4) {
			case 0: // a file without write permission bits still has to be flushed by COMMIT
				o.Sa.Mode = p32(uint32([]int{0o444, 0o400, 0o000, 0o555}[rng.Intn(4)]))
			case 1:
				o.Sa = Sattr{Mode: p32(uint32([]int{0o444, 0o644, 0o000}[rng.Intn(3)]))}
			}
			c.Ops = append(c.Ops, o)
		default:
			o := SOp{Kind: "commit", Dir: "/" + name}
			if rng.Intn(3) == 0 {
				o.Off, o.Count = uint64(rng.Intn(8)), uint32(1+rng.Intn(16))
			}
			if rng.Intn(5) == 0 {
				o.Mask = faultOpenW
			}
			c.Ops = append(c.Ops, o)
		}
	}
	return c
}

func checkC22(r *Result, rng *rand.Rand, thorough bool) {
	traces, doneTraces := collectTraces(200)
	defer func() {
		doneTraces()
		compareSrv(r, "srv", *traces)
	}()
	ncases, n := 400, 20
	if thorough {
		ncases, n = 4000, 40
	}
	r.Rule = "random CREATE/WRITE(UNSTABLE, DATA_SYNC, FILE_SYNC)/COMMIT(whole file and ranges; one in five while the backend refuses write-mode opens)/SETATTR(size, mode incl. modes without write bits) histories, with ExportOptions.Async off and on, over the crash-simulating backend; durable image checked before every backend call and after every reply; write verifier constant per instance and distinct across 64 successively created instances"
	crashPointsSeen = 0
	for i := 0; i < ncases; i++ {
		c := genC22(rng, 3+rng.Intn(n))
		vs := judgeC22(c)
		r.noteCase(fmt.Sprint(c.strings()), true)
		for _, o := range c.Ops {
			r.count("op:" + o.Kind)
		}
		if len(vs) > 0 {
			reportCase(r, c, vs, judgeC22)
		}
		if i < 2 {
			r.sample(c.strings())
		}
	}
	r.Histogram["crash-points"] = crashPointsSeen
	// verifier differs between successively created instances
	seen := map[[8]byte]int{}
	for i := 0; i < 64; i++ {
		s, err := newSrv(NewRefFS(), absnfs.ExportOptions{})
		must(err)
		v := absnfs.VerifWriteVerf(s.S)
		if j, dup := seen[v]; dup {
			r.violate(Violation{Class: "verifier-repeats", What: fmt.Sprintf("server instances %d and %d, created one after the other, have the same write verifier %x", j, i, v)})
			s.Close()
			break
		}
		seen[v] = i
		s.Close()
	}
	r.count("verifier-instances")
	durCorrespondence(r, rng, thorough)
}

// durCorrespondence: random WriteAt / Truncate / Sync / Crash sequences on one file of the reference backend
// (through its absfs API) against the Lean `Durable` model, comparing volatile and durable contents.
func durCorrespondence(r *Result, rng *rand.Rand, thorough bool) {
	ncases := 200
	if thorough {
		ncases = 2000
	}
	var cases []Case
	var impl [][]string
	for i := 0; i < ncases; i++ {
		fs := NewRefFS()
		fl, _ := fs.Create("/f")
		fl.Close()
		ops := []string{"dur reset"}
		out := []string{"ok"}
		n := 1 + rng.Intn(20)
		for j := 0; j < n; j++ {
			switch rng.Intn(6) {
			case 0, 1:
				off, d := rng.Intn(20), randBytes(rng, rng.Intn(10))
				f, _ := fs.OpenFile("/f", os.O_WRONLY, 0)
				f.WriteAt(d, int64(off))
				f.Close()
				ops, out = append(ops, fmt.Sprintf("dur write %d %s", off, hx(d))), append(out, "ok")
			case 2:
				k := rng.Intn(25)
				fs.Truncate("/f", int64(k))
				ops, out = append(ops, fmt.Sprintf("dur trunc %d", k)), append(out, "ok")
			case 3:
				f, _ := fs.OpenFile("/f", os.O_WRONLY, 0)
				f.Sync()
				f.Close()
				ops, out = append(ops, "dur sync"), append(out, "ok")
			case 4:
				fs.Crash()
				ops, out = append(ops, "dur crash"), append(out, "ok")
			default:
				d, _ := fs.FileData("/f")
				dd, _ := fs.DurableData("/f")
				ops, out = append(ops, "dur get"), append(out, hx(d)+" "+hx(dd))
			}
		}
		d, _ := fs.FileData("/f")
		dd, _ := fs.DurableData("/f")
		ops, out = append(ops, "dur get"), append(out, hx(d)+" "+hx(dd))
		cases, impl = append(cases, Case{Ops: ops}), append(impl, out)
	}
	compareWithModel(r, "durable", cases, impl, nil)
}
