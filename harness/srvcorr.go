package main

// Correspondence between the real server and the Lean server model (Absnfs/Server.lean): every World records
// its run as driver lines ("srv new/seed/call/dump"); the model replays the same requests on its own state,
// decodes the real reply with the RFC decoder and compares it with its own result. A disagreement is shrunk
// by re-executing subsets of the recorded requests against a fresh real server.

import (
	"fmt"
	"strconv"
	"strings"
	"time"

	"github.com/absfs/absnfs"
)

type srvTrace struct {
	lines, want []string
}

var traceSink func(t srvTrace)

func (w *World) flushTrace() {
	if traceSink != nil && !w.noTrace && len(w.trace) > 0 {
		w.traceDump()
		traceSink(srvTrace{w.trace, w.traceWant})
	}
}

// collectTraces installs a sink keeping at most n traces (the shortest-lived first come first).
func collectTraces(n int) (*[]srvTrace, func()) {
	var got []srvTrace
	traceSink = func(t srvTrace) {
		if len(got) < n {
			got = append(got, t)
		}
	}
	return &got, func() { traceSink = nil }
}

// replaySrvLines re-executes "srv ..." lines against a fresh real server and returns the lines with the
// replies it gave this time, and the expected model answers.
func replaySrvLines(lines []string) (srvTrace, error) {
	var w *World
	fs := NewRefFS()
	var out srvTrace
	defer func() {
		if w != nil {
			w.noTrace = true
			w.srv.Close()
			absnfs.VerifClockOff()
		}
	}()
	for _, l := range lines {
		f := strings.Fields(l)
		if len(f) < 2 || f[0] != "srv" {
			continue
		}
		switch f[1] {
		case "new":
			if len(f) != 16 {
				return out, fmt.Errorf("bad srv new line")
			}
			n := func(i int) int64 { v, _ := strconv.ParseInt(f[i], 10, 64); return v }
			opts := absnfs.ExportOptions{TransferSize: int(n(2)), ReadOnly: n(3) == 1, MaxFileSize: n(4), Squash: string(unhx(f[5])),
				AttrCacheTimeout: time.Duration(n(6)), AttrCacheSize: int(n(7)), CacheNegativeLookups: n(8) == 1, NegativeCacheTimeout: time.Duration(n(9)),
				EnableDirCache: n(10) == 1, DirCacheTimeout: time.Duration(n(11)), DirCacheMaxEntries: int(n(12)), DirCacheMaxDirSize: int(n(13)), MaxWorkers: 2}
			absnfs.VerifSetClock(0)
			s, err := newSrv(fs, opts)
			if err != nil {
				return out, err
			}
			if n(14) > 0 {
				absnfs.VerifSetMaxHandles(s.NFS, int(n(14)))
			}
			w = &World{fs: fs, srv: s, handles: map[string]uint64{}, inoAt: map[string]uint64{}}
			w.cfg.MaxHandles = int(n(14))
			// the write verifier of the new instance differs: re-emit the config line with it
			w.traceConfig()
			out.lines, out.want = append(out.lines, w.trace[0]), append(out.want, "ok")
			w.trace, w.traceWant = nil, nil
		case "seed":
			switch f[2] {
			case "mkdir":
				fs.Mkdir(string(unhx(f[3])), 0o755)
			case "file":
				fl, err := fs.Create(string(unhx(f[3])))
				if err == nil {
					fl.Write(unhx(f[4]))
					fl.Sync()
					fl.Close()
				}
			case "link":
				fs.Symlink(string(unhx(f[4])), string(unhx(f[3])))
			}
			out.lines, out.want = append(out.lines, l), append(out.want, "ok")
		case "ro":
			if w != nil {
				o := w.srv.NFS.GetExportOptions()
				w.srv.NFS.UpdatePolicyOptions(absnfs.PolicyOptions{ReadOnly: f[2] == "1", Squash: o.Squash, MaxFileSize: o.MaxFileSize})
			}
			out.lines, out.want = append(out.lines, l), append(out.want, "ok")
		case "maxfile":
			if w != nil {
				o := w.srv.NFS.GetExportOptions()
				v, _ := strconv.ParseInt(f[2], 10, 64)
				w.srv.NFS.UpdatePolicyOptions(absnfs.PolicyOptions{ReadOnly: o.ReadOnly, Squash: o.Squash, MaxFileSize: v})
			}
			out.lines, out.want = append(out.lines, l), append(out.want, "ok")
		case "call":
			if w == nil || len(f) != 13 {
				return out, fmt.Errorf("bad srv call line")
			}
			u := func(i int) uint32 { v, _ := strconv.ParseUint(f[i], 10, 32); return uint32(v) }
			now, _ := strconv.ParseInt(f[2], 10, 64)
			cred := Cred{Flavor: u(3), UID: u(4), GID: u(5)}
			if f[6] != "-" {
				for _, g := range strings.Split(f[6], ",") {
					v, _ := strconv.ParseUint(g, 10, 32)
					cred.Aux = append(cred.Aux, uint32(v))
				}
			}
			w.clockNs = now
			w.callRaw(u(7), u(8), u(9), cred, unhx(f[10]))
			out.lines, out.want = append(out.lines, w.trace...), append(out.want, w.traceWant...)
			w.trace, w.traceWant = nil, nil
		case "dump":
			out.lines, out.want = append(out.lines, "srv dump"), append(out.want, fs.DumpHex())
		}
	}
	return out, nil
}

func firstModelDiff(t srvTrace) (int, string) {
	mo, err := runModel([]Case{{Ops: t.lines}})
	if err != nil {
		return 0, err.Error()
	}
	for i := range t.lines {
		if get(mo[0], i) != t.want[i] {
			return i, get(mo[0], i)
		}
	}
	return -1, ""
}

// compareSrv feeds the traces to the model; the first disagreement is shrunk and reported as a mismatch.
func compareSrv(r *Result, stream string, traces []srvTrace) {
	if len(traces) == 0 {
		return
	}
	var cases []Case
	for _, t := range traces {
		cases = append(cases, Case{Ops: t.lines})
	}
	model, err := runModel(cases)
	if err != nil {
		r.Mismatches = append(r.Mismatches, Mismatch{Stream: stream, Index: -1, Model: err.Error()})
		return
	}
	reported := 0
	for i, t := range traces {
		r.Compared++
		idx := -1
		for j := range t.lines {
			if get(model[i], j) != t.want[j] {
				idx = j
				break
			}
		}
		if idx < 0 || reported >= 3 {
			continue
		}
		reported++
		// shrink: drop call lines while a fresh real run still disagrees with the model
		lines := append([]string{}, t.lines[:idx+1]...)
		bad := func(cand []string) bool {
			nt, err := replaySrvLines(cand)
			if err != nil {
				return false
			}
			k, _ := firstModelDiff(nt)
			return k >= 0
		}
		if bad(lines) {
			lines = shrink(lines, func(cand []string) bool {
				if len(cand) == 0 || !strings.HasPrefix(cand[0], "srv new") {
					return false
				}
				return bad(cand)
			})
			nt, _ := replaySrvLines(lines)
			k, mout := firstModelDiff(nt)
			if k >= 0 {
				r.Mismatches = append(r.Mismatches, Mismatch{Stream: stream, Ops: nt.lines[:k+1], Index: k, Impl: nt.want[k], Model: mout})
				continue
			}
		}
		r.Mismatches = append(r.Mismatches, Mismatch{Stream: stream, Ops: t.lines[:idx+1], Index: idx, Impl: t.want[idx], Model: get(model[i], idx)})
	}
}
