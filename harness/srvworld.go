package main

// A "world": one real AbsfsNFS server over a RefFS backend under the virtual clock, plus a symbolic request
// language (SOp) in which objects are named by path. The executor plays the NFS client: it keeps the
// handles the server gave it (by path) and obtains missing ones with LOOKUPs from the root, exactly as a
// client would. The same SOp history can therefore be replayed under different configurations.

import (
	"encoding/binary"
	"fmt"
	"math/rand"
	"path"
	"strings"
	"time"

	"github.com/absfs/absnfs"
)

type SrvCfg struct {
	AttrTTL     time.Duration
	AttrSize    int
	DirCache    bool
	Neg         bool
	ReadOnly    bool
	Squash      string
	Transfer    int
	MaxFileSize int64
	MaxHandles  int
	Async       bool // ExportOptions.Async ("allow async writes"): must not weaken what a FILE_SYNC reply promises
	KeepStale   bool // the client keeps using a handle after the object at its path was replaced (no re-LOOKUP)
	ViaConn     bool // send every request over ONE record-marking connection served by the real connection loop (instead of calling HandleCall per request)
}

func (c SrvCfg) String() string {
	s := fmt.Sprintf("attrTTL=%v attrSize=%d dirCache=%v neg=%v ro=%v squash=%s xfer=%d maxfile=%d async=%v", c.AttrTTL, c.AttrSize,
		c.DirCache, c.Neg, c.ReadOnly, c.Squash, c.Transfer, c.MaxFileSize, c.Async)
	if c.ViaConn {
		s += " one-connection"
	}
	if c.KeepStale {
		s += " client-keeps-stale-handles"
	}
	return s
}

func (c SrvCfg) opts() absnfs.ExportOptions {
	o := absnfs.ExportOptions{ReadOnly: c.ReadOnly, Squash: c.Squash, TransferSize: c.Transfer, MaxFileSize: c.MaxFileSize,
		AttrCacheTimeout: c.AttrTTL, AttrCacheSize: c.AttrSize, CacheNegativeLookups: c.Neg, NegativeCacheTimeout: c.AttrTTL,
		EnableDirCache: c.DirCache, DirCacheTimeout: c.AttrTTL, MaxWorkers: 2, Async: c.Async}
	return o
}

type World struct {
	cfg       SrvCfg
	fs        *RefFS
	srv       *Srv
	root      uint64
	clockNs   int64
	handles   map[string]uint64 // what the client knows: path -> handle
	inoAt     map[string]uint64 // identity of the object each known handle was obtained for
	peer      *Peer             // ViaConn: the one connection all requests travel on
	handleBad []string          // handles that did not resolve to the path they were handed out for
	realClock bool              // the server runs on real time: calls do not switch the virtual clock (back) on
	keepStale bool              // keep using handles whose object was replaced (default: re-LOOKUP like a client after ESTALE)
	trace     []string          // the run as driver lines for the Lean server model ("srv ...")
	traceWant []string          // what the model must answer to each line
	noTrace   bool
	step      time.Duration // virtual time that passes before each request
}

func newWorldOn(fs *RefFS, cfg SrvCfg) *World {
	if cfg.Squash == "" {
		cfg.Squash = "none"
	}
	w := &World{cfg: cfg, fs: fs, handles: map[string]uint64{}, inoAt: map[string]uint64{}, step: time.Millisecond, keepStale: cfg.KeepStale}
	absnfs.VerifSetClock(0)
	s, err := newSrv(fs, cfg.opts())
	must(err)
	if cfg.MaxHandles > 0 {
		absnfs.VerifSetMaxHandles(s.NFS, cfg.MaxHandles)
	}
	w.srv = s
	if cfg.ViaConn {
		w.peer = servePeer(s, "10.1.2.3", 700)
	}
	w.traceConfig()
	rep := w.callRaw(progMount, 3, 1, rootCred(), xdrOpaque([]byte("/")))
	if rep.Err != nil || len(rep.Data) < 16 || binary.BigEndian.Uint32(rep.Data) != 0 {
		panic("mount failed")
	}
	h := binary.BigEndian.Uint64(rep.Data[8:16])
	w.root = h
	w.learn("/", h)
	fs.TakeLog()
	fs.TakePaths()
	return w
}

// traceConfig emits the "srv new" line from the options the server actually runs with, and the seed lines
// from the backend's current tree.
func (w *World) traceConfig() {
	o := w.srv.NFS.GetExportOptions()
	b := func(x bool) int {
		if x {
			return 1
		}
		return 0
	}
	verf := absnfs.VerifWriteVerf(w.srv.S)
	w.tr(fmt.Sprintf("srv new %d %d %d %s %d %d %d %d %d %d %d %d %d %s", o.TransferSize, b(o.ReadOnly), o.MaxFileSize, hx([]byte(o.Squash)),
		int64(o.AttrCacheTimeout), o.AttrCacheSize, b(o.CacheNegativeLookups), int64(o.NegativeCacheTimeout), b(o.EnableDirCache),
		int64(o.DirCacheTimeout), o.DirCacheMaxEntries, o.DirCacheMaxDirSize, w.cfg.MaxHandles, hx(verf[:])), "ok")
	for _, ent := range strings.Split(w.fs.TreeSig(), ";") {
		parts := strings.SplitN(ent, ":", 3)
		if len(parts) < 2 || parts[1] == "/" {
			continue
		}
		switch parts[0] {
		case "d":
			w.tr("srv seed mkdir "+hx([]byte(parts[1])), "ok")
		case "f":
			w.tr("srv seed file "+hx([]byte(parts[1]))+" "+hx(unhx(parts[2])), "ok")
		case "l":
			w.tr("srv seed link "+hx([]byte(parts[1]))+" "+hx([]byte(parts[2])), "ok")
		}
	}
}

func (w *World) tr(line, want string) {
	if w.noTrace {
		return
	}
	w.trace = append(w.trace, line)
	w.traceWant = append(w.traceWant, want)
}

// traceDump asks the model for its backend tree and expects the real one.
func (w *World) traceDump() { w.tr("srv dump", w.fs.DumpHex()) }

// callRaw sends one call at the current virtual time and records it for the model.
func (w *World) callRaw(prog, vers, proc uint32, cred Cred, args []byte) Reply {
	if !w.realClock {
		absnfs.VerifSetClock(w.clockNs)
	}
	plain := (cred.Raw == nil && (cred.Flavor == 1 || cred.Flavor == 0)) || (cred.Flavor == 0 && len(cred.Raw) == 0)
	if !plain && !w.noTrace {
		w.flushTrace() // what was recorded so far is still a complete run
		w.noTrace = true
	}
	var r Reply
	if w.peer != nil {
		rs, as, data, err := w.peer.call(prog, vers, proc, cred, args)
		r = Reply{Err: err, Status: rs, AcceptStatus: as, Data: data, Xid: w.peer.xid}
	} else {
		r = w.srv.Call(prog, vers, proc, cred, args)
	}
	if r.Err == nil && r.Status == 0 && plain {
		aux := "-"
		if len(cred.Aux) > 0 {
			var l []string
			for _, g := range cred.Aux {
				l = append(l, fmt.Sprint(g))
			}
			aux = strings.Join(l, ",")
		}
		w.tr(fmt.Sprintf("srv call %d %d %d %d %s %d %d %d %s %d %s", w.clockNs, cred.Flavor, cred.UID, cred.GID, aux, prog, vers, proc, hx(args), r.AcceptStatus, hx(r.Data)), "match")
	} else if r.Err != nil || r.Status != 0 {
		// no model line: a timeout or an authentication denial; neither changes the server state
	}
	return r
}

func newWorld(cfg SrvCfg) *World { return newWorldOn(NewRefFS(), cfg) }

func (w *World) Close() {
	w.flushTrace()
	if w.peer != nil {
		w.peer.Close()
	}
	w.srv.Close()
	absnfs.VerifClockOff()
}

func (w *World) nfs(proc uint32, cred Cred, args []byte) (Reply, NfsRes) {
	w.clockNs += int64(w.step)
	r := w.callRaw(progNFS, 3, proc, cred, args)
	if r.Err != nil || r.Status != 0 || r.AcceptStatus != 0 {
		return r, NfsRes{Status: 0xffffffff, Bad: true}
	}
	return r, decodeNfs(proc, r.Data)
}

// handleFor returns the client's handle for p, walking LOOKUPs from the nearest known ancestor when needed.
func (w *World) inoOf(p string) uint64 {
	info, err := w.fs.Peek(p)
	if err != nil {
		return 0
	}
	return info.(*rinfo).ino
}

func (w *World) learn(p string, h uint64) {
	w.handles[p] = h
	w.inoAt[p] = w.inoOf(p)
	// what the server itself thinks the value names, right after handing it out for p
	if got, ok := absnfs.VerifHandlePath(w.srv.NFS, h); !ok || got != p {
		if len(w.handleBad) < 4 {
			w.handleBad = append(w.handleBad, fmt.Sprintf("handle %d was handed out for %q, the table resolves it to %q (live=%v)", h, p, got, ok))
		}
	}
}

func (w *World) handleFor(p string, cred Cred) (uint64, bool) {
	if h, ok := w.handles[p]; ok {
		if w.keepStale || w.inoAt[p] == w.inoOf(p) {
			return h, true
		}
		delete(w.handles, p)
	}
	if p == "/" {
		return w.root, true
	}
	dh, ok := w.handleFor(path.Dir(p), cred)
	if !ok {
		return 0, false
	}
	_, res := w.nfs(3, cred, cat(fh(dh), xdrOpaque([]byte(path.Base(p)))))
	if res.Status != 0 || !res.HasFh {
		return 0, false
	}
	w.learn(p, res.Fh)
	return res.Fh, true
}

func join(dir, name string) string {
	if dir == "/" {
		return "/" + name
	}
	return dir + "/" + name
}

// ---- argument builders ----

func argDirop(dir uint64, name string) []byte { return cat(fh(dir), xdrOpaque([]byte(name))) }
func argCreate(dir uint64, name string, how uint32, sa Sattr, verf []byte) []byte {
	a := cat(argDirop(dir, name), u32(how))
	if how == 2 {
		return cat(a, verf)
	}
	return cat(a, sa.enc())
}
func argMkdir(dir uint64, name string, sa Sattr) []byte { return cat(argDirop(dir, name), sa.enc()) }
func argSymlink(dir uint64, name string, sa Sattr, target string) []byte {
	return cat(argDirop(dir, name), sa.enc(), xdrOpaque([]byte(target)))
}
func argRename(d1 uint64, n1 string, d2 uint64, n2 string) []byte {
	return cat(argDirop(d1, n1), argDirop(d2, n2))
}
func argRead(h uint64, off uint64, count uint32) []byte { return cat(fh(h), u64(off), u32(count)) }
func argWrite(h uint64, off uint64, count uint32, stable uint32, data []byte) []byte {
	return cat(fh(h), u64(off), u32(count), u32(stable), xdrOpaque(data))
}
func argSetattr(h uint64, sa Sattr, guard *[2]uint32) []byte {
	a := cat(fh(h), sa.enc())
	if guard == nil {
		return cat(a, u32(0))
	}
	return cat(a, u32(1), u32(guard[0]), u32(guard[1]))
}
func argReaddir(h uint64, cookie uint64, verf []byte, count uint32) []byte {
	return cat(fh(h), u64(cookie), verf, u32(count))
}
func argReaddirplus(h uint64, cookie uint64, verf []byte, dircount, maxcount uint32) []byte {
	return cat(fh(h), u64(cookie), verf, u32(dircount), u32(maxcount))
}
func argCommit(h uint64, off uint64, count uint32) []byte { return cat(fh(h), u64(off), u32(count)) }

var zeroVerf = make([]byte, 8)

// ---- symbolic operations ----

type SOp struct {
	Kind   string // lookup create mkdir symlink remove rmdir rename readdir readdirplus getattr setattr read write readlink access commit
	Dir    string // directory path (dirop kinds) or object path (object kinds)
	Name   string
	Dir2   string
	Name2  string
	Target string
	How    uint32
	Verf   []byte
	Sa     Sattr
	Off    uint64
	Count  uint32
	Data   []byte
	Mask   uint32
	Cred   Cred
	Stable *uint32    // WRITE stable_how (default FILE_SYNC)
	Guard  *[2]uint32 `json:",omitempty"` // SETATTR sattrguard3: the ctime the client believes the object has
}

func (o SOp) String() string {
	s := fmt.Sprintf("%s %s", o.Kind, o.Dir)
	switch o.Kind {
	case "lookup", "remove", "rmdir", "mkdir":
		s += " " + o.Name
	case "create":
		s += fmt.Sprintf(" %s how=%d verf=%x", o.Name, o.How, o.Verf)
	case "symlink":
		s += fmt.Sprintf(" %s -> %q", o.Name, o.Target)
	case "mnt":
		s += fmt.Sprintf(" as %q", o.Target)
	case "commit":
		s += fmt.Sprintf(" off=%d count=%d", o.Off, o.Count)
		if o.Mask == faultOpenW {
			s += " [backend refuses write-mode opens]"
		}
	case "rename":
		s += fmt.Sprintf(" %s => %s %s", o.Name, o.Dir2, o.Name2)
	case "read":
		s += fmt.Sprintf(" off=%d count=%d", o.Off, o.Count)
	case "write":
		s += fmt.Sprintf(" off=%d len=%d", o.Off, len(o.Data))
	case "readdir", "readdirplus":
		s += fmt.Sprintf(" count=%d", o.Count)
	}
	if o.Sa.Mode != nil {
		s += fmt.Sprintf(" mode=%o", *o.Sa.Mode)
	}
	if o.Sa.UID != nil {
		s += fmt.Sprintf(" uid=%d", *o.Sa.UID)
	}
	if o.Sa.GID != nil {
		s += fmt.Sprintf(" gid=%d", *o.Sa.GID)
	}
	if o.Sa.Size != nil {
		s += fmt.Sprintf(" size=%d", *o.Sa.Size)
	}
	if o.Guard != nil {
		s += fmt.Sprintf(" guard-ctime=%d.%d", o.Guard[0], o.Guard[1])
	}
	if o.Cred.Flavor == 1 {
		s += fmt.Sprintf(" as=%d:%d", o.Cred.UID, o.Cred.GID)
	}
	return s
}

// SRes is what the client observed for one SOp.
type SRes struct {
	NoHandle bool // the client could not obtain the handle(s) the request needs: nothing was sent
	Proc     uint32
	Reply    Reply
	Res      NfsRes
	Entries  []DirEntD // readdir/readdirplus: all pages
	Pages    int
	MntFh    uint64 // mnt: the handle MNT returned (0 if it failed)
	MntStat  uint32
}

func (r SRes) ok() bool { return !r.NoHandle && !r.Res.Bad && r.Res.Status == 0 }

var procOf = map[string]uint32{"getattr": 1, "setattr": 2, "lookup": 3, "access": 4, "readlink": 5, "read": 6, "write": 7, "create": 8,
	"mkdir": 9, "symlink": 10, "remove": 12, "rmdir": 13, "rename": 14, "readdir": 16, "readdirplus": 17, "fsstat": 18, "fsinfo": 19,
	"pathconf": 20, "commit": 21}

func (w *World) do(o SOp) SRes {
	cred := o.Cred
	if cred.Flavor == 0 && cred.Raw == nil {
		cred = rootCred()
	}
	if o.Kind == "mnt" {
		// MNT of o.Target (a spelling of the directory o.Dir), then GETATTR through the handle it returned
		out := SRes{Proc: 1, MntStat: 0xffffffff}
		rep := w.callRaw(progMount, 3, 1, cred, xdrOpaque([]byte(o.Target)))
		out.Reply = rep
		if rep.Err != nil || rep.Status != 0 || rep.AcceptStatus != 0 || len(rep.Data) < 4 {
			out.Res = NfsRes{Status: 0xffffffff, Bad: true}
			return out
		}
		out.MntStat = binary.BigEndian.Uint32(rep.Data)
		if out.MntStat != 0 || len(rep.Data) < 16 {
			out.Res = NfsRes{Status: out.MntStat}
			return out
		}
		out.MntFh = binary.BigEndian.Uint64(rep.Data[8:16])
		out.Reply, out.Res = w.nfs(1, cred, fh(out.MntFh))
		return out
	}
	h, ok := w.handleFor(o.Dir, cred)
	if !ok {
		return SRes{NoHandle: true}
	}
	proc := procOf[o.Kind]
	out := SRes{Proc: proc}
	switch o.Kind {
	case "lookup":
		out.Reply, out.Res = w.nfs(3, cred, argDirop(h, o.Name))
		if out.ok() && out.Res.HasFh {
			w.learn(join(o.Dir, o.Name), out.Res.Fh)
		}
	case "create":
		out.Reply, out.Res = w.nfs(8, cred, argCreate(h, o.Name, o.How, o.Sa, o.Verf))
		if out.ok() && out.Res.HasFh {
			w.learn(join(o.Dir, o.Name), out.Res.Fh)
		}
	case "mkdir":
		out.Reply, out.Res = w.nfs(9, cred, argMkdir(h, o.Name, o.Sa))
		if out.ok() && out.Res.HasFh {
			w.learn(join(o.Dir, o.Name), out.Res.Fh)
		}
	case "symlink":
		out.Reply, out.Res = w.nfs(10, cred, argSymlink(h, o.Name, o.Sa, o.Target))
		if out.ok() && out.Res.HasFh {
			w.learn(join(o.Dir, o.Name), out.Res.Fh)
		}
	case "remove":
		out.Reply, out.Res = w.nfs(12, cred, argDirop(h, o.Name))
	case "rmdir":
		out.Reply, out.Res = w.nfs(13, cred, argDirop(h, o.Name))
	case "rename":
		h2, ok2 := w.handleFor(o.Dir2, cred)
		if !ok2 {
			return SRes{NoHandle: true}
		}
		out.Reply, out.Res = w.nfs(14, cred, argRename(h, o.Name, h2, o.Name2))
	case "getattr", "readlink", "fsstat", "fsinfo", "pathconf":
		out.Reply, out.Res = w.nfs(proc, cred, fh(h))
	case "access":
		out.Reply, out.Res = w.nfs(4, cred, cat(fh(h), u32(o.Mask)))
	case "setattr":
		out.Reply, out.Res = w.nfs(2, cred, argSetattr(h, o.Sa, o.Guard))
	case "read":
		out.Reply, out.Res = w.nfs(6, cred, argRead(h, o.Off, o.Count))
	case "write":
		stable := uint32(2)
		if o.Stable != nil {
			stable = *o.Stable
		}
		out.Reply, out.Res = w.nfs(7, cred, argWrite(h, o.Off, uint32(len(o.Data)), stable, o.Data))
	case "commit":
		out.Reply, out.Res = w.nfs(21, cred, argCommit(h, o.Off, o.Count))
	case "readdir", "readdirplus":
		cookie := uint64(0)
		for page := 0; page < 200; page++ {
			var rep Reply
			var res NfsRes
			if o.Kind == "readdir" {
				rep, res = w.nfs(16, cred, argReaddir(h, cookie, zeroVerf, o.Count))
			} else {
				rep, res = w.nfs(17, cred, argReaddirplus(h, cookie, zeroVerf, o.Count, o.Count))
			}
			out.Reply, out.Res = rep, res
			out.Pages++
			if res.Bad || res.Status != 0 {
				break
			}
			out.Entries = append(out.Entries, res.Entries...)
			for _, e := range res.Entries {
				if e.HasFh {
					w.learn(join(o.Dir, e.Name), e.Fh)
				}
			}
			if res.Eof || len(res.Entries) == 0 {
				break
			}
			cookie = res.Entries[len(res.Entries)-1].Cookie
		}
	default:
		panic("unknown SOp kind " + o.Kind)
	}
	return out
}

// ---- generators ----

var nameAlphabet = []string{"a", "b", "c", "d"}

func randName(rng *rand.Rand) string { return nameAlphabet[rng.Intn(len(nameAlphabet))] }

// randExistingDir picks a directory path that currently exists in the backend (or sometimes a stale/other one).
func (w *World) paths() (dirs, files, links, all []string) {
	sig := w.fs.TreeSig()
	for _, ent := range strings.Split(sig, ";") {
		if ent == "" {
			continue
		}
		parts := strings.SplitN(ent, ":", 3)
		switch parts[0] {
		case "d":
			dirs = append(dirs, parts[1])
		case "f":
			files = append(files, parts[1])
		case "l":
			links = append(links, parts[1])
		}
		all = append(all, parts[1])
	}
	return
}

func pick(rng *rand.Rand, l []string, dflt string) string {
	if len(l) == 0 {
		return dflt
	}
	return l[rng.Intn(len(l))]
}

// ---- cases, replay and shrinking at the SOp level ----

type SrvCase struct {
	Cfg  SrvCfg   `json:"cfg"`
	Seed []string `json:"seed,omitempty"` // direct backend set-up before the server starts: "mkdir /p", "file /p hex", "link /p target"
	Ops  []SOp    `json:"ops"`
}

func (c SrvCase) strings() []string {
	out := []string{"cfg " + c.Cfg.String()}
	for _, s := range c.Seed {
		out = append(out, "seed "+s)
	}
	for _, o := range c.Ops {
		out = append(out, o.String())
	}
	return out
}

func seedFS(fs *RefFS, seed []string) {
	for _, s := range seed {
		f := strings.Fields(s)
		switch f[0] {
		case "mkdir":
			must(fs.Mkdir(f[1], 0o755))
		case "file":
			fl, err := fs.Create(f[1])
			must(err)
			if len(f) > 2 {
				fl.Write(unhx(f[2]))
			}
			fl.Sync()
			fl.Close()
		case "link":
			must(fs.Symlink(f[2], f[1]))
		}
	}
	fs.TakeLog()
}

func (c SrvCase) world() *World {
	fs := NewRefFS()
	seedFS(fs, c.Seed)
	return newWorldOn(fs, c.Cfg)
}

// shrinkCase removes ops while bad(case) stays true.
func shrinkCase(c SrvCase, bad func(SrvCase) bool) SrvCase {
	ops := c.Ops
	for chunk := len(ops) / 2; chunk >= 1; chunk /= 2 {
		for i := 0; i+chunk <= len(ops); {
			cand := append(append([]SOp{}, ops[:i]...), ops[i+chunk:]...)
			cc := c
			cc.Ops = cand
			if bad(cc) {
				ops = cand
			} else {
				i += chunk
			}
		}
	}
	c.Ops = ops
	return c
}

func hasClass(vs []Violation, class string) bool {
	for _, v := range vs {
		if v.Class == class {
			return true
		}
	}
	return false
}

// reportCase shrinks a failing case per violation class and records one violation per class.
func reportCase(r *Result, c SrvCase, vs []Violation, judge func(SrvCase) []Violation) {
	seen := map[string]bool{}
	for _, v := range vs {
		if seen[v.Class] {
			continue
		}
		seen[v.Class] = true
		for _, ex := range r.Violations {
			if ex.Class == v.Class { // one (shrunk) example per class is enough
				goto next
			}
		}
		{
			small := shrinkCase(c, func(cc SrvCase) bool { return hasClass(judge(cc), v.Class) })
			for _, sv := range judge(small) {
				if sv.Class == v.Class {
					v = sv
					break
				}
			}
			v.Ops = small.strings()
			v.Case = small
			r.violate(v)
		}
	next:
	}
}
