package main

// C30 — real TLS handshakes against a server started with each accepted TLS configuration, clients forcing
// each protocol version and presenting no / self-signed / CA-signed certificates; certificate rotation through
// the documented step. The harness runs with //go:debug tls10server=1 (see main.go) so that the floor has to
// come from the configuration, not from crypto/tls's default.

import (
	"crypto/ecdsa"
	"crypto/elliptic"
	crand "crypto/rand"
	"crypto/tls"
	"crypto/x509"
	"crypto/x509/pkix"
	"encoding/json"
	"encoding/pem"
	"fmt"
	"math/big"
	"math/rand"
	"net"
	"os"
	"path/filepath"
	"strconv"
	"strings"
	"time"

	"github.com/absfs/absnfs"
)

func init() {
	checks["C30"] = checkC30
	c30ops := opsReplay("tls", runTLSOps, func(r *Result, ops, impl []string) { tlsOracle(r, ops, impl) })
	replays["C30"] = func(r *Result, raw json.RawMessage) {
		var rp struct {
			Ops []string `json:"ops"`
		}
		json.Unmarshal(raw, &rp)
		if len(rp.Ops) > 0 && rp.Ops[0] == "tls foreign-ca" {
			foreignCAProbe(r)
			return
		}
		if len(rp.Ops) > 0 && strings.HasPrefix(rp.Ops[0], "tls ca-follows-restart") {
			caFollowsListenerRestart(r)
			return
		}
		c30ops(r, raw)
	}
}

type pki struct {
	dir                string
	caPEM              []byte
	caCert             *x509.Certificate
	caKey              *ecdsa.PrivateKey
	clientCA, clientSS tls.Certificate
	srvKey             *ecdsa.PrivateKey // key of the server certificate written last
}

func genCert(cn string, ca *x509.Certificate, caKey *ecdsa.PrivateKey, isCA bool) (certPEM, keyPEM []byte, cert *x509.Certificate, key *ecdsa.PrivateKey) {
	return genCertKey(cn, ca, caKey, isCA, nil)
}

// genCertKey: the same, for the given private key (a renewal that keeps the key) when reuse is not nil
func genCertKey(cn string, ca *x509.Certificate, caKey *ecdsa.PrivateKey, isCA bool, reuse *ecdsa.PrivateKey) (certPEM, keyPEM []byte, cert *x509.Certificate, key *ecdsa.PrivateKey) {
	key = reuse
	if key == nil {
		key, _ = ecdsa.GenerateKey(elliptic.P256(), crand.Reader)
	}
	tmpl := &x509.Certificate{SerialNumber: big.NewInt(time.Now().UnixNano()), Subject: pkix.Name{CommonName: cn}, NotBefore: time.Now().Add(-time.Hour), NotAfter: time.Now().Add(24 * time.Hour),
		KeyUsage: x509.KeyUsageDigitalSignature | x509.KeyUsageCertSign, ExtKeyUsage: []x509.ExtKeyUsage{x509.ExtKeyUsageServerAuth, x509.ExtKeyUsageClientAuth},
		BasicConstraintsValid: true, IsCA: isCA, DNSNames: []string{"localhost"}, IPAddresses: []net.IP{net.ParseIP("127.0.0.1")}}
	parent, pkey := tmpl, key
	if ca != nil {
		parent, pkey = ca, caKey
	}
	der, err := x509.CreateCertificate(crand.Reader, tmpl, parent, &key.PublicKey, pkey)
	must(err)
	cert, _ = x509.ParseCertificate(der)
	kb, _ := x509.MarshalECPrivateKey(key)
	return pem.EncodeToMemory(&pem.Block{Type: "CERTIFICATE", Bytes: der}), pem.EncodeToMemory(&pem.Block{Type: "EC PRIVATE KEY", Bytes: kb}), cert, key
}

func newPKI() *pki {
	dir, err := os.MkdirTemp("", "verif-c30-")
	must(err)
	p := &pki{dir: dir}
	var caKeyPEM []byte
	p.caPEM, caKeyPEM, p.caCert, p.caKey = genCert("verif-ca", nil, nil, true)
	_ = caKeyPEM
	must(os.WriteFile(filepath.Join(dir, "ca.pem"), p.caPEM, 0o600))
	p.writeServerCert("srv1")
	c1, k1, _, _ := genCert("client-ca-signed", p.caCert, p.caKey, false)
	p.clientCA, _ = tls.X509KeyPair(c1, k1)
	c2, k2, _, _ := genCert("client-self-signed", nil, nil, false)
	p.clientSS, _ = tls.X509KeyPair(c2, k2)
	return p
}

func (p *pki) writeServerCert(cn string) {
	p.writeServerCertKey(cn, nil)
}

// writeServerCertKey writes a server certificate for cn; with keep = true it is issued for the key of the
// certificate written last (what "certbot renew --reuse-key" does)
func (p *pki) writeServerCertKey(cn string, reuse *ecdsa.PrivateKey) {
	c, k, _, key := genCertKey(cn, p.caCert, p.caKey, false, reuse)
	p.srvKey = key
	must(os.WriteFile(filepath.Join(p.dir, "srv.pem"), c, 0o600))
	must(os.WriteFile(filepath.Join(p.dir, "srv.key"), k, 0o600))
}

// startTLS starts a real server with the given TLS settings; returns port, stop func, or an error string.
func (p *pki) startTLS(minV, maxV uint16, clientAuth tls.ClientAuthType, withCA bool) (*absnfs.AbsfsNFS, int, func(), string) {
	tc := &absnfs.TLSConfig{Enabled: true, CertFile: filepath.Join(p.dir, "srv.pem"), KeyFile: filepath.Join(p.dir, "srv.key"), MinVersion: minV, MaxVersion: maxV, ClientAuth: clientAuth}
	if withCA {
		tc.CAFile = filepath.Join(p.dir, "ca.pem")
	}
	if err := tc.Validate(); err != nil {
		return nil, 0, nil, "rejected"
	}
	n, err := absnfs.New(NewRefFS(), absnfs.ExportOptions{TLS: tc})
	must(err)
	s, err := absnfs.NewServer(absnfs.ServerOptions{Port: 0, Hostname: "127.0.0.1", UseRecordMarking: true})
	must(err)
	s.SetHandler(n)
	if err := s.Listen(); err != nil {
		n.Close()
		return nil, 0, nil, "listen-failed:" + err.Error()
	}
	return n, s.GetPort(), func() { s.Stop(); n.Close() }, ""
}

// dial performs a handshake at exactly version v with the given client certificate (nil = none) and, when it
// completes, a NULL call; returns (served?, negotiated version, server CN)
func (p *pki) dial(port int, v uint16, cert *tls.Certificate) (bool, uint16, string) {
	pool := x509.NewCertPool()
	pool.AppendCertsFromPEM(p.caPEM)
	cfg := &tls.Config{MinVersion: v, MaxVersion: v, RootCAs: pool, ServerName: "localhost"}
	if cert != nil {
		// present it unconditionally (the default selection would withhold a certificate the server's CA list does not cover)
		cfg.GetClientCertificate = func(*tls.CertificateRequestInfo) (*tls.Certificate, error) { return cert, nil }
	}
	d := &net.Dialer{Timeout: 2 * time.Second}
	conn, err := tls.DialWithDialer(d, "tcp", fmt.Sprintf("127.0.0.1:%d", port), cfg)
	if err != nil {
		return false, 0, ""
	}
	defer conn.Close()
	st := conn.ConnectionState()
	cn := ""
	if len(st.PeerCertificates) > 0 {
		cn = st.PeerCertificates[0].Subject.CommonName
	}
	if _, err := rmCall(conn, 77, progNFS, 3, 0, nil); err != nil {
		return false, st.Version, cn
	}
	return true, st.Version, cn
}

var thePKI *pki

// ops:  tls validate <min> <max>         -> 1/0
//
//	tls admits <gomin> <min> <max> <v> -> 1/0    (real handshake at version v)
//	tls accepts <clientAuth> <presents> <chainOk> -> 1/0 (real handshake with that client certificate)
//	tls rotate                        -> new/old
func runTLSOps(ops []string) []string {
	if thePKI == nil {
		thePKI = newPKI()
	}
	p := thePKI
	out := make([]string, len(ops))
	for i, op := range ops {
		f := strings.Fields(op)
		num := func(k int) uint16 { v, _ := strconv.Atoi(f[k]); return uint16(v) }
		switch f[1] {
		case "validate":
			_, _, stop, e := p.startTLS(num(2), num(3), tls.NoClientCert, false)
			if e == "rejected" {
				out[i] = "0"
			} else {
				out[i] = "1"
				if stop != nil {
					stop()
				}
			}
		case "admits":
			_, port, stop, e := p.startTLS(num(3), num(4), tls.NoClientCert, false)
			if e != "" {
				out[i] = "0"
				continue
			}
			ok, ver, _ := p.dial(port, num(5), nil)
			stop()
			if ok && ver == num(5) {
				out[i] = "1"
			} else {
				out[i] = "0"
			}
		case "accepts":
			ca, _ := strconv.Atoi(f[2])
			_, port, stop, e := p.startTLS(tls.VersionTLS12, tls.VersionTLS13, tls.ClientAuthType(ca), true)
			if e != "" {
				out[i] = "error:" + e
				continue
			}
			var cert *tls.Certificate
			if f[3] == "1" {
				if f[4] == "1" {
					cert = &p.clientCA
				} else {
					cert = &p.clientSS
				}
			}
			res := "1"
			for _, v := range []uint16{tls.VersionTLS12, tls.VersionTLS13} {
				if ok, _, _ := p.dial(port, v, cert); !ok {
					res = "0"
				} else if res == "0" && v == tls.VersionTLS13 {
					res = "inconsistent"
				}
			}
			stop()
			out[i] = res
		case "rotate":
			p.writeServerCert("srv1")
			n, port, stop, e := p.startTLS(tls.VersionTLS12, tls.VersionTLS13, tls.NoClientCert, false)
			if e != "" {
				out[i] = "error:" + e
				continue
			}
			_, _, cn1 := p.dial(port, tls.VersionTLS13, nil)
			if len(f) > 2 && f[2] == "updated" {
				// an ordinary options update in between: read-modify-write of an unrelated option
				o := n.GetExportOptions()
				o.IdleTimeout += time.Second
				if err := n.UpdateExportOptions(o); err != nil {
					out[i] = "error:update-" + err.Error()
					stop()
					continue
				}
			}
			if len(f) > 2 && f[2] == "samekey" {
				p.writeServerCertKey("srv2", p.srvKey) // renewed certificate, same private key
			} else {
				p.writeServerCert("srv2")
			}
			err := n.GetExportOptions().TLS.ReloadCertificates() // the documented rotation step
			_, _, cn2 := p.dial(port, tls.VersionTLS13, nil)
			stop()
			p.writeServerCert("srv1")
			switch {
			case cn1 != "srv1":
				out[i] = "error:first-cert-" + cn1
			case cn2 == "srv2":
				out[i] = "new"
			case err != nil:
				out[i] = "old(reload-error)"
			default:
				out[i] = "old"
			}
		default:
			out[i] = "bad-op"
		}
	}
	return out
}

func tlsOracle(r *Result, ops, impl []string) {
	for i, op := range ops {
		f := strings.Fields(op)
		switch f[1] {
		case "admits":
			v, _ := strconv.Atoi(f[5])
			if impl[i] == "1" && v < tls.VersionTLS12 {
				r.violate(Violation{Class: "C30/below-tls12", What: fmt.Sprintf("a server accepted by Validate (MinVersion %#x, MaxVersion %#x) completed a handshake at version %#x", mustAtoi(f[3]), mustAtoi(f[4]), v), Ops: []string{op}})
			}
		case "accepts":
			if f[2] == "4" && impl[i] == "1" && !(f[3] == "1" && f[4] == "1") {
				r.violate(Violation{Class: "C30/unverified-client", What: "RequireAndVerifyClientCert served a client without a certificate chaining to the configured CA", Ops: []string{op}})
			}
			if f[2] == "4" && f[3] == "1" && f[4] == "1" && impl[i] != "1" {
				r.violate(Violation{Class: "C30/verified-client-refused", What: "a client with a CA-signed certificate was refused: " + impl[i], Ops: []string{op}})
			}
		case "rotate":
			if !strings.HasPrefix(impl[i], "new") {
				r.violate(Violation{Class: "C30/rotation-ineffective", What: "after ReloadCertificates on GetExportOptions().TLS the listener still presents the old certificate (" + impl[i] + ")", Ops: []string{op}})
			}
		}
	}
}

func mustAtoi(s string) int { v, _ := strconv.Atoi(s); return v }

// caFollowsListenerRestart: "clients presenting a certificate that chains to the configured CA" — the CA the
// configuration names when the listener is started. An operator retires a CA by replacing the CAFile's content and
// restarting the listener (Unexport, Export): the restarted listener trusts the new content and nothing else.
func caFollowsListenerRestart(r *Result) {
	p := newPKI()
	defer os.RemoveAll(p.dir)
	tc := &absnfs.TLSConfig{Enabled: true, CertFile: filepath.Join(p.dir, "srv.pem"), KeyFile: filepath.Join(p.dir, "srv.key"),
		MinVersion: tls.VersionTLS12, MaxVersion: tls.VersionTLS13, ClientAuth: tls.RequireAndVerifyClientCert, CAFile: filepath.Join(p.dir, "ca.pem")}
	n, err := absnfs.New(NewRefFS(), absnfs.ExportOptions{TLS: tc})
	must(err)
	defer n.Close()
	if err := n.Export("/", 0); err != nil {
		r.Notes = append(r.Notes, "ca-follows-restart skipped: "+err.Error())
		return
	}
	r.noteCase("tls ca-follows-restart", true)
	r.count("ca-follows-restart")
	ops := []string{"tls ca-follows-restart: Export with RequireAndVerifyClientCert and CAFile=CA-1; CAFile rewritten with CA-2; Unexport; Export"}
	port := absnfs.VerifExportPort(n)
	if ok, _, _ := p.dial(port, tls.VersionTLS13, &p.clientCA); !ok {
		n.Unexport()
		r.Notes = append(r.Notes, "ca-follows-restart skipped: the first listener does not serve a client signed by the configured CA")
		return
	}
	// CA-2 and a client it signed
	ca2PEM, _, ca2Cert, ca2Key := genCert("verif-ca-2", nil, nil, true)
	c2, k2, _, _ := genCert("client-signed-by-ca-2", ca2Cert, ca2Key, false)
	client2, _ := tls.X509KeyPair(c2, k2)
	must(os.WriteFile(filepath.Join(p.dir, "ca.pem"), ca2PEM, 0o600))
	n.Unexport()
	if err := n.Export("/", 0); err != nil {
		r.Notes = append(r.Notes, "ca-follows-restart: second Export failed: "+err.Error())
		return
	}
	defer n.Unexport()
	port = absnfs.VerifExportPort(n)
	for _, v := range []uint16{tls.VersionTLS12, tls.VersionTLS13} {
		if ok, _, _ := p.dial(port, v, &p.clientCA); ok {
			r.violate(Violation{Class: "C30/retired-ca-still-trusted", What: fmt.Sprintf("after the CAFile was replaced and the listener restarted, a client whose certificate chains to the RETIRED CA is served (TLS %#x)", v), Ops: ops})
			return
		}
		if ok, _, _ := p.dial(port, v, &client2); !ok {
			r.violate(Violation{Class: "C30/configured-ca-not-trusted", What: fmt.Sprintf("after the CAFile was replaced and the listener restarted, a client whose certificate chains to the configured CA is refused (TLS %#x)", v), Ops: ops})
			return
		}
	}
}

func checkC30(r *Result, rng *rand.Rand, thorough bool) {
	foreignCAProbe(r)
	caFollowsListenerRestart(r)
	r.Rule = "all 25 MinVersion x MaxVersion combinations in {unset, 1.0, 1.1, 1.2, 1.3} (Validate decision compared), every accepted one started as a real server and dialled by clients forcing 1.0, 1.1, 1.2 and 1.3 (crypto/tls default minimum lowered with tls10server=1); ClientAuth 0..4 x {no cert, self-signed, CA-signed} with a NULL call after the handshake; certificate rotation through GetExportOptions().TLS.ReloadCertificates(), right after Listen and after an UpdateExportOptions round trip; finite space, enumerated completely; every case non-trivial"
	vers := []int{0, tls.VersionTLS10, tls.VersionTLS11, tls.VersionTLS12, tls.VersionTLS13}
	var ops []string
	for _, mn := range vers {
		for _, mx := range vers {
			ops = append(ops, fmt.Sprintf("tls validate %d %d", mn, mx))
		}
	}
	impl := runTLSOps(ops)
	// handshakes only against accepted configurations
	for i, op := range append([]string(nil), ops...) {
		if impl[i] != "1" {
			continue
		}
		f := strings.Fields(op)
		for _, v := range vers[1:] {
			ops = append(ops, fmt.Sprintf("tls admits %d %s %s %d", tls.VersionTLS10, f[2], f[3], v))
		}
	}
	for ca := 0; ca <= 4; ca++ {
		for _, pc := range [][2]string{{"0", "0"}, {"1", "0"}, {"1", "1"}} {
			ops = append(ops, fmt.Sprintf("tls accepts %d %s %s", ca, pc[0], pc[1]))
		}
	}
	ops = append(ops, "tls rotate", "tls rotate updated", "tls rotate samekey")
	impl = runTLSOps(ops)
	tlsOracle(r, ops, impl)
	var cases []Case
	var il [][]string
	for i, op := range ops {
		r.noteCase(op, true)
		r.count(strings.Fields(op)[1] + "=" + impl[i])
		if i%17 == 0 {
			r.sample(map[string]string{"op": op, "observed": impl[i]})
		}
		cases = append(cases, Case{Ops: []string{op}})
		il = append(il, []string{impl[i]})
	}
	if thePKI != nil {
		os.RemoveAll(thePKI.dir)
		thePKI = nil
	}
	compareWithModel(r, "tls", cases, il, runTLSOps)
	if thePKI != nil {
		os.RemoveAll(thePKI.dir)
	}
}

// ---- the configured CA and nothing else ----
// A client certificate is accepted only if it chains to the CA the export configures. The host's own trust store
// must play no part, so the probe runs in a child process whose trust store (SSL_CERT_FILE) holds an unrelated CA
// and presents a client certificate signed by that CA.

func init() {
	children["c30-foreign-ca"] = func(args []string) {
		p := newPKI()
		defer os.RemoveAll(p.dir)
		// the unrelated CA of the host trust store was written by the parent; load it and sign a client certificate
		caPEM, err1 := os.ReadFile(args[0])
		caKeyPEM, err2 := os.ReadFile(args[1])
		if err1 != nil || err2 != nil {
			fmt.Println("step read-foreign-ca-failed")
			return
		}
		pair, err := tls.X509KeyPair(caPEM, caKeyPEM)
		if err != nil {
			fmt.Println("step parse-foreign-ca-failed")
			return
		}
		caCert, _ := x509.ParseCertificate(pair.Certificate[0])
		c, k, _, _ := genCert("client-of-host-store-ca", caCert, pair.PrivateKey.(*ecdsa.PrivateKey), false)
		foreignClient, _ := tls.X509KeyPair(c, k)
		for _, auth := range []tls.ClientAuthType{tls.RequireAndVerifyClientCert, tls.VerifyClientCertIfGiven} {
			_, port, stop, e := p.startTLS(tls.VersionTLS12, tls.VersionTLS13, auth, true)
			if e != "" {
				fmt.Println("step start-failed " + e)
				return
			}
			for _, v := range []uint16{tls.VersionTLS12, tls.VersionTLS13} {
				okOwn, _, _ := p.dial(port, v, &p.clientCA)
				okForeign, _, _ := p.dial(port, v, &foreignClient)
				fmt.Printf("result auth=%d tls=%#x configured-ca-client=%v host-store-ca-client=%v\n", auth, v, okOwn, okForeign)
			}
			stop()
		}
	}
}

func foreignCAProbe(r *Result) {
	dir, err := os.MkdirTemp("", "verif-c30-host-")
	if err != nil {
		return
	}
	defer os.RemoveAll(dir)
	caPEM, caKeyPEM, _, _ := genCert("host-trust-store-ca", nil, nil, true)
	store, key := filepath.Join(dir, "host-ca.pem"), filepath.Join(dir, "host-ca.key")
	must(os.WriteFile(store, caPEM, 0o600))
	must(os.WriteFile(key, caKeyPEM, 0o600))
	lines, stderr, finished := runChildEnv("c30-foreign-ca", []string{"SSL_CERT_FILE=" + store, "SSL_CERT_DIR=" + filepath.Join(dir, "none")}, store, key)
	r.noteCase("foreign-ca-client", true)
	if !finished {
		r.Notes = append(r.Notes, "foreign-CA probe did not finish: "+strings.Join(lines, " | ")+" "+stderr)
		return
	}
	for _, l := range lines {
		if !strings.HasPrefix(l, "result ") {
			continue
		}
		r.count("foreign-ca-handshakes")
		if strings.Contains(l, "host-store-ca-client=true") {
			r.violate(Violation{Class: "C30/foreign-ca-client-accepted", What: "a client certificate that chains to a CA of the host trust store, not to the configured CAFile, completed the handshake and was served: " + l, Ops: []string{"tls foreign-ca"}})
			return
		}
		if strings.Contains(l, "configured-ca-client=false") {
			r.violate(Violation{Class: "C30/own-ca-client-refused", What: "a client certificate signed by the configured CA was refused: " + l, Ops: []string{"tls foreign-ca"}})
			return
		}
	}
}
