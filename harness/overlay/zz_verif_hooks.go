//go:build verif

// Verification hooks: injected into package absnfs with `go build -tags verif -overlay ...` by
// /verif/check. This file lives in /verif, never in /repo. It only ADDS exported accessors for unexported
// pieces and a virtual clock used by the overlay copies of cache.go / rate_limiter.go / types.go (in which
// time.Now()/time.Since are rewritten to verifNow()).
package absnfs

import (
	"io"
	"net"

	"github.com/absfs/absfs"
	"sync/atomic"
	"time"
)

// ---- virtual clock ----

var verifClockOn atomic.Bool
var verifClockNs atomic.Int64

var verifEpoch = time.Unix(1_700_000_000, 0)

func verifNow() time.Time {
	if verifClockOn.Load() {
		return verifEpoch.Add(time.Duration(verifClockNs.Load()))
	}
	return time.Now()
}

// VerifSetClock switches the virtual clock on and sets it to ns nanoseconds after the epoch.
func VerifSetClock(ns int64) { verifClockNs.Store(ns); verifClockOn.Store(true) }
func VerifClockOff()         { verifClockOn.Store(false) }
func VerifEpoch() time.Time  { return verifEpoch }

// ---- codecs (C13) ----

func VerifXdrDecodeString(r io.Reader) (string, error)     { return xdrDecodeString(r) }
func VerifXdrEncodeString(w io.Writer, s string) error     { return xdrEncodeString(w, s) }
func VerifXdrDecodeFileHandle(r io.Reader) (uint64, error) { return xdrDecodeFileHandle(r) }
func VerifXdrEncodeFileHandle(w io.Writer, h uint64) error { return xdrEncodeFileHandle(w, h) }
func VerifXdrDecodeUint32(r io.Reader) (uint32, error)     { return xdrDecodeUint32(r) }

type VerifSattr3 struct {
	SetMode, SetUID, SetGID, SetSize bool
	Mode, UID, GID                   uint32
	Size                             uint64
	SetAtime, AtimeSec, AtimeNsec    uint32
	SetMtime, MtimeSec, MtimeNsec    uint32
}

func VerifDecodeSattr3(r io.Reader) (VerifSattr3, error) {
	s, err := decodeSattr3(r)
	return VerifSattr3{s.SetMode, s.SetUID, s.SetGID, s.SetSize, s.Mode, s.UID, s.GID, s.Size,
		s.SetAtime, s.AtimeSec, s.AtimeNsec, s.SetMtime, s.MtimeSec, s.MtimeNsec}, err
}

// ---- server-level access (handler tests without TCP) ----

// VerifNewProcHandler builds a Server (not listening) around n and returns its procedure handler.
func VerifNewProcHandler(n *AbsfsNFS, debug bool) (*NFSProcedureHandler, *Server) {
	s, err := NewServer(ServerOptions{Name: "verif", Port: 0, Hostname: "localhost", Debug: debug, UseRecordMarking: true})
	if err != nil {
		panic(err)
	}
	s.SetHandler(n)
	return &NFSProcedureHandler{server: s}, s
}

// VerifHandlePath returns the path a live handle denotes.
func VerifHandlePath(n *AbsfsNFS, h uint64) (string, bool) {
	f, ok := n.fileMap.Get(h)
	if !ok {
		return "", false
	}
	node, ok := f.(*NFSNode)
	if !ok {
		return "", false
	}
	return node.path, true
}

func VerifHandleCount(n *AbsfsNFS) int { return n.fileMap.Count() }

// VerifNodeSetOwner sets the owner recorded in the node behind handle h (what GETATTR/ACCESS report).
func VerifNodeSetOwner(n *AbsfsNFS, h uint64, uid, gid uint32) bool {
	f, ok := n.fileMap.Get(h)
	if !ok {
		return false
	}
	node := f.(*NFSNode)
	node.mu.Lock()
	node.attrs.Uid, node.attrs.Gid = uid, gid
	node.mu.Unlock()
	return true
}

func VerifAttrCacheSize(n *AbsfsNFS) int { return n.attrCache.Size() }
func VerifDirCacheSize(n *AbsfsNFS) int {
	if n.dirCache == nil {
		return 0
	}
	return n.dirCache.Size()
}
func VerifWriteVerf(s *Server) [8]byte { return s.writeVerf }

// ---- host filter (C09) ----
func VerifServerIPAllowed(s *Server, ip string) bool     { return s.isIPAllowed(ip) }
func VerifAuthIPAllowed(ip string, allowed []string) bool { return isIPAllowed(ip, allowed) }

// ---- file handle table (C05, C06) ----

func VerifNewFileHandleMap(maxHandles int) *FileHandleMap {
	return &FileHandleMap{
		handles:     make(map[uint64]absfs.File),
		pathHandles: make(map[string]uint64),
		nextHandle:  1,
		freeHandles: NewUint64MinHeap(),
		maxHandles:  maxHandles,
	}
}

func VerifAllocPath(fm *FileHandleMap, p string) uint64 {
	return fm.Allocate(&NFSNode{path: p, attrs: &NFSAttrs{}})
}

func VerifGetPath(fm *FileHandleMap, h uint64) (string, bool) {
	f, ok := fm.Get(h)
	if !ok {
		return "", false
	}
	n, ok := f.(*NFSNode)
	if !ok {
		return "", false
	}
	return n.path, true
}

// VerifHandleDump returns the live table as id->path.
func VerifHandleDump(fm *FileHandleMap) map[uint64]string {
	fm.RLock()
	defer fm.RUnlock()
	out := make(map[uint64]string, len(fm.handles))
	for h, f := range fm.handles {
		if n, ok := f.(*NFSNode); ok {
			out[h] = n.path
		}
	}
	return out
}

func VerifFileMap(n *AbsfsNFS) *FileHandleMap       { return n.fileMap }
func VerifSetMaxHandles(n *AbsfsNFS, max int)        { n.fileMap.Lock(); n.fileMap.maxHandles = max; n.fileMap.Unlock() }

// ---- caches (C21) ----

// VerifAttrCacheOrder returns the recency order (most recent first); negative entries carry a "!" suffix.
func VerifAttrCacheOrder(c *AttrCache) []string {
	c.mu.RLock()
	defer c.mu.RUnlock()
	var out []string
	for e := c.accessList.Front(); e != nil; e = e.Next() {
		k := e.Value.(string)
		if ca, ok := c.cache[k]; ok && ca.isNegative {
			out = append(out, k+"!")
		} else if ok {
			out = append(out, k)
		} else {
			out = append(out, k+"?") // in the list but not in the map: never expected
		}
	}
	if len(out) != len(c.cache) {
		out = append(out, "#map-size-differs")
	}
	return out
}

func VerifDirCacheOrder(c *DirCache) []string {
	c.mu.RLock()
	defer c.mu.RUnlock()
	var out []string
	for e := c.accessList.Front(); e != nil; e = e.Next() {
		out = append(out, e.Value.(string))
	}
	if len(out) != len(c.entries) {
		out = append(out, "#map-size-differs")
	}
	return out
}

func VerifIsChildOf(p, d string) bool { return isChildOf(p, d) }
func VerifAttrCache(n *AbsfsNFS) *AttrCache { return n.attrCache }
func VerifDirCache(n *AbsfsNFS) *DirCache   { return n.dirCache }

// ---- portmapper (C27) ----
func VerifPortmapCall(pm *Portmapper, data []byte, addr net.Addr) ([]byte, error) {
	return pm.handleCall(data, addr)
}

// ---- start paths (C28) ----
func VerifExportPort(n *AbsfsNFS) int {
	if n.exportServer == nil {
		return 0
	}
	return n.exportServer.GetPort()
}

// ---- connections (C17) ----
func VerifConnCounts(s *Server) (count int, inMap int) {
	s.connMutex.Lock()
	defer s.connMutex.Unlock()
	return s.connCount, len(s.activeConns)
}

// ---- connection loop on a caller-supplied connection (C11, C19: peers with chosen addresses, several
// identities on one connection) ----
// VerifInForce reads the settings the components actually work with (C24: GetExportOptions reports the configuration
// in force): attribute-cache capacity and TTL, directory-cache capacity and TTL (0 when there is none), worker count.
func VerifInForce(n *AbsfsNFS) (attrMax int, attrTTL time.Duration, dirMax int, dirTTL time.Duration, workers int) {
	if c := n.attrCache; c != nil {
		c.mu.RLock()
		attrMax, attrTTL = c.maxSize, c.ttl
		c.mu.RUnlock()
	}
	if d := n.dirCache; d != nil {
		d.mu.RLock()
		dirMax, dirTTL = d.maxEntries, d.timeout
		d.mu.RUnlock()
	}
	if p := n.workerPool; p != nil {
		p.resizeMu.Lock()
		workers = p.maxWorkers
		p.resizeMu.Unlock()
	}
	return
}

// VerifServeConnTimeouts runs the real record-marking connection loop on conn with the given read/write timeouts
// instead of the built-in 30 s (C28: a connection in continuous use outlives any number of read timeouts).
func VerifServeConnTimeouts(s *Server, h *NFSProcedureHandler, conn net.Conn, readTimeout, writeTimeout time.Duration) {
	rmConn := NewRecordMarkingConn(conn, conn)
	cio := &recordMarkingConnIO{server: s, rmConn: rmConn}
	s.handleConnectionLoop(conn, h, cio, readTimeout, writeTimeout)
}

func VerifServeConn(s *Server, h *NFSProcedureHandler, conn net.Conn, recordMarking bool) {
	if recordMarking {
		s.handleConnectionWithRecordMarking(conn, h)
	} else {
		s.handleConnection(conn, h)
	}
}
