package main

// C07 — the backend only sees clean in-export paths; symlink targets stay contained. Every name-taking
// procedure is driven with names and symlink targets from an adversarial alphabet (bounded-exhaustive) plus
// long and random strings, after a short preceding history; every path argument of every backend call is
// checked against the handle table as it was when the request arrived.

import (
	"encoding/json"
	"fmt"
	"math/rand"
	"path"
	"strings"

	"github.com/absfs/absnfs"
)

func init() {
	checks["C07"] = checkC07
	replays["C07"] = func(r *Result, raw json.RawMessage) { c07Replay(r, raw) }
}

func validComponent(n string) bool {
	return n != "" && len(n) <= 255 && !strings.ContainsAny(n, "/\\\x00") && n != "." && n != ".."
}

type c07Req struct {
	Proc   string `json:"proc"` // lookup create mkdir symlink remove rmdir rename mknod link mnt readlink
	Dir    string `json:"dir"`  // path of the directory handle to use
	Name   []byte `json:"name"`
	Name2  []byte `json:"name2,omitempty"`
	Target []byte `json:"target,omitempty"`
}

type c07Case struct {
	Seed []string `json:"seed"`
	Reqs []c07Req `json:"reqs"`
}

func (c c07Case) strings() []string {
	out := []string{}
	for _, s := range c.Seed {
		out = append(out, "seed "+s)
	}
	for _, q := range c.Reqs {
		out = append(out, fmt.Sprintf("%s dir=%s name=%q name2=%q target=%q", q.Proc, q.Dir, q.Name, q.Name2, q.Target))
	}
	return out
}

func judgeC07(c c07Case) []Violation {
	fs := NewRefFS()
	seedFS(fs, c.Seed)
	w := newWorldOn(fs, SrvCfg{AttrTTL: 1})
	defer w.Close()
	var vs []Violation
	cred := rootCred()
	for i, q := range c.Reqs {
		bad := func(class, what string) {
			vs = append(vs, Violation{Class: class, What: what, Detail: fmt.Sprintf("req %d: %s dir=%s name=%q name2=%q target=%q", i, q.Proc, q.Dir, q.Name, q.Name2, q.Target)})
		}
		dh, ok := w.handleFor(q.Dir, cred)
		if !ok {
			continue
		}
		// the handle table when the request arrives
		handlePaths := map[string]bool{}
		for _, p := range absnfs.VerifHandleDump(absnfs.VerifFileMap(w.srv.NFS)) {
			handlePaths[p] = true
		}
		fs.TakePaths()
		var rep Reply
		var res NfsRes
		switch q.Proc {
		case "lookup":
			rep, res = w.nfs(3, cred, cat(fh(dh), xdrOpaque(q.Name)))
		case "create":
			rep, res = w.nfs(8, cred, cat(fh(dh), xdrOpaque(q.Name), u32(0), Sattr{}.enc()))
		case "mkdir":
			rep, res = w.nfs(9, cred, cat(fh(dh), xdrOpaque(q.Name), Sattr{}.enc()))
		case "symlink":
			rep, res = w.nfs(10, cred, cat(fh(dh), xdrOpaque(q.Name), Sattr{}.enc(), xdrOpaque(q.Target)))
		case "mknod":
			rep, res = w.nfs(11, cred, cat(fh(dh), xdrOpaque(q.Name), u32(6), Sattr{}.enc()))
		case "remove":
			rep, res = w.nfs(12, cred, cat(fh(dh), xdrOpaque(q.Name)))
		case "rmdir":
			rep, res = w.nfs(13, cred, cat(fh(dh), xdrOpaque(q.Name)))
		case "rename":
			rep, res = w.nfs(14, cred, cat(fh(dh), xdrOpaque(q.Name), fh(dh), xdrOpaque(q.Name2)))
		case "link":
			rep, res = w.nfs(15, cred, cat(fh(dh), fh(dh), xdrOpaque(q.Name)))
		case "readlink":
			rep, res = w.nfs(5, cred, fh(dh))
			if res.Status == 0 && !res.Bad {
				t := string(res.Data)
				if !strings.HasPrefix(t, "/") {
					for _, comp := range strings.Split(t, "/") {
						if comp == ".." {
							bad("readlink-dotdot", fmt.Sprintf("READLINK returned the relative target %q", t))
						}
					}
				}
			}
		case "mnt":
			rep = w.srv.Call(progMount, 3, 1, cred, xdrOpaque(q.Name))
		case "mnt1":
			// the same procedure over MOUNT version 1, which the server also accepts
			rep = w.srv.Call(progMount, 1, 1, cred, xdrOpaque(q.Name))
		}
		_ = rep
		uses, targets := fs.TakePaths()
		for _, u := range uses {
			p := u.Path
			switch {
			case !strings.HasPrefix(p, "/"):
				bad("backend-path-relative", fmt.Sprintf("backend %s got the non-absolute path %q", u.Op, p))
			case path.Clean(p) != p:
				bad("backend-path-unclean", fmt.Sprintf("backend %s got the non-normalized path %q", u.Op, p))
			case strings.ContainsAny(p, "\\\x00"):
				bad("backend-path-badbyte", fmt.Sprintf("backend %s got a path with a backslash or NUL: %q", u.Op, p))
			case handlePaths[p]:
			case handlePaths[path.Dir(p)] && validComponent(path.Base(p)):
			default:
				cls := "backend-path-not-handle-plus-component"
				if q.Proc == "mnt" || q.Proc == "mnt1" {
					cls = "mnt-path-not-handle-plus-component"
					// the known finding is about multi-component paths of VALID components; a component that breaks
					// the name rules reaching the backend is a different failure
					for _, comp := range strings.Split(strings.TrimPrefix(p, "/"), "/") {
						if p != "/" && !validComponent(comp) {
							cls = "mnt-unvalidated-component"
						}
					}
				}
				bad(cls, fmt.Sprintf("backend %s got %q, which is neither a handle's path nor a handle's path plus one validated component", u.Op, p))
			}
		}
		for _, t := range targets {
			if strings.HasPrefix(t, "/") {
				bad("symlink-absolute-target", fmt.Sprintf("a symlink with the absolute target %q was created", t))
			}
			for _, comp := range strings.Split(t, "/") {
				if comp == ".." {
					bad("symlink-dotdot-target", fmt.Sprintf("a symlink with a '..' component (%q) was created", t))
				}
			}
		}
		_ = res
	}
	return vs
}

func c07Replay(r *Result, raw []byte) {
	var rp struct {
		Case c07Case `json:"case"`
	}
	if err := jsonUnmarshal(raw, &rp); err != nil {
		r.Notes = append(r.Notes, "replay: "+err.Error())
		return
	}
	r.noteCase(fmt.Sprint(rp.Case.strings()), true)
	for _, v := range judgeC07(rp.Case) {
		v.Ops, v.Case = rp.Case.strings(), rp.Case
		r.violate(v)
	}
}

var advAlphabet = []byte{'a', '.', '/', '\\', 0, ' '}

func advStrings(maxLen int) [][]byte {
	out := [][]byte{{}}
	prev := [][]byte{{}}
	for l := 1; l <= maxLen; l++ {
		var cur [][]byte
		for _, p := range prev {
			for _, b := range advAlphabet {
				cur = append(cur, append(append([]byte{}, p...), b))
			}
		}
		out = append(out, cur...)
		prev = cur
	}
	return out
}

func checkC07(r *Result, rng *rand.Rand, thorough bool) {
	traces, doneTraces := collectTraces(200)
	defer func() {
		doneTraces()
		compareSrv(r, "srv", *traces)
	}()
	maxLen := 3
	if thorough {
		maxLen = 4
	}
	names := advStrings(maxLen)
	long := func(n int, b byte) []byte { return []byte(strings.Repeat(string([]byte{b}), n)) }
	names = append(names, long(255, 'x'), long(256, 'x'), long(300, 'x'), []byte("a/../../etc"), []byte("..\\.."), []byte("d/../.."), []byte("...."),
		[]byte("d/f"), []byte("/d/f"), []byte("/d/up"), []byte("//d//f/"), []byte("/d/./f"), []byte("/d/../a"), []byte("/d\\f"), []byte("d\\f"), append(long(254, 'x'), '/'), []byte("CON"), []byte("x\x00y"))
	for i := 0; i < 40; i++ {
		names = append(names, randBytes(rng, 1+rng.Intn(300)))
	}
	targets := append(advStrings(3), []byte("../x"), []byte("a/../../x"), []byte("/etc/passwd"), []byte("a/b/.."), []byte("./a"), []byte("a//b"), []byte("x/..x/y"), []byte("..a"), []byte("a.."))
	seed := []string{"mkdir /d", "file /d/f " + hx([]byte("hi")), "file /a", "link /d/up ../a", "link /abs /a", "link /ok a"}
	procs := []string{"lookup", "create", "mkdir", "symlink", "remove", "rmdir", "rename", "mknod", "link", "mnt", "mnt1"}
	r.Rule = fmt.Sprintf("every name-taking procedure x %d adversarial names (all strings <= %d over {a . / \\ NUL space}, lengths 255/256/300, traversal literals, random long strings) in the root and in a subdirectory, rename with adversarial source and destination, SYMLINK with %d adversarial targets, READLINK of pre-existing links with '..' and absolute targets, MNT with adversarial paths; every backend path argument checked against the handle table", len(names), maxLen, len(targets))
	run := func(c c07Case) {
		vs := judgeC07(c)
		r.noteCase(fmt.Sprint(c.strings()), true)
		for _, v := range vs {
			known := false
			for _, ex := range r.Violations {
				if ex.Class == v.Class {
					known = true
				}
			}
			if known {
				continue
			}
			// shrink to the single offending request when possible
			small := c
			for _, q := range c.Reqs {
				one := c07Case{Seed: c.Seed, Reqs: []c07Req{q}}
				for _, v1 := range judgeC07(one) {
					if v1.Class == v.Class {
						small, v = one, v1
						break
					}
				}
				if len(small.Reqs) == 1 {
					break
				}
			}
			v.Ops, v.Case = small.strings(), small
			r.violate(v)
		}
	}
	for _, p := range procs {
		for _, dir := range []string{"/", "/d"} {
			var c c07Case
			c.Seed = seed
			for _, n := range names {
				q := c07Req{Proc: p, Dir: dir, Name: n}
				if p == "rename" {
					q.Name2 = names[rng.Intn(len(names))]
					if rng.Intn(2) == 0 {
						q.Name, q.Name2 = []byte("f"), n
					}
				}
				if p == "symlink" {
					q.Target = []byte("a")
				}
				c.Reqs = append(c.Reqs, q)
				r.count("proc:" + p)
			}
			run(c)
		}
	}
	// symlink targets, then READLINK of everything that exists
	{
		var c c07Case
		c.Seed = seed
		for i, t := range targets {
			c.Reqs = append(c.Reqs, c07Req{Proc: "symlink", Dir: "/d", Name: []byte(fmt.Sprintf("s%d", i)), Target: t})
			r.count("symlink-target")
		}
		for _, l := range []string{"/d/up", "/abs", "/ok"} {
			c.Reqs = append(c.Reqs, c07Req{Proc: "readlink", Dir: l})
		}
		// links that were in the backend before the export (the server would not have created them): every shape
		// of a relative target with a '..' component, and harmless look-alikes
		pre := []string{"..", "../", "../..", "a/..", "./..", "a/../b", "../a", "..a", "a..", "...", "a/..b", "a/b/../../..", "./a", "a/./b"}
		for i, t := range pre {
			c.Seed = append(append([]string{}, c.Seed...), fmt.Sprintf("link /d/p%d %s", i, t))
			c.Reqs = append(c.Reqs, c07Req{Proc: "readlink", Dir: fmt.Sprintf("/d/p%d", i)})
		}
		for i := range targets {
			c.Reqs = append(c.Reqs, c07Req{Proc: "readlink", Dir: fmt.Sprintf("/d/s%d", i)})
		}
		run(c)
	}
	r.sample([]string{"names: all strings up to length " + fmt.Sprint(maxLen) + " over {a . / \\ NUL space} + specials", "procedures: " + strings.Join(procs, " ")})
}
