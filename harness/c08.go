package main

// C08 — a read-only export is never modified. Histories of well-formed, truncated and garbage requests for
// every procedure run against a read-only server (configured at construction, or switched on at runtime
// through UpdatePolicyOptions / UpdateExportOptions after a read-write prefix); the backend's call log must
// show no modifying operation, every mutating procedure must fail, ACCESS must not grant write bits.

import (
	"encoding/json"
	"fmt"
	"math/rand"
	"strings"
	"time"

	"github.com/absfs/absnfs"
)

func init() {
	checks["C08"] = checkC08
	replays["C08"] = func(r *Result, raw json.RawMessage) {
		var rp struct {
			Case c08Case  `json:"case"`
			Ops  []string `json:"ops"`
		}
		if err := json.Unmarshal(raw, &rp); err != nil {
			r.Notes = append(r.Notes, "replay: "+err.Error())
			return
		}
		if len(rp.Ops) > 0 && strings.HasPrefix(rp.Ops[0], "late-write") {
			lateWriteAfterSwitch(r) // the scenario has no input: it is replayed as a whole
			return
		}
		r.noteCase(fmt.Sprint(rp.Case.strings()), true)
		for _, v := range judgeC08(rp.Case) {
			v.Ops, v.Case = rp.Case.strings(), rp.Case
			r.violate(v)
		}
	}
}

type c08Case struct {
	Base     SrvCase `json:"base"`     // Ops[:Switch] run read-write, then the switch, then Ops[Switch:] read-only
	Switch   int     `json:"switch"`   // -1: read-only from construction
	How      string  `json:"how"`      // "policy" or "export"
	RawAfter []rawRq `json:"rawafter"` // raw (possibly malformed) requests sent after the history, all read-only
}

type rawRq struct {
	Proc uint32 `json:"proc"`
	Args []byte `json:"args"`
	Cred Cred   `json:"cred"`
}

func (c c08Case) strings() []string {
	out := []string{fmt.Sprintf("switch=%d how=%s", c.Switch, c.How)}
	out = append(out, c.Base.strings()...)
	for _, q := range c.RawAfter {
		out = append(out, fmt.Sprintf("raw proc=%d args=%x", q.Proc, q.Args))
	}
	return out
}

var mutatingProcs = map[uint32]string{2: "SETATTR", 7: "WRITE", 8: "CREATE", 9: "MKDIR", 10: "SYMLINK", 11: "MKNOD", 12: "REMOVE", 13: "RMDIR", 14: "RENAME", 15: "LINK", 21: "COMMIT"}

func mutatingCalls(log []string) []string {
	var out []string
	for _, l := range log {
		op := strings.Fields(l)[0]
		if mutatingOps[op] {
			out = append(out, l)
		}
	}
	return out
}

func judgeC08(c c08Case) []Violation {
	base := c.Base
	if c.Switch < 0 {
		base.Cfg.ReadOnly = true
	}
	w := base.world()
	defer w.Close()
	var vs []Violation
	if c.How == "export" && c.Switch >= 0 && c.Switch%2 == 0 {
		// the export has an allow-list (which admits the harness's clients): the documented way of switching to
		// read-only later re-submits the same list together with ReadOnly
		opts := w.srv.NFS.GetExportOptions()
		opts.AllowedIPs = []string{"127.0.0.1", "10.0.0.0/8", "192.168.0.0/16", "::1"}
		if err := w.srv.NFS.UpdateExportOptions(opts); err != nil {
			return nil
		}
	}
	ro := c.Switch < 0
	check := func(what string, proc uint32, rep Reply, res NfsRes, access bool) {
		log := w.fs.TakeLog()
		if !ro {
			return
		}
		if m := mutatingCalls(log); len(m) > 0 {
			vs = append(vs, Violation{Class: "backend-modified", What: fmt.Sprintf("read-only export: %s made the backend run %v", what, m), Detail: what})
		}
		if name, isMut := mutatingProcs[proc]; isMut {
			if rep.Err == nil && rep.Status == 0 && rep.AcceptStatus == 0 && !res.Bad && res.Status == 0 {
				vs = append(vs, Violation{Class: "mutating-proc-succeeded", What: fmt.Sprintf("read-only export: %s replied NFS3_OK", name), Detail: what})
			}
		}
		if access && !res.Bad && res.Status == 0 && res.Access&(4|8|16) != 0 {
			vs = append(vs, Violation{Class: "access-grants-write", What: fmt.Sprintf("read-only export: ACCESS granted %#x", res.Access), Detail: what})
		}
	}
	for i, o := range base.Ops {
		if i == c.Switch {
			w.fs.TakeLog()
			var err error
			if c.How == "export" {
				opts := w.srv.NFS.GetExportOptions()
				opts.ReadOnly = true
				err = w.srv.NFS.UpdateExportOptions(opts)
			} else {
				p := absnfs.PolicyOptions{ReadOnly: true, Squash: w.cfg.Squash}
				err = w.srv.NFS.UpdatePolicyOptions(p)
			}
			if err != nil {
				return vs // the switch was rejected: nothing to check
			}
			ro = true
			w.tr("srv ro 1", "ok")
			w.fs.TakeLog()
		}
		r := w.do(o)
		if r.NoHandle {
			w.fs.TakeLog()
			continue
		}
		check(o.String(), r.Proc, r.Reply, r.Res, o.Kind == "access")
	}
	if c.Switch >= len(base.Ops) {
		return vs
	}
	for _, q := range c.RawAfter {
		cred := q.Cred
		if cred.Flavor == 0 && cred.Raw == nil {
			cred = rootCred()
		}
		rep, res := w.nfs(q.Proc, cred, q.Args)
		check(fmt.Sprintf("raw proc=%d args=%x", q.Proc, q.Args), q.Proc, rep, res, q.Proc == 4)
	}
	return vs
}

func checkC08(r *Result, rng *rand.Rand, thorough bool) {
	traces, doneTraces := collectTraces(200)
	defer func() {
		doneTraces()
		compareSrv(r, "srv", *traces)
	}()
	ncases, n := 200, 30
	if thorough {
		ncases, n = 1200, 60
	}
	r.Rule = "namespace+data+SETATTR histories with random credentials against a read-only export (from construction, or switched at a random point via UpdatePolicyOptions / UpdateExportOptions), followed by every mutating procedure with valid arguments truncated at every length and with random garbage; backend call log, reply status and ACCESS bits checked"
	creds := []Cred{{}, {Flavor: 1, UID: 1000, GID: 1000}, {Flavor: 1, UID: 0, GID: 0, Aux: []uint32{0, 4}}, {Flavor: 0}}
	for i := 0; i < ncases; i++ {
		g := &nsGen{depth: 2, withData: true, withSetattr: true, creds: creds}
		base := genNsCase(rng, 5+rng.Intn(n), g)
		base.Cfg.AttrTTL = 1
		if rng.Intn(2) == 0 {
			base.Cfg.AttrTTL = 5e9
			base.Cfg.DirCache, base.Cfg.Neg = true, true
		}
		c := c08Case{Base: base, Switch: -1, How: "policy"}
		if rng.Intn(3) > 0 {
			c.Switch = rng.Intn(len(base.Ops))
			if rng.Intn(2) == 0 {
				c.How = "export"
			}
		}
		// malformed tail: every mutating procedure, valid args truncated at every 4-byte step (and some odd lengths), plus garbage
		root := fh(1)
		valid := map[uint32][]byte{
			2:  argSetattr(1, Sattr{Mode: p32(0o600), Size: p64(0)}, nil),
			7:  argWrite(1, 0, 4, 2, []byte("data")),
			8:  argCreate(1, "n", 0, Sattr{Mode: p32(0o644)}, nil),
			9:  argMkdir(1, "n", Sattr{}),
			10: argSymlink(1, "n", Sattr{}, "a"),
			11: cat(root, xdrOpaque([]byte("n")), u32(6), Sattr{}.enc()),
			12: argDirop(1, "a"),
			13: argDirop(1, "a"),
			14: argRename(1, "a", 1, "z"),
			15: cat(root, root, xdrOpaque([]byte("n"))),
			21: argCommit(1, 0, 0),
		}
		for proc, args := range valid {
			if i%10 == 0 {
				for cut := 0; cut <= len(args); cut++ {
					c.RawAfter = append(c.RawAfter, rawRq{Proc: proc, Args: args[:cut]})
				}
			} else {
				c.RawAfter = append(c.RawAfter, rawRq{Proc: proc, Args: args[:rng.Intn(len(args)+1)]}, rawRq{Proc: proc, Args: args})
			}
			c.RawAfter = append(c.RawAfter, rawRq{Proc: proc, Args: randBytes(rng, rng.Intn(64))})
		}
		c.RawAfter = append(c.RawAfter, rawRq{Proc: 4, Args: cat(root, u32(0x3f))})
		vs := judgeC08(c)
		r.noteCase(fmt.Sprint(c.strings()), true)
		r.count(fmt.Sprintf("switch:%v how:%s", c.Switch >= 0, c.How))
		for _, v := range vs {
			dup := false
			for _, ex := range r.Violations {
				if ex.Class == v.Class {
					dup = true
				}
			}
			if !dup {
				v.Ops, v.Case = c.strings(), c
				r.violate(v)
			}
		}
		if i < 1 {
			r.sample(c.strings()[:10])
		}
	}
	lateWriteAfterSwitch(r)
}

// lateWriteAfterSwitch: a WRITE admitted while the export is read-write is slow in the backend and outlives its
// RPC-level timeout; the export is then switched to read-only. The switch may not complete while that request is
// still working: once UpdateExportOptions has returned, no modifying backend call may be issued any more.
func lateWriteAfterSwitch(r *Result) {
	for _, how := range []string{"policy", "export"} {
		fs := NewRefFS()
		seedFS(fs, []string{"file /slow " + hx([]byte("0123456789"))})
		s, err := newSrv(fs, absnfs.ExportOptions{Timeouts: &absnfs.TimeoutConfig{DefaultTimeout: 80 * time.Millisecond, WriteTimeout: 5 * time.Second}})
		must(err)
		root, _ := s.Mount("/")
		h, _ := s.Lookup(root, "slow", rootCred())
		gate := make(chan struct{})
		reached := make(chan struct{}, 1)
		fs.gate = func(call string) {
			if strings.HasPrefix(call, "OpenFileW /slow") {
				select {
				case reached <- struct{}{}:
					<-gate
				default:
				}
			}
		}
		callerDone := make(chan bool, 1)
		go func() {
			rep := s.NFSCall(7, rootCred(), argWrite(h, 0, 4, 2, []byte("late")))
			callerDone <- rep.Err != nil
		}()
		select {
		case <-reached:
		case <-time.After(2 * time.Second):
			r.Notes = append(r.Notes, "late-write: the WRITE never reached the backend")
			close(gate)
			s.Close()
			continue
		}
		timedOut := <-callerDone // the caller gave up (80 ms); the worker is still inside OpenFile
		fs.TakeLog()
		switched := make(chan struct{})
		var switchErr error
		cur := s.NFS.GetExportOptions()
		go func() {
			if how == "policy" {
				switchErr = s.NFS.UpdatePolicyOptions(absnfs.PolicyOptions{Squash: cur.Squash, ReadOnly: true})
			} else {
				o := cur
				o.ReadOnly = true
				switchErr = s.NFS.UpdateExportOptions(o)
			}
			close(switched)
		}()
		early := false
		select {
		case <-switched:
			early = true // the switch did not wait for the request that is still working
		case <-time.After(150 * time.Millisecond):
		}
		fs.TakeLog()
		close(gate)
		<-switched
		time.Sleep(30 * time.Millisecond)
		after := mutatingCalls(fs.TakeLog())
		fs.gate = nil
		ro := s.NFS.GetExportOptions().ReadOnly
		s.Close()
		if switchErr != nil {
			r.Notes = append(r.Notes, "late-write: the switch to read-only was refused: "+switchErr.Error())
			continue
		}
		r.noteCase("late-write "+how, true)
		r.count("late-write:" + how)
		if ro && early && len(after) > 0 {
			r.violate(Violation{Class: "modified-after-readonly-switch", What: fmt.Sprintf("a WRITE admitted before the export became read-only (%s; caller timed out: %v) kept working after the switch had returned and made the backend run %v", how, timedOut, after),
				Ops: []string{"late-write " + how}})
		}
	}
}
