package main

// C28 — every documented start path answers a conformant (record-marked) ONC RPC client over real TCP:
// NULL, MNT "/" and GETATTR of the mounted handle.

import (
	"bytes"
	"encoding/binary"
	"encoding/json"
	"fmt"
	"io"
	"math/rand"
	"net"
	"strings"
	"time"

	"github.com/absfs/absnfs"
)

func init() {
	checks["C28"] = checkC28
	c28ops := opsReplay("startup", runStartupOps, func(r *Result, ops, impl []string) { startupOracle(r, ops, impl) })
	replays["C28"] = func(r *Result, raw json.RawMessage) {
		var rp struct {
			Ops []string `json:"ops"`
		}
		json.Unmarshal(raw, &rp)
		if len(rp.Ops) > 0 && strings.HasPrefix(rp.Ops[0], "connection-in-use") {
			connectionInUseOutlivesReadTimeouts(r, strings.Contains(rp.Ops[0], "over TCP"))
			return
		}
		c28ops(r, raw)
	}
}

func rmCall(conn net.Conn, xid, prog, vers, proc uint32, args []byte) ([]byte, error) {
	return rmCallFrag(conn, xid, prog, vers, proc, args, nil)
}

// rmCallFrag sends the call as one record split into fragments at the given offsets (RFC 5531 section 11: a
// record is one or more fragments, the last one flagged) and reads the reply record.
func rmCallFrag(conn net.Conn, xid, prog, vers, proc uint32, args []byte, splits []int) ([]byte, error) {
	return rmCallCred(conn, xid, prog, vers, proc, args, splits, encAuthSys(0, []byte("c"), 0, 0, nil))
}

// rmCallCred: the same with a given AUTH_SYS credential body
func rmCallCred(conn net.Conn, xid, prog, vers, proc uint32, args []byte, splits []int, cred []byte) ([]byte, error) {
	msg := cat(encCallHdr(xid, 2, prog, vers, proc, 1, cred, 0, nil), args)
	conn.SetDeadline(time.Now().Add(2 * time.Second))
	if _, err := conn.Write(frame(msg, splits)); err != nil {
		return nil, err
	}
	var hdr [4]byte
	if _, err := io.ReadFull(conn, hdr[:]); err != nil {
		return nil, err
	}
	h := binary.BigEndian.Uint32(hdr[:])
	if h&0x80000000 == 0 || h&0x7fffffff > 1<<20 {
		return nil, fmt.Errorf("not a single-fragment record header: %#x", h)
	}
	buf := make([]byte, h&0x7fffffff)
	if _, err := io.ReadFull(conn, buf); err != nil {
		return nil, err
	}
	if len(buf) < 24 || binary.BigEndian.Uint32(buf) != xid || binary.BigEndian.Uint32(buf[4:]) != 1 {
		return nil, fmt.Errorf("reply does not echo the xid / is not a REPLY")
	}
	return buf, nil
}

// conformantClient: NULL, MNT "/", GETATTR as single-fragment records, then MNT and GETATTR again as multi-fragment records, then NULL and GETATTR with a full-size AUTH_SYS credential (16 groups); returns "rm" when all three are answered as record-marked replies.
func conformantClient(port int) string {
	for i := 0; i < 9; i++ { // earlier clients: connect, one NULL call (answered or not), disconnect
		if c, err := net.DialTimeout("tcp", fmt.Sprintf("127.0.0.1:%d", port), 2*time.Second); err == nil {
			c.SetDeadline(time.Now().Add(300 * time.Millisecond))
			c.Write(frame(cat(encCallHdr(uint32(900+i), 2, progNFS, 3, 0, 1, encAuthSys(0, []byte("c"), 0, 0, nil), 0, nil)), nil))
			var b [28]byte
			io.ReadFull(c, b[:])
			c.Close()
		}
	}
	time.Sleep(20 * time.Millisecond)
	conn, err := net.DialTimeout("tcp", fmt.Sprintf("127.0.0.1:%d", port), 2*time.Second)
	if err != nil {
		return "no-connect:" + err.Error()
	}
	defer conn.Close()
	if _, err := rmCall(conn, 11, progNFS, 3, 0, nil); err != nil {
		return "raw(NULL: " + err.Error() + ")"
	}
	rep, err := rmCall(conn, 12, progMount, 3, 1, xdrOpaque([]byte("/")))
	if err != nil {
		return "raw(MNT: " + err.Error() + ")"
	}
	if len(rep) < 24+4+4+8 || binary.BigEndian.Uint32(rep[24:]) != 0 {
		return "mnt-failed"
	}
	h := binary.BigEndian.Uint64(rep[32:])
	rep, err = rmCall(conn, 13, progNFS, 3, 1, fh(h))
	if err != nil {
		return "raw(GETATTR: " + err.Error() + ")"
	}
	if len(rep) != 24+4+84 || binary.BigEndian.Uint32(rep[24:]) != 0 || binary.BigEndian.Uint32(rep[28:]) != 2 {
		return fmt.Sprintf("getattr-bad(len=%d)", len(rep))
	}
	// the same two calls the way another conformant client may send them: one record in several fragments
	rep, err = rmCallFrag(conn, 14, progMount, 3, 1, xdrOpaque([]byte("/")), []int{24})
	if err != nil {
		return "raw(MNT in 2 fragments: " + err.Error() + ")"
	}
	if len(rep) < 24+4+4+8 || binary.BigEndian.Uint32(rep[24:]) != 0 || binary.BigEndian.Uint64(rep[32:]) != h {
		return "mnt-failed(2 fragments)"
	}
	rep, err = rmCallFrag(conn, 15, progNFS, 3, 1, fh(h), []int{4, 40})
	if err != nil {
		return "raw(GETATTR in 3 fragments: " + err.Error() + ")"
	}
	if len(rep) != 24+4+84 || binary.BigEndian.Uint32(rep[24:]) != 0 || binary.BigEndian.Uint32(rep[28:]) != 2 {
		return fmt.Sprintf("getattr-bad(3 fragments, len=%d)", len(rep))
	}
	// ... and with the largest credential RFC 5531 allows: 16 supplementary groups (what a Linux client sends for
	// a user in 16 or more groups) and a 255-byte machine name
	full := encAuthSys(77, bytes.Repeat([]byte("m"), 255), 1000, 1000, []uint32{1, 2, 3, 4, 5, 6, 7, 8, 9, 10, 11, 12, 13, 14, 15, 16})
	if _, err := rmCallCred(conn, 16, progNFS, 3, 0, nil, nil, full); err != nil {
		return "raw(NULL with 16 groups: " + err.Error() + ")"
	}
	rep, err = rmCallCred(conn, 17, progNFS, 3, 1, fh(h), nil, full)
	if err != nil {
		return "raw(GETATTR with 16 groups: " + err.Error() + ")"
	}
	if len(rep) != 24+4+84 || binary.BigEndian.Uint32(rep[8:]) != 0 || binary.BigEndian.Uint32(rep[24:]) != 0 {
		return fmt.Sprintf("getattr-denied-or-bad(16 groups, reply_stat=%d len=%d)", binary.BigEndian.Uint32(rep[8:]), len(rep))
	}
	return "rm"
}

func freePort() int {
	l, err := net.Listen("tcp", "127.0.0.1:0")
	if err != nil {
		return 0
	}
	defer l.Close()
	return l.Addr().(*net.TCPAddr).Port
}

// op: startup <path> [explicit-port] [debug]
func runStartupOps(ops []string) []string {
	out := make([]string, len(ops))
	for i, op := range ops {
		f := strings.Fields(op)
		explicit, debug := strings.Contains(op, "#explicit"), strings.Contains(op, "debug")
		port := 0
		if explicit {
			port = freePort()
		}
		fs := NewRefFS()
		// a small connection limit, and more clients than that coming and going before the probe: a server that has
		// served and lost some clients must still serve the next one
		n, err := absnfs.New(fs, absnfs.ExportOptions{MaxConnections: 4})
		must(err)
		switch f[1] {
		case "export":
			if err := n.Export("/export/test", port); err != nil {
				out[i] = "start-failed:" + err.Error()
			} else {
				out[i] = conformantClient(absnfs.VerifExportPort(n))
			}
			n.Close()
		case "listen-rm", "listen-default":
			s, err := absnfs.NewServer(absnfs.ServerOptions{Port: port, Hostname: "127.0.0.1", UseRecordMarking: f[1] == "listen-rm", Debug: debug})
			must(err)
			s.SetHandler(n)
			if err := s.Listen(); err != nil {
				out[i] = "start-failed:" + err.Error()
			} else {
				out[i] = conformantClient(s.GetPort())
				if f[1] == "listen-default" && out[i] != "rm" {
					out[i] = "raw"
				}
			}
			s.Stop()
			n.Close()
		case "portmapper":
			s, err := absnfs.NewServer(absnfs.ServerOptions{Port: port, Hostname: "127.0.0.1", Debug: debug})
			must(err)
			s.SetHandler(n)
			if err := s.StartWithPortmapper(); err != nil {
				out[i] = "skipped(" + err.Error() + ")"
			} else {
				// a conformant client finds the services through the portmapper it was started with: GETPORT for
				// NFS v3 and MOUNT v3 over TCP must name the port the server is actually listening on
				out[i] = conformantClient(s.GetPort())
				if out[i] == "rm" {
					for _, pv := range [][2]uint32{{progNFS, 3}, {progMount, 3}} {
						got, err := pmGetPort(pv[0], pv[1])
						if err != nil {
							out[i] = "portmapper-unreachable(" + err.Error() + ")"
							break
						}
						if int(got) != s.GetPort() {
							out[i] = fmt.Sprintf("portmapper-names-port-%d-for-prog-%d-but-the-server-listens-on-another-port", got, pv[0])
							break
						}
					}
				}
			}
			s.Stop()
			n.Close()
		default:
			out[i] = "bad-op"
		}
		if strings.HasPrefix(out[i], "raw(") {
			out[i] = "raw"
		}
	}
	return out
}

func startupOracle(r *Result, ops, impl []string) {
	for i, op := range ops {
		f := strings.Fields(op)
		if f[1] == "listen-default" || strings.HasPrefix(impl[i], "skipped") {
			continue
		}
		if impl[i] != "rm" {
			r.violate(Violation{Class: "C28/not-record-marked", What: fmt.Sprintf("a server started via %s did not answer a record-marked NULL/MNT/GETATTR sequence: %s", f[1], impl[i]), Ops: []string{op}})
		}
	}
}

func checkC28(r *Result, rng *rand.Rand, thorough bool) {
	r.Rule = "each public start path (AbsfsNFS.Export, Server.Listen with UseRecordMarking, Server.StartWithPortmapper; raw Listen as a control) x port 0 / explicit port x debug on/off, each probed over real TCP by a record-marking client sending NULL, MNT and GETATTR; every case is non-trivial; the space is finite and enumerated completely"
	var ops []string
	for _, p := range []string{"export", "listen-rm", "portmapper", "listen-default"} {
		for _, ex := range []string{"", " #explicit"} {
			for _, dbg := range []string{"", " #debug"} {
				if p == "export" && dbg != "" {
					continue
				}
				ops = append(ops, "startup "+p+ex+dbg)
			}
		}
	}
	reps := 1
	if thorough {
		reps = 5
	}
	var cases []Case
	var impl [][]string
	for k := 0; k < reps; k++ {
		im := runStartupOps(ops)
		startupOracle(r, ops, im)
		for i, op := range ops {
			r.noteCase(op, true)
			r.count(strings.Fields(op)[1] + "=" + strings.SplitN(im[i], "(", 2)[0])
			if k == 0 {
				r.sample(map[string]string{"op": op, "observed": im[i]})
			}
			// skipped cases (portmapper cannot bind :111) are not compared with the model
			if strings.HasPrefix(im[i], "skipped") {
				r.Notes = append(r.Notes, "StartWithPortmapper not exercised over TCP: "+im[i])
				continue
			}
			cases = append(cases, Case{Ops: []string{op}})
			impl = append(impl, []string{im[i]})
		}
	}
	connectionInUseOutlivesReadTimeouts(r, thorough)
	compareWithModel(r, "startup", cases, impl, runStartupOps)
}

// connectionInUseOutlivesReadTimeouts: a conformant client keeps ONE connection per mount and sends calls on it for
// as long as it is mounted. The server's read timeout bounds the silence between two calls, not the age of the
// connection. The real record-marking loop is run with a read timeout of 400 ms (hook VerifServeConnTimeouts; the
// built-in value is 30 s) and a client sends NULL / MNT / GETATTR every 120 ms for 3.5 timeouts; in the thorough
// tier the same is done over real TCP against Export with the built-in 30 s (36 s of calls every 4 s).
func connectionInUseOutlivesReadTimeouts(r *Result, thorough bool) {
	s, err := newSrv(NewRefFS(), absnfs.ExportOptions{})
	must(err)
	defer s.Close()
	r.noteCase("connection-in-use", true)
	r.count("connection-in-use")
	// the verdict needs a client that really kept calling: when this process was descheduled for longer than the
	// margin between two calls (a loaded machine), the server's timeout may legitimately have fired — such an attempt
	// says nothing and is repeated
	for attempt := 0; attempt < 4; attempt++ {
		cl, sv := net.Pipe()
		go absnfs.VerifServeConnTimeouts(s.S, s.H, &peerConn{Conn: sv, remote: &net.TCPAddr{IP: net.ParseIP("127.0.0.1"), Port: 900 + attempt}}, 400*time.Millisecond, 400*time.Millisecond)
		p := &Peer{c: cl, xid: 500, ip: "127.0.0.1"}
		t0 := time.Now()
		var callErr error
		maxGap := time.Duration(0)
		last := time.Now()
		for i := 0; time.Since(t0) < 1400*time.Millisecond && callErr == nil; i++ {
			if g := time.Since(last); g > maxGap {
				maxGap = g
			}
			switch i % 3 {
			case 0:
				_, _, _, callErr = p.call(progNFS, 3, 0, rootCred(), nil)
			case 1:
				_, _, _, callErr = p.call(progMount, 3, 1, rootCred(), xdrOpaque([]byte("/")))
			default:
				_, _, _, callErr = p.call(progNFS, 3, 1, rootCred(), fh(1))
			}
			last = time.Now()
			if callErr == nil {
				time.Sleep(120 * time.Millisecond)
			}
		}
		age := time.Since(t0)
		p.Close()
		if callErr == nil {
			break
		}
		if maxGap < 250*time.Millisecond {
			r.violate(Violation{Class: "C28/connection-cut-while-in-use", What: fmt.Sprintf("a connection on which a call was sent every 120 ms (longest silence %v, read timeout 400 ms) stopped being served %v after it was opened: %v", maxGap.Round(time.Millisecond), age.Round(10*time.Millisecond), callErr),
				Ops: []string{"connection-in-use: NULL/MNT/GETATTR every 120 ms on one connection, read timeout 400 ms"}})
			return
		}
		r.Notes = append(r.Notes, fmt.Sprintf("connection-in-use: attempt %d inconclusive (this process paused for %v between two calls)", attempt, maxGap.Round(time.Millisecond)))
	}
	if !thorough {
		return
	}
	fs := NewRefFS()
	n, err := absnfs.New(fs, absnfs.ExportOptions{})
	must(err)
	defer n.Close()
	if err := n.Export("/", 0); err != nil {
		r.Notes = append(r.Notes, "connection-in-use over TCP skipped: "+err.Error())
		return
	}
	defer n.Unexport()
	conn, err := net.DialTimeout("tcp", fmt.Sprintf("127.0.0.1:%d", absnfs.VerifExportPort(n)), 2*time.Second)
	if err != nil {
		r.Notes = append(r.Notes, "connection-in-use over TCP skipped: "+err.Error())
		return
	}
	defer conn.Close()
	t0 := time.Now()
	for xid := uint32(1); time.Since(t0) < 36*time.Second; xid++ {
		conn.SetDeadline(time.Now().Add(5 * time.Second))
		if _, err := rmCall(conn, xid, progNFS, 3, 0, nil); err != nil {
			r.violate(Violation{Class: "C28/connection-cut-while-in-use", What: fmt.Sprintf("over TCP against Export: a connection on which a NULL call was sent every 4 s stopped being served %v after it was opened: %v", time.Since(t0).Round(time.Second), err),
				Ops: []string{"connection-in-use over TCP: NULL every 4 s for 36 s on one connection"}})
			return
		}
		time.Sleep(4 * time.Second)
	}
	r.count("connection-in-use-tcp")
}

// pmGetPort asks the portmapper on 127.0.0.1:111 (portmap v2 GETPORT, TCP) for the port of (prog, vers, tcp).
func pmGetPort(prog, vers uint32) (uint32, error) {
	conn, err := net.DialTimeout("tcp", "127.0.0.1:111", 2*time.Second)
	if err != nil {
		return 0, err
	}
	defer conn.Close()
	rep, err := rmCall(conn, 4242, 100000, 2, 3, cat(u32(prog), u32(vers), u32(6), u32(0)))
	if err != nil {
		return 0, err
	}
	if len(rep) < 28 || binary.BigEndian.Uint32(rep[8:]) != 0 || binary.BigEndian.Uint32(rep[20:]) != 0 {
		return 0, fmt.Errorf("GETPORT not answered with SUCCESS (%d reply bytes)", len(rep))
	}
	return binary.BigEndian.Uint32(rep[24:]), nil
}
