#!/usr/bin/env python3
"""Regenerates MANIFEST.json from checkcfg.PROPS (claimed checks) and properties.jsonl (everything else
goes to not_applicable with the reason recorded in checkcfg.NOT_YET)."""
import json, os, sys
V = os.path.dirname(os.path.abspath(__file__))
sys.path.insert(0, V)
import checkcfg

props = [json.loads(l) for l in open(os.path.join(V, "properties.jsonl"))]
checks, na = [], []
for p in props:
    pid = p["id"]
    c = checkcfg.PROPS.get(pid)
    if c is None:
        na.append({"property_id": pid, "reason": getattr(checkcfg, "NOT_YET", {}).get(pid, "check not built yet in this round; see DESIGN.md §7 for the planned model and theorems")})
        continue
    checks.append({
        "property_id": pid,
        "quick_cmd": f"./check {pid} --tier quick",
        "thorough_cmd": f"./check {pid} --tier thorough",
        "evidence_file": f"/verif/evidence/{pid}.json",
        "replay_cmd_template": f"./check {pid} --replay {{path}}",
        "engine": "lean+harness",
        "level_claimed": {"category": "proof", "text": c["level_text"], "design_ref": c.get("design_ref", f"DESIGN.md §7 {pid}")},
        "level_note": c["level_note"],
        "technique": c.get("technique", "Lean 4 theorems over an executable model; model tied to /repo by regenerated facts + differential correspondence"),
    })
m = {
    "version": 1,
    "setup_cmd": "./setup.sh",
    "hooks": {
        "guard": "verif",
        "enable": "go build -tags verif -overlay /verif/.work/overlay/overlay.json (hooks file /verif/harness/overlay/zz_verif_hooks.go is injected into package absnfs; cache.go, rate_limiter.go, types.go are replaced by copies regenerated from /repo with time.Now/time.Since rewritten to a virtual clock)",
        "baseline_off_cmd": "cd /repo && GOFLAGS=-mod=mod GOPROXY=off GOSUMDB=off go test -json -vet=off -count=1 -timeout 25m ./...",
        "source_commits": [],
        "add_only": True,
    },
    "engines": [
        {"name": "lean", "path": "/verif/lean", "serves_properties": [c["property_id"] for c in checks],
         "kind_free_text": "Lean 4.33 lake project: executable models (Absnfs/), property theorems (Props/), generated facts (Gen/), line-protocol driver"},
        {"name": "extract", "path": "/verif/extract", "serves_properties": [c["property_id"] for c in checks],
         "kind_free_text": "go/ast fact extractor regenerating lean/Gen/Facts.lean and the virtual-clock overlay from /repo on every run"},
        {"name": "harness", "path": "/verif/harness", "serves_properties": [c["property_id"] for c in checks],
         "kind_free_text": "Go correspondence drivers + property oracles calling the real absnfs code in-process"},
    ],
    "checks": checks,
    "not_applicable": na,
    "notes": "Every claimed property is decided by Lean theorems re-checked on each run; the model is tied to /repo's working tree by facts regenerated from the source and by a differential correspondence run. See DESIGN.md.",
}
json.dump(m, open(os.path.join(V, "MANIFEST.json"), "w"), indent=1)
print("claimed", len(checks), "not_applicable", len(na))
