package main

// Facts added after the fifth seeded campaign: each pins the shape of a few statements at a site where a changed
// comparison, a hoisted call, a dropped copy or a lost unlock was planted and no scenario reached it at first.

import (
	"go/ast"
	"strings"
)

// stmtAfter reports whether, in the block that directly contains the if statement whose squeezed condition is cond,
// the first statement of that if's body has the given squeezed text.
func (p *pkg) ifBodyStartsWith(fn *ast.FuncDecl, cond, first string) (found bool, ok bool) {
	ast.Inspect(fn.Body, func(n ast.Node) bool {
		if is, isIf := n.(*ast.IfStmt); isIf && squeeze(exprString(p.fset, is.Cond)) == cond {
			found = true
			if len(is.Body.List) > 0 && squeeze(exprString(p.fset, is.Body.List[0])) == first {
				ok = true
			}
		}
		return true
	})
	return
}

func campaign5Facts(p *pkg, f *facts) {
	// C01: READ and WRITE refuse a range only when offset+count leaves 64 bits
	for _, h := range []struct{ fact, fn string }{{"readRangeGuardIsUint64", "NFSProcedureHandler.handleRead"}, {"writeRangeGuardIsUint64", "NFSProcedureHandler.handleWrite"}} {
		if fn, ok := p.funcs[h.fn]; ok && fn.Body != nil {
			n := 0
			good := 0
			ast.Inspect(fn.Body, func(x ast.Node) bool {
				if is, isIf := x.(*ast.IfStmt); isIf {
					c := squeeze(exprString(p.fset, is.Cond))
					if strings.HasPrefix(c, "offset>math.Max") {
						n++
						if c == "offset>math.MaxUint64-uint64(count)" {
							good++
						}
					}
				}
				return true
			})
			f.boolean(h.fact, n == 1 && good == 1, n > 0, "no `if offset > math.Max…` guard in "+h.fn)
		} else {
			f.boolean(h.fact, false, false, "func "+h.fn+" not found")
		}
	}
	// C07: MNT refuses a path as soon as one component fails validateFilename — whatever the MOUNT version
	if fn, ok := p.funcs["NFSProcedureHandler.handleMountCall"]; ok && fn.Body != nil {
		var conds []string
		ast.Inspect(fn.Body, func(x ast.Node) bool {
			if is, isIf := x.(*ast.IfStmt); isIf && is.Init != nil && strings.Contains(squeeze(exprString(p.fset, is.Init)), "validateFilename(component)") {
				conds = append(conds, squeeze(exprString(p.fset, is.Cond)))
			}
			return true
		})
		f.boolean("mntComponentCheckUnconditional", len(conds) == 1 && conds[0] == "status!=NFS_OK", len(conds) > 0, "no `if status := validateFilename(component); …` in handleMountCall")
	} else {
		f.boolean("mntComponentCheckUnconditional", false, false, "func NFSProcedureHandler.handleMountCall not found")
	}
	// C11 / C16 / C24: UpdatePolicyOptions refuses every change of Squash, copies the caller's AllowedIPs, and
	// C15 / C16: HandleCall's refusal path gives the policy read-lock back before anything else
	if fn, ok := p.funcs["AbsfsNFS.UpdatePolicyOptions"]; ok && fn.Body != nil {
		found, _ := p.ifBodyStartsWith(fn, "old.Squash!=newPolicy.Squash", "")
		rejects := false
		ast.Inspect(fn.Body, func(x ast.Node) bool {
			if is, isIf := x.(*ast.IfStmt); isIf && squeeze(exprString(p.fset, is.Cond)) == "old.Squash!=newPolicy.Squash" && returnsEarly(is.Body) {
				rejects = true
			}
			return true
		})
		f.boolean("updatePolicyRejectsAnySquashChange", found && rejects, true, "")
		src := squeeze(exprString(p.fset, fn.Body))
		f.boolean("updatePolicyCopiesAllowedIPs", strings.Contains(src, "snapshot.AllowedIPs=make([]string,len(newPolicy.AllowedIPs))") &&
			strings.Contains(src, "copy(snapshot.AllowedIPs,newPolicy.AllowedIPs)"), true, "")
	} else {
		f.boolean("updatePolicyRejectsAnySquashChange", false, false, "func AbsfsNFS.UpdatePolicyOptions not found")
		f.boolean("updatePolicyCopiesAllowedIPs", false, false, "func AbsfsNFS.UpdatePolicyOptions not found")
	}
	if fn, ok := p.funcs["NFSProcedureHandler.HandleCall"]; ok && fn.Body != nil {
		found, good := p.ifBodyStartsWith(fn, "!authResult.Allowed", "handler.policyRWMu.RUnlock()")
		f.boolean("handleCallUnlocksOnRefusal", good, found, "no `if !authResult.Allowed` in HandleCall")
	} else {
		f.boolean("handleCallUnlocksOnRefusal", false, false, "func NFSProcedureHandler.HandleCall not found")
	}
	// C22 / C23: WRITE's reply states the number of bytes the backend wrote
	if fn, ok := p.funcs["NFSProcedureHandler.handleWrite"]; ok && fn.Body != nil {
		src := squeeze(exprString(p.fset, fn.Body))
		i := strings.Index(src, "xdrEncodeUint32(&buf,NFS_OK)")
		okk := false
		if i >= 0 {
			rest := src[i:]
			j := strings.Index(rest, "xdrEncodeUint32(&buf,uint32(n))")
			k := strings.Index(rest, "xdrEncodeUint32(&buf,2)")
			okk = j >= 0 && k >= 0 && j < k && !strings.Contains(rest[:k], "xdrEncodeUint32(&buf,count)")
		}
		f.boolean("writeReplyCountIsBytesWritten", okk, i >= 0, "no NFS_OK reply block in handleWrite")
	} else {
		f.boolean("writeReplyCountIsBytesWritten", false, false, "func NFSProcedureHandler.handleWrite not found")
	}
	// C28: the connection loop renews the read deadline for every request (inside the loop)
	if fn, ok := p.funcs["Server.handleConnectionLoop"]; ok && fn.Body != nil {
		loop := p.posOf(fn, "for")
		dl := p.posOf(fn, "call", "conn.SetReadDeadline(time.Now().Add(readTimeout))")
		f.boolean("connLoopRenewsReadDeadline", loop != 0 && dl != 0 && loop < dl, true, "")
	} else {
		f.boolean("connLoopRenewsReadDeadline", false, false, "func Server.handleConnectionLoop not found")
	}
	// C29: AttrCache.Get changes the map only under the write lock: every delete / updateAccessLog / removeFromAccessLog
	// in it comes after a c.mu.Lock() that has not been released
	if fn, ok := p.funcs["AttrCache.Get"]; ok && fn.Body != nil {
		held := "" // "", "r", "w": which lock the straight-line scan believes is held
		bad := false
		seen := false
		ast.Inspect(fn.Body, func(x ast.Node) bool {
			ce, isCall := x.(*ast.CallExpr)
			if !isCall {
				return true
			}
			s := squeeze(exprString(p.fset, ce))
			switch {
			case s == "c.mu.RLock()":
				held = "r"
			case s == "c.mu.RUnlock()" || s == "c.mu.Unlock()":
				held = ""
			case s == "c.mu.Lock()":
				held = "w"
			case strings.HasPrefix(s, "delete(c.cache") || strings.HasPrefix(s, "c.updateAccessLog(") || strings.HasPrefix(s, "c.removeFromAccessLog(") || strings.HasPrefix(s, "c.accessList.Remove("):
				seen = true
				if held != "w" {
					bad = true
				}
			}
			return true
		})
		f.boolean("attrCacheGetMutatesUnderWriteLock", seen && !bad, true, "")
	} else {
		f.boolean("attrCacheGetMutatesUnderWriteLock", false, false, "func AttrCache.Get not found")
	}
	// C30: every listener start builds its tls.Config from the files (no cached configuration)
	if fn, ok := p.funcs["Server.Listen"]; ok && fn.Body != nil {
		src := squeeze(exprString(p.fset, fn.Body))
		f.boolean("listenBuildsTLSConfigAfresh", strings.Contains(src, "policy.TLS.BuildConfig()") && !strings.Contains(src, "TLS.GetConfig()"), true, "")
	} else {
		f.boolean("listenBuildsTLSConfigAfresh", false, false, "func Server.Listen not found")
	}
}
