module verifextract

go 1.23
