package main

// Facts about the glue around the handlers — the connection loop, HandleCall's prologue, the listeners, MNT's
// path handling, the portmapper registration — added after the third seeded campaign, whose changes all sat there.
// Each is the order or presence of a few statements in one function.

import (
	"go/ast"
	"go/token"
	"strings"
)

// posOf returns the position of the first node in fn's body whose printed form contains all of the substrings.
func (p *pkg) posOf(fn *ast.FuncDecl, kind string, subs ...string) token.Pos {
	var pos token.Pos
	ast.Inspect(fn.Body, func(n ast.Node) bool {
		if n == nil || pos != 0 {
			return false
		}
		switch t := n.(type) {
		case *ast.AssignStmt:
			if kind != "assign" {
				return true
			}
			s := squeeze(exprString(p.fset, t))
			for _, x := range subs {
				if !strings.Contains(s, x) {
					return true
				}
			}
			pos = t.Pos()
		case *ast.CallExpr:
			if kind != "call" {
				return true
			}
			s := squeeze(exprString(p.fset, t))
			for _, x := range subs {
				if !strings.Contains(s, x) {
					return true
				}
			}
			pos = t.Pos()
		case *ast.ForStmt:
			if kind == "for" {
				pos = t.Pos()
			}
		case *ast.IfStmt:
			if kind != "if" {
				return true
			}
			s := squeeze(exprString(p.fset, t.Cond))
			for _, x := range subs {
				if !strings.Contains(s, x) {
					return true
				}
			}
			pos = t.Pos()
		}
		return true
	})
	return pos
}

// enclosingIfConds returns the squeezed conditions of the if statements enclosing pos in fn.
func (p *pkg) enclosingIfConds(fn *ast.FuncDecl, pos token.Pos) []string {
	var out []string
	ast.Inspect(fn.Body, func(n ast.Node) bool {
		if is, ok := n.(*ast.IfStmt); ok && is.Body.Pos() <= pos && pos < is.Body.End() {
			out = append(out, squeeze(exprString(p.fset, is.Cond)))
		}
		return true
	})
	return out
}

func glueFacts(p *pkg, f *facts) {
	// C11 / C19: the connection loop builds the authentication context per call, inside the request loop, from
	// that call's credential and the peer address as reported
	if fn, ok := p.funcs["Server.handleConnectionLoop"]; ok && fn.Body != nil {
		loop := p.posOf(fn, "for")
		ctx := p.posOf(fn, "assign", "authCtx:=&AuthContext{", "Credential:&call.Credential")
		ip := p.posOf(fn, "assign", "authCtx.ClientIP=tcpAddr.IP.String()")
		f.boolean("connLoopAuthPerCall", loop != 0 && ctx != 0 && loop < ctx, true, "")
		f.boolean("connLoopClientIPFromPeer", ip != 0 && loop < ip, true, "")
	} else {
		f.boolean("connLoopAuthPerCall", false, false, "func Server.handleConnectionLoop not found")
		f.boolean("connLoopClientIPFromPeer", false, false, "func Server.handleConnectionLoop not found")
	}
	// C09 / C10 / C16: HandleCall takes the policy read lock before it validates the caller, and applies the
	// squashed identity unconditionally
	if fn, ok := p.funcs["NFSProcedureHandler.HandleCall"]; ok && fn.Body != nil {
		lock := p.posOf(fn, "call", "policyRWMu.TryRLock()")
		val := p.posOf(fn, "call", "ValidateAuthentication(authCtx")
		uid := p.posOf(fn, "assign", "authCtx.EffectiveUID=authResult.UID")
		gid := p.posOf(fn, "assign", "authCtx.EffectiveGID=authResult.GID")
		f.boolean("handleCallValidatesUnderLock", lock != 0 && val != 0 && lock < val, true, "")
		uncond := uid != 0 && gid != 0
		for _, c := range append(p.enclosingIfConds(fn, uid), p.enclosingIfConds(fn, gid)...) {
			_ = c
			uncond = false
		}
		f.boolean("handleCallAppliesIdentity", uncond, true, "")
	} else {
		f.boolean("handleCallValidatesUnderLock", false, false, "func NFSProcedureHandler.HandleCall not found")
		f.boolean("handleCallAppliesIdentity", false, false, "func NFSProcedureHandler.HandleCall not found")
	}
	// C17: Listen starts the idle reaper before it chooses the kind of listener
	if fn, ok := p.funcs["Server.Listen"]; ok && fn.Body != nil {
		reap := p.posOf(fn, "call", "s.idleConnectionCleanupLoop()")
		branch := p.posOf(fn, "if", "TLS", "Enabled")
		conds := p.enclosingIfConds(fn, reap)
		inTLSBranch := false
		for _, c := range conds {
			if strings.Contains(c, "TLS") {
				inTLSBranch = true
			}
		}
		f.boolean("listenStartsReaperForEveryListener", reap != 0 && branch != 0 && reap < branch && !inTLSBranch, true, "")
	} else {
		f.boolean("listenStartsReaperForEveryListener", false, false, "func Server.Listen not found")
	}
	// C28: StartWithPortmapper computes the ports it registers after Listen has bound
	if fn, ok := p.funcs["Server.StartWithPortmapper"]; ok && fn.Body != nil {
		listen := p.posOf(fn, "call", "s.Listen()")
		port := p.posOf(fn, "assign", "nfsPort:=")
		f.boolean("portmapperRegistersAfterListen", listen != 0 && port != 0 && listen < port, true, "")
	} else {
		f.boolean("portmapperRegistersAfterListen", false, false, "func Server.StartWithPortmapper not found")
	}
	// C30: the client-CA pool starts empty
	if fn, ok := p.funcs["TLSConfig.BuildConfig"]; ok && fn.Body != nil {
		src := squeeze(exprString(p.fset, fn.Body))
		f.boolean("clientCAPoolStartsEmpty", strings.Contains(src, "caCertPool:=x509.NewCertPool()") && strings.Contains(src, "config.ClientCAs=caCertPool") && !strings.Contains(src, "SystemCertPool"), true, "")
	} else {
		f.boolean("clientCAPoolStartsEmpty", false, false, "func TLSConfig.BuildConfig not found")
	}
	// C04 / C07: MNT cleans the requested path before anything is derived from it
	found := false
	for name, fn := range p.funcs {
		if fn.Body == nil || !strings.Contains(strings.ToLower(name), "mount") && !strings.Contains(strings.ToLower(name), "mnt") {
			continue
		}
		if p.posOf(fn, "assign", "mountPath=path.Clean(mountPath)") != 0 {
			found = true
		}
	}
	f.boolean("mntCleansPath", found, true, "")
	// C22: COMMIT does not answer OK when it could not open the file for the flush
	if fn, ok := p.funcs["NFSProcedureHandler.handleCommit"]; ok && fn.Body != nil {
		// shape: f, err := OpenFile(O_WRONLY); if err == nil { err = f.Sync(); ... }; if err != nil { return error }
		var syncIf *ast.IfStmt
		ast.Inspect(fn.Body, func(n ast.Node) bool {
			if is, ok := n.(*ast.IfStmt); ok && syncIf == nil && squeeze(exprString(p.fset, is.Cond)) == "err==nil" &&
				strings.Contains(squeeze(exprString(p.fset, is.Body)), "f.Sync()") {
				syncIf = is
			}
			return true
		})
		okk := false
		if syncIf != nil {
			// the statement that follows it in the same block is `if err != nil { return ... }`
			ast.Inspect(fn.Body, func(n ast.Node) bool {
				if b, ok := n.(*ast.BlockStmt); ok {
					for i, st := range b.List {
						if st == ast.Stmt(syncIf) && i+1 < len(b.List) {
							if is, ok := b.List[i+1].(*ast.IfStmt); ok && is.Init == nil && squeeze(exprString(p.fset, is.Cond)) == "err!=nil" && returnsEarly(is.Body) {
								okk = true
							}
						}
					}
				}
				return true
			})
		}
		f.boolean("commitFailsWhenOpenFails", okk, syncIf != nil, "no `if err == nil { ... f.Sync() ... }` in handleCommit")
	} else {
		f.boolean("commitFailsWhenOpenFails", false, false, "func NFSProcedureHandler.handleCommit not found")
	}
	// C17: the accept loop counts a connection only after the host filter admitted its peer, and a closing
	// connection is uncounted whatever the logging options
	if fn, ok := p.funcs["Server.acceptLoop"]; ok && fn.Body != nil {
		filt := p.posOf(fn, "if", "!s.isIPAllowed(clientIP)")
		reg := p.posOf(fn, "call", "s.registerConnection(conn)")
		f.boolean("acceptLoopFiltersBeforeCounting", filt != 0 && reg != 0 && filt < reg, true, "")
	} else {
		f.boolean("acceptLoopFiltersBeforeCounting", false, false, "func Server.acceptLoop not found")
	}
	if fn, ok := p.funcs["Server.unregisterConnection"]; ok && fn.Body != nil {
		var decPos token.Pos
		ast.Inspect(fn.Body, func(n ast.Node) bool {
			if st, ok := n.(*ast.IncDecStmt); ok && st.Tok == token.DEC && squeeze(exprString(p.fset, st.X)) == "s.connCount" {
				decPos = st.Pos()
			}
			return true
		})
		underDebug := false
		for _, c := range p.enclosingIfConds(fn, decPos) {
			if strings.Contains(c, "Debug") {
				underDebug = true
			}
		}
		f.boolean("unregisterUncountsUnconditionally", decPos != 0 && !underDebug, true, "")
	} else {
		f.boolean("unregisterUncountsUnconditionally", false, false, "func Server.unregisterConnection not found")
	}
	// C20: Resize records the new size before it starts the workers again
	if fn, ok := p.funcs["WorkerPool.Resize"]; ok && fn.Body != nil {
		set := p.posOf(fn, "assign", "p.maxWorkers=maxWorkers")
		start := p.posOf(fn, "call", "p.Start()")
		f.boolean("resizeSetsSizeBeforeStart", set != 0 && start != 0 && set < start, true, "")
	} else {
		f.boolean("resizeSetsSizeBeforeStart", false, false, "func WorkerPool.Resize not found")
	}
}
