package main

import (
	"go/ast"
	"go/token"
	"strings"
)

func (p *pkg) neqLiteral(fn *ast.FuncDecl, ident string) (int64, bool) {
	var v int64
	found := false
	ast.Inspect(fn.Body, func(n ast.Node) bool {
		if is, ok := n.(*ast.IfStmt); ok && !found {
			if be, ok := is.Cond.(*ast.BinaryExpr); ok && be.Op == token.NEQ {
				if id, ok := be.X.(*ast.Ident); ok && id.Name == ident {
					if x, ok := p.eval(be.Y); ok {
						v, found = x, true
					}
				}
			}
		}
		return true
	})
	return v, found
}

// recordCheckBeforeMake: in ReadRecord, an `if ...Len()+int(fragmentLen) > maxSize { return }` appears before
// `make([]byte, fragmentLen)`.
func (p *pkg) recordCheckBeforeMake(fn *ast.FuncDecl) bool {
	var ifPos, makePos token.Pos
	ast.Inspect(fn.Body, func(n ast.Node) bool {
		switch t := n.(type) {
		case *ast.IfStmt:
			s := exprString(p.fset, t.Cond)
			if ifPos == 0 && strings.Contains(s, "fragmentLen") && strings.Contains(s, "> maxSize") && returnsEarly(t.Body) {
				ifPos = t.Pos()
			}
		case *ast.CallExpr:
			if id, ok := t.Fun.(*ast.Ident); ok && id.Name == "make" && makePos == 0 &&
				strings.Contains(exprString(p.fset, t), "fragmentLen") {
				makePos = t.Pos()
			}
		}
		return true
	})
	return ifPos != 0 && makePos != 0 && ifPos < makePos
}
