package main

import (
	"go/ast"
	"go/token"
	"strings"
)

func (p *pkg) neqLiteral(fn *ast.FuncDecl, ident string) (int64, bool) {
	var v int64
	found := false
	ast.Inspect(fn.Body, func(n ast.Node) bool {
		if is, ok := n.(*ast.IfStmt); ok && !found {
			if be, ok := is.Cond.(*ast.BinaryExpr); ok && be.Op == token.NEQ {
				if id, ok := be.X.(*ast.Ident); ok && id.Name == ident {
					if x, ok := p.eval(be.Y); ok {
						v, found = x, true
					}
				}
			}
		}
		return true
	})
	return v, found
}

// recordCheckBeforeMake: in ReadRecord, an `if ...Len()+int(fragmentLen) > maxSize { return }` appears before
// `make([]byte, fragmentLen)`.
func (p *pkg) recordCheckBeforeMake(fn *ast.FuncDecl) bool {
	var ifPos, makePos token.Pos
	ast.Inspect(fn.Body, func(n ast.Node) bool {
		switch t := n.(type) {
		case *ast.IfStmt:
			s := exprString(p.fset, t.Cond)
			if ifPos == 0 && strings.Contains(s, "fragmentLen") && strings.Contains(s, "> maxSize") && returnsEarly(t.Body) {
				ifPos = t.Pos()
			}
		case *ast.CallExpr:
			if id, ok := t.Fun.(*ast.Ident); ok && id.Name == "make" && makePos == 0 &&
				strings.Contains(exprString(p.fset, t), "fragmentLen") {
				makePos = t.Pos()
			}
		}
		return true
	})
	return ifPos != 0 && makePos != 0 && ifPos < makePos
}

// geqLiteral finds `<x>.<field> >= LIT` in fn.
func (p *pkg) geqLiteral(fn *ast.FuncDecl, field string) (int64, bool) {
	var v int64
	found := false
	ast.Inspect(fn.Body, func(n ast.Node) bool {
		if be, ok := n.(*ast.BinaryExpr); ok && be.Op == token.GEQ && !found {
			if se, ok := be.X.(*ast.SelectorExpr); ok && se.Sel.Name == field {
				if x, ok := p.eval(be.Y); ok {
					v, found = x, true
				}
			}
		}
		return true
	})
	return v, found
}

func (p *pkg) countCalls(fn *ast.FuncDecl, callee string) int {
	n := 0
	ast.Inspect(fn.Body, func(node ast.Node) bool {
		if ce, ok := node.(*ast.CallExpr); ok {
			if id, ok := ce.Fun.(*ast.Ident); ok && id.Name == callee {
				n++
			}
		}
		return true
	})
	return n
}

// squashCopies: in every case clause of applySquashing's switch, an element write `authSys.AuxGIDs[i] = ...`
// must be preceded by `authSys.AuxGIDs = <fresh slice made in this clause>`; writes into a local made with
// make() are fine. Returns false if some clause writes the shared array first.
func (p *pkg) squashCopies(fn *ast.FuncDecl) (bool, string) {
	var sw *ast.SwitchStmt
	ast.Inspect(fn.Body, func(n ast.Node) bool {
		if s, ok := n.(*ast.SwitchStmt); ok && sw == nil {
			sw = s
		}
		return true
	})
	if sw == nil {
		return false, "no switch in applySquashing"
	}
	result := true
	for _, st := range sw.Body.List {
		cc := st.(*ast.CaseClause)
		var reassignPos token.Pos
		fresh := map[string]bool{}
		for _, s := range cc.Body {
			ast.Inspect(s, func(n ast.Node) bool {
				as, ok := n.(*ast.AssignStmt)
				if !ok {
					return true
				}
				for i, lhs := range as.Lhs {
					ls := exprString(p.fset, lhs)
					if i < len(as.Rhs) {
						if ce, ok := as.Rhs[i].(*ast.CallExpr); ok {
							if id, ok := ce.Fun.(*ast.Ident); ok && id.Name == "make" {
								fresh[ls] = true
							}
						}
						if ls == "authSys.AuxGIDs" && fresh[exprString(p.fset, as.Rhs[i])] && reassignPos == 0 {
							reassignPos = as.Pos()
						}
					}
					if ie, ok := lhs.(*ast.IndexExpr); ok && exprString(p.fset, ie.X) == "authSys.AuxGIDs" {
						if reassignPos == 0 || as.Pos() < reassignPos {
							result = false
						}
					}
				}
				return true
			})
		}
	}
	return result, ""
}

// durations: time.Second etc. as nanoseconds
var durUnits = map[string]int64{"Nanosecond": 1, "Microsecond": 1000, "Millisecond": 1000000, "Second": 1000000000, "Minute": 60000000000, "Hour": 3600000000000}

func (p *pkg) evalDur(e ast.Expr) (int64, bool) {
	switch t := e.(type) {
	case *ast.SelectorExpr:
		if x, ok := t.X.(*ast.Ident); ok && x.Name == "time" {
			if u, ok := durUnits[t.Sel.Name]; ok {
				return u, true
			}
		}
	case *ast.BinaryExpr:
		a, ok1 := p.evalDur(t.X)
		b, ok2 := p.evalDur(t.Y)
		if ok1 && ok2 && t.Op == token.MUL {
			return a * b, true
		}
	case *ast.ParenExpr:
		return p.evalDur(t.X)
	}
	return p.eval(e)
}

// defaultOf finds `if ident <= 0 { ident = V }` in fn.
func (p *pkg) defaultOf(fn *ast.FuncDecl, ident string) (int64, bool) {
	var v int64
	found := false
	ast.Inspect(fn.Body, func(n ast.Node) bool {
		is, ok := n.(*ast.IfStmt)
		if !ok || found {
			return true
		}
		be, ok := is.Cond.(*ast.BinaryExpr)
		if !ok || be.Op != token.LEQ || exprString(p.fset, be.X) != ident || exprString(p.fset, be.Y) != "0" {
			return true
		}
		for _, s := range is.Body.List {
			if as, ok := s.(*ast.AssignStmt); ok && len(as.Lhs) == 1 && exprString(p.fset, as.Lhs[0]) == ident {
				if x, ok := p.evalDur(as.Rhs[0]); ok {
					v, found = x, true
				}
			}
		}
		return true
	})
	return v, found
}

// compositeField finds `field: V` in the first composite literal of fn.
func (p *pkg) compositeField(fn *ast.FuncDecl, field string) (int64, bool) {
	var v int64
	found := false
	ast.Inspect(fn.Body, func(n ast.Node) bool {
		kv, ok := n.(*ast.KeyValueExpr)
		if !ok || found {
			return true
		}
		if id, ok := kv.Key.(*ast.Ident); ok && id.Name == field {
			if x, ok := p.evalDur(kv.Value); ok {
				v, found = x, true
			}
		}
		return true
	})
	return v, found
}
