// verifextract: regenerates Lean facts (lean/Gen/Facts.lean) and the build overlay from /repo's
// current working tree. Deliberately dumb: named-function pattern matches over go/ast; a pattern that
// no longer matches is recorded as "extraction-shape-changed:<fact>" (and a sentinel value is emitted so
// that every theorem depending on the fact stops checking).
package main

import (
	"encoding/json"
	"fmt"
	"go/ast"
	"go/parser"
	"go/printer"
	"go/token"
	"os"
	"path/filepath"
	"sort"
	"strconv"
	"strings"
)

type pkg struct {
	fset  *token.FileSet
	files map[string]*ast.File // base name -> file
	funcs map[string]*ast.FuncDecl
	consts map[string]ast.Expr
}

func load(dir string) (*pkg, error) {
	p := &pkg{fset: token.NewFileSet(), files: map[string]*ast.File{}, funcs: map[string]*ast.FuncDecl{}, consts: map[string]ast.Expr{}}
	ents, err := os.ReadDir(dir)
	if err != nil {
		return nil, err
	}
	for _, e := range ents {
		n := e.Name()
		if e.IsDir() || !strings.HasSuffix(n, ".go") || strings.HasSuffix(n, "_test.go") {
			continue
		}
		f, err := parser.ParseFile(p.fset, filepath.Join(dir, n), nil, parser.ParseComments)
		if err != nil {
			return nil, err
		}
		if f.Name.Name != "absnfs" {
			continue
		}
		// skip files with build constraints that exclude the default build (e.g. our own hooks)
		skip := false
		for _, cg := range f.Comments {
			if cg.Pos() < f.Package {
				for _, c := range cg.List {
					if strings.HasPrefix(c.Text, "//go:build") && strings.Contains(c.Text, "verif") {
						skip = true
					}
				}
			}
		}
		if skip {
			continue
		}
		p.files[n] = f
		for _, d := range f.Decls {
			switch d := d.(type) {
			case *ast.FuncDecl:
				name := d.Name.Name
				if d.Recv != nil && len(d.Recv.List) == 1 {
					name = recvName(d.Recv.List[0].Type) + "." + name
				}
				p.funcs[name] = d
			case *ast.GenDecl:
				if d.Tok == token.CONST {
					for _, s := range d.Specs {
						vs := s.(*ast.ValueSpec)
						for i, id := range vs.Names {
							if i < len(vs.Values) {
								p.consts[id.Name] = vs.Values[i]
							}
						}
					}
				}
			}
		}
	}
	return p, nil
}

func recvName(e ast.Expr) string {
	switch t := e.(type) {
	case *ast.StarExpr:
		return recvName(t.X)
	case *ast.Ident:
		return t.Name
	case *ast.IndexExpr:
		return recvName(t.X)
	}
	return "?"
}

// eval evaluates simple integer constant expressions.
func (p *pkg) eval(e ast.Expr) (int64, bool) {
	switch t := e.(type) {
	case *ast.BasicLit:
		if t.Kind == token.INT {
			v, err := strconv.ParseInt(t.Value, 0, 64)
			if err != nil {
				u, err2 := strconv.ParseUint(t.Value, 0, 64)
				if err2 != nil {
					return 0, false
				}
				return int64(u), true
			}
			return v, true
		}
	case *ast.ParenExpr:
		return p.eval(t.X)
	case *ast.Ident:
		if c, ok := p.consts[t.Name]; ok {
			return p.eval(c)
		}
	case *ast.CallExpr: // conversions like uint32(8192)
		if len(t.Args) == 1 {
			if id, ok := t.Fun.(*ast.Ident); ok {
				switch id.Name {
				case "uint32", "uint64", "int", "int64", "uint16", "uint", "int32":
					return p.eval(t.Args[0])
				}
			}
		}
	case *ast.BinaryExpr:
		a, ok1 := p.eval(t.X)
		b, ok2 := p.eval(t.Y)
		if !ok1 || !ok2 {
			return 0, false
		}
		switch t.Op {
		case token.SHL:
			return a << uint(b), true
		case token.MUL:
			return a * b, true
		case token.ADD:
			return a + b, true
		case token.SUB:
			return a - b, true
		case token.OR:
			return a | b, true
		case token.QUO:
			if b == 0 {
				return 0, false
			}
			return a / b, true
		}
	}
	return 0, false
}

type facts struct {
	lines  []string          // Lean definitions
	js     map[string]any    // facts.json
	errors map[string]string // fact -> why extraction failed
}

func (f *facts) nat(name string, v int64, ok bool, why string) {
	if !ok {
		f.errors[name] = "extraction-shape-changed:" + name + ": " + why
		f.lines = append(f.lines, fmt.Sprintf("def %s : Nat := 0 -- EXTRACTION FAILED: %s", name, why))
		f.js[name] = nil
		return
	}
	f.lines = append(f.lines, fmt.Sprintf("def %s : Nat := %d", name, v))
	f.js[name] = v
}

func (f *facts) boolean(name string, v bool, ok bool, why string) {
	if !ok {
		f.errors[name] = "extraction-shape-changed:" + name + ": " + why
		f.lines = append(f.lines, fmt.Sprintf("def %s : Bool := false -- EXTRACTION FAILED: %s", name, why))
		f.js[name] = nil
		return
	}
	f.lines = append(f.lines, fmt.Sprintf("def %s : Bool := %v", name, v))
	f.js[name] = v
}

func (f *facts) raw(name, leanType, leanVal string, jsv any) {
	f.lines = append(f.lines, fmt.Sprintf("def %s : %s := %s", name, leanType, leanVal))
	f.js[name] = jsv
}

func (f *facts) fail(name, leanType, sentinel, why string) {
	f.errors[name] = "extraction-shape-changed:" + name + ": " + why
	f.lines = append(f.lines, fmt.Sprintf("def %s : %s := %s -- EXTRACTION FAILED: %s", name, leanType, sentinel, why))
	f.js[name] = nil
}

func exprString(fset *token.FileSet, e ast.Node) string {
	var sb strings.Builder
	printer.Fprint(&sb, fset, e)
	return sb.String()
}

// firstCompareLiteral finds, in function fn, the first `if <ident> > LIT` (or >=) whose left side is the
// identifier `ident`, and returns LIT, together with whether that `if` precedes (in source order) the first
// make(...) call that mentions `ident`.
func (p *pkg) limitBeforeMake(fn *ast.FuncDecl, ident string) (lim int64, found bool, before bool) {
	var ifPos, makePos token.Pos
	ast.Inspect(fn.Body, func(n ast.Node) bool {
		switch t := n.(type) {
		case *ast.IfStmt:
			if be, ok := t.Cond.(*ast.BinaryExpr); ok && be.Op == token.GTR && !found {
				if id, ok := be.X.(*ast.Ident); ok && id.Name == ident {
					if v, ok := p.eval(be.Y); ok && returnsEarly(t.Body) {
						lim, found, ifPos = v, true, t.Pos()
					}
				}
			}
		case *ast.CallExpr:
			if id, ok := t.Fun.(*ast.Ident); ok && id.Name == "make" && makePos == 0 {
				if strings.Contains(exprString(p.fset, t), ident) {
					makePos = t.Pos()
				}
			}
		}
		return true
	})
	before = found && (makePos == 0 || ifPos < makePos)
	return
}

func returnsEarly(b *ast.BlockStmt) bool {
	if len(b.List) == 0 {
		return false
	}
	_, ok := b.List[len(b.List)-1].(*ast.ReturnStmt)
	return ok
}

func main() {
	if len(os.Args) < 2 {
		fmt.Fprintln(os.Stderr, "usage: verifextract facts <repo> <out.lean> <out.json> | overlay <repo> <outdir> <hooksfile>")
		os.Exit(2)
	}
	switch os.Args[1] {
	case "facts":
		p, err := load(os.Args[2])
		if err != nil {
			fmt.Fprintln(os.Stderr, "parse error:", err)
			os.Exit(3)
		}
		f := &facts{js: map[string]any{}, errors: map[string]string{}}
		extractAll(p, f)
		var sb strings.Builder
		sb.WriteString("-- GENERATED by /verif/extract from /repo's working tree on every run. Do not edit.\nnamespace Gen\n")
		// one definition per line, none refers to another: a fixed order keeps the file byte-identical from run
		// to run (no Lean rebuild, no relinking of the driver while another check is using it)
		sort.Strings(f.lines)
		for _, l := range f.lines {
			sb.WriteString(l + "\n")
		}
		sb.WriteString("end Gen\n")
		writeIfChanged(os.Args[3], sb.String())
		errs := []string{}
		for _, e := range f.errors {
			errs = append(errs, e)
		}
		sort.Strings(errs)
		out := map[string]any{"facts": f.js, "errors": f.errors}
		b, _ := json.MarshalIndent(out, "", " ")
		os.WriteFile(os.Args[4], b, 0o644)
		for _, e := range errs {
			fmt.Println(e)
		}
	case "overlay":
		if err := overlay(os.Args[2], os.Args[3], os.Args[4]); err != nil {
			fmt.Fprintln(os.Stderr, "overlay error:", err)
			os.Exit(3)
		}
	default:
		os.Exit(2)
	}
}

func writeIfChanged(path, content string) {
	old, err := os.ReadFile(path)
	if err == nil && string(old) == content {
		return
	}
	os.MkdirAll(filepath.Dir(path), 0o755)
	os.WriteFile(path, []byte(content), 0o644)
}

// overlay writes virtual-clock copies of the files that read the wall clock and an overlay.json that also
// injects the hooks file into package absnfs.
func overlay(repo, outdir, hooks string) error {
	outdir, _ = filepath.Abs(outdir)
	os.MkdirAll(outdir, 0o755)
	repl := map[string]string{}
	absRepo, _ := filepath.Abs(repo)
	for _, name := range []string{"cache.go", "rate_limiter.go", "types.go", "operations.go", "nfs_proc_attr.go"} {
		fset := token.NewFileSet()
		src := filepath.Join(absRepo, name)
		f, err := parser.ParseFile(fset, src, nil, parser.ParseComments)
		if err != nil {
			return err
		}
		n := 0
		ast.Inspect(f, func(node ast.Node) bool {
			ce, ok := node.(*ast.CallExpr)
			if !ok {
				return true
			}
			se, ok := ce.Fun.(*ast.SelectorExpr)
			if !ok {
				return true
			}
			x, ok := se.X.(*ast.Ident)
			if !ok || x.Name != "time" {
				return true
			}
			switch se.Sel.Name {
			case "Now":
				ce.Fun = ast.NewIdent("verifNow")
				n++
			case "Since":
				// time.Since(x) -> verifNow().Sub(x)
				arg := ce.Args[0]
				ce.Fun = &ast.SelectorExpr{X: &ast.CallExpr{Fun: ast.NewIdent("verifNow")}, Sel: ast.NewIdent("Sub")}
				ce.Args = []ast.Expr{arg}
				n++
			}
			return true
		})
		var sb strings.Builder
		if err := printer.Fprint(&sb, fset, f); err != nil {
			return err
		}
		dst := filepath.Join(outdir, name)
		writeIfChanged(dst, sb.String()+"\nvar _ time.Time // keeps the import used after the clock rewrite\n")
		repl[src] = dst
		fmt.Printf("overlay %s: %d clock sites rewritten\n", name, n)
	}
	absHooks, _ := filepath.Abs(hooks)
	repl[filepath.Join(absRepo, "zz_verif_hooks.go")] = absHooks
	b, _ := json.MarshalIndent(map[string]any{"Replace": repl}, "", " ")
	writeIfChanged(filepath.Join(outdir, "overlay.json"), string(b))
	return nil
}
