package main

// Facts about the procedure handlers (regenerated on every run): structural ties between the Go handlers and
// the Lean server model that a behavioural correspondence could only sample.

import (
	"fmt"
	"go/ast"
	"sort"
	"strings"
)

// squeeze removes all white space (the printer aligns struct literals and comments)
func squeeze(s string) string {
	return strings.Map(func(r rune) rune {
		if r == ' ' || r == '\t' || r == '\n' {
			return -1
		}
		return r
	}, s)
}

func leanStrList(l []string) string {
	q := make([]string, len(l))
	for i, s := range l {
		q[i] = fmt.Sprintf("%q", s)
	}
	return "[" + strings.Join(q, ", ") + "]"
}

func leanNatList(l []int64) string {
	q := make([]string, len(l))
	for i, s := range l {
		q[i] = fmt.Sprint(s)
	}
	return "[" + strings.Join(q, ", ") + "]"
}

func serverFacts(p *pkg, f *facts) {
	// 1. handlers whose first statement is the read-only guard answering NFSERR_ROFS
	var guarded []string
	for name, fn := range p.funcs {
		if !strings.HasPrefix(name, "NFSProcedureHandler.handle") || fn.Body == nil || len(fn.Body.List) == 0 {
			continue
		}
		if is, ok := fn.Body.List[0].(*ast.IfStmt); ok {
			cond, body := exprString(p.fset, is.Cond), exprString(p.fset, is.Body)
			if strings.Contains(cond, "policy.Load().ReadOnly") && strings.Contains(body, "NFSERR_ROFS") && strings.Contains(body, "return") {
				guarded = append(guarded, strings.TrimPrefix(name, "NFSProcedureHandler."))
			}
		}
	}
	sort.Strings(guarded)
	f.raw("roGuardedHandlers", "List String", leanStrList(guarded), guarded)

	// 2. the procedure table: NFSPROC3_* numbers registered in nfsHandlers
	var procs []int64
	if file, ok := p.files["nfs_handlers.go"]; ok {
		ast.Inspect(file, func(n ast.Node) bool {
			vs, ok := n.(*ast.ValueSpec)
			if !ok || len(vs.Names) != 1 || vs.Names[0].Name != "nfsHandlers" || len(vs.Values) != 1 {
				return true
			}
			if cl, ok := vs.Values[0].(*ast.CompositeLit); ok {
				for _, e := range cl.Elts {
					if kv, ok := e.(*ast.KeyValueExpr); ok {
						if v, ok := p.eval(kv.Key); ok {
							procs = append(procs, v)
						}
					}
				}
			}
			return false
		})
	}
	sort.Slice(procs, func(i, j int) bool { return procs[i] < procs[j] })
	if len(procs) == 0 {
		f.fail("nfsProcTable", "List Nat", "[]", "nfsHandlers map literal not found")
	} else {
		f.raw("nfsProcTable", "List Nat", leanNatList(procs), procs)
	}

	// 3. every NFSERR_* status constant
	var statuses []int64
	seen := map[int64]bool{}
	for name, e := range p.consts {
		if strings.HasPrefix(name, "NFSERR_") || name == "NFS_OK" {
			if v, ok := p.eval(e); ok && !seen[v] {
				seen[v] = true
				statuses = append(statuses, v)
			}
		}
	}
	sort.Slice(statuses, func(i, j int) bool { return statuses[i] < statuses[j] })
	f.raw("nfsStatusConstants", "List Nat", leanNatList(statuses), statuses)

	has := func(fn string, subs ...string) (bool, bool) {
		d, ok := p.funcs[fn]
		if !ok {
			return false, false
		}
		src := squeeze(exprString(p.fset, d.Body))
		for _, s := range subs {
			if !strings.Contains(src, squeeze(s)) {
				return false, true
			}
		}
		return true, true
	}
	emit := func(name, fn string, subs ...string) {
		v, ok := has(fn, subs...)
		f.boolean(name, v, ok, "func "+fn+" not found")
	}
	// 4. C22: WRITE syncs before acknowledging; COMMIT syncs
	if d, ok := p.funcs["AbsfsNFS.WriteWithContext"]; ok {
		src := exprString(p.fset, d.Body)
		w, s, inv := strings.Index(src, ".WriteAt("), strings.Index(src, "f.Sync()"), strings.Index(src, "attrCache.Invalidate(")
		f.boolean("writeSyncsBeforeAck", w >= 0 && s > w && (inv < 0 || s < inv), true, "")
	} else {
		f.boolean("writeSyncsBeforeAck", false, false, "func WriteWithContext not found")
	}
	emit("commitSyncs", "NFSProcedureHandler.handleCommit", ".Sync()", "OpenFile(")
	emit("writeRepliesFileSync", "NFSProcedureHandler.handleWrite", "xdrEncodeUint32(&buf, 2)", "writeVerf")
	// the write verifier is written exactly once, in NewServer, from the wall clock
	{
		sites := 0
		inNew := false
		for name, fn := range p.funcs {
			if fn.Body == nil {
				continue
			}
			src := squeeze(exprString(p.fset, fn.Body))
			n := strings.Count(src, "PutUint64(s.writeVerf[:]") + strings.Count(src, ".writeVerf=")
			sites += n
			if n > 0 && name == "NewServer" && strings.Contains(src, "time.Now().UnixNano()") {
				inNew = true
			}
		}
		f.boolean("writeVerfSetOnceAtCreation", sites == 1 && inNew, true, "")
	}
	// 5. C23: FSINFO derives its transfer sizes from the configuration and the record limit
	emit("fsinfoUsesTransferSize", "NFSProcedureHandler.handleFsinfo", "TransferSize", "DefaultMaxRecordSize")
	// 6. C25: the three size-changing paths consult MaxFileSize
	emit("writeChecksMaxFileSize", "NFSProcedureHandler.handleWrite", "exceedsMaxFileSize(")
	emit("setattrChecksMaxFileSize", "NFSProcedureHandler.handleSetattr", "exceedsMaxFileSize(")
	emit("createChecksMaxFileSize", "NFSProcedureHandler.handleCreate", "exceedsMaxFileSize(")
	// 7. C26: both listing handlers account for the entry before adding it and know TOOSMALL
	emit("readdirAccountsEntries", "NFSProcedureHandler.handleReaddir", "readdirEntrySize(", "NFSERR_TOOSMALL")
	emit("readdirplusAccountsEntries", "NFSProcedureHandler.handleReaddirplus", "readdirEntrySize(", "NFSERR_TOOSMALL")
	// 8. C03: CREATE looks the name up before it may call Create
	if d, ok := p.funcs["NFSProcedureHandler.handleCreate"]; ok {
		src := exprString(p.fset, d.Body)
		l, c := strings.Index(src, "fs.Lstat(lookupPath)"), strings.Index(src, "handler.Create(node, name, attrs)")
		f.boolean("createLooksUpFirst", l >= 0 && c > l, true, "")
	} else {
		f.boolean("createLooksUpFirst", false, false, "func handleCreate not found")
	}
	// 9. C04: READDIRPLUS refreshes with Lstat and keeps FileId; SETATTR keeps the type bits
	emit("readdirplusUsesLstat", "AbsfsNFS.ReadDirPlus", "s.fs.Lstat(node.path)", "FileId: fileId")
	emit("setattrKeepsType", "NFSProcedureHandler.handleSetattr", "attrs.Mode&os.ModeType", "FileId: node.attrs.FileId", "Size:   node.attrs.Size")
	// 10. C11: the creation procedures chown with the effective identity
	emit("createChowns", "NFSProcedureHandler.handleCreate", "fs.Chown(newNode.path, int(newUID), int(newGID))")
	emit("mkdirChowns", "NFSProcedureHandler.handleMkdir", "fs.Chown(dirPath, chownUID, chownGID)")
	emit("symlinkLchowns", "NFSProcedureHandler.handleSymlink", "fs.Lchown(symlinkPath, lchownUID, lchownGID)")
	// 11. C02: cache invalidation sites
	emit("mkdirInvalidates", "NFSProcedureHandler.handleMkdir", "attrCache.InvalidateNegativeInDir(node.path)", "dirCache.Invalidate(node.path)", "attrCache.Invalidate(dirPath)")
	emit("renameInvalidatesPrefix", "AbsfsNFS.RenameWithContext", "attrCache.InvalidatePrefix(oldPath)", "attrCache.InvalidatePrefix(newPath)", "dirCache.InvalidatePrefix(oldPath)")
	emit("rmdirUsesLstat", "NFSProcedureHandler.handleRmdir", "fs.Lstat(targetPath)")
	// 11b. every cache invalidation call of the modifying operations, in source order: the Lean model performs
	// exactly these (Props.C02 pins the table; the C02 theorems are about the model's invalidations)
	{
		fns := []string{"AbsfsNFS.CreateWithContext", "AbsfsNFS.RemoveWithContext", "AbsfsNFS.RenameWithContext", "AbsfsNFS.SetAttr",
			"AbsfsNFS.Symlink", "AbsfsNFS.WriteWithContext", "NFSProcedureHandler.handleCreate", "NFSProcedureHandler.handleMkdir",
			"NFSProcedureHandler.handleRmdir", "NFSProcedureHandler.handleSetattr"}
		var rows []string
		js := map[string][]string{}
		missing := ""
		for _, name := range fns {
			fd, ok := p.funcs[name]
			if !ok || fd.Body == nil {
				missing = name
				continue
			}
			var calls []string
			ast.Inspect(fd.Body, func(n ast.Node) bool {
				ce, ok := n.(*ast.CallExpr)
				if !ok {
					return true
				}
				src := squeeze(exprString(p.fset, ce))
				for _, c := range []string{"attrCache.Invalidate", "dirCache.Invalidate"} {
					if i := strings.Index(src, c); i >= 0 && !strings.Contains(src[:i], "(") {
						calls = append(calls, src[i:])
					}
				}
				return true
			})
			short := name[strings.Index(name, ".")+1:]
			rows = append(rows, fmt.Sprintf("(%q, %s)", short, leanStrList(calls)))
			js[short] = calls
		}
		if missing != "" {
			f.fail("invalidationSites", "List (String × List String)", "[]", "func "+missing+" not found")
		} else {
			f.raw("invalidationSites", "List (String × List String)", "["+strings.Join(rows, ", ")+"]", js)
		}
	}
	// 11c. the two repairs of this round: WRITE refuses symbolic links before the backend is touched; LOOKUP's
	// directory attributes come from GetAttr
	if d, ok := p.funcs["NFSProcedureHandler.handleWrite"]; ok {
		src := squeeze(exprString(p.fset, d.Body))
		g, w := strings.Index(src, "preAttrs.Mode&os.ModeSymlink!=0"), strings.Index(src, "handler.Write(node,")
		f.boolean("writeRefusesSymlink", g >= 0 && w > g, true, "")
	} else {
		f.boolean("writeRefusesSymlink", false, false, "func handleWrite not found")
	}
	{
		lk, ok1 := p.funcs["NFSProcedureHandler.handleLookup"]
		hp, ok2 := p.funcs["NFSProcedureHandler.lookupDirAttrs"]
		if ok1 && ok2 {
			ls, hs := squeeze(exprString(p.fset, lk.Body)), squeeze(exprString(p.fset, hp.Body))
			f.boolean("lookupDirAttrsFromGetAttr", !strings.Contains(ls, "*node.attrs") && strings.Count(ls, "h.lookupDirAttrs(node)") == 3 &&
				strings.Index(hs, "handler.GetAttr(node)") >= 0 && strings.Index(hs, "handler.GetAttr(node)") < strings.Index(hs, "*node.attrs"), true, "")
		} else {
			f.boolean("lookupDirAttrsFromGetAttr", false, ok1, "func lookupDirAttrs not found")
		}
	}
	// 12. C07: every name-taking handler validates the name before using it
	var validating []string
	for name, fn := range p.funcs {
		if strings.HasPrefix(name, "NFSProcedureHandler.handle") && fn.Body != nil {
			src := exprString(p.fset, fn.Body)
			if strings.Contains(src, "xdrDecodeString(body)") && strings.Contains(src, "validateFilename(") {
				validating = append(validating, strings.TrimPrefix(name, "NFSProcedureHandler."))
			}
		}
	}
	sort.Strings(validating)
	f.raw("nameValidatingHandlers", "List String", leanStrList(validating), validating)
	emit("mntValidatesComponents", "NFSProcedureHandler.handleMountCall", "validateFilename(component)")
	emit("symlinkRejectsAbsoluteAndDotDot", "NFSProcedureHandler.handleSymlink", `strings.HasPrefix(target, "/")`, `component == ".."`)
}
