package main

import (
	"fmt"
	"go/ast"
	"go/token"
	"strings"
)

func extractAll(p *pkg, f *facts) {
	codecFacts(p, f)
	authFacts(p, f)
	handleFacts(p, f)
	cacheFacts(p, f)
	limiterFacts(p, f)
	portmapFacts(p, f)
	configFacts(p, f)
	startupFacts(p, f)
	tlsFacts(p, f)
	poolFacts(p, f)
	drainFacts(p, f)
	connFacts(p, f)
	serverFacts(p, f)
	glueFacts(p, f)
	campaign5Facts(p, f)
}

func (p *pkg) constNat(f *facts, leanName, goName string) {
	e, ok := p.consts[goName]
	if !ok {
		f.nat(leanName, 0, false, "const "+goName+" not found")
		return
	}
	v, ok := p.eval(e)
	f.nat(leanName, v, ok, "const "+goName+" not a simple integer expression")
}

func codecFacts(p *pkg, f *facts) {
	p.constNat(f, "maxXdrString", "MAX_XDR_STRING_LENGTH")
	p.constNat(f, "maxRpcAuth", "MAX_RPC_AUTH_LENGTH")
	p.constNat(f, "lastFragmentFlag", "LastFragmentFlag")
	p.constNat(f, "defaultMaxRecordSize", "DefaultMaxRecordSize")
	p.constNat(f, "defaultMaxFragmentSize", "DefaultMaxFragmentSize")
	p.constNat(f, "maxFragmentSize", "MaxFragmentSize")

	type lim struct{ lean, fn, ident string }
	for _, l := range []lim{
		{"fhMax", "xdrDecodeFileHandle", "length"},
		{"maxAuxGids", "ParseAuthSysCredential", "gidCount"},
		{"xdrStringLimitCheck", "xdrDecodeString", "length"},
		{"credLimitCheck", "DecodeRPCCall", "credLen"},
		{"verfLimitCheck", "DecodeRPCCall", "verLen"},
		{"brStringLimitCheck", "byteReader.readString", "length"},
	} {
		fn, ok := p.funcs[l.fn]
		if !ok {
			f.nat(l.lean, 0, false, "func "+l.fn+" not found")
			f.boolean(l.lean+"BeforeMake", false, false, "func "+l.fn+" not found")
			continue
		}
		v, found, before := p.limitBeforeMake(fn, l.ident)
		f.nat(l.lean, v, found, "no `if "+l.ident+" > LIMIT { return }` in "+l.fn)
		f.boolean(l.lean+"BeforeMake", before, found, "no limit check in "+l.fn)
	}
	// file handle fixed length: `if length != N`
	if fn, ok := p.funcs["xdrDecodeFileHandle"]; ok {
		v, found := p.neqLiteral(fn, "length")
		f.nat("fhLen", v, found, "no `if length != N` in xdrDecodeFileHandle")
	} else {
		f.nat("fhLen", 0, false, "func xdrDecodeFileHandle not found")
	}
	// record size check precedes the fragment allocation in ReadRecord
	if fn, ok := p.funcs["RecordMarkingReader.ReadRecord"]; ok {
		f.boolean("recordLimitBeforeMake", p.recordCheckBeforeMake(fn), true, "")
	} else {
		f.boolean("recordLimitBeforeMake", false, false, "func ReadRecord not found")
	}
}

func authFacts(p *pkg, f *facts) {
	// Secure: `ctx.ClientPort >= N`
	if fn, ok := p.funcs["ValidateAuthentication"]; ok {
		v, found := p.geqLiteral(fn, "ClientPort")
		f.nat("securePortBound", v, found, "no `ctx.ClientPort >= N` in ValidateAuthentication")
	} else {
		f.nat("securePortBound", 0, false, "func ValidateAuthentication not found")
	}
	for lean, fnName := range map[string]string{"authFilterNormalises": "isIPAllowed", "serverFilterNormalises": "Server.isIPAllowed"} {
		fn, ok := p.funcs[fnName]
		if !ok {
			f.boolean(lean, false, false, "func "+fnName+" not found")
			continue
		}
		// the client address and the single-address entries both pass through normalizeIP
		n := p.countCalls(fn, "normalizeIP")
		f.boolean(lean, n >= 2, true, "")
	}
	if fn, ok := p.funcs["applySquashing"]; ok {
		okk, why := p.squashCopies(fn)
		f.boolean("squashCopiesBeforeWrite", okk, why == "", why)
	} else {
		f.boolean("squashCopiesBeforeWrite", false, false, "func applySquashing not found")
	}
}

func handleFacts(p *pkg, f *facts) {
	p.constNat(f, "defaultMaxHandles", "DefaultMaxHandles")
	fn, ok := p.funcs["FileHandleMap.Allocate"]
	if !ok {
		f.nat("evictDivisor", 0, false, "func Allocate not found")
		f.boolean("evictionSkipsAssigned", false, false, "func Allocate not found")
	} else {
		// evictCount := maxH / N
		var div int64
		found := false
		skips := false
		ast.Inspect(fn.Body, func(n ast.Node) bool {
			switch t := n.(type) {
			case *ast.AssignStmt:
				if len(t.Lhs) == 1 && exprString(p.fset, t.Lhs[0]) == "evictCount" && len(t.Rhs) == 1 {
					if be, ok := t.Rhs[0].(*ast.BinaryExpr); ok && be.Op == token.QUO {
						if v, ok := p.eval(be.Y); ok {
							div, found = v, true
						}
					}
				}
			case *ast.ForStmt:
				// the eviction loop: `if h == handle { continue }` as a statement of its body
				for _, s := range t.Body.List {
					if is, ok := s.(*ast.IfStmt); ok {
						c := exprString(p.fset, is.Cond)
						if (c == "h == handle" || c == "handle == h") && len(is.Body.List) == 1 {
							if bs, ok := is.Body.List[0].(*ast.BranchStmt); ok && bs.Tok == token.CONTINUE {
								skips = true
							}
						}
					}
				}
			}
			return true
		})
		f.nat("evictDivisor", div, found, "no `evictCount := maxH / N` in Allocate")
		f.boolean("evictionSkipsAssigned", skips, true, "")
	}
	// every mutating method of the handle table is one critical section: it starts with `fm.Lock(); defer
	// fm.Unlock()` and takes or drops no lock anywhere else (the model treats each as one atomic step)
	atomic := true
	for _, m := range []string{"Allocate", "Release", "ReleaseAll"} {
		fd, ok := p.funcs["FileHandleMap."+m]
		if !ok || fd.Body == nil || len(fd.Body.List) < 2 {
			atomic = false
			continue
		}
		if squeeze(exprString(p.fset, fd.Body.List[0])) != "fm.Lock()" || squeeze(exprString(p.fset, fd.Body.List[1])) != "deferfm.Unlock()" {
			atomic = false
		}
		locks := 0
		ast.Inspect(fd.Body, func(node ast.Node) bool {
			if ce, ok := node.(*ast.CallExpr); ok {
				switch squeeze(exprString(p.fset, ce.Fun)) {
				case "fm.Lock", "fm.Unlock", "fm.RLock", "fm.RUnlock":
					locks++
				}
			}
			return true
		})
		if locks != 2 {
			atomic = false
		}
	}
	f.boolean("handleOpsAtomic", atomic, true, "")
	// every handler maps a failed handle lookup to NFSERR_STALE
	all := true
	n := 0
	for name, fd := range p.funcs {
		if !strings.HasPrefix(name, "NFSProcedureHandler.handle") || fd.Body == nil {
			continue
		}
		// a `node, ok := h.lookupNode(...)` assignment must be followed at once by `if !ok { ... NFSERR_STALE ... }`
		ast.Inspect(fd.Body, func(node ast.Node) bool {
			bs, ok := node.(*ast.BlockStmt)
			if !ok {
				return true
			}
			for i, st := range bs.List {
				as, ok := st.(*ast.AssignStmt)
				if !ok || !strings.Contains(exprString(p.fset, as), "lookupNode(") {
					continue
				}
				n++
				if i+1 >= len(bs.List) {
					all = false
					continue
				}
				is, ok := bs.List[i+1].(*ast.IfStmt)
				if !ok || !strings.HasPrefix(squeeze(exprString(p.fset, is.Cond)), "!ok") || !strings.Contains(exprString(p.fset, is.Body), "NFSERR_STALE") {
					all = false
				}
			}
			return true
		})
	}
	f.boolean("handlersStaleOnMiss", all && n >= 15, n > 0, "no lookupNode failure branches found")
}

func cacheFacts(p *pkg, f *facts) {
	// defaults inside cache.go: `if X <= 0 { X = LIT }`
	type d struct{ lean, fn, ident string; scale int64 }
	for _, x := range []d{
		{"attrCacheDefaultSize", "NewAttrCache", "maxSize", 1},
		{"dirCacheDefaultEntries", "NewDirCache", "maxEntries", 1},
		{"dirCacheDefaultMaxDirSize", "NewDirCache", "maxDirSize", 1},
		{"dirTtlDefaultNs", "NewDirCache", "timeout", 1},
		{"attrTtlDefaultNs", "AttrCache.UpdateTTL", "newTTL", 1},
		{"attrResizeDefault", "AttrCache.Resize", "newSize", 1},
		{"dirResizeDefault", "DirCache.Resize", "newMaxEntries", 1},
		{"dirUpdateTtlDefaultNs", "DirCache.UpdateTTL", "newTimeout", 1},
	} {
		fn, ok := p.funcs[x.fn]
		if !ok {
			f.nat(x.lean, 0, false, "func "+x.fn+" not found")
			continue
		}
		v, found := p.defaultOf(fn, x.ident)
		f.nat(x.lean, v, found, "no `if "+x.ident+" <= 0 { "+x.ident+" = V }` in "+x.fn)
	}
	// negativeTTL default in NewAttrCache's literal
	if fn, ok := p.funcs["NewAttrCache"]; ok {
		v, found := p.compositeField(fn, "negativeTTL")
		f.nat("negTtlDefaultNs", v, found, "no negativeTTL field in NewAttrCache literal")
	} else {
		f.nat("negTtlDefaultNs", 0, false, "func NewAttrCache not found")
	}
	// ConfigureNegativeCaching purges negative entries when disabling
	if fn, ok := p.funcs["AttrCache.ConfigureNegativeCaching"]; ok {
		purges := false
		ast.Inspect(fn.Body, func(n ast.Node) bool {
			if is, ok := n.(*ast.IfStmt); ok && exprString(p.fset, is.Cond) == "!enable" {
				body := exprString(p.fset, is.Body)
				if strings.Contains(body, "isNegative") && strings.Contains(body, "delete(c.cache") {
					purges = true
				}
			}
			return true
		})
		f.boolean("disableNegativePurges", purges, true, "")
	} else {
		f.boolean("disableNegativePurges", false, false, "func ConfigureNegativeCaching not found")
	}
}

func limiterFacts(p *pkg, f *facts) {
	// order of limiter consultations in AllowRequest
	if fn, ok := p.funcs["RateLimiter.AllowRequest"]; ok {
		var order []string
		ast.Inspect(fn.Body, func(n ast.Node) bool {
			ce, ok := n.(*ast.CallExpr)
			if !ok {
				return true
			}
			se, ok := ce.Fun.(*ast.SelectorExpr)
			if !ok || se.Sel.Name != "Allow" {
				return true
			}
			order = append(order, exprString(p.fset, se.X))
			return true
		})
		if len(order) < 2 {
			f.boolean("allowRequestGlobalFirst", false, false, "fewer than two Allow calls in AllowRequest")
		} else {
			gpos, ipos := -1, -1
			for i, o := range order {
				if strings.Contains(o, "globalLimiter") && gpos < 0 {
					gpos = i
				}
				if strings.Contains(o, "perIPLimiter") && ipos < 0 {
					ipos = i
				}
			}
			if gpos < 0 || ipos < 0 {
				f.boolean("allowRequestGlobalFirst", false, false, "global or per-IP limiter not consulted in AllowRequest")
			} else {
				// global first unless it comes after every other consultation
				f.boolean("allowRequestGlobalFirst", gpos != len(order)-1, true, "")
			}
		}
	} else {
		f.boolean("allowRequestGlobalFirst", false, false, "func AllowRequest not found")
	}
	// per-operation bursts: map literal in NewPerOperationLimiter
	if fn, ok := p.funcs["NewPerOperationLimiter"]; ok {
		names := map[string]string{"OpTypeReadLarge": "opBurstReadLarge", "OpTypeWriteLarge": "opBurstWriteLarge", "OpTypeReaddir": "opBurstReaddir", "OpTypeMount": "opBurstMount"}
		got := map[string]int64{}
		ast.Inspect(fn.Body, func(n ast.Node) bool {
			as, ok := n.(*ast.AssignStmt)
			if !ok || len(as.Lhs) != 1 || exprString(p.fset, as.Lhs[0]) != "bursts" {
				return true
			}
			if cl, ok := as.Rhs[0].(*ast.CompositeLit); ok {
				for _, e := range cl.Elts {
					if kv, ok := e.(*ast.KeyValueExpr); ok {
						if v, ok := p.eval(kv.Value); ok {
							got[exprString(p.fset, kv.Key)] = v
						}
					}
				}
			}
			return true
		})
		for g, l := range names {
			v, ok := got[g]
			f.nat(l, v, ok, "burst for "+g+" not found in NewPerOperationLimiter")
		}
	} else {
		for _, l := range []string{"opBurstReadLarge", "opBurstWriteLarge", "opBurstReaddir", "opBurstMount"} {
			f.nat(l, 0, false, "func NewPerOperationLimiter not found")
		}
	}
	// `count > N` large-I/O threshold in handleRead
	if fn, ok := p.funcs["NFSProcedureHandler.handleRead"]; ok {
		var v int64
		found := false
		ast.Inspect(fn.Body, func(n ast.Node) bool {
			if be, ok := n.(*ast.BinaryExpr); ok && be.Op == token.GTR && !found && exprString(p.fset, be.X) == "count" {
				if x, ok := p.eval(be.Y); ok {
					v, found = x, true
				}
			}
			return true
		})
		f.nat("largeIoThreshold", v, found, "no `count > N` in handleRead")
	} else {
		f.nat("largeIoThreshold", 0, false, "func handleRead not found")
	}
	// all limiter kinds are token buckets built by NewTokenBucket and consulted through Allow only
	ok1 := true
	for _, fnName := range []string{"NewRateLimiter", "PerIPLimiter.Allow", "PerOperationLimiter.Allow", "RateLimiter.AllowRequest"} {
		fn, ok := p.funcs[fnName]
		if !ok || p.countCalls(fn, "NewTokenBucket") == 0 {
			ok1 = false
		}
	}
	f.boolean("limitersAreTokenBuckets", ok1, true, "")
}

func portmapFacts(p *pkg, f *facts) {
	hasLoopback := func(fn *ast.FuncDecl) bool {
		found := false
		ast.Inspect(fn.Body, func(n ast.Node) bool {
			if se, ok := n.(*ast.SelectorExpr); ok && se.Sel.Name == "IsLoopback" {
				found = true
			}
			return true
		})
		return found
	}
	hc, okc := p.funcs["Portmapper.handleCall"]
	for lean, fnName := range map[string]string{"pmV2SetChecked": "Portmapper.handleSet", "pmV2UnsetChecked": "Portmapper.handleUnset",
		"pmRpcbSetChecked": "Portmapper.handleRpcbSet", "pmRpcbUnsetChecked": "Portmapper.handleRpcbUnset"} {
		fn, ok := p.funcs[fnName]
		if !ok || !okc {
			f.boolean(lean, false, false, "func "+fnName+" or handleCall not found")
			continue
		}
		checked := hasLoopback(fn)
		if !checked {
			// or: every call of the handler in handleCall sits inside `if <fn>(remoteAddr)` where <fn> tests IsLoopback
			short := fnName[len("Portmapper."):]
			calls, guarded := 0, 0
			var stack []ast.Node
			ast.Inspect(hc.Body, func(n ast.Node) bool {
				if n == nil {
					stack = stack[:len(stack)-1]
					return true
				}
				stack = append(stack, n)
				ce, ok := n.(*ast.CallExpr)
				if !ok {
					return true
				}
				se, ok := ce.Fun.(*ast.SelectorExpr)
				if !ok || se.Sel.Name != short {
					return true
				}
				calls++
				for i := len(stack) - 2; i >= 0; i-- {
					is, ok := stack[i].(*ast.IfStmt)
					if !ok {
						continue
					}
					// the call must be in the "then" block
					inThen := is.Body.Pos() <= ce.Pos() && ce.End() <= is.Body.End()
					if !inThen {
						continue
					}
					if c, ok := is.Cond.(*ast.CallExpr); ok {
						if id, ok := c.Fun.(*ast.Ident); ok {
							if g, ok := p.funcs[id.Name]; ok && hasLoopback(g) {
								guarded++
								break
							}
						}
					}
				}
				return true
			})
			checked = calls > 0 && calls == guarded
		}
		f.boolean(lean, checked, true, "")
	}
	if fn, ok := p.funcs["Portmapper.makeReply"]; ok {
		src := exprString(p.fset, fn.Body)
		f.boolean("pmMismatchInfo", strings.Contains(src, "PROG_MISMATCH"), true, "")
	} else {
		f.boolean("pmMismatchInfo", false, false, "func makeReply not found")
	}
}

func configFacts(p *pkg, f *facts) {
	fnName := "applyExportDefaults"
	fn, shared := p.funcs[fnName]
	if !shared {
		fn = p.funcs["New"]
	}
	if fn == nil {
		f.fail("cfgDefaults", "List (String × Nat)", "[]", "neither applyExportDefaults nor New found")
		return
	}
	type kv struct {
		k string
		v int64
	}
	var num, tmo []kv
	numcpu := false
	ast.Inspect(fn.Body, func(n ast.Node) bool {
		is, ok := n.(*ast.IfStmt)
		if !ok {
			return true
		}
		be, ok := is.Cond.(*ast.BinaryExpr)
		if !ok || be.Op != token.LEQ || exprString(p.fset, be.Y) != "0" {
			return true
		}
		lhs := exprString(p.fset, be.X)
		if !strings.HasPrefix(lhs, "options.") {
			return true
		}
		for _, s := range is.Body.List {
			as, ok := s.(*ast.AssignStmt)
			if !ok || len(as.Lhs) != 1 || exprString(p.fset, as.Lhs[0]) != lhs {
				continue
			}
			name := strings.TrimPrefix(lhs, "options.")
			if v, ok := p.evalDur(as.Rhs[0]); ok {
				if strings.HasPrefix(name, "Timeouts.") {
					tmo = append(tmo, kv{strings.TrimPrefix(name, "Timeouts."), v})
				} else {
					num = append(num, kv{name, v})
				}
			} else if strings.Contains(exprString(p.fset, as.Rhs[0]), "runtime.NumCPU() * 4") {
				numcpu = true
				num = append(num, kv{name, 0})
			}
		}
		return true
	})
	render := func(l []kv) string {
		parts := make([]string, len(l))
		for i, x := range l {
			parts[i] = fmt.Sprintf("(\"%s\", %d)", x.k, x.v)
		}
		return "[" + strings.Join(parts, ", ") + "]"
	}
	if len(num) == 0 {
		f.fail("cfgDefaults", "List (String × Nat)", "[]", "no `if options.F <= 0 { options.F = V }` found")
	} else {
		f.raw("cfgDefaults", "List (String × Nat)", render(num), num)
	}
	if len(tmo) == 0 {
		f.fail("cfgTimeoutDefaults", "List (String × Nat)", "[]", "no timeout defaults found")
	} else {
		f.raw("cfgTimeoutDefaults", "List (String × Nat)", render(tmo), tmo)
	}
	f.boolean("cfgMaxWorkersIsNumCPUx4", numcpu, true, "")
	// the nil-Timeouts literal must carry the same values as the per-field defaults
	litOK := true
	ast.Inspect(fn.Body, func(n ast.Node) bool {
		cl, ok := n.(*ast.CompositeLit)
		if !ok || !strings.Contains(exprString(p.fset, cl.Type), "TimeoutConfig") {
			return true
		}
		got := map[string]int64{}
		for _, e := range cl.Elts {
			if kvx, ok := e.(*ast.KeyValueExpr); ok {
				if v, ok := p.evalDur(kvx.Value); ok {
					got[exprString(p.fset, kvx.Key)] = v
				}
			}
		}
		for _, x := range tmo {
			if got[x.k] != x.v {
				litOK = false
			}
		}
		if len(got) != len(tmo) {
			litOK = false
		}
		return true
	})
	f.boolean("cfgNilTimeoutsSameDefaults", litOK, true, "")
	// New uses the shared defaults function
	newShared := false
	if nf, ok := p.funcs["New"]; ok && shared {
		newShared = p.countCalls(nf, "applyExportDefaults") > 0
	}
	f.boolean("cfgNewUsesSharedDefaults", newShared, true, "")
	// UpdateTuningOptions: fn(&updated); <defaults>; n.tuning.Store(&updated)
	tuDef := false
	if uf, ok := p.funcs["AbsfsNFS.UpdateTuningOptions"]; ok {
		var fnPos, defPos, storePos token.Pos
		ast.Inspect(uf.Body, func(n ast.Node) bool {
			ce, ok := n.(*ast.CallExpr)
			if !ok {
				return true
			}
			s := exprString(p.fset, ce)
			switch {
			case s == "fn(&updated)":
				fnPos = ce.Pos()
			case strings.Contains(s, "applyDefaults") || strings.Contains(s, "applyExportDefaults") || strings.Contains(s, "applyTuningDefaults"):
				defPos = ce.Pos()
			case strings.HasPrefix(s, "n.tuning.Store("):
				storePos = ce.Pos()
			}
			return true
		})
		tuDef = fnPos != 0 && defPos != 0 && storePos != 0 && fnPos < defPos && defPos < storePos
	}
	f.boolean("cfgTuningUpdateAppliesDefaults", tuDef, true, "")
	// UpdateExportOptions validates Squash before it applies anything
	valFirst := false
	if uf, ok := p.funcs["AbsfsNFS.UpdateExportOptions"]; ok {
		var retPos, applyPos token.Pos
		ast.Inspect(uf.Body, func(n ast.Node) bool {
			switch t := n.(type) {
			case *ast.IfStmt:
				if strings.Contains(exprString(p.fset, t.Cond), "newOptions.Squash != currentPolicy.Squash") && retPos == 0 {
					retPos = t.Pos()
				}
			case *ast.CallExpr:
				if strings.HasPrefix(exprString(p.fset, t.Fun), "n.UpdateTuningOptions") && applyPos == 0 {
					applyPos = t.Pos()
				}
			}
			return true
		})
		valFirst = retPos != 0 && applyPos != 0 && retPos < applyPos
	}
	f.boolean("cfgUpdateValidatesFirst", valFirst, true, "")
	// UpdatePolicyOptions defaults a nil RateLimitConfig
	polDef := false
	if uf, ok := p.funcs["AbsfsNFS.UpdatePolicyOptions"]; ok {
		ast.Inspect(uf.Body, func(n ast.Node) bool {
			if is, ok := n.(*ast.IfStmt); ok && exprString(p.fset, is.Cond) == "newPolicy.RateLimitConfig == nil" {
				if strings.Contains(exprString(p.fset, is.Body), "DefaultRateLimiterConfig") {
					polDef = true
				}
			}
			return true
		})
	}
	f.boolean("cfgPolicyDefaultsRateLimitConfig", polDef, true, "")
}

func startupFacts(p *pkg, f *facts) {
	// Export: ServerOptions literal carries UseRecordMarking: true
	if fn, ok := p.funcs["AbsfsNFS.Export"]; ok {
		set, found := false, false
		ast.Inspect(fn.Body, func(n ast.Node) bool {
			cl, ok := n.(*ast.CompositeLit)
			if !ok || exprString(p.fset, cl.Type) != "ServerOptions" {
				return true
			}
			found = true
			for _, e := range cl.Elts {
				if kv, ok := e.(*ast.KeyValueExpr); ok && exprString(p.fset, kv.Key) == "UseRecordMarking" && exprString(p.fset, kv.Value) == "true" {
					set = true
				}
			}
			return true
		})
		f.boolean("exportSetsRecordMarking", set, found, "no ServerOptions literal in Export")
	} else {
		f.boolean("exportSetsRecordMarking", false, false, "func Export not found")
	}
	if fn, ok := p.funcs["Server.StartWithPortmapper"]; ok {
		var setPos, listenPos token.Pos
		ast.Inspect(fn.Body, func(n ast.Node) bool {
			switch t := n.(type) {
			case *ast.AssignStmt:
				if len(t.Lhs) == 1 && exprString(p.fset, t.Lhs[0]) == "s.options.UseRecordMarking" && exprString(p.fset, t.Rhs[0]) == "true" {
					setPos = t.Pos()
				}
			case *ast.CallExpr:
				if exprString(p.fset, t.Fun) == "s.Listen" && listenPos == 0 {
					listenPos = t.Pos()
				}
			}
			return true
		})
		f.boolean("portmapperSetsRecordMarking", setPos != 0 && listenPos != 0 && setPos < listenPos, true, "")
	} else {
		f.boolean("portmapperSetsRecordMarking", false, false, "func StartWithPortmapper not found")
	}
	if fn, ok := p.funcs["Server.acceptLoop"]; ok {
		okb := false
		ast.Inspect(fn.Body, func(n ast.Node) bool {
			is, ok := n.(*ast.IfStmt)
			if !ok || exprString(p.fset, is.Cond) != "s.options.UseRecordMarking" || is.Else == nil {
				return true
			}
			if strings.Contains(exprString(p.fset, is.Body), "handleConnectionWithRecordMarking") && strings.Contains(exprString(p.fset, is.Else), "s.handleConnection(") {
				okb = true
			}
			return true
		})
		f.boolean("acceptLoopBranchesOnRecordMarking", okb, true, "")
	} else {
		f.boolean("acceptLoopBranchesOnRecordMarking", false, false, "func acceptLoop not found")
	}
}

func tlsFacts(p *pkg, f *facts) {
	tlsVer := map[string]int64{"tls.VersionTLS10": 0x0301, "tls.VersionTLS11": 0x0302, "tls.VersionTLS12": 0x0303, "tls.VersionTLS13": 0x0304}
	if fn, ok := p.funcs["TLSConfig.Validate"]; ok {
		var v int64
		found := false
		ast.Inspect(fn.Body, func(n ast.Node) bool {
			is, ok := n.(*ast.IfStmt)
			if !ok || found {
				return true
			}
			c := exprString(p.fset, is.Cond)
			if strings.HasPrefix(c, "tc.MinVersion != 0 && tc.MinVersion < ") && returnsEarly(is.Body) {
				if x, ok := tlsVer[strings.TrimPrefix(c, "tc.MinVersion != 0 && tc.MinVersion < ")]; ok {
					v, found = x, true
				}
			}
			return true
		})
		f.nat("tlsValidateFloor", v, found, "no `tc.MinVersion != 0 && tc.MinVersion < tls.VersionTLSxx` rejection in Validate")
	} else {
		f.nat("tlsValidateFloor", 0, false, "func Validate not found")
	}
	if fn, ok := p.funcs["TLSConfig.BuildConfig"]; ok {
		src := exprString(p.fset, fn.Body)
		// MinVersion of the returned config is a local that is set to TLS 1.2 when the field is 0
		pinned := false
		ast.Inspect(fn.Body, func(n ast.Node) bool {
			is, ok := n.(*ast.IfStmt)
			if !ok {
				return true
			}
			c := exprString(p.fset, is.Cond)
			if (c == "minVersion == 0" || c == "tc.MinVersion == 0") && strings.Contains(exprString(p.fset, is.Body), "tls.VersionTLS12") {
				pinned = true
			}
			return true
		})
		pinned = pinned && !strings.Contains(src, "MinVersion:               tc.MinVersion") && !strings.Contains(src, "MinVersion: tc.MinVersion")
		f.boolean("tlsPinsUnsetMin", pinned, true, "")
	} else {
		f.boolean("tlsPinsUnsetMin", false, false, "func BuildConfig not found")
	}
	if fn, ok := p.funcs["TLSConfig.Clone"]; ok {
		shares := false
		ast.Inspect(fn.Body, func(n ast.Node) bool {
			if kv, ok := n.(*ast.KeyValueExpr); ok && exprString(p.fset, kv.Key) == "currentCert" && exprString(p.fset, kv.Value) == "tc.currentCert" {
				shares = true
			}
			return true
		})
		// sharing only works if the field is a pointer to the cell
		ptr := false
		for _, file := range p.files {
			ast.Inspect(file, func(n ast.Node) bool {
				if fld, ok := n.(*ast.Field); ok && len(fld.Names) == 1 && fld.Names[0].Name == "currentCert" {
					if _, ok := fld.Type.(*ast.StarExpr); ok {
						ptr = true
					}
				}
				return true
			})
		}
		f.boolean("tlsCloneSharesCert", shares && ptr, true, "")
	} else {
		f.boolean("tlsCloneSharesCert", false, false, "func Clone not found")
	}
}

func poolFacts(p *pkg, f *facts) {
	if fn, ok := p.funcs["WorkerPool.Stop"]; ok {
		// after p.wg.Wait(): a loop over the (closed) queue that closes the tasks' result channels
		var waitPos token.Pos
		drains := false
		ast.Inspect(fn.Body, func(n ast.Node) bool {
			switch t := n.(type) {
			case *ast.CallExpr:
				if exprString(p.fset, t.Fun) == "p.wg.Wait" {
					waitPos = t.Pos()
				}
			case *ast.RangeStmt:
				if waitPos != 0 && t.Pos() > waitPos && strings.Contains(exprString(p.fset, t.X), "taskQueue") &&
					strings.Contains(exprString(p.fset, t.Body), "close(task.ResultChan)") {
					drains = true
				}
			}
			return true
		})
		f.boolean("poolStopDrains", drains, true, "")
	} else {
		f.boolean("poolStopDrains", false, false, "func Stop not found")
	}
	if fn, ok := p.funcs["WorkerPool.Resize"]; ok {
		f.boolean("poolResizeSendsNil", strings.Contains(exprString(p.fset, fn.Body), "ResultChan <- nil"), true, "")
	} else {
		f.boolean("poolResizeSendsNil", false, false, "func Resize not found")
	}
}

func drainFacts(p *pkg, f *facts) {
	if fn, ok := p.funcs["NFSProcedureHandler.HandleCall"]; ok {
		src := exprString(p.fset, fn.Body)
		// TryRLock with a JUKEBOX reply when it fails
		try := false
		ast.Inspect(fn.Body, func(n ast.Node) bool {
			// `if !…TryRLock() { … return … }`: the refused call returns from HandleCall at once, with a reply built
			// either inline (NFSERR_JUKEBOX) or by busyReply, a plain function that cannot reach the server or run a handler
			if is, ok := n.(*ast.IfStmt); ok && strings.Contains(exprString(p.fset, is.Cond), "policyRWMu.TryRLock()") &&
				strings.HasPrefix(exprString(p.fset, is.Cond), "!") && len(is.Body.List) > 0 {
				body := exprString(p.fset, is.Body)
				_, endsInReturn := is.Body.List[len(is.Body.List)-1].(*ast.ReturnStmt)
				refusal := strings.Contains(body, "NFSERR_JUKEBOX")
				if strings.Contains(body, "busyReply(") {
					if bf, ok := p.funcs["busyReply"]; ok && bf.Recv == nil {
						bsrc := exprString(p.fset, bf.Body)
						refusal = strings.Contains(bsrc, "NFSERR_JUKEBOX") && !strings.Contains(bsrc, "handleNFSCall") &&
							!strings.Contains(bsrc, "handleMountCall") && !strings.Contains(bsrc, "policyRWMu") && !strings.Contains(bsrc, "go func")
					}
				}
				if endsInReturn && refusal && !strings.Contains(body, "handleNFSCall") && !strings.Contains(body, "handleMountCall") {
					try = true
				}
			}
			return true
		})
		f.boolean("drainTryRLock", try && !strings.Contains(src, "policyRWMu.RLock()"), true, "")
		// `defer …RUnlock()` appears inside the goroutine's function literal, and HandleCall itself does not defer it
		inGo, top := false, false
		for _, st := range fn.Body.List {
			if ds, ok := st.(*ast.DeferStmt); ok && strings.Contains(exprString(p.fset, ds.Call), "RUnlock") {
				top = true
			}
		}
		ast.Inspect(fn.Body, func(n ast.Node) bool {
			gs, ok := n.(*ast.GoStmt)
			if !ok {
				return true
			}
			if fl, ok := gs.Call.Fun.(*ast.FuncLit); ok {
				for _, st := range fl.Body.List {
					if ds, ok := st.(*ast.DeferStmt); ok && strings.Contains(exprString(p.fset, ds.Call), "policyRWMu.RUnlock") {
						inGo = true
					}
				}
			}
			return true
		})
		f.boolean("drainGoroutineOwnsUnlock", inGo && !top, true, "")
	} else {
		f.boolean("drainTryRLock", false, false, "func HandleCall not found")
		f.boolean("drainGoroutineOwnsUnlock", false, false, "func HandleCall not found")
	}
	if fn, ok := p.funcs["AbsfsNFS.UpdatePolicyOptions"]; ok {
		var lockPos, storePos, limPos, unlockPos token.Pos
		ast.Inspect(fn.Body, func(n ast.Node) bool {
			switch t := n.(type) {
			case *ast.CallExpr:
				switch exprString(p.fset, t.Fun) {
				case "n.policyRWMu.Lock":
					lockPos = t.Pos()
				case "n.policyRWMu.Unlock":
					unlockPos = t.Pos()
				case "n.policy.Store":
					storePos = t.Pos()
				}
			case *ast.AssignStmt:
				if len(t.Lhs) == 1 && exprString(p.fset, t.Lhs[0]) == "n.rateLimiter" {
					limPos = t.Pos()
				}
			}
			return true
		})
		f.boolean("drainUpdateUnderLock", lockPos != 0 && lockPos < storePos && storePos < unlockPos && lockPos < limPos && limPos < unlockPos, true, "")
	} else {
		f.boolean("drainUpdateUnderLock", false, false, "func UpdatePolicyOptions not found")
	}
	if fn, ok := p.funcs["Server.handleConnectionLoop"]; ok {
		// the limiter consulted by AllowRequest is obtained inside the for loop
		per := false
		ast.Inspect(fn.Body, func(n ast.Node) bool {
			fs, ok := n.(*ast.ForStmt)
			if !ok {
				return true
			}
			ast.Inspect(fs.Body, func(m ast.Node) bool {
				if as, ok := m.(*ast.AssignStmt); ok && len(as.Lhs) == 1 && exprString(p.fset, as.Lhs[0]) == "connRateLimiter" {
					r := exprString(p.fset, as.Rhs[0])
					if strings.Contains(r, "currentRateLimiter()") || strings.Contains(r, "rateLimiter") {
						per = true
					}
				}
				return true
			})
			return true
		})
		f.boolean("connLoopLimiterPerRequest", per, true, "")
	} else {
		f.boolean("connLoopLimiterPerRequest", false, false, "func handleConnectionLoop not found")
	}
}

func connFacts(p *pkg, f *facts) {
	if fn, ok := p.funcs["Server.registerConnection"]; ok {
		src := exprString(p.fset, fn.Body)
		// one Lock with deferred Unlock covering the limit test, the map insert and the increment
		f.boolean("connRegisterAtomic", strings.Contains(src, "defer s.connMutex.Unlock()") && strings.Contains(src, "s.connCount >= tuning.MaxConnections") &&
			strings.Contains(src, "s.connCount++") && strings.Count(src, "s.connMutex.Lock()") == 1, true, "")
	} else {
		f.boolean("connRegisterAtomic", false, false, "func registerConnection not found")
	}
	if fn, ok := p.funcs["Server.unregisterConnection"]; ok {
		inside := false
		ast.Inspect(fn.Body, func(n ast.Node) bool {
			ce, ok := n.(*ast.CallExpr)
			if !ok || !strings.HasSuffix(exprString(p.fset, ce.Fun), "unregisterOnce.Do") || len(ce.Args) != 1 {
				return true
			}
			body := exprString(p.fset, ce.Args[0])
			if strings.Contains(body, "s.connCount--") && strings.Contains(body, "delete(s.activeConns, conn)") {
				inside = true
			}
			return true
		})
		src := exprString(p.fset, fn.Body)
		f.boolean("connDecrementInsideOnce", inside && strings.Count(src, "s.connCount--") == 1, true, "")
	} else {
		f.boolean("connDecrementInsideOnce", false, false, "func unregisterConnection not found")
	}
	okc := true
	for _, name := range []string{"AbsfsNFS.Close", "AbsfsNFS.Unexport"} {
		fn, ok := p.funcs[name]
		if !ok {
			okc = false
			continue
		}
		src := exprString(p.fset, fn.Body)
		if !strings.Contains(src, "fileMap.ReleaseAll()") || !strings.Contains(src, "attrCache.Clear()") || !strings.Contains(src, "dirCache.Clear()") || !strings.Contains(src, "exportServer.Stop()") {
			okc = false
		}
	}
	f.boolean("closeReleasesAndClears", okc, true, "")
	// order of the teardown: Close stops the server (which waits for the connections) before it releases handles and
	// clears caches; Stop cancels the server context before it closes listeners and connections, so that a connection
	// accepted meanwhile finds the context cancelled
	if fn, ok := p.funcs["AbsfsNFS.Close"]; ok {
		src := squeeze(exprString(p.fset, fn.Body))
		st, wp, rel, ac := strings.Index(src, "exportServer.Stop()"), strings.Index(src, "workerPool.Stop()"), strings.Index(src, "fileMap.ReleaseAll()"), strings.Index(src, "attrCache.Clear()")
		f.boolean("closeStopsBeforeRelease", st >= 0 && wp > st && rel > wp && ac > rel, true, "")
	} else {
		f.boolean("closeStopsBeforeRelease", false, false, "func AbsfsNFS.Close not found")
	}
	if fn, ok := p.funcs["Server.Stop"]; ok && fn.Body != nil && len(fn.Body.List) > 0 {
		first := squeeze(exprString(p.fset, fn.Body.List[0]))
		src := squeeze(exprString(p.fset, fn.Body))
		f.boolean("stopCancelsFirst", first == "s.cancel()" && strings.Count(src, "s.cancel()") == 1 && strings.Contains(src, "s.closeAllConnections()") && strings.Contains(src, "s.wg.Wait()"), true, "")
	} else {
		f.boolean("stopCancelsFirst", false, false, "func Server.Stop not found")
	}
}
