package main

func extractAll(p *pkg, f *facts) {
	codecFacts(p, f)
	authFacts(p, f)
}

func (p *pkg) constNat(f *facts, leanName, goName string) {
	e, ok := p.consts[goName]
	if !ok {
		f.nat(leanName, 0, false, "const "+goName+" not found")
		return
	}
	v, ok := p.eval(e)
	f.nat(leanName, v, ok, "const "+goName+" not a simple integer expression")
}

func codecFacts(p *pkg, f *facts) {
	p.constNat(f, "maxXdrString", "MAX_XDR_STRING_LENGTH")
	p.constNat(f, "maxRpcAuth", "MAX_RPC_AUTH_LENGTH")
	p.constNat(f, "lastFragmentFlag", "LastFragmentFlag")
	p.constNat(f, "defaultMaxRecordSize", "DefaultMaxRecordSize")
	p.constNat(f, "defaultMaxFragmentSize", "DefaultMaxFragmentSize")
	p.constNat(f, "maxFragmentSize", "MaxFragmentSize")

	type lim struct{ lean, fn, ident string }
	for _, l := range []lim{
		{"fhMax", "xdrDecodeFileHandle", "length"},
		{"maxAuxGids", "ParseAuthSysCredential", "gidCount"},
		{"xdrStringLimitCheck", "xdrDecodeString", "length"},
		{"credLimitCheck", "DecodeRPCCall", "credLen"},
		{"verfLimitCheck", "DecodeRPCCall", "verLen"},
		{"brStringLimitCheck", "byteReader.readString", "length"},
	} {
		fn, ok := p.funcs[l.fn]
		if !ok {
			f.nat(l.lean, 0, false, "func "+l.fn+" not found")
			f.boolean(l.lean+"BeforeMake", false, false, "func "+l.fn+" not found")
			continue
		}
		v, found, before := p.limitBeforeMake(fn, l.ident)
		f.nat(l.lean, v, found, "no `if "+l.ident+" > LIMIT { return }` in "+l.fn)
		f.boolean(l.lean+"BeforeMake", before, found, "no limit check in "+l.fn)
	}
	// file handle fixed length: `if length != N`
	if fn, ok := p.funcs["xdrDecodeFileHandle"]; ok {
		v, found := p.neqLiteral(fn, "length")
		f.nat("fhLen", v, found, "no `if length != N` in xdrDecodeFileHandle")
	} else {
		f.nat("fhLen", 0, false, "func xdrDecodeFileHandle not found")
	}
	// record size check precedes the fragment allocation in ReadRecord
	if fn, ok := p.funcs["RecordMarkingReader.ReadRecord"]; ok {
		f.boolean("recordLimitBeforeMake", p.recordCheckBeforeMake(fn), true, "")
	} else {
		f.boolean("recordLimitBeforeMake", false, false, "func ReadRecord not found")
	}
}

func authFacts(p *pkg, f *facts) {
	// Secure: `ctx.ClientPort >= N`
	if fn, ok := p.funcs["ValidateAuthentication"]; ok {
		v, found := p.geqLiteral(fn, "ClientPort")
		f.nat("securePortBound", v, found, "no `ctx.ClientPort >= N` in ValidateAuthentication")
	} else {
		f.nat("securePortBound", 0, false, "func ValidateAuthentication not found")
	}
	for lean, fnName := range map[string]string{"authFilterNormalises": "isIPAllowed", "serverFilterNormalises": "Server.isIPAllowed"} {
		fn, ok := p.funcs[fnName]
		if !ok {
			f.boolean(lean, false, false, "func "+fnName+" not found")
			continue
		}
		// the client address and the single-address entries both pass through normalizeIP
		n := p.countCalls(fn, "normalizeIP")
		f.boolean(lean, n >= 2, true, "")
	}
	if fn, ok := p.funcs["applySquashing"]; ok {
		okk, why := p.squashCopies(fn)
		f.boolean("squashCopiesBeforeWrite", okk, why == "", why)
	} else {
		f.boolean("squashCopiesBeforeWrite", false, false, "func applySquashing not found")
	}
}
