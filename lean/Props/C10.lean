/-
  C10 — Identity squashing maps every credential as configured.
-/
import Absnfs.Auth
import Gen.Facts
open Absnfs

namespace Props.C10

/-- Regenerated fact: every write into the auxiliary-gid array in applySquashing happens on a fresh copy
    (the array shared with the caller is never written). -/
theorem gen_copy_before_write : Gen.squashCopiesBeforeWrite = true := by decide

theorem gen_limits : Gen.maxAuxGids = 16 := by decide

/-- 'all': uid, gid and every auxiliary gid become 65534. -/
theorem squash_all (c : Identity) :
    (squash .all c).uid = 65534 ∧ (squash .all c).gid = 65534 ∧ ∀ g ∈ (squash .all c).aux, g = 65534 := by
  simp [squash, nobody]

/-- 'root', caller uid 0: uid and primary gid become 65534. -/
theorem squash_root_uid0 (gid : Nat) (aux : List Nat) :
    (squash .root ⟨0, gid, aux⟩).uid = 65534 ∧ (squash .root ⟨0, gid, aux⟩).gid = 65534 := by
  simp [squash, nobody]

/-- 'root', other callers: uid unchanged; primary gid 0 becomes 65534, any other gid is unchanged. -/
theorem squash_root_other (uid gid : Nat) (aux : List Nat) (h : uid ≠ 0) :
    (squash .root ⟨uid, gid, aux⟩).uid = uid ∧
    (squash .root ⟨uid, gid, aux⟩).gid = if gid = 0 then 65534 else gid := by
  simp [squash, h, nobody]

/-- 'root': in the auxiliary list every gid 0 becomes 65534 and every other entry is unchanged,
    position by position. -/
theorem squash_root_aux (c : Identity) (i : Nat) (h : i < c.aux.length) :
    (squash .root c).aux[i]! = if c.aux[i]! = 0 then 65534 else c.aux[i]! := by
  simp [squash, nobody, h]

theorem squash_root_aux_no_zero (c : Identity) : (0 : Nat) ∉ (squash .root c).aux := by
  simp only [squash, List.mem_map, not_exists, not_and]
  intro g _
  split <;> simp_all [nobody]

/-- 'none' (and the empty string) passes ids through. -/
theorem squash_none (c : Identity) : squash .none c = c := rfl

/-- unrecognised mode: uid and gid become 65534 (fail closed). -/
theorem squash_unknown (c : Identity) : (squash .unknown c).uid = 65534 ∧ (squash .unknown c).gid = 65534 := by
  simp [squash, nobody]

/-- Mode strings are compared case-insensitively. -/
theorem mode_case_insensitive (s : Bytes) : squashMode (asciiLower s) = squashMode s := by
  have : asciiLower (asciiLower s) = asciiLower s := by
    simp only [asciiLower, List.map_map]
    apply List.map_congr_left
    intro b _
    simp only [Function.comp]
    by_cases h : 65 ≤ b.toNat ∧ b.toNat ≤ 90
    · have hb := b.toNat_lt
      have h2 : (UInt8.ofNat (b.toNat + 32)).toNat = b.toNat + 32 := by
        simp [UInt8.toNat_ofNat']; omega
      simp [h, h2]; omega
    · simp [h]
  simp [squashMode, this]

example : squashMode [82, 111, 79, 116] = .root ∧ squashMode [65, 76, 76] = .all ∧
    squashMode [78, 111, 110, 101] = .none ∧ squashMode [] = .none ∧
    squashMode [114, 111, 111, 116, 121] = .unknown := by
  decide

/-- AUTH_NONE is always 65534/65534, whatever the squash mode. -/
theorem auth_none (ms mg : Nat) (c : Option IP) (es : List AllowEntry) (sec : Bool) (port pb : Nat)
    (body sq : Bytes) (id : Identity)
    (h : validateAuth ms mg c es sec port pb 0 body sq = .allowed id) :
    id.uid = 65534 ∧ id.gid = 65534 := by
  unfold validateAuth at h
  split at h
  · simp at h
  · split at h
    · simp at h
    · simp at h; subst h; simp [nobody]

/-- Flavors other than AUTH_NONE and AUTH_SYS are denied. -/
theorem other_flavors_denied (ms mg : Nat) (c : Option IP) (es : List AllowEntry) (sec : Bool)
    (port pb fl : Nat) (body sq : Bytes) (h0 : fl ≠ 0) (h1 : fl ≠ 1) :
    validateAuth ms mg c es sec port pb fl body sq = .denied := by
  unfold validateAuth
  split
  · rfl
  · split
    · rfl
    · simp [h0, h1]

/-- An AUTH_SYS body that does not decode is denied. -/
theorem undecodable_denied (ms mg : Nat) (c : Option IP) (es : List AllowEntry) (sec : Bool)
    (port pb : Nat) (body sq : Bytes) (h : parseAuthSys ms mg body = none) :
    validateAuth ms mg c es sec port pb 1 body sq = .denied := by
  unfold validateAuth
  split
  · rfl
  · split
    · rfl
    · simp [h]

/-- A decodable AUTH_SYS credential that passes the gate gets exactly the squashed identity. -/
theorem auth_sys_squashed (ms mg : Nat) (c : Option IP) (es : List AllowEntry) (sec : Bool) (port pb : Nat)
    (body sq : Bytes) (a : AuthSys) (h : parseAuthSys ms mg body = some a)
    (hg : hostAdmitted c es = true) (hp : (sec && decide (port ≥ pb)) = false) :
    validateAuth ms mg c es sec port pb 1 body sq =
      .allowed (squash (squashMode sq) ⟨a.uid, a.gid, a.gids⟩) := by
  unfold validateAuth
  simp [hg, hp, h]

/-- regenerated from the source on every run: HandleCall copies the squashed identity into the request context unconditionally (every flavor) -/
theorem gen_identity_applied : Gen.handleCallAppliesIdentity = true := by decide

/-- regenerated from the source on every run: the connection loop builds the authentication context inside its request loop, from that call's credential -/
theorem gen_conn_loop_identity_per_call : Gen.connLoopAuthPerCall = true := by decide

/-- the mode the identities are squashed under cannot be changed or dropped by a runtime policy update -/
theorem gen_squash_immutable : Gen.updatePolicyRejectsAnySquashChange = true := by decide

end Props.C10
