/-
  C30 — The TLS listener enforces the configured security floor (PARTIAL: crypto/tls is trusted).
-/
import Absnfs.Tls
import Gen.Facts
open Absnfs.Tls

namespace Props.C30

def facts : Facts :=
  { floor := Gen.tlsValidateFloor, pinsUnsetMin := Gen.tlsPinsUnsetMin, cloneSharesCert := Gen.tlsCloneSharesCert }

theorem gen_facts : Gen.tlsValidateFloor = 0x0303 ∧ Gen.tlsPinsUnsetMin = true ∧ Gen.tlsCloneSharesCert = true := by
  decide

/-- Floor: for every configuration Validate accepts — including MinVersion left unset and any MaxVersion —
    and whatever crypto/tls's own default minimum is, no version below TLS 1.2 is admitted. -/
theorem never_below_tls12 (goMin : Nat) (c : Cfg) (v : Nat) (hen : c.enabled = true)
    (hv : validate facts c = true) (ha : admitsVersion facts goMin c v = true) : tls12 ≤ v := by
  have hf : facts.floor = tls12 := by decide
  have hp : facts.pinsUnsetMin = true := by decide
  simp only [validate, hen, Bool.not_true, Bool.false_or, Bool.and_eq_true, Bool.not_eq_true',
    decide_eq_false_iff_not, Bool.and_eq_false_imp, bne_iff_ne, ne_eq, decide_eq_true_eq] at hv
  simp only [admitsVersion, effectiveMin, hp, if_true, Bool.and_eq_true, decide_eq_true_eq] at ha
  by_cases h0 : c.minV = 0
  · simp only [h0, if_true] at ha; exact ha.1
  · simp only [h0, if_false] at ha
    have := hv.2 h0
    rw [hf] at this
    omega

/-- Without the pin (what the unrepaired code did) the floor rests on crypto/tls's default: a configuration
    {MinVersion: 0, MaxVersion: TLS 1.1} passes Validate and admits TLS 1.0 when that default is 1.0. -/
theorem unpinned_counterexample :
    let f : Facts := { floor := 0x0303, pinsUnsetMin := false, cloneSharesCert := true }
    let c : Cfg := { enabled := true, minV := 0, maxV := tls11, clientAuth := 0, caSet := false, filesExist := true }
    validate f c = true ∧ admitsVersion f tls10 c tls10 = true := by decide

/-- When client certificates are required and verified, a handshake completes only for a client that
    presents a certificate whose chain verifies (against the configured CA). -/
theorem require_and_verify (c : Cfg) (presents chainOk : Bool) (h : c.clientAuth = 4) :
    acceptsClient c presents chainOk = (presents && chainOk) := by
  simp [acceptsClient, h]

theorem require_and_verify_uses_configured_ca (c : Cfg) (h : c.clientAuth = 4) (hca : c.caSet = true) :
    verifiesAgainstConfiguredCA c = true ∧ requiresVerifiedChain c = true := by
  simp [verifiesAgainstConfiguredCA, requiresVerifiedChain, h, hca]

/-- Rotation: ReloadCertificates on the TLS settings returned by GetExportOptions (a clone of the policy's
    TLSConfig, itself the one the listener was built from) changes what the listener presents. -/
theorem rotation_reaches_listener (cs : Cells) (gen : Nat) :
    let r := cloneCell facts cs cs.listener
    presented (reload r.1 r.2 gen) = gen := by
  have hs : facts.cloneSharesCert = true := by decide
  simp [cloneCell, hs, presented, reload]

/-- With private cells per clone (the unrepaired code) the listener keeps presenting the old certificate. -/
theorem private_cell_counterexample (cs : Cells) (gen : Nat) (hn : cs.nextCell ≠ cs.listener) :
    let f : Facts := { floor := 0x0303, pinsUnsetMin := true, cloneSharesCert := false }
    let r := cloneCell f cs cs.listener
    presented (reload r.1 r.2 gen) = presented cs := by
  simp [cloneCell, presented, reload, Ne.symm hn]

example : validate facts { enabled := true, minV := tls12, maxV := tls13, clientAuth := 4, caSet := true, filesExist := true } = true := by
  decide
example : validate facts { enabled := true, minV := tls11, maxV := tls13, clientAuth := 0, caSet := false, filesExist := true } = false := by
  decide

/-- regenerated from the source on every run: the client-CA pool is built from an empty pool plus the configured CAFile -/
theorem gen_client_ca_pool : Gen.clientCAPoolStartsEmpty = true := by decide

/-- every listener start builds its tls.Config — client-CA pool included — from the configured files -/
theorem gen_listen_builds_config : Gen.listenBuildsTLSConfigAfresh = true := by decide

end Props.C30
