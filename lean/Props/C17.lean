/-
  C17 — Connections are bounded, accounted, reaped when idle, and fully shut down.
  PARTIAL: the accounting core is a theorem over every interleaving of the atomic critical sections; real
  goroutine exit, TCP and the 5-second Stop timeout are exercised by the harness, not modelled.
  KNOWN FINDING (C17/close-with-inflight-handler): a handler goroutine spawned by HandleCall that is still
  inside the backend when Close returns repopulates the handle table and the attribute cache afterwards.
-/
import Absnfs.Conns
import Gen.Facts
open Absnfs.Conns

namespace Props.C17

/-- Regenerated: registerConnection checks the limit and registers in one critical section; the decrement
    sits inside the Once body together with the removal from the map; Close and Unexport release all handles
    and clear both caches. -/
theorem gen_structure :
    (Gen.connRegisterAtomic && Gen.connDecrementInsideOnce && Gen.closeReleasesAndClears) = true := by decide

/-- Regenerated: the order of the teardown the model's `stop` / `close` steps assume — Stop cancels the context
    first (a connection accepted later finds it cancelled), then closes listeners and connections and waits;
    Close stops the server and the worker pool before it releases handles and clears the caches. -/
theorem gen_teardown_order : (Gen.stopCancelsFirst && Gen.closeStopsBeforeRelease) = true := by decide

/-- connCount always equals the number of registered connections, and never exceeds MaxConnections,
    whatever the interleaving of accepts, connection exits, the idle reaper and closeAll. -/
theorem count_is_number_of_registered (max : Nat) (s : St) (h : Reach max s) :
    s.count = (inMapCount s : Int) ∧ (max > 0 → s.count ≤ max) :=
  ⟨(inv_reach max s h).count, (inv_reach max s h).bound⟩

/-- A connection is uncounted exactly once: after its Once has fired it is out of the map for good, and no
    further unregister call changes the count. -/
theorem uncounted_exactly_once (max : Nat) (s : St) (h : Reach max s) (c : Conn) (hc : c ∈ s.conns)
    (hd : c.onceDone = true) : c.inMap = false := (inv_reach max s h).fired c hc hd

theorem later_unregister_is_noop (s : St) (c : Conn) :
    ({ s with conns := upd s.conns c.id decPending } : St).count = s.count := rfl

/-- When every accepted connection has been unregistered the counter is back to zero. -/
theorem all_gone_count_zero (max : Nat) (s : St) (h : Reach max s) (hall : ∀ c ∈ s.conns, c.inMap = false) :
    s.count = 0 := by
  have := (inv_reach max s h).count
  rw [this]
  simp only [inMapCount]
  have : s.conns.filter (·.inMap) = [] := by
    apply List.filter_eq_nil_iff.mpr
    intro c hc; simp [hall c hc]
  simp [this]

/-- At the limit a new connection is refused (never registered, never counted). -/
theorem refused_at_limit (max : Nat) (s s' : St) (h : Step max s s') (hfull : max > 0 ∧ s.count ≥ max) :
    s'.count ≤ s.count := by
  cases h with
  | accept id _ hroom =>
    rcases hroom with h0 | h1
    · omega
    · omega
  | reject _ => exact Int.le_refl _
  | unregLookup c _ _ => exact Int.le_refl _
  | unregFire c _ _ _ => simp only; split <;> omega
  | unregNoop c _ _ _ => exact Int.le_refl _

/-! ### MaxConnections is a runtime-tunable bound -/

/-- the accounting steps with a (positive) limit that the operator may change between any two of them -/
inductive StepV : St × Nat → St × Nat → Prop
  | step (m : Nat) (s s' : St) (h : Step m s s') : StepV (s, m) (s', m)
  | setMax (s : St) (m m' : Nat) (hpos : 0 < m') : StepV (s, m) (s, m')

/-- `ReachV hi (s, m)`: reachable with limit changes; `hi` is the largest limit that has been in force -/
inductive ReachV : Nat → St × Nat → Prop
  | init (m : Nat) (hpos : 0 < m) : ReachV m (init, m)
  | step (hi : Nat) (x y : St × Nat) (h : ReachV hi x) (hs : StepV x y) : ReachV (Nat.max hi y.2) y

/-- lowered below the number of open connections, the limit admits nobody: while the count is at or above the limit in
    force, no step makes it grow (the count only falls until it is below the limit again) -/
theorem lowered_limit_admits_nobody (s s' : St) (m m' : Nat) (h : StepV (s, m) (s', m')) (hm : m > 0) (hge : s.count ≥ m) :
    s'.count ≤ s.count := by
  cases h with
  | step _ _ _ hs => exact refused_at_limit m s s' hs ⟨hm, hge⟩
  | setMax _ _ _ _ => exact Int.le_refl _

/-- … and the count never exceeds the largest limit that has been in force -/
theorem bounded_by_largest_limit (hi : Nat) (x : St × Nat) (h : ReachV hi x) :
    0 < x.2 ∧ x.2 ≤ hi ∧ x.1.count ≤ hi := by
  induction h with
  | init m hpos => exact ⟨hpos, Nat.le_refl _, by simp [init]⟩
  | step hi x y _ hs ih =>
    obtain ⟨hp, hle, hc⟩ := ih
    cases hs with
    | step m s s' hstep =>
      simp only at hp hle hc ⊢
      refine ⟨hp, Nat.le_max_right _ _, ?_⟩
      have hmax : (Nat.max hi m : Int) = hi := by
        have : Nat.max hi m = hi := Nat.max_eq_left hle
        rw [this]
      rw [hmax]
      cases hstep with
      | accept id _ hroom =>
        rcases hroom with h0 | h1
        · omega
        · simp only; omega
      | reject _ => exact hc
      | unregLookup c _ _ => exact hc
      | unregFire c _ _ _ => simp only; split <;> omega
      | unregNoop c _ _ _ => exact hc
    | setMax s m m' hpos =>
      simp only at hp hle hc ⊢
      refine ⟨hpos, Nat.le_max_right _ _, ?_⟩
      have : (hi : Int) ≤ (Nat.max hi m' : Int) := by
        have := Nat.le_max_left hi m'
        exact_mod_cast this
      omega

example : ReachV 4 (init, 2) := by
  have h0 := ReachV.init 4 (by decide)
  have := ReachV.step 4 (init, 4) (init, 2) h0 (StepV.setMax init 4 2 (by decide))
  simpa using this

/-- Close ∘ Close = Close on what Close is responsible for (handles released, caches cleared, server stopped):
    the cleared state is a fixed point. -/
structure Resources where
  handles : Nat
  attrEntries : Nat
  dirEntries : Nat
  serving : Bool
  deriving DecidableEq

def closeAll (_ : Resources) : Resources := ⟨0, 0, 0, false⟩

theorem close_idempotent (r : Resources) : closeAll (closeAll r) = closeAll r := rfl

example : Reach 1 { conns := [⟨7, true, false, 0⟩], count := 1, rejected := 0 } :=
  Reach.step _ _ Reach.init (Step.accept init 7 (by simp [init]) (Or.inr (by simp [init])))

/-- regenerated from the source on every run: Listen starts the idle reaper before it chooses between a TLS and a plain listener -/
theorem gen_reaper_for_every_listener : Gen.listenStartsReaperForEveryListener = true := by decide

/-- regenerated from the source on every run: the accept loop counts a connection only after the host filter admitted its peer, and a closing connection is uncounted whatever the logging options -/
theorem gen_accounting_order : (Gen.acceptLoopFiltersBeforeCounting && Gen.unregisterUncountsUnconditionally) = true := by decide

end Props.C17
