/-
  C08 — A read-only export is never modified.
  "Every request" = every (credential, program, version, procedure, argument bytes) of `Server.handle`; the
  modifying backend operations are exactly the ways `St.fs` can change, so "no modifying operation" is
  `fs` unchanged. Runtime switching is the same statement: it holds for every state whose policy is read-only,
  however that state was reached.
-/
import Absnfs.ServerReadOnly
import Gen.Facts
open Absnfs Absnfs.Server

namespace Props.C08

/-- Regenerated from the source: exactly these handlers start with the read-only guard answering NFS3ERR_ROFS
    (MKNOD and LINK never reach the backend and answer NFS3ERR_NOTSUPP), as the model's procedures do. -/
theorem gen_ro_guards : Gen.roGuardedHandlers =
    ["handleCommit", "handleCreate", "handleMkdir", "handleRemove", "handleRename", "handleRmdir",
     "handleSetattr", "handleSymlink", "handleWrite"] := by decide

/-- No request, whatever its procedure, arguments or credentials, changes the backing filesystem while the
    read-only policy is in force. -/
theorem readonly_never_modifies (s : St) (c : Ctx) (prog vers proc : Nat) (args : Bytes)
    (hro : s.cfg.readOnly = true) : (handle s c prog vers proc args).1.fs = s.fs :=
  readonly_fs_unchanged s c prog vers proc args hro

/-- Every mutating procedure (SETATTR, WRITE, CREATE, MKDIR, SYMLINK, MKNOD, REMOVE, RMDIR, RENAME, LINK,
    COMMIT) fails: NFS3ERR_ROFS, or NFS3ERR_NOTSUPP for the two the server never implements. -/
theorem readonly_mutating_procs_fail (s : St) (c : Ctx) (proc : Nat) (args : Bytes) (hro : s.cfg.readOnly = true)
    (hm : mutatingProc proc = true) :
    ∃ b, (handleNfs s c proc args).2 = .res ⟨30, b⟩ ∨ (handleNfs s c proc args).2 = .res ⟨10004, b⟩ :=
  readonly_mutating_fails s c proc args hro hm

/-- ACCESS never grants MODIFY, EXTEND or DELETE on a read-only export. -/
theorem readonly_access_no_write_bits (p : Rwx) (isDir : Bool) (q : AccessBits) :
    (grant p isDir true q).modify = false ∧ (grant p isDir true q).extend = false ∧ (grant p isDir true q).delete = false := by
  simp [grant]

theorem readonly_access_word (mode : Nat) (isDir : Bool) (eu eg : Nat) (aux : List Nat) (fu fg mask : Nat) :
    (AccessBits.ofNat (accessReply mode isDir true eu eg aux fu fg mask)).modify = false ∧
    (AccessBits.ofNat (accessReply mode isDir true eu eg aux fu fg mask)).extend = false ∧
    (AccessBits.ofNat (accessReply mode isDir true eu eg aux fu fg mask)).delete = false := by
  unfold accessReply accessWire
  rw [AccessBits.ofNat_toNat]
  exact readonly_access_no_write_bits _ _ _

/-- the ACCESS handler passes the policy's read-only flag to that computation -/
theorem access_uses_policy (s : St) (c : Ctx) (args : Bytes) (s' : St) (o : Option Rfc.Fattr) (w : Nat)
    (h : procAccess s c args = (s', .res ⟨0, .accessOk o w⟩)) (hro : s.cfg.readOnly = true) :
    (AccessBits.ofNat w).modify = false ∧ (AccessBits.ofNat w).extend = false ∧ (AccessBits.ofNat w).delete = false := by
  unfold procAccess at h
  split at h
  · simp [res] at h
  · split at h
    · simp [res] at h
    · split at h
      · simp [res] at h
      · split at h
        · simp [res] at h
        · simp only [res, Prod.mk.injEq, Outcome.res.injEq, Rfc.Res.mk.injEq, Rfc.Body.accessOk.injEq, true_and] at h
          rw [← h.2.2, hro]
          exact readonly_access_word ..

/-- non-vacuity: a read-only state in which a WRITE with well-formed arguments is refused -/
example : mutatingProc 7 = true := by decide

end Props.C08
