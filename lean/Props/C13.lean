/-
  C13 — XDR, RPC and record-marking codecs are exact and bounded.
  Property theorems only (helper lemmas live in Absnfs/*.lean). Limits are the constants the extractor
  read from /repo's current source (Gen.*); the first group pins them to the documented values.
-/
import Absnfs.Rpc
import Absnfs.RecordMark
import Gen.Facts
open Absnfs

namespace Props.C13

/-! ### Obligations on regenerated facts (break when the source's limits or check order change) -/

theorem gen_limits :
    Gen.maxXdrString = 8192 ∧ Gen.maxRpcAuth = 400 ∧ Gen.fhMax = 64 ∧ Gen.fhLen = 8 ∧
    Gen.maxAuxGids = 16 ∧ Gen.defaultMaxRecordSize = 1048576 ∧ Gen.lastFragmentFlag = 2147483648 := by
  decide

/-- every decoder compares the declared length with the named constant … -/
theorem gen_checks_use_limits :
    Gen.xdrStringLimitCheck = Gen.maxXdrString ∧ Gen.credLimitCheck = Gen.maxRpcAuth ∧
    Gen.verfLimitCheck = Gen.maxRpcAuth ∧ Gen.brStringLimitCheck = Gen.maxXdrString := by
  decide

/-- … and does so before the first allocation of that size. -/
theorem gen_check_before_make :
    (Gen.xdrStringLimitCheckBeforeMake && Gen.credLimitCheckBeforeMake && Gen.verfLimitCheckBeforeMake &&
     Gen.fhMaxBeforeMake && Gen.maxAuxGidsBeforeMake && Gen.brStringLimitCheckBeforeMake &&
     Gen.recordLimitBeforeMake) = true := by
  decide

theorem gen_fragment_defaults :
    0 < Gen.defaultMaxFragmentSize ∧ Gen.defaultMaxFragmentSize < 2147483648 ∧
    Gen.maxFragmentSize = 2147483647 := by decide

/-! ### Round trips, exact consumption -/

theorem u32_roundtrip (n : Nat) (h : n < 4294967296) (rest : Bytes) :
    decU32 (encU32 n ++ rest) = some (n, rest) := decU32_encU32 n h rest

theorem u64_roundtrip (n : Nat) (h : n < 18446744073709551616) (rest : Bytes) :
    decU64 (encU64 n ++ rest) = some (n, rest) := decU64_encU64 n h rest

/-- Strings up to the limit without NUL decode to exactly what was encoded, leaving `rest`. -/
theorem string_roundtrip (s rest : Bytes) (hl : s.length ≤ Gen.maxXdrString) (hn : (0 : UInt8) ∉ s) :
    decString Gen.maxXdrString (encOpaque s ++ rest) = some (s, rest) :=
  decString_encOpaque _ s rest hl (by have : Gen.maxXdrString = 8192 := by decide
                                      omega) hn

/-- Whatever a string decoder accepts consumed exactly 4 + len + pad bytes. -/
theorem string_consumes_padded {bs s r : Bytes} (h : decString Gen.maxXdrString bs = some (s, r)) :
    bs.length = 4 + s.length + pad4 s.length + r.length ∧ (s.length + pad4 s.length) % 4 = 0 ∧
    s.length ≤ Gen.maxXdrString :=
  ⟨decOpaque_consumes (decString_sound h).1, pad4_spec _, by
    obtain ⟨_, _, _, hl, _⟩ := decOpaque_sound (decString_sound h).1; exact hl⟩

theorem string_encoded_length (s : Bytes) : (encOpaque s).length = 4 + s.length + pad4 s.length :=
  encOpaque_length s

/-- Declared lengths beyond the limit are rejected and nothing is allocated. -/
theorem string_oversize_rejected (n : Nat) (rest : Bytes) (h : Gen.maxXdrString < n) (h32 : n < 4294967296) :
    decString Gen.maxXdrString (encU32 n ++ rest) = none ∧
    decOpaqueAllocs Gen.maxXdrString (encU32 n ++ rest) = [] := by
  have := decOpaque_oversize Gen.maxXdrString n rest h h32
  refine ⟨?_, this.2⟩
  unfold decString; rw [this.1]

theorem string_allocs_bounded (bs : Bytes) :
    ∀ a ∈ decOpaqueAllocs Gen.maxXdrString bs, a ≤ Gen.maxXdrString ∨ a < 4 :=
  decOpaqueAllocs_bounded _ bs

/-- No decoder accepts a proper prefix (truncation) of a valid encoding. -/
theorem string_truncation_rejected (s : Bytes) (k : Nat) (hk : k < (encOpaque s).length)
    (hl : s.length ≤ Gen.maxXdrString) :
    decString Gen.maxXdrString ((encOpaque s).take k) = none := by
  unfold decString
  rw [decOpaque_prefix _ s k hk (by have : Gen.maxXdrString = 8192 := by decide
                                    omega)]

theorem filehandle_roundtrip (h : Nat) (rest : Bytes) (h64 : h < 18446744073709551616) :
    decFh Gen.fhMax Gen.fhLen (encFh h ++ rest) = some (h, rest) :=
  decFh_encFh Gen.fhMax h rest (by decide) h64

theorem filehandle_consumes {bs r : Bytes} {h : Nat} (hd : decFh Gen.fhMax Gen.fhLen bs = some (h, r)) :
    bs.length = r.length + 12 := (decFh_consumes hd).1

/-- a refused file handle keeps the stream in sync: a complete XDR opaque of any wrong size up to the limit is
    skipped together with its padding (what follows it is what the next decoder sees), an over-limit length is
    refused with nothing more read -/
theorem refused_filehandle_keeps_sync (data rest : Bytes) (hl : data.length ≤ Gen.fhMax) (hne : data.length ≠ Gen.fhLen) :
    decFh Gen.fhMax Gen.fhLen (encOpaque data ++ rest) = none ∧
    decFhRest Gen.fhMax Gen.fhLen (encOpaque data ++ rest) = rest := by
  have h64 : Gen.fhMax = 64 := by decide
  have h32 : data.length < 4294967296 := by omega
  unfold decFh decFhRest encOpaque
  simp only [List.append_assoc]
  rw [decU32_encU32 _ h32]
  simp only
  rw [if_neg (by omega), if_pos hne, if_neg (by omega), if_pos hne]
  refine ⟨rfl, ?_⟩
  split
  · rw [pad4_round, ← List.append_assoc, List.drop_left' (by simp)]
  · have : data = [] := by
      cases data with
      | nil => rfl
      | cons _ _ => simp at *
    subst this
    simp [pad4, zeros]

theorem filehandle_allocs_bounded (bs : Bytes) :
    ∀ a ∈ decFhAllocs Gen.fhMax Gen.fhLen bs, a ≤ Gen.fhMax + 3 := decFhAllocs_bounded _ _ bs

theorem sattr3_roundtrip (s : Sattr3) (rest : Bytes) (h : s.WF) :
    decSattr3 (encSattr3 s ++ rest) = some (s, rest) := decSattr3_encSattr3 s rest h

/-- RPC call header (credential and verifier bodies up to 400 bytes). -/
theorem call_roundtrip (c : RpcCall) (rest : Bytes) (h : c.WF Gen.maxRpcAuth) :
    decCall Gen.maxRpcAuth (encCall c ++ rest) = some (c, rest) :=
  decCall_encCall _ c rest h (by decide)

theorem call_allocs_bounded (bs : Bytes) :
    ∀ a ∈ decCallAllocs Gen.maxRpcAuth bs, a ≤ Gen.maxRpcAuth ∨ a < 4 := decCallAllocs_bounded _ bs

theorem auth_oversize_rejected (fl n : Nat) (rest : Bytes) (hf : fl < 4294967296)
    (h : Gen.maxRpcAuth < n) (h32 : n < 4294967296) :
    decAuth Gen.maxRpcAuth (encU32 fl ++ encU32 n ++ rest) = none := by
  unfold decAuth
  rw [List.append_assoc, decU32_encU32 _ hf]
  simp only
  rw [(decOpaque_oversize _ n rest h h32).1]

/-- AUTH_SYS bodies with at most 16 auxiliary gids decode to exactly what was encoded. -/
theorem authsys_roundtrip (a : AuthSys) (h : a.WF Gen.maxXdrString Gen.maxAuxGids) :
    parseAuthSys Gen.maxXdrString Gen.maxAuxGids (encAuthSys a) = some a :=
  parseAuthSys_encAuthSys _ _ a h (by decide) (by decide)

theorem authsys_too_many_gids (stamp uid gid cnt : Nat) (machine tail : Bytes)
    (h1 : stamp < 4294967296) (h2 : machine.length ≤ Gen.maxXdrString) (h3 : uid < 4294967296)
    (h4 : gid < 4294967296) (hc : Gen.maxAuxGids < cnt) (hc32 : cnt < 4294967296) :
    parseAuthSys Gen.maxXdrString Gen.maxAuxGids
      (encU32 stamp ++ encOpaque machine ++ encU32 uid ++ encU32 gid ++ encU32 cnt ++ tail) = none :=
  parseAuthSys_too_many_gids _ _ stamp uid gid cnt machine tail h1 h2 h3 h4 hc hc32 (by decide)

/-- The reply the server writes decodes exactly (no missing or trailing bytes) as an RFC 1831 reply. -/
theorem reply_roundtrip (r : RpcReply) (h : r.WF Gen.maxRpcAuth) :
    decReply Gen.maxRpcAuth (encReply r) = r.view := decReply_encReply _ r h (by decide)

/-! ### Record marking -/

/-- Any fragmentation of a record up to the record limit reassembles into the original bytes. -/
theorem record_reassembly (pieces : List Bytes) (rest : Bytes) (hne : pieces ≠ [])
    (hsz : pieces.flatten.length ≤ Gen.defaultMaxRecordSize)
    (h31 : ∀ p ∈ pieces, p.length < 2147483648) :
    readRecord Gen.defaultMaxRecordSize (frame pieces ++ rest) = some (pieces.flatten, rest) :=
  readRecord_frame _ pieces rest hne hsz h31

/-- Writing then reading a record is the identity (default fragment size). -/
theorem record_write_read (d rest : Bytes) (hd : d.length ≤ Gen.defaultMaxRecordSize) :
    readRecord Gen.defaultMaxRecordSize (writeRecord Gen.defaultMaxFragmentSize d ++ rest) = some (d, rest) :=
  readRecord_writeRecord _ _ d rest (by decide) (by decide) hd

/-- A record that would exceed the limit is refused before its fragment is allocated,
    and the allocations of any read never add up to more than the limit. -/
theorem record_oversize_rejected (fuel : Nat) (acc : Bytes) (hdr : Nat) (rest : Bytes)
    (h32 : hdr < 4294967296) (hbig : acc.length + hdr % 2147483648 > Gen.defaultMaxRecordSize) :
    readFrags (fuel + 1) Gen.defaultMaxRecordSize acc (encU32 hdr ++ rest) = none ∧
    readFragsAllocs (fuel + 1) Gen.defaultMaxRecordSize acc.length (encU32 hdr ++ rest) = [] :=
  readFrags_oversize fuel _ acc hdr rest h32 hbig

theorem record_allocs_bounded (fuel : Nat) (bs : Bytes) :
    (readFragsAllocs fuel Gen.defaultMaxRecordSize 0 bs).sum ≤ Gen.defaultMaxRecordSize := by
  have := readFragsAllocs_sum fuel Gen.defaultMaxRecordSize 0 bs (Nat.zero_le _)
  omega

/-! ### Non-vacuity: concrete values meet the hypotheses -/

example : decString Gen.maxXdrString (encOpaque [97, 98, 99] ++ [255]) = some ([97, 98, 99], [255]) := by
  decide
example : ({ xid := 7, rpcVers := 2, prog := 100003, vers := 3, proc := 1,
             cred := ⟨1, [0, 0, 0, 1]⟩, verf := ⟨0, []⟩ } : RpcCall).WF Gen.maxRpcAuth := by
  simp [RpcCall.WF, OpaqueAuth.WF]; decide
example : readRecord Gen.defaultMaxRecordSize (frame [[1, 2], [3]] ++ [9]) = some ([1, 2, 3], [9]) := by
  decide
example : ({ stamp := 1, machine := [104], uid := 1000, gid := 1000, gids := [4, 24] } : AuthSys).WF
    Gen.maxXdrString Gen.maxAuxGids := by
  simp [AuthSys.WF]; decide

end Props.C13
