/-
  C22 — Data acknowledged as stable survives a crash.
  The backend's crash behaviour is the `Durable` model (volatile contents, durable contents, Sync copies, a
  crash reverts): the reference backend implements it and is compared with it operation by operation. The
  server's part is structural and regenerated from the source on every run: WriteWithContext syncs after
  WriteAt and before anything else (so before handleWrite builds the FILE_SYNC reply), handleCommit opens the
  file and syncs it, the write verifier is written exactly once, in NewServer.
  "Every crash point" = any position in the backend operation sequence (`pre ++ … ++ post`, `post` arbitrary
  operations without a Sync).
-/
import Absnfs.Durable
import Gen.Facts
open Absnfs Absnfs.Durable

namespace Props.C22

theorem gen_write_syncs : (Gen.writeSyncsBeforeAck && Gen.writeRepliesFileSync) = true := by decide
theorem gen_commit_syncs : Gen.commitSyncs = true := by decide
/-- the verifier is written once, when the Server value is created (from the wall clock in nanoseconds): it
    cannot change during the life of an instance; that two instances differ is checked at run time -/
theorem gen_verifier_once : Gen.writeVerfSetOnceAtCreation = true := by decide

/-- Data acknowledged by a WRITE reply (committed = FILE_SYNC): at every later crash point before another
    Sync the file holds exactly what that WRITE produced. -/
theorem acknowledged_write_survives (f : File) (pre : List Op) (off : Nat) (w : Bytes) (post : List Op)
    (h : ∀ o ∈ post, isSync o = false) :
    (crash (run f (pre ++ srvWrite off w ++ post))).data = Fs.writeBytes (run f pre).data off w :=
  acked_write_survives f pre off w post h

/-- … in particular every payload byte is there. -/
theorem acknowledged_bytes_present (f : File) (pre : List Op) (off : Nat) (w : Bytes) (post : List Op)
    (h : ∀ o ∈ post, isSync o = false) (hw : w ≠ []) (i : Nat) (hi : i < w.length) :
    (crash (run f (pre ++ srvWrite off w ++ post))).data.getD (off + i) 0 = w.getD i 0 := by
  rw [acked_write_survives f pre off w post h, Fs.writeBytes_getD _ _ _ _ hw]
  have : off ≤ off + i ∧ off + i < off + w.length := ⟨by omega, by omega⟩
  simp [this]

/-- Data covered by a later successful COMMIT (writes not yet synced, truncations and extensions) survives. -/
theorem commit_covers (f : File) (pre post : List Op) (h : ∀ o ∈ post, isSync o = false) :
    (crash (run f (pre ++ srvCommit ++ post))).data = (run f pre).data :=
  commit_covers_everything_before f pre post h

/-- A crash never reverts past the last Sync. -/
theorem crash_restores_exactly_last_sync (f : File) (pre post : List Op) (h : ∀ o ∈ post, isSync o = false) :
    (crash (run f (pre ++ [.sync] ++ post))).data = (run f pre).data :=
  crash_restores_last_sync f pre post h

/-- the defect the check found on the original tree: WriteAt without Sync is lost by a crash -/
example : (crash (run ⟨[], []⟩ [.writeAt 0 [1, 2, 3]])).data = [] := by decide
example : (crash (run ⟨[], []⟩ (srvWrite 0 [1, 2, 3] ++ [.writeAt 1 [9]]))).data = [1, 2, 3] := by decide

/-- regenerated from the source on every run: COMMIT returns an error when it cannot open the file for the flush -/
theorem gen_commit_open_failure : Gen.commitFailsWhenOpenFails = true := by decide

/-- the count in a WRITE reply is the number of bytes the backend wrote and synced, not the number requested -/
theorem gen_write_reply_count : Gen.writeReplyCountIsBytesWritten = true := by decide

end Props.C22
