/-
  C29 — Concurrent requests are race-free and linearizable.
  PARTIAL, by nature: data races, panics, deadlocks and the interleavings of Go code below the granularity of
  a backend call are runtime behaviour; they are observed (race detector, randomised schedules with yields and
  delays injected in every backend call, many seeds), not proved. What a theorem carries here is why the
  oracle is right: for requests that touch distinct names, *every* serial order gives each client the replies
  of its own solo run and yields the union tree — because operations at different places of the tree commute
  and do not see each other. That is proved on the backing-filesystem model; the sequential behaviour of each
  request is the Lean server model (tied by the other checks' correspondence); the lock structures' own
  invariants under every interleaving of their critical sections are C05 (handle table), C21 (caches),
  C16 (policy drain), C17 (connections), C20 (worker pool).
-/
import Absnfs.FsLemmas
import Absnfs.BytesComm
import Absnfs.FsWriteComm
import Gen.Facts
open Absnfs Absnfs.Fs

namespace Props.C29

/-- the tie between "the lock structures' invariants hold under every interleaving of their critical sections"
    and the code: each handle-table operation is one critical section (regenerated from filehandle.go) -/
theorem gen_handle_ops_atomic : Gen.handleOpsAtomic = true := by decide

/-- stores at different paths commute (as maps: entry order and inode counter aside) -/
theorem stores_commute (fs : T) (p q : Path) (e f : Entry) (h : p ≠ q) :
    SameMap (set (set fs p e) q f) (set (set fs q f) p e) := set_set_comm fs p q e f h

/-- a store and a removal at different paths commute -/
theorem store_and_removal_commute (fs : T) (p q : Path) (e : Entry) (h : p ≠ q) :
    SameMap (del (set fs p e) q) (set (del fs q) p e) := set_del_comm fs p q e h

/-- removals commute -/
theorem removals_commute (fs : T) (p q : Path) : SameMap (del (del fs p) q) (del (del fs q) p) := del_del_comm fs p q

/-- everything the server asks the backend (Lstat, Stat, Open, Readlink: path resolution) depends only on the map -/
theorem resolution_depends_on_map_only {a b : T} (h : SameMap a b) (p : Path) : walk a p = walk b p := walk_sameMap h p

/-- what one client's operation stores at `p` does not change how another client's path `q` resolves, unless `q`
    passes through `p`: requests on distinct names (neither a prefix of the other) do not see each other -/
theorem distinct_names_independent (fs : T) (p q : Path) (e : Entry) (h : ¬ p.isPrefixOf q = true) :
    walk (set fs p e) q = walk fs q := resolution_independent fs p q e h

/-- non-vacuity: /d/t0a and /d/t1a are unrelated names in a shared directory -/
example : ¬ ([[100], [116, 48, 97]] : Path).isPrefixOf [[100], [116, 49, 97]] = true := by decide

/-- AttrCache.Get changes the map and the LRU list only while it holds the write lock (the model's two-phase Get:
    decision under the read lock, mutation under the write lock after a re-check) -/
theorem gen_attr_cache_get_locking : Gen.attrCacheGetMutatesUnderWriteLock = true := by decide

/-- concurrent WRITEs to disjoint ranges of one file: the two WriteAt calls commute, so both serial orders leave
    the same bytes (holes included) -/
theorem disjoint_writes_commute (d : Bytes) (o1 o2 : Nat) (w1 w2 : Bytes) (h1 : w1 ≠ []) (h2 : w2 ≠ [])
    (hd : o1 + w1.length ≤ o2 ∨ o2 + w2.length ≤ o1) :
    writeBytes (writeBytes d o1 w1) o2 w2 = writeBytes (writeBytes d o2 w2) o1 w1 :=
  writeBytes_comm_disjoint d o1 o2 w1 w2 h1 h2 hd

/-- any number of pairwise non-overlapping, non-empty WRITEs: every serial order of them leaves the same file
    contents — the READ that follows the completed WRITEs has one possible answer -/
theorem disjoint_writes_any_order {ws ws' : List (Nat × Bytes)} (hp : ws.Perm ws') (hdis : ws.Pairwise Disj)
    (hne : ∀ x ∈ ws, x.2 ≠ []) (d : Bytes) : writeAll d ws = writeAll d ws' := writeAll_perm hp hdis hne d

/-- and that answer holds each WRITE's payload in its own range: a range written once reads back exactly,
    whatever non-overlapping writes were applied after it (this is the content oracle of the harness's
    completed-writes-then-read scenario) -/
theorem written_range_reads_back (d : Bytes) (o : Nat) (w : Bytes) (hw : w ≠ []) (ws : List (Nat × Bytes))
    (hdis : ∀ x ∈ ws, x.2 ≠ [] ∧ (x.1 + x.2.length ≤ o ∨ o + w.length ≤ x.1)) :
    slice (writeAll (writeBytes d o w) ws) o w.length = w := range_survives_disjoint_writes d o w hw ws hdis

/-- length side of the same oracle: after any sequence of writes, in any order, overlapping or not, the file
    reaches at least the end of every non-empty write - a READ after the completed WRITEs cannot be shorter -/
theorem completed_writes_are_covered (d : Bytes) (ws : List (Nat × Bytes)) (x : Nat × Bytes) (hx : x ∈ ws) (hne : x.2 ≠ []) :
    x.1 + x.2.length ≤ (writeAll d ws).length := writeAll_covers_every_write d ws x hx hne

/-- a WRITE racing a SETATTR(size): when the write ends at or below the new size the two commute (one outcome) -/
theorem write_below_new_size_commutes_with_truncate (d : Bytes) (o : Nat) (w : Bytes) (n : Nat) (hw : w ≠ [])
    (h : o + w.length ≤ n) : truncBytes (writeBytes d o w) n = writeBytes (truncBytes d n) o w :=
  truncBytes_writeBytes_comm d o w n hw h

/-- ... and when it reaches beyond the new size they do not: the two serial orders differ already in the length, so
    for such pairs the oracle accepts either outcome and nothing else -/
theorem write_beyond_new_size_order_visible (d : Bytes) (o : Nat) (w : Bytes) (n : Nat) (hw : w ≠ [])
    (h : n < o + w.length) : (truncBytes (writeBytes d o w) n).length ≠ (writeBytes (truncBytes d n) o w).length :=
  trunc_then_write_differs d o w n hw h

/-- two WRITEs of the same range: the serial order decides, the later payload is what stays -/
theorem same_range_last_writer_wins (d : Bytes) (o : Nat) (w1 w2 : Bytes) (h1 : w1 ≠ []) (h2 : w2 ≠ [])
    (hl : w1.length = w2.length) : writeBytes (writeBytes d o w1) o w2 = writeBytes d o w2 :=
  writeBytes_overwrite d o w1 w2 h1 h2 hl

/-- the same at the level of the backing filesystem: two WriteAt calls on non-overlapping ranges of one file,
    through whichever paths resolve to it (p, p' — e.g. the name and a symbolic link to it), both within the size
    limit, succeed in either order with full counts and leave one and the same filesystem `fin`, whose file
    holds both payloads -/
theorem concurrent_disjoint_writes_one_outcome {fs : T} (hwf : WF fs) {p p' q : Path} {e : Entry}
    (hf : follow fs p = (q, .ok e)) (hf' : follow fs p' = (q, .ok e)) (hk : e.kind = .file)
    (o1 o2 : Nat) (w1 w2 : Bytes) (h1 : w1 ≠ []) (h2 : w2 ≠ [])
    (hs1 : o1 + w1.length ≤ fs.maxSize) (hs2 : o2 + w2.length ≤ fs.maxSize)
    (hd : o1 + w1.length ≤ o2 ∨ o2 + w2.length ≤ o1) :
    ∃ fa fb fin, writeAt fs p o1 w1 = .ok (fa, w1.length) ∧ writeAt fa p' o2 w2 = .ok (fin, w2.length) ∧
                 writeAt fs p' o2 w2 = .ok (fb, w2.length) ∧ writeAt fb p o1 w1 = .ok (fin, w1.length) ∧
                 get fin q = some { e with data := writeBytes (writeBytes e.data o1 w1) o2 w2 } :=
  writeAt_comm_disjoint hwf hf hf' hk o1 o2 w1 w2 h1 h2 hs1 hs2 hd

/-- non-vacuity: three writers of 2 bytes each at 0, 2, 4 into an empty file, applied in the order 2, 0, 1 -/
example : writeAll [] [(4, [99, 99]), (0, [97, 97]), (2, [98, 98])] = [97, 97, 98, 98, 99, 99] := by decide
example : List.Pairwise Disj [(4, [99, 99]), (0, [97, 97]), (2, [98, 98])] := by
  simp [Disj]

end Props.C29
