/-
  C29 — Concurrent requests are race-free and linearizable.
  PARTIAL, by nature: data races, panics, deadlocks and the interleavings of Go code below the granularity of
  a backend call are runtime behaviour; they are observed (race detector, randomised schedules with yields and
  delays injected in every backend call, many seeds), not proved. What a theorem carries here is why the
  oracle is right: for requests that touch distinct names, *every* serial order gives each client the replies
  of its own solo run and yields the union tree — because operations at different places of the tree commute
  and do not see each other. That is proved on the backing-filesystem model; the sequential behaviour of each
  request is the Lean server model (tied by the other checks' correspondence); the lock structures' own
  invariants under every interleaving of their critical sections are C05 (handle table), C21 (caches),
  C16 (policy drain), C17 (connections), C20 (worker pool).
-/
import Absnfs.FsLemmas
import Gen.Facts
open Absnfs Absnfs.Fs

namespace Props.C29

/-- the tie between "the lock structures' invariants hold under every interleaving of their critical sections"
    and the code: each handle-table operation is one critical section (regenerated from filehandle.go) -/
theorem gen_handle_ops_atomic : Gen.handleOpsAtomic = true := by decide

/-- stores at different paths commute (as maps: entry order and inode counter aside) -/
theorem stores_commute (fs : T) (p q : Path) (e f : Entry) (h : p ≠ q) :
    SameMap (set (set fs p e) q f) (set (set fs q f) p e) := set_set_comm fs p q e f h

/-- a store and a removal at different paths commute -/
theorem store_and_removal_commute (fs : T) (p q : Path) (e : Entry) (h : p ≠ q) :
    SameMap (del (set fs p e) q) (set (del fs q) p e) := set_del_comm fs p q e h

/-- removals commute -/
theorem removals_commute (fs : T) (p q : Path) : SameMap (del (del fs p) q) (del (del fs q) p) := del_del_comm fs p q

/-- everything the server asks the backend (Lstat, Stat, Open, Readlink: path resolution) depends only on the map -/
theorem resolution_depends_on_map_only {a b : T} (h : SameMap a b) (p : Path) : walk a p = walk b p := walk_sameMap h p

/-- what one client's operation stores at `p` does not change how another client's path `q` resolves, unless `q`
    passes through `p`: requests on distinct names (neither a prefix of the other) do not see each other -/
theorem distinct_names_independent (fs : T) (p q : Path) (e : Entry) (h : ¬ p.isPrefixOf q = true) :
    walk (set fs p e) q = walk fs q := resolution_independent fs p q e h

/-- non-vacuity: /d/t0a and /d/t1a are unrelated names in a shared directory -/
example : ¬ ([[100], [116, 48, 97]] : Path).isPrefixOf [[100], [116, 49, 97]] = true := by decide

/-- AttrCache.Get changes the map and the LRU list only while it holds the write lock (the model's two-phase Get:
    decision under the read lock, mutation under the write lock after a re-check) -/
theorem gen_attr_cache_get_locking : Gen.attrCacheGetMutatesUnderWriteLock = true := by decide

end Props.C29
