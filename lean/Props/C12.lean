/-
  C12 — ACCESS decisions follow UNIX permission rules and never over-grant.
  All statements are for every mode, identity, auxiliary-gid list and 32-bit request word.
-/
import Absnfs.Access
import Gen.Facts
import Absnfs.Auth
open Absnfs

namespace Props.C12

/-- The granted word decodes to exactly the per-bit decision (and carries no other bits). -/
theorem granted_exact (perm : Nat) (d r : Bool) (mask : Nat) :
    AccessBits.ofNat (accessWire perm d r mask) = grant (Rwx.ofNat perm) d r (AccessBits.ofNat mask) ∧
    accessWire perm d r mask < 64 :=
  ⟨AccessBits.ofNat_toNat _, AccessBits.toNat_lt _⟩

/-- Granted ⊆ requested, bit by bit. -/
theorem granted_subset (p : Rwx) (d r : Bool) (q : AccessBits) :
    let g := grant p d r q
    (g.read → q.read) ∧ (g.lookup → q.lookup) ∧ (g.modify → q.modify) ∧
    (g.extend → q.extend) ∧ (g.delete → q.delete) ∧ (g.execute → q.execute) := by
  simp [grant]
  cases q with | mk a b c dd e f => cases p with | mk pr pw px =>
  cases a <;> cases b <;> cases c <;> cases dd <;> cases e <;> cases f <;>
  cases pr <;> cases pw <;> cases px <;> cases d <;> cases r <;> decide

/-- Exactness per bit: each bit is granted iff it was requested and the class permits it. -/
theorem granted_iff (p : Rwx) (d r : Bool) (q : AccessBits) :
    let g := grant p d r q
    (g.read = (q.read && p.r)) ∧ (g.execute = (q.execute && p.x)) ∧
    (g.lookup = (q.lookup && d && p.x)) ∧
    (g.modify = (!r && q.modify && p.w)) ∧ (g.extend = (!r && q.extend && p.w)) ∧
    (g.delete = (!r && q.delete && d && p.w)) := by
  simp [grant]

/-- LOOKUP and DELETE only on directories. -/
theorem lookup_delete_only_on_dirs (p : Rwx) (r : Bool) (q : AccessBits) :
    (grant p false r q).lookup = false ∧ (grant p false r q).delete = false := by
  simp [grant]

/-- Never MODIFY, EXTEND or DELETE on a read-only export. -/
theorem readonly_never_writes (p : Rwx) (d : Bool) (q : AccessBits) :
    (grant p d true q).modify = false ∧ (grant p d true q).extend = false ∧
    (grant p d true q).delete = false := by
  simp [grant]

/-- The same, on the wire word, for every 32-bit mask and every mode / identity. -/
theorem readonly_wire (mode : Nat) (d : Bool) (eu eg : Nat) (aux : List Nat) (fu fg mask : Nat) :
    let w := accessReply mode d true eu eg aux fu fg mask
    w.testBit 2 = false ∧ w.testBit 3 = false ∧ w.testBit 4 = false := by
  have h := (granted_exact (selectPerm mode eu eg aux fu fg) d true mask).1
  have hm := readonly_never_writes (Rwx.ofNat (selectPerm mode eu eg aux fu fg)) d (AccessBits.ofNat mask)
  rw [← h] at hm
  simpa [AccessBits.ofNat, accessReply] using hm

/-- Root gets every permission of the class-independent kind. -/
theorem root_all (mode eg : Nat) (aux : List Nat) (fu fg : Nat) :
    selectPerm mode 0 eg aux fu fg = 7 := by simp [selectPerm]

/-- Class precedence: the owner's bits apply to the owner even when group/other bits are wider. -/
theorem owner_bits (mode eu eg : Nat) (aux : List Nat) (fg : Nat) (h : eu ≠ 0) :
    selectPerm mode eu eg aux eu fg = (mode >>> 6) &&& 7 := by
  simp [selectPerm, h, selectClass, classShift]

theorem group_bits (mode eu eg : Nat) (aux : List Nat) (fu fg : Nat) (h : eu ≠ 0) (hu : eu ≠ fu)
    (hg : eg = fg ∨ fg ∈ aux) :
    selectPerm mode eu eg aux fu fg = (mode >>> 3) &&& 7 := by
  simp only [selectPerm, h, if_false, selectClass, hu]
  rcases hg with hg | hg
  · simp [hg, classShift]
  · by_cases h2 : eg = fg <;> simp [h2, hg, classShift]

theorem other_bits (mode eu eg : Nat) (aux : List Nat) (fu fg : Nat) (h : eu ≠ 0) (hu : eu ≠ fu)
    (hg : eg ≠ fg) (ha : fg ∉ aux) :
    selectPerm mode eu eg aux fu fg = mode &&& 7 := by
  simp [selectPerm, h, selectClass, hu, hg, ha, classShift]

/-- The selected class bits are always a 3-bit value. -/
theorem perm_lt_8 (mode eu eg : Nat) (aux : List Nat) (fu fg : Nat) :
    selectPerm mode eu eg aux fu fg < 8 := by
  unfold selectPerm
  split
  · decide
  · exact Nat.lt_of_le_of_lt Nat.and_le_right (by decide)

/-- Bits of the request word above the six ACCESS3 bits never influence the decision. -/
theorem high_bits_ignored (perm : Nat) (d r : Bool) (mask : Nat) :
    accessWire perm d r mask = accessWire perm d r (mask % 64) := by
  have h : ∀ i, i < 6 → (mask % 64).testBit i = mask.testBit i := by
    intro i hi
    have := Nat.testBit_mod_two_pow mask 6 i
    simp [hi] at this
    exact this
  simp only [accessWire, AccessBits.ofNat, h 0 (by decide), h 1 (by decide), h 2 (by decide),
    h 3 (by decide), h 4 (by decide), h 5 (by decide)]

/-! Non-vacuity / sanity on concrete values. -/
example : accessReply 0o750 true false 1000 100 [] 1000 100 0x3f = 0x3f := by decide
example : accessReply 0o750 false false 1001 100 [] 1000 100 0x3f = 0x21 := by decide
example : accessReply 0o750 false false 1001 101 [100] 1000 100 0x3f = 0x21 := by decide
example : accessReply 0o757 true false 1000 100 [] 1000 100 0x3f = 0x3f := by decide
example : accessReply 0o057 true false 1000 100 [] 1000 100 0x3f = 0 := by decide
example : accessReply 0o777 true true 0 0 [] 5 5 0xffffffff = 0x23 := by decide

/-! ### the identity the rules are applied to is the squashed one (C10 ∘ C12; the driver's `accessq`) -/

/-- on an `all`-squashing export every AUTH_SYS caller — uid 0 and members of the file's group through an auxiliary
    gid included — is judged by the "other" bits of an object that nobody (65534) neither owns nor shares a group with -/
theorem all_squash_judged_as_other (mode : Nat) (c : Identity) (fu fg : Nat) (hu : fu ≠ nobody) (hg : fg ≠ nobody) :
    selectPerm mode (squash .all c).uid (squash .all c).gid (squash .all c).aux fu fg = mode &&& 7 := by
  have hn : nobody = 65534 := rfl
  apply other_bits
  · simp [squash, hn]
  · simp only [squash]; exact fun h => hu h.symm
  · simp only [squash]; exact fun h => hg h.symm
  · simp only [squash, List.mem_map, not_exists, not_and]
    intro g _ h; exact hg h.symm

/-- on a `root`-squashing export uid 0 has no override and gid 0 (primary or auxiliary) gives no group class -/
theorem root_squash_no_override (mode : Nat) (c : Identity) (fu fg : Nat) (h0 : c.uid = 0) (hu : fu ≠ nobody)
    (hg : fg ≠ nobody) (ha : ∀ g ∈ c.aux, g = 0 ∨ g ≠ fg) :
    selectPerm mode (squash .root c).uid (squash .root c).gid (squash .root c).aux fu fg = mode &&& 7 := by
  have hn : nobody = 65534 := rfl
  apply other_bits
  · simp [squash, h0, hn]
  · simp only [squash, h0, if_true]; exact fun h => hu h.symm
  · simp only [squash, h0, if_true]; exact fun h => hg h.symm
  · simp only [squash, List.mem_map, not_exists, not_and]
    intro g hgm h
    rcases ha g hgm with h1 | h1
    · rw [h1] at h; simp at h; exact hg h.symm
    · by_cases hz : g = 0
      · rw [hz] at h; simp at h; exact hg h.symm
      · simp [hz] at h; exact h1 h

/-- regenerated from the source on every run: the connection loop builds the authentication context inside its request loop, from that call's credential: the identity ACCESS judges is the call's own -/
theorem gen_conn_loop_identity_per_call : Gen.connLoopAuthPerCall = true := by decide

/-- the identity ACCESS judges is the validated, squashed one for every credential flavour: HandleCall copies it into
    the context unconditionally (AUTH_NONE callers are nobody, not uid 0) -/
theorem gen_identity_applied : Gen.handleCallAppliesIdentity = true := by decide

end Props.C12
