/-
  C18 — Rate limiters never admit more than burst + rate × elapsed.
  Exact rational arithmetic; float64 rounding in the Go code is not modelled.
-/
import Absnfs.Bucket
import Gen.Facts
open Absnfs Absnfs.Bucket

namespace Props.C18

/-- Regenerated: per-operation bursts and the large-I/O threshold as they are in the source. -/
theorem gen_op_bursts :
    Gen.opBurstReadLarge = 10 ∧ Gen.opBurstWriteLarge = 5 ∧ Gen.opBurstReaddir = 5 ∧ Gen.opBurstMount = 2 ∧
    Gen.largeIoThreshold = 65536 := by decide

/-- Every kind of limiter (global, per-IP, per-connection, per-operation) is a TokenBucket created with
    NewTokenBucket(rate, burst) and consulted only through Allow (regenerated fact). -/
theorem gen_all_limiters_are_buckets : Gen.limitersAreTokenBuckets = true := by decide

/-- The bound, for every rate ≥ 0 (zero and fractional included), every burst and every monotone sequence
    of request instants of any length. -/
theorem bucket_bound (rate : Rat) (burst t0 : Nat) (ts : List Nat) (hr : 0 ≤ rate) (hm : Mono t0 ts) :
    (((TB.new rate burst t0).run ts).2 : Rat) ≤
      burst + rate * secs (((TB.new rate burst t0).run ts).1.last - t0) :=
  admitted_bound rate burst t0 ts hr hm

/-- A zero rate admits exactly at most the burst, ever. -/
theorem zero_rate_only_burst (burst t0 : Nat) (ts : List Nat) (hm : Mono t0 ts) :
    ((TB.new 0 burst t0).run ts).2 ≤ burst := by
  have := admitted_bound 0 burst t0 ts (Rat.le_refl) hm
  simp only [Rat.zero_mul, Rat.add_zero] at this
  exact_mod_cast this

/-- No refusal unless the bucket holds less than one token. -/
theorem refusal_needs_empty (b : TB) (now : Nat) (h : (b.allow now).2 = false) : b.level now < 1 := by
  unfold TB.allow at h
  simp only at h
  split at h
  · simp at h
  · rename_i hn; exact Rat.not_le.mp hn

theorem admit_iff_token (b : TB) (now : Nat) : (b.allow now).2 = true ↔ 1 ≤ b.level now := by
  unfold TB.allow
  simp only
  split
  · rename_i h; simp; exact h
  · rename_i h; simp; exact h

/-- Periodic cleanup of idle (full) limiters never changes any admit/deny decision. -/
theorem cleanup_never_changes_decisions (b : TB) (rate : Rat) (burst now now' : Nat)
    (hfull : b.level now ≥ (burst : Rat)) (hmax : b.max = burst) (hrate : b.rate = rate) (hr : 0 ≤ rate)
    (htok : b.tokens ≤ b.max) (h1 : b.last ≤ now) (h2 : now ≤ now') :
    (b.allow now').2 = ((TB.new rate burst now').allow now').2 ∧
    (b.allow now').1.tokens = ((TB.new rate burst now').allow now').1.tokens ∧
    (b.allow now').1.last = ((TB.new rate burst now').allow now').1.last :=
  cleanup_invisible b rate burst now now' hfull hmax hrate hr htok h1 h2

/-- A request is refused only if one of the buckets consulted for it holds less than one token: a client
    within its own limits is never refused while the global budget has room. -/
theorem refused_only_if_some_bucket_empty (gf : Bool) (r : RL) (ip conn : String) (now : Nat)
    (h : (r.allowRequest gf ip conn now).2 = false) :
    (r.global.allow now).2 = false ∨ (r.perIP.allow ip now).2 = false ∨
    (r.perConnEnabled = true ∧ (r.perConn.allow conn now).2 = false) := by
  unfold RL.allowRequest at h
  cases gf
  · simp only [Bool.false_eq_true, if_false] at h
    by_cases hi : (r.perIP.allow ip now).2 = true
    · simp only [hi, Bool.not_true, Bool.false_eq_true, if_false] at h
      by_cases hc : r.perConnEnabled = true
      · simp only [hc, if_true] at h
        by_cases hcc : (r.perConn.allow conn now).2 = true
        · simp only [hcc, Bool.not_true, Bool.false_eq_true, if_false] at h
          exact Or.inl h
        · exact Or.inr (Or.inr ⟨hc, by simpa using hcc⟩)
      · simp only [hc, Bool.false_eq_true, if_false, Bool.not_true] at h
        exact Or.inl h
    · exact Or.inr (Or.inl (by simpa using hi))
  · simp only [if_true] at h
    by_cases hg : (r.global.allow now).2 = true
    · simp only [hg, Bool.not_true, Bool.false_eq_true, if_false] at h
      by_cases hi : (r.perIP.allow ip now).2 = true
      · simp only [hi, Bool.not_true, Bool.false_eq_true, if_false] at h
        by_cases hc : r.perConnEnabled = true
        · simp only [hc, if_true] at h
          exact Or.inr (Or.inr ⟨hc, h⟩)
        · simp only [hc, Bool.false_eq_true, if_false] at h
          exact absurd h (by decide)
      · exact Or.inr (Or.inl (by simpa using hi))
    · exact Or.inl (by simpa using hg)

/-! non-vacuity -/
example : Mono 0 [1000000000, 1500000000, 9000000000] := by simp [Mono]
example : ((TB.new (1/6) 2 0).run [0, 0, 0, 6000000000, 6000000001]).2 = 3 := by decide +kernel

end Props.C18
