/-
  C19 — Traffic refused to one client does not consume capacity shared with others.
-/
import Absnfs.Bucket
import Gen.Facts
open Absnfs Absnfs.Bucket

namespace Props.C19

/-- Regenerated: AllowRequest consults the client's own (per-IP, per-connection) buckets before the
    global one. -/
theorem gen_order : Gen.allowRequestGlobalFirst = false := by decide

abbrev allowRequest' := RL.allowRequest Gen.allowRequestGlobalFirst

/-- A request refused by its own per-IP or per-connection limit leaves the global bucket untouched. -/
theorem refused_by_own_limit_keeps_global (r : RL) (ip conn : String) (now : Nat)
    (h : (r.perIP.allow ip now).2 = false ∨
         (r.perConnEnabled = true ∧ (r.perConn.allow conn now).2 = false)) :
    (allowRequest' r ip conn now).1.global = r.global ∧ (allowRequest' r ip conn now).2 = false := by
  have hg : Gen.allowRequestGlobalFirst = false := by decide
  unfold allowRequest' RL.allowRequest
  rw [hg]
  simp only [Bool.false_eq_true, if_false]
  rcases h with h | ⟨hc, h⟩
  · simp [h]
  · by_cases hi : (r.perIP.allow ip now).2 = true
    · simp [hi, hc, h]
    · have : (r.perIP.allow ip now).2 = false := by simpa using hi
      simp [this]

/-- The global bucket is charged exactly by the requests that passed the client's own limits. -/
theorem global_charged_only_by_passing (r : RL) (ip conn : String) (now : Nat) :
    (allowRequest' r ip conn now).1.global = r.global ∨
    ((r.perIP.allow ip now).2 = true ∧ (allowRequest' r ip conn now).1.global = (r.global.allow now).1) := by
  have hg : Gen.allowRequestGlobalFirst = false := by decide
  unfold allowRequest' RL.allowRequest
  rw [hg]
  simp only [Bool.false_eq_true, if_false]
  by_cases hi : (r.perIP.allow ip now).2 = true
  · simp only [hi, Bool.not_true, Bool.false_eq_true, if_false]
    by_cases hc : r.perConnEnabled = true
    · by_cases hcc : (r.perConn.allow conn now).2 = true
      · right; simp [hc, hcc]
      · left; have : (r.perConn.allow conn now).2 = false := by simpa using hcc
        simp [hc, this]
    · right; simp [hc]
  · left
    have : (r.perIP.allow ip now).2 = false := by simpa using hi
    simp [this]

/-- However many requests an abusive client sends beyond its own limit, the global bucket does not move:
    along any sequence of requests each of which is refused by the sender's own per-IP limit in the state
    it arrives in, the global bucket stays exactly as it was. -/
inductive RefusedRun : RL → List (String × String × Nat) → RL → Prop
  | nil (r : RL) : RefusedRun r [] r
  | cons (r : RL) (ip conn : String) (now : Nat) (rest : List (String × String × Nat)) (r' : RL)
      (hown : (r.perIP.allow ip now).2 = false)
      (hrest : RefusedRun (allowRequest' r ip conn now).1 rest r') :
      RefusedRun r ((ip, conn, now) :: rest) r'

theorem abusive_stream_keeps_global (r r' : RL) (reqs : List (String × String × Nat))
    (h : RefusedRun r reqs r') : r'.global = r.global := by
  induction h with
  | nil r => rfl
  | cons r ip conn now rest r' hown _ ih =>
    rw [ih]
    exact (refused_by_own_limit_keeps_global r ip conn now (Or.inl hown)).1

/-- With the order in which the global bucket is consulted first the statement is false: one request
    refused by the per-IP limit still takes a global token. (Witness kept for the record; it is what the
    unrepaired code did.) -/
theorem global_first_counterexample :
    let r : RL := { global := TB.new 10 10 0, perIP := Keyed.new 1 1 1000000000000 0,
                    perConn := Keyed.new 1 1 1000000000000 0, perConnEnabled := false, perOp := [] }
    let r1 := (r.allowRequest true "a" "c" 0).1
    (r1.allowRequest true "a" "c" 0).2 = false ∧
    (r1.allowRequest true "a" "c" 0).1.global.tokens = 8 := by
  decide +kernel

/-- regenerated from the source on every run: the connection loop takes the client address for per-IP limiting from the peer address as reported (IP.String()) -/
theorem gen_conn_loop_client_ip : Gen.connLoopClientIPFromPeer = true := by decide

end Props.C19
