/-
  C21 — Attribute and directory caches behave as bounded TTL LRU maps.
  Statements are for both caches (parameter `hitAtEq`), every capacity, every clock value.
-/
import Absnfs.Lru
import Gen.Facts
open Absnfs Absnfs.Lru

namespace Props.C21

variable {V : Type}

/-- Regenerated facts: defaults applied by the constructors / Resize / UpdateTTL, and
    ConfigureNegativeCaching(false, …) purges the negative entries (as `configureNegative` models). -/
theorem gen_defaults :
    Gen.attrCacheDefaultSize = 10000 ∧ Gen.dirCacheDefaultEntries = 1000 ∧ Gen.attrResizeDefault = Gen.attrCacheDefaultSize ∧
    Gen.dirResizeDefault = Gen.dirCacheDefaultEntries ∧ Gen.dirUpdateTtlDefaultNs = Gen.dirTtlDefaultNs ∧
    0 < Gen.attrCacheDefaultSize ∧ 0 < Gen.dirCacheDefaultEntries := by decide

theorem gen_disable_purges : Gen.disableNegativePurges = true := by decide

/-- Every atomic action on a cache. `touch` / `expireRemove` are the second critical sections of Get,
    listed separately so that "every interleaving of concurrent operations" = "every sequence of these". -/
inductive Op (V : Type) where
  | put (now : Nat) (k : Bytes) (v : V)
  | putNegative (now : Nat) (k : Bytes)
  | get (now : Nat) (k : Bytes)
  | touch (k : Bytes)
  | expireRemove (now : Nat) (k : Bytes)
  | invalidate (k : Bytes)
  | invalidateNegativeInDir (d : Bytes)
  | invalidatePrefix (d : Bytes)
  | resize (n : Nat)           -- already defaulted, > 0
  | updateTTL (t : Nat)
  | configureNegative (en : Bool) (t : Int)
  | clear

def Op.WF : Op V → Prop
  | .resize n => 0 < n
  | _ => True

def step (c : Cache V) : Op V → Cache V
  | .put now k v => put c now k v
  | .putNegative now k => putNegative c now k
  | .get now k => (get c now k).1
  | .touch k => touch c k
  | .expireRemove now k => expireRemove c now k
  | .invalidate k => invalidate c k
  | .invalidateNegativeInDir d => invalidateNegativeInDir c d
  | .invalidatePrefix d => invalidatePrefix c d
  | .resize n => resize c n
  | .updateTTL t => updateTTL c t
  | .configureNegative en t => configureNegative c en t
  | .clear => clear c

/-- One-step preservation of "unique keys and at most `cap` entries". -/
theorem inv_step (c : Cache V) (op : Op V) (hw : op.WF) (hI : Inv c) : Inv (step c op) := by
  cases op with
  | put now k v => exact inv_put hI now k v
  | putNegative now k => exact inv_putNegative hI now k
  | get now k => exact inv_get hI now k
  | touch k => exact inv_touch hI k
  | expireRemove now k => exact inv_expireRemove hI now k
  | invalidate k => exact inv_removeKey hI k
  | invalidateNegativeInDir d => exact inv_filter hI _
  | invalidatePrefix d => exact inv_filter hI _
  | resize n => exact inv_resize hI n hw
  | updateTTL t => exact ⟨hI.nodup, hI.bounded, hI.capPos⟩
  | configureNegative en t => exact inv_configureNegative hI en t
  | clear => exact ⟨by simp [step, Lru.clear, keys], by simp [step, Lru.clear], hI.capPos⟩

/-- Capacity bound and key uniqueness hold after any sequence (hence any interleaving) of atomic actions. -/
theorem bounded_always (c : Cache V) (ops : List (Op V)) (hw : ∀ op ∈ ops, op.WF) (hI : Inv c) :
    Inv (ops.foldl step c) := by
  induction ops generalizing c with
  | nil => exact hI
  | cons op ops ih =>
    exact ih _ (fun o ho => hw o (List.mem_cons_of_mem _ ho)) (inv_step c op (hw op (List.mem_cons_self ..)) hI)

theorem lookup_cons (c : Cache V) (e : Entry V) (l : List (Entry V)) (k : Bytes) :
    lookup { c with entries := e :: l } k = if e.key = k then some e else l.find? (·.key == k) := by
  simp only [lookup, List.find?_cons]
  by_cases h : e.key = k
  · simp [h]
  · have : (e.key == k) = false := by simpa using h
    simp [h, this]

/-- A lookup right after a store returns the stored value while it has not expired … -/
theorem get_after_put (c : Cache V) (now now' : Nat) (k : Bytes) (v : V)
    (hfresh : if c.hitAtEq then now' ≤ now + c.ttl else now' < now + c.ttl) :
    getRead (put c now k v) now' k = .hit v := by
  have hl : lookup (put c now k v) k = some { key := k, val := some v, expireAt := now + c.ttl } := by
    simp only [put, putEntry]
    split <;> simp [lookup_cons]
  unfold getRead
  rw [hl]
  have hh : (put c now k v).hitAtEq = c.hitAtEq := by
    simp only [put, putEntry]; split <;> rfl
  simp only [fresh, hh]
  by_cases hq : c.hitAtEq = true
  · simp [hq] at hfresh ⊢; exact hfresh
  · simp [hq] at hfresh ⊢; exact hfresh

/-- The second critical section of a Get that found an expired entry — which may run after any number of other
    operations — removes the key only if the entry that is in the map THEN is strictly expired: a value stored in
    between with time to live is still there afterwards, so a later lookup hits it. (The two-phase structure of
    `AttrCache.Get` / `DirCache.Get`: decision under the read lock, removal under the write lock after a re-check of
    the current entry; the fifth campaign's C21 change re-checked the entry seen before the lock upgrade.) -/
theorem late_expiry_spares_a_fresh_value (c : Cache V) (now now' : Nat) (k : Bytes) (v : V)
    (hfresh : if c.hitAtEq then now' ≤ now + c.ttl else now' < now + c.ttl) :
    getRead (expireRemove (put c now k v) now' k) now' k = .hit v := by
  have hl : lookup (put c now k v) k = some { key := k, val := some v, expireAt := now + c.ttl } := by
    simp only [put, putEntry]
    split <;> simp [lookup_cons]
  have hnot : ¬ now' > now + c.ttl := by
    by_cases hq : c.hitAtEq = true
    · simp [hq] at hfresh; omega
    · simp [hq] at hfresh; omega
  have : expireRemove (put c now k v) now' k = put c now k v := by
    unfold expireRemove
    rw [hl]
    simp [hnot]
  rw [this]
  exact get_after_put c now now' k v hfresh

/-- … and nothing once it has expired (attribute cache: at or after expireAt; directory cache: after). -/
theorem get_expired (c : Cache V) (now : Nat) (k : Bytes) (e : Entry V) (hl : lookup c k = some e)
    (hexp : if c.hitAtEq then e.expireAt < now else e.expireAt ≤ now) :
    (Lru.get c now k).2 = .miss := by
  unfold Lru.get getRead
  rw [hl]
  have : fresh c now e = false := by
    unfold fresh
    by_cases hq : c.hitAtEq = true
    · simp [hq] at hexp ⊢; omega
    · simp [hq] at hexp ⊢; omega
  simp [this]

/-- An absent key is a miss, and a miss leaves an absent key absent. -/
theorem get_absent (c : Cache V) (now : Nat) (k : Bytes) (h : lookup c k = none) :
    Lru.get c now k = (c, .miss) := by
  simp [Lru.get, getRead, expireRemove, h]

/-- After an invalidation the key is gone (unique keys), other keys are untouched. -/
theorem invalidate_removes (c : Cache V) (k : Bytes) (hI : Inv c) : k ∉ keys (invalidate c k) := by
  simp only [invalidate, keys, keys_removeKey]
  intro h
  exact ((List.Nodup.mem_erase_iff hI.nodup).mp h).1 rfl

theorem invalidate_others (c : Cache V) (k k' : Bytes) (hne : k' ≠ k) (e : Entry V) (he : e ∈ c.entries)
    (hk : e.key = k') : e ∈ (invalidate c k).entries := by
  simp only [invalidate, removeKey]
  exact (List.mem_eraseP_of_neg (by simp [hk, hne])).mpr he

/-- Eviction removes the least recently used entry: storing a new key into a full cache drops exactly the
    last key of the recency order and puts the new key first. -/
theorem put_evicts_lru (c : Cache V) (now : Nat) (k : Bytes) (v : V)
    (hfull : c.entries.length = c.cap) (hnew : k ∉ keys c) :
    keys (put c now k v) = k :: (keys c).dropLast := by
  have hl : lookup c k = none := by
    unfold lookup
    apply List.find?_eq_none.mpr
    intro x hx
    simp
    intro hxk
    exact hnew (hxk ▸ List.mem_map_of_mem (f := (·.key)) hx)
  simp only [put, putEntry, hl, hfull, ge_iff_le, Nat.le_refl, if_true, keys, List.map_cons,
    List.map_dropLast]

/-- With room, nothing is evicted. -/
theorem put_no_evict (c : Cache V) (now : Nat) (k : Bytes) (v : V)
    (hroom : c.entries.length < c.cap) (hnew : k ∉ keys c) :
    keys (put c now k v) = k :: keys c := by
  have hl : lookup c k = none := by
    unfold lookup
    apply List.find?_eq_none.mpr
    intro x hx
    simp
    intro hxk
    exact hnew (hxk ▸ List.mem_map_of_mem (f := (·.key)) hx)
  have : ¬ c.entries.length ≥ c.cap := by omega
  simp only [put, putEntry, hl, this, if_false, keys, List.map_cons]

/-- Overwriting an existing key evicts nothing and makes it most recently used. -/
theorem put_existing (c : Cache V) (now : Nat) (k : Bytes) (v : V) (e : Entry V) (hl : lookup c k = some e) :
    keys (put c now k v) = k :: (keys c).erase k := by
  simp only [put, putEntry, hl, keys, List.map_cons, keys_removeKey]

/-- A hit makes the key most recently used and keeps every other key in order. -/
theorem hit_moves_to_front (c : Cache V) (k : Bytes) (e : Entry V) (hl : lookup c k = some e) :
    keys (touch c k) = k :: (keys c).erase k := by
  simp only [touch, hl, keys, List.map_cons, keys_removeKey, (lookup_some_mem hl).2]

/-- Directory invalidation removes exactly the negative entries that are direct children of the directory. -/
theorem invalidateNegativeInDir_exact (c : Cache V) (d : Bytes) (e : Entry V) :
    e ∈ (invalidateNegativeInDir c d).entries ↔
      e ∈ c.entries ∧ ¬ (e.val.isNone = true ∧ isChildOf e.key d = true) := by
  simp only [invalidateNegativeInDir, List.mem_filter, Bool.not_eq_true', Bool.and_eq_false_imp,
    and_congr_right_iff]
  intro _
  constructor
  · intro h ⟨h1, h2⟩
    simp [h1] at h
    rw [h] at h2; exact absurd h2 (by decide)
  · intro h
    by_cases h1 : e.val.isNone = true
    · simp [h1]
      by_cases h2 : isChildOf e.key d = true
      · exact absurd ⟨h1, h2⟩ h
      · simpa using h2
    · simp [h1]

/-- Negative entries exist only while negative caching is enabled: the invariant is preserved by every
    atomic action, and disabling establishes it. -/
theorem negInv_step (c : Cache V) (op : Op V) (h : NegInv c) : NegInv (step c op) := by
  cases op with
  | put now k v =>
    intro hd e he
    simp only [step, put] at he hd
    rw [putEntry_flag] at hd
    rcases putEntry_sub c _ e he with rfl | he
    · rfl
    · exact h hd e he
  | putNegative now k =>
    intro hd e he
    simp only [step, putNegative] at he hd
    by_cases hen : c.enableNeg = true
    · simp only [hen, if_true] at hd
      rw [putEntry_flag] at hd
      rw [hen] at hd; exact absurd hd (by decide)
    · simp only [hen] at he hd
      exact h (by simpa using hen) e he
  | get now k =>
    intro hd e he
    simp only [step] at he hd
    rw [get_flag] at hd
    exact h hd e (get_sub c now k e he)
  | touch k =>
    intro hd e he
    simp only [step] at he hd
    rw [touch_flag] at hd
    exact h hd e (touch_sub c k e he)
  | expireRemove now k =>
    intro hd e he
    simp only [step] at he hd
    rw [expireRemove_flag] at hd
    exact h hd e (expireRemove_sub c now k e he)
  | invalidate k => exact negInv_sub h _ (fun e he => List.mem_of_mem_eraseP he)
  | invalidateNegativeInDir d => exact negInv_sub h _ (fun e he => (List.mem_filter.mp he).1)
  | invalidatePrefix d => exact negInv_sub h _ (fun e he => (List.mem_filter.mp he).1)
  | resize n =>
    intro hd e he
    simp only [step, resize] at he hd
    split at he
    · rename_i heq
      simp only [heq, if_true] at hd
      exact h hd e he
    · rename_i hne
      simp only [hne, if_false] at hd
      exact h hd e (List.mem_of_mem_take he)
  | updateTTL t => exact fun hd e he => h hd e he
  | configureNegative en t =>
    intro hd e he
    simp only [step, configureNegative] at he hd
    cases en with
    | true => simp at hd
    | false =>
      simp only [Bool.false_eq_true, if_false] at he
      exact (List.mem_filter.mp he).2
  | clear => intro _ e he; simp [step, Lru.clear] at he

theorem negative_only_while_enabled (c : Cache V) (ops : List (Op V)) (h : NegInv c) :
    NegInv (ops.foldl step c) := by
  induction ops generalizing c with
  | nil => exact h
  | cons op ops ih => exact ih _ (negInv_step c op h)

/-- A negative store is a no-op while negative caching is disabled. -/
theorem putNegative_disabled (c : Cache V) (now : Nat) (k : Bytes) (h : c.enableNeg = false) :
    putNegative c now k = c := by simp [putNegative, h]

/-- isChildOf is "directory plus exactly one more component". -/
example : isChildOf [47, 97] [47] = true ∧ isChildOf [47, 97, 47, 98] [47] = false ∧
    isChildOf [47, 97, 47, 98] [47, 97] = true ∧ isChildOf [47, 97, 98] [47, 97] = false ∧
    isChildOf [47, 97] [47, 97] = false ∧ isChildOf [47] [47] = false ∧
    isChildOf [47, 97, 47] [47, 97] = false ∧ isChildOf [47, 97, 47, 98, 47, 99] [47, 97] = false := by
  decide

/-! non-vacuity: a concrete attribute cache of capacity 2 -/
def c0 : Cache Nat := { entries := [], cap := 2, ttl := 5, negTtl := 3, enableNeg := true, hitAtEq := false }
example : Inv c0 := ⟨by simp [c0, keys], by simp [c0], by simp [c0]⟩
example : keys (put (put (put c0 0 [1] 10) 1 [2] 20) 2 [3] 30) = [[3], [2]] := by decide
example : (Lru.get (put c0 0 [1] 10) 4 [1]).2 = .hit 10 ∧ (Lru.get (put c0 0 [1] 10) 5 [1]).2 = .miss := by decide

end Props.C21
