/-
  C03 — CREATE never destroys or silently reuses an existing file.
  Statements about `procCreate` of the Lean server model for every create mode, every kind of existing object,
  every sattr3 and verifier, in every state. "Untouched" is equality of the whole backing filesystem.
  The EXCLUSIVE statement is the one the code can meet: NFS3_OK over an existing object is given only when
  the verifier table accepts the verifier — the creating verifier for a path this server created
  exclusively, and (known finding C03/exclusive-over-foreign-object, pinned by the repository's tests) any
  verifier for a path without a record.
-/
import Absnfs.ServerCreate
import Gen.Facts
open Absnfs Absnfs.Server

namespace Props.C03

theorem gen_lookup_first : Gen.createLooksUpFirst = true := by decide

/-- every well-formed CREATE of a taken name is decided by `createExisting` on an unchanged filesystem -/
theorem create_of_taken_name (s : St) (c : Ctx) (args : Bytes) (h : Nat) (r1 r2 r3 name : Bytes) (how : Nat) (sa : Sattr3)
    (verf : Bytes) (n : Node) (s1 : St) (pre : Attrs) (info : Fs.Info)
    (hro : s.cfg.readOnly = false) (hfh : decFh' s args = some (h, r1)) (hname : decStr s r1 = some (name, r2))
    (hvalid : validateFilename name = 0) (hhow : decU32 r2 = some (how, r3))
    (hparse : parseCreateHow how r3 = some (sa, verf)) (hmode : validateMode (sa.mode.getD 0o644) = 0)
    (hn : nodeOf s h = some n) (hpre : getAttr s c.now n = (s1, .ok pre))
    (hlstat : Fs.lstat s1.fs (fsPath (joinName n.path name)) = .ok info) :
    procCreate s c args = createExisting s1 c n pre (joinName n.path name) info how sa verf ∧ s1.fs = s.fs :=
  ⟨procCreate_taken s c args h r1 r2 r3 name how sa verf n s1 pre info hro hfh hname hvalid hhow hparse hmode hn hpre hlstat,
   by have := getAttr_fs s c.now n; rw [hpre] at this; exact this⟩

/-- GUARDED over anything that exists, any mode over a directory or symlink, EXCLUSIVE with a verifier the
    table refuses: NFS3ERR_EXIST and the backing filesystem is untouched. -/
theorem guarded_or_nonregular_or_foreign_verifier_exist (s1 : St) (c : Ctx) (n : Node) (pre : Attrs) (p : Bytes)
    (info : Fs.Info) (how : Nat) (sa : Sattr3) (verf : Bytes)
    (h : how = 1 ∨ info.kind ≠ .file ∨ (how = 2 ∧ sameExclusive s1 p verf = false)) :
    outStatus (createExisting s1 c n pre p info how sa verf).2 = some 17 ∧
    (createExisting s1 c n pre p info how sa verf).1.fs = s1.fs :=
  createExisting_exist s1 c n pre p info how sa verf h

/-- No create mode touches anything unless the request sets a size: EXCLUSIVE never does, UNCHECKED and GUARDED
    without sattr3.size never do — whatever the reply. -/
theorem no_size_no_change (s1 : St) (c : Ctx) (n : Node) (pre : Attrs) (p : Bytes) (info : Fs.Info) (how : Nat)
    (sa : Sattr3) (verf : Bytes) (h : how = 2 ∨ sa.size = none) :
    (createExisting s1 c n pre p info how sa verf).1.fs = s1.fs :=
  createExisting_untouched s1 c n pre p info how sa verf h

/-- With an explicit size the only possible effect is cutting / zero-extending that one file to that size. -/
theorem explicit_size_only_truncates (s1 : St) (c : Ctx) (n : Node) (pre : Attrs) (p : Bytes) (info : Fs.Info)
    (how : Nat) (sa : Sattr3) (verf : Bytes) (sz : Nat) (hsz : sa.size = some sz) :
    (createExisting s1 c n pre p info how sa verf).1.fs = s1.fs ∨
    ∃ q e, Fs.follow s1.fs (fsPath p) = (q, .ok e) ∧ e.kind ≠ .dir ∧
      (createExisting s1 c n pre p info how sa verf).1.fs = Fs.set s1.fs q { e with data := Fs.truncBytes e.data sz } := by
  rcases createExisting_size s1 c n pre p info how sa verf sz hsz with h | h
  · exact .inl h
  · exact .inr (truncate_ok h)

/-- EXCLUSIVE over an existing object succeeds only for a regular file whose recorded creating verifier (if
    any) is this one. -/
theorem exclusive_ok_only_if_accepted (s1 : St) (c : Ctx) (n : Node) (pre : Attrs) (p : Bytes) (info : Fs.Info)
    (sa : Sattr3) (verf : Bytes) (h : outStatus (createExisting s1 c n pre p info 2 sa verf).2 = some 0) :
    info.kind = .file ∧ sameExclusive s1 p verf = true :=
  createExisting_exclusive_ok s1 c n pre p info sa verf h

/-- After this server created `p` exclusively with `verf`, the table accepts `v2` for `p` iff `v2 = verf`. -/
theorem table_accepts_only_creator (s : St) (p verf v2 : Bytes) :
    sameExclusive (rememberExclusive s p verf) p v2 = (verf == v2) :=
  sameExclusive_after_remember s p verf v2

/-- KNOWN FINDING (exclusive-over-foreign-object): without a record the table accepts every verifier. -/
theorem foreign_object_accepted (s : St) (p verf : Bytes) (h : s.excl.find? (·.1 == p) = none) :
    sameExclusive s p verf = true := by
  unfold sameExclusive; rw [h]


end Props.C03

namespace Props.C03
open Absnfs Absnfs.Server

/-! non-vacuity: a concrete server state with the file /t (3 bytes) and a handle for "/" -/
def exCfg : Cfg :=
  { transfer := 65536, readOnly := false, maxFileSize := 0, squash := .none, maxStr := 8192, fhMax := 64,
    defaultMaxHandles := 100000, evictDivisor := 10, dcMaxDirSize := 10000, maxRecord := 1048576, writeVerf := [0,0,0,0,0,0,0,1] }
def exFs : Fs.T :=
  { ents := [([], ⟨.dir, 0o755, 0, 0, [], 1⟩), ([[116]], ⟨.file, 0o644, 0, 0, [1, 2, 3], 2⟩)], nextIno := 3, maxSize := 67108864 }
def exSt : St :=
  { fs := exFs, hs := { live := [(1, [47])], free := [], next := 2, maxRaw := 0 }, nodes := [(1, ⟨.dir, 0o755, 0, 0, 0, 0⟩)],
    ac := { entries := [], cap := 10, ttl := 5000000000, negTtl := 5000000000, enableNeg := false, hitAtEq := false },
    dc := none, excl := [], cfg := exCfg }
def exCtx : Ctx := { now := 1000, uid := 0, gid := 0, aux := [] }
/-- CREATE(dir = handle 1, name = "t", GUARDED, empty sattr3) -/
def exArgsGuarded : Bytes := encFh 1 ++ encOpaque [116] ++ encU32 1 ++ encSattr3 {}
/-- CREATE(dir = handle 1, name = "t", UNCHECKED, empty sattr3) -/
def exArgsUnchecked : Bytes := encFh 1 ++ encOpaque [116] ++ encU32 0 ++ encSattr3 {}

example : outStatus (procCreate exSt exCtx exArgsGuarded).2 = some 17 ∧ (procCreate exSt exCtx exArgsGuarded).1.fs.ents = exFs.ents := by
  decide +kernel
example : outStatus (procCreate exSt exCtx exArgsUnchecked).2 = some 0 ∧ (procCreate exSt exCtx exArgsUnchecked).1.fs.ents = exFs.ents := by
  decide +kernel

end Props.C03
