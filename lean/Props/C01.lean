/-
  C01 — File data read back through the server equals the data written.
  The byte-array model of a file is the `data : List UInt8` of its entry in the backing filesystem model, with
  `writeBytes` (WriteAt), `truncBytes` (Truncate) and `slice` (ReadAt). Holes read as zeros by
  `writeBytes_getD` / `truncBytes_getD`. The statements are about `procRead` / `procWrite` of the Lean server model
  for every state, every argument byte string and every cache setting (the caches are part of the state and
  do not appear in the conclusions).
-/
import Absnfs.BytesSpec
import Absnfs.ServerData
import Absnfs.ServerData2
import Absnfs.ServerData3
import Absnfs.ServerCreate
import Absnfs.ServerReadOnly
import Gen.Facts
open Absnfs Absnfs.Server

namespace Props.C01

/-- READ: count = min(requested, transfer size, size − offset); the bytes are the file's bytes at that offset;
    eof exactly when offset + count reaches the size; the reply's attributes report that size. -/
theorem read_returns_model_bytes (s s' : St) (c : Ctx) (args : Bytes) (o : Option Rfc.Fattr) (cntR : Nat) (eof : Bool)
    (data : Bytes) (h : procRead s c args = (s', .res ⟨0, .readOk o cntR eof data⟩)) :
    ∃ (hd off cnt : Nat) (r1 r2 r3 : Bytes) (n : Node) (q : Fs.Path) (e : Fs.Entry),
      decFh' s args = some (hd, r1) ∧ decU64 r1 = some (off, r2) ∧ decU32 r2 = some (cnt, r3) ∧
      nodeOf s hd = some n ∧ Fs.openRead s.fs (fsPath n.path) = .ok (q, e) ∧
      cntR = data.length ∧
      data.length = min (min cnt s.cfg.transfer) ((Fs.infoOf e).size - off) ∧
      (e.kind ≠ .dir → ∀ i, i < data.length → data.getD i 0 = e.data.getD (off + i) 0) ∧
      (∀ e', Fs.walk s.fs (fsPath n.path) = .ok e' → e'.kind = .file →
        e' = e ∧ eof = decide (off + cntR ≥ e.data.length) ∧
        ∃ a, o = some a ∧ a.size = e.data.length ∧ a.ftype = 1) :=
  read_spec s args cntR eof data o (procRead_ok s s' c args o cntR eof data h)

/-- READ never changes the file. -/
theorem read_changes_nothing (s : St) (c : Ctx) (args : Bytes) : (procRead s c args).1.fs = s.fs :=
  procRead_fs s c args

/-- WRITE replying NFS3_OK with count k: k is the payload length, committed is FILE_SYNC with this instance's
    verifier, and the backend file is the old contents with exactly the payload stored at the offset
    (`writeBytes`: zero-filled hole, overwrite, tail kept); nothing else in the filesystem changes. -/
theorem write_stores_payload (s s' : St) (c : Ctx) (args : Bytes) (w : Rfc.Wcc) (k com : Nat) (verf : Bytes)
    (h : procWrite s c args = (s', .res ⟨0, .writeOk w k com verf⟩)) :
    ∃ (hd off cnt : Nat) (data : Bytes) (n : Node) (q : Fs.Path) (e : Fs.Entry),
      nodeOf s hd = some n ∧ data.length = cnt ∧ k = cnt ∧ com = 2 ∧ verf = s.cfg.writeVerf ∧
      Fs.follow s.fs (fsPath n.path) = (q, .ok e) ∧ e.kind ≠ .dir ∧
      (data = [] → s'.fs = s.fs) ∧
      (data ≠ [] → s'.fs = Fs.set s.fs q { e with data := Fs.writeBytes e.data off data }) := by
  obtain ⟨hd, off, cnt, stable, dlen, r1, r2, r3, r4, r5, rest, data, n, fs1, _, _, _, _, _, htake, _, _, _, _, hn, hwa, hfs, hcom, hverf⟩ :=
    (procWrite_ok s s' c args w k com verf h).ex
  obtain ⟨hk, q, e, hfol, hkind, hempty, hne⟩ := writeAt_ok hwa
  have hlen : data.length = cnt := (take?_some htake).2
  refine ⟨hd, off, cnt, data, n, q, e, hn, hlen, by rw [hk, hlen], hcom, hverf, hfol, hkind, ?_, ?_⟩
  · intro hd0; rw [hfs]; exact hempty hd0
  · intro hd0; rw [hfs]; exact hne hd0

/-- the byte at every position after a write: the payload inside the written range, the old byte elsewhere,
    zero in a hole -/
theorem bytes_after_write (d : Bytes) (off : Nat) (w : Bytes) (i : Nat) (hw : w ≠ []) :
    (Fs.writeBytes d off w).getD i 0 = if off ≤ i ∧ i < off + w.length then w.getD (i - off) 0 else d.getD i 0 :=
  Fs.writeBytes_getD d off w i hw

theorem size_after_write (d : Bytes) (off : Nat) (w : Bytes) (hw : w ≠ []) :
    (Fs.writeBytes d off w).length = max d.length (off + w.length) := Fs.writeBytes_length d off w hw

/-- SETATTR(size) / CREATE(size) go through Truncate: cut, or extended with zeros -/
theorem bytes_after_truncate (d : Bytes) (n i : Nat) :
    (Fs.truncBytes d n).getD i 0 = if i < n then d.getD i 0 else 0 := Fs.truncBytes_getD d n i

theorem size_after_truncate (d : Bytes) (n : Nat) : (Fs.truncBytes d n).length = n := Fs.truncBytes_length d n

/-- The property's headline, end to end over the two handlers, in every state satisfying the server invariant
    (hence after every history, under every cache setting): a WRITE acknowledged with count k > 0, then a READ of
    the same handle, offset and count — from any caller, at any later time with nothing in between — returns
    exactly the payload bytes the WRITE request carried, and reports their number. -/
theorem read_after_write (s s1 s2 : St) (c c' : Ctx) (wargs rargs : Bytes) (w : Rfc.Wcc) (k com : Nat) (verf : Bytes)
    (o : Option Rfc.Fattr) (cntR : Nat) (eof : Bool) (rdata : Bytes) (hinv : CInv s)
    (hw : procWrite s c wargs = (s1, .res ⟨0, .writeOk w k com verf⟩))
    (hr : procRead s1 c' rargs = (s2, .res ⟨0, .readOk o cntR eof rdata⟩))
    (hd off : Nat) (w1 w2 q1 q2 q3 : Bytes)
    (hw1 : decFh' s wargs = some (hd, w1)) (hw2 : decU64 w1 = some (off, w2))
    (hr1 : decFh' s1 rargs = some (hd, q1)) (hr2 : decU64 q1 = some (off, q2)) (hr3 : decU32 q2 = some (k, q3))
    (hk : 0 < k) :
    ∀ (cnt stable dlen : Nat) (r3 r4 r5 rest data : Bytes), decU32 w2 = some (cnt, r3) → decU32 r3 = some (stable, r4) →
      decU32 r4 = some (dlen, r5) → take? cnt r5 = some (data, rest) → rdata = data ∧ cntR = data.length :=
  Server.read_after_write s s1 s2 c c' wargs rargs w k com verf o cntR eof rdata hinv hw hr hd off w1 w2 q1 q2 q3 hw1 hw2 hr1 hr2 hr3 hk

/-- SETATTR at handler level: an NFS3_OK reply to a SETATTR with an explicit size means the object the handle
    names now holds its old bytes cut or zero-extended to that size, and no other object's contents changed —
    whatever mode, owner and time fields the request also carried; a SETATTR without a size changes no contents. -/
theorem setattr_size_truncates (s s' : St) (c : Ctx) (args : Bytes) (body : Rfc.Body)
    (heq : procSetattr s c args = (s', .res ⟨0, body⟩)) :
    ∃ (hd : Nat) (r1 r2 : Bytes) (sa : Sattr3) (n : Node), decFh' s args = some (hd, r1) ∧ decSattr3 r1 = some (sa, r2) ∧
      nodeOf s hd = some n ∧
      (sa.size = none → ∀ q, Fs.contentAt s'.fs q = Fs.contentAt s.fs q) ∧
      (∀ sz, sa.size = some sz → ∃ q0 e0, Fs.follow s.fs (fsPath n.path) = (q0, .ok e0) ∧
        ∀ q, Fs.contentAt s'.fs q = if q = q0 then some (e0.kind, Fs.truncBytes e0.data sz) else Fs.contentAt s.fs q) :=
  procSetattr_content s s' c args body heq

/-- CREATE over an existing file without an explicit size leaves its bytes alone (C03's theorem, restated for data) -/
theorem create_keeps_data (s1 : St) (c : Ctx) (n : Node) (pre : Attrs) (p : Bytes) (info : Fs.Info) (how : Nat)
    (sa : Sattr3) (verf : Bytes) (h : how = 2 ∨ sa.size = none) :
    (createExisting s1 c n pre p info how sa verf).1.fs = s1.fs :=
  createExisting_untouched s1 c n pre p info how sa verf h

/-- a SETATTR carrying a guard (a ctime the object does not have) changes nothing — not the size either — and is not
    answered NFS3_OK, whatever else the request asks for -/
theorem guarded_setattr_changes_nothing (s : St) (c : Ctx) (args : Bytes) (h : Nat) (r1 r2 r3 : Bytes) (sa : Sattr3) (guard : Nat)
    (h1 : decFh' s args = some (h, r1)) (h2 : decSattr3 r1 = some (sa, r2)) (h3 : decU32 r2 = some (guard, r3))
    (hg : guard ≠ 0) :
    (procSetattr s c args).1.fs = s.fs ∧ ∃ st b, (procSetattr s c args).2 = res st b ∧ st ≠ 0 :=
  procSetattr_guarded s c args h r1 r2 r3 sa guard h1 h2 h3 hg

/-- READ and WRITE refuse a range only when offset + count leaves the 64-bit range (the model's `off + cnt ≥ u64Max`
    test); a range that passes 2^63-1 from a valid offset is "beyond EOF" (regenerated from handleRead / handleWrite) -/
theorem gen_range_guards : (Gen.readRangeGuardIsUint64 && Gen.writeRangeGuardIsUint64) = true := by decide

/-- The byte-array model of the property as a specification (a size and a byte at every position), and the
    refinement for every history of WriteAt / Truncate calls, of any length: the backend model's bytes stand for
    exactly what the specification computes -/
theorem file_refines_byte_array_spec (d : Bytes) (ops : List Fs.FileOp) :
    Fs.absBytes (ops.foldl Fs.applyFileOp d) = ops.foldl Fs.Spec.step (Fs.absBytes d) := Fs.absBytes_run d ops

/-- READ's data is determined by the specification: min(count, size - offset) bytes, byte i = spec byte offset+i -/
theorem read_data_from_spec (d : Bytes) (off cnt : Nat) :
    (Fs.slice d off cnt).length = min cnt ((Fs.absBytes d).size - off) ∧
    ∀ i, i < cnt → (Fs.slice d off cnt).getD i 0 = (Fs.absBytes d).byte (off + i) := Fs.slice_from_spec d off cnt

/-- nothing is lost in the abstraction: byte strings that stand for the same specification file are equal -/
theorem spec_determines_bytes {a b : Bytes} (h : Fs.absBytes a = Fs.absBytes b) : a = b := Fs.absBytes_injective h

/-- holes are zeros: a write beyond the old end leaves zeros between the old end and its offset -/
theorem hole_reads_zero (d : Bytes) (off : Nat) (w : Bytes) (hw : w ≠ []) (i : Nat) (h1 : d.length ≤ i) (h2 : i < off) :
    (Fs.writeBytes d off w).getD i 0 = 0 := Fs.hole_reads_zero d off w hw i h1 h2

/-- overlapping writes: the later payload decides its whole range, the earlier one keeps what lies outside it -/
theorem overlapping_writes (d : Bytes) (o1 o2 : Nat) (w1 w2 : Bytes) (h1 : w1 ≠ []) (h2 : w2 ≠ []) (i : Nat) :
    (Fs.writeBytes (Fs.writeBytes d o1 w1) o2 w2).getD i 0 =
      if o2 ≤ i ∧ i < o2 + w2.length then w2.getD (i - o2) 0
      else if o1 ≤ i ∧ i < o1 + w1.length then w1.getD (i - o1) 0 else d.getD i 0 := by
  rw [Fs.writeBytes_getD _ _ _ _ h2, Fs.writeBytes_getD _ _ _ _ h1]

/-- non-vacuity: sparse write, overlapping write, cut, extension -/
example : [Fs.FileOp.write 3 [7, 8], .write 4 [9, 9], .trunc 5, .trunc 7].foldl Fs.applyFileOp [1] = [1, 0, 0, 7, 9, 0, 0] := by
  decide

end Props.C01
