/-
  C20 — Worker pool: bounded concurrency and every accepted task resolved exactly once.
  "Every interleaving" = every path of the transition system `Pool.Step` (any number of tasks, any pool size).
  PARTIAL in one respect: Go's real `select` and goroutine scheduling are represented by the nondeterminism
  of `Step`; fairness is not assumed — the resolution theorem is "the pool can always move until every
  accepted task is resolved, and it cannot move forever".
-/
import Absnfs.PoolInv
import Gen.Facts
open Absnfs Absnfs.Pool

namespace Props.C20

/-- Regenerated: Stop closes the result channels of tasks still queued after the workers returned, and
    Resize never sends a nil "result" to a submitter (it closes the channel instead). -/
theorem gen_stop_drains : Gen.poolStopDrains = true := by decide
theorem gen_resize_closes : Gen.poolResizeSendsNil = false := by decide

abbrev Step' := Step Gen.poolStopDrains
abbrev Reach' := Reach Gen.poolStopDrains

/-- Tasks never run concurrently beyond the pool size. -/
theorem bounded_concurrency (n : Nat) (s : St) (h : Reach' n s) : (busy s).length ≤ n := by
  have hI := inv_reach n _ s h
  rw [← hI.size]
  exact List.length_filterMap_le _ _

/-- Every execution is of an accepted task, no task is executed twice, and a task is never both executed
    and reported as not executed. -/
theorem executed_at_most_once (n : Nat) (s : St) (h : Reach' n s) :
    s.executed.Nodup ∧ (∀ t ∈ s.executed, t ∈ s.accepted ∧ t ∉ s.told ∧ t ∉ s.queue) := by
  have hI := inv_reach n _ s h
  have hnd : (s.queue ++ (busy s ++ (s.executed ++ s.told))).Nodup := hI.perm.nodup_iff.mpr hI.nodup
  have h1 := (List.nodup_append.mp hnd)
  have h2 := (List.nodup_append.mp h1.2.1)
  have h3 := (List.nodup_append.mp h2.2.1)
  refine ⟨h3.1, ?_⟩
  intro t ht
  refine ⟨hI.perm.subset (by simp [ht]), ?_, ?_⟩
  · intro htold; exact h3.2.2 t ht t htold rfl
  · intro hq; exact h1.2.2 t hq t (by simp [ht]) rfl

/-- a task that was accepted and is neither executed nor reported is still in the queue or on a worker -/
theorem unresolved_is_pending (n : Nat) (s : St) (h : Reach' n s) (t : Nat) (ha : t ∈ s.accepted)
    (he : t ∉ s.executed) (ht : t ∉ s.told) : t ∈ s.queue ∨ t ∈ busy s := by
  have hI := inv_reach n _ s h
  have := hI.perm.symm.subset ha
  simp only [List.mem_append] at this
  rcases this with h1 | h1 | h1 | h1
  · exact Or.inl h1
  · exact Or.inr h1
  · exact absurd h1 he
  · exact absurd h1 ht

/-- Progress: while some accepted task is unresolved the pool itself (no new Submit, no new Stop call) can
    take a step — no submitter can be left waiting in a state where nothing can happen any more. -/
theorem progress (n : Nat) (hn : 0 < n) (s : St) (h : Reach' n s) (t : Nat) (ha : t ∈ s.accepted)
    (he : t ∉ s.executed) (ht : t ∉ s.told) : ∃ s', Internal Gen.poolStopDrains s s' := by
  have hd : Gen.poolStopDrains = true := by decide
  have hI := inv_reach n _ s h
  have fin_of_busy : ∀ u, u ∈ busy s → ∃ s', Internal Gen.poolStopDrains s s' := by
    intro u hu
    simp only [busy, List.mem_filterMap] at hu
    obtain ⟨w, hw, hwt⟩ := hu
    have hex : w.exited = false := by
      cases hx : w.exited with
      | false => rfl
      | true => have := hI.exitedIdle w hw hx; rw [this] at hwt; simp at hwt
    obtain ⟨i, hi⟩ := List.getElem?_of_mem hw
    have hw' : w = ⟨some u, false⟩ := by cases w; simp_all
    exact ⟨_, Step.finish s i u (by rw [hi, hw']), rfl, rfl⟩
  rcases unresolved_is_pending n s h t ha he ht with hq | hb
  · by_cases hidle : (⟨none, false⟩ : Worker) ∈ s.workers
    · obtain ⟨i, hi⟩ := List.getElem?_of_mem hidle
      cases hqq : s.queue with
      | nil => rw [hqq] at hq; simp at hq
      | cons q rest => exact ⟨_, Step.take s i q rest hi hqq, rfl, rfl⟩
    · by_cases hbusy : busy s = []
      · -- nobody idle, nobody busy: every worker has exited
        have hall : ∀ w ∈ s.workers, w.exited = true := by
          intro w hw
          cases hx : w.exited with
          | true => rfl
          | false =>
            exfalso
            cases hwt : w.task with
            | none => apply hidle; have : w = ⟨none, false⟩ := by cases w; simp_all
                      rw [← this]; exact hw
            | some u =>
              have : u ∈ busy s := by
                simp only [busy, List.mem_filterMap]; exact ⟨w, hw, hwt⟩
              rw [hbusy] at this; simp at this
        have hne : s.workers ≠ [] := by
          intro h0; have := hI.size; rw [h0] at this; simp at this; omega
        obtain ⟨w, hw⟩ := List.exists_mem_of_ne_nil _ hne
        have hwhy := hI.exitedWhy ⟨w, hw, hall w hw⟩
        by_cases hc : s.closed = true
        · by_cases hst : s.stopped = true
          · have := (hI.stoppedAll hst).2.2 hd
            rw [this] at hq; simp at hq
          · refine ⟨_, Step.stopDone s hc (by simpa using hst) hall, ?_, ?_⟩
            · rw [hd]; rfl
            · rw [hd]; rfl
        · have hcd : s.ctxDone = true := by
            rcases hwhy with h1 | h1
            · exact h1
            · exact absurd h1 hc
          exact ⟨_, Step.stopClose s (hI.doneNotRunning hcd) hcd (by simpa using hc), rfl, rfl⟩
      · obtain ⟨u, hu⟩ := List.exists_mem_of_ne_nil _ hbusy
        exact fin_of_busy u hu
  · exact fin_of_busy t hb

/-- the pool cannot move forever on its own: every internal step strictly decreases this measure -/
def measure (s : St) : Nat :=
  2 * s.queue.length + (busy s).length + (alive s).length +
  (!s.closed).toNat + (!s.stopped).toNat

theorem internal_decreases (n : Nat) (s s' : St) (hr : Reach' n s) (h : Internal Gen.poolStopDrains s s') :
    measure s' < measure s := by
  have hd : Gen.poolStopDrains = true := by decide
  obtain ⟨hs, hacc, hrun⟩ := h
  cases hs with
  | submit t _ _ _ _ => simp at hacc
  | take i t rest hi hq =>
    obtain ⟨a, b, h1, h2⟩ := split_at hi (⟨some t, false⟩ : Worker)
    simp only [measure, busy, alive, setWorker, hq]
    rw [h2, h1]
    simp only [List.filterMap_append, List.filter_append, List.filterMap_cons, List.filter_cons,
      List.length_append, List.length_cons, Bool.not_false, if_true]
    omega
  | finish i t hi =>
    obtain ⟨a, b, h1, h2⟩ := split_at hi (⟨none, false⟩ : Worker)
    simp only [measure, busy, alive, setWorker]
    rw [h2, h1]
    simp only [List.filterMap_append, List.filter_append, List.filterMap_cons, List.filter_cons,
      List.length_append, List.length_cons, Bool.not_false, if_true]
    omega
  | exitCtx i hi _ =>
    obtain ⟨a, b, h1, h2⟩ := split_at hi (⟨none, true⟩ : Worker)
    simp only [measure, busy, alive, setWorker]
    rw [h2, h1]
    simp only [List.filterMap_append, List.filter_append, List.filterMap_cons, List.filter_cons,
      List.length_append, List.length_cons, Bool.not_false, Bool.not_true, if_true, if_false,
      Bool.false_eq_true]
    omega
  | exitClosed i hi _ _ =>
    obtain ⟨a, b, h1, h2⟩ := split_at hi (⟨none, true⟩ : Worker)
    simp only [measure, busy, alive, setWorker]
    rw [h2, h1]
    simp only [List.filterMap_append, List.filter_append, List.filterMap_cons, List.filter_cons,
      List.length_append, List.length_cons, Bool.not_false, Bool.not_true, if_true, if_false,
      Bool.false_eq_true]
    omega
  | stopBegin hr' => simp [hr'] at hrun
  | stopClose _ _ hc =>
    simp only [measure, busy, alive, hc, Bool.not_false, Bool.not_true, Bool.toNat_true, Bool.toNat_false]
    omega
  | stopDone hc hst _ =>
    rw [hd]
    simp only [if_true, measure, busy, alive, hst, List.length_nil, Bool.not_false, Bool.not_true,
      Bool.toNat_true, Bool.toNat_false]
    omega

/-- When the pool has come to rest (no internal step is possible) every accepted task has been executed
    exactly once with its result delivered, or its submitter has been told it was not executed. -/
theorem at_rest_all_resolved (n : Nat) (hn : 0 < n) (s : St) (h : Reach' n s)
    (hrest : ∀ s', ¬ Internal Gen.poolStopDrains s s') :
    ∀ t ∈ s.accepted, (t ∈ s.executed ∧ t ∉ s.told) ∨ (t ∈ s.told ∧ t ∉ s.executed) := by
  intro t ha
  by_cases he : t ∈ s.executed
  · exact Or.inl ⟨he, ((executed_at_most_once n s h).2 t he).2.1⟩
  · by_cases ht : t ∈ s.told
    · exact Or.inr ⟨ht, he⟩
    · obtain ⟨s', hs'⟩ := progress n hn s h t ha he ht
      exact absurd hs' (hrest s')

/-- KNOWN DEFECT OF THE UNREPAIRED CODE, kept as a theorem: if Stop does not drain, a task accepted just
    before Stop can be left in the closed queue with every worker gone — its submitter waits forever. -/
theorem no_drain_counterexample :
    ∃ s, Reach false 1 s ∧ 1 ∈ s.accepted ∧ 1 ∉ s.executed ∧ 1 ∉ s.told ∧ s.stopped = true ∧
      (∀ w ∈ s.workers, w.exited = true) ∧ s.queue = [1] := by
  let s0 := init 1
  have r0 : Reach false 1 s0 := Reach.init
  let s1 : St := { s0 with queue := s0.queue ++ [1], accepted := 1 :: s0.accepted }
  have r1 : Reach false 1 s1 := Reach.step s0 s1 r0 (Step.submit s0 1 rfl rfl (by decide) (by simp [s0, init]))
  let s2 : St := { s1 with running := false, ctxDone := true }
  have r2 : Reach false 1 s2 := Reach.step s1 s2 r1 (Step.stopBegin s1 rfl)
  let s3 : St := setWorker s2 0 ⟨none, true⟩
  have r3 : Reach false 1 s3 := Reach.step s2 s3 r2 (Step.exitCtx s2 0 rfl rfl)
  let s4 : St := { s3 with closed := true }
  have r4 : Reach false 1 s4 := Reach.step s3 s4 r3 (Step.stopClose s3 rfl rfl rfl)
  let s5 : St := { s4 with stopped := true }
  have r5 : Reach false 1 s5 := by
    have := Reach.step s4 _ r4 (Step.stopDone (drains := false) s4 rfl rfl (by decide))
    simpa using this
  exact ⟨s5, r5, by decide, by decide, by decide, rfl, by decide, rfl⟩

/-- regenerated from the source on every run: Resize records the new size before it starts the workers again (the model's pool has the new size after a resize) -/
theorem gen_resize_sets_size_first : Gen.resizeSetsSizeBeforeStart = true := by decide

end Props.C20
