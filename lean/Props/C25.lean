/-
  C25 — MaxFileSize is enforced.
  For every positive MaxFileSize (the policy field the handlers load per request, so set at construction or at
  runtime alike) and every offset, count and size.
-/
import Absnfs.BytesSpec
import Absnfs.ServerLimits
import Gen.Facts
open Absnfs Absnfs.Server

namespace Props.C25

theorem gen_guards : (Gen.writeChecksMaxFileSize && Gen.setattrChecksMaxFileSize && Gen.createChecksMaxFileSize) = true := by decide

/-- the limit test: positive limit and size beyond it -/
theorem limit_test (c : Cfg) (size : Nat) : exceedsMax c size = true ↔ (c.maxFileSize > 0 ∧ (size : Int) > c.maxFileSize) := by
  simp [exceedsMax]

/-- WRITE ending beyond the limit: NFS3ERR_FBIG, the state (so the file) is exactly as before. -/
theorem write_beyond_limit_refused (s : St) (c : Ctx) (args : Bytes) (h off cnt stable dlen : Nat) (r1 r2 r3 r4 r5 : Bytes)
    (hro : s.cfg.readOnly = false) (hfh : decFh' s args = some (h, r1)) (hoff : decU64 r1 = some (off, r2))
    (hcnt : decU32 r2 = some (cnt, r3)) (hst : decU32 r3 = some (stable, r4)) (hov : ¬ off + cnt ≥ u64Max)
    (hdl : decU32 r4 = some (dlen, r5)) (heq : dlen = cnt) (htr : ¬ cnt > s.cfg.transfer)
    (hbig : exceedsMax s.cfg (off + cnt) = true) :
    procWrite s c args = (s, res 27 (.wcc wcc0)) :=
  procWrite_fbig s c args h off cnt stable dlen r1 r2 r3 r4 r5 hro hfh hoff hcnt hst hov hdl heq htr hbig

/-- WRITE that succeeds under a positive limit ends within it: the file is at most max(old size, limit) long,
    and is otherwise written exactly as without a limit (C01's `write_stores_payload`). -/
theorem write_within_limit (s s' : St) (c : Ctx) (args : Bytes) (w : Rfc.Wcc) (k com : Nat) (verf : Bytes)
    (h : procWrite s c args = (s', .res ⟨0, .writeOk w k com verf⟩)) (hmax : s.cfg.maxFileSize > 0) :
    ∃ (off : Nat) (data : Bytes) (q : Fs.Path) (e : Fs.Entry),
      ((off + data.length : Nat) : Int) ≤ s.cfg.maxFileSize ∧
      (data = [] → s'.fs = s.fs) ∧
      (data ≠ [] → s'.fs = Fs.set s.fs q { e with data := Fs.writeBytes e.data off data } ∧
        ((Fs.writeBytes e.data off data).length : Int) ≤ max (e.data.length : Int) s.cfg.maxFileSize) :=
  write_ok_within_limit s s' c args w k com verf h hmax

/-- SETATTR to a size beyond the limit: NFS3ERR_FBIG and the filesystem is as before. -/
theorem setattr_beyond_limit_refused (s : St) (c : Ctx) (args : Bytes) (h : Nat) (r1 r2 r3 : Bytes) (sa : Sattr3) (sz : Nat)
    (n : Node) (s1 : St) (pre : Attrs)
    (hro : s.cfg.readOnly = false) (hfh : decFh' s args = some (h, r1)) (hsa : decSattr3 r1 = some (sa, r2))
    (hguard : decU32 r2 = some (0, r3)) (hmode : badModeBit sa = false)
    (hn : nodeOf s h = some n) (hpre : getAttr s c.now n = (s1, .ok pre))
    (hsz : sa.size = some sz) (hle : sz ≤ maxInt64) (hbig : exceedsMax s.cfg sz = true) :
    procSetattr s c args = (s1, res 27 (.wcc wcc0)) ∧ s1.fs = s.fs :=
  procSetattr_fbig s c args h r1 r2 r3 sa sz n s1 pre hro hfh hsa hguard hmode hn hpre hsz hle hbig

/-- CREATE (UNCHECKED over an existing file) with a size beyond the limit changes nothing. -/
theorem create_size_beyond_limit_changes_nothing (s1 : St) (c : Ctx) (n : Node) (pre : Attrs) (p : Bytes) (info : Fs.Info)
    (how : Nat) (sa : Sattr3) (verf : Bytes) (sz : Nat) (hsz : sa.size = some sz) (hbig : exceedsMax s1.cfg sz = true) :
    (createExisting s1 c n pre p info how sa verf).1.fs = s1.fs :=
  createExisting_limit s1 c n pre p info how sa verf sz hsz hbig

/-- Truncation to a size within the limit gives a file of exactly that size (≤ limit). -/
theorem truncate_size (d : Bytes) (n : Nat) : (Fs.truncBytes d n).length = n := Fs.truncBytes_length d n

/-- With no limit configured the test never fires: behaviour is that of the unlimited server. -/
theorem no_limit_no_refusal (c : Cfg) (size : Nat) (h : c.maxFileSize ≤ 0) : exceedsMax c size = false :=
  (exceedsMax_false_iff c size).mpr (.inl h)

/-- … and within the limit the test does not fire either: requests that stay within the limit take the same
    path as without it. -/
theorem within_limit_no_refusal (c : Cfg) (size : Nat) (h : (size : Int) ≤ c.maxFileSize) : exceedsMax c size = false :=
  (exceedsMax_false_iff c size).mpr (.inr h)

/-- History level (byte model): under a limit, whatever WRITE / SETATTR(size) operations arrive — accepted, or
    refused with the file unchanged, as the handlers do (theorems above) — a file that is within the limit stays
    within it after every history, of any length -/
theorem file_never_exceeds_limit (lim : Nat) (d : Bytes) (ops : List Fs.FileOp) (hd : d.length ≤ lim) :
    (ops.foldl (Fs.guardedOp lim) d).length ≤ lim := Fs.guarded_run_length_le lim d ops hd

/-- and a history in which no request ends beyond the limit leaves exactly the bytes of the unlimited server
    (the lock-step twin of the harness) -/
theorem limit_invisible_within (lim : Nat) (d : Bytes) (ops : List Fs.FileOp) (h : ∀ op ∈ ops, op.endsAt ≤ lim) :
    ops.foldl (Fs.guardedOp lim) d = ops.foldl Fs.applyFileOp d := Fs.guarded_run_eq_unguarded lim d ops h

/-- non-vacuity: limit 4; the write ending at 5 and the extension to 9 are refused, the rest applied -/
example : [Fs.FileOp.write 0 [1, 2], .write 3 [7, 7], .trunc 9, .write 2 [5, 6]].foldl (Fs.guardedOp 4) [] = [1, 2, 5, 6] := by
  decide

end Props.C25
