/-
  C16 — Policy updates are atomic with respect to requests (drain-and-swap).
  "Every interleaving" = every path of `Drain.Step`, any number of requests, updates and connections.
  Not modelled: the Go memory model / data races (the harness runs the real code under -race).
-/
import Absnfs.Drain
import Gen.Facts
open Absnfs.Drain

namespace Props.C16

/-- Regenerated from the source: HandleCall admits with TryRLock and answers JUKEBOX otherwise; the read lock is
    released by the request's goroutine (not by HandleCall on timeout); UpdatePolicyOptions stores the policy
    and replaces the limiter between Lock and Unlock; the connection loop looks the limiter up per request. -/
theorem gen_structure :
    (Gen.drainTryRLock && Gen.drainGoroutineOwnsUnlock && Gen.drainUpdateUnderLock &&
     Gen.connLoopLimiterPerRequest) = true := by decide

abbrev Step' := Step Gen.connLoopLimiterPerRequest
abbrev Reach' := Reach Gen.connLoopLimiterPerRequest

/-- (i) Every backend operation of a request runs while the policy it was admitted under is in force. -/
theorem backend_ops_under_admitted_policy (s : St) (h : Reach' s) :
    ∀ e ∈ s.backendLog, e.2.1 = e.2.2 := (inv_reach _ s h).log

/-- … because every request holding the read lock was admitted under the current policy. -/
theorem active_requests_are_current (s : St) (h : Reach' s) :
    ∀ q ∈ s.reqs, q.phase = .active → q.admitted = s.policy := (inv_reach _ s h).current

/-- (ii) When an update returns, no request admitted earlier is still executing. -/
theorem update_returns_after_drain (s : St) (l : Nat) (h : Reach' s) (hu : s.upd = .holding) :
    actives { s with policy := s.pendingPolicy, limiter := l, upd := .idle } = [] := by
  have := (inv_reach _ s h).holding hu
  simpa [actives] using this

/-- (iii) A call arriving while an update is waiting or holding is not admitted: the only step that adds a
    request in such a state adds it as refused (retry-later), and only active requests touch the backend. -/
theorem mid_drain_arrival_refused (s s' : St) (h : Step' s s') (hu : s.upd ≠ .idle)
    (q : Req) (hq : q ∈ s'.reqs) (hnew : ∀ x ∈ s.reqs, x.id ≠ q.id) : q.phase = .refused := by
  cases h with
  | openConn c => exact absurd rfl (hnew q hq)
  | admitReq r c cl hu' _ _ => exact absurd hu' hu
  | refuse r c cl _ _ _ =>
    simp only [List.mem_cons] at hq
    rcases hq with rfl | hq
    · rfl
    · exact absurd rfl (hnew q hq)
  | backend x _ _ => exact absurd rfl (hnew q hq)
  | timeout x _ _ =>
    obtain ⟨y, hy, _⟩ := mem_setTimedOut hq
    simp only [setTimedOut, List.mem_map] at hq
    obtain ⟨z, hz, rfl⟩ := hq
    exfalso; apply hnew z hz; split <;> rfl
  | finish x _ _ =>
    simp only [setPhase, List.mem_map] at hq
    obtain ⟨z, hz, rfl⟩ := hq
    exfalso; apply hnew z hz; split <;> rfl
  | updBegin p hu' => exact absurd hu' hu
  | updAcquire _ _ => exact absurd rfl (hnew q hq)
  | updEnd l _ => exact absurd rfl (hnew q hq)

theorem only_active_requests_reach_backend (s s' : St) (h : Step' s s') (e : Nat × Nat × Nat)
    (he : e ∈ s'.backendLog) (hn : e ∉ s.backendLog) : ∃ q ∈ s.reqs, q.phase = .active ∧ q.id = e.1 := by
  cases h with
  | backend q hq ha =>
    simp only [List.mem_cons] at he
    rcases he with rfl | he
    · exact ⟨q, hq, ha, rfl⟩
    · exact absurd he hn
  | openConn c => exact absurd he hn
  | admitReq r c cl _ _ _ => exact absurd he hn
  | refuse r c cl _ _ _ => exact absurd he hn
  | timeout x _ _ => exact absurd he hn
  | finish x _ _ => exact absurd he hn
  | updBegin p _ => exact absurd he hn
  | updAcquire _ _ => exact absurd he hn
  | updEnd l _ => exact absurd he hn

theorem filter_length_mono {α : Type} (l : List α) (p q : α → Bool) (h : ∀ y, p y = true → q y = true) :
    (l.filter p).length ≤ (l.filter q).length := by
  induction l with
  | nil => simp
  | cons x xs ih =>
    simp only [List.filter_cons]
    by_cases hp : p x = true
    · simp [hp, h x hp]; exact ih
    · by_cases hq : q x = true
      · simp [hp, hq]; omega
      · simp [hp, hq]; exact ih

/-- (iv) The drain makes progress: while the writer waits no new request is admitted (the set of lock holders
    can only shrink), every holder can finish, and the writer proceeds as soon as none is left. -/
theorem drain_does_not_grow (s s' : St) (h : Step' s s') (hu : s.upd = .waiting) :
    (actives s').length ≤ (actives s).length := by
  cases h with
  | openConn c => exact Nat.le_refl _
  | admitReq r c cl hu' _ _ => rw [hu] at hu'; exact absurd hu' (by decide)
  | refuse r c cl _ _ _ => simp [actives, List.filter_cons]
  | backend x _ _ => exact Nat.le_refl _
  | timeout x _ _ =>
    simp only [actives, setTimedOut]
    rw [List.filter_map]
    simp only [List.length_map]
    apply Nat.le_of_eq
    congr 1
    apply List.filter_congr
    intro y _
    simp only [Function.comp]
    split <;> rfl
  | finish x _ _ =>
    simp only [actives, setPhase]
    rw [List.filter_map]
    simp only [List.length_map]
    apply filter_length_mono
    intro y hy
    simp only [Function.comp] at hy
    split at hy
    · simp at hy
    · exact hy
  | updBegin p hu' => rw [hu] at hu'; exact absurd hu' (by decide)
  | updAcquire _ _ => exact Nat.le_refl _
  | updEnd l hu' => rw [hu] at hu'; exact absurd hu' (by decide)

theorem drain_completes_when_idle (s : St) (hu : s.upd = .waiting) (h0 : actives s = []) :
    ∃ s', Step' s s' ∧ s'.upd = .holding := ⟨_, Step.updAcquire s hu h0, rfl⟩

theorem holder_can_finish (s : St) (q : Req) (hq : q ∈ actives s) : ∃ s', Step' s s' := by
  have := List.mem_filter.mp hq
  exact ⟨_, Step.finish s q this.1 (by simpa using this.2)⟩

/-- (v) After an update every request — also on a connection opened before it — is rate-limited by the
    limiter then in force. -/
theorem limiter_in_force_is_used (s s' : St) (h : Step' s s') (q : Req) (hq : q ∈ s'.reqs)
    (hnew : ∀ x ∈ s.reqs, x.id ≠ q.id) : q.limiterUsed = s.limiter := by
  have hp : Gen.connLoopLimiterPerRequest = true := by decide
  cases h with
  | admitReq r c cl _ _ _ =>
    simp only [List.mem_cons] at hq
    rcases hq with rfl | hq
    · simp [hp]
    · exact absurd rfl (hnew q hq)
  | refuse r c cl _ _ _ =>
    simp only [List.mem_cons] at hq
    rcases hq with rfl | hq
    · simp [hp]
    · exact absurd rfl (hnew q hq)
  | openConn c => exact absurd rfl (hnew q hq)
  | backend x _ _ => exact absurd rfl (hnew q hq)
  | timeout x _ _ =>
    simp only [setTimedOut, List.mem_map] at hq
    obtain ⟨z, hz, rfl⟩ := hq
    exfalso; apply hnew z hz; split <;> rfl
  | finish x _ _ =>
    simp only [setPhase, List.mem_map] at hq
    obtain ⟨z, hz, rfl⟩ := hq
    exfalso; apply hnew z hz; split <;> rfl
  | updBegin p _ => exact absurd rfl (hnew q hq)
  | updAcquire _ _ => exact absurd rfl (hnew q hq)
  | updEnd l _ => exact absurd rfl (hnew q hq)

/-- With the limiter captured at connect time (the unrepaired code) a connection opened before an update
    keeps using the old limiter: reachable counterexample. -/
theorem captured_limiter_counterexample :
    ∃ s, Reach false s ∧ ∃ q ∈ s.reqs, q.limiterUsed ≠ s.limiter := by
  let s1 : St := { init with conns := [(1, 0)] }
  have r1 : Reach false s1 := Reach.step _ _ Reach.init (Step.openConn init 1)
  let s2 : St := { s1 with upd := .waiting, pendingPolicy := 1 }
  have r2 : Reach false s2 := Reach.step _ _ r1 (Step.updBegin s1 1 rfl)
  let s3 : St := { s2 with upd := .holding }
  have r3 : Reach false s3 := Reach.step _ _ r2 (Step.updAcquire s2 rfl rfl)
  let s4 : St := { s3 with policy := 1, limiter := 7, upd := .idle }
  have r4 : Reach false s4 := Reach.step _ _ r3 (Step.updEnd s3 7 rfl)
  have r5 := Reach.step _ _ r4 (Step.admitReq (perRequest := false) s4 5 1 0 rfl (by simp [s4, s3, s2, s1]) (by simp [s4, s3, s2, s1, init]))
  exact ⟨_, r5, _, List.mem_cons_self .., by decide⟩

/-- regenerated from the source on every run: HandleCall validates the caller only after taking the policy read lock -/
theorem gen_validation_under_lock : Gen.handleCallValidatesUnderLock = true := by decide

/-- the installed policy shares no memory with the value the caller passed (AllowedIPs is copied), and a refused
    call releases the read-lock the drain waits for -/
theorem gen_policy_value_copied : (Gen.updatePolicyCopiesAllowedIPs && Gen.handleCallUnlocksOnRefusal) = true := by decide

end Props.C16
