/-
  C04 — Reported attributes are consistent across procedures and with the backend.
  Every attribute block the server sends is `toFattr a` of some `Attrs a`; `a` comes from one of three places:
  GetAttr (a fresh Lstat of the handle's path), Lookup (Lstat, or the attribute cache), or the node stored under
  the handle. The theorems say what each source guarantees; the fileid of a path is always `fnv64 path`.
-/
import Absnfs.ServerAttrs
import Absnfs.ServerAttrs2
import Absnfs.ServerAttrs3
import Absnfs.ServerHandles
import Gen.Facts
open Absnfs Absnfs.Server

namespace Props.C04

theorem gen_readdirplus_and_setattr : (Gen.readdirplusUsesLstat && Gen.setattrKeepsType) = true := by decide
/-- LOOKUP takes the directory's attributes from GetAttr (the model's `lookupDirAttr`), WRITE refuses links -/
theorem gen_lookup_dirattrs_and_write : (Gen.lookupDirAttrsFromGetAttr && Gen.writeRefusesSymlink) = true := by decide

/-- the wire attributes are a function of (kind, perm, size, fileid): type from the kind Lstat reported
    (regular 1, directory 2, symbolic link 5) — symbolic links are always reported as links -/
theorem wire_attributes (a : Attrs) : (toFattr a).ftype = kindCode a.kind ∧ (toFattr a).fileid = a.fileId ∧
    (toFattr a).size = a.size ∧ (toFattr a).mode = a.perm % 512 := toFattr_type a

theorem link_is_link (a : Attrs) (h : a.kind = .link) : (toFattr a).ftype = 5 := by simp [toFattr, h, kindCode]

/-- Source 1 — GetAttr (GETATTR, ACCESS, READ, READLINK, FSSTAT/FSINFO/PATHCONF, every wcc post-op block, the
    directory attributes of READDIR/READDIRPLUS): type, size and permission bits are the backend's lstat of the
    handle's path at that moment, fileid is the path's. -/
theorem getattr_source_matches_backend {s s' : St} {now : Nat} {n : Node} {a : Attrs}
    (h : getAttr s now n = (s', .ok a)) : MatchesLstat s.fs n.path a := getAttr_matches h

theorem getattr_reply (s s' : St) (c : Ctx) (args : Bytes) (fa : Rfc.Fattr)
    (h : procGetattr s c args = (s', .res ⟨0, .attr fa⟩)) :
    ∃ hd r n a, decFh' s args = some (hd, r) ∧ nodeOf s hd = some n ∧ MatchesLstat s.fs n.path a ∧ fa = toFattr a :=
  procGetattr_matches s s' c args fa h

/-- Source 2 — Lookup (LOOKUP's object, CREATE/MKDIR/SYMLINK results, MNT, READDIR entries): the same, provided
    the attribute cache is coherent (every positive entry matches the backend, every negative entry names a
    path whose lstat fails). On a cache miss it is unconditional. -/
theorem lookup_source_matches_backend {s s' : St} {now : Nat} {p : Bytes} (hc : AcCoherent s) (node : Node)
    (h : lookupPath s now p = (s', .ok node)) : node.path = p ∧ MatchesLstat s.fs p node.attrs :=
  (lookupPath_sound hc).1 node h

theorem lookup_error_means_absent {s s' : St} {now : Nat} {p : Bytes} (hc : AcCoherent s) (st : Fs.Errno)
    (h : lookupPath s now p = (s', .error st)) : p = [] ∨ ∃ err, Fs.lstat s.fs (fsPath p) = .error err :=
  (lookupPath_sound hc).2 st h

/-- an empty cache is coherent (a freshly created server; also after Unexport) -/
theorem empty_cache_coherent (s : St) (h : s.ac.entries = []) : AcCoherent s := by
  intro e he; rw [h] at he; simp at he

/-- Source 3 — the node under the handle. SETATTR never changes its type or fileid (only permission bits and,
    for an effective root, uid/gid come from the request): … -/
theorem setattr_keeps_type_and_fileid (s2 : St) (c : Ctx) (h : Nat) (sa : Sattr3) (pre : Attrs) (n2 : Node)
    (hn2 : nodeOf s2 h = some n2) :
    ∃ n', nodeOf (setattrApply s2 c h sa pre).1 h = some n' ∧ n'.path = n2.path ∧
      n'.attrs.kind = n2.attrs.kind ∧ n'.attrs.fileId = n2.attrs.fileId :=
  setattrApply_keeps_type s2 c h sa pre n2 hn2

theorem setattr_target_attributes (c : Ctx) (sa : Sattr3) (a0 : Attrs) :
    (setattrTarget c sa a0).kind = a0.kind ∧ (setattrTarget c sa a0).fileId = a0.fileId ∧
    (setattrTarget c sa a0).size = a0.size := setattrTarget_keeps c sa a0

/-- … and READDIRPLUS's refresh keeps every entry's path and fileid (type, size, mode come from Lstat). -/
theorem readdirplus_refresh_keeps_fileids (s : St) (now : Nat) (l : List Node) :
    (refreshEach s now l).2.map (·.path) = l.map (·.path) ∧
    (refreshEach s now l).2.map (·.attrs.fileId) = l.map (·.attrs.fileId) := refreshEach_spec s now l

/-- two blocks for the same path from sources 1 and 2 carry the same fileid and, the backend being unchanged
    in between, the same type, size and mode -/
theorem same_path_same_attributes (fs : Fs.T) (p : Bytes) (a b : Attrs) (ha : MatchesLstat fs p a) (hb : MatchesLstat fs p b) :
    a.kind = b.kind ∧ a.size = b.size ∧ a.perm = b.perm ∧ a.fileId = b.fileId := by
  obtain ⟨i, hi, h1, h2, h3, h4⟩ := ha
  obtain ⟨j, hj, g1, g2, g3, g4⟩ := hb
  rw [hi] at hj
  simp only [Except.ok.injEq] at hj
  subst hj
  exact ⟨by rw [h1, g1], by rw [h2, g2], by rw [h3, g3], by rw [h4, g4]⟩

/-- Source 2 at handler level, with the coherence hypothesis discharged: after any history of requests on a new
    server, an OK LOOKUP reply carries — for the object — the backend's lstat of dir-path/name (type, size, mode,
    that path's fileid), cache hit or not, and — for the directory — the backend's lstat of the directory
    handle's path (fetched with GetAttr, not taken from the handle's snapshot). -/
theorem lookup_reply_after_any_history (s0 : St) (rs : List Req) (h0 : CInv s0) (s' : St) (c : Ctx) (args : Bytes) (fh : Nat)
    (fa : Rfc.Fattr) (da : Option Rfc.Fattr)
    (h : procLookup (runReqs s0 rs) c args = (s', .res ⟨0, .lookupOk fh (some fa) da⟩)) :
    ∃ hd r1 name r2 n a, decFh' (runReqs s0 rs) args = some (hd, r1) ∧ decStr (runReqs s0 rs) r1 = some (name, r2) ∧
      nodeOf (runReqs s0 rs) hd = some n ∧ MatchesLstat (runReqs s0 rs).fs (joinName n.path name) a ∧ fa = toFattr a ∧
      (∀ i, Fs.lstat (runReqs s0 rs).fs (fsPath n.path) = .ok i →
        ∃ b, MatchesLstat (runReqs s0 rs).fs n.path b ∧ da = some (toFattr b)) :=
  procLookup_matches_after s0 rs h0 s' c args fh fa da h

/-- MNT hands out a handle only for a path the backend has (whatever the cache holds) -/
theorem mnt_only_existing (s s' : St) (c : Ctx) (args : Bytes) (fhb : Bytes) (auth : List Nat) (hc : AcCoherent s)
    (h : procMnt s c args = (s', .res ⟨0, .mntOk fhb auth⟩)) :
    ∃ raw r a, decStr s args = some (raw, r) ∧ MatchesLstat s.fs (cleanAbs raw) a := procMnt_exists s s' c args fhb auth hc h

/-- READDIRPLUS, handler level, after any history: every entry of an NFS3_OK page is (name, fileid, attributes) of
    one path of the listing, and those attributes are the backend's lstat of that path at the time of the call
    (type, size, permission bits; the path's fileid) — the same block GETATTR or LOOKUP would send for it. -/
theorem readdirplus_entries_after_any_history (s0 : St) (rs : List Req) (h0 : CInv s0) (s' : St) (c : Ctx) (args : Bytes)
    (a : Option Rfc.Fattr) (verf : Bytes) (ents : List Rfc.DirEntPlus) (eof : Bool)
    (h : procReaddirplus (runReqs s0 rs) c args = (s', .res ⟨0, .readdirplusOk a verf ents eof⟩)) :
    ∀ e ∈ ents, ∃ n : Node, e.name = baseName n.path ∧ e.attr = some (toFattr n.attrs) ∧ e.fileid = n.attrs.fileId ∧
      MatchesLstat (runReqs s0 rs).fs n.path n.attrs :=
  procReaddirplus_entries _ s' c args a verf ents eof (runReqs_cinv s0 rs h0).1 h

/-- CREATE / MKDIR / SYMLINK results, after any history: the attributes in an NFS3_OK reply are — in the state the
    reply leaves behind — the backend's lstat of the new object's path (type, size, permission bits; that path's
    fileid), and they are the attributes stored under the returned handle. -/
theorem create_result_matches_backend (s0 : St) (rs : List Req) (h0 : CInv s0) (s' : St) (c : Ctx) (args : Bytes) (fh : Nat)
    (fa : Rfc.Fattr) (w : Rfc.Wcc) (h : procCreate (runReqs s0 rs) c args = (s', CreatedOk fh fa w)) :
    ∃ hd r1 name r2 n a, decFh' (runReqs s0 rs) args = some (hd, r1) ∧ decStr (runReqs s0 rs) r1 = some (name, r2) ∧
      nodeOf (runReqs s0 rs) hd = some n ∧ nodeOf s' fh = some { path := joinName n.path name, attrs := a } ∧ fa = toFattr a ∧
      MatchesLstat s'.fs (joinName n.path name) a :=
  procCreate_handle _ s' c args fh fa w (runReqs_cinv s0 rs h0) h

theorem mkdir_result_matches_backend (s0 : St) (rs : List Req) (h0 : CInv s0) (s' : St) (c : Ctx) (args : Bytes) (fh : Nat)
    (fa : Rfc.Fattr) (w : Rfc.Wcc) (h : procMkdir (runReqs s0 rs) c args = (s', CreatedOk fh fa w)) :
    ∃ hd r1 name r2 n a, decFh' (runReqs s0 rs) args = some (hd, r1) ∧ decStr (runReqs s0 rs) r1 = some (name, r2) ∧
      nodeOf (runReqs s0 rs) hd = some n ∧ nodeOf s' fh = some { path := joinName n.path name, attrs := a } ∧ fa = toFattr a ∧
      MatchesLstat s'.fs (joinName n.path name) a :=
  procMkdir_handle _ s' c args fh fa w (runReqs_cinv s0 rs h0) h

theorem symlink_result_matches_backend (s0 : St) (rs : List Req) (h0 : CInv s0) (s' : St) (c : Ctx) (args : Bytes) (fh : Nat)
    (fa : Rfc.Fattr) (w : Rfc.Wcc) (h : procSymlink (runReqs s0 rs) c args = (s', CreatedOk fh fa w)) :
    ∃ hd r1 name r2 n a, decFh' (runReqs s0 rs) args = some (hd, r1) ∧ decStr (runReqs s0 rs) r1 = some (name, r2) ∧
      nodeOf (runReqs s0 rs) hd = some n ∧ nodeOf s' fh = some { path := joinName n.path name, attrs := a } ∧ fa = toFattr a ∧
      MatchesLstat s'.fs (joinName n.path name) a :=
  procSymlink_handle _ s' c args fh fa w (runReqs_cinv s0 rs h0) h

/-- regenerated from the source on every run: MNT cleans the requested path before anything is derived from it (the model's cleanAbs) -/
theorem gen_mnt_cleans_path : Gen.mntCleansPath = true := by decide

end Props.C04
