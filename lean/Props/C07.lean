/-
  C07 — The backend only sees clean in-export paths; symlink targets stay contained.
  In the server model every backend call takes `fsPath p` where `p` is a handle's path, or `joinName` of a
  handle's path and a name that passed `validateFilename` (or, for entries of a directory listing,
  `lookupEach`'s filter), or MNT's cleaned path of validated components. The theorems say what those are.
  PARTIAL: the invariant "every path in the handle table is clean" is proved preserved by Allocate in general
  and by LOOKUP end-to-end; for the other allocating procedures (CREATE, MKDIR, SYMLINK, READDIRPLUS, MNT) the
  same two lemmas apply to their (path-building) call sites, which the correspondence and the runtime oracle
  (every path argument of every backend call, recorded by the reference backend) cover.
-/
import Absnfs.ServerPaths
import Absnfs.ServerInvProcs
import Gen.Facts
open Absnfs Absnfs.Server

namespace Props.C07

theorem gen_validating_handlers : Gen.nameValidatingHandlers =
    ["handleCreate", "handleLookup", "handleMkdir", "handleMountCall", "handleRemove", "handleRename", "handleRmdir",
     "handleSymlink"] := by decide
theorem gen_mnt_and_symlink : (Gen.mntValidatesComponents && Gen.symlinkRejectsAbsoluteAndDotDot) = true := by decide

/-- validated components are exactly: non-empty, at most 255 bytes, free of '/', '\' and NUL, not "." or ".." -/
theorem validated_component_iff (n : Bytes) :
    validateFilename n = 0 ↔
      (n ≠ [] ∧ n.length ≤ 255 ∧ (0 : UInt8) ∉ n ∧ (47 : UInt8) ∉ n ∧ (92 : UInt8) ∉ n ∧ n ≠ [46] ∧ n ≠ [46, 46]) :=
  ⟨validateFilename_ok n, fun ⟨a, b, c, d, e, f, g⟩ => validateFilename_complete n a b c d e f g⟩

/-- a handle's (clean) path joined with one validated component is absolute and normalized -/
theorem handle_path_plus_component_clean (d name : Bytes) (hd : CleanPath d) (hv : validateFilename name = 0) :
    CleanPath (joinName d name) := joinName_clean d name hd hv

/-- names of a directory listing are joined only if they pass the same separator / dot tests -/
theorem listing_names_filtered (n : Bytes)
    (h : ¬ (n = [46] ∨ n = [46, 46] ∨ n = [] ∨ n.contains 47 = true ∨ n.contains 92 = true)) : NoSep n :=
  listing_name_noSep n h

/-- MNT's path: validated components joined from the root -/
theorem mnt_path_clean (comps : List Bytes) (h : ∀ c ∈ comps, validateFilename c = 0) (hne : comps ≠ []) :
    CleanPath (comps.foldl (fun a c => a ++ 47 :: c) []) :=
  foldl_join_clean comps h [] (.inl rfl) (.inl hne)

/-- handing out a handle for a clean path keeps every path in the handle table clean (with or without eviction) -/
theorem allocate_keeps_table_clean (s : St) (n : Node) (hc : HandlesClean s) (hp : CleanPath n.path) :
    HandlesClean (allocate s n).1 := allocate_clean s n hc hp

/-- the node a handle resolves to has a clean path -/
theorem handle_paths_are_clean {s : St} {h : Nat} {n : Node} (hc : HandlesClean s) (hn : nodeOf s h = some n) :
    CleanPath n.path := nodeOf_clean hc hn

/-- LOOKUP, for every argument byte string: the table stays clean -/
theorem lookup_keeps_table_clean (s : St) (c : Ctx) (args : Bytes) (hc : HandlesClean s) :
    HandlesClean (procLookup s c args).1 := procLookup_clean s c args hc

/-- No symlink created through the server has an absolute target or a ".." component (or an empty one). -/
theorem symlink_target_contained (s s' : St) (c : Ctx) (args : Bytes) (body : Rfc.Body)
    (h : procSymlink s c args = (s', .res ⟨0, body⟩)) :
    ∃ (hd : Nat) (r1 r2 r3 r4 name target : Bytes) (sa : Sattr3),
      decFh' s args = some (hd, r1) ∧ decStr s r1 = some (name, r2) ∧ decSattr3 r2 = some (sa, r3) ∧
      decStr s r3 = some (target, r4) ∧
      validateFilename name = 0 ∧ target ≠ [] ∧ target.head? ≠ some 47 ∧ targetHasDotDot target = false :=
  procSymlink_target_contained s s' c args body h

/-- READLINK never returns a relative target containing "..". -/
theorem readlink_no_relative_dotdot (s s' : St) (c : Ctx) (args : Bytes) (o : Option Rfc.Fattr) (t : Bytes)
    (h : procReadlink s c args = (s', .res ⟨0, .readlinkOk o t⟩)) : t.head? = some 47 ∨ targetHasDotDot t = false :=
  procReadlink_no_dotdot s s' c args o t h

/-- non-vacuity -/
example : validateFilename [97, 46, 98] = 0 := by decide
example : validateFilename [97, 47, 98] = 22 := by decide
example : validateFilename [46, 46] = 22 := by decide
example : targetHasDotDot [97, 47, 46, 46, 47, 98] = true := by decide

/-- every request — any procedure, any argument bytes — keeps the handle table clean (the table part of the
    cache invariant `CInv`, which every request preserves), so after any history on a new server every handle
    resolves to an absolute, normalized path made of validated components -/
theorem every_request_keeps_table_clean (s : St) (c : Ctx) (prog vers proc : Nat) (args : Bytes) (h : CInv s) :
    HandlesClean (handle s c prog vers proc args).1 := (handle_cinv s c prog vers proc args h).hcl

theorem table_clean_after_any_history (s0 : St) (rs : List Req) (h0 : CInv s0) : HandlesClean (runReqs s0 rs) :=
  (runReqs_cinv s0 rs h0).hcl

theorem every_handle_names_a_clean_path (s0 : St) (rs : List Req) (h0 : CInv s0) (hd : Nat) (n : Node)
    (hn : nodeOf (runReqs s0 rs) hd = some n) : CleanPath n.path :=
  nodeOf_clean (table_clean_after_any_history s0 rs h0) hn

/-- MNT's path after path.Clean is a clean path whatever the client sent -/
theorem mnt_clean_path (raw : Bytes) : CleanPath (cleanAbs raw) := cleanAbs_clean raw

/-- regenerated from the source on every run: MNT cleans the requested path before anything is derived from it (the model's cleanAbs) -/
theorem gen_mnt_cleans_path : Gen.mntCleansPath = true := by decide

/-- MNT's per-component validation does not depend on the MOUNT version or anything else: the refusal's condition is
    exactly `status != NFS_OK` (the model's `procMnt` is the same for versions 1 and 3) -/
theorem gen_mnt_component_check_unconditional : Gen.mntComponentCheckUnconditional = true := by decide

end Props.C07
