/-
  C11 — Only an effective root identity can assign ownership.
  `c.uid`, `c.gid` are the caller's effective identity after squashing (C10 proves what they are for every
  squash mode and credential; `Ctx` is built from `Auth.squash` in the correspondence). "What the backend
  records" is `Fs.ownerAt` of the backing-filesystem model.
-/
import Absnfs.ServerOwner
import Absnfs.ServerOwner2
import Gen.Facts
open Absnfs Absnfs.Server

namespace Props.C11

theorem gen_creation_chowns : (Gen.createChowns && Gen.mkdirChowns && Gen.symlinkLchowns) = true := by decide

/-- the owner the creation procedures ask the backend to record: for a caller that is not effective root it is
    the caller's own identity, whatever sattr3 says -/
theorem nonroot_gets_own_identity (c : Ctx) (sa : Sattr3) (h : c.uid ≠ 0) :
    ownerUid c sa = c.uid ∧ ownerGid c sa = c.gid := nonroot_owner c sa h

/-- … and for an effective root it is sattr3's uid/gid where given -/
theorem root_may_assign (c : Ctx) (sa : Sattr3) (h : c.uid = 0) :
    ownerUid c sa = sa.uid.getD c.uid ∧ ownerGid c sa = sa.gid.getD c.gid := root_owner c sa h

/-- SETATTR from a non-root effective uid: no owner or group anywhere in the backend changes, for every
    argument byte string and every state. sattr3's uid and gid are ignored. -/
theorem setattr_nonroot_changes_no_owner (s : St) (c : Ctx) (args : Bytes) (hnr : c.uid ≠ 0) (q : Fs.Path) :
    Fs.ownerAt (procSetattr s c args).1.fs q = Fs.ownerAt s.fs q :=
  procSetattr_owner_nonroot s c args hnr q

/-- MKDIR that succeeds: the backend records the new directory as owned by that identity and no other object
    changes owner. -/
theorem mkdir_owner (s s' : St) (c : Ctx) (args : Bytes) (body : Rfc.Body)
    (h : procMkdir s c args = (s', .res ⟨0, body⟩)) :
    ∃ (hd : Nat) (r1 r2 r3 name : Bytes) (sa : Sattr3) (n : Node),
      decFh' s args = some (hd, r1) ∧ decStr s r1 = some (name, r2) ∧ decSattr3 r2 = some (sa, r3) ∧
      nodeOf s hd = some n ∧
      Fs.ownerAt s'.fs (fsPath (joinName n.path name)) = some (ownerUid c sa, ownerGid c sa) ∧
      ∀ q, q ≠ fsPath (joinName n.path name) → Fs.ownerAt s'.fs q = Fs.ownerAt s.fs q :=
  procMkdir_owner s s' c args body h

/-- SYMLINK that succeeds: the same for the new link (Lchown: the link itself, not its target). -/
theorem symlink_owner (s s' : St) (c : Ctx) (args : Bytes) (body : Rfc.Body)
    (h : procSymlink s c args = (s', .res ⟨0, body⟩)) :
    ∃ (hd : Nat) (r1 r2 r3 r4 name target : Bytes) (sa : Sattr3) (n : Node),
      decFh' s args = some (hd, r1) ∧ decStr s r1 = some (name, r2) ∧ decSattr3 r2 = some (sa, r3) ∧
      decStr s r3 = some (target, r4) ∧ nodeOf s hd = some n ∧
      Fs.ownerAt s'.fs (fsPath (joinName n.path name)) = some (ownerUid c sa, ownerGid c sa) ∧
      ∀ q, q ≠ fsPath (joinName n.path name) → Fs.ownerAt s'.fs q = Fs.ownerAt s.fs q :=
  procSymlink_owner s s' c args body h

/-- CREATE that succeeds, in every state satisfying the server invariant (hence after every history): a file
    that did not exist is recorded as owned by that identity and no other object changes owner; a CREATE over a
    name that was taken changes no owner. -/
theorem create_owner (s s' : St) (c : Ctx) (args : Bytes) (body : Rfc.Body) (h : CInv s)
    (heq : procCreate s c args = (s', .res ⟨0, body⟩)) :
    ∃ (hd how : Nat) (r1 r2 r3 name verf : Bytes) (sa : Sattr3) (n : Node),
      decFh' s args = some (hd, r1) ∧ decStr s r1 = some (name, r2) ∧ decU32 r2 = some (how, r3) ∧
      parseCreateHow how r3 = some (sa, verf) ∧ nodeOf s hd = some n ∧
      ((∃ err, Fs.lstat s.fs (fsPath (joinName n.path name)) = .error err) →
        Fs.ownerAt s'.fs (fsPath (joinName n.path name)) = some (ownerUid c sa, ownerGid c sa) ∧
        ∀ q, q ≠ fsPath (joinName n.path name) → Fs.ownerAt s'.fs q = Fs.ownerAt s.fs q) ∧
      ((∃ info, Fs.lstat s.fs (fsPath (joinName n.path name)) = .ok info) → ∀ q, Fs.ownerAt s'.fs q = Fs.ownerAt s.fs q) :=
  procCreate_owner s s' c args body h heq

/-- non-vacuity: uid 1000 asking for uid 0 gets 1000 -/
example : ownerUid { now := 0, uid := 1000, gid := 1000, aux := [] } { uid := some 0, gid := some 0 } = 1000 := by decide

/-- regenerated from the source on every run: the connection loop builds the authentication context inside its request loop, from that call's credential (the model's per-call identity) -/
theorem gen_conn_loop_identity_per_call : Gen.connLoopAuthPerCall = true := by decide

/-- regenerated from the source on every run: HandleCall copies the squashed identity into the request context for every flavor (AUTH_NONE runs as nobody, not as the zero value) -/
theorem gen_identity_applied : Gen.handleCallAppliesIdentity = true := by decide

/-- the squash mode the identities are computed under cannot be changed — or dropped — by a runtime policy update:
    UpdatePolicyOptions returns early on `old.Squash != newPolicy.Squash` (an empty value included) -/
theorem gen_squash_immutable : Gen.updatePolicyRejectsAnySquashChange = true := by decide

end Props.C11
