/-
  C14 — Every reply is a well-formed RFC 1813 / RFC 1831 reply.
  Two layers. (1) The RPC reply message: `Rpc.decReply` is the exact RFC 1831 decoder (no missing or trailing
  bytes, XID echoed), and C13's `decReply_encReply` is restated here for EncodeRPCReply's model. (2) The
  results: the Lean server model produces, for every state, credential and argument byte string, a result whose
  body has the RFC 1813 shape of its procedure and status, with a status in nfsstat3 — or 4 (known finding
  C14/nfsstat-garbage-args, pinned by the repository's tests). The same for the answers given during a policy
  drain, for MOUNT (mountstat3), and for rate-limited calls (status constants regenerated from the source).
  `Rfc.decResWith true` — the decoder the harness applies to every real reply — accepts only such results.
-/
import Absnfs.ServerShape
import Absnfs.Rpc
import Gen.Facts
open Absnfs Absnfs.Server

namespace Props.C14

/-- the procedure table of the real dispatcher is 0..21, as the model's -/
theorem gen_proc_table : Gen.nfsProcTable = List.range 22 := by decide

/-- every NFSERR_* constant of the source is a member of nfsstat3, except NFSERR_WFLUSH = 99 (NFSv2's; defined,
    never used) -/
theorem gen_status_constants : ∀ st ∈ Gen.nfsStatusConstants, st ∈ Rfc.nfsstat3 ∨ st = 99 := by decide

/-- (1) the RPC reply: encoded by EncodeRPCReply's model, decoded exactly by the RFC 1831 decoder, same XID -/
theorem rpc_reply_roundtrip (maxAuth : Nat) (r : RpcReply) (h : r.WF maxAuth) (hm : maxAuth < 4294967296) :
    decReply maxAuth (encReply r) = r.view := decReply_encReply maxAuth r h hm

/-- (2) NFS results: shape of the procedure for the status, status in nfsstat3 (or 4: known finding) -/
theorem nfs_result_well_formed (s : St) (c : Ctx) (proc : Nat) (args : Bytes) :
    Good proc (handleNfs s c proc args).2 := handleNfs_good s c proc args

/-- … MOUNT results: MNT answers a mountstat3 member (or MNT3_OK with an 8-byte handle and one flavor), the
    other procedures their status-less results -/
theorem mount_result_well_formed (s : St) (c : Ctx) (proc : Nat) (args : Bytes) :
    MountGood proc (handleMount s c proc args).2 := handleMount_good s c proc args

/-- … unknown programs, versions and procedures are RPC-level errors, not results -/
theorem unknown_is_rpc_error (s : St) (c : Ctx) (prog vers proc : Nat) (args : Bytes) :
    (prog ≠ 100003 → prog ≠ 100005 → (handle s c prog vers proc args).2 = .progUnavail) ∧
    (prog = 100003 → vers ≠ 3 → (handle s c prog vers proc args).2 = .progMismatch) ∧
    (22 ≤ proc → (handleNfs s c proc args).2 = .procUnavail) := by
  refine ⟨fun h1 h2 => by simp [handle, h1, h2], fun h1 h2 => by simp [handle, h1, h2], fun h => ?_⟩
  unfold handleNfs
  split <;> first | omega | rfl

/-- … the answers given while a policy update drains: JUKEBOX in the procedure's failure shape; MNT gets
    MNT3ERR_SERVERFAULT -/
theorem drain_answer_well_formed (proc : Nat) : Good proc (busy 100003 3 proc) := busy_nfs_good proc
theorem drain_answer_mount (vers proc : Nat) (hv : vers = 1 ∨ vers = 3) : MountGood proc (busy 100005 vers proc) :=
  busy_mount_good vers proc hv

/-- the statuses used for rate-limited calls -/
theorem rate_limit_statuses : (10008 ∈ Rfc.nfsstat3) ∧ (10006 ∈ Rfc.mountstat3) := by decide

/-- the decoder applied to the real replies accepts only results of the right shape -/
theorem decoder_accepts_only_well_shaped (proc st : Nat) (bs : Bytes) (b : Rfc.Body)
    (h : Rfc.decNfsBody proc st bs = some b) : WellShaped proc ⟨st, b⟩ = true := decNfsBody_shape proc st bs b h

/-- KNOWN FINDING nfsstat-garbage-args: status 4 is what the model (as the code) answers to undecodable arguments -/
example (s : St) (c : Ctx) : (procGetattr s c []).2 = .res ⟨4, .statusOnly⟩ := by
  simp [procGetattr, decFh', decFh, decU32, res]

end Props.C14
