/-
  C27 — Portmapper: registry semantics and loopback-only modification.
-/
import Absnfs.Portmap
import Gen.Facts
open Absnfs Absnfs.Portmap

namespace Props.C27

/-- Regenerated: every SET/UNSET path (portmap v2 and rpcbind v3/v4) tests the caller's address, and a
    PROG_MISMATCH reply carries mismatch_info. -/
theorem gen_loopback_checked :
    (Gen.pmV2SetChecked && Gen.pmV2UnsetChecked && Gen.pmRpcbSetChecked && Gen.pmRpcbUnsetChecked) = true := by
  decide

theorem gen_mismatch_info : Gen.pmMismatchInfo = true := by decide

def genChecks : Checks :=
  { v2Set := Gen.pmV2SetChecked, v2Unset := Gen.pmV2UnsetChecked, rpcbSet := Gen.pmRpcbSetChecked,
    rpcbUnset := Gen.pmRpcbUnsetChecked, mismatchInfo := Gen.pmMismatchInfo }

/-- A caller that is not on a loopback address never changes the registry: for every record (any bytes,
    any protocol version, any procedure), the registry after the call is the registry before. -/
theorem nonloopback_never_changes (maxAuth maxStr : Nat) (addr : Bytes) (r : Registry) (data : Bytes) :
    (handleCall genChecks maxAuth maxStr addr r .other data).1 = r := by
  have h1 : genChecks.v2Set = true := by decide
  have h2 : genChecks.v2Unset = true := by decide
  have h3 : genChecks.rpcbSet = true := by decide
  have h4 : genChecks.rpcbUnset = true := by decide
  unfold handleCall
  repeat' split
  all_goals first
    | rfl
    | simp [v2Set, v2Unset, rpcbSet, rpcbUnset, h1, h2, h3, h4]

/-- The registry is a map from (program, version, protocol) to port. -/
theorem set_then_get (r : Registry) (p v t port : Nat) : lookup (register r p v t port) p v t = some port :=
  lookup_register_same r p v t port

theorem set_other_untouched (r : Registry) (p v t port p' v' t' : Nat) (h : (p', v', t') ≠ (p, v, t)) :
    lookup (register r p v t port) p' v' t' = lookup r p' v' t' :=
  lookup_register_other r p v t port p' v' t' h

theorem unset_removes (r : Registry) (p v t : Nat) (h : Uniq r) : lookup (unregister r p v t) p v t = none :=
  lookup_unregister_same r p v t h

/-- keys stay unique under every registry update (so "the" mapping for a key is well defined) -/
theorem uniq_preserved (r : Registry) (h : Uniq r) (p v t port : Nat) :
    Uniq (register r p v t port) ∧ Uniq (unregister r p v t) :=
  ⟨uniq_register r p v t port h, uniq_unregister r p v t h⟩

/-- GETPORT reports exactly the current registration (0 when there is none). -/
theorem getport_reports (r : Registry) (p v t : Nat) : getPort r p v t = (lookup r p v t).getD 0 := by
  unfold getPort lookup
  cases r.find? (fun m => sameKey m p v t) <;> rfl

/-- DUMP (v2) lists exactly the current registrations, in registry order: it decodes back to the registry. -/
def decDumpV2 : Nat → Bytes → Option Registry
  | 0, _ => none
  | fuel + 1, bs =>
    match decU32 bs with
    | none => none
    | some (more, r0) =>
      if more = 0 then (if r0 = [] then some [] else none) else
      match decU32 r0 with
      | none => none
      | some (p, r1) =>
      match decU32 r1 with
      | none => none
      | some (v, r2) =>
      match decU32 r2 with
      | none => none
      | some (t, r3) =>
      match decU32 r3 with
      | none => none
      | some (port, r4) =>
        match decDumpV2 fuel r4 with
        | none => none
        | some rest => some (⟨p, v, t, port⟩ :: rest)

def MappingWF (m : Mapping) : Prop :=
  m.prog < 4294967296 ∧ m.vers < 4294967296 ∧ m.prot < 4294967296 ∧ m.port < 4294967296

theorem dump_reports_exactly (r : Registry) (h : ∀ m ∈ r, MappingWF m) :
    decDumpV2 (r.length + 1) (dumpV2 r) = some r := by
  induction r with
  | nil => simp [dumpV2, decDumpV2, decU32_encU32']
  | cons m ms ih =>
    obtain ⟨h1, h2, h3, h4⟩ := h m (List.mem_cons_self ..)
    have ih' := ih (fun x hx => h x (List.mem_cons_of_mem _ hx))
    simp only [dumpV2, List.flatMap_cons, List.append_assoc, List.length_cons, decDumpV2] at ih' ⊢
    rw [decU32_encU32 _ (by omega)]; simp only [show (1 : Nat) ≠ 0 by decide, if_false]
    rw [decU32_encU32 _ h1]; simp only
    rw [decU32_encU32 _ h2]; simp only
    rw [decU32_encU32 _ h3]; simp only
    rw [decU32_encU32 _ h4]; simp only
    rw [ih']

/-- Replies are well-formed RFC 1831 accepted replies that echo the XID, for each accept_stat the
    portmapper uses (success with results, PROG_UNAVAIL, PROG_MISMATCH with mismatch_info, PROC_UNAVAIL). -/
theorem makeReply_eq_encReply (xid st : Nat) (data : Bytes) (h2 : st ≠ 2) (hd : st ≠ 0 → data = []) :
    makeReply true xid st data =
      encReply { xid := xid, status := 0, acceptStatus := st, verf := ⟨0, []⟩, data := data } := by
  by_cases h0 : st = 0
  · subst h0; simp [makeReply, encReply, encOpaque, pad4, zeros]
  · simp [makeReply, encReply, encOpaque, pad4, zeros, h0, h2]

theorem reply_wellformed (xid : Nat) (hx : xid < 4294967296) (data : Bytes) (maxAuth : Nat)
    (hm : maxAuth < 4294967296) :
    decReply maxAuth (makeReply true xid 0 data) = some (.success xid ⟨0, []⟩ data) ∧
    decReply maxAuth (makeReply true xid 1 []) = some (.progUnavail xid ⟨0, []⟩) ∧
    decReply maxAuth (makeReply true xid 3 []) = some (.procUnavail xid ⟨0, []⟩) := by
  have wf : ∀ st, st ≤ 5 → (RpcReply.WF maxAuth
      { xid := xid, status := 0, acceptStatus := st, verf := ⟨0, []⟩, data := data }) := by
    intro st hst; exact ⟨hx, by simp, hst, by simp, by simp⟩
  have wf' : ∀ st, st ≤ 5 → (RpcReply.WF maxAuth
      { xid := xid, status := 0, acceptStatus := st, verf := ⟨0, []⟩, data := [] }) := by
    intro st hst; exact ⟨hx, by simp, hst, by simp, by simp⟩
  refine ⟨?_, ?_, ?_⟩
  · rw [makeReply_eq_encReply xid 0 data (by decide) (by simp), decReply_encReply _ _ (wf 0 (by decide)) hm]
    rfl
  · rw [makeReply_eq_encReply xid 1 [] (by decide) (by simp), decReply_encReply _ _ (wf' 1 (by decide)) hm]
    rfl
  · rw [makeReply_eq_encReply xid 3 [] (by decide) (by simp), decReply_encReply _ _ (wf' 3 (by decide)) hm]
    rfl

theorem mismatch_reply_wellformed (xid : Nat) (hx : xid < 4294967296) (maxAuth : Nat) :
    decReply maxAuth (makeReply true xid 2 []) = some (.progMismatch xid ⟨0, []⟩ 2 4) := by
  simp only [makeReply, decReply, List.append_assoc, Bool.true_and, decide_true, if_true,
    show (2 : Nat) ≠ 0 by decide, if_false, List.append_nil]
  rw [decU32_encU32 _ hx]; simp only
  rw [decU32_encU32 _ (by omega)]; simp only [ne_eq, not_true_eq_false, if_false]
  rw [decU32_encU32 _ (by omega)]; simp only [if_true]
  simp only [decAuth]
  rw [decU32_encU32 _ (by omega)]; simp only
  simp only [decOpaque]
  rw [decU32_encU32 _ (by omega)]; simp only [Nat.not_lt_zero, gt_iff_lt, if_false, take?, pad4]
  simp only [Nat.zero_le, if_true, List.take_zero, List.drop_zero, Nat.zero_mod, Nat.sub_zero, Nat.mod_self]
  rw [decU32_encU32 _ (by omega)]; simp only [show (2 : Nat) ≠ 0 by decide, if_false, if_true]
  rw [decU32_encU32 _ (by omega)]; simp only
  rw [decU32_encU32' _ (by omega)]; simp

/-- Without the address test on the rpcbind v3/v4 handlers the statement is false (what the unrepaired
    code did): a v3 SET from a non-loopback caller registers a mapping. -/
theorem unchecked_rpcb_counterexample :
    let ck : Checks := { v2Set := true, v2Unset := true, rpcbSet := false, rpcbUnset := false, mismatchInfo := true }
    let args := encU32 100003 ++ encU32 3 ++ encOpaque netidTcp ++ encOpaque [49, 46, 50, 46, 51, 46, 52, 46, 56, 46, 49] ++ encOpaque []
    (rpcbSet ck.rpcbSet 8192 [] .other args).reg = [⟨100003, 3, 6, 2049⟩] := by
  decide

end Props.C27
