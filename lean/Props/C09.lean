/-
  C09 — Host filtering and the secure-port rule gate every request.
  Address text parsing is Go's (trusted); statements are about parsed addresses.
-/
import Absnfs.Auth
import Gen.Facts
open Absnfs

namespace Props.C09

theorem gen_secure_port : Gen.securePortBound = 1024 := by decide

/-- Both filters call the same membership rule after normalising the client address (regenerated fact:
    each of auth.go:isIPAllowed and Server.isIPAllowed calls normalizeIP on the client and on entries). -/
theorem gen_filters_normalise : (Gen.authFilterNormalises && Gen.serverFilterNormalises) = true := by decide

/-- Membership: admitted by a non-empty list iff some well-formed entry equals the address or is a CIDR
    containing it; malformed entries never match. -/
theorem allowed_iff (ip : IP) (entries : List AllowEntry) :
    ipAllowed (some ip) entries = true ↔
      ∃ e ∈ entries, (e = .single ip) ∨ (∃ b n, e = .cidr b n ∧ cidrContains b n ip = true) := by
  rw [ipAllowed_iff]
  constructor
  · rintro ⟨e, he, hm⟩
    refine ⟨e, he, ?_⟩
    cases e with
    | single x => left; simp [entryMatches] at hm; rw [hm]
    | cidr b n => right; exact ⟨b, n, rfl, hm⟩
    | bad => simp [entryMatches] at hm
  · rintro ⟨e, he, h⟩
    refine ⟨e, he, ?_⟩
    rcases h with h | ⟨b, n, h, hc⟩
    · subst h; simp [entryMatches]
    · subst h; exact hc

theorem malformed_client_rejected (entries : List AllowEntry) : ipAllowed none entries = false := rfl

theorem malformed_entries_skipped (ip : IP) (entries : List AllowEntry) :
    ipAllowed (some ip) (entries.filter (· ≠ .bad)) = ipAllowed (some ip) entries := by
  induction entries with
  | nil => rfl
  | cons e es ih =>
    simp only [ipAllowed] at ih ⊢
    by_cases h : e = .bad
    · subst h
      simp only [List.filter, ne_eq, not_true_eq_false, decide_false, List.any_cons, entryMatches,
        Bool.false_or]
      exact ih
    · simp only [List.filter, ne_eq, h, not_false_eq_true, decide_true, List.any_cons]
      rw [ih]

/-- CIDR membership is equality of the leading prefix-length bits, for every prefix length. -/
theorem cidr_v4 (b a ones : Nat) (h : ones ≤ 32) :
    cidrContains (.v4 b) ones (.v4 a) = true ↔ b / 2 ^ (32 - ones) = a / 2 ^ (32 - ones) :=
  cidrContains_iff_v4 b a ones h

theorem cidr_v6 (b a ones : Nat) (h : ones ≤ 128) :
    cidrContains (.v6 b) ones (.v6 a) = true ↔ b / 2 ^ (128 - ones) = a / 2 ^ (128 - ones) :=
  cidrContains_iff_v6 b a ones h

/-- An IPv4-mapped IPv6 client address is the same client as its IPv4 form. -/
theorem mapped_is_v4 (a : Nat) (h : a < 4294967296) (entries : List AllowEntry) :
    ipAllowed (some (normalizeIP (4294967296 * 65535 + a))) entries = ipAllowed (some (.v4 a)) entries := by
  rw [normalizeIP_mapped a h]

/-- An empty list admits everyone; a non-empty list admits exactly its members. -/
theorem empty_list_admits (c : Option IP) : hostAdmitted c [] = true := rfl

theorem nonempty_list_gates (c : Option IP) (e : AllowEntry) (es : List AllowEntry) :
    hostAdmitted c (e :: es) = ipAllowed c (e :: es) := by simp [hostAdmitted]

/-- A request that fails the host filter or the secure-port rule is denied, whatever its credential. -/
theorem gate_denies (ms mg : Nat) (c : Option IP) (es : List AllowEntry) (secure : Bool) (port fl : Nat)
    (body sq : Bytes)
    (h : hostAdmitted c es = false ∨ (secure = true ∧ port ≥ Gen.securePortBound)) :
    validateAuth ms mg c es secure port Gen.securePortBound fl body sq = .denied := by
  unfold validateAuth
  rcases h with h | ⟨h1, h2⟩
  · simp [h]
  · by_cases ha : hostAdmitted c es = true
    · simp [ha, h1, h2]
    · simp [ha]

/-- Secure: whatever is admitted came from a port below 1024. -/
theorem secure_only_privileged (ms mg : Nat) (c : Option IP) (es : List AllowEntry) (port fl : Nat)
    (body sq : Bytes) (id : Identity)
    (h : validateAuth ms mg c es true port Gen.securePortBound fl body sq = .allowed id) :
    port < 1024 := by
  have hb : Gen.securePortBound = 1024 := by decide
  rw [hb] at h
  unfold validateAuth at h
  by_cases hp : port ≥ 1024
  · split at h
    · simp at h
    · simp [hp] at h
  · omega

/-! non-vacuity -/
example : ipAllowed (some (.v4 0xC0A80164)) [.bad, .cidr (.v4 0xC0A80100) 24] = true := by decide
example : ipAllowed (some (.v4 0xC0A80264)) [.bad, .cidr (.v4 0xC0A80100) 24] = false := by decide
example : ipAllowed (some (normalizeIP (4294967296 * 65535 + 0x0A000001))) [.single (.v4 0x0A000001)] = true := by
  decide

/-- regenerated from the source on every run: HandleCall takes the policy read lock before it validates the caller (so that an update drains requests judged under the old policy), and the address it judges is the peer's -/
theorem gen_validation_under_lock : (Gen.handleCallValidatesUnderLock && Gen.connLoopClientIPFromPeer) = true := by decide

end Props.C09
