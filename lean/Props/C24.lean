/-
  C24 — Runtime reconfiguration keeps the server serviceable and is all-or-nothing.
-/
import Absnfs.Config
import Gen.Facts
open Absnfs Absnfs.Config

namespace Props.C24

/-- Regenerated from the source: the behaviour flags and the defaults tables. -/
def beh : Behaviour :=
  { tuningDefaults := Gen.cfgTuningUpdateAppliesDefaults, validatesFirst := Gen.cfgUpdateValidatesFirst,
    policyDefaultsRL := Gen.cfgPolicyDefaultsRateLimitConfig }

/-- defaults in table order; MaxWorkers' default is NumCPU × 4 (`cpu` = runtime.NumCPU()) -/
def dNum (cpu : Nat) : List Int :=
  Gen.cfgDefaults.map fun kv => if kv.1 = "MaxWorkers" then (4 * cpu : Int) else (kv.2 : Int)
def dTmo : List Int := Gen.cfgTimeoutDefaults.map fun kv => (kv.2 : Int)

theorem gen_behaviour :
    (Gen.cfgTuningUpdateAppliesDefaults && Gen.cfgUpdateValidatesFirst && Gen.cfgPolicyDefaultsRateLimitConfig &&
     Gen.cfgNewUsesSharedDefaults && Gen.cfgNilTimeoutsSameDefaults && Gen.cfgMaxWorkersIsNumCPUx4) = true := by
  decide

/-- the documented defaults, and every default is positive -/
theorem gen_defaults_table :
    Gen.cfgDefaults = [("TransferSize", 65536), ("AttrCacheTimeout", 5000000000), ("AttrCacheSize", 10000),
      ("NegativeCacheTimeout", 5000000000), ("DirCacheTimeout", 10000000000), ("DirCacheMaxEntries", 1000),
      ("DirCacheMaxDirSize", 10000), ("MaxWorkers", 0), ("MaxConnections", 100), ("IdleTimeout", 300000000000),
      ("SendBufferSize", 262144), ("ReceiveBufferSize", 262144)] ∧
    Gen.cfgTimeoutDefaults.length = 9 ∧ (Gen.cfgTimeoutDefaults.all fun kv => decide (0 < kv.2)) = true := by
  decide

theorem dNum_pos (cpu : Nat) (hc : 0 < cpu) : AllPos (dNum cpu) ∧ (dNum cpu).length = 12 := by
  have h := gen_defaults_table.1
  unfold dNum
  rw [h]
  refine ⟨?_, by simp⟩
  intro x hx
  simp at hx
  rcases hx with rfl | rfl | rfl | rfl | rfl | rfl | rfl | rfl | rfl | rfl | rfl | rfl <;> omega

theorem dTmo_pos : AllPos dTmo ∧ dTmo.length = 9 := by
  have h := gen_defaults_table.2
  refine ⟨?_, by simp [dTmo, h.1]⟩
  intro x hx
  simp only [dTmo, List.mem_map] at hx
  obtain ⟨kv, hkv, rfl⟩ := hx
  have := List.all_eq_true.mp h.2 kv hkv
  simp at this
  exact_mod_cast this

/-- One step keeps the configuration serviceable, whatever values the update carries (zero, negative, nil),
    as long as it has the right number of fields. -/
def Tuning.Shaped (t : Tuning) : Prop := t.num.length = 12 ∧ ∀ v, t.timeouts = some v → v.length = 9
def Op.Shaped : Op → Prop
  | .tuning t => Tuning.Shaped t
  | .policy _ => True
  | .exportUpd u => Tuning.Shaped u.tuning

theorem defaultTuning_serviceable (cpu : Nat) (hc : 0 < cpu) (t : Tuning) (hs : Tuning.Shaped t) :
    ServiceableT 12 9 (defaultTuning (dNum cpu) dTmo t) := by
  obtain ⟨hd, hdl⟩ := dNum_pos cpu hc
  obtain ⟨ht, htl⟩ := dTmo_pos
  have h1 := applyNum_pos (dNum cpu) t.num hd (by rw [hdl, hs.1])
  refine ⟨by simp [defaultTuning, h1.2, hdl], by simpa [defaultTuning] using h1.1, ?_⟩
  cases htm : t.timeouts with
  | none => exact ⟨dTmo, by simp [defaultTuning, htm], htl, ht⟩
  | some v =>
    have h2 := applyNum_pos dTmo v ht (by rw [htl, hs.2 v htm])
    exact ⟨applyNum dTmo v, by simp [defaultTuning, htm], by rw [h2.2, htl], h2.1⟩

theorem step_serviceable (cpu : Nat) (hc : 0 < cpu) (c : Cfg) (op : Op) (hop : Op.Shaped op)
    (h : Serviceable 12 9 c) : Serviceable 12 9 (step beh (dNum cpu) dTmo c op) := by
  have hb1 : beh.tuningDefaults = true := by decide
  cases op with
  | tuning t =>
    simp only [step, updateTuning, hb1, if_true, Serviceable]
    exact defaultTuning_serviceable cpu hc t hop
  | policy p =>
    simp only [step, updatePolicy]
    split
    · exact h
    · simp only [Option.getD_some]; exact h
  | exportUpd u =>
    simp only [step]
    rcases updateExport_tuning beh (dNum cpu) dTmo c u with he | he
    · rw [he]; exact h
    · unfold Serviceable
      rw [he]
      simp only [updateTuning, hb1, if_true]
      apply defaultTuning_serviceable cpu hc
      refine ⟨hop.1, ?_⟩
      intro v hv
      simp only [exportTuning] at hv
      cases hu : u.tuning.timeouts with
      | none =>
        simp only [hu] at hv
        obtain ⟨_, _, t, ht, htl, _⟩ := h
        rw [ht] at hv; cases hv; exact htl
      | some w => simp only [hu] at hv; cases hv; exact hop.2 _ hu

/-- After any sequence of runtime updates the server still has a positive transfer size, positive cache
    sizes / worker count / connection limit and positive timeouts. -/
theorem serviceable_forever (cpu : Nat) (hc : 0 < cpu) (c : Cfg) (ops : List Op) (hops : ∀ op ∈ ops, Op.Shaped op)
    (h : Serviceable 12 9 c) : Serviceable 12 9 (ops.foldl (step beh (dNum cpu) dTmo) c) := by
  induction ops generalizing c with
  | nil => exact h
  | cons op ops ih =>
    exact ih _ (fun o ho => hops o (List.mem_cons_of_mem _ ho))
      (step_serviceable cpu hc c op (hops op (List.mem_cons_self ..)) h)

/-- Zero or negative fields take exactly the construction default; positive ones are kept. -/
theorem unset_fields_take_defaults (cpu : Nat) (t : Tuning) (hs : Tuning.Shaped t) (i : Nat) (hi : i < 12) :
    (defaultTuning (dNum cpu) dTmo t).num[i]! = if t.num[i]! ≤ 0 then (dNum cpu)[i]! else t.num[i]! := by
  have hl : (dNum cpu).length = 12 := by simp [dNum, gen_defaults_table.1]
  exact applyNum_get (dNum cpu) t.num i (by omega) (by rw [hl, hs.1])

/-- A rejected UpdateExportOptions (Squash change) leaves the entire configuration unchanged. -/
theorem rejected_update_changes_nothing (cpu : Nat) (c : Cfg) (u : ExportUpdate)
    (hbad : u.policy.squash ≠ [] ∧ u.policy.squash ≠ c.policy.squash) :
    updateExport beh (dNum cpu) dTmo c u = (c, true) := by
  have hb : beh.validatesFirst = true := by decide
  simp [updateExport, hb, hbad]

theorem rejected_policy_changes_nothing (c : Cfg) (p : Policy) (h : c.policy.squash ≠ p.squash) :
    updatePolicy beh c p = none := by simp [updatePolicy, h]

/-- With validation after the tuning half (what the unrepaired code did) a rejected update is half applied. -/
theorem late_validation_counterexample :
    let b : Behaviour := { tuningDefaults := true, validatesFirst := false, policyDefaultsRL := true }
    let c : Cfg := { tuning := ⟨[65536], some [30], []⟩, policy := ⟨false, false, [], 0, false, none, 0⟩ }
    let u : ExportUpdate := { tuning := ⟨[1234], none, []⟩, policy := ⟨false, false, [97], 0, false, none, 0⟩ }
    (updateExport b [65536] [30] c u).2 = true ∧ (updateExport b [65536] [30] c u).1 ≠ c := by
  decide

/-! non-vacuity -/
example : ServiceableT 12 9 (defaultTuning (dNum 4) dTmo ⟨[0, 0, 0, 0, 0, 0, 0, 0, 0, 0, 0, 0], none, []⟩) :=
  defaultTuning_serviceable 4 (by decide) _ ⟨rfl, by simp⟩

end Props.C24
