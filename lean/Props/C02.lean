/-
  C02 — Namespace operations refine a POSIX tree model; caches are transparent.
  The tree model is the backing-filesystem model `Fs` (flat map from paths to entries with POSIX resolution),
  which the reference backend implements and is compared with operation by operation. The Lean server model
  applies each request to it, and the real server is replayed against the server model request by request
  under every cache configuration (so "each reply's success or failure and the resulting tree agree with the
  tree model" is the correspondence, over unbounded Lean semantics but sampled histories).
  PROVED here (all states, all argument byte strings, all histories, no bound): the cache-transparency core —
   * `CInv` (Absnfs/ServerInv.lean): every attribute-cache entry, positive or negative, agrees with what the
     backend's Lstat says at its path; keys are unique clean paths; the handle table holds clean paths; the
     backend model is well-formed. It holds for a new server and **every request keeps it** — every program,
     version, procedure and argument byte string, including the procedures that change the backend (SETATTR,
     WRITE, CREATE, MKDIR, SYMLINK, REMOVE, RMDIR, RENAME): their invalidations cover everything their backend
     operation changes (`handle_cinv`, `history_keeps_cinv`). The proof goes through the frame of each
     backend operation (what Lstat shows changes only at the operation's own path; for Rename only at or below
     the two names — Absnfs/FsFrame.lean, FsRename.lean), the injectivity of the path encoding on the paths
     the server builds (Absnfs/PathLemmas.lean), and the byte-prefix test of InvalidatePrefix being the
     component-prefix relation on such paths.
   * a CREATE, MKDIR, SYMLINK, REMOVE, RMDIR or RENAME answered with an error status has left the backend tree
     exactly as it was (`failed_*_leaves_tree`, Absnfs/ServerFailed.lean);
   * hence after any history a LOOKUP — whether it hits the cache, hits a negative entry or misses — reports
     exactly the backend's existence, type, size, mode and fileid (`lookup_after_any_history`): caching is
     invisible in LOOKUP replies for every TTL, size and negative-cache setting.
   * the directory-listing cache (`DcSup`, Absnfs/ServerDcSup.lean): after every history every cached listing is
     in strictly increasing name order and names every object the backend has directly below the listing's key.
     Hence the node list READDIR / READDIRPLUS work from — answered from the cache or from the backend — *is* the
     backend's directory in name order, restricted to the names the listing loop accepts
     (`listing_is_the_backend_after_any_history`; as corollaries `listing_misses_nothing`, `listing_invents_nothing`,
     `dircache_never_hides_a_name`): the directory cache is invisible for every TTL, size and max-dir-size setting.
     "Every cached listing equals the backend's listing of its key" is false of code and model alike (DESIGN §11.7);
     the superset is the invariant that holds, the one a forgotten dirCache.Invalidate breaks, and — because every
     cached name is looked up again — enough for equality of the replies. It needs the backend model to store no
     path twice (`Fs.WF` now says so, and every backend operation keeps it).
  The
  backend is the `Fs` model (errors only where the model has them: a backend that fails Chown after a
  successful Chmod would leave SetAttr's early return without an invalidation; outside the model).
-/
import Absnfs.ServerCoherent
import Absnfs.ServerInvProcs
import Absnfs.ServerFailed
import Absnfs.FsReach
import Absnfs.ServerLookup
import Absnfs.ServerListing
import Absnfs.ServerDcSup
import Absnfs.ServerAttrs3
import Props.C21
import Gen.Facts
open Absnfs Absnfs.Server

namespace Props.C02

theorem gen_invalidations : (Gen.mkdirInvalidates && Gen.renameInvalidatesPrefix && Gen.rmdirUsesLstat) = true := by decide

/-- every cache invalidation call of the modifying operations, in source order, as regenerated from operations.go
    and the handlers on this run: these are the invalidations the model's operations perform (`invalidateForNew`,
    `removeOp`, `renameOp`, `setAttrOp`, `writeOp`, `createStep1`, `procMkdir`, `procRmdir`, `setattrSize`), which
    the `CInv` theorems below are about -/
theorem gen_invalidation_sites : Gen.invalidationSites =
    [("CreateWithContext", ["attrCache.Invalidate(dir.path)", "attrCache.InvalidateNegativeInDir(dir.path)", "attrCache.Invalidate(path)", "dirCache.Invalidate(dir.path)"]),
     ("RemoveWithContext", ["attrCache.Invalidate(path)", "attrCache.Invalidate(dir.path)", "dirCache.Invalidate(dir.path)"]),
     ("RenameWithContext", ["attrCache.InvalidatePrefix(oldPath)", "attrCache.InvalidatePrefix(newPath)", "attrCache.Invalidate(oldDir.path)", "attrCache.Invalidate(newDir.path)", "attrCache.InvalidateNegativeInDir(oldDir.path)", "attrCache.InvalidateNegativeInDir(newDir.path)", "dirCache.Invalidate(oldDir.path)", "dirCache.Invalidate(newDir.path)", "dirCache.InvalidatePrefix(oldPath)", "dirCache.InvalidatePrefix(newPath)"]),
     ("SetAttr", ["attrCache.Invalidate(node.path)"]),
     ("Symlink", ["attrCache.Invalidate(dir.path)", "attrCache.InvalidateNegativeInDir(dir.path)", "attrCache.Invalidate(path)", "dirCache.Invalidate(dir.path)"]),
     ("WriteWithContext", ["attrCache.Invalidate(node.path)"]),
     ("handleCreate", ["attrCache.Invalidate(lookupPath)"]),
     ("handleMkdir", ["attrCache.Invalidate(node.path)", "attrCache.InvalidateNegativeInDir(node.path)", "attrCache.Invalidate(dirPath)", "dirCache.Invalidate(node.path)"]),
     ("handleRmdir", ["attrCache.Invalidate(targetPath)", "attrCache.Invalidate(node.path)", "dirCache.Invalidate(node.path)", "dirCache.Invalidate(targetPath)"]),
     ("handleSetattr", ["attrCache.Invalidate(node.path)"])] := by decide

/-- WRITE refuses a symbolic link's handle before the backend is touched (the model's `pre.kind = .link` test) -/
theorem gen_write_refuses_symlink : Gen.writeRefusesSymlink = true := by decide

/-- With a coherent attribute cache, LOOKUP answers exactly as the backend would: success only for a path that
    exists, with its true type, size, mode and fileid; failure only for a path whose lstat fails. -/
theorem lookup_transparent {s s' : St} {now : Nat} {p : Bytes} (hc : AcCoherent s) :
    (∀ node, lookupPath s now p = (s', .ok node) → node.path = p ∧ MatchesLstat s.fs p node.attrs) ∧
    (∀ st, lookupPath s now p = (s', .error st) → p = [] ∨ ∃ err, Fs.lstat s.fs (fsPath p) = .error err) :=
  lookupPath_sound hc

/-- a new server (empty cache) is coherent -/
theorem initial_coherent (s : St) (h : s.ac.entries = []) : AcCoherent s := by
  intro e he; rw [h] at he; simp at he

/-- every way of filling the cache stores the Lstat of that step -/
theorem lookup_keeps_coherent (s : St) (now : Nat) (p : Bytes) (hc : AcCoherent s) : AcCoherent (lookupPath s now p).1 :=
  lookupPath_coherent s now p hc
theorem getattr_keeps_coherent (s : St) (now : Nat) (n : Node) (hc : AcCoherent s) : AcCoherent (getAttr s now n).1 :=
  getAttr_coherent s now n hc
theorem readdirplus_refresh_keeps_coherent (s : St) (now : Nat) (l : List Node) (hc : AcCoherent s)
    (hids : ∀ n ∈ l, n.attrs.fileId = fnv64 n.path) : AcCoherent (refreshEach s now l).1 :=
  refreshEach_coherent s now l hc hids

/-- the procedures that do not modify the backend keep the cache coherent, for every argument byte string -/
theorem getattr_proc (s : St) (c : Ctx) (a : Bytes) (hc : AcCoherent s) : AcCoherent (procGetattr s c a).1 := procGetattr_coherent s c a hc
theorem lookup_proc (s : St) (c : Ctx) (a : Bytes) (hc : AcCoherent s) : AcCoherent (procLookup s c a).1 := procLookup_coherent s c a hc
theorem access_proc (s : St) (c : Ctx) (a : Bytes) (hc : AcCoherent s) : AcCoherent (procAccess s c a).1 := procAccess_coherent s c a hc
theorem readlink_proc (s : St) (c : Ctx) (a : Bytes) (hc : AcCoherent s) : AcCoherent (procReadlink s c a).1 := procReadlink_coherent s c a hc
theorem read_proc (s : St) (c : Ctx) (a : Bytes) (hc : AcCoherent s) : AcCoherent (procRead s c a).1 := procRead_coherent s c a hc
theorem readdir_proc (s : St) (c : Ctx) (a : Bytes) (hc : AcCoherent s) : AcCoherent (procReaddir s c a).1 := procReaddir_coherent s c a hc
theorem fs_procs (s : St) (c : Ctx) (a : Bytes) (k : Rfc.Fattr → Rfc.Body) (hc : AcCoherent s) :
    AcCoherent (withObjAttr s c a k).1 := withObjAttr_coherent s c a k hc
theorem mnt_proc (s : St) (c : Ctx) (a : Bytes) (hc : AcCoherent s) : AcCoherent (procMnt s c a).1 := procMnt_coherent s c a hc

/-- the invalidation primitives remove what they name (C21's theorems, restated on the attribute cache):
    Invalidate removes the key; InvalidateNegativeInDir removes exactly the negative direct children;
    InvalidatePrefix removes the path and everything below it -/
theorem invalidate_removes_key (c : Lru.Cache Attrs) (k : Bytes) (hI : Lru.Inv c) : k ∉ Lru.keys (Lru.invalidate c k) :=
  Props.C21.invalidate_removes c k hI

theorem invalidatePrefix_removes (c : Lru.Cache Attrs) (path : Bytes) :
    ∀ e ∈ (Lru.invalidatePrefix c path).entries, Lru.underPrefix e.key path = false := by
  intro e he
  unfold Lru.invalidatePrefix at he
  simp only [List.mem_filter, Bool.not_eq_true'] at he
  exact he.2

/-- what CREATE / MKDIR / SYMLINK invalidate for a new object at `path` in directory `dir`: the directory's and
    the path's attribute entries, the negative entries of the directory's children, the directory's listing -/
theorem new_object_invalidations (s : St) (dir path : Bytes) :
    invalidateForNew s dir path = dcInv (acInv (acInvNegIn (acInv s dir) dir) path) dir := rfl

/-! ### the invariant, for every request and every history -/

/-- a new server — empty attribute cache, empty handle table, over any well-formed backend tree — satisfies the invariant -/
theorem new_server_cinv (s : St) (hac : s.ac.entries = []) (hcap : 0 < s.ac.cap) (raw : Int) (hhs : s.hs = Handles.init raw)
    (hdm : 0 < s.cfg.defaultMaxHandles) (hwf : Fs.WF s.fs)
    (hdc : ∀ c, s.dc = some c → c.entries = [] ∧ 0 < c.cap) : CInv s where
  coh := initial_coherent s hac
  lru := ⟨by simp [Lru.keys, hac], by simp [hac], hcap⟩
  keys := by intro e he; rw [hac] at he; simp at he
  hcl := by intro x hx; rw [hhs] at hx; simp [Handles.init] at hx
  wf := hwf
  htab := by rw [hhs]; exact Handles.inv_init _ raw
  hdm := hdm
  dci := by
    intro c hc
    obtain ⟨he, hcap⟩ := hdc c hc
    exact ⟨by simp [Lru.keys, he], by simp [he], hcap⟩

/-- the empty backend is well-formed, and the operations that populate it keep it so -/
theorem empty_backend_wf (m : Nat) : Fs.WF (Fs.empty m) := Fs.wf_empty m
theorem mkdir_keeps_wf {fs fs1 : Fs.T} {p : Fs.Path} {perm : Nat} (h : Fs.mkdir fs p perm = .ok fs1) (hw : Fs.WF fs) : Fs.WF fs1 :=
  (Fs.mkdir_frame h hw).1
theorem symlink_keeps_wf {fs fs1 : Fs.T} {p : Fs.Path} {t : Bytes} (h : Fs.symlink fs t p = .ok fs1) (hw : Fs.WF fs) : Fs.WF fs1 :=
  (Fs.symlink_frame h hw).1
theorem rename_keeps_wf {fs fs1 : Fs.T} {a b : Fs.Path} (h : Fs.rename fs a b = .ok fs1) (hw : Fs.WF fs) : Fs.WF fs1 :=
  (Fs.rename_frame h hw).1
theorem remove_keeps_wf {fs fs1 : Fs.T} {p : Fs.Path} (h : Fs.remove fs p = .ok fs1) (hw : Fs.WF fs) : Fs.WF fs1 :=
  (Fs.remove_frame h hw).1

/-- every backend tree built from the empty one with the backend's own operations (Mkdir, Symlink, Create,
    WriteAt, Truncate, Chmod, Chown, Lchown, Remove, Rename; failing ones change nothing) is well-formed: the
    hypothesis of `new_server_cinv` holds for every tree a server can be started on -/
theorem reachable_backend_wf (m : Nat) (ops : List Fs.Op) : Fs.WF (ops.foldl Fs.applyOp (Fs.empty m)) :=
  Fs.reachable_wf m ops

/-- every request keeps the invariant: the server's own mutations never leave a stale attribute or negative entry -/
theorem handle_cinv (s : St) (c : Ctx) (prog vers proc : Nat) (args : Bytes) (h : CInv s) :
    CInv (handle s c prog vers proc args).1 := Server.handle_cinv s c prog vers proc args h

theorem history_keeps_cinv (s : St) (rs : List Req) (h : CInv s) : CInv (runReqs s rs) := runReqs_cinv s rs h

/-- C02, cache transparency of LOOKUP: after any history of requests on a new server, whatever the cache
    configuration, a lookup of any path answers as the backend would at that moment -/
theorem lookup_after_any_history (s0 : St) (rs : List Req) (h0 : CInv s0) (now : Nat) (p : Bytes) (s' : St) :
    (∀ node, lookupPath (runReqs s0 rs) now p = (s', .ok node) →
        node.path = p ∧ MatchesLstat (runReqs s0 rs).fs p node.attrs) ∧
    (∀ st, lookupPath (runReqs s0 rs) now p = (s', .error st) →
        p = [] ∨ ∃ err, Fs.lstat (runReqs s0 rs).fs (fsPath p) = .error err) :=
  lookup_transparent (history_keeps_cinv s0 rs h0).coh

/-- C02 at handler level, both directions: after any history, a LOOKUP of a valid name through a live directory
    handle is answered NFS3_OK exactly when the backend's Lstat finds the path — no cache content (stale positive
    entry, stale negative entry, expired or not) can make it answer otherwise. -/
theorem lookup_ok_iff_backend_has_it (s0 : St) (rs : List Req) (h0 : CInv s0) (c : Ctx) (args : Bytes) (hd : Nat)
    (r1 name r2 : Bytes) (n : Node) (hfh : decFh' (runReqs s0 rs) args = some (hd, r1))
    (hname : decStr (runReqs s0 rs) r1 = some (name, r2)) (hv : validateFilename name = 0)
    (hn : nodeOf (runReqs s0 rs) hd = some n) (hdir : n.attrs.kind = .dir) :
    (∃ s' fh fa da, procLookup (runReqs s0 rs) c args = (s', .res ⟨0, .lookupOk fh (some fa) da⟩)) ↔
    (∃ i, Fs.lstat (runReqs s0 rs).fs (fsPath (joinName n.path name)) = .ok i) :=
  procLookup_iff_backend s0 rs h0 c args hd r1 name r2 n hfh hname hv hn hdir

/-- the modifying procedures one by one (the statement the property names: MKDIR, RENAME, RMDIR staleness) -/
theorem mkdir_keeps_cinv (s : St) (c : Ctx) (a : Bytes) (h : CInv s) : CInv (procMkdir s c a).1 := procMkdir_cinv s c a h
theorem rename_keeps_cinv (s : St) (c : Ctx) (a : Bytes) (h : CInv s) : CInv (procRename s c a).1 := procRename_cinv s c a h
theorem rmdir_keeps_cinv (s : St) (c : Ctx) (a : Bytes) (h : CInv s) : CInv (procRmdir s c a).1 := procRmdir_cinv s c a h
theorem remove_keeps_cinv (s : St) (c : Ctx) (a : Bytes) (h : CInv s) : CInv (procRemove s c a).1 := procRemove_cinv s c a h
theorem create_keeps_cinv (s : St) (c : Ctx) (a : Bytes) (h : CInv s) : CInv (procCreate s c a).1 := procCreate_cinv s c a h
theorem symlink_keeps_cinv (s : St) (c : Ctx) (a : Bytes) (h : CInv s) : CInv (procSymlink s c a).1 := procSymlink_cinv s c a h
theorem write_keeps_cinv (s : St) (c : Ctx) (a : Bytes) (h : CInv s) : CInv (procWrite s c a).1 := procWrite_cinv s c a h
theorem setattr_keeps_cinv (s : St) (c : Ctx) (a : Bytes) (h : CInv s) : CInv (procSetattr s c a).1 := procSetattr_cinv s c a h

/-! ### "A failed request leaves the tree unchanged" — for every argument byte string, in every state satisfying
    the invariant (hence after every history): a CREATE, MKDIR, SYMLINK, REMOVE, RMDIR or RENAME that is answered
    with a non-zero status has not changed the backend. (The handlers fetch attributes after their backend call;
    those fetches cannot fail, because the call does not change what Lstat shows at the directory.) -/
theorem failed_create_leaves_tree (s s' : St) (c : Ctx) (a : Bytes) (st : Nat) (b : Rfc.Body) (h : CInv s)
    (heq : procCreate s c a = (s', .res ⟨st, b⟩)) (hst : st ≠ 0) : s'.fs = s.fs := procCreate_failed s s' c a st b h heq hst
theorem failed_mkdir_leaves_tree (s s' : St) (c : Ctx) (a : Bytes) (st : Nat) (b : Rfc.Body) (h : CInv s)
    (heq : procMkdir s c a = (s', .res ⟨st, b⟩)) (hst : st ≠ 0) : s'.fs = s.fs := procMkdir_failed s s' c a st b h heq hst
theorem failed_symlink_leaves_tree (s s' : St) (c : Ctx) (a : Bytes) (st : Nat) (b : Rfc.Body) (h : CInv s)
    (heq : procSymlink s c a = (s', .res ⟨st, b⟩)) (hst : st ≠ 0) : s'.fs = s.fs := procSymlink_failed s s' c a st b h heq hst
theorem failed_remove_leaves_tree (s s' : St) (c : Ctx) (a : Bytes) (st : Nat) (b : Rfc.Body) (h : CInv s)
    (heq : procRemove s c a = (s', .res ⟨st, b⟩)) (hst : st ≠ 0) : s'.fs = s.fs := procRemove_failed s s' c a st b h heq hst
theorem failed_rmdir_leaves_tree (s s' : St) (c : Ctx) (a : Bytes) (st : Nat) (b : Rfc.Body) (h : CInv s)
    (heq : procRmdir s c a = (s', .res ⟨st, b⟩)) (hst : st ≠ 0) : s'.fs = s.fs := procRmdir_failed s s' c a st b h heq hst
theorem failed_rename_leaves_tree (s s' : St) (c : Ctx) (a : Bytes) (st : Nat) (b : Rfc.Body) (h : CInv s)
    (heq : procRename s c a = (s', .res ⟨st, b⟩)) (hst : st ≠ 0) : s'.fs = s.fs := procRename_failed s s' c a st b h heq hst

/-! ### the directory-listing cache: the server's own mutations are never hidden

`CInv` also says the directory cache has unique keys, so an invalidation really removes the entry. After an
NFS3_OK MKDIR / SYMLINK / CREATE (of a new name) / REMOVE / RMDIR in a directory, or RENAME between two, the cache
holds no listing of the parent(s); `Props.C26.entries_are_the_backend_directory` then says the next READDIR or
READDIRPLUS of that directory is read from the backend. (What is *not* proved is that a listing which stays cached
equals the backend's: DESIGN §11.7.) -/

theorem mkdir_drops_parent_listing (s0 : St) (rs : List Req) (h0 : CInv s0) (s' : St) (c : Ctx) (args : Bytes) (fh : Nat)
    (fa : Rfc.Fattr) (w : Rfc.Wcc) (h : procMkdir (runReqs s0 rs) c args = (s', CreatedOk fh fa w)) :
    ∃ hd r1 n, decFh' (runReqs s0 rs) args = some (hd, r1) ∧ nodeOf (runReqs s0 rs) hd = some n ∧ DcCold s' n.path :=
  mkdir_then_listing_is_backend _ s' c args fh fa w (runReqs_cinv s0 rs h0) h

theorem symlink_drops_parent_listing (s0 : St) (rs : List Req) (h0 : CInv s0) (s' : St) (c : Ctx) (args : Bytes) (fh : Nat)
    (fa : Rfc.Fattr) (w : Rfc.Wcc) (h : procSymlink (runReqs s0 rs) c args = (s', CreatedOk fh fa w)) :
    ∃ hd r1 n, decFh' (runReqs s0 rs) args = some (hd, r1) ∧ nodeOf (runReqs s0 rs) hd = some n ∧ DcCold s' n.path :=
  symlink_then_listing_is_backend _ s' c args fh fa w (runReqs_cinv s0 rs h0) h

theorem create_drops_parent_listing (s0 : St) (rs : List Req) (h0 : CInv s0) (s' : St) (c : Ctx) (args : Bytes) (fh : Nat)
    (fa : Rfc.Fattr) (w : Rfc.Wcc) (h : procCreate (runReqs s0 rs) c args = (s', CreatedOk fh fa w)) :
    ∃ hd r1 name r2 n, decFh' (runReqs s0 rs) args = some (hd, r1) ∧ decStr (runReqs s0 rs) r1 = some (name, r2) ∧
      nodeOf (runReqs s0 rs) hd = some n ∧
      ((∃ err, Fs.lstat (runReqs s0 rs).fs (fsPath (joinName n.path name)) = .error err) → DcCold s' n.path) :=
  create_then_listing_is_backend _ s' c args fh fa w (runReqs_cinv s0 rs h0) h

theorem remove_drops_parent_listing (s0 : St) (rs : List Req) (h0 : CInv s0) (s' : St) (c : Ctx) (args : Bytes) (w : Rfc.Wcc)
    (h : procRemove (runReqs s0 rs) c args = (s', .res ⟨0, .wcc w⟩)) :
    ∃ hd r1 n, decFh' (runReqs s0 rs) args = some (hd, r1) ∧ nodeOf (runReqs s0 rs) hd = some n ∧ DcCold s' n.path :=
  remove_then_listing_is_backend _ s' c args w (runReqs_cinv s0 rs h0) h

theorem rmdir_drops_parent_listing (s0 : St) (rs : List Req) (h0 : CInv s0) (s' : St) (c : Ctx) (args : Bytes) (w : Rfc.Wcc)
    (h : procRmdir (runReqs s0 rs) c args = (s', .res ⟨0, .wcc w⟩)) :
    ∃ hd r1 n, decFh' (runReqs s0 rs) args = some (hd, r1) ∧ nodeOf (runReqs s0 rs) hd = some n ∧ DcCold s' n.path :=
  rmdir_then_listing_is_backend _ s' c args w (runReqs_cinv s0 rs h0) h

theorem rename_drops_both_parent_listings (s0 : St) (rs : List Req) (h0 : CInv s0) (s' : St) (c : Ctx) (args : Bytes)
    (w1 w2 : Rfc.Wcc) (h : procRename (runReqs s0 rs) c args = (s', .res ⟨0, .wcc2 w1 w2⟩)) :
    ∃ h1 r1 n1 r2 h2 r3 d1 d2, decFh' (runReqs s0 rs) args = some (h1, r1) ∧ decStr (runReqs s0 rs) r1 = some (n1, r2) ∧
      decFh' (runReqs s0 rs) r2 = some (h2, r3) ∧ nodeOf (runReqs s0 rs) h1 = some d1 ∧ nodeOf (runReqs s0 rs) h2 = some d2 ∧
      DcCold s' d1.path ∧ DcCold s' d2.path :=
  rename_then_listings_are_backend _ s' c args w1 w2 (runReqs_cinv s0 rs h0) h

/-- and the listing read while the cache is cold is the backend's (any state satisfying the invariant) -/
theorem cold_listing_is_the_backend (s : St) (now : Nat) (d : Node) (nodes : List Node) (hI : CInv s) (hcold : DcCold s d.path)
    (hd : CleanPath d.path) (e : Fs.Entry) (hwalk : Fs.walk s.fs (fsPath d.path) = .ok e) (hk : e.kind = .dir)
    (h : (readDir s now d).2 = .ok nodes) :
    nodes.map (·.path) =
      ((((Fs.sortByName (Fs.children s.fs (fsPath d.path))).map (·.1)).filter (listable d.path)).map (joinName d.path)) :=
  readDir_lists_backend s now d nodes hI hcold hd e hwalk hk h

/-! ### the directory-listing cache, for every request and every history

`DcSup s`: every listing in the directory cache names every object the backend has directly below the listing's
key. It holds for a new server (no entries) and every request keeps it: READDIR stores what the backend lists under
the key it read; CREATE / MKDIR / SYMLINK add one name and drop the listing of its directory; RENAME adds names only
at or below the destination and drops every listing there and the destination parent's; every other procedure
creates nothing. -/

theorem new_server_dcSup (s : St) (hdc : ∀ c, s.dc = some c → c.entries = [] ∧ 0 < c.cap) : DcSup s :=
  dcSup_of_empty fun c hc => (hdc c hc).1

theorem handle_keeps_dcSup (s : St) (c : Ctx) (prog vers proc : Nat) (args : Bytes) (h : CInv s) (hS : DcSup s) :
    DcSup (handle s c prog vers proc args).1 := handle_dcSup s c prog vers proc args h hS

theorem history_keeps_dcSup (s : St) (rs : List Req) (h : CInv s) (hS : DcSup s) : DcSup (runReqs s rs) :=
  runReqs_dcSup s rs h hS

/-- after any history, whatever the cache configuration: if the directory cache holds a listing for a key, then
    every object the backend currently has directly below that key is named in it -/
theorem dircache_never_hides_a_name (s0 : St) (rs : List Req) (h0 : CInv s0) (hS0 : DcSup s0)
    (c : Lru.Cache (List Bytes)) (hc : (runReqs s0 rs).dc = some c) (e : Lru.Entry (List Bytes)) (he : e ∈ c.entries)
    (names : List Bytes) (hv : e.val = some names) (x : Bytes)
    (hx : existsAt (runReqs s0 rs).fs (fsPath e.key ++ [x]) = true) : x ∈ names :=
  ((runReqs_dcSup s0 rs h0 hS0 c hc e he).2 names hv).2 x hx

/-- C02, cache transparency of directory listings (completeness): after any history, whether the listing comes
    from the directory cache or from the backend, the nodes READDIR / READDIRPLUS work from include every object that
    exists directly below the directory and whose name the listing loop accepts — a mutation the server completed
    (a CREATE, MKDIR, SYMLINK, or a RENAME into the directory) is never hidden by a cached listing -/
theorem listing_misses_nothing (s0 : St) (rs : List Req) (h0 : CInv s0) (hS0 : DcSup s0) (now : Nat) (d : Node)
    (nodes : List Node) (hd : CleanPath d.path) (h : (readDir (runReqs s0 rs) now d).2 = .ok nodes) (x : Bytes)
    (hl : listable d.path x = true) (i : Fs.Info) (hx : Fs.lstat (runReqs s0 rs).fs (fsPath d.path ++ [x]) = .ok i) :
    joinName d.path x ∈ nodes.map (·.path) :=
  readDir_complete _ now d nodes (runReqs_cinv s0 rs h0) (runReqs_dcSup s0 rs h0 hS0) hd h x hl (existsAt_of_lstat hx)

/-- C02, cache transparency of directory listings, full statement: after any history of requests on a server whose
    directory cache started empty — whatever its TTL, capacity and max-dir-size, whether the listing is answered
    from the cache or read from the backend — the node list of a READDIR / READDIRPLUS is the backend's directory in
    name order, restricted to the names the listing loop accepts. Same right-hand side as `cold_listing_is_the_backend`,
    without the hypothesis that the cache is cold. -/
theorem listing_is_the_backend_after_any_history (s0 : St) (rs : List Req) (h0 : CInv s0) (hS0 : DcSup s0) (now : Nat)
    (d : Node) (nodes : List Node) (hd : CleanPath d.path) (h : (readDir (runReqs s0 rs) now d).2 = .ok nodes) :
    nodes.map (·.path) =
      ((((Fs.sortByName (Fs.children (runReqs s0 rs).fs (fsPath d.path))).map (·.1)).filter (listable d.path)).map
        (joinName d.path)) :=
  readDir_is_backend _ now d nodes (runReqs_cinv s0 rs h0) (runReqs_dcSup s0 rs h0 hS0) hd h

/-- … (soundness) and every node is a name the listing loop accepts, directly below the directory, carrying what the
    backend's Lstat says about it at that moment — a REMOVE, RMDIR or RENAME away is never hidden either -/
theorem listing_invents_nothing (s0 : St) (rs : List Req) (h0 : CInv s0) (now : Nat) (d : Node) (nodes : List Node)
    (h : (readDir (runReqs s0 rs) now d).2 = .ok nodes) (nd : Node) (hnd : nd ∈ nodes) :
    MatchesLstat (runReqs s0 rs).fs nd.path nd.attrs ∧ ∃ x, listable d.path x = true ∧ nd.path = joinName d.path x := by
  refine ⟨readDir_matches _ now d (runReqs_cinv s0 rs h0).coh nodes h nd hnd, ?_⟩
  obtain ⟨x, _, hl, hp⟩ := readDir_paths _ now d nodes h nd hnd
  exact ⟨x, hl, hp⟩

/-- non-vacuity: the premises of `new_server_cinv` are met by a concrete server state -/
def demoState : St :=
  { fs := Fs.empty 1000, hs := Handles.init 0, nodes := [],
    ac := { entries := [], cap := 10, ttl := 5, negTtl := 5, enableNeg := true, hitAtEq := false },
    dc := none, excl := [],
    cfg := { transfer := 65536, readOnly := false, maxFileSize := 0, squash := .none, maxStr := 8192, fhMax := 64,
             defaultMaxHandles := 100000, evictDivisor := 10, dcMaxDirSize := 10000, maxRecord := 1048576, writeVerf := [] } }
example : CInv demoState := new_server_cinv demoState rfl (by decide) 0 rfl (by decide) (Fs.wf_empty 1000)
  (by intro c hc; simp [demoState] at hc)

/-- … and of `new_server_dcSup`, by a server state with a directory cache -/
def demoStateDc : St :=
  { demoState with dc := some { entries := [], cap := 4, ttl := 5, negTtl := 0, enableNeg := false, hitAtEq := true } }
theorem demoStateDc_ok : CInv demoStateDc ∧ DcSup demoStateDc :=
  ⟨new_server_cinv demoStateDc rfl (by decide) 0 rfl (by decide) (Fs.wf_empty 1000)
     (by intro c hc; simp only [demoStateDc, Option.some.injEq] at hc; rw [← hc]; exact ⟨rfl, by decide⟩),
   new_server_dcSup demoStateDc (by intro c hc; simp only [demoStateDc, Option.some.injEq] at hc; rw [← hc]; exact ⟨rfl, by decide⟩)⟩

/-- the invariant is not trivially true: a listing that lacks an existing child violates it (this is the state a
    forgotten `dirCache.Invalidate` produces) -/
example : ¬ DcSupD ((Fs.mkdir (Fs.empty 1000) [[97]] 0o755).toOption.getD (Fs.empty 1000))
    (some { entries := [{ key := [47], val := some [], expireAt := 10 }], cap := 4, ttl := 5, negTtl := 0,
            enableNeg := false, hitAtEq := true }) := by
  intro h
  have := ((h _ rfl _ (List.mem_singleton.mpr rfl)).2 [] rfl).2 [97] (by decide)
  simp at this

/-- … while the same cache content is fine once the listing names the child -/
example : DcSupD ((Fs.mkdir (Fs.empty 1000) [[97]] 0o755).toOption.getD (Fs.empty 1000))
    (some { entries := [{ key := [47], val := some [[97]], expireAt := 10 }], cap := 4, ttl := 5, negTtl := 0,
            enableNeg := false, hitAtEq := true }) := by
  intro c hc e he
  simp only [Option.some.injEq] at hc
  rw [← hc] at he
  simp only [List.mem_singleton] at he
  subst he
  refine ⟨.root, ?_⟩
  intro names hv
  simp only [Option.some.injEq] at hv
  subst hv
  refine ⟨by simp [Fs.Increasing], ?_⟩
  intro x hx
  have hroot : fsPath [47] = [] := fsPath_root
  rw [hroot] at hx
  simp only [List.nil_append] at hx
  have : (Fs.mkdir (Fs.empty 1000) [[97]] 0o755).toOption.getD (Fs.empty 1000) =
      { ents := [([[97]], { kind := .dir, perm := 0o755, uid := 0, gid := 0, data := [], ino := 2 }),
                 ([], { kind := .dir, perm := 0o755, uid := 0, gid := 0, data := [], ino := 1 })], nextIno := 3, maxSize := 1000 } := by
    rfl
  rw [this] at hx
  unfold existsAt Fs.get at hx
  simp only [List.find?_cons, List.find?_nil] at hx
  cases hb : (([[97]] : Fs.Path) == [x])
  · rw [hb] at hx; simp at hx
  · have := eq_of_beq hb
    simp only [List.cons.injEq, and_true] at this
    simp [← this]

end Props.C02
