/-
  C02 — Namespace operations refine a POSIX tree model; caches are transparent.
  The tree model is the backing-filesystem model `Fs` (flat map from paths to entries with POSIX resolution),
  which the reference backend implements and is compared with operation by operation. The Lean server model
  applies each request to it, and the real server is replayed against the server model request by request
  under every cache configuration (so "each reply's success or failure and the resulting tree agree with the
  tree model" is the correspondence, over unbounded Lean semantics but sampled histories).
  PROVED here (all states, all argument byte strings): the cache-transparency core —
   * a coherent attribute cache never changes what LOOKUP says about existence, type, size, mode, fileid;
   * the attribute cache is only ever filled with what an Lstat in the same step returned, so every procedure
     that does not modify the backend keeps it coherent (GETATTR, LOOKUP, ACCESS, READLINK, READ, READDIR,
     FSSTAT, FSINFO, PATHCONF, MNT);
   * the invalidations the modifying procedures perform, by key (Lru theorems of C21 + regenerated facts).
  NOT PROVED (partial): that those invalidations cover everything a modification changes (it needs the
  well-formedness of the flat map and key canonicity) — this is what the cross-configuration oracle (same
  history under all 8 cache settings, plus mid-history expiry and a 3-entry cache) and the correspondence check.
-/
import Absnfs.ServerCoherent
import Props.C21
import Gen.Facts
open Absnfs Absnfs.Server

namespace Props.C02

theorem gen_invalidations : (Gen.mkdirInvalidates && Gen.renameInvalidatesPrefix && Gen.rmdirUsesLstat) = true := by decide

/-- With a coherent attribute cache, LOOKUP answers exactly as the backend would: success only for a path that
    exists, with its true type, size, mode and fileid; failure only for a path whose lstat fails. -/
theorem lookup_transparent {s s' : St} {now : Nat} {p : Bytes} (hc : AcCoherent s) :
    (∀ node, lookupPath s now p = (s', .ok node) → node.path = p ∧ MatchesLstat s.fs p node.attrs) ∧
    (∀ st, lookupPath s now p = (s', .error st) → p = [] ∨ ∃ err, Fs.lstat s.fs (fsPath p) = .error err) :=
  lookupPath_sound hc

/-- a new server (empty cache) is coherent -/
theorem initial_coherent (s : St) (h : s.ac.entries = []) : AcCoherent s := by
  intro e he; rw [h] at he; simp at he

/-- every way of filling the cache stores the Lstat of that step -/
theorem lookup_keeps_coherent (s : St) (now : Nat) (p : Bytes) (hc : AcCoherent s) : AcCoherent (lookupPath s now p).1 :=
  lookupPath_coherent s now p hc
theorem getattr_keeps_coherent (s : St) (now : Nat) (n : Node) (hc : AcCoherent s) : AcCoherent (getAttr s now n).1 :=
  getAttr_coherent s now n hc
theorem readdirplus_refresh_keeps_coherent (s : St) (now : Nat) (l : List Node) (hc : AcCoherent s)
    (hids : ∀ n ∈ l, n.attrs.fileId = fnv64 n.path) : AcCoherent (refreshEach s now l).1 :=
  refreshEach_coherent s now l hc hids

/-- the procedures that do not modify the backend keep the cache coherent, for every argument byte string -/
theorem getattr_proc (s : St) (c : Ctx) (a : Bytes) (hc : AcCoherent s) : AcCoherent (procGetattr s c a).1 := procGetattr_coherent s c a hc
theorem lookup_proc (s : St) (c : Ctx) (a : Bytes) (hc : AcCoherent s) : AcCoherent (procLookup s c a).1 := procLookup_coherent s c a hc
theorem access_proc (s : St) (c : Ctx) (a : Bytes) (hc : AcCoherent s) : AcCoherent (procAccess s c a).1 := procAccess_coherent s c a hc
theorem readlink_proc (s : St) (c : Ctx) (a : Bytes) (hc : AcCoherent s) : AcCoherent (procReadlink s c a).1 := procReadlink_coherent s c a hc
theorem read_proc (s : St) (c : Ctx) (a : Bytes) (hc : AcCoherent s) : AcCoherent (procRead s c a).1 := procRead_coherent s c a hc
theorem readdir_proc (s : St) (c : Ctx) (a : Bytes) (hc : AcCoherent s) : AcCoherent (procReaddir s c a).1 := procReaddir_coherent s c a hc
theorem fs_procs (s : St) (c : Ctx) (a : Bytes) (k : Rfc.Fattr → Rfc.Body) (hc : AcCoherent s) :
    AcCoherent (withObjAttr s c a k).1 := withObjAttr_coherent s c a k hc
theorem mnt_proc (s : St) (c : Ctx) (a : Bytes) (hc : AcCoherent s) : AcCoherent (procMnt s c a).1 := procMnt_coherent s c a hc

/-- the invalidation primitives remove what they name (C21's theorems, restated on the attribute cache):
    Invalidate removes the key; InvalidateNegativeInDir removes exactly the negative direct children;
    InvalidatePrefix removes the path and everything below it -/
theorem invalidate_removes_key (c : Lru.Cache Attrs) (k : Bytes) (hI : Lru.Inv c) : k ∉ Lru.keys (Lru.invalidate c k) :=
  Props.C21.invalidate_removes c k hI

theorem invalidatePrefix_removes (c : Lru.Cache Attrs) (path : Bytes) :
    ∀ e ∈ (Lru.invalidatePrefix c path).entries, Lru.underPrefix e.key path = false := by
  intro e he
  unfold Lru.invalidatePrefix at he
  simp only [List.mem_filter, Bool.not_eq_true'] at he
  exact he.2

/-- what CREATE / MKDIR / SYMLINK invalidate for a new object at `path` in directory `dir`: the directory's and
    the path's attribute entries, the negative entries of the directory's children, the directory's listing -/
theorem new_object_invalidations (s : St) (dir path : Bytes) :
    invalidateForNew s dir path = dcInv (acInv (acInvNegIn (acInv s dir) dir) path) dir := rfl

end Props.C02
