/-
  C28 — Every documented way of starting a server speaks standard (record-marked) ONC RPC over TCP.
  The logic is a three-line case analysis over facts regenerated from the source; the TCP behaviour itself
  (a conformant client gets answers to NULL, MNT and GETATTR) is exercised by the harness.
-/
import Absnfs.Startup
import Gen.Facts
open Absnfs.Startup

namespace Props.C28

def facts : Facts :=
  { exportSetsRecordMarking := Gen.exportSetsRecordMarking,
    portmapperSetsRecordMarking := Gen.portmapperSetsRecordMarking,
    acceptLoopBranchesOnOption := Gen.acceptLoopBranchesOnRecordMarking }

theorem gen_facts :
    (Gen.exportSetsRecordMarking && Gen.portmapperSetsRecordMarking && Gen.acceptLoopBranchesOnRecordMarking) = true := by
  decide

theorem documented_paths_record_marked : ∀ p ∈ documented, framing facts p = .recordMarking := by
  decide

/-- as a function of the facts: a start path is record-marked iff its option is set and the accept loop
    honours it — so losing either one makes the corresponding theorem above fail -/
theorem export_framing_iff (f : Facts) :
    framing f .export = .recordMarking ↔ (f.exportSetsRecordMarking = true ∧ f.acceptLoopBranchesOnOption = true) := by
  cases f with
  | mk a b c => cases a <;> cases b <;> cases c <;> decide

theorem portmapper_framing_iff (f : Facts) :
    framing f .withPortmapper = .recordMarking ↔
      (f.portmapperSetsRecordMarking = true ∧ f.acceptLoopBranchesOnOption = true) := by
  cases f with
  | mk a b c => cases a <;> cases b <;> cases c <;> decide

/-- the unrepaired quick-start path (no UseRecordMarking in Export's ServerOptions) was raw -/
theorem export_without_option_is_raw :
    framing { exportSetsRecordMarking := false, portmapperSetsRecordMarking := true,
              acceptLoopBranchesOnOption := true } .export = .raw := by decide

/-- regenerated from the source on every run: StartWithPortmapper computes the ports it registers after Listen has bound -/
theorem gen_portmapper_registers_bound_port : Gen.portmapperRegistersAfterListen = true := by decide

/-- regenerated from the source on every run: a closing connection gives its slot back whatever the Debug option (Export cannot turn Debug on) -/
theorem gen_uncount_unconditional : Gen.unregisterUncountsUnconditionally = true := by decide

/-- the read timeout bounds the silence between two calls, not the age of the connection: the deadline is renewed
    inside the request loop -/
theorem gen_read_deadline_renewed : Gen.connLoopRenewsReadDeadline = true := by decide

end Props.C28
