/-
  C05 — File handles are live when issued, one per path, and the table is bounded.
  `Gen.defaultMaxHandles` / `Gen.evictDivisor` are read from filehandle.go on every run.
-/
import Absnfs.HandlesInv
import Absnfs.ServerHandles
import Gen.Facts
open Absnfs Absnfs.Handles

namespace Props.C05

theorem gen_constants : Gen.defaultMaxHandles = 100000 ∧ Gen.evictDivisor = 10 ∧ 0 < Gen.defaultMaxHandles := by
  decide

/-- Regenerated structural fact: the eviction loop in Allocate skips the handle it has just assigned. -/
theorem gen_eviction_skips_new : Gen.evictionSkipsAssigned = true := by decide
/-- each table operation is one critical section in the code, as `alloc`/`release`/`releaseAll` are one step here -/
theorem gen_ops_atomic : Gen.handleOpsAtomic = true := by decide

abbrev alloc' := alloc Gen.defaultMaxHandles Gen.evictDivisor
abbrev run' := run Gen.defaultMaxHandles Gen.evictDivisor
abbrev Inv' := Inv Gen.defaultMaxHandles

/-- Every reachable table satisfies the invariant (unique ids, unique paths, free ∩ live = ∅, ids < next). -/
theorem reachable_inv (raw : Int) (ops : List Op) (hw : ∀ op ∈ ops, op.WF) : Inv' (run' (init raw) ops) :=
  inv_run _ _ (by decide) _ ops hw (inv_init _ raw)

theorem run_maxRaw (dm dv : Nat) (s : St) (ops : List Op) : (run dm dv s ops).maxRaw = s.maxRaw := by
  induction ops generalizing s with
  | nil => rfl
  | cons op ops ih =>
    simp only [run, List.foldl_cons]
    have h1 : (step dm dv s op).maxRaw = s.maxRaw := by
      cases op with
      | alloc p =>
        simp only [step, alloc]
        split
        · rfl
        · split <;> rfl
      | release h => simp only [step, release]; split <;> rfl
      | releaseAll => rfl
    have := ih (step dm dv s op)
    simp only [run] at this
    rw [this, h1]

/-- Bounded: after any history, for any configured maximum, live handles ≤ the effective maximum. -/
theorem bounded (raw : Int) (ops : List Op) (hw : ∀ op ∈ ops, op.WF) :
    (run' (init raw) ops).live.length ≤ effMax Gen.defaultMaxHandles raw := by
  have := (reachable_inv raw ops hw).bounded
  rw [run_maxRaw] at this
  exact this

/-- Live when issued: the handle Allocate returns resolves, in the resulting table, to the path it was
    issued for — whether it was deduplicated, fresh, or recycled, and whether or not eviction ran. -/
theorem live_when_issued (s : St) (p : Bytes) (hp : p ≠ []) (hI : Inv' s) :
    get (alloc' s p).1 (alloc' s p).2 = some p := by
  unfold alloc' alloc
  rw [if_neg hp]
  split
  · rename_i h hh
    exact (get_eq_some_iff hI.idsNodup h p).mpr ((handleOf_eq_some_iff hI.pathsNodup h p).mp hh)
  · simp only
    split
    · simp only
      obtain ⟨rest', hr⟩ := evictN_head (evictCount (effMax Gen.defaultMaxHandles s.maxRaw) Gen.evictDivisor)
        (pick s).1 p s.live
      simp [Handles.get, hr]
    · simp [Handles.get]

/-- One per path: while a handle is live, re-issuing for its path returns the same value and changes nothing. -/
theorem one_per_path (s : St) (h : Nat) (p : Bytes) (hp : p ≠ []) (hI : Inv' s) (hg : get s h = some p) :
    (alloc' s p).2 = h ∧ (alloc' s p).1.live = s.live := by
  have hm := (get_eq_some_iff hI.idsNodup h p).mp hg
  have hh := (handleOf_eq_some_iff hI.pathsNodup h p).mpr hm
  unfold alloc' alloc
  rw [if_neg hp, hh]
  exact ⟨rfl, rfl⟩

/-- Distinct live paths have distinct handles, and a live handle denotes one path. -/
theorem handles_injective (s : St) (hI : Inv' s) (h : Nat) (p q : Bytes)
    (h1 : get s h = some p) (h2 : get s h = some q) : p = q := by
  rw [h1] at h2; exact Option.some.inj h2

/-- KNOWN FINDING (C05/readdirplus-evicts-own-handles), kept in the model: protecting only the id just
    assigned does not protect ids assigned earlier in the same READDIRPLUS reply. With a full table the
    recycled (small) ids of the first entries are exactly what the next eviction removes.
    Witness: max 2; a,b live; release a (id 1 is free); one reply allocates c (gets id 1) then d: the
    eviction triggered by d removes id 1, the handle just returned for c. -/
theorem readdirplus_counterexample :
    let s0 := run 100000 10 (init 2) [.alloc [97], .alloc [98], .release 1]
    let r1 := alloc 100000 10 s0 [99]
    let r2 := alloc 100000 10 r1.1 [100]
    r1.2 = 1 ∧ get r2.1 r1.2 = none := by
  decide

/-- What does hold for multi-handle replies: if the table has room for all of them, none is evicted. -/
theorem no_eviction_when_room (s : St) (p : Bytes) (hp : p ≠ [])
    (hroom : s.live.length + 1 ≤ effMax Gen.defaultMaxHandles s.maxRaw) (h : Nat) (q : Bytes)
    (hq : (h, q) ∈ s.live) : (h, q) ∈ (alloc' s p).1.live := by
  unfold alloc' alloc
  rw [if_neg hp]
  split
  · exact hq
  · simp only
    rw [if_neg (by simp only [List.length_cons]; omega)]
    exact List.mem_cons_of_mem _ hq

/-! non-vacuity -/
example : Inv' (run' (init 2) [.alloc [97], .alloc [98], .alloc [99], .release 2, .alloc [100]]) :=
  reachable_inv 2 _ (by intro op hop; simp at hop; rcases hop with rfl | rfl | rfl | rfl | rfl <;> simp [Op.WF])
example : (run' (init 2) [.alloc [97], .alloc [98], .alloc [99]]).live.length = 2 := by decide

/-! ### handler level: the table inside the server, after any history of requests

`Server.CInv` (the invariant every request keeps, `Props.C02.handle_cinv`) carries the table invariant, so the three
clauses of the property are statements about replies. `s0` is any state satisfying the invariant (a new server does:
`Props.C02.new_server_cinv`), `rs` any list of requests. -/

section handler
open Absnfs.Server

/-- Clause 1, LOOKUP / CREATE / MKDIR / SYMLINK / MNT: the handle in an NFS3_OK reply resolves, in the state the
    reply leaves behind (what the immediately following request sees), to directory-path/name (MNT: the cleaned
    path), and the node stored under it carries the attributes the reply reported. -/
theorem lookup_handle_resolves (s0 : Server.St) (rs : List Req) (h0 : CInv s0) (s' : Server.St) (c : Ctx) (args : Bytes) (fh : Nat)
    (fa : Rfc.Fattr) (da : Option Rfc.Fattr)
    (h : procLookup (runReqs s0 rs) c args = (s', .res ⟨0, .lookupOk fh (some fa) da⟩)) :
    ∃ hd r1 name r2 n a, decFh' (runReqs s0 rs) args = some (hd, r1) ∧ decStr (runReqs s0 rs) r1 = some (name, r2) ∧
      nodeOf (runReqs s0 rs) hd = some n ∧ nodeOf s' fh = some { path := joinName n.path name, attrs := a } ∧ fa = toFattr a :=
  procLookup_handle _ s' c args fh fa da (runReqs_cinv s0 rs h0) h

theorem create_handle_resolves (s0 : Server.St) (rs : List Req) (h0 : CInv s0) (s' : Server.St) (c : Ctx) (args : Bytes) (fh : Nat)
    (fa : Rfc.Fattr) (w : Rfc.Wcc) (h : procCreate (runReqs s0 rs) c args = (s', CreatedOk fh fa w)) :
    ∃ hd r1 name r2 n a, decFh' (runReqs s0 rs) args = some (hd, r1) ∧ decStr (runReqs s0 rs) r1 = some (name, r2) ∧
      nodeOf (runReqs s0 rs) hd = some n ∧ nodeOf s' fh = some { path := joinName n.path name, attrs := a } ∧ fa = toFattr a ∧
      MatchesLstat s'.fs (joinName n.path name) a :=
  procCreate_handle _ s' c args fh fa w (runReqs_cinv s0 rs h0) h

theorem mkdir_handle_resolves (s0 : Server.St) (rs : List Req) (h0 : CInv s0) (s' : Server.St) (c : Ctx) (args : Bytes) (fh : Nat)
    (fa : Rfc.Fattr) (w : Rfc.Wcc) (h : procMkdir (runReqs s0 rs) c args = (s', CreatedOk fh fa w)) :
    ∃ hd r1 name r2 n a, decFh' (runReqs s0 rs) args = some (hd, r1) ∧ decStr (runReqs s0 rs) r1 = some (name, r2) ∧
      nodeOf (runReqs s0 rs) hd = some n ∧ nodeOf s' fh = some { path := joinName n.path name, attrs := a } ∧ fa = toFattr a ∧
      MatchesLstat s'.fs (joinName n.path name) a :=
  procMkdir_handle _ s' c args fh fa w (runReqs_cinv s0 rs h0) h

theorem symlink_handle_resolves (s0 : Server.St) (rs : List Req) (h0 : CInv s0) (s' : Server.St) (c : Ctx) (args : Bytes) (fh : Nat)
    (fa : Rfc.Fattr) (w : Rfc.Wcc) (h : procSymlink (runReqs s0 rs) c args = (s', CreatedOk fh fa w)) :
    ∃ hd r1 name r2 n a, decFh' (runReqs s0 rs) args = some (hd, r1) ∧ decStr (runReqs s0 rs) r1 = some (name, r2) ∧
      nodeOf (runReqs s0 rs) hd = some n ∧ nodeOf s' fh = some { path := joinName n.path name, attrs := a } ∧ fa = toFattr a ∧
      MatchesLstat s'.fs (joinName n.path name) a :=
  procSymlink_handle _ s' c args fh fa w (runReqs_cinv s0 rs h0) h

theorem mnt_handle_resolves (s0 : Server.St) (rs : List Req) (h0 : CInv s0) (s' : Server.St) (c : Ctx) (args fhb : Bytes)
    (auth : List Nat) (h : procMnt (runReqs s0 rs) c args = (s', .res ⟨0, .mntOk fhb auth⟩)) :
    ∃ raw r fh a, decStr (runReqs s0 rs) args = some (raw, r) ∧ fhb = encU64 fh ∧
      nodeOf s' fh = some { path := cleanAbs raw, attrs := a } :=
  procMnt_handle _ s' c args fhb auth (runReqs_cinv s0 rs h0) h

/-- Clause 1, READDIRPLUS — PARTIAL: pages whose listing fits in the table (no eviction inside the batch). Every
    handle of an NFS3_OK page resolves, after the whole page was built, to an object with the entry's name.
    The full statement is false on a full table: `readdirplus_counterexample`, known finding
    C05/readdirplus-evicts-own-handles. -/
theorem readdirplus_handles_resolve_partial (s0 : Server.St) (rs : List Req) (h0 : CInv s0) (s' : Server.St) (c : Ctx) (args : Bytes)
    (a : Option Rfc.Fattr) (verf : Bytes) (ents : List Rfc.DirEntPlus) (eof : Bool)
    (hroom : ∀ hd r1 n nodes, decFh' (runReqs s0 rs) args = some (hd, r1) → nodeOf (runReqs s0 rs) hd = some n →
      (readDir (runReqs s0 rs) c.now n).2 = .ok nodes →
      (runReqs s0 rs).hs.live.length + nodes.length ≤
        effMax (runReqs s0 rs).cfg.defaultMaxHandles (runReqs s0 rs).hs.maxRaw)
    (h : procReaddirplus (runReqs s0 rs) c args = (s', .res ⟨0, .readdirplusOk a verf ents eof⟩)) :
    ∀ e ∈ ents, ∃ fh p at', e.fh = some fh ∧ e.name = baseName p ∧ nodeOf s' fh = some { path := p, attrs := at' } :=
  procReaddirplus_handles _ s' c args a verf ents eof (runReqs_cinv s0 rs h0) hroom h

/-- Clause 2: while a handle for dir-path/name is live, a LOOKUP of that name returns the same handle value;
    and two live handles never name the same path. -/
theorem lookup_reissues_same_handle (s0 : Server.St) (rs : List Req) (h0 : CInv s0) (s' : Server.St) (c : Ctx) (args : Bytes) (fh : Nat)
    (fa da : Option Rfc.Fattr) (h : procLookup (runReqs s0 rs) c args = (s', .res ⟨0, .lookupOk fh fa da⟩))
    (hd : Nat) (r1 name r2 : Bytes) (n : Node) (hfh : decFh' (runReqs s0 rs) args = some (hd, r1))
    (hname : decStr (runReqs s0 rs) r1 = some (name, r2)) (hn : nodeOf (runReqs s0 rs) hd = some n)
    (fh0 : Nat) (n0 : Node) (hlive : nodeOf (runReqs s0 rs) fh0 = some n0) (hpath : n0.path = joinName n.path name) : fh = fh0 :=
  procLookup_same_handle _ s' c args fh fa da (runReqs_cinv s0 rs h0) h hd r1 name r2 n hfh hname hn fh0 n0 hlive hpath

theorem one_live_handle_per_path (s0 : Server.St) (rs : List Req) (h0 : CInv s0) (h1 h2 : Nat) (n1 n2 : Node)
    (a : nodeOf (runReqs s0 rs) h1 = some n1) (b : nodeOf (runReqs s0 rs) h2 = some n2) (hp : n1.path = n2.path) : h1 = h2 :=
  table_injective _ (runReqs_cinv s0 rs h0) h1 h2 n1 n2 a b hp

/-- Clause 3: after any history of requests the number of live handles is within the effective maximum -/
theorem server_table_bounded (s0 : Server.St) (rs : List Req) (h0 : CInv s0) :
    (runReqs s0 rs).hs.live.length ≤ effMax (runReqs s0 rs).cfg.defaultMaxHandles (runReqs s0 rs).hs.maxRaw :=
  table_bounded _ (runReqs_cinv s0 rs h0)

end handler

/-- regenerated from the source on every run: MNT cleans the requested path before it becomes the key handles are deduplicated on -/
theorem gen_mnt_cleans_path : Gen.mntCleansPath = true := by decide

end Props.C05
