/-
  C26 — Directory listings page completely and respect the client's size limit.
  The statements are about the entry loops of the Lean server model (`fillDir`, `fillDirPlus`), which
  `procReaddir` / `procReaddirplus` call with the directory's entries, the client's cookie and
  `limit = count` (READDIR) or `maxcount` (READDIRPLUS) — for every directory, every name length, every cookie
  and every limit ≥ 104. Limits below 104 bytes (that cannot hold an empty listing) are raised by the code to
  the size of one maximal entry, so such a reply may exceed the client's number: known finding
  C26/reply-exceeds-tiny-count (pinned by the repository's tests).
-/
import Absnfs.ServerDir
import Absnfs.ServerDirPlus
import Absnfs.ServerListing
import Absnfs.ServerDcSup
import Gen.Facts
open Absnfs Absnfs.Server

namespace Props.C26

theorem gen_accounting : (Gen.readdirAccountsEntries && Gen.readdirplusAccountsEntries) = true := by decide

/-- the limit the handlers use -/
def effLimit (floor count : Nat) : Nat := if count < dirListHeader + dirListTrailer then floor else count

theorem effLimit_is_count (floor count : Nat) (h : 104 ≤ count) : effLimit floor count = count := by
  unfold effLimit dirListHeader dirListTrailer; split <;> omega

theorem effLimit_holds_empty_listing (count : Nat) : dirListHeader + dirListTrailer ≤ effLimit minReaddirReply count ∧
    dirListHeader + dirListTrailer ≤ effLimit minReaddirplusReply count := by
  unfold effLimit minReaddirplusReply minReaddirReply plusExtra dirListHeader dirListTrailer
  constructor <;> split <;> omega

/-- The handler is this loop with this limit (definitional: the model's procReaddir). -/
example (limit cookie : Nat) (nodes : List Node) : page limit cookie nodes = fillDir limit cookie 0 dirListHeader 0 nodes := rfl

/-- (1) Every READDIR3resok fits: header + entries + trailer ≤ limit, and that sum is the encoded size. -/
theorem readdir_reply_fits (limit cookie : Nat) (nodes : List Node) (hc : cookie ≤ nodes.length)
    (hl : dirListHeader + dirListTrailer ≤ limit) (ents : List Rfc.DirEnt) (lim : Bool)
    (h : page limit cookie nodes = .done ents lim) (a : Rfc.Fattr) (verf : Bytes) (hv : verf.length = 8) :
    (Rfc.encBody (.readdirOk (some a) verf ents (!lim))).length ≤ limit := by
  have hp := page_spec limit cookie nodes hc hl
  rw [h] at hp
  obtain ⟨k, _, _, hfit, _, _⟩ := hp
  rw [readdirOk_length a verf ents (!lim) hv]
  omega

/-- (2) The call fails with NFS3ERR_TOOSMALL exactly when not even the first remaining entry fits. -/
theorem readdir_toosmall_iff (limit cookie : Nat) (nodes : List Node) (hc : cookie ≤ nodes.length)
    (hl : dirListHeader + dirListTrailer ≤ limit) :
    page limit cookie nodes = .tooSmall ↔
      ∃ e es, nodes.drop cookie = e :: es ∧ dirListHeader + entrySize (baseName e.path) + dirListTrailer > limit := by
  have hp := page_spec limit cookie nodes hc hl
  constructor
  · intro h
    rw [h] at hp
    exact hp.2
  · rintro ⟨e, es, hd, hbig⟩
    generalize hres : page limit cookie nodes = res at hp
    cases res with
    | tooSmall => rfl
    | done ents lim =>
      exfalso
      obtain ⟨k, hk, hents, hfit, hall, hsome⟩ := hp
      rw [hd] at hents hk hall hsome
      cases k with
      | zero =>
        cases lim with
        | false => have := hall rfl; simp at this
        | true => have := (hsome rfl).1; omega
      | succ k =>
        rw [hents] at hfit
        simp only [List.take_succ_cons, numbered, entsSize] at hfit
        omega

/-- (3) Every call that can fit an entry returns at least one: a page without entries is eof on an exhausted
    listing. -/
theorem readdir_progress (limit cookie : Nat) (nodes : List Node) (hc : cookie ≤ nodes.length)
    (hl : dirListHeader + dirListTrailer ≤ limit) (lim : Bool) (h : page limit cookie nodes = .done [] lim) :
    lim = false ∧ nodes.drop cookie = [] := by
  have hp := page_spec limit cookie nodes hc hl
  rw [h] at hp
  obtain ⟨k, hk, hents, _, hall, hsome⟩ := hp
  have hk0 : k = 0 ∨ nodes.drop cookie = [] := by
    have := congrArg List.length hents
    simp only [List.length_nil, numbered_length, List.length_take] at this
    omega
  cases lim with
  | true =>
    have := (hsome rfl).1
    rcases hk0 with h0 | h0
    · omega
    · obtain ⟨hk', _⟩ := (hsome rfl).2
      rw [h0] at hk'
      simp at hk'
  | false =>
    refine ⟨rfl, ?_⟩
    rcases hk0 with h0 | h0
    · have := hall rfl
      rw [h0] at this
      exact List.eq_nil_of_length_eq_zero this.symm
    · exact h0

/-- (4) Names, fileids and cookies of a page are those of the directory's entries after the cookie, in order. -/
theorem readdir_page_is_prefix (limit cookie : Nat) (nodes : List Node) (hc : cookie ≤ nodes.length)
    (hl : dirListHeader + dirListTrailer ≤ limit) (ents : List Rfc.DirEnt) (lim : Bool)
    (h : page limit cookie nodes = .done ents lim) :
    ∃ k, ents = numbered cookie ((nodes.drop cookie).take k) ∧ (lim = false → k = (nodes.drop cookie).length) := by
  have hp := page_spec limit cookie nodes hc hl
  rw [h] at hp
  obtain ⟨k, _, hents, _, hall, _⟩ := hp
  exact ⟨k, hents, hall⟩

/-- (5) Following the returned cookies lists exactly the directory's entries, each once, ending with eof —
    for every directory and every limit in which each entry fits on its own. -/
theorem readdir_walk_complete (limit : Nat) (nodes : List Node) (hfit : AllFit limit nodes)
    (hl : dirListHeader + dirListTrailer ≤ limit) :
    walkPages limit nodes (nodes.length + 1) 0 = some (numbered 0 nodes) := by
  simpa using walkPages_complete limit nodes hfit hl (nodes.length + 1) 0 (by omega) (by omega)

/-- READDIRPLUS: the same three facts for the loop with attributes and handles. -/
theorem readdirplus_reply_fits (limit cookie : Nat) (s : St) (nodes : List Node) (hc : cookie ≤ nodes.length)
    (hl : dirListHeader + dirListTrailer ≤ limit) (s' : St) (ents : List Rfc.DirEntPlus) (lim : Bool)
    (h : fillDirPlus limit cookie s 0 dirListHeader 0 nodes = (s', .done ents lim)) (a : Rfc.Fattr) (verf : Bytes)
    (hv : verf.length = 8) :
    (Rfc.encBody (.readdirplusOk (some a) verf ents (!lim))).length ≤ limit ∧
    ∃ k, ents.map stripPlus = numbered cookie ((nodes.drop cookie).take k) ∧ (lim = false → k = (nodes.drop cookie).length) ∧
      (lim = true → k > 0) := by
  have hp := pagePlus_spec limit cookie s nodes hc hl
  rw [h] at hp
  obtain ⟨k, _, hents, hsome', hfit, hall, hsome⟩ := hp
  refine ⟨?_, k, hents, hall, fun hl' => by have := (hsome hl').1; omega⟩
  rw [readdirplusOk_length a verf ents (!lim) hv hsome']
  omega

theorem readdirplus_toosmall (limit cookie : Nat) (s : St) (nodes : List Node) (hc : cookie ≤ nodes.length)
    (hl : dirListHeader + dirListTrailer ≤ limit) (s' : St)
    (h : fillDirPlus limit cookie s 0 dirListHeader 0 nodes = (s', .tooSmall)) :
    ∃ e es, nodes.drop cookie = e :: es ∧
      dirListHeader + entrySize (baseName e.path) + plusExtra + dirListTrailer > limit := by
  have hp := pagePlus_spec limit cookie s nodes hc hl
  rw [h] at hp
  exact hp.2

/-- (5') READDIRPLUS: following the returned cookies lists exactly the directory's entries, each once, in
    order, each with attributes and a handle, ending with eof — for every directory, every limit in which each
    entry fits on its own, and whatever the server state is at each page (handles are allocated on the way). -/
theorem readdirplus_walk_complete (limit : Nat) (nodes : List Node) (hfit : AllFitPlus limit nodes)
    (hl : dirListHeader + dirListTrailer ≤ limit) (s : St) :
    ∃ ents, walkPagesPlus limit nodes (nodes.length + 1) s 0 = some ents ∧
      ents.map stripPlus = numbered 0 nodes ∧ ∀ e ∈ ents, e.attr.isSome ∧ e.fh.isSome := by
  simpa using walkPagesPlus_complete limit nodes hfit hl (nodes.length + 1) s 0 (by omega) (by omega)

/-- non-vacuity: a two-entry directory, tight limit: one entry per page, then eof -/
def nodeA : Node := ⟨[47, 97], ⟨.file, 420, 0, 1, 0, 0⟩⟩
def nodeB : Node := ⟨[47, 98, 98], ⟨.dir, 493, 0, 2, 0, 0⟩⟩
example : walkPages 132 [nodeA, nodeB] 3 0 = some (numbered 0 [nodeA, nodeB]) := by decide
example : (match page 131 0 [nodeA, nodeB] with | .tooSmall => true | _ => false) = true := by decide

/-- where the entries come from, after any history, whenever the directory cache cannot answer (none configured,
    or no entry for the directory — e.g. right after any of the server's own mutations in it, Props.C02
    `*_drops_parent_listing`): for a handle whose path is a directory of the backend, the list the paging loops walk
    is the backend's directory — every child whose name the listing loop accepts (not '.', '..' or empty, no '/' or
    '\\'), in name order, each as often as the backend lists it, nothing else. Together with `readdir_walk_complete` /
    `readdirplus_walk_complete`: following the cookies returns exactly the directory's entries. -/
theorem entries_are_the_backend_directory (s0 : St) (rs : List Req) (h0 : CInv s0) (now : Nat) (d : Node) (nodes : List Node)
    (hcold : DcCold (runReqs s0 rs) d.path) (hd : CleanPath d.path) (e : Fs.Entry)
    (hwalk : Fs.walk (runReqs s0 rs).fs (fsPath d.path) = .ok e) (hk : e.kind = .dir)
    (h : (readDir (runReqs s0 rs) now d).2 = .ok nodes) :
    nodes.map (·.path) =
      ((((Fs.sortByName (Fs.children (runReqs s0 rs).fs (fsPath d.path))).map (·.1)).filter (listable d.path)).map
        (joinName d.path)) :=
  readDir_lists_backend _ now d nodes (runReqs_cinv s0 rs h0) hcold hd e hwalk hk h

/-- without a directory cache the hypothesis holds for every directory -/
theorem no_dircache_is_cold (s : St) (p : Bytes) (h : s.dc = none) : DcCold s p := by
  intro c hc; rw [h] at hc; simp at hc

/-- one READDIR call seen from the wire, after any history: on a directory the cache has no listing of (none
    configured, or just dropped by one of the server's own mutations — Props.C02 `*_drops_parent_listing`), a call from
    cookie 0 answered NFS3_OK with eof carries exactly the names of the backend's directory that the listing loop
    accepts, in name order: nothing missing, nothing invented, nothing twice that the backend does not list twice. -/
theorem readdir_reply_lists_the_directory (s0 : St) (rs : List Req) (h0 : CInv s0) (s' : St) (c : Ctx) (args : Bytes)
    (a : Option Rfc.Fattr) (verf : Bytes) (ents : List Rfc.DirEnt) (hd : Nat) (r1 r2 : Bytes) (n : Node)
    (hfh : decFh' (runReqs s0 rs) args = some (hd, r1)) (hck : decU64 r1 = some (0, r2))
    (hn : nodeOf (runReqs s0 rs) hd = some n) (hcold : DcCold (runReqs s0 rs) n.path) (e : Fs.Entry)
    (hwalk : Fs.walk (runReqs s0 rs).fs (fsPath n.path) = .ok e) (hk : e.kind = .dir)
    (h : procReaddir (runReqs s0 rs) c args = (s', .res ⟨0, .readdirOk a verf ents true⟩)) :
    ents.map (·.name) =
      ((Fs.sortByName (Fs.children (runReqs s0 rs).fs (fsPath n.path))).map (·.1)).filter (listable n.path) :=
  procReaddir_cold_whole _ s' c args a verf ents (runReqs_cinv s0 rs h0) hd r1 r2 n hfh hck hn hcold e hwalk hk h

/-- the same call whatever the directory cache holds — any state reached by any history from a server whose directory
    cache started empty, any TTL / capacity / max-dir-size: the hypothesis "the cache is cold" of
    `readdir_reply_lists_the_directory` is not needed. A reply from cookie 0 answered NFS3_OK with eof carries exactly
    the names of the backend's directory that the listing loop accepts, in name order. -/
theorem readdir_reply_lists_the_directory_warm (s0 : St) (rs : List Req) (h0 : CInv s0) (hS0 : DcSup s0) (s' : St) (c : Ctx)
    (args : Bytes) (a : Option Rfc.Fattr) (verf : Bytes) (ents : List Rfc.DirEnt) (hd : Nat) (r1 r2 : Bytes) (n : Node)
    (hfh : decFh' (runReqs s0 rs) args = some (hd, r1)) (hck : decU64 r1 = some (0, r2))
    (hn : nodeOf (runReqs s0 rs) hd = some n)
    (h : procReaddir (runReqs s0 rs) c args = (s', .res ⟨0, .readdirOk a verf ents true⟩)) :
    ents.map (·.name) =
      ((Fs.sortByName (Fs.children (runReqs s0 rs).fs (fsPath n.path))).map (·.1)).filter (listable n.path) :=
  procReaddir_whole _ s' c args a verf ents (runReqs_cinv s0 rs h0) (runReqs_dcSup s0 rs h0 hS0) hd r1 r2 n hfh hck hn h

/-- … and the same for READDIRPLUS -/
theorem readdirplus_reply_lists_the_directory_warm (s0 : St) (rs : List Req) (h0 : CInv s0) (hS0 : DcSup s0) (s' : St)
    (c : Ctx) (args : Bytes) (a : Option Rfc.Fattr) (verf : Bytes) (ents : List Rfc.DirEntPlus) (hd : Nat) (r1 r2 : Bytes)
    (n : Node) (hfh : decFh' (runReqs s0 rs) args = some (hd, r1)) (hck : decU64 r1 = some (0, r2))
    (hn : nodeOf (runReqs s0 rs) hd = some n)
    (h : procReaddirplus (runReqs s0 rs) c args = (s', .res ⟨0, .readdirplusOk a verf ents true⟩)) :
    ents.map (·.name) =
      ((Fs.sortByName (Fs.children (runReqs s0 rs).fs (fsPath n.path))).map (·.1)).filter (listable n.path) :=
  procReaddirplus_whole _ s' c args a verf ents (runReqs_cinv s0 rs h0) (runReqs_dcSup s0 rs h0 hS0) hd r1 r2 n hfh hck hn h

/-- hence no name appears twice in such a reply, and the names are strictly increasing in byte order -/
theorem readdir_reply_names_increasing (s0 : St) (rs : List Req) (h0 : CInv s0) (hS0 : DcSup s0) (s' : St) (c : Ctx)
    (args : Bytes) (a : Option Rfc.Fattr) (verf : Bytes) (ents : List Rfc.DirEnt) (hd : Nat) (r1 r2 : Bytes) (n : Node)
    (hfh : decFh' (runReqs s0 rs) args = some (hd, r1)) (hck : decU64 r1 = some (0, r2))
    (hn : nodeOf (runReqs s0 rs) hd = some n)
    (h : procReaddir (runReqs s0 rs) c args = (s', .res ⟨0, .readdirOk a verf ents true⟩)) :
    Fs.Increasing (ents.map (·.name)) ∧ (ents.map (·.name)).Nodup := by
  rw [readdir_reply_lists_the_directory_warm s0 rs h0 hS0 s' c args a verf ents hd r1 r2 n hfh hck hn h]
  have hinc := (Fs.sorted_children_increasing (runReqs_cinv s0 rs h0).wf (fsPath n.path)).filter (listable n.path)
  exact ⟨hinc, hinc.nodup⟩

/-- a corollary in membership form: the same call when the directory cache *does* hold a listing (any state reached by any history from a server whose
    directory cache started empty): a reply from cookie 0 answered NFS3_OK with eof names every object the backend has
    directly below the directory whose name the listing loop accepts. -/
theorem readdir_reply_misses_nothing (s0 : St) (rs : List Req) (h0 : CInv s0) (hS0 : DcSup s0) (s' : St) (c : Ctx)
    (args : Bytes) (a : Option Rfc.Fattr) (verf : Bytes) (ents : List Rfc.DirEnt) (hd : Nat) (r1 r2 : Bytes) (n : Node)
    (hfh : decFh' (runReqs s0 rs) args = some (hd, r1)) (hck : decU64 r1 = some (0, r2))
    (hn : nodeOf (runReqs s0 rs) hd = some n)
    (h : procReaddir (runReqs s0 rs) c args = (s', .res ⟨0, .readdirOk a verf ents true⟩)) (x : Bytes)
    (hl : listable n.path x = true) (i : Fs.Info) (hx : Fs.lstat (runReqs s0 rs).fs (fsPath n.path ++ [x]) = .ok i) :
    x ∈ ents.map (·.name) :=
  procReaddir_whole_complete _ s' c args a verf ents (runReqs_cinv s0 rs h0) (runReqs_dcSup s0 rs h0 hS0) hd r1 r2 n
    hfh hck hn h x hl (existsAt_of_lstat hx)

end Props.C26
