/-
  C26 — Directory listings page completely and respect the client's size limit.
  The statements are about the entry loops of the Lean server model (`fillDir`, `fillDirPlus`), which
  `procReaddir` / `procReaddirplus` call with the directory's entries, the client's cookie and
  `limit = count` (READDIR) or `maxcount` (READDIRPLUS) — for every directory, every name length, every cookie
  and every limit ≥ 104. Limits below 104 bytes (that cannot hold an empty listing) are raised by the code to
  the size of one maximal entry, so such a reply may exceed the client's number: known finding
  C26/reply-exceeds-tiny-count (pinned by the repository's tests).
  Since the fifth session the statements reach the handlers and the wire without a cold-cache hypothesis: under the
  directory-cache invariant `DcSup` (Props.C02, kept by every request) every NFS3_OK READDIR page, from any cookie, is
  the slice of the backend's listing that starts at the cookie (`readdir_page_is_a_slice_of_the_backend`), a walk that
  follows the cookies through real handler calls has always received a prefix of that listing and, once a reply says
  eof, all of it exactly once (`cookie_walk_lists_the_directory`), READDIR and READDIRPLUS replies from cookie 0 with
  eof carry exactly the listing (`readdir_reply_lists_the_directory_warm`, `readdirplus_…_warm`), names strictly
  increasing. `WalkDemo` and `StaleLinkDemo` are kernel-evaluated histories showing that the premises are met by a
  real three-page walk over a warm cache, and why the cache invariant is a superset rather than an equality.
-/
import Absnfs.ServerDir
import Absnfs.ServerDirPlus
import Absnfs.ServerListing
import Absnfs.ServerDcSup
import Absnfs.ServerWalk
import Props.C02
import Gen.Facts
open Absnfs Absnfs.Server

namespace Props.C26

theorem gen_accounting : (Gen.readdirAccountsEntries && Gen.readdirplusAccountsEntries) = true := by decide

/-- the limit the handlers use -/
def effLimit (floor count : Nat) : Nat := if count < dirListHeader + dirListTrailer then floor else count

theorem effLimit_is_count (floor count : Nat) (h : 104 ≤ count) : effLimit floor count = count := by
  unfold effLimit dirListHeader dirListTrailer; split <;> omega

theorem effLimit_holds_empty_listing (count : Nat) : dirListHeader + dirListTrailer ≤ effLimit minReaddirReply count ∧
    dirListHeader + dirListTrailer ≤ effLimit minReaddirplusReply count := by
  unfold effLimit minReaddirplusReply minReaddirReply plusExtra dirListHeader dirListTrailer
  constructor <;> split <;> omega

/-- The handler is this loop with this limit (definitional: the model's procReaddir). -/
example (limit cookie : Nat) (nodes : List Node) : page limit cookie nodes = fillDir limit cookie 0 dirListHeader 0 nodes := rfl

/-- (1) Every READDIR3resok fits: header + entries + trailer ≤ limit, and that sum is the encoded size. -/
theorem readdir_reply_fits (limit cookie : Nat) (nodes : List Node) (hc : cookie ≤ nodes.length)
    (hl : dirListHeader + dirListTrailer ≤ limit) (ents : List Rfc.DirEnt) (lim : Bool)
    (h : page limit cookie nodes = .done ents lim) (a : Rfc.Fattr) (verf : Bytes) (hv : verf.length = 8) :
    (Rfc.encBody (.readdirOk (some a) verf ents (!lim))).length ≤ limit := by
  have hp := page_spec limit cookie nodes hc hl
  rw [h] at hp
  obtain ⟨k, _, _, hfit, _, _⟩ := hp
  rw [readdirOk_length a verf ents (!lim) hv]
  omega

/-- (2) The call fails with NFS3ERR_TOOSMALL exactly when not even the first remaining entry fits. -/
theorem readdir_toosmall_iff (limit cookie : Nat) (nodes : List Node) (hc : cookie ≤ nodes.length)
    (hl : dirListHeader + dirListTrailer ≤ limit) :
    page limit cookie nodes = .tooSmall ↔
      ∃ e es, nodes.drop cookie = e :: es ∧ dirListHeader + entrySize (baseName e.path) + dirListTrailer > limit := by
  have hp := page_spec limit cookie nodes hc hl
  constructor
  · intro h
    rw [h] at hp
    exact hp.2
  · rintro ⟨e, es, hd, hbig⟩
    generalize hres : page limit cookie nodes = res at hp
    cases res with
    | tooSmall => rfl
    | done ents lim =>
      exfalso
      obtain ⟨k, hk, hents, hfit, hall, hsome⟩ := hp
      rw [hd] at hents hk hall hsome
      cases k with
      | zero =>
        cases lim with
        | false => have := hall rfl; simp at this
        | true => have := (hsome rfl).1; omega
      | succ k =>
        rw [hents] at hfit
        simp only [List.take_succ_cons, numbered, entsSize] at hfit
        omega

/-- (3) Every call that can fit an entry returns at least one: a page without entries is eof on an exhausted
    listing. -/
theorem readdir_progress (limit cookie : Nat) (nodes : List Node) (hc : cookie ≤ nodes.length)
    (hl : dirListHeader + dirListTrailer ≤ limit) (lim : Bool) (h : page limit cookie nodes = .done [] lim) :
    lim = false ∧ nodes.drop cookie = [] := by
  have hp := page_spec limit cookie nodes hc hl
  rw [h] at hp
  obtain ⟨k, hk, hents, _, hall, hsome⟩ := hp
  have hk0 : k = 0 ∨ nodes.drop cookie = [] := by
    have := congrArg List.length hents
    simp only [List.length_nil, numbered_length, List.length_take] at this
    omega
  cases lim with
  | true =>
    have := (hsome rfl).1
    rcases hk0 with h0 | h0
    · omega
    · obtain ⟨hk', _⟩ := (hsome rfl).2
      rw [h0] at hk'
      simp at hk'
  | false =>
    refine ⟨rfl, ?_⟩
    rcases hk0 with h0 | h0
    · have := hall rfl
      rw [h0] at this
      exact List.eq_nil_of_length_eq_zero this.symm
    · exact h0

/-- (4) Names, fileids and cookies of a page are those of the directory's entries after the cookie, in order. -/
theorem readdir_page_is_prefix (limit cookie : Nat) (nodes : List Node) (hc : cookie ≤ nodes.length)
    (hl : dirListHeader + dirListTrailer ≤ limit) (ents : List Rfc.DirEnt) (lim : Bool)
    (h : page limit cookie nodes = .done ents lim) :
    ∃ k, ents = numbered cookie ((nodes.drop cookie).take k) ∧ (lim = false → k = (nodes.drop cookie).length) := by
  have hp := page_spec limit cookie nodes hc hl
  rw [h] at hp
  obtain ⟨k, _, hents, _, hall, _⟩ := hp
  exact ⟨k, hents, hall⟩

/-- (5) Following the returned cookies lists exactly the directory's entries, each once, ending with eof —
    for every directory and every limit in which each entry fits on its own. -/
theorem readdir_walk_complete (limit : Nat) (nodes : List Node) (hfit : AllFit limit nodes)
    (hl : dirListHeader + dirListTrailer ≤ limit) :
    walkPages limit nodes (nodes.length + 1) 0 = some (numbered 0 nodes) := by
  simpa using walkPages_complete limit nodes hfit hl (nodes.length + 1) 0 (by omega) (by omega)

/-- READDIRPLUS: the same three facts for the loop with attributes and handles. -/
theorem readdirplus_reply_fits (limit cookie : Nat) (s : St) (nodes : List Node) (hc : cookie ≤ nodes.length)
    (hl : dirListHeader + dirListTrailer ≤ limit) (s' : St) (ents : List Rfc.DirEntPlus) (lim : Bool)
    (h : fillDirPlus limit cookie s 0 dirListHeader 0 nodes = (s', .done ents lim)) (a : Rfc.Fattr) (verf : Bytes)
    (hv : verf.length = 8) :
    (Rfc.encBody (.readdirplusOk (some a) verf ents (!lim))).length ≤ limit ∧
    ∃ k, ents.map stripPlus = numbered cookie ((nodes.drop cookie).take k) ∧ (lim = false → k = (nodes.drop cookie).length) ∧
      (lim = true → k > 0) := by
  have hp := pagePlus_spec limit cookie s nodes hc hl
  rw [h] at hp
  obtain ⟨k, _, hents, hsome', hfit, hall, hsome⟩ := hp
  refine ⟨?_, k, hents, hall, fun hl' => by have := (hsome hl').1; omega⟩
  rw [readdirplusOk_length a verf ents (!lim) hv hsome']
  omega

theorem readdirplus_toosmall (limit cookie : Nat) (s : St) (nodes : List Node) (hc : cookie ≤ nodes.length)
    (hl : dirListHeader + dirListTrailer ≤ limit) (s' : St)
    (h : fillDirPlus limit cookie s 0 dirListHeader 0 nodes = (s', .tooSmall)) :
    ∃ e es, nodes.drop cookie = e :: es ∧
      dirListHeader + entrySize (baseName e.path) + plusExtra + dirListTrailer > limit := by
  have hp := pagePlus_spec limit cookie s nodes hc hl
  rw [h] at hp
  exact hp.2

/-- (5') READDIRPLUS: following the returned cookies lists exactly the directory's entries, each once, in
    order, each with attributes and a handle, ending with eof — for every directory, every limit in which each
    entry fits on its own, and whatever the server state is at each page (handles are allocated on the way). -/
theorem readdirplus_walk_complete (limit : Nat) (nodes : List Node) (hfit : AllFitPlus limit nodes)
    (hl : dirListHeader + dirListTrailer ≤ limit) (s : St) :
    ∃ ents, walkPagesPlus limit nodes (nodes.length + 1) s 0 = some ents ∧
      ents.map stripPlus = numbered 0 nodes ∧ ∀ e ∈ ents, e.attr.isSome ∧ e.fh.isSome := by
  simpa using walkPagesPlus_complete limit nodes hfit hl (nodes.length + 1) s 0 (by omega) (by omega)

/-- non-vacuity: a two-entry directory, tight limit: one entry per page, then eof -/
def nodeA : Node := ⟨[47, 97], ⟨.file, 420, 0, 1, 0, 0⟩⟩
def nodeB : Node := ⟨[47, 98, 98], ⟨.dir, 493, 0, 2, 0, 0⟩⟩
example : walkPages 132 [nodeA, nodeB] 3 0 = some (numbered 0 [nodeA, nodeB]) := by decide
example : (match page 131 0 [nodeA, nodeB] with | .tooSmall => true | _ => false) = true := by decide

/-- where the entries come from, after any history, whenever the directory cache cannot answer (none configured,
    or no entry for the directory — e.g. right after any of the server's own mutations in it, Props.C02
    `*_drops_parent_listing`): for a handle whose path is a directory of the backend, the list the paging loops walk
    is the backend's directory — every child whose name the listing loop accepts (not '.', '..' or empty, no '/' or
    '\\'), in name order, each as often as the backend lists it, nothing else. Together with `readdir_walk_complete` /
    `readdirplus_walk_complete`: following the cookies returns exactly the directory's entries. -/
theorem entries_are_the_backend_directory (s0 : St) (rs : List Req) (h0 : CInv s0) (now : Nat) (d : Node) (nodes : List Node)
    (hcold : DcCold (runReqs s0 rs) d.path) (hd : CleanPath d.path) (e : Fs.Entry)
    (hwalk : Fs.walk (runReqs s0 rs).fs (fsPath d.path) = .ok e) (hk : e.kind = .dir)
    (h : (readDir (runReqs s0 rs) now d).2 = .ok nodes) :
    nodes.map (·.path) =
      ((((Fs.sortByName (Fs.children (runReqs s0 rs).fs (fsPath d.path))).map (·.1)).filter (listable d.path)).map
        (joinName d.path)) :=
  readDir_lists_backend _ now d nodes (runReqs_cinv s0 rs h0) hcold hd e hwalk hk h

/-- without a directory cache the hypothesis holds for every directory -/
theorem no_dircache_is_cold (s : St) (p : Bytes) (h : s.dc = none) : DcCold s p := by
  intro c hc; rw [h] at hc; simp at hc

/-- one READDIR call seen from the wire, after any history: on a directory the cache has no listing of (none
    configured, or just dropped by one of the server's own mutations — Props.C02 `*_drops_parent_listing`), a call from
    cookie 0 answered NFS3_OK with eof carries exactly the names of the backend's directory that the listing loop
    accepts, in name order: nothing missing, nothing invented, nothing twice that the backend does not list twice. -/
theorem readdir_reply_lists_the_directory (s0 : St) (rs : List Req) (h0 : CInv s0) (s' : St) (c : Ctx) (args : Bytes)
    (a : Option Rfc.Fattr) (verf : Bytes) (ents : List Rfc.DirEnt) (hd : Nat) (r1 r2 : Bytes) (n : Node)
    (hfh : decFh' (runReqs s0 rs) args = some (hd, r1)) (hck : decU64 r1 = some (0, r2))
    (hn : nodeOf (runReqs s0 rs) hd = some n) (hcold : DcCold (runReqs s0 rs) n.path) (e : Fs.Entry)
    (hwalk : Fs.walk (runReqs s0 rs).fs (fsPath n.path) = .ok e) (hk : e.kind = .dir)
    (h : procReaddir (runReqs s0 rs) c args = (s', .res ⟨0, .readdirOk a verf ents true⟩)) :
    ents.map (·.name) =
      ((Fs.sortByName (Fs.children (runReqs s0 rs).fs (fsPath n.path))).map (·.1)).filter (listable n.path) :=
  procReaddir_cold_whole _ s' c args a verf ents (runReqs_cinv s0 rs h0) hd r1 r2 n hfh hck hn hcold e hwalk hk h

/-- the same call whatever the directory cache holds — any state reached by any history from a server whose directory
    cache started empty, any TTL / capacity / max-dir-size: the hypothesis "the cache is cold" of
    `readdir_reply_lists_the_directory` is not needed. A reply from cookie 0 answered NFS3_OK with eof carries exactly
    the names of the backend's directory that the listing loop accepts, in name order. -/
theorem readdir_reply_lists_the_directory_warm (s0 : St) (rs : List Req) (h0 : CInv s0) (hS0 : DcSup s0) (s' : St) (c : Ctx)
    (args : Bytes) (a : Option Rfc.Fattr) (verf : Bytes) (ents : List Rfc.DirEnt) (hd : Nat) (r1 r2 : Bytes) (n : Node)
    (hfh : decFh' (runReqs s0 rs) args = some (hd, r1)) (hck : decU64 r1 = some (0, r2))
    (hn : nodeOf (runReqs s0 rs) hd = some n)
    (h : procReaddir (runReqs s0 rs) c args = (s', .res ⟨0, .readdirOk a verf ents true⟩)) :
    ents.map (·.name) =
      ((Fs.sortByName (Fs.children (runReqs s0 rs).fs (fsPath n.path))).map (·.1)).filter (listable n.path) :=
  procReaddir_whole _ s' c args a verf ents (runReqs_cinv s0 rs h0) (runReqs_dcSup s0 rs h0 hS0) hd r1 r2 n hfh hck hn h

/-- … and the same for READDIRPLUS -/
theorem readdirplus_reply_lists_the_directory_warm (s0 : St) (rs : List Req) (h0 : CInv s0) (hS0 : DcSup s0) (s' : St)
    (c : Ctx) (args : Bytes) (a : Option Rfc.Fattr) (verf : Bytes) (ents : List Rfc.DirEntPlus) (hd : Nat) (r1 r2 : Bytes)
    (n : Node) (hfh : decFh' (runReqs s0 rs) args = some (hd, r1)) (hck : decU64 r1 = some (0, r2))
    (hn : nodeOf (runReqs s0 rs) hd = some n)
    (h : procReaddirplus (runReqs s0 rs) c args = (s', .res ⟨0, .readdirplusOk a verf ents true⟩)) :
    ents.map (·.name) =
      ((Fs.sortByName (Fs.children (runReqs s0 rs).fs (fsPath n.path))).map (·.1)).filter (listable n.path) :=
  procReaddirplus_whole _ s' c args a verf ents (runReqs_cinv s0 rs h0) (runReqs_dcSup s0 rs h0 hS0) hd r1 r2 n hfh hck hn h

/-- hence no name appears twice in such a reply, and the names are strictly increasing in byte order -/
theorem readdir_reply_names_increasing (s0 : St) (rs : List Req) (h0 : CInv s0) (hS0 : DcSup s0) (s' : St) (c : Ctx)
    (args : Bytes) (a : Option Rfc.Fattr) (verf : Bytes) (ents : List Rfc.DirEnt) (hd : Nat) (r1 r2 : Bytes) (n : Node)
    (hfh : decFh' (runReqs s0 rs) args = some (hd, r1)) (hck : decU64 r1 = some (0, r2))
    (hn : nodeOf (runReqs s0 rs) hd = some n)
    (h : procReaddir (runReqs s0 rs) c args = (s', .res ⟨0, .readdirOk a verf ents true⟩)) :
    Fs.Increasing (ents.map (·.name)) ∧ (ents.map (·.name)).Nodup := by
  rw [readdir_reply_lists_the_directory_warm s0 rs h0 hS0 s' c args a verf ents hd r1 r2 n hfh hck hn h]
  have hinc := (Fs.sorted_children_increasing (runReqs_cinv s0 rs h0).wf (fsPath n.path)).filter (listable n.path)
  exact ⟨hinc, hinc.nodup⟩

/-- C26 end to end, over real handler calls: after any history, a client that follows the cookies through one
    directory handle — any count per call, any caller, any time between the calls, whatever the directory cache does in
    between (fill, expire, evict, be absent) — has at every point received a prefix of the backend's listing of the
    directory (the listable names in name order), as long as the cookie it has reached; when the last reply says eof
    it has received the whole listing: every entry exactly once. (`Walk` chains NFS3_OK READDIR replies, each call
    starting at the cookie the previous one ended on; READDIR itself changes nothing in the backend.) -/
theorem cookie_walk_lists_the_directory (s0 : St) (rs : List Req) (h0 : CInv s0) (hS0 : DcSup s0) (hd : Nat) (n : Node)
    (hn : nodeOf (runReqs s0 rs) hd = some n) {s : St} {ck : Nat} {acc : List Bytes} {fin : Bool}
    (w : Walk (runReqs s0 rs) hd s ck acc fin) :
    acc = (listing (runReqs s0 rs).fs n.path).take ck ∧ ck = acc.length ∧
      (fin = true → acc = listing (runReqs s0 rs).fs n.path) := by
  obtain ⟨_, _, _, _, h1, h2, h3⟩ :=
    walk_lists_the_directory (runReqs s0 rs) hd n (runReqs_cinv s0 rs h0) (runReqs_dcSup s0 rs h0 hS0) hn w
  exact ⟨h1, h2, h3⟩

/-- every single page, any cookie: a slice of the backend's listing starting at the cookie; with eof, the rest of it -/
theorem readdir_page_is_a_slice_of_the_backend (s0 : St) (rs : List Req) (h0 : CInv s0) (hS0 : DcSup s0) (s' : St) (c : Ctx)
    (args : Bytes) (a : Option Rfc.Fattr) (verf : Bytes) (ents : List Rfc.DirEnt) (eof : Bool) (hd ck : Nat) (r1 r2 : Bytes)
    (n : Node) (hfh : decFh' (runReqs s0 rs) args = some (hd, r1)) (hck : decU64 r1 = some (ck, r2))
    (hn : nodeOf (runReqs s0 rs) hd = some n)
    (h : procReaddir (runReqs s0 rs) c args = (s', .res ⟨0, .readdirOk a verf ents eof⟩)) :
    ∃ k, ents.map (·.name) = ((listing (runReqs s0 rs).fs n.path).drop ck).take k ∧
      (eof = true → ents.map (·.name) = (listing (runReqs s0 rs).fs n.path).drop ck) :=
  procReaddir_page _ s' c args a verf ents eof (runReqs_cinv s0 rs h0) (runReqs_dcSup s0 rs h0 hS0) hd ck r1 r2 n hfh hck hn h

/-- … and completely: the entries of an NFS3_OK page are determined by the backend alone — for the listing's names from
    position `ck` on: that name, fileid = fnv64 of the entry's path, cookies ck+1, ck+2, … (`expectedEnts`) -/
theorem readdir_page_entries_exact (s0 : St) (rs : List Req) (h0 : CInv s0) (hS0 : DcSup s0) (s' : St) (c : Ctx)
    (args : Bytes) (a : Option Rfc.Fattr) (verf : Bytes) (ents : List Rfc.DirEnt) (eof : Bool) (hd ck : Nat) (r1 r2 : Bytes)
    (n : Node) (hfh : decFh' (runReqs s0 rs) args = some (hd, r1)) (hck : decU64 r1 = some (ck, r2))
    (hn : nodeOf (runReqs s0 rs) hd = some n)
    (h : procReaddir (runReqs s0 rs) c args = (s', .res ⟨0, .readdirOk a verf ents eof⟩)) :
    ∃ k, ents = expectedEnts n.path ck (((listing (runReqs s0 rs).fs n.path).drop ck).take k) ∧
      (eof = true → ents = expectedEnts n.path ck ((listing (runReqs s0 rs).fs n.path).drop ck)) :=
  procReaddir_page_entries _ s' c args a verf ents eof (runReqs_cinv s0 rs h0) (runReqs_dcSup s0 rs h0 hS0) hd ck r1 r2 n
    hfh hck hn h

/-- the same for READDIRPLUS pages (name, fileid and cookie of every entry, any cookie) -/
theorem readdirplus_page_entries_exact (s0 : St) (rs : List Req) (h0 : CInv s0) (hS0 : DcSup s0) (s' : St) (c : Ctx)
    (args : Bytes) (a : Option Rfc.Fattr) (verf : Bytes) (ents : List Rfc.DirEntPlus) (eof : Bool) (hd ck : Nat) (r1 r2 : Bytes)
    (n : Node) (hfh : decFh' (runReqs s0 rs) args = some (hd, r1)) (hck : decU64 r1 = some (ck, r2))
    (hn : nodeOf (runReqs s0 rs) hd = some n)
    (h : procReaddirplus (runReqs s0 rs) c args = (s', .res ⟨0, .readdirplusOk a verf ents eof⟩)) :
    ∃ k, ents.map stripPlus = expectedEnts n.path ck (((listing (runReqs s0 rs).fs n.path).drop ck).take k) ∧
      (eof = true → ents.map stripPlus = expectedEnts n.path ck ((listing (runReqs s0 rs).fs n.path).drop ck)) :=
  procReaddirplus_page_entries _ s' c args a verf ents eof (runReqs_cinv s0 rs h0) (runReqs_dcSup s0 rs h0 hS0) hd ck r1 r2 n
    hfh hck hn h

/-- a corollary in membership form: the same call when the directory cache *does* hold a listing (any state reached by any history from a server whose
    directory cache started empty): a reply from cookie 0 answered NFS3_OK with eof names every object the backend has
    directly below the directory whose name the listing loop accepts. -/
theorem readdir_reply_misses_nothing (s0 : St) (rs : List Req) (h0 : CInv s0) (hS0 : DcSup s0) (s' : St) (c : Ctx)
    (args : Bytes) (a : Option Rfc.Fattr) (verf : Bytes) (ents : List Rfc.DirEnt) (hd : Nat) (r1 r2 : Bytes) (n : Node)
    (hfh : decFh' (runReqs s0 rs) args = some (hd, r1)) (hck : decU64 r1 = some (0, r2))
    (hn : nodeOf (runReqs s0 rs) hd = some n)
    (h : procReaddir (runReqs s0 rs) c args = (s', .res ⟨0, .readdirOk a verf ents true⟩)) (x : Bytes)
    (hl : listable n.path x = true) (i : Fs.Info) (hx : Fs.lstat (runReqs s0 rs).fs (fsPath n.path ++ [x]) = .ok i) :
    x ∈ ents.map (·.name) :=
  procReaddir_whole_complete _ s' c args a verf ents (runReqs_cinv s0 rs h0) (runReqs_dcSup s0 rs h0 hS0) hd r1 r2 n
    hfh hck hn h x hl (existsAt_of_lstat hx)

/-! ### non-vacuity of the walk theorem: a three-page walk over a warm directory cache, evaluated by the kernel -/
def wd_ctx0 : Ctx := { now := 1, uid := 0, gid := 0, aux := [] }
def wd_mntArgs : Bytes := [0,0,0,1, 47, 0,0,0]
def wd_rootFh : Bytes := [0,0,0,8, 0,0,0,0,0,0,0,1]
def wd_sattr0 : Bytes := [0,0,0,0, 0,0,0,0, 0,0,0,0, 0,0,0,0, 0,0,0,0, 0,0,0,0]
def wd_mkdirArgs (c : UInt8) : Bytes := wd_rootFh ++ [0,0,0,1, c, 0,0,0] ++ wd_sattr0
def wd_ckBytes (ck : UInt8) : Bytes := [0,0,0,0,0,0,0,ck]
def wd_tailBytes (cnt : UInt8) : Bytes := [0,0,0,0,0,0,0,0] ++ [0,0,0,cnt]
def wd_readdirArgs (ck cnt : UInt8) : Bytes := wd_rootFh ++ wd_ckBytes ck ++ wd_tailBytes cnt
/-- MNT "/", MKDIR b, a, c in the root, then one READDIR of the whole root: the directory cache now holds the listing -/
def wd_history : List Req := [⟨wd_ctx0, 100005, 3, 1, wd_mntArgs⟩, ⟨wd_ctx0, 100003, 3, 9, wd_mkdirArgs 98⟩, ⟨wd_ctx0, 100003, 3, 9, wd_mkdirArgs 97⟩,
  ⟨wd_ctx0, 100003, 3, 9, wd_mkdirArgs 99⟩, ⟨wd_ctx0, 100003, 3, 16, wd_readdirArgs 0 255⟩]
def wd_sW : St := runReqs Props.C02.demoStateDc wd_history

def wd_getA : Outcome → Option Rfc.Fattr | .res ⟨_, .readdirOk a _ _ _⟩ => a | _ => none
def wd_getV : Outcome → Bytes | .res ⟨_, .readdirOk _ v _ _⟩ => v | _ => []
def wd_getE : Outcome → List Rfc.DirEnt | .res ⟨_, .readdirOk _ _ e _⟩ => e | _ => []
def wd_getEof : Outcome → Bool | .res ⟨_, .readdirOk _ _ _ f⟩ => f | _ => false
def wd_isOk : Outcome → Bool | .res ⟨0, .readdirOk _ _ _ _⟩ => true | _ => false
theorem wd_ok_shape (o : Outcome) (h : wd_isOk o = true) : o = .res ⟨0, .readdirOk (wd_getA o) (wd_getV o) (wd_getE o) (wd_getEof o)⟩ := by
  cases o with
  | res r =>
    obtain ⟨st, b⟩ := r
    cases b <;> simp [wd_isOk] at h
    all_goals (first | (cases st <;> simp at h; rfl) | skip)
  | _ => simp [wd_isOk] at h

/-- three calls with count 140 (room for one entry each), each from the cookie the previous one ended on -/
def wd_p1 := procReaddir wd_sW wd_ctx0 (wd_readdirArgs 0 140)
def wd_p2 := procReaddir wd_p1.1 wd_ctx0 (wd_readdirArgs 1 140)
def wd_p3 := procReaddir wd_p2.1 wd_ctx0 (wd_readdirArgs 2 140)

/-- the cache is wd_warm when the walk starts: the listing of "/" is in it -/
theorem wd_warm : (wd_sW.dc.map fun c => c.entries.map fun e => (e.key, e.val)) = some [([47], some [[97], [98], [99]])] := by
  decide +kernel
theorem wd_page1 : (wd_isOk wd_p1.2, (wd_getE wd_p1.2).map (·.name), wd_getEof wd_p1.2) = (true, [[97]], false) := by decide +kernel
theorem wd_page2 : (wd_isOk wd_p2.2, (wd_getE wd_p2.2).map (·.name), wd_getEof wd_p2.2) = (true, [[98]], false) := by decide +kernel
theorem wd_page3 : (wd_isOk wd_p3.2, (wd_getE wd_p3.2).map (·.name), wd_getEof wd_p3.2) = (true, [[99]], true) := by decide +kernel

theorem wd_step (s : St) (ck cnt : UInt8) (h : wd_isOk (procReaddir s wd_ctx0 (wd_readdirArgs ck cnt)).2 = true) :
    procReaddir s wd_ctx0 (wd_readdirArgs ck cnt) = ((procReaddir s wd_ctx0 (wd_readdirArgs ck cnt)).1,
      .res ⟨0, .readdirOk (wd_getA (procReaddir s wd_ctx0 (wd_readdirArgs ck cnt)).2) (wd_getV (procReaddir s wd_ctx0 (wd_readdirArgs ck cnt)).2)
        (wd_getE (procReaddir s wd_ctx0 (wd_readdirArgs ck cnt)).2) (wd_getEof (procReaddir s wd_ctx0 (wd_readdirArgs ck cnt)).2)⟩) := by
  have := wd_ok_shape _ h
  exact Prod.ext rfl this

/-- the walk exists: its premises (handle and cookie decode in each state reached, each call is answered NFS3_OK) hold -/
theorem wd_the_walk : Walk wd_sW 1 wd_p3.1 3 [[97], [98], [99]] true := by
  have w1 : Walk wd_sW 1 wd_p1.1 1 [[97]] false := by
    have h := Walk.page (s0 := wd_sW) (hd := 1) wd_ctx0 (wd_readdirArgs 0 140) (wd_ckBytes 0 ++ wd_tailBytes 140) (wd_tailBytes 140) _ _ _ _ Walk.start
      (by decide +kernel) (by decide +kernel) (wd_step wd_sW 0 140 (congrArg (·.1) wd_page1))
    have h' : Walk wd_sW 1 wd_p1.1 (0 + (wd_getE wd_p1.2).length) ([] ++ (wd_getE wd_p1.2).map (·.name)) (wd_getEof wd_p1.2) := h
    have nm : (wd_getE wd_p1.2).map (·.name) = [[97]] := congrArg (fun x => x.2.1) wd_page1
    have e : (wd_getE wd_p1.2).length = 1 := by have := congrArg List.length nm; simpa using this
    have f : wd_getEof wd_p1.2 = false := congrArg (fun x => x.2.2) wd_page1
    rw [e, nm, f] at h'
    exact h'
  have w2 : Walk wd_sW 1 wd_p2.1 2 [[97], [98]] false := by
    have h := Walk.page (s0 := wd_sW) (hd := 1) wd_ctx0 (wd_readdirArgs 1 140) (wd_ckBytes 1 ++ wd_tailBytes 140) (wd_tailBytes 140) _ _ _ _ w1
      (by decide +kernel) (by decide +kernel) (wd_step wd_p1.1 1 140 (congrArg (·.1) wd_page2))
    have h' : Walk wd_sW 1 wd_p2.1 (1 + (wd_getE wd_p2.2).length) ([[97]] ++ (wd_getE wd_p2.2).map (·.name)) (wd_getEof wd_p2.2) := h
    have nm : (wd_getE wd_p2.2).map (·.name) = [[98]] := congrArg (fun x => x.2.1) wd_page2
    have e : (wd_getE wd_p2.2).length = 1 := by have := congrArg List.length nm; simpa using this
    have f : wd_getEof wd_p2.2 = false := congrArg (fun x => x.2.2) wd_page2
    rw [e, nm, f] at h'
    exact h'
  have h := Walk.page (s0 := wd_sW) (hd := 1) wd_ctx0 (wd_readdirArgs 2 140) (wd_ckBytes 2 ++ wd_tailBytes 140) (wd_tailBytes 140) _ _ _ _ w2
    (by decide +kernel) (by decide +kernel) (wd_step wd_p2.1 2 140 (congrArg (·.1) wd_page3))
  have h' : Walk wd_sW 1 wd_p3.1 (2 + (wd_getE wd_p3.2).length) ([[97], [98]] ++ (wd_getE wd_p3.2).map (·.name)) (wd_getEof wd_p3.2) := h
  have nm : (wd_getE wd_p3.2).map (·.name) = [[99]] := congrArg (fun x => x.2.1) wd_page3
  have e : (wd_getE wd_p3.2).length = 1 := by have := congrArg List.length nm; simpa using this
  have f : wd_getEof wd_p3.2 = true := congrArg (fun x => x.2.2) wd_page3
  rw [e, nm, f] at h'
  exact h'

/-- … and so the theorem applies: what the three replies carried is the backend's listing of the root, obtained from the
    theorem (not by evaluating the listing) -/
example : ∃ n, nodeOf wd_sW 1 = some n ∧ [[97], [98], [99]] = listing wd_sW.fs n.path := by
  have hn : (nodeOf wd_sW 1).isSome = true := by decide +kernel
  obtain ⟨n, hn⟩ := Option.isSome_iff_exists.mp hn
  refine ⟨n, hn, ?_⟩
  have := cookie_walk_lists_the_directory Props.C02.demoStateDc wd_history Props.C02.demoStateDc_ok.1 Props.C02.demoStateDc_ok.2 1 n hn wd_the_walk
  exact this.2.2 rfl


/-! ### why the invariant is a superset and not an equality (DESIGN §11.7), as a kernel-evaluated sl_history

MNT "/"; MKDIR k (handle 2); MKDIR o; MKDIR o/x; RMDIR k; SYMLINK l -> "o"; RENAME l -> k; READDIR through the old
handle 2 of /k. READDIR decides "is a directory" from the handle's snapshot and the backend's Readdir follows the final
link, so the listing of /o is stored under the key /k. Afterwards the cache holds `/k ↦ [x]` although the backend has
nothing below /k: "cached listing = backend listing of the key" is false in a reachable state. The sl_reply was still the
backend's (empty) listing, because every cached name is looked up again — the statement the theorems above make. -/
def sl_fhOf (h : UInt8) : Bytes := [0,0,0,8, 0,0,0,0,0,0,0,h]
def sl_nm (c : UInt8) : Bytes := [0,0,0,1, c, 0,0,0]
def sl_history : List Req := [⟨wd_ctx0, 100005, 3, 1, wd_mntArgs⟩,
  ⟨wd_ctx0, 100003, 3, 9, sl_fhOf 1 ++ sl_nm 107 ++ wd_sattr0⟩,                  -- MKDIR /k      (handle 2)
  ⟨wd_ctx0, 100003, 3, 9, sl_fhOf 1 ++ sl_nm 111 ++ wd_sattr0⟩,                  -- MKDIR /o      (handle 3)
  ⟨wd_ctx0, 100003, 3, 9, sl_fhOf 3 ++ sl_nm 120 ++ wd_sattr0⟩,                  -- MKDIR /o/x
  ⟨wd_ctx0, 100003, 3, 13, sl_fhOf 1 ++ sl_nm 107⟩,                           -- RMDIR /k
  ⟨wd_ctx0, 100003, 3, 10, sl_fhOf 1 ++ sl_nm 108 ++ wd_sattr0 ++ sl_nm 111⟩,       -- SYMLINK /l -> "o"
  ⟨wd_ctx0, 100003, 3, 14, sl_fhOf 1 ++ sl_nm 108 ++ sl_fhOf 1 ++ sl_nm 107⟩]       -- RENAME /l -> /k
def sl_sK : St := runReqs Props.C02.demoStateDc sl_history
def sl_reply := procReaddir sl_sK wd_ctx0 (sl_fhOf 2 ++ wd_ckBytes 0 ++ wd_tailBytes 255)

/-- the READDIR through the stale handle is answered NFS3_OK with an empty listing and eof — the backend's listing of /k -/
theorem sl_reply_is_backend : (wd_isOk sl_reply.2, (wd_getE sl_reply.2).map (·.name), wd_getEof sl_reply.2) = (true, [], true) ∧
    listing sl_sK.fs [47, 107] = [] := by decide +kernel

/-- … and leaves the listing of /o in the cache under the key /k: a strict superset of what the backend has below /k -/
theorem sl_cache_holds_a_strict_superset :
    (sl_reply.1.dc.map fun c => c.entries.map fun e => (e.key, e.val)) = some [([47, 107], some [[120]])] ∧
    listing sl_reply.1.fs [47, 107] = [] := by decide +kernel

/-- the state is reachable and satisfies both invariants (so the theorems of this file and of C02 apply to it) -/
theorem sl_invariants_hold : CInv sl_reply.1 ∧ DcSup sl_reply.1 := by
  have hI := runReqs_cinv Props.C02.demoStateDc sl_history Props.C02.demoStateDc_ok.1
  have hS := runReqs_dcSup Props.C02.demoStateDc sl_history Props.C02.demoStateDc_ok.1 Props.C02.demoStateDc_ok.2
  exact ⟨procReaddir_cinv sl_sK wd_ctx0 _ hI, procReaddir_dcSup sl_sK wd_ctx0 _ hI hS⟩


end Props.C26
