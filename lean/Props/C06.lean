/-
  C06 — A handle value never silently refers to a different object.
  The code re-issues freed ids (free-list reuse is pinned by the repository's own tests), so the full
  statement is false of the model as it is of the code; the counterexample is proved, replayed against the
  real code on every run and listed in known_findings.json. What is proved: the partial statements below.
-/
import Absnfs.HandlesInv
import Gen.Facts
import Absnfs.ServerStale
open Absnfs Absnfs.Handles

namespace Props.C06

abbrev alloc' := alloc Gen.defaultMaxHandles Gen.evictDivisor
abbrev run' := run Gen.defaultMaxHandles Gen.evictDivisor
abbrev Inv' := Inv Gen.defaultMaxHandles

/-- Full statement (NOT provable): a handle value, once issued for `p`, never resolves to another path. -/
def never_repointed_full : Prop :=
  ∀ (raw : Int) (ops1 ops2 : List Op) (p q : Bytes),
    (∀ op ∈ ops1 ++ ops2, op.WF) → p ≠ [] →
    let s1 := run' (init raw) ops1
    let h := (alloc' s1 p).2
    get (run' (alloc' s1 p).1 ops2) h = some q → q = p

/-- KNOWN FINDING C06/free-list-id-reuse: issue id 1 for /a, release it, allocate /b: id 1 now means /b. -/
theorem never_repointed_counterexample : ¬ never_repointed_full := by
  intro h
  have := h 0 [] [.release 1, .alloc [98]] [97] [98]
    (by intro op hop; simp at hop; rcases hop with rfl | rfl <;> simp [Op.WF]) (by decide)
  simp only at this
  exact absurd (this (by decide)) (by decide)

/-- A handle that is not in the table resolves to nothing (the handlers turn this into NFS3ERR_STALE:
    regenerated fact below). -/
theorem dead_handle_is_none (s : St) (h : Nat) (hd : h ∉ ids s.live) : get s h = none := by
  unfold Handles.get
  cases hf : s.live.find? (·.1 == h) with
  | none => rfl
  | some x =>
    exfalso
    have hm := List.mem_of_find?_eq_some hf
    have hp := List.find?_some hf
    simp at hp
    apply hd; rw [← hp]; exact List.mem_map_of_mem (f := (·.1)) hm

theorem gen_stale_on_miss : Gen.handlersStaleOnMiss = true := by decide

/-- Releasing or evicting removes the handle: after `release h`, `h` resolves to nothing. -/
theorem released_is_dead (s : St) (h : Nat) (hI : Inv' s) : get (release s h) h = none := by
  apply dead_handle_is_none
  unfold release
  split
  · simp only; rw [ids_eraseP]
    intro hh; exact ((List.Nodup.mem_erase_iff hI.idsNodup).mp hh).1 rfl
  · rename_i hn
    intro hin
    apply hn
    obtain ⟨x, hx, hxh⟩ := List.mem_map.mp hin
    exact List.any_eq_true.mpr ⟨x, hx, by simpa using hxh⟩

theorem releaseAll_kills_all (s : St) (h : Nat) : get (releaseAll s) h = none := by
  simp [Handles.get, releaseAll]

/-- Partial: a *fresh* id (taken from nextHandle, i.e. when the free list is empty) was never issued
    before — every id ever live or freed is below nextHandle. So without free-list reuse no value is
    ever re-pointed. -/
theorem fresh_id_never_issued (s : St) (p : Bytes) (hp : p ≠ []) (hI : Inv' s)
    (hfree : s.free = []) (hnew : handleOf s p = none) :
    (alloc' s p).2 = s.next ∧ s.next ∉ ids s.live ∧ ∀ i ∈ ids s.live, i < s.next := by
  refine ⟨?_, fun h => Nat.lt_irrefl _ (hI.liveLt _ h), hI.liveLt⟩
  unfold alloc' alloc
  rw [if_neg hp, hnew]
  simp only [pick, hfree, listMin]
  split <;> rfl

/-- Across Unexport / re-export: ReleaseAll empties the free list but keeps nextHandle, so every id
    issued afterwards (until some later release) is new: old handle values stay dead, never re-pointed. -/
theorem after_releaseAll_fresh (s : St) (p : Bytes) (hp : p ≠ []) (hI : Inv' s) :
    (alloc' (releaseAll s) p).2 = s.next ∧ ∀ i ∈ ids s.live, i < s.next := by
  have hI' : Inv' (releaseAll s) := inv_releaseAll _ s hI
  have := fresh_id_never_issued (releaseAll s) p hp hI' rfl (by simp [handleOf, releaseAll])
  exact ⟨this.1, hI.liveLt⟩

/-- nextHandle never decreases, so ids handed out from it are strictly increasing. -/
theorem next_monotone (s : St) (op : Op) :
    s.next ≤ (step Gen.defaultMaxHandles Gen.evictDivisor s op).next := by
  cases op with
  | alloc p =>
    simp only [step, alloc]
    split
    · exact Nat.le_refl _
    · have : s.next ≤ (pick s).2.2 := by
        unfold pick; split
        · exact Nat.le_refl _
        · exact Nat.le_succ _
      split <;> exact this
  | release h => simp only [step, release]; split <;> exact Nat.le_refl _
  | releaseAll => exact Nat.le_refl _

example : get (run' (init 0) [.alloc [97], .release 1, .alloc [98]]) 1 = some [98] := by decide

/-- Second clause at handler level, for the server model the replies are checked against: every NFS procedure
    that takes a handle (GETATTR … COMMIT, 1..21), given arguments whose handle decodes but is not (or no longer) in
    the table — released, evicted, or from before an Unexport — leaves the whole server state unchanged and answers
    with a status other than NFS3_OK and a body without attributes or data (the status is NFS3ERR_STALE unless an
    earlier check of the same handler fires first: read-only export, undecodable or invalid remaining arguments). -/
theorem dead_handle_refused_by_every_procedure (s : Server.St) (c : Server.Ctx) (proc : Nat) (hp : 1 ≤ proc ∧ proc ≤ 21)
    (args r1 : Bytes) (h : Nat) (hfh : Server.decFh' s args = some (h, r1)) (hn : Server.nodeOf s h = none) :
    (Server.handleNfs s c proc args).1 = s ∧
    ∃ st b, (Server.handleNfs s c proc args).2 = Server.res st b ∧ st ≠ 0 ∧ Server.BareBody b :=
  Server.dead_handle_refused proc hp hfh hn

/-- … and it is NFS3ERR_STALE (70) for GETATTR, the procedure with no other argument -/
example (s : Server.St) (c : Server.Ctx) (args r1 : Bytes) (h : Nat) (hfh : Server.decFh' s args = some (h, r1))
    (hn : Server.nodeOf s h = none) : Server.procGetattr s c args = (s, Server.res 70 .statusOnly) := by
  unfold Server.procGetattr; simp only [hfh, hn]

end Props.C06
