/-
  C23 — READ and WRITE within the advertised FSINFO limits are served.
  `fsinfoBody` is the model of handleFsinfo's transfer-size fields (the handler is replayed request by request
  against it); `cfg.transfer` is the effective TransferSize, whether set at construction or at runtime (the
  handlers load it per request), `cfg.maxRecord` is DefaultMaxRecordSize (regenerated from the source).
-/
import Absnfs.ServerData
import Gen.Facts
open Absnfs Absnfs.Server

namespace Props.C23

theorem gen_fsinfo_from_config : Gen.fsinfoUsesTransferSize = true := by decide
theorem gen_record_limit : Gen.defaultMaxRecordSize = 1048576 := by decide
/-- the hypothesis `0 < cfg.transfer` of the theorems below: construction defaults TransferSize, and a runtime
    update defaults its snapshot *before* publishing it, so no request ever loads a zero TransferSize -/
theorem gen_transfer_defaulted : Gen.cfgNewUsesSharedDefaults = true ∧ Gen.cfgTuningUpdateAppliesDefaults = true := by decide

/-- the advertised maxima and preferred sizes -/
def advertised (cfg : Cfg) : Nat × Nat × Nat :=
  let m0 := if cfg.transfer > 0 ∧ cfg.transfer < 1048576 then cfg.transfer else 1048576
  let xferMax := if m0 > cfg.maxRecord - 4096 then cfg.maxRecord - 4096 else m0
  (xferMax, (if 65536 > xferMax then xferMax else 65536), (if 4096 > xferMax then 1 else 4096))

theorem fsinfo_fields (cfg : Cfg) (a : Rfc.Fattr) :
    fsinfoBody cfg a = .fsinfoOk (some a) (advertised cfg).1 (advertised cfg).2.1 (advertised cfg).2.2
      (advertised cfg).1 (advertised cfg).2.1 (advertised cfg).2.2 8192 1099511627776 0 1000000 0x1a := rfl

/-- The advertised maxima never exceed what READ/WRITE accept (TransferSize) nor what the record reader accepts
    with room for the call header (DefaultMaxRecordSize − 4096); preferred ≤ maximum; all are positive. -/
theorem advertised_within_limits (cfg : Cfg) (ht : 0 < cfg.transfer) (hr : 4096 < cfg.maxRecord) :
    (advertised cfg).1 ≤ cfg.transfer ∧ (advertised cfg).1 + 4096 ≤ cfg.maxRecord ∧
    0 < (advertised cfg).1 ∧ 0 < (advertised cfg).2.1 ∧ (advertised cfg).2.1 ≤ (advertised cfg).1 ∧
    0 < (advertised cfg).2.2 ∧ (advertised cfg).2.2 ≤ (advertised cfg).1 := by
  unfold advertised
  simp only
  refine ⟨?_, ?_, ?_, ?_, ?_, ?_, ?_⟩ <;> (repeat' split) <;> omega

/-- A WRITE whose count is within the advertised wtmax is never refused for its size: the `count > TransferSize`
    test of handleWrite cannot fire. -/
theorem write_within_wtmax_passes_size_check (cfg : Cfg) (cnt : Nat) (ht : 0 < cfg.transfer) (hr : 4096 < cfg.maxRecord)
    (h : cnt ≤ (advertised cfg).1) : ¬ cnt > cfg.transfer := by
  have := (advertised_within_limits cfg ht hr).1
  omega

/-- … and its record (count bytes of data plus at most 4096 bytes of headers and other arguments) is within
    the record size limit. -/
theorem write_within_wtmax_fits_record (cfg : Cfg) (cnt : Nat) (ht : 0 < cfg.transfer) (hr : 4096 < cfg.maxRecord)
    (h : cnt ≤ (advertised cfg).1) : cnt + 4096 ≤ cfg.maxRecord := by
  have := (advertised_within_limits cfg ht hr).2.1
  omega

/-- A READ before EOF with a positive count returns at least one byte, whatever the configured transfer size
    (≥ 1), and never more than requested. -/
theorem read_before_eof_returns_data (s s' : St) (c : Ctx) (args : Bytes) (o : Option Rfc.Fattr) (cntR : Nat) (eof : Bool)
    (data : Bytes) (h : procRead s c args = (s', .res ⟨0, .readOk o cntR eof data⟩)) (ht : 0 < s.cfg.transfer) :
    ∃ (off cnt : Nat) (e : Fs.Entry), data.length = min (min cnt s.cfg.transfer) ((Fs.infoOf e).size - off) ∧
      (0 < cnt → off < (Fs.infoOf e).size → 0 < data.length) ∧ data.length ≤ cnt := by
  obtain ⟨_, off, cnt, _, _, _, _, _, e, _, _, _, _, _, _, hlen, _, _⟩ :=
    read_spec s args cntR eof data o (procRead_ok s s' c args o cntR eof data h)
  exact ⟨off, cnt, e, hlen, fun h1 h2 => by omega, by omega⟩

/-- non-vacuity: the default configuration advertises 64 KiB maxima; a 16 MiB TransferSize is capped by the record limit -/
def cfgWith (transfer : Nat) : Cfg :=
  { transfer := transfer, readOnly := false, maxFileSize := 0, squash := .none, maxStr := 8192, fhMax := 64,
    defaultMaxHandles := 100000, evictDivisor := 10, dcMaxDirSize := 10000, maxRecord := 1048576, writeVerf := [] }
example : advertised (cfgWith 65536) = (65536, 65536, 4096) := by decide
example : advertised (cfgWith 16777216) = (1044480, 65536, 4096) := by decide
example : advertised (cfgWith 100) = (100, 100, 1) := by decide

/-- the count in a WRITE reply is the number of bytes written (a write cut short by a lowered TransferSize says so) -/
theorem gen_write_reply_count : Gen.writeReplyCountIsBytesWritten = true := by decide

end Props.C23
