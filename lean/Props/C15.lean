/-
  C15 — Arbitrary client bytes cannot crash, desynchronise or exhaust the server.
  What a theorem can carry: the byte-level contract of one connection. Records are read with the record-marking
  reader and decoded with the call decoder; both are the models of C13 / C12 (compared there with the real
  decoders on structured, truncated and mutated inputs) and their allocation lists are bounded by the
  documented limits for *every* input. `ConnLoop.serve` is the loop over whole records. Process survival (no
  panic), heap growth and the probe connection are runtime behaviour: observed by the harness on a real
  record-marking TCP server, not provable here.
-/
import Absnfs.ConnLoop
import Gen.Facts
open Absnfs Absnfs.ConnLoop

namespace Props.C15

theorem gen_limits : Gen.defaultMaxRecordSize = 1048576 ∧ Gen.maxRpcAuth = 400 ∧ Gen.maxXdrString = 8192 := by decide
theorem gen_checks_before_make : (Gen.recordLimitBeforeMake && Gen.credLimitCheckBeforeMake && Gen.verfLimitCheckBeforeMake &&
    Gen.xdrStringLimitCheckBeforeMake && Gen.fhMaxBeforeMake) = true := by decide

/-- while decoding a call header the decoder allocates at most the two bounded auth bodies, whatever the bytes -/
theorem call_decoding_allocation_bounded (maxAuth : Nat) (bs : Bytes) :
    ∀ n ∈ decCallAllocs maxAuth bs, n ≤ maxAuth ∨ n < 4 := decCallAllocs_bounded maxAuth bs

/-- replies: exactly the XIDs of the records before the first undecodable one, in arrival order -/
theorem replies_are_the_decodable_prefix (maxAuth : Nat) (recs : List Bytes) :
    (serve maxAuth recs).1 = (decodablePrefix maxAuth recs).filterMap (xidOf maxAuth) := serve_replies maxAuth recs

/-- at most one reply per call, each carrying the XID of a call that was sent -/
theorem at_most_one_reply_each (maxAuth : Nat) (recs : List Bytes) :
    (serve maxAuth recs).1.length = (decodablePrefix maxAuth recs).length ∧
    ∀ x ∈ (serve maxAuth recs).1, ∃ r ∈ recs, xidOf maxAuth r = some x := one_reply_per_call maxAuth recs

/-- a connection whose stream becomes undecodable is closed, and nothing after that point is answered -/
theorem undecodable_closes (maxAuth : Nat) (recs : List Bytes) :
    (serve maxAuth recs).2 = true ↔ ∃ r ∈ recs, decCall maxAuth r = none := closed_iff_undecodable maxAuth recs

theorem nothing_answered_after (maxAuth : Nat) (pre : List Bytes) (bad : Bytes) (post : List Bytes)
    (hb : decCall maxAuth bad = none) : (serve maxAuth (pre ++ bad :: post)).1 = (serve maxAuth (pre ++ [bad])).1 :=
  nothing_after_undecodable maxAuth pre bad post hb

/-- non-vacuity: an 8-byte record is not a call -/
example : (serve 400 [[0, 0, 0, 1, 0, 0, 0, 0]]).2 = true := by decide

/-- a call refused at the RPC level gives the policy read-lock back first: nothing is left held that could stop a later
    policy reload, and with it every other connection -/
theorem gen_refusal_unlocks : Gen.handleCallUnlocksOnRefusal = true := by decide

end Props.C15
