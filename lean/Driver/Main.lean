import Absnfs
import Gen
open Absnfs

namespace Driver

def optHexPair : Option (Bytes × Bytes) → String
  | none => "none"
  | some (a, r) => s!"some {toHex a} rest={toHex r}"

def showOptNat : Option Nat → String
  | none => "-"
  | some v => toString v

def showSattr (s : Sattr3) : String :=
  s!"mode={showOptNat s.mode} uid={showOptNat s.uid} gid={showOptNat s.gid} size={showOptNat s.size} atime={s.atimeHow}:{s.atime.1}:{s.atime.2} mtime={s.mtimeHow}:{s.mtime.1}:{s.mtime.2}"

def natList (l : List Nat) : String := ",".intercalate (l.map toString)

/-- Effective MaxRecordSize as ReadRecord computes it. -/
def effMaxRec (n : Int) : Nat := if n ≤ 0 then Gen.defaultMaxRecordSize else n.toNat

/-- Effective max fragment as NewRecordMarkingWriterWithSize computes it. -/
def effMaxFrag (n : Int) : Nat :=
  if n ≤ 0 ∨ n > 2147483647 then Gen.defaultMaxFragmentSize else n.toNat

def xdrCmd : List String → String
  | ["decstr", h] => match fromHex h with
    | some bs => optHexPair (decString Gen.maxXdrString bs)
    | none => "bad-op"
  | ["encstr", h] => match fromHex h with
    | some bs => toHex (encOpaque bs)
    | none => "bad-op"
  | ["decfh", h] => match fromHex h with
    | some bs => match decFh Gen.fhMax Gen.fhLen bs with
      | some (v, r) => s!"some {v} rest={toHex r}"
      | none => s!"none rest={toHex (decFhRest Gen.fhMax Gen.fhLen bs)}"
    | none => "bad-op"
  | ["encfh", n] => match n.toNat? with
    | some v => toHex (encFh v)
    | none => "bad-op"
  | ["decsattr", h] => match fromHex h with
    | some bs => match decSattr3 bs with
      | some (s, r) => s!"some {showSattr s} rest={toHex r}"
      | none => "none"
    | none => "bad-op"
  | ["u32", h] => match fromHex h with
    | some bs => match decU32 bs with
      | some (v, r) => s!"some {v} rest={toHex r}"
      | none => "none"
    | none => "bad-op"
  | _ => "bad-op"

def rpcCmd : List String → String
  | ["deccall", h] => match fromHex h with
    | some bs => match decCall Gen.maxRpcAuth bs with
      | some (c, r) => s!"some xid={c.xid} rpcv={c.rpcVers} prog={c.prog} vers={c.vers} proc={c.proc} cred={c.cred.flavor}:{toHex c.cred.body} verf={c.verf.flavor}:{toHex c.verf.body} rest={toHex r}"
      | none => "none"
    | none => "bad-op"
  | ["encreply", xid, st, acc, vf, vb, data] =>
    match xid.toNat?, st.toNat?, acc.toNat?, vf.toNat?, fromHex vb, fromHex data with
    | some xid, some st, some acc, some vf, some vb, some data =>
      toHex (encReply { xid := xid, status := st, acceptStatus := acc, verf := ⟨vf, vb⟩, data := data })
    | _, _, _, _, _, _ => "bad-op"
  | ["authsys", h] => match fromHex h with
    | some bs => match parseAuthSys Gen.maxXdrString Gen.maxAuxGids bs with
      | some a => s!"some stamp={a.stamp} machine={toHex a.machine} uid={a.uid} gid={a.gid} gids={natList a.gids}"
      | none => "none"
    | none => "bad-op"
  | _ => "bad-op"

/-- `wire <prog> <proc> <hex>`: decode a whole reply message with the RFC 1831 reply decoder and, for an
    accepted SUCCESS reply, its results with the RFC 1813 / MOUNT result decoder of (prog, proc). -/
def wireCmd : List String → String
  | [prog, proc, h] => match prog.toNat?, proc.toNat?, fromHex h with
    | some prog, some proc, some bs =>
      match decReply Gen.maxRpcAuth bs with
      | none => "bad-rpc"
      | some (.success xid _ results) =>
        (match Rfc.decRes prog proc results with
         | some r => s!"ok xid={xid} accepted status={r.status}"
         | none => s!"bad-result xid={xid}")
      | some (.progUnavail xid _) => s!"ok xid={xid} prog-unavail"
      | some (.progMismatch xid _ lo hi) => s!"ok xid={xid} prog-mismatch {lo} {hi}"
      | some (.procUnavail xid _) => s!"ok xid={xid} proc-unavail"
      | some (.garbageArgs xid _) => s!"ok xid={xid} garbage-args"
      | some (.systemErr xid _) => s!"ok xid={xid} system-err"
      | some (.rpcMismatch xid _ _) => s!"ok xid={xid} rpc-mismatch"
      | some (.authError xid st) => s!"ok xid={xid} auth-error {st}"
    | _, _, _ => "bad-op"
  | _ => "bad-op"

def rmCmd : List String → String
  | ["read", m, h] => match m.toInt?, fromHex h with
    | some m, some bs => optHexPair (readRecord (effMaxRec m) bs)
    | _, _ => "bad-op"
  | ["write", m, h] => match m.toInt?, fromHex h with
    | some m, some bs => toHex (writeRecord (effMaxFrag m) bs)
    | _, _ => "bad-op"
  | _ => "bad-op"

def parseNatList (s : String) : Option (List Nat) :=
  if s = "-" then some [] else (s.splitOn ",").mapM String.toNat?

def parseOct (s : String) : Option Nat :=
  s.toList.foldlM (fun acc c => if '0' ≤ c ∧ c ≤ '7' then some (acc * 8 + (c.toNat - 48)) else none) 0

def accessCmd : List String → String
  | [mode, d, ro, eu, eg, aux, fu, fg, mask] =>
    match parseOct mode, d.toNat?, ro.toNat?, eu.toNat?, eg.toNat?, parseNatList aux, fu.toNat?, fg.toNat?, mask.toNat? with
    | some mode, some d, some ro, some eu, some eg, some aux, some fu, some fg, some mask =>
      toString (accessReply mode (d == 1) (ro == 1) eu eg aux fu fg mask)
    | _, _, _, _, _, _, _, _, _ => "bad-op"
  | _ => "bad-op"

/-- ACCESS on an export with a squash mode: the credential as sent is squashed (C10), then judged (C12) -/
def accessqCmd : List String → String
  | [sq, mode, d, eu, eg, aux, fu, fg, mask] =>
    match parseOct mode, d.toNat?, eu.toNat?, eg.toNat?, parseNatList aux, fu.toNat?, fg.toNat?, mask.toNat? with
    | some mode, some d, some eu, some eg, some aux, some fu, some fg, some mask =>
      let id := squash (squashMode sq.toUTF8.toList) { uid := eu, gid := eg, aux := aux }
      toString (accessReply mode (d == 1) false id.uid id.gid id.aux fu fg mask)
    | _, _, _, _, _, _, _, _ => "bad-op"
  | _ => "bad-op"

def parseClient (s : String) : Option (Option IP) :=
  if s = "bad" then some none
  else match s.splitOn ":" with
    | ["n", v] => v.toNat?.map fun n => some (normalizeIP n)
    | _ => none

def parseEntry (s : String) : Option AllowEntry :=
  if s = "bad" then some .bad
  else match s.splitOn ":" with
    | ["s", v] => v.toNat?.map fun n => .single (normalizeIP n)
    | ["c4", v] => match v.splitOn "/" with
      | [b, o] => match b.toNat?, o.toNat? with
        | some b, some o => some (.cidr (.v4 b) o)
        | _, _ => none
      | _ => none
    | ["c6", v] => match v.splitOn "/" with
      | [b, o] => match b.toNat?, o.toNat? with
        | some b, some o => some (.cidr (.v6 b) o)
        | _, _ => none
      | _ => none
    | _ => none

def showOutcome : AuthOutcome → String
  | .denied => "denied"
  | .allowed id => s!"allowed {id.uid} {id.gid} [{natList id.aux}]"

def authCmd : List String → String
  | "allowed" :: client :: entries =>
    match parseClient client, entries.mapM parseEntry with
    | some c, some es => if hostAdmitted c es then "1" else "0"
    | _, _ => "bad-op"
  | "validate" :: client :: secure :: port :: flavor :: body :: sq :: entries =>
    match parseClient client, secure.toNat?, port.toNat?, flavor.toNat?, fromHex body, fromHex sq, entries.mapM parseEntry with
    | some c, some sec, some port, some fl, some body, some sq, some es =>
      showOutcome (validateAuth Gen.maxXdrString Gen.maxAuxGids c es (sec == 1) port Gen.securePortBound fl body sq)
    | _, _, _, _, _, _, _ => "bad-op"
  | _ => "bad-op"

structure CacheSlot where
  name : String
  isDir : Bool
  maxDirSize : Nat
  cache : Lru.Cache Nat

structure St where
  handles : Handles.St := Handles.init 0
  caches : List CacheSlot := []
  pm : Portmap.Registry := []
  pmAddr : Bytes := []
  fs : Fs.T := Fs.empty 67108864
  drain : Drain.St := Drain.init
  cfg : Option Config.Cfg := none
  cfgCpu : Nat := 1
  buckets : List (String × Bucket.TB) := []
  limiters : List (String × Bucket.RL) := []
  srv : Option Server.St := none
  dur : Durable.File := { data := [], durable := [] }

def findCache (st : St) (n : String) : Option CacheSlot := st.caches.find? (·.name == n)
def setCache (st : St) (slot : CacheSlot) : St :=
  { st with caches := slot :: st.caches.filter (·.name != slot.name) }

def showRes : Lru.Res Nat → String
  | .hit v => s!"hit {v}"
  | .neg => "neg"
  | .miss => "miss"

def sec (n : Nat) : Nat := n * 1000000000

def showRat (q : Rat) : String := s!"{q.num}/{q.den}"

def mkRat (n d : Nat) : Rat := (n : Rat) / (d : Rat)

def b01 (b : Bool) : String := if b then "1" else "0"

def pmChecks : Portmap.Checks :=
  { v2Set := Gen.pmV2SetChecked, v2Unset := Gen.pmV2UnsetChecked, rpcbSet := Gen.pmRpcbSetChecked,
    rpcbUnset := Gen.pmRpcbUnsetChecked, mismatchInfo := Gen.pmMismatchInfo }

def pmCmd (st : St) : List String → St × String
  | ["reset", a] => match fromHex a with
    | some a => ({ st with pm := [], pmAddr := a }, "ok")
    | none => (st, "bad-op")
  | ["call", who, h] => match fromHex h with
    | some bs =>
      let c := if who.startsWith "loop" then Portmap.Caller.loopback else Portmap.Caller.other
      let r := Portmap.handleCall pmChecks Gen.maxRpcAuth Gen.maxXdrString st.pmAddr st.pm c bs
      ({ st with pm := r.1 }, match r.2 with | some b => toHex b | none => "none")
    | none => (st, "bad-op")
  | ["reg"] => (st, ",".intercalate (st.pm.map fun m => s!"{m.prog}:{m.vers}:{m.prot}:{m.port}"))
  | _ => (st, "bad-op")

def cfgBeh : Config.Behaviour :=
  { tuningDefaults := Gen.cfgTuningUpdateAppliesDefaults, validatesFirst := Gen.cfgUpdateValidatesFirst,
    policyDefaultsRL := Gen.cfgPolicyDefaultsRateLimitConfig }
def cfgDNum (cpu : Nat) : List Int :=
  Gen.cfgDefaults.map fun kv => if kv.1 = "MaxWorkers" then (4 * cpu : Int) else (kv.2 : Int)
def cfgDTmo : List Int := Gen.cfgTimeoutDefaults.map fun kv => (kv.2 : Int)

def parseInts (s : String) : Option (List Int) := (s.splitOn ",").mapM String.toInt?
def parseOptInts (s : String) : Option (Option (List Int)) :=
  if s = "nil" then some none else (parseInts s).map some
def parseFlags (s : String) : List Bool := s.toList.map (· == '1')
def parseOptNat (s : String) : Option (Option Nat) := if s = "nil" then some none else s.toNat?.map some

def showInts (l : List Int) : String := ",".intercalate (l.map toString)
def showCfg (c : Config.Cfg) : String :=
  let tm := match c.tuning.timeouts with | none => "nil" | some v => showInts v
  let rl := match c.policy.rlConfig with | none => "nil" | some v => toString v
  s!"num={showInts c.tuning.num} tmo={tm} flags={String.ofList (c.tuning.flags.map fun b => if b then '1' else '0')} ro={b01 c.policy.readOnly} sec={b01 c.policy.secure} squash={toHex c.policy.squash} maxfs={c.policy.maxFileSize} rl={b01 c.policy.enableRL} rlcfg={rl} allowed={c.policy.allowed}"

def parsePolicy : List String → Option Config.Policy
  | [ro, sec, sq, mfs, rl, rlc, al] =>
    match fromHex sq, mfs.toInt?, parseOptNat rlc, al.toNat? with
    | some sq, some mfs, some rlc, some al =>
      some { readOnly := ro == "1", secure := sec == "1", squash := sq, maxFileSize := mfs, enableRL := rl == "1",
             rlConfig := rlc, allowed := al }
    | _, _, _, _ => none
  | _ => none

def cfgCmd (st : St) : List String → St × String
  | "new" :: cpu :: num :: tmo :: flags :: pol =>
    match cpu.toNat?, parseInts num, parseOptInts tmo, parsePolicy pol with
    | some cpu, some num, some tmo, some pol =>
      if (squashMode pol.squash != .unknown) then
        let fl := match parseFlags flags with
          | a :: b :: _ :: _ :: e :: rest => a :: b :: true :: true :: e :: rest
          | l => l
        let t := Config.defaultTuning (cfgDNum cpu) cfgDTmo { num := num, timeouts := tmo, flags := fl }
        let p := if pol.rlConfig = none then { pol with rlConfig := some Config.defaultRL } else pol
        ({ st with cfg := some { tuning := t, policy := p }, cfgCpu := cpu }, "ok")
      else (st, "error")
    | _, _, _, _ => (st, "bad-op")
  | ["get"] => (st, match st.cfg with | some c => showCfg c | none => "none")
  | "tuning" :: num :: tmo :: flags :: [] =>
    match st.cfg, parseInts num, parseOptInts tmo with
    | some c, some num, some tmo =>
      ({ st with cfg := some (Config.updateTuning cfgBeh (cfgDNum st.cfgCpu) cfgDTmo c
          { num := num, timeouts := tmo, flags := parseFlags flags }) }, "ok")
    | _, _, _ => (st, "bad-op")
  | "policy" :: pol =>
    match st.cfg, parsePolicy pol with
    | some c, some pol =>
      match Config.updatePolicy cfgBeh c pol with
      | some c' => ({ st with cfg := some c' }, "ok")
      | none => (st, "rejected")
    | _, _ => (st, "bad-op")
  | "export" :: num :: tmo :: flags :: pol =>
    match st.cfg, parseInts num, parseOptInts tmo, parsePolicy pol with
    | some c, some num, some tmo, some pol =>
      let r := Config.updateExport cfgBeh (cfgDNum st.cfgCpu) cfgDTmo c
        { tuning := { num := num, timeouts := tmo, flags := parseFlags flags }, policy := pol }
      ({ st with cfg := some r.1 }, if r.2 then "rejected" else "ok")
    | _, _, _, _ => (st, "bad-op")
  | _ => (st, "bad-op")

def startupFacts : Startup.Facts :=
  { exportSetsRecordMarking := Gen.exportSetsRecordMarking,
    portmapperSetsRecordMarking := Gen.portmapperSetsRecordMarking,
    acceptLoopBranchesOnOption := Gen.acceptLoopBranchesOnRecordMarking }

def startupCmd : List String → String
  | [p] =>
    let sp := match p with
      | "export" => some Startup.StartPath.export
      | "listen-rm" => some .listenRecordMarking
      | "listen-default" => some .listenDefault
      | "portmapper" => some .withPortmapper
      | _ => none
    match sp with
    | some sp => if Startup.framing startupFacts sp == .recordMarking then "rm" else "raw"
    | none => "bad-op"
  | _ => "bad-op"

def tlsFacts : Tls.Facts :=
  { floor := Gen.tlsValidateFloor, pinsUnsetMin := Gen.tlsPinsUnsetMin, cloneSharesCert := Gen.tlsCloneSharesCert }

def tlsCmd : List String → String
  | ["validate", mn, mx] => match mn.toNat?, mx.toNat? with
    | some mn, some mx =>
      b01 (Tls.validate tlsFacts { enabled := true, minV := mn, maxV := mx, clientAuth := 0, caSet := false, filesExist := true })
    | _, _ => "bad-op"
  | ["admits", gomin, mn, mx, v] => match gomin.toNat?, mn.toNat?, mx.toNat?, v.toNat? with
    | some g, some mn, some mx, some v =>
      b01 (Tls.admitsVersion tlsFacts g { enabled := true, minV := mn, maxV := mx, clientAuth := 0, caSet := false, filesExist := true } v)
    | _, _, _, _ => "bad-op"
  | ["accepts", ca, pr, ok] => match ca.toNat? with
    | some ca => b01 (Tls.acceptsClient { enabled := true, minV := 0, maxV := 0, clientAuth := ca, caSet := true, filesExist := true } (pr == "1") (ok == "1"))
    | none => "bad-op"
  | ["rotate"] =>
    let cs : Tls.Cells := { listener := 0, content := fun _ => 1, nextCell := 1 }
    let r := Tls.cloneCell tlsFacts cs cs.listener
    if Tls.presented (Tls.reload r.1 r.2 2) == 2 then "new" else "old"
  | ["rotate", "samekey"] =>
    -- a renewed certificate for the same private key is still a new certificate: reload is unconditional
    let cs : Tls.Cells := { listener := 0, content := fun _ => 1, nextCell := 1 }
    let r := Tls.cloneCell tlsFacts cs cs.listener
    if Tls.presented (Tls.reload r.1 r.2 2) == 2 then "new" else "old"
  | ["rotate", "updated"] =>
    -- GetExportOptions (clone), UpdateExportOptions (stores a clone of that), GetExportOptions again (clone)
    let cs : Tls.Cells := { listener := 0, content := fun _ => 1, nextCell := 1 }
    let r1 := Tls.cloneCell tlsFacts cs cs.listener
    let r2 := Tls.cloneCell tlsFacts r1.1 r1.2
    let r3 := Tls.cloneCell tlsFacts r2.1 r2.2
    if Tls.presented (Tls.reload r3.1 r3.2 2) == 2 then "new" else "old"
  | _ => "bad-op"

def poolCmd : List String → String
  | ["allowed", o] =>
    let oc := match o with
      | "exec" => some Pool.Outcome.executedOnce
      | "told" => some .toldNotExecuted
      | "blocked" => some .blockedForever
      | "nil" => some .nilResult
      | "twice" => some .executedTwice
      | _ => none
    match oc with
    | some oc => b01 (Pool.outcomeAllowed Gen.poolStopDrains Gen.poolResizeSendsNil oc)
    | none => "bad-op"
  | _ => "bad-op"

/-- the updater proceeds as soon as it can: Lock returns when no reader is left, then store + Unlock -/
def drainProgress (d : Drain.St) : Drain.St :=
  if d.upd == .waiting && (Drain.actives d).isEmpty then
    { d with policy := d.pendingPolicy, limiter := d.pendingPolicy, upd := .idle }
  else d

def drainCmd (st : St) : List String → St × String
  | ["reset"] => ({ st with drain := Drain.init }, "ok")
  | ["req", r] => match r.toNat? with
    | some r =>
      let d := st.drain
      if d.upd == .idle then
        ({ st with drain := { d with reqs := ⟨r, d.policy, .active, false, d.limiter⟩ :: d.reqs } }, s!"admitted {d.policy}")
      else
        ({ st with drain := { d with reqs := ⟨r, d.policy, .refused, false, d.limiter⟩ :: d.reqs } }, "refused")
    | none => (st, "bad-op")
  | ["upd", p] => match p.toNat? with
    | some p =>
      let d := st.drain
      if d.upd == .idle then
        ({ st with drain := drainProgress { d with upd := .waiting, pendingPolicy := p } }, "started")
      else (st, "bad-op")
    | none => (st, "bad-op")
  | ["release", r] => match r.toNat? with
    | some r =>
      let d := st.drain
      match d.reqs.find? (fun q => q.id == r && q.phase == .active) with
      | some q =>
        let d1 := { d with backendLog := (q.id, q.admitted, d.policy) :: d.backendLog,
                           reqs := Drain.setPhase d.reqs r .done }
        ({ st with drain := drainProgress d1 }, s!"backend admitted={q.admitted} inforce={d.policy}")
      | none => (st, "bad-op")
    | none => (st, "bad-op")
  | ["wait"] => (st, "ok")   -- callers give up after their timeout; the requests they sent keep their place
  | ["state"] =>
    let d := st.drain
    (st, s!"upd={if d.upd == .idle then "idle" else "waiting"} policy={d.policy} active={(Drain.actives d).length}")
  | _ => (st, "bad-op")

/-- accounting outcome of a run in which `clients` connections arrive at a server with limit `max`, all of
    them eventually leave and every unregister call completes: run the transition system to rest. -/
def connsFinal (max clients : Nat) : Int :=
  let rec go (fuel : Nat) (s : Conns.St) (next : Nat) : Conns.St :=
    match fuel with
    | 0 => s
    | f + 1 =>
      if next < clients then
        if max = 0 ∨ s.count < max then
          go f { s with conns := ⟨next, true, false, 0⟩ :: s.conns, count := s.count + 1 } (next + 1)
        else
          -- at the limit: unregister the oldest registered connection first (it left), then continue
          match s.conns.find? (·.inMap) with
          | some c => go f { s with conns := Conns.upd s.conns c.id Conns.fire, count := s.count - 1 } next
          | none => go f { s with rejected := s.rejected + 1 } (next + 1)
      else
        match s.conns.find? (·.inMap) with
        | some c => go f { s with conns := Conns.upd s.conns c.id Conns.fire, count := s.count - 1 } next
        | none => s
  (go (4 * clients + 4) Conns.init 0).count

def connsCmd : List String → String
  | ["final", m, c] => match m.toNat?, c.toNat? with
    | some m, some c => s!"count={connsFinal m c}"
    | _, _ => "bad-op"
  | _ => "bad-op"

def parsePath (h : String) : Option Fs.Path :=
  (fromHex h).map fun b => (splitOnByte 47 b).filter (· ≠ [])

def pathStr (p : Fs.Path) : String :=
  if p.isEmpty then "/" else String.join (p.map fun c => "/" ++ String.ofList (c.map fun b => Char.ofNat b.toNat))

def pathLt : Fs.Path → Fs.Path → Bool
  | [], [] => false
  | [], _ :: _ => true
  | _ :: _, [] => false
  | a :: as, b :: bs => if Fs.bytesLt a b then true else if Fs.bytesLt b a then false else pathLt as bs

def octStr (n : Nat) : String := String.ofList (Nat.toDigits 8 n)

def fsDump (fs : Fs.T) : String :=
  let sorted := fs.ents.toArray.qsort (fun a b => pathLt a.1 b.1) |>.toList
  String.join (sorted.map fun (p, e) =>
    match e.kind with
    | .dir => s!"d:{pathStr p}:{octStr e.perm}:{e.uid}:{e.gid};"
    | .file => s!"f:{pathStr p}:{octStr e.perm}:{e.uid}:{e.gid}:{toHex e.data};"
    | .link => s!"l:{pathStr p}:{toHex e.data};")

def pathHex (p : Fs.Path) : String :=
  if p.isEmpty then "2f" else toHex (p.foldl (fun acc c => acc ++ 47 :: c) [])

def fsDumpHex (fs : Fs.T) : String :=
  let sorted := fs.ents.toArray.qsort (fun a b => pathLt a.1 b.1) |>.toList
  String.join (sorted.map fun (p, e) =>
    match e.kind with
    | .dir => s!"d:{pathHex p}:{octStr e.perm}:{e.uid}:{e.gid};"
    | .file => s!"f:{pathHex p}:{octStr e.perm}:{e.uid}:{e.gid}:{toHex e.data};"
    | .link => s!"l:{pathHex p}:{toHex e.data};")

def errName : Fs.Errno → String
  | .ENOENT => "ENOENT" | .EEXIST => "EEXIST" | .ENOTDIR => "ENOTDIR" | .EISDIR => "EISDIR"
  | .ENOTEMPTY => "ENOTEMPTY" | .EINVAL => "EINVAL" | .EFBIG => "EFBIG" | .ELOOP => "ELOOP"
  | .EBADF => "EBADF" | .EIO => "EIO"

def kindCh : Fs.Kind → String
  | .file => "f" | .dir => "d" | .link => "l"

def showInfo (i : Fs.Info) : String := s!"{kindCh i.kind} {octStr i.perm} {i.size} {i.uid} {i.gid}"

def fsUpd (st : St) (r : Except Fs.Errno Fs.T) : St × String :=
  match r with
  | .ok fs => ({ st with fs := fs }, "ok")
  | .error e => (st, errName e)

def fsCmd (st : St) : List String → St × String
  | ["reset"] => ({ st with fs := Fs.empty 67108864 }, "ok")
  | ["dump"] => (st, fsDump st.fs)
  | ["lstat", p] => match parsePath p with
    | some p => (st, match Fs.lstat st.fs p with | .ok i => showInfo i | .error e => errName e)
    | none => (st, "bad-op")
  | ["stat", p] => match parsePath p with
    | some p => (st, match Fs.stat st.fs p with | .ok i => showInfo i | .error e => errName e)
    | none => (st, "bad-op")
  | ["readlink", p] => match parsePath p with
    | some p => (st, match Fs.readlink st.fs p with | .ok t => toHex t | .error e => errName e)
    | none => (st, "bad-op")
  | ["read", p, off, cnt] => match parsePath p, off.toNat?, cnt.toNat? with
    | some p, some off, some cnt =>
      (st, match Fs.openRead st.fs p with
        | .ok (_, e) => if e.kind = .file then toHex (Fs.slice e.data off cnt) else "EISDIR"
        | .error e => errName e)
    | _, _, _ => (st, "bad-op")
  | ["write", p, off, d] => match parsePath p, off.toNat?, fromHex d with
    | some p, some off, some d => fsUpd st ((Fs.writeAt st.fs p off d).map (·.1))
    | _, _, _ => (st, "bad-op")
  | ["truncate", p, n] => match parsePath p, n.toNat? with
    | some p, some n => fsUpd st (Fs.truncate st.fs p n)
    | _, _ => (st, "bad-op")
  | ["create", p] => match parsePath p with
    | some p => fsUpd st (Fs.create st.fs p)
    | none => (st, "bad-op")
  | ["mkdir", p, perm] => match parsePath p, parseOct perm with
    | some p, some perm => fsUpd st (Fs.mkdir st.fs p perm)
    | _, _ => (st, "bad-op")
  | ["symlink", t, p] => match fromHex t, parsePath p with
    | some t, some p => fsUpd st (Fs.symlink st.fs t p)
    | _, _ => (st, "bad-op")
  | ["remove", p] => match parsePath p with
    | some p => fsUpd st (Fs.remove st.fs p)
    | none => (st, "bad-op")
  | ["rename", a, b] => match parsePath a, parsePath b with
    | some a, some b => fsUpd st (Fs.rename st.fs a b)
    | _, _ => (st, "bad-op")
  | ["chmod", p, perm] => match parsePath p, parseOct perm with
    | some p, some perm => fsUpd st (Fs.chmod st.fs p perm)
    | _, _ => (st, "bad-op")
  | ["chown", p, u, g] => match parsePath p, u.toNat?, g.toNat? with
    | some p, some u, some g => fsUpd st (Fs.chown st.fs p u g)
    | _, _, _ => (st, "bad-op")
  | ["lchown", p, u, g] => match parsePath p, u.toNat?, g.toNat? with
    | some p, some u, some g => fsUpd st (Fs.lchown st.fs p u g)
    | _, _, _ => (st, "bad-op")
  | ["readdir", p] => match parsePath p with
    | some p => (st, match Fs.readdir st.fs p with
        | .ok l => ",".intercalate (l.map fun (n, i) => toHex n ++ ":" ++ kindCh i.kind)
        | .error e => errName e)
    | none => (st, "bad-op")
  | _ => (st, "bad-op")


/-! ### srv: the server model -/

def srvSeed (s : Server.St) : List String → Option Server.St
  | ["mkdir", p] => match fromHex p with
    | some p => (match Fs.mkdir s.fs (Server.fsPath p) 0o755 with | .ok f => some { s with fs := f } | .error _ => none)
    | none => none
  | ["file", p, d] => match fromHex p, fromHex d with
    | some p, some d =>
      (match Fs.create s.fs (Server.fsPath p) with
       | .error _ => none
       | .ok f => match Fs.writeAt f (Server.fsPath p) 0 d with
         | .ok (f2, _) => some { s with fs := f2 }
         | .error _ => none)
    | _, _ => none
  | ["link", p, t] => match fromHex p, fromHex t with
    | some p, some t => (match Fs.symlink s.fs t (Server.fsPath p) with | .ok f => some { s with fs := f } | .error _ => none)
    | _, _ => none
  | _ => none

def outcomeAccept : Server.Outcome → Nat
  | .res _ => 0 | .progUnavail => 1 | .progMismatch => 2 | .procUnavail => 3 | .garbageArgs => 4

def srvCmd (st : St) : List String → St × String
  | ["new", transfer, ro, maxfile, squash, attrTtl, attrSize, neg, negTtl, dc, dcTtl, dcMax, dcMaxDir, maxH, verf] =>
    match transfer.toNat?, ro.toNat?, maxfile.toInt?, fromHex squash, attrTtl.toNat?, attrSize.toNat?, neg.toNat?, negTtl.toNat?,
          dc.toNat?, dcTtl.toNat?, dcMax.toNat?, dcMaxDir.toNat?, maxH.toInt?, fromHex verf with
    | some transfer, some ro, some maxfile, some squash, some attrTtl, some attrSize, some neg, some negTtl,
      some dc, some dcTtl, some dcMax, some dcMaxDir, some maxH, some verf =>
      let cfg : Server.Cfg :=
        { transfer := transfer, readOnly := ro == 1, maxFileSize := maxfile, squash := squashMode squash,
          maxStr := Gen.maxXdrString, fhMax := Gen.fhMax, defaultMaxHandles := Gen.defaultMaxHandles,
          evictDivisor := Gen.evictDivisor, dcMaxDirSize := dcMaxDir, maxRecord := Gen.defaultMaxRecordSize,
          writeVerf := verf }
      let ac : Lru.Cache Server.Attrs :=
        { entries := [], cap := attrSize, ttl := attrTtl, negTtl := negTtl, enableNeg := neg == 1, hitAtEq := false }
      let dcc : Lru.Cache (List Bytes) :=
        { entries := [], cap := dcMax, ttl := dcTtl, negTtl := 0, enableNeg := false, hitAtEq := true }
      let s : Server.St :=
        { fs := Fs.empty 67108864, hs := Handles.init maxH, nodes := [], ac := ac,
          dc := if dc == 1 then some dcc else none, excl := [], cfg := cfg }
      ({ st with srv := some s }, "ok")
    | _, _, _, _, _, _, _, _, _, _, _, _, _, _ => (st, "bad-op")
  | "seed" :: rest => match st.srv with
    | some s => (match srvSeed s rest with | some s' => ({ st with srv := some s' }, "ok") | none => (st, "seed-failed"))
    | none => (st, "bad-op")
  | ["ro", v] => match st.srv, v.toNat? with
    | some s, some v => ({ st with srv := some { s with cfg := { s.cfg with readOnly := v == 1 } } }, "ok")
    | _, _ => (st, "bad-op")
  | ["transfer", v] => match st.srv, v.toNat? with
    | some s, some v => ({ st with srv := some { s with cfg := { s.cfg with transfer := v } } }, "ok")
    | _, _ => (st, "bad-op")
  | ["maxfile", v] => match st.srv, v.toInt? with
    | some s, some v => ({ st with srv := some { s with cfg := { s.cfg with maxFileSize := v } } }, "ok")
    | _, _ => (st, "bad-op")
  | ["dump"] => match st.srv with
    | some s => (st, fsDumpHex s.fs)
    | none => (st, "bad-op")
  | ["busy", prog, vers, proc, accept, data] =>
    match prog.toNat?, vers.toNat?, proc.toNat?, accept.toNat?, fromHex data with
    | some prog, some vers, some proc, some accept, some data =>
      (match Server.busy prog vers proc with
       | .res r =>
         if accept ≠ 0 then (st, s!"DIFF model=accepted status={r.status} impl=accept_stat {accept}")
         else (match Rfc.decResWith false prog proc data with
           | none => (st, s!"DIFF model={reprStr r} impl=undecodable {toHex data}")
           | some r' => if r' = r then (st, "match") else (st, s!"DIFF model={reprStr r} impl={reprStr r'}"))
       | o => if accept = outcomeAccept o then (st, "match") else (st, s!"DIFF model=accept_stat {outcomeAccept o} impl=accept_stat {accept}"))
    | _, _, _, _, _ => (st, "bad-op")
  | ["call", now, flavor, uid, gid, aux, prog, vers, proc, args, accept, data] =>
    match st.srv, now.toNat?, flavor.toNat?, uid.toNat?, gid.toNat?, parseNatList aux, prog.toNat?, vers.toNat?, proc.toNat?,
          fromHex args, accept.toNat?, fromHex data with
    | some s, some now, some flavor, some uid, some gid, some aux, some prog, some vers, some proc, some args, some accept, some data =>
      let ident : Identity := if flavor = 1 then squash s.cfg.squash { uid := uid, gid := gid, aux := aux }
                              else { uid := nobody, gid := nobody, aux := [] }
      let ctx : Server.Ctx := { now := now, uid := ident.uid, gid := ident.gid, aux := ident.aux }
      let (s', out) := Server.handle s ctx prog vers proc args
      let st' := { st with srv := some s' }
      match out with
      | .res r =>
        if accept ≠ 0 then (st', s!"DIFF model=accepted status={r.status} impl=accept_stat {accept}")
        else (match Rfc.decResWith false prog proc data with
          | none => (st', s!"DIFF model={reprStr r} impl=undecodable {toHex data}")
          | some r' => if r' = r then (st', "match") else (st', s!"DIFF model={reprStr r} impl={reprStr r'}"))
      | o => if accept = outcomeAccept o then (st', "match") else (st', s!"DIFF model=accept_stat {outcomeAccept o} impl=accept_stat {accept}")
    | _, _, _, _, _, _, _, _, _, _, _, _ => (st, "bad-op")
  | _ => (st, "bad-op")

/-- `loop serve <hex> <hex> …`: reply XIDs and whether the connection ends up closed -/
def loopCmd : List String → String
  | "serve" :: recs =>
    match recs.mapM fromHex with
    | some rs =>
      let r := ConnLoop.serve Gen.maxRpcAuth rs
      s!"xids={natList r.1} closed={if r.2 then 1 else 0}"
    | none => "bad-op"
  | _ => "bad-op"

def durCmd (st : St) : List String → St × String
  | ["reset"] => ({ st with dur := { data := [], durable := [] } }, "ok")
  | ["write", off, d] => match off.toNat?, fromHex d with
    | some off, some d => ({ st with dur := Durable.step st.dur (.writeAt off d) }, "ok")
    | _, _ => (st, "bad-op")
  | ["trunc", n] => match n.toNat? with
    | some n => ({ st with dur := Durable.step st.dur (.truncate n) }, "ok")
    | none => (st, "bad-op")
  | ["sync"] => ({ st with dur := Durable.step st.dur .sync }, "ok")
  | ["crash"] => ({ st with dur := Durable.crash st.dur }, "ok")
  | ["get"] => (st, s!"{toHex st.dur.data} {toHex st.dur.durable}")
  | _ => (st, "bad-op")

def rlCmd (st : St) : List String → St × String
  | ["bucket", name, n, d, burst, now] =>
    match n.toNat?, d.toNat?, burst.toNat?, now.toNat? with
    | some n, some d, some burst, some now =>
      ({ st with buckets := (name, Bucket.TB.new (mkRat n d) burst now) :: st.buckets.filter (·.1 != name) }, "ok")
    | _, _, _, _ => (st, "bad-op")
  | ["allow", name, now] =>
    match st.buckets.find? (·.1 == name), now.toNat? with
    | some (_, b), some now =>
      let r := b.allow now
      ({ st with buckets := (name, r.1) :: st.buckets.filter (·.1 != name) }, b01 r.2)
    | _, _ => (st, "bad-op")
  | ["new", name, now, g, ip, ipb, pc, pcb, rl, wl, rd, mnt, ci] =>
    match now.toNat?, g.toNat?, ip.toNat?, ipb.toNat?, pc.toNat?, pcb.toNat?, rl.toNat?, wl.toNat?, rd.toNat?, mnt.toNat?, ci.toNat? with
    | some now, some g, some ip, some ipb, some pc, some pcb, some rl, some wl, some rd, some mnt, some ci =>
      let r : Bucket.RL :=
        { global := Bucket.TB.new (g : Rat) g now,
          perIP := Bucket.Keyed.new (ip : Rat) ipb ci now,
          perConn := Bucket.Keyed.new (pc : Rat) pcb 1000000000000000000000 now,
          perConnEnabled := decide (pc > 0),
          perOp := [("read_large", Bucket.Keyed.new (rl : Rat) Gen.opBurstReadLarge ci now),
                    ("write_large", Bucket.Keyed.new (wl : Rat) Gen.opBurstWriteLarge ci now),
                    ("readdir", Bucket.Keyed.new (rd : Rat) Gen.opBurstReaddir ci now),
                    ("mount", Bucket.Keyed.new (mkRat mnt 60) Gen.opBurstMount ci now)] }
      ({ st with limiters := (name, r) :: st.limiters.filter (·.1 != name) }, "ok")
    | _, _, _, _, _, _, _, _, _, _, _ => (st, "bad-op")
  | ["request", name, ip, conn, now] =>
    match st.limiters.find? (·.1 == name), now.toNat? with
    | some (_, r), some now =>
      let a := r.allowRequest Gen.allowRequestGlobalFirst ip conn now
      ({ st with limiters := (name, a.1) :: st.limiters.filter (·.1 != name) }, b01 a.2)
    | _, _ => (st, "bad-op")
  | ["op", name, ip, op, now] =>
    match st.limiters.find? (·.1 == name), now.toNat? with
    | some (_, r), some now =>
      let a := r.allowOp ip op now
      ({ st with limiters := (name, a.1) :: st.limiters.filter (·.1 != name) }, b01 a.2)
    | _, _ => (st, "bad-op")
  | ["global", name, now] =>
    match st.limiters.find? (·.1 == name), now.toNat? with
    | some (_, r), some now => (st, s!"{(r.global.level now + 1/2).floor}/1")
    | _, _ => (st, "bad-op")
  | _ => (st, "bad-op")

def lruCmd (st : St) : List String → St × String
  | ["newattr", name, cap, ttl] =>
    match cap.toInt?, ttl.toNat? with
    | some cap, some ttl =>
      let c : Lru.Cache Nat :=
        { entries := [], cap := Lru.effCap Gen.attrCacheDefaultSize cap, ttl := ttl,
          negTtl := Gen.negTtlDefaultNs, enableNeg := false, hitAtEq := false }
      (setCache st (CacheSlot.mk name false 0 c), "ok")
    | _, _ => (st, "bad-op")
  | ["newdir", name, cap, ttl, mds] =>
    match cap.toInt?, ttl.toInt?, mds.toInt? with
    | some cap, some ttl, some mds =>
      let c : Lru.Cache Nat :=
        { entries := [], cap := Lru.effCap Gen.dirCacheDefaultEntries cap,
          ttl := Lru.effCap Gen.dirTtlDefaultNs ttl, negTtl := 0, enableNeg := false, hitAtEq := true }
      (setCache st (CacheSlot.mk name true (Lru.effCap Gen.dirCacheDefaultMaxDirSize mds) c), "ok")
    | _, _, _ => (st, "bad-op")
  | "ischild" :: p :: d :: [] =>
    match fromHex p, fromHex d with
    | some p, some d => (st, if Lru.isChildOf p d then "1" else "0")
    | _, _ => (st, "bad-op")
  | cmd :: name :: args =>
    match findCache st name with
    | none => (st, "bad-op")
    | some slot =>
      let upd (nc : Lru.Cache Nat) := setCache st { slot with cache := nc }
      match cmd, args with
      | "put", [now, k, v] => match now.toNat?, fromHex k, v.toNat? with
        | some now, some k, some v =>
          if slot.isDir ∧ v > slot.maxDirSize then (st, "ok") else (upd (Lru.put slot.cache now k v), "ok")
        | _, _, _ => (st, "bad-op")
      | "putneg", [now, k] => match now.toNat?, fromHex k with
        | some now, some k => (upd (Lru.putNegative slot.cache now k), "ok")
        | _, _ => (st, "bad-op")
      | "get", [now, k] => match now.toNat?, fromHex k with
        | some now, some k => let r := Lru.get slot.cache now k; (upd r.1, showRes r.2)
        | _, _ => (st, "bad-op")
      | "inv", [k] => match fromHex k with
        | some k => (upd (Lru.invalidate slot.cache k), "ok")
        | none => (st, "bad-op")
      | "invneg", [d] => match fromHex d with
        | some d => (upd (Lru.invalidateNegativeInDir slot.cache d), "ok")
        | none => (st, "bad-op")
      | "invprefix", [d] => match fromHex d with
        | some d => (upd (Lru.invalidatePrefix slot.cache d), "ok")
        | none => (st, "bad-op")
      | "resize", [n] => match n.toInt? with
        | some n => (upd (Lru.resize slot.cache (Lru.effCap (if slot.isDir then Gen.dirCacheDefaultEntries else Gen.attrCacheDefaultSize) n)), "ok")
        | none => (st, "bad-op")
      | "ttl", [t] => match t.toInt? with
        | some t => (upd (Lru.updateTTL slot.cache (Lru.effCap (if slot.isDir then Gen.dirTtlDefaultNs else Gen.attrTtlDefaultNs) t)), "ok")
        | none => (st, "bad-op")
      | "confneg", [en, t] => match en.toNat?, t.toInt? with
        | some en, some t => (upd (Lru.configureNegative slot.cache (en == 1) t), "ok")
        | _, _ => (st, "bad-op")
      | "clear", [] => (upd (Lru.clear slot.cache), "ok")
      | "size", [] => (st, toString slot.cache.entries.length)
      | "order", [] => (st, ",".intercalate (slot.cache.entries.map fun e => toHex e.key ++ (if e.val.isNone then "!" else "")))
      | _, _ => (st, "bad-op")
  | _ => (st, "bad-op")

def showLive (l : List (Nat × Bytes)) : String :=
  let sorted := l.toArray.qsort (fun a b => a.1 < b.1) |>.toList
  ",".intercalate (sorted.map fun x => s!"{x.1}:{toHex x.2}")

def handlesCmd (st : St) : List String → St × String
  | ["init", m] => match m.toInt? with
    | some m => ({ st with handles := Handles.init m }, "ok")
    | none => (st, "bad-op")
  | ["alloc", p] => match fromHex p with
    | some p =>
      let r := Handles.alloc Gen.defaultMaxHandles Gen.evictDivisor st.handles p
      ({ st with handles := r.1 }, toString r.2)
    | none => (st, "bad-op")
  | ["get", h] => match h.toNat? with
    | some h => (st, match Handles.get st.handles h with | some p => toHex p | none => "none")
    | none => (st, "bad-op")
  | ["release", h] => match h.toNat? with
    | some h => ({ st with handles := Handles.release st.handles h }, "ok")
    | none => (st, "bad-op")
  | ["releaseall"] => ({ st with handles := Handles.releaseAll st.handles }, "ok")
  | ["count"] => (st, toString st.handles.live.length)
  | ["dump"] => (st, showLive st.handles.live)
  | _ => (st, "bad-op")

def step (st : St) (line : String) : St × String :=
  match ((line.trimAscii.toString.splitOn " ").filter (fun t => t ≠ "")).takeWhile (fun t => ¬ t.startsWith "#") with
  | "xdr" :: args => (st, xdrCmd args)
  | "rpc" :: args => (st, rpcCmd args)
  | "rm" :: args => (st, rmCmd args)
  | "wire" :: args => (st, wireCmd args)
  | "access" :: args => (st, accessCmd args)
  | "accessq" :: args => (st, accessqCmd args)
  | "auth" :: args => (st, authCmd args)
  | "handles" :: args => handlesCmd st args
  | "lru" :: args => lruCmd st args
  | "rl" :: args => rlCmd st args
  | "pm" :: args => pmCmd st args
  | "cfg" :: args => cfgCmd st args
  | "startup" :: args => (st, startupCmd args)
  | "tls" :: args => (st, tlsCmd args)
  | "pool" :: args => (st, poolCmd args)
  | "drain" :: args => drainCmd st args
  | "srv" :: args => srvCmd st args
  | "dur" :: args => durCmd st args
  | "loop" :: args => (st, loopCmd args)
  | "conns" :: args => (st, connsCmd args)
  | "fs" :: args => fsCmd st args
  | ["reset"] => ({}, "ok")
  | _ => (st, "bad-op")

partial def loop (h : IO.FS.Stream) (out : IO.FS.Stream) (st : St) : IO Unit := do
  let line ← h.getLine
  if line.isEmpty then return ()
  let (st', o) := step st line
  out.putStrLn o
  loop h out st'

end Driver

def main : IO Unit := do
  let stdin ← IO.getStdin
  let stdout ← IO.getStdout
  Driver.loop stdin stdout {}
  stdout.flush
