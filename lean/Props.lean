import Props.C13
