import Props.C13
import Props.C12
import Props.C09
import Props.C10
import Props.C05
import Props.C06
import Props.C21
