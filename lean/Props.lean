import Props.C13
import Props.C12
