import Gen.Facts
