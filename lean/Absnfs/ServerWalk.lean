/-
  ServerWalk: following READDIR cookies over real handler calls (C26 end to end). Because the node list READDIR
  works from is a function of the backend alone (ServerDcSup: `readDir_is_backend`, whatever the directory cache
  holds or loses between two calls), every NFS3_OK page from cookie `ck` is the slice of the backend's listing that
  starts at `ck`; pages of successive calls on an unchanged directory line up, and a walk that ends with eof has
  returned exactly the backend's directory — each name once, in name order.
-/
import Absnfs.ServerDcSup
namespace Absnfs
namespace Server

/-- the names a listing of the directory at `p` consists of: the backend's children in name order that the listing
    loop accepts -/
def listing (fs : Fs.T) (p : Bytes) : List Bytes :=
  ((Fs.sortByName (Fs.children fs (fsPath p))).map (·.1)).filter (listable p)

theorem numbered_drop_take_names (i k : Nat) (l : List Node) :
    (numbered i (l.take k)).map (·.name) = (l.map fun n => baseName n.path).take k := by
  rw [numbered_names, List.map_take]

/-- one READDIR call seen from the wire, any cookie: an NFS3_OK reply carries a slice of the backend's listing that
    starts at the cookie; with eof the slice reaches the end -/
theorem procReaddir_page (s s' : St) (c : Ctx) (args : Bytes) (a : Option Rfc.Fattr) (verf : Bytes)
    (ents : List Rfc.DirEnt) (eof : Bool) (hI : CInv s) (hS : DcSup s) (hd : Nat) (ck : Nat) (r1 r2 : Bytes) (n : Node)
    (hfh : decFh' s args = some (hd, r1)) (hck : decU64 r1 = some (ck, r2)) (hn : nodeOf s hd = some n)
    (h : procReaddir s c args = (s', .res ⟨0, .readdirOk a verf ents eof⟩)) :
    ∃ k, ents.map (·.name) = ((listing s.fs n.path).drop ck).take k ∧
      (eof = true → ents.map (·.name) = (listing s.fs n.path).drop ck) := by
  unfold procReaddir at h
  rw [hfh] at h
  simp only [hck] at h
  split at h
  · simp [res] at h
  · split at h
    · simp [res] at h
    · simp only [hn] at h
      split at h
      · simp [res] at h
      · split at h
        · simp [res] at h
        · rename_i s1 nodes hrd
          split at h
          · simp [res] at h
          · rename_i s2 at' hg
            try simp only at h
            split at h
            · simp [res] at h
            · rename_i ents' lim hfill
              simp only [res, Prod.mk.injEq, Outcome.res.injEq, Rfc.Res.mk.injEq, Rfc.Body.readdirOk.injEq, true_and] at h
              obtain ⟨_, _, _, hents, hlim⟩ := h
              have hcl := nodeOf_cleanI hI hn
              have hlist := readDir_is_backend s c.now n nodes hI hS hcl (by rw [hrd])
              -- the names of the node list are the listing
              have hnames : nodes.map (fun n' => baseName n'.path) = listing s.fs n.path := by
                have hmm : nodes.map (fun n' => baseName n'.path) = (nodes.map (·.path)).map baseName := by
                  simp [List.map_map, Function.comp_def]
                rw [hmm, hlist, List.map_map]
                have hid : ∀ x ∈ ((Fs.sortByName (Fs.children s.fs (fsPath n.path))).map (·.1)).filter (listable n.path),
                    (baseName ∘ joinName n.path) x = x := by
                  intro x hx
                  have hl := (List.mem_filter.mp hx).2
                  have hns : NoSep x := by
                    unfold listable at hl
                    simp only [Bool.and_eq_true, Bool.not_eq_true', decide_eq_false_iff_not, not_or] at hl
                    refine ⟨hl.1.2.2.1, ?_, hl.1.1, hl.1.2.1⟩
                    intro h47; exact hl.1.2.2.2.1 (by simpa using h47)
                  exact baseName_joinName n.path x hns
                rw [List.map_congr_left hid]
                simp [listing]
              generalize hL : (if _ < dirListHeader + dirListTrailer then minReaddirReply else _) = limit at hfill
              have hlim0 : dirListHeader + dirListTrailer ≤ limit := by
                rw [← hL]; split
                · decide
                · omega
              by_cases hc : ck ≤ nodes.length
              · have hps := page_spec limit ck nodes hc hlim0
                unfold page at hps
                rw [hfill] at hps
                obtain ⟨k, hk1, hents', _, hall, _⟩ := hps
                refine ⟨k, ?_, ?_⟩
                · rw [← hents, hents', numbered_drop_take_names, List.map_drop, hnames]
                · intro heof
                  have hlimF : lim = false := by cases lim <;> simp_all
                  have hk2 := hall hlimF
                  rw [← hents, hents', numbered_drop_take_names, List.map_drop, hnames, hk2]
                  have : ((listing s.fs n.path).drop ck).length = (nodes.drop ck).length := by
                    rw [← hnames]; simp
                  rw [← this, List.take_length]
              · have hpe := page_past_end limit ck nodes (by omega)
                unfold page at hpe
                rw [hfill] at hpe
                simp only [Fill.done.injEq] at hpe
                have hlen : (listing s.fs n.path).length = nodes.length := by rw [← hnames]; simp
                refine ⟨0, ?_, ?_⟩
                · rw [← hents, hpe.1]; simp
                · intro _
                  rw [← hents, hpe.1]
                  simp only [List.map_nil]
                  exact (List.drop_eq_nil_of_le (by omega)).symm

/-! ### the entries themselves: name, fileid and cookie of every entry of a page -/

/-- the entries a listing `names` of directory `dir` is sent as, numbered from cookie `i` -/
def expectedEnts (dir : Bytes) : Nat → List Bytes → List Rfc.DirEnt
  | _, [] => []
  | i, x :: xs => { fileid := fnv64 (joinName dir x), name := x, cookie := i + 1 } :: expectedEnts dir (i + 1) xs

theorem expectedEnts_take (dir : Bytes) (i k : Nat) (l : List Bytes) :
    (expectedEnts dir i l).take k = expectedEnts dir i (l.take k) := by
  induction l generalizing i k with
  | nil => simp [expectedEnts]
  | cons x xs ih =>
    cases k with
    | zero => simp [expectedEnts]
    | succ k => simp [expectedEnts, ih]

/-- nodes that sit directly below `dir` under listable names and carry their path's fileid are numbered as expected -/
theorem numbered_eq_expected (dir : Bytes) (i : Nat) (nodes : List Node)
    (h : ∀ nd ∈ nodes, nd.attrs.fileId = fnv64 nd.path ∧ ∃ x, listable dir x = true ∧ nd.path = joinName dir x) :
    numbered i nodes = expectedEnts dir i (nodes.map fun nd => baseName nd.path) := by
  induction nodes generalizing i with
  | nil => rfl
  | cons nd nds ih =>
    obtain ⟨hf, x, hl, hp⟩ := h nd (List.mem_cons_self ..)
    have hns : NoSep x := by
      unfold listable at hl
      simp only [Bool.and_eq_true, Bool.not_eq_true', decide_eq_false_iff_not, not_or] at hl
      refine ⟨hl.1.2.2.1, ?_, hl.1.1, hl.1.2.1⟩
      intro h47; exact hl.1.2.2.2.1 (by simpa using h47)
    have hb : baseName nd.path = x := by rw [hp]; exact baseName_joinName dir x hns
    simp only [numbered, List.map_cons, expectedEnts]
    rw [ih (i + 1) (fun n hn => h n (List.mem_cons_of_mem _ hn)), hf, hb, hp]

/-- one READDIR page, completely: an NFS3_OK reply from cookie `ck` consists of the entries of the backend's listing
    from position `ck` on — name, fileid = fnv64 of the entry's path, cookies ck+1, ck+2, … — and with eof of all of them -/
theorem procReaddir_page_entries (s s' : St) (c : Ctx) (args : Bytes) (a : Option Rfc.Fattr) (verf : Bytes)
    (ents : List Rfc.DirEnt) (eof : Bool) (hI : CInv s) (hS : DcSup s) (hd : Nat) (ck : Nat) (r1 r2 : Bytes) (n : Node)
    (hfh : decFh' s args = some (hd, r1)) (hck : decU64 r1 = some (ck, r2)) (hn : nodeOf s hd = some n)
    (h : procReaddir s c args = (s', .res ⟨0, .readdirOk a verf ents eof⟩)) :
    ∃ k, ents = expectedEnts n.path ck (((listing s.fs n.path).drop ck).take k) ∧
      (eof = true → ents = expectedEnts n.path ck ((listing s.fs n.path).drop ck)) := by
  unfold procReaddir at h
  rw [hfh] at h
  simp only [hck] at h
  split at h
  · simp [res] at h
  · split at h
    · simp [res] at h
    · simp only [hn] at h
      split at h
      · simp [res] at h
      · split at h
        · simp [res] at h
        · rename_i s1 nodes hrd
          split at h
          · simp [res] at h
          · rename_i s2 at' hg
            try simp only at h
            split at h
            · simp [res] at h
            · rename_i ents' lim hfill
              simp only [res, Prod.mk.injEq, Outcome.res.injEq, Rfc.Res.mk.injEq, Rfc.Body.readdirOk.injEq, true_and] at h
              obtain ⟨_, _, _, hents, hlim⟩ := h
              have hcl := nodeOf_cleanI hI hn
              have hrd2 : (readDir s c.now n).2 = .ok nodes := by rw [hrd]
              have hlist := readDir_is_backend s c.now n nodes hI hS hcl hrd2
              have hfid := (readDir_cinv s c.now n hI hcl).2 nodes hrd2
              have hpaths := readDir_paths s c.now n nodes hrd2
              have hnodes : ∀ nd ∈ nodes, nd.attrs.fileId = fnv64 nd.path ∧ ∃ x, listable n.path x = true ∧ nd.path = joinName n.path x := by
                intro nd hnd
                obtain ⟨x, _, hl, hp⟩ := hpaths nd hnd
                exact ⟨(hfid nd hnd).2, x, hl, hp⟩
              have hnames : nodes.map (fun n' => baseName n'.path) = listing s.fs n.path := by
                have hmm : nodes.map (fun n' => baseName n'.path) = (nodes.map (·.path)).map baseName := by
                  simp [List.map_map, Function.comp_def]
                rw [hmm, hlist, List.map_map]
                have hid : ∀ x ∈ ((Fs.sortByName (Fs.children s.fs (fsPath n.path))).map (·.1)).filter (listable n.path),
                    (baseName ∘ joinName n.path) x = x := by
                  intro x hx
                  have hl := (List.mem_filter.mp hx).2
                  have hns : NoSep x := by
                    unfold listable at hl
                    simp only [Bool.and_eq_true, Bool.not_eq_true', decide_eq_false_iff_not, not_or] at hl
                    refine ⟨hl.1.2.2.1, ?_, hl.1.1, hl.1.2.1⟩
                    intro h47; exact hl.1.2.2.2.1 (by simpa using h47)
                  exact baseName_joinName n.path x hns
                rw [List.map_congr_left hid]
                simp [listing]
              generalize hL : (if _ < dirListHeader + dirListTrailer then minReaddirReply else _) = limit at hfill
              have hlim0 : dirListHeader + dirListTrailer ≤ limit := by
                rw [← hL]; split
                · decide
                · omega
              by_cases hc : ck ≤ nodes.length
              · have hps := page_spec limit ck nodes hc hlim0
                unfold page at hps
                rw [hfill] at hps
                obtain ⟨k, hk1, hents', _, hall, _⟩ := hps
                have hsub : ∀ nd ∈ (nodes.drop ck).take k, nd.attrs.fileId = fnv64 nd.path ∧ ∃ x, listable n.path x = true ∧ nd.path = joinName n.path x :=
                  fun nd hnd => hnodes nd (List.mem_of_mem_drop (List.mem_of_mem_take hnd))
                have hform : ents' = expectedEnts n.path ck (((listing s.fs n.path).drop ck).take k) := by
                  rw [hents', numbered_eq_expected n.path ck _ hsub, List.map_take, List.map_drop, hnames]
                refine ⟨k, by rw [← hents]; exact hform, ?_⟩
                intro heof
                have hlimF : lim = false := by cases lim <;> simp_all
                have hk2 := hall hlimF
                rw [← hents, hform, hk2]
                have : ((listing s.fs n.path).drop ck).length = (nodes.drop ck).length := by
                  rw [← hnames]; simp
                rw [← this, List.take_length]
              · have hpe := page_past_end limit ck nodes (by omega)
                unfold page at hpe
                rw [hfill] at hpe
                simp only [Fill.done.injEq] at hpe
                have hlen : (listing s.fs n.path).length = nodes.length := by rw [← hnames]; simp
                have hnil : (listing s.fs n.path).drop ck = [] := List.drop_eq_nil_of_le (by omega)
                refine ⟨0, ?_, ?_⟩
                · rw [← hents, hpe.1]; simp [expectedEnts]
                · intro _
                  rw [← hents, hpe.1, hnil]; simp [expectedEnts]

/-- the same for READDIRPLUS (name, fileid and cookie of every entry; the attributes and handles of the entries are
    the subject of Props.C04 / C05) -/
theorem procReaddirplus_page_entries (s s' : St) (c : Ctx) (args : Bytes) (a : Option Rfc.Fattr) (verf : Bytes)
    (ents : List Rfc.DirEntPlus) (eof : Bool) (hI : CInv s) (hS : DcSup s) (hd : Nat) (ck : Nat) (r1 r2 : Bytes) (n : Node)
    (hfh : decFh' s args = some (hd, r1)) (hck : decU64 r1 = some (ck, r2)) (hn : nodeOf s hd = some n)
    (h : procReaddirplus s c args = (s', .res ⟨0, .readdirplusOk a verf ents eof⟩)) :
    ∃ k, ents.map stripPlus = expectedEnts n.path ck (((listing s.fs n.path).drop ck).take k) ∧
      (eof = true → ents.map stripPlus = expectedEnts n.path ck ((listing s.fs n.path).drop ck)) := by
  unfold procReaddirplus at h
  rw [hfh] at h
  simp only [hck] at h
  split at h
  · simp [res] at h
  · split at h
    · simp [res] at h
    · split at h
      · simp [res] at h
      · simp only [hn] at h
        split at h
        · simp [res] at h
        · split at h
          · simp [res] at h
          · rename_i s1 nodes0 hrd
            split at h
            · simp [res] at h
            · rename_i s3 at' hg
              split at h
              · simp [res] at h
              · rename_i s4 ents' lim hfill
                simp only [res, Prod.mk.injEq, Outcome.res.injEq, Rfc.Res.mk.injEq, Rfc.Body.readdirplusOk.injEq, true_and] at h
                obtain ⟨_, _, _, hents, hlim⟩ := h
                have hcl := nodeOf_cleanI hI hn
                have hrd2 : (readDir s c.now n).2 = .ok nodes0 := by rw [hrd]
                have hlist := readDir_is_backend s c.now n nodes0 hI hS hcl hrd2
                have hfid := (readDir_cinv s c.now n hI hcl).2 nodes0 hrd2
                have hpaths := readDir_paths s c.now n nodes0 hrd2
                have hspec := refreshEach_spec s1 c.now nodes0
                -- the refreshed nodes keep paths and fileids
                have hnodes : ∀ nd ∈ (refreshEach s1 c.now nodes0).2,
                    nd.attrs.fileId = fnv64 nd.path ∧ ∃ x, listable n.path x = true ∧ nd.path = joinName n.path x := by
                  have key : ∀ (l1 l2 : List Node), l1.map (·.path) = l2.map (·.path) → l1.map (·.attrs.fileId) = l2.map (·.attrs.fileId) →
                      (∀ nd ∈ l2, nd.attrs.fileId = fnv64 nd.path ∧ ∃ x, listable n.path x = true ∧ nd.path = joinName n.path x) →
                      ∀ nd ∈ l1, nd.attrs.fileId = fnv64 nd.path ∧ ∃ x, listable n.path x = true ∧ nd.path = joinName n.path x := by
                    intro l1
                    induction l1 with
                    | nil => intro _ _ _ _ nd hnd; simp at hnd
                    | cons y ys ih =>
                      intro l2 hp hf hall nd hnd
                      cases l2 with
                      | nil => simp at hp
                      | cons z zs =>
                        simp only [List.map_cons, List.cons.injEq] at hp hf
                        rcases List.mem_cons.mp hnd with e | e
                        · obtain ⟨hz, x, hl, hpz⟩ := hall z (List.mem_cons_self ..)
                          rw [e, hp.1, hf.1]
                          exact ⟨hz, x, hl, hpz⟩
                        · exact ih zs hp.2 hf.2 (fun w hw => hall w (List.mem_cons_of_mem _ hw)) nd e
                  refine key _ nodes0 hspec.1 hspec.2 ?_
                  intro nd hnd
                  obtain ⟨x, _, hl, hp⟩ := hpaths nd hnd
                  exact ⟨(hfid nd hnd).2, x, hl, hp⟩
                have hnames : (refreshEach s1 c.now nodes0).2.map (fun n' => baseName n'.path) = listing s.fs n.path := by
                  have hmm : (refreshEach s1 c.now nodes0).2.map (fun n' => baseName n'.path) =
                      ((refreshEach s1 c.now nodes0).2.map (·.path)).map baseName := by
                    simp [List.map_map, Function.comp_def]
                  rw [hmm, hspec.1, hlist, List.map_map]
                  have hid : ∀ x ∈ ((Fs.sortByName (Fs.children s.fs (fsPath n.path))).map (·.1)).filter (listable n.path),
                      (baseName ∘ joinName n.path) x = x := by
                    intro x hx
                    have hl := (List.mem_filter.mp hx).2
                    have hns : NoSep x := by
                      unfold listable at hl
                      simp only [Bool.and_eq_true, Bool.not_eq_true', decide_eq_false_iff_not, not_or] at hl
                      refine ⟨hl.1.2.2.1, ?_, hl.1.1, hl.1.2.1⟩
                      intro h47; exact hl.1.2.2.2.1 (by simpa using h47)
                    exact baseName_joinName n.path x hns
                  rw [List.map_congr_left hid]
                  simp [listing]
                generalize hL : (if _ < dirListHeader + dirListTrailer then minReaddirplusReply else _) = limit at hfill
                have hlim0 : dirListHeader + dirListTrailer ≤ limit := by
                  rw [← hL]; split
                  · decide
                  · omega
                generalize hN : (refreshEach s1 c.now nodes0).2 = nodes at hfill hnodes hnames
                by_cases hc : ck ≤ nodes.length
                · have hps := pagePlus_spec limit ck s3 nodes hc hlim0
                  rw [hfill] at hps
                  obtain ⟨k, hk1, hstrip, _, _, hall, _⟩ := hps
                  have hsub : ∀ nd ∈ (nodes.drop ck).take k, nd.attrs.fileId = fnv64 nd.path ∧ ∃ x, listable n.path x = true ∧ nd.path = joinName n.path x :=
                    fun nd hnd => hnodes nd (List.mem_of_mem_drop (List.mem_of_mem_take hnd))
                  have hform : ents'.map stripPlus = expectedEnts n.path ck (((listing s.fs n.path).drop ck).take k) := by
                    rw [hstrip, numbered_eq_expected n.path ck _ hsub, List.map_take, List.map_drop, hnames]
                  refine ⟨k, by rw [← hents]; exact hform, ?_⟩
                  intro heof
                  have hlimF : lim = false := by cases lim <;> simp_all
                  have hk2 := hall hlimF
                  rw [← hents, hform, hk2]
                  have : ((listing s.fs n.path).drop ck).length = (nodes.drop ck).length := by
                    rw [← hnames]; simp
                  rw [← this, List.take_length]
                · have hlen : (listing s.fs n.path).length = nodes.length := by rw [← hnames]; simp
                  have hnil : (listing s.fs n.path).drop ck = [] := List.drop_eq_nil_of_le (by omega)
                  have hdrop : nodes.drop (ck - 0) = [] := List.drop_eq_nil_of_le (by omega)
                  -- past the end: the loop skips everything
                  have hpast : (fillDirPlus limit ck s3 0 dirListHeader 0 nodes).2 = .done [] false := by
                    rw [fillDirPlus_skip_to limit ck s3 0 dirListHeader 0 nodes (by omega), hdrop]
                    rfl
                  rw [hfill] at hpast
                  simp only [Fill.done.injEq] at hpast
                  refine ⟨0, ?_, ?_⟩
                  · rw [← hents, hpast.1]; simp [expectedEnts]
                  · intro _
                    rw [← hents, hpast.1, hnil]; simp [expectedEnts]

/-! ### frame: READDIR leaves the backend, the handle table and the stored nodes alone -/

/-- the parts of the state a handle resolves through -/
def SameHandles (s s' : St) : Prop := s'.hs = s.hs ∧ s'.nodes = s.nodes

theorem SameHandles.refl (s : St) : SameHandles s s := ⟨rfl, rfl⟩
theorem SameHandles.trans {a b c : St} (h1 : SameHandles a b) (h2 : SameHandles b c) : SameHandles a c :=
  ⟨h2.1.trans h1.1, h2.2.trans h1.2⟩

theorem SameHandles.nodeOf {s s' : St} (h : SameHandles s s') (hd : Nat) : nodeOf s' hd = nodeOf s hd := by
  unfold Server.nodeOf; rw [h.1, h.2]

theorem lookupPath_sameHandles (s : St) (now : Nat) (p : Bytes) : SameHandles s (lookupPath s now p).1 := by
  unfold lookupPath
  split
  · exact SameHandles.refl s
  · simp only
    split
    · exact ⟨rfl, rfl⟩
    · exact ⟨rfl, rfl⟩
    · split
      · split <;> exact ⟨rfl, rfl⟩
      · exact ⟨rfl, rfl⟩

theorem lookupPath_sameHandles' {s s' : St} {now : Nat} {p : Bytes} {r : Except Fs.Errno Node} (h : lookupPath s now p = (s', r)) :
    SameHandles s s' := by
  have := lookupPath_sameHandles s now p; rw [h] at this; exact this

theorem lookupEach_sameHandles (s : St) (now : Nat) (dir : Bytes) (names : List Bytes) :
    SameHandles s (lookupEach s now dir names).1 := by
  induction names generalizing s with
  | nil => exact SameHandles.refl s
  | cons x xs ih =>
    unfold lookupEach
    split
    · exact ih s
    · split
      · exact ih s
      · split
        · rename_i s1 e heq
          exact (lookupPath_sameHandles' heq).trans (ih s1)
        · rename_i s1 node heq
          exact (lookupPath_sameHandles' heq).trans (ih s1)

theorem readDir_sameHandles (s : St) (now : Nat) (d : Node) : SameHandles s (readDir s now d).1 := by
  unfold readDir
  simp only
  split
  · rename_i s1 names heq
    simp only
    have h1 : SameHandles s s1 := by
      split at heq
      · simp at heq
      · split at heq
        · simp only [Option.some.injEq, Prod.mk.injEq] at heq
          rw [← heq.1]; exact ⟨rfl, rfl⟩
        · simp at heq
    exact h1.trans (lookupEach_sameHandles s1 now d.path names)
  · split
    · exact ⟨rfl, rfl⟩
    · simp only
      exact SameHandles.trans (b := _) ⟨rfl, rfl⟩ (lookupEach_sameHandles _ now d.path _)

theorem getAttr_sameHandles (s : St) (now : Nat) (n : Node) : SameHandles s (getAttr s now n).1 := by
  rw [getAttr_only_ac]; exact ⟨rfl, rfl⟩

theorem readDir_sameHandles' {s s' : St} {now : Nat} {d : Node} {r : Except Fs.Errno (List Node)} (h : readDir s now d = (s', r)) :
    SameHandles s s' := by
  have := readDir_sameHandles s now d; rw [h] at this; exact this

theorem getAttr_sameHandles' {s s' : St} {now : Nat} {n : Node} {r : Except Fs.Errno Attrs} (h : getAttr s now n = (s', r)) :
    SameHandles s s' := by
  have := getAttr_sameHandles s now n; rw [h] at this; exact this

theorem procReaddir_sameHandles (s : St) (c : Ctx) (args : Bytes) : SameHandles s (procReaddir s c args).1 := by
  unfold procReaddir
  split
  · exact SameHandles.refl s
  · split
    · exact SameHandles.refl s
    · split
      · exact SameHandles.refl s
      · split
        · exact SameHandles.refl s
        · split
          · exact SameHandles.refl s
          · split
            · exact SameHandles.refl s
            · split
              · rename_i h1
                exact readDir_sameHandles' h1
              · rename_i s1 nodes h1
                have hr := readDir_sameHandles' h1
                split
                · rename_i h2
                  exact hr.trans (getAttr_sameHandles' h2)
                · rename_i h2
                  have hg := getAttr_sameHandles' h2
                  simp only
                  split <;> exact hr.trans hg

/-! ### a walk: successive READDIR calls through one handle, each starting at the cookie the previous one ended on -/

/-- `Walk s0 hd s ck acc`: starting in `s0` with cookie 0, some number of NFS3_OK READDIR calls through handle `hd`
    (any count / verifier / caller / time per call) have led to state `s`, the next cookie is `ck` and the names
    returned so far are `acc`; `fin` says whether the last reply had eof -/
inductive Walk (s0 : St) (hd : Nat) : St → Nat → List Bytes → Bool → Prop
  | start : Walk s0 hd s0 0 [] false
  | page {s s' : St} {ck : Nat} {acc : List Bytes} {fin : Bool} (c : Ctx) (args r1 r2 : Bytes) (a : Option Rfc.Fattr) (verf : Bytes)
      (ents : List Rfc.DirEnt) (eof : Bool) :
      Walk s0 hd s ck acc fin → decFh' s args = some (hd, r1) → decU64 r1 = some (ck, r2) →
      procReaddir s c args = (s', .res ⟨0, .readdirOk a verf ents eof⟩) →
      Walk s0 hd s' (ck + ents.length) (acc ++ ents.map (·.name)) eof

/-- C26 end to end: whatever the pages' sizes, the callers, the times between the calls and whatever the directory
    cache does in between (fill, expire, evict), the names returned by a walk are a prefix of the backend's listing of
    the directory, of length the cookie reached; a walk whose last reply said eof has returned the whole listing —
    every entry exactly once, in name order. The backend does not change during the walk because READDIR changes
    nothing in it (`procReaddir_fs`). -/
theorem walk_lists_the_directory (s0 : St) (hd : Nat) (n : Node) (hI0 : CInv s0) (hS0 : DcSup s0)
    (hn0 : nodeOf s0 hd = some n) {s : St} {ck : Nat} {acc : List Bytes} {fin : Bool} (w : Walk s0 hd s ck acc fin) :
    s.fs = s0.fs ∧ CInv s ∧ DcSup s ∧ nodeOf s hd = some n ∧
      acc = (listing s0.fs n.path).take ck ∧ ck = acc.length ∧ (fin = true → acc = listing s0.fs n.path) := by
  induction w with
  | start => exact ⟨rfl, hI0, hS0, hn0, by simp, rfl, by simp⟩
  | @page s s' ck acc fin c args r1 r2 a verf ents eof _ hfh hck hp ih =>
    obtain ⟨hfs, hI, hS, hn, hacc, hlen, _⟩ := ih
    have hs' : s' = (procReaddir s c args).1 := by rw [hp]
    have hfs' : s'.fs = s0.fs := by rw [hs', procReaddir_fs, hfs]
    have hI' : CInv s' := by rw [hs']; exact procReaddir_cinv s c args hI
    have hS' : DcSup s' := by rw [hs']; exact procReaddir_dcSup s c args hI hS
    have hn' : nodeOf s' hd = some n := by rw [hs', (procReaddir_sameHandles s c args).nodeOf hd, hn]
    obtain ⟨k, hk, heof⟩ := procReaddir_page s s' c args a verf ents eof hI hS hd ck r1 r2 n hfh hck hn hp
    rw [hfs] at hk heof
    have hlenE : ents.length = (ents.map (·.name)).length := by simp
    refine ⟨hfs', hI', hS', hn', ?_, ?_, ?_⟩
    · -- acc ++ slice = take (ck + |slice|)
      rw [hacc, hk]
      have : ents.length = (((listing s0.fs n.path).drop ck).take k).length := by rw [← hk, ← hlenE]
      rw [this]
      generalize listing s0.fs n.path = L
      rw [List.take_add]
      congr 1
      rw [List.length_take]
      by_cases hkD : k ≤ (L.drop ck).length
      · rw [Nat.min_eq_left hkD]
      · rw [Nat.min_eq_right (by omega), List.take_length, List.take_of_length_le (by omega)]
    · simp only [List.length_append, List.length_map]
      rw [← hlen]
    · intro he
      rw [hacc, heof he]
      exact List.take_append_drop ck _

end Server
end Absnfs
