/-
  Bucket: token-bucket rate limiting (rate_limiter.go: TokenBucket, PerIPLimiter, PerOperationLimiter,
  RateLimiter.AllowRequest / AllowOperation) on a virtual clock in nanoseconds.
  Tokens are exact rationals here; Go uses float64 (rounding is not modelled, see DESIGN §4).
-/
namespace Absnfs
namespace Bucket

structure TB where
  tokens : Rat
  max : Rat
  rate : Rat      -- tokens per second
  last : Nat      -- ns
  deriving Repr

def nsInv : Rat := 1 / 1000000000

def secs (ns : Nat) : Rat := (ns : Rat) * nsInv

def TB.new (rate : Rat) (burst : Nat) (now : Nat) : TB :=
  { tokens := burst, max := burst, rate := rate, last := now }

/-- tokens after refilling up to `now` (capped) -/
def TB.level (b : TB) (now : Nat) : Rat :=
  let t := b.tokens + secs (now - b.last) * b.rate
  if t > b.max then b.max else t

/-- Allow: refill, cap, take one token if there is one. -/
def TB.allow (b : TB) (now : Nat) : TB × Bool :=
  let t := b.level now
  if t ≥ 1 then ({ b with tokens := t - 1, last := now }, true)
  else ({ b with tokens := t, last := now }, false)

/-- number admitted by a sequence of Allow calls at the given instants -/
def TB.run (b : TB) : List Nat → TB × Nat
  | [] => (b, 0)
  | t :: ts =>
    let r := b.allow t
    let r2 := r.1.run ts
    (r2.1, (if r.2 then 1 else 0) + r2.2)

/-! Keyed limiters: an absent key behaves as a bucket created (full) at first use. -/

structure Keyed where
  buckets : List (String × TB)
  rate : Rat
  burst : Nat
  lastCleanup : Nat
  interval : Nat
  deriving Repr

def Keyed.new (rate : Rat) (burst : Nat) (interval now : Nat) : Keyed :=
  { buckets := [], rate := rate, burst := burst, lastCleanup := now, interval := interval }

def Keyed.find (k : Keyed) (key : String) : Option TB := (k.buckets.find? (·.1 == key)).map (·.2)

def Keyed.set (k : Keyed) (key : String) (b : TB) : Keyed :=
  { k with buckets := (key, b) :: k.buckets.filter (·.1 != key) }

/-- cleanup: drop buckets that are full (inactive). (The code drops at most 100 per pass, in map order; which
    full buckets are dropped is unobservable — `cleanup_invisible`.) -/
def Keyed.cleanup (k : Keyed) (now : Nat) : Keyed :=
  { k with buckets := k.buckets.filter (fun kb => !(kb.2.level now ≥ (k.burst : Rat))), lastCleanup := now }

def Keyed.allow (k : Keyed) (key : String) (now : Nat) : Keyed × Bool :=
  let k1 := if now - k.lastCleanup > k.interval then k.cleanup now else k
  let b := match k1.find key with
    | some b => b
    | none => TB.new k1.rate k1.burst now
  let r := b.allow now
  (k1.set key r.1, r.2)

/-- RateLimiter: global bucket, per-IP, per-connection (optional), per-(IP, operation type). -/
structure RL where
  global : TB
  perIP : Keyed
  perConn : Keyed          -- key = connection id; never cleaned up by time (CleanupConnection deletes)
  perConnEnabled : Bool
  perOp : List (String × Keyed)   -- one keyed limiter per operation type, keyed by IP
  deriving Repr

/-- AllowRequest with the consultation order as a parameter (regenerated from the source):
    `globalFirst = true` is the order in which the global bucket is charged before the client's own. -/
def RL.allowRequest (globalFirst : Bool) (r : RL) (ip conn : String) (now : Nat) : RL × Bool :=
  if globalFirst then
    let g := r.global.allow now
    if !g.2 then ({ r with global := g.1 }, false) else
    let i := r.perIP.allow ip now
    if !i.2 then ({ r with global := g.1, perIP := i.1 }, false) else
    if r.perConnEnabled then
      let c := r.perConn.allow conn now
      ({ r with global := g.1, perIP := i.1, perConn := c.1 }, c.2)
    else ({ r with global := g.1, perIP := i.1 }, true)
  else
    let i := r.perIP.allow ip now
    if !i.2 then ({ r with perIP := i.1 }, false) else
    let c := if r.perConnEnabled then r.perConn.allow conn now else (r.perConn, true)
    if !c.2 then ({ r with perIP := i.1, perConn := c.1 }, false) else
    let g := r.global.allow now
    ({ r with perIP := i.1, perConn := c.1, global := g.1 }, g.2)

def RL.allowOp (r : RL) (ip op : String) (now : Nat) : RL × Bool :=
  match r.perOp.find? (·.1 == op) with
  | none => (r, true)
  | some (_, k) =>
    let a := k.allow ip now
    ({ r with perOp := (op, a.1) :: r.perOp.filter (·.1 != op) }, a.2)

/-! ### The token-bucket bound -/

theorem nsInv_nonneg : 0 ≤ nsInv := by unfold nsInv; grind

theorem secs_nonneg (n : Nat) : 0 ≤ secs n := Rat.mul_nonneg Rat.natCast_nonneg nsInv_nonneg

theorem secs_add (a b : Nat) : secs (a + b) = secs a + secs b := by
  unfold secs
  rw [Rat.natCast_add, Rat.add_mul]

/-- Invariant of one bucket relative to its creation time `t0`:
    tokens + admitted ≤ max + rate·(last − t0), 0 ≤ tokens ≤ max. -/
structure TBInv (b : TB) (t0 : Nat) (admitted : Nat) : Prop where
  lo : 0 ≤ b.tokens
  hi : b.tokens ≤ b.max
  rateNonneg : 0 ≤ b.rate
  after : t0 ≤ b.last
  bound : b.tokens + (admitted : Rat) ≤ b.max + b.rate * secs (b.last - t0)

theorem TBInv_new (rate : Rat) (burst now : Nat) (hr : 0 ≤ rate) : TBInv (TB.new rate burst now) now 0 := by
  constructor
  · exact Rat.natCast_nonneg
  · exact Rat.le_refl
  · exact hr
  · exact Nat.le_refl _
  · simp [TB.new, secs]

/-- One Allow at a later instant preserves the invariant (admitted counts the successful ones). -/
theorem TBInv_allow (b : TB) (t0 adm now : Nat) (h : TBInv b t0 adm) (hnow : b.last ≤ now) :
    TBInv (b.allow now).1 t0 (adm + if (b.allow now).2 then 1 else 0) := by
  obtain ⟨lo, hi, hr, haft, hb⟩ := h
  have hsplit : secs (now - t0) = secs (b.last - t0) + secs (now - b.last) := by
    rw [← secs_add]; congr 1; omega
  have hs := secs_nonneg (now - b.last)
  have hmul : 0 ≤ secs (now - b.last) * b.rate := Rat.mul_nonneg hs hr
  have hdist : b.rate * secs (now - t0) = b.rate * secs (b.last - t0) + secs (now - b.last) * b.rate := by
    rw [hsplit, Rat.mul_add, Rat.mul_comm b.rate (secs (now - b.last))]
  unfold TB.allow TB.level
  simp only
  split <;> split <;> constructor <;> (try simp only [Rat.natCast_add]) <;> (first | exact hr | omega | grind)

/-- Monotone, later-than-`last` instants. -/
def Mono : Nat → List Nat → Prop
  | _, [] => True
  | last, t :: ts => last ≤ t ∧ Mono t ts

theorem allow_last (b : TB) (now : Nat) : (b.allow now).1.last = now := by
  unfold TB.allow; simp only; split <;> rfl

theorem allow_max (b : TB) (now : Nat) : (b.allow now).1.max = b.max := by
  unfold TB.allow; simp only; split <;> rfl

theorem allow_rate (b : TB) (now : Nat) : (b.allow now).1.rate = b.rate := by
  unfold TB.allow; simp only; split <;> rfl

theorem run_max (b : TB) (ts : List Nat) : (b.run ts).1.max = b.max := by
  induction ts generalizing b with
  | nil => rfl
  | cons t ts ih => simp only [TB.run]; rw [ih, allow_max]

theorem run_rate (b : TB) (ts : List Nat) : (b.run ts).1.rate = b.rate := by
  induction ts generalizing b with
  | nil => rfl
  | cons t ts ih => simp only [TB.run]; rw [ih, allow_rate]

theorem TBInv_run (b : TB) (t0 adm : Nat) (ts : List Nat) (h : TBInv b t0 adm) (hm : Mono b.last ts) :
    TBInv (b.run ts).1 t0 (adm + (b.run ts).2) := by
  induction ts generalizing b adm with
  | nil => simpa [TB.run] using h
  | cons t ts ih =>
    simp only [TB.run]
    have h1 := TBInv_allow b t0 adm t h hm.1
    have hm' : Mono (b.allow t).1.last ts := by rw [allow_last]; exact hm.2
    have := ih (b.allow t).1 _ h1 hm'
    rw [Nat.add_assoc] at this
    exact this

/-- The token-bucket bound: a bucket created at `t0` with burst `B` and rate `r ≥ 0` admits, over any
    monotone sequence of request instants, at most `B + r·(elapsed seconds)` requests. -/
theorem admitted_bound (rate : Rat) (burst t0 : Nat) (ts : List Nat) (hr : 0 ≤ rate) (hm : Mono t0 ts) :
    (((TB.new rate burst t0).run ts).2 : Rat) ≤
      burst + rate * secs (((TB.new rate burst t0).run ts).1.last - t0) := by
  have h := TBInv_run (TB.new rate burst t0) t0 0 ts (TBInv_new rate burst t0 hr) (by simpa [TB.new] using hm)
  have hb := h.bound
  have hlo := h.lo
  have hmax : ((TB.new rate burst t0).run ts).1.max = burst := by rw [run_max]; rfl
  have hrate : ((TB.new rate burst t0).run ts).1.rate = rate := by rw [run_rate]; rfl
  simp only [Nat.zero_add] at hb
  rw [hmax, hrate] at hb
  grind

/-- level is capped -/
theorem level_le_max (b : TB) (now : Nat) (h : b.tokens ≤ b.max) : b.level now ≤ b.max := by
  unfold TB.level; simp only; split <;> grind

/-- level is monotone in time for a non-negative rate -/
theorem level_mono (b : TB) (now now' : Nat) (hr : 0 ≤ b.rate) (h1 : b.last ≤ now) (h2 : now ≤ now') :
    b.level now ≤ b.level now' := by
  have hsplit : secs (now' - b.last) = secs (now - b.last) + secs (now' - now) := by
    rw [← secs_add]; congr 1; omega
  have hm : 0 ≤ secs (now' - now) * b.rate := Rat.mul_nonneg (secs_nonneg _) hr
  have hd : secs (now' - b.last) * b.rate = secs (now - b.last) * b.rate + secs (now' - now) * b.rate := by
    rw [hsplit, Rat.add_mul]
  unfold TB.level; simp only
  split <;> split <;> grind

/-- Cleanup is invisible: a bucket that is full at cleanup time `now` and a bucket freshly created at its
    next use make the same decision and leave the same number of tokens, at every later instant. -/
theorem cleanup_invisible (b : TB) (rate : Rat) (burst now now' : Nat)
    (hfull : b.level now ≥ (burst : Rat)) (hmax : b.max = burst) (hrate : b.rate = rate) (hr : 0 ≤ rate)
    (htok : b.tokens ≤ b.max) (h1 : b.last ≤ now) (h2 : now ≤ now') :
    (b.allow now').2 = ((TB.new rate burst now').allow now').2 ∧
    (b.allow now').1.tokens = ((TB.new rate burst now').allow now').1.tokens ∧
    (b.allow now').1.last = ((TB.new rate burst now').allow now').1.last := by
  have hl1 : b.level now' = burst := by
    have hle := level_le_max b now' htok
    have hge := level_mono b now now' (hrate ▸ hr) h1 h2
    rw [hmax] at hle
    grind
  have hl2 : (TB.new rate burst now').level now' = burst := by
    simp only [TB.level, TB.new, secs, Nat.sub_self]
    split <;> grind
  unfold TB.allow
  simp only [hl1, hl2]
  split <;> simp [TB.new]

end Bucket
end Absnfs
