/-
  ServerOwner2: who owns what CREATE makes (C11), at handler level, in every state satisfying the server
  invariant (hence after every history).
-/
import Absnfs.ServerFailed
namespace Absnfs
namespace Server
open Fs (ownerAt)

/-- Create of a path Lstat does not find: the new file belongs to 0:0 (the backend's default) and nothing else changes owner -/
theorem Fs_create_new_owner {fs fs1 : Fs.T} {p : Fs.Path} {err : Fs.Errno} (hmiss : Fs.walk fs p = .error err)
    (h : Fs.create fs p = .ok fs1) (q : Fs.Path) : ownerAt fs1 q = if q = p then some (0, 0) else ownerAt fs q := by
  unfold Fs.create at h
  rw [Fs.follow_of_walk_err hmiss] at h
  split at h
  · rename_i heq; simp at heq
  · rename_i q0 heq
    simp only [Prod.mk.injEq, Except.error.injEq] at heq
    obtain ⟨hq0, _⟩ := heq
    subst hq0
    split at h
    · simp at h
    · split at h
      · simp at h
      · simp only [Except.ok.injEq] at h
        subst h
        show ownerAt (Fs.set fs _ _) q = _
        rw [Fs.ownerAt_set]
  · simp at h

/-- Create + Chmod + Chown of a new name: the backend calls CREATE makes, and what they leave -/
theorem create_chain_owner {fs fs1 fs2 : Fs.T} {p : Fs.Path} {err : Fs.Errno} {perm u g : Nat} (hw : Fs.WF fs)
    (hmiss : Fs.walk fs p = .error err) (hcr : Fs.create fs p = .ok fs1) (hch : Fs.chmod fs1 p perm = .ok fs2) :
    ∃ fs3, Fs.chown fs2 p u g = .ok fs3 ∧ ownerAt fs3 p = some (u, g) ∧ ∀ q, q ≠ p → ownerAt fs3 q = ownerAt fs q := by
  obtain ⟨hw1, _, e1, hwe1, hke1⟩ := Fs.create_new_frame hmiss hcr hw
  have hnl1 : e1.kind ≠ .link := by rw [hke1]; decide
  obtain ⟨e2, hwe2, hke2⟩ := Fs.chmod_nonlink_result hwe1 hnl1 hch hw1
  have hnl2 : e2.kind ≠ .link := by rw [hke2]; exact hnl1
  obtain ⟨fs3, hok⟩ := Fs.chown_ok_of_nonlink (uid := u) (gid := g) hwe2 hnl2
  obtain ⟨q0, e0, hfol, hq⟩ := Fs.chown_owner hok
  rw [Fs.follow_of_walk_nonlink hwe2 hnl2] at hfol
  simp only [Prod.mk.injEq] at hfol
  have hq0 : q0 = p := hfol.1.symm
  refine ⟨fs3, hok, ?_, ?_⟩
  · rw [(hq p).1, hq0]; simp
  · intro q hne
    rw [(hq q).1, hq0, if_neg hne, (Fs.chmod_owner hch q).1, Fs_create_new_owner hmiss hcr q, if_neg hne]

/-- the new-name half of CREATE: on success the file is owned by the caller's effective identity (or, for an
    effective root, what sattr3 asked for) and no other object changes owner -/
theorem createNew_owner (s1 s' : St) (c : Ctx) (n : Node) (pre : Attrs) (name : Bytes) (mode how : Nat) (sa : Sattr3) (verf : Bytes)
    (body : Rfc.Body) (h1 : CInv s1)
    (hmiss : ∃ err, Fs.lstat s1.fs (fsPath (joinName n.path name)) = .error err)
    (heq : createNew s1 c n pre name mode how sa verf = (s', .res ⟨0, body⟩)) :
    ownerAt s'.fs (fsPath (joinName n.path name)) = some (ownerUid c sa, ownerGid c sa) ∧
    ∀ q, q ≠ fsPath (joinName n.path name) → ownerAt s'.fs q = ownerAt s1.fs q := by
  unfold createNew at heq
  split at heq
  · rename_i s2 e hco
    simp only [res, Prod.mk.injEq, Outcome.res.injEq, Rfc.Res.mk.injEq] at heq
    exact absurd heq.2.1 (mapErrno_ne_zero e)
  · rename_i s2 node hco
    have hco' := hco
    unfold createOp at hco'
    split at hco'
    · simp at hco'
    · rename_i p hp
      have hpe := sanitize_some hp
      obtain ⟨err, herr⟩ := hmiss
      rw [← hpe] at herr ⊢
      have hwk := Fs.lstat_err_walk herr
      split at hco'
      · simp at hco'
      · rename_i fs1 hcr
        split at hco'
        · simp at hco'
        · rename_i fs2 hch
          have hs2 : s2.fs = fs2 := lookupPath_fs' hco'
          have hnp : node.path = p := lookupPath_path hco'
          obtain ⟨fs3, hok, hown, hoth⟩ := create_chain_owner (u := ownerUid c sa) (g := ownerGid c sa) h1.wf hwk hcr hch
          have hs3 : (if how = 2 then rememberExclusive s2 node.path verf else s2).fs = fs2 := by
            split
            · exact hs2
            · exact hs2
          have hs4 : (chownQuiet (if how = 2 then rememberExclusive s2 node.path verf else s2) node.path
              (ownerUid c sa) (ownerGid c sa)).fs = fs3 := by
            unfold chownQuiet
            rw [hs3, hnp, hok]
          simp only at heq
          split at heq
          · simp only [res, Prod.mk.injEq, Outcome.res.injEq, Rfc.Res.mk.injEq] at heq
            exact absurd heq.2.1 (mapErrno_ne_zero _)
          · rename_i s5 post hg
            simp only [res, Prod.mk.injEq] at heq
            have hfin : s'.fs = fs3 := by rw [← heq.1, allocate_fs, getAttr_fs' hg, hs4]
            rw [hfin]
            exact ⟨hown, hoth⟩

/-- CREATE over a name that is taken changes no owner -/
theorem createExisting_owner (s1 s' : St) (c : Ctx) (n : Node) (pre : Attrs) (p : Bytes) (info : Fs.Info) (how : Nat) (sa : Sattr3)
    (verf : Bytes) (o : Outcome) (heq : createExisting s1 c n pre p info how sa verf = (s', o)) (q : Fs.Path) :
    ownerAt s'.fs q = ownerAt s1.fs q := by
  unfold createExisting at heq
  have hstep : ownerAt (createStep1 s1 p info how sa verf).1.fs q = ownerAt s1.fs q := by
    unfold createStep1
    split
    · rfl
    · split
      · rfl
      · split
        · simp only
          split
          · rfl
          · split
            · rfl
            · split
              · rfl
              · rename_i fs1 htr
                exact Fs.truncate_owner htr q
        · rfl
  have hfin : s'.fs = (createStep1 s1 p info how sa verf).1.fs := by
    unfold createFinish at heq
    split at heq
    · simp only [Prod.mk.injEq] at heq
      rw [← heq.1, getAttrOr_fs]
    · split at heq
      · rename_i hl
        simp only [Prod.mk.injEq] at heq
        rw [← heq.1, getAttrOr_fs, lookupPath_fs' hl]
      · rename_i hl
        simp only [Prod.mk.injEq] at heq
        rw [← heq.1, allocate_fs, getAttrOr_fs, lookupPath_fs' hl]
  rw [hfin, hstep]


/-- C11 (CREATE): on success, a file that did not exist before is owned by the caller's effective identity
    (or, for an effective root, by what sattr3 asked for) and no other object changes owner; a CREATE over a
    name that was taken changes no owner at all. -/
theorem procCreate_owner (s s' : St) (c : Ctx) (args : Bytes) (body : Rfc.Body) (h : CInv s)
    (heq : procCreate s c args = (s', .res ⟨0, body⟩)) :
    ∃ (hd how : Nat) (r1 r2 r3 name verf : Bytes) (sa : Sattr3) (n : Node),
      decFh' s args = some (hd, r1) ∧ decStr s r1 = some (name, r2) ∧ decU32 r2 = some (how, r3) ∧
      parseCreateHow how r3 = some (sa, verf) ∧ nodeOf s hd = some n ∧
      ((∃ err, Fs.lstat s.fs (fsPath (joinName n.path name)) = .error err) →
        ownerAt s'.fs (fsPath (joinName n.path name)) = some (ownerUid c sa, ownerGid c sa) ∧
        ∀ q, q ≠ fsPath (joinName n.path name) → ownerAt s'.fs q = ownerAt s.fs q) ∧
      ((∃ info, Fs.lstat s.fs (fsPath (joinName n.path name)) = .ok info) → ∀ q, ownerAt s'.fs q = ownerAt s.fs q) := by
  unfold procCreate at heq
  split at heq
  · simp [res] at heq
  · split at heq
    · simp [res] at heq
    · rename_i hd r1 hfh
      split at heq
      · simp [res] at heq
      · rename_i name r2 hname
        split at heq
        · rename_i hv
          simp only [res, Prod.mk.injEq, Outcome.res.injEq, Rfc.Res.mk.injEq] at heq
          exact absurd heq.2.1 hv
        · split at heq
          · simp [res] at heq
          · rename_i how r3 hhow
            split at heq
            · simp [res] at heq
            · rename_i sa verf hparse
              simp only at heq
              split at heq
              · simp [res] at heq
              · split at heq
                · simp [res] at heq
                · rename_i n hn
                  have hnc := nodeOf_cleanI h hn
                  split at heq
                  · rename_i s1 e hg
                    simp only [res, Prod.mk.injEq, Outcome.res.injEq, Rfc.Res.mk.injEq] at heq
                    exact absurd heq.2.1 (mapErrno_ne_zero e)
                  · rename_i s1 pre hg
                    have hfs1 : s1.fs = s.fs := getAttr_fs' hg
                    have h1 := getAttr_cinv' hg h hnc
                    refine ⟨hd, how, r1, r2, r3, name, verf, sa, n, hfh, hname, hhow, hparse, hn, ?_, ?_⟩
                    · intro hmiss
                      split at heq
                      · rename_i info hinfo
                        obtain ⟨err, herr⟩ := hmiss
                        rw [hfs1, herr] at hinfo
                        simp at hinfo
                      · rename_i err herr
                        have := createNew_owner s1 s' c n pre name _ how sa verf body h1 ⟨err, herr⟩ heq
                        rw [hfs1] at this
                        exact this
                    · intro hex q
                      split at heq
                      · rename_i info hinfo
                        rw [← hfs1]
                        exact createExisting_owner s1 s' c n pre _ info how sa verf _ heq q
                      · rename_i err herr
                        obtain ⟨info, hinfo⟩ := hex
                        rw [hfs1, hinfo] at herr
                        simp at herr

end Server
end Absnfs
