/-
  ServerData2: what SETATTR does to file contents (C01), at handler level: an explicit size goes through
  Truncate on the object the handle names (cut, or zero-extended); mode / owner / time changes never touch
  contents; nothing else in the tree changes its contents.
-/
import Absnfs.ServerOwner
import Absnfs.FsFrame
namespace Absnfs
namespace Server
open Fs (contentAt)

/-- SetAttr (mode, owner, times) keeps every object's kind and bytes -/
theorem setAttrOp_content (s : St) (h : Nat) (n : Node) (a : Attrs) (ts : Bool) (q : Fs.Path) :
    contentAt (setAttrOp s h n a ts).1.fs q = contentAt s.fs q := by
  unfold setAttrOp
  split
  · rfl
  · simp only
    split
    · rfl
    · rename_i fs1 hr1
      have h1 : contentAt fs1 q = contentAt s.fs q := by
        split at hr1
        · exact (Fs.chmod_owner hr1 q).2
        · simp only [Except.ok.injEq] at hr1; rw [← hr1]
      split
      · exact h1
      · rename_i fs2 hr2
        have h2 : contentAt fs2 q = contentAt fs1 q := by
          split at hr2
          · split at hr2
            · exact ((Fs.lchown_owner hr2) q).2
            · obtain ⟨_, _, _, hq⟩ := Fs.chown_owner hr2
              exact (hq q).2
          · simp only [Except.ok.injEq] at hr2; rw [← hr2]
        split
        · exact h2.trans h1
        · show contentAt fs2 q = _
          exact h2.trans h1

theorem truncate_content {fs fs1 : Fs.T} {p : Fs.Path} {n : Nat} (h : Fs.truncate fs p n = .ok fs1) :
    ∃ q0 e0, Fs.follow fs p = (q0, .ok e0) ∧
      ∀ q, contentAt fs1 q = if q = q0 then some (e0.kind, Fs.truncBytes e0.data n) else contentAt fs q := by
  unfold Fs.truncate at h
  split at h
  · simp at h
  · rename_i q0 e0 hf
    split at h
    · simp at h
    · split at h
      · simp at h
      · simp only [Except.ok.injEq] at h
        subst h
        exact ⟨q0, e0, hf, fun q => by rw [Fs.contentAt_set]⟩

/-- the size part of SETATTR -/
theorem setattrSize_content {s1 s2 : St} {h : Nat} {n : Node} {pre : Attrs} {size : Option Nat}
    (hs : setattrSize s1 h n pre size = .ok s2) :
    (size = none → ∀ q, contentAt s2.fs q = contentAt s1.fs q) ∧
    (∀ sz, size = some sz → ∃ q0 e0, Fs.follow s1.fs (fsPath n.path) = (q0, .ok e0) ∧
      ∀ q, contentAt s2.fs q = if q = q0 then some (e0.kind, Fs.truncBytes e0.data sz) else contentAt s1.fs q) := by
  unfold setattrSize at hs
  split at hs
  · simp only [Except.ok.injEq] at hs
    rw [← hs]
    exact ⟨fun _ _ => rfl, fun sz h => by simp at h⟩
  · rename_i sz0
    refine ⟨fun h => by simp at h, ?_⟩
    intro sz hsz
    simp only [Option.some.injEq] at hsz
    subst hsz
    split at hs
    · simp at hs
    · split at hs
      · simp at hs
      · split at hs
        · simp at hs
        · split at hs
          · simp at hs
          · rename_i fs1 htr
            obtain ⟨q0, e0, hf, hq⟩ := truncate_content htr
            refine ⟨q0, e0, hf, ?_⟩
            simp only at hs
            split at hs
            · simp only [Except.ok.injEq] at hs; rw [← hs]; exact hq
            · simp only [Except.ok.injEq] at hs; rw [← hs]; exact hq

theorem setattrApply_content (s2 : St) (c : Ctx) (h : Nat) (sa : Sattr3) (pre : Attrs) (q : Fs.Path) :
    contentAt (setattrApply s2 c h sa pre).1.fs q = contentAt s2.fs q := by
  unfold setattrApply
  split
  · rfl
  · simp only
    split
    · rename_i s3 st hso
      exact (congrArg (fun x => contentAt x.1.fs q) hso) ▸ setAttrOp_content s2 h _ _ _ q
    · rename_i s3 hso
      have h3 : contentAt s3.fs q = contentAt s2.fs q :=
        (congrArg (fun x => contentAt x.1.fs q) hso) ▸ setAttrOp_content s2 h _ _ _ q
      split
      · rename_i hg; rw [getAttr_fs' hg]; exact h3
      · rename_i hg; rw [getAttr_fs' hg]; exact h3

/-- C01 (SETATTR): a SETATTR replying NFS3_OK with an explicit size leaves the object the handle names with its
    old bytes cut or zero-extended to exactly that size (`truncBytes`), and changes the contents of nothing
    else — whatever mode, owner and time fields came along; without a size no contents change. -/
theorem procSetattr_content (s s' : St) (c : Ctx) (args : Bytes) (body : Rfc.Body)
    (heq : procSetattr s c args = (s', .res ⟨0, body⟩)) :
    ∃ (hd : Nat) (r1 r2 : Bytes) (sa : Sattr3) (n : Node), decFh' s args = some (hd, r1) ∧ decSattr3 r1 = some (sa, r2) ∧
      nodeOf s hd = some n ∧
      (sa.size = none → ∀ q, contentAt s'.fs q = contentAt s.fs q) ∧
      (∀ sz, sa.size = some sz → ∃ q0 e0, Fs.follow s.fs (fsPath n.path) = (q0, .ok e0) ∧
        ∀ q, contentAt s'.fs q = if q = q0 then some (e0.kind, Fs.truncBytes e0.data sz) else contentAt s.fs q) := by
  unfold procSetattr at heq
  split at heq
  · simp [res] at heq
  · split at heq
    · simp [res] at heq
    · rename_i hd r1 hfh
      split at heq
      · simp [res] at heq
      · rename_i sa r2 hsa
        split at heq
        · simp [res] at heq
        · split at heq
          · simp [res] at heq
          · split at heq
            · simp [res] at heq
            · split at heq
              · simp [res] at heq
              · rename_i n hn
                split at heq
                · rename_i s1 e hg
                  simp only [res, Prod.mk.injEq, Outcome.res.injEq, Rfc.Res.mk.injEq] at heq
                  exact absurd heq.2.1 (mapErrno_ne_zero e)
                · rename_i s1 pre hg
                  have hfs1 : s1.fs = s.fs := getAttr_fs' hg
                  split at heq
                  · simp [res] at heq
                  · split at heq
                    · rename_i st hss
                      simp only [res, Prod.mk.injEq, Outcome.res.injEq, Rfc.Res.mk.injEq] at heq
                      -- a failed size step replies with its error status
                      exfalso
                      unfold setattrSize at hss
                      split at hss
                      · simp at hss
                      · split at hss
                        · simp only [Except.error.injEq] at hss; rw [← hss] at heq; simp at heq
                        · split at hss
                          · simp only [Except.error.injEq] at hss; rw [← hss] at heq; simp at heq
                          · split at hss
                            · simp only [Except.error.injEq] at hss; rw [← hss] at heq; simp at heq
                            · split at hss
                              · simp only [Except.error.injEq] at hss; rw [← hss] at heq
                                exact absurd heq.2.1 (mapErrno_ne_zero _)
                              · simp only at hss
                                split at hss <;> simp at hss
                    · rename_i s2 hss
                      obtain ⟨hnone, hsome⟩ := setattrSize_content hss
                      have hfin : ∀ q, contentAt s'.fs q = contentAt s2.fs q := by
                        intro q
                        have := setattrApply_content s2 c hd sa pre q
                        rw [heq] at this
                        exact this
                      refine ⟨hd, r1, r2, sa, n, hfh, hsa, hn, ?_, ?_⟩
                      · intro hsz q
                        rw [hfin q, hnone hsz q, hfs1]
                      · intro sz hsz
                        obtain ⟨q0, e0, hf, hq⟩ := hsome sz hsz
                        refine ⟨q0, e0, by rw [← hfs1]; exact hf, ?_⟩
                        intro q
                        rw [hfin q, hq q, hfs1]

end Server
end Absnfs
