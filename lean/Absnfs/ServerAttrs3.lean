/-
  ServerAttrs3: the attributes READDIRPLUS sends for each entry are the backend's lstat of that entry (C04), at
  handler level.
-/
import Absnfs.ServerAttrs2
import Absnfs.ServerDir
namespace Absnfs
namespace Server

/-- every node Lookup-by-name returns over a coherent cache matches the backend (type, size, mode, fileid) -/
theorem lookupEach_matches (s : St) (now : Nat) (dir : Bytes) (names : List Bytes) (hc : AcCoherent s) :
    ∀ n ∈ (lookupEach s now dir names).2, MatchesLstat s.fs n.path n.attrs := by
  induction names generalizing s with
  | nil => intro n hn; simp [lookupEach] at hn
  | cons x xs ih =>
    unfold lookupEach
    split
    · exact ih s hc
    · split
      · exact ih s hc
      · rename_i p _
        have hl := lookupPath_coherent s now p hc
        split
        · rename_i s1 _ heq
          rw [heq] at hl
          have hfs : s1.fs = s.fs := lookupPath_fs' heq
          intro n hn
          have := ih s1 hl n hn
          rw [hfs] at this; exact this
        · rename_i s1 node heq
          rw [heq] at hl
          have hfs : s1.fs = s.fs := lookupPath_fs' heq
          simp only
          intro n hn
          simp only [List.mem_cons] at hn
          rcases hn with rfl | hn
          · obtain ⟨hp, hm⟩ := (lookupPath_sound (s' := s1) hc).1 n heq
            rw [hp]; exact hm
          · have := ih s1 hl n hn
            rw [hfs] at this; exact this

theorem readDir_matches (s : St) (now : Nat) (d : Node) (hc : AcCoherent s) :
    ∀ nodes, (readDir s now d).2 = .ok nodes → ∀ n ∈ nodes, MatchesLstat s.fs n.path n.attrs := by
  have key : ∀ (names : List Bytes) (s1 : St), s1.fs = s.fs → s1.ac = s.ac →
      ∀ n ∈ (lookupEach s1 now d.path names).2, MatchesLstat s.fs n.path n.attrs := by
    intro names s1 a b n hn
    have hc1 : AcCoherent s1 := by intro e he; rw [b] at he; rw [a]; exact hc e he
    have := lookupEach_matches s1 now d.path names hc1 n hn
    rw [a] at this; exact this
  unfold readDir
  simp only
  split
  · rename_i s1 names heq
    have hs1 : s1.fs = s.fs ∧ s1.ac = s.ac := by
      split at heq
      · simp at heq
      · split at heq
        · simp only [Option.some.injEq, Prod.mk.injEq] at heq
          rw [← heq.1]; exact ⟨rfl, rfl⟩
        · simp at heq
    intro nodes hn
    simp only [Except.ok.injEq] at hn
    rw [← hn]
    exact key names s1 hs1.1 hs1.2
  · split
    · intro nodes hn; simp at hn
    · rename_i ents _
      simp only
      intro nodes hn
      simp only [Except.ok.injEq] at hn
      rw [← hn]
      refine key _ _ ?_ ?_ <;> rfl

/-- READDIRPLUS's refresh keeps (indeed re-establishes) the match -/
theorem refreshEach_matches (s : St) (now : Nat) (l : List Node) (hl : ∀ n ∈ l, MatchesLstat s.fs n.path n.attrs) :
    ∀ n ∈ (refreshEach s now l).2, MatchesLstat s.fs n.path n.attrs := by
  induction l generalizing s with
  | nil => intro n hn; simp [refreshEach] at hn
  | cons x xs ih =>
    unfold refreshEach
    simp only
    have hx := hl x (List.mem_cons_self ..)
    have hrest : ∀ m ∈ xs, MatchesLstat s.fs m.path m.attrs := fun m hm => hl m (List.mem_cons_of_mem _ hm)
    split
    · intro n hn
      simp only [List.mem_cons] at hn
      rcases hn with rfl | hn
      · exact hx
      · exact ih (acGet s now x.path).1 hrest n hn
    · rename_i i hi
      intro n hn
      simp only [List.mem_cons] at hn
      rcases hn with rfl | hn
      · obtain ⟨_, _, _, _, _, hf⟩ := hx
        exact ⟨i, by simpa using hi, rfl, rfl, rfl, by simp [attrsOfInfo, hf]⟩
      · exact ih (acPut (acGet s now x.path).1 now x.path _) hrest n hn

/-- the entries a READDIRPLUS page carries are `toFattr` of nodes of the listing -/
theorem fillDirPlus_entries (limit cookie : Nat) (s : St) (i used cnt : Nat) (l : List Node) :
    ∀ ents lim s', fillDirPlus limit cookie s i used cnt l = (s', .done ents lim) →
      ∀ e ∈ ents, ∃ n ∈ l, e.name = baseName n.path ∧ e.attr = some (toFattr n.attrs) ∧ e.fileid = n.attrs.fileId := by
  induction l generalizing s i used cnt with
  | nil =>
    intro ents lim s' h
    simp only [fillDirPlus, Prod.mk.injEq, Fill.done.injEq] at h
    intro e he; rw [← h.2.1] at he; simp at he
  | cons x xs ih =>
    intro ents lim s' h
    unfold fillDirPlus at h
    split at h
    · intro e he
      obtain ⟨n, hn, hrest⟩ := ih s _ _ _ ents lim s' h e he
      exact ⟨n, List.mem_cons_of_mem _ hn, hrest⟩
    · simp only at h
      split at h
      · split at h
        · simp at h
        · simp only [Prod.mk.injEq, Fill.done.injEq] at h
          intro e he; rw [← h.2.1] at he; simp at he
      · split at h
        · simp at h
        · rename_i s2 l2 lim2 hrec
          simp only [Prod.mk.injEq, Fill.done.injEq] at h
          intro e he
          rw [← h.2.1] at he
          simp only [List.mem_cons] at he
          rcases he with rfl | he
          · exact ⟨x, List.mem_cons_self .., rfl, rfl, rfl⟩
          · obtain ⟨n, hn, hrest⟩ := ih _ _ _ _ l2 lim2 s2 hrec e he
            exact ⟨n, List.mem_cons_of_mem _ hn, hrest⟩

/-- C04 (READDIRPLUS): every entry of an NFS3_OK page carries the attributes of a node of the listing whose type,
    size and permission bits are the backend's lstat of that entry's path and whose fileid is that path's. -/
theorem procReaddirplus_entries (s s' : St) (c : Ctx) (args : Bytes) (a : Option Rfc.Fattr) (verf : Bytes)
    (ents : List Rfc.DirEntPlus) (eof : Bool) (hc : AcCoherent s)
    (h : procReaddirplus s c args = (s', .res ⟨0, .readdirplusOk a verf ents eof⟩)) :
    ∀ e ∈ ents, ∃ n : Node, e.name = baseName n.path ∧ e.attr = some (toFattr n.attrs) ∧ e.fileid = n.attrs.fileId ∧
      MatchesLstat s.fs n.path n.attrs := by
  unfold procReaddirplus at h
  split at h
  · simp [res] at h
  · split at h
    · simp [res] at h
    · split at h
      · simp [res] at h
      · split at h
        · simp [res] at h
        · split at h
          · simp [res] at h
          · split at h
            · simp [res] at h
            · rename_i n hn
              split at h
              · simp [res] at h
              · split at h
                · simp [res] at h
                · rename_i s1 nodes0 hrd
                  have hfs1 : s1.fs = s.fs := readDir_fs' hrd
                  have hm0 : ∀ m ∈ nodes0, MatchesLstat s.fs m.path m.attrs := by
                    have := readDir_matches s c.now n hc nodes0
                    rw [hrd] at this
                    exact this rfl
                  split at h
                  rename_i s2 nodes hre
                  have hm1 : ∀ m ∈ nodes, MatchesLstat s.fs m.path m.attrs := by
                    have := refreshEach_matches s1 c.now nodes0 (by intro m hm; rw [hfs1]; exact hm0 m hm)
                    rw [hre] at this
                    intro m hm
                    have := this m hm
                    rw [hfs1] at this; exact this
                  split at h
                  · simp [res] at h
                  · simp only at h
                    split at h
                    · simp [res] at h
                    · rename_i s4 ents' lim hfill
                      simp only [res, Prod.mk.injEq, Outcome.res.injEq, Rfc.Res.mk.injEq, Rfc.Body.readdirplusOk.injEq, true_and] at h
                      obtain ⟨_, _, _, hents, _⟩ := h
                      intro e he
                      rw [← hents] at he
                      obtain ⟨m, hmem, h1, h2, h3⟩ := fillDirPlus_entries _ _ _ _ _ _ nodes ents' lim s4 hfill e he
                      exact ⟨m, h1, h2, h3, hm1 m hmem⟩

end Server
end Absnfs
