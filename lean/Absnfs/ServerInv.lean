/-
  ServerInv: the invariant that makes the attribute cache transparent (C02), and its preservation by the
  server's building blocks. `CInv s` says: every attribute-cache entry agrees with the backend (`AcCoherent`),
  cache keys are unique and clean paths, the handle table holds clean paths, and the backend model is
  well-formed. Removing cache entries never hurts; an entry may stay across a backend change when what Lstat
  shows at its path (`Fs.viewAt`) is unchanged.
-/
import Absnfs.ServerCoherent
import Absnfs.ServerPaths
import Absnfs.PathLemmas
import Absnfs.FsRename
import Absnfs.HandlesInv
namespace Absnfs
namespace Lru
variable {V : Type}

theorem invalidate_mem {c : Cache V} (hI : Inv c) {k : Bytes} {e : Entry V} (he : e ∈ (invalidate c k).entries) :
    e ∈ c.entries ∧ e.key ≠ k := by
  unfold invalidate at he
  simp only at he
  refine ⟨List.mem_of_mem_eraseP he, ?_⟩
  have hk : e.key ∈ (removeKey c.entries k).map (·.key) := List.mem_map.mpr ⟨e, he, rfl⟩
  rw [keys_removeKey] at hk
  exact ((List.Nodup.mem_erase_iff hI.nodup).mp hk).1

theorem inv_invalidate {c : Cache V} (hI : Inv c) (k : Bytes) : Inv (invalidate c k) := inv_removeKey hI k

theorem invalidatePrefix_mem {c : Cache V} {p : Bytes} {e : Entry V} (he : e ∈ (invalidatePrefix c p).entries) :
    e ∈ c.entries ∧ underPrefix e.key p = false := by
  unfold invalidatePrefix at he
  simp only [List.mem_filter, Bool.not_eq_true'] at he
  exact he

theorem inv_invalidatePrefix {c : Cache V} (hI : Inv c) (p : Bytes) : Inv (invalidatePrefix c p) := inv_filter hI _

theorem invalidateNegativeInDir_mem {c : Cache V} {d : Bytes} {e : Entry V} (he : e ∈ (invalidateNegativeInDir c d).entries) :
    e ∈ c.entries := by
  unfold invalidateNegativeInDir at he
  simp only [List.mem_filter] at he
  exact he.1

theorem inv_invalidateNegativeInDir {c : Cache V} (hI : Inv c) (d : Bytes) : Inv (invalidateNegativeInDir c d) := inv_filter hI _

end Lru

namespace Server

/-- the directory cache, when configured, has unique keys and respects its capacity -/
def DcI (d : Option (Lru.Cache (List Bytes))) : Prop := ∀ c, d = some c → Lru.Inv c

theorem DcI.map_invalidate {d : Option (Lru.Cache (List Bytes))} (h : DcI d) (p : Bytes) :
    DcI (d.map fun c => Lru.invalidate c p) := by
  intro c hc
  cases d with
  | none => simp at hc
  | some c0 => simp only [Option.map_some, Option.some.injEq] at hc; rw [← hc]; exact Lru.inv_invalidate (h c0 rfl) p

theorem DcI.map_invalidatePrefix {d : Option (Lru.Cache (List Bytes))} (h : DcI d) (p : Bytes) :
    DcI (d.map fun c => Lru.invalidatePrefix c p) := by
  intro c hc
  cases d with
  | none => simp at hc
  | some c0 => simp only [Option.map_some, Option.some.injEq] at hc; rw [← hc]; exact Lru.inv_invalidatePrefix (h c0 rfl) p

theorem DcI.map_get {d : Option (Lru.Cache (List Bytes))} (h : DcI d) (now : Nat) (p : Bytes) :
    DcI (d.map fun c => (Lru.get c now p).1) := by
  intro c hc
  cases d with
  | none => simp at hc
  | some c0 => simp only [Option.map_some, Option.some.injEq] at hc; rw [← hc]; exact Lru.inv_get (h c0 rfl) now p

theorem DcI.map_putIf {d : Option (Lru.Cache (List Bytes))} (h : DcI d) (P : Prop) [Decidable P] (now : Nat) (p : Bytes) (v : List Bytes) :
    DcI (d.map fun c => if P then c else Lru.put c now p v) := by
  intro c hc
  cases d with
  | none => simp at hc
  | some c0 =>
    simp only [Option.map_some, Option.some.injEq] at hc
    rw [← hc]
    split
    · exact h c0 rfl
    · exact Lru.inv_put (h c0 rfl) now p v

structure CInv (s : St) : Prop where
  coh : AcCoherent s
  lru : Lru.Inv s.ac
  keys : ∀ e ∈ s.ac.entries, CleanPath e.key
  hcl : HandlesClean s
  wf : Fs.WF s.fs
  htab : Handles.Inv s.cfg.defaultMaxHandles s.hs
  hdm : 0 < s.cfg.defaultMaxHandles
  dci : DcI s.dc

/-- an entry that was right stays right when Lstat shows the same at its path -/
theorem entryOK_of_view {fs fs' : Fs.T} (hw : Fs.WF fs) (hw' : Fs.WF fs') (e : Lru.Entry Attrs)
    (hv : Fs.viewAt fs' (fsPath e.key) = Fs.viewAt fs (fsPath e.key)) (h : EntryOK fs e) : EntryOK fs' e := by
  unfold EntryOK at h ⊢
  cases hval : e.val with
  | some a =>
    simp only [hval] at h ⊢
    obtain ⟨i, hi, h1, h2, h3, h4⟩ := h
    have := Fs.lstat_ok_view hi
    rw [← hv] at this
    obtain ⟨i', hi', k1, k2, k3⟩ := Fs.lstat_of_view hw' this
    exact ⟨i', hi', by rw [h1, k1], by rw [h2, k2], by rw [h3, k3], h4⟩
  | none =>
    simp only [hval] at h ⊢
    obtain ⟨err, herr⟩ := h
    have := Fs.lstat_err_view hw herr
    rw [← hv] at this
    exact Fs.lstat_err_of_view this

/-- discharges `DcI s'.dc` when `s'` is a known state reached by directory-cache invalidations (or none) -/
macro "dci_tac" : tactic =>
  `(tactic| (try simp only [dcInv, dcInvPrefix, acInv, acInvNegIn, acInvPrefix, acPut, acPutNeg, acGet, invalidateForNew, updNodeAt, setNode, rememberExclusive];
             repeat (first | apply DcI.map_invalidate | apply DcI.map_invalidatePrefix);
             first | assumption | (apply CInv.dci; assumption)))

/-- the general step: a new backend state and a cache whose entries all come from the old cache and sit at
    paths whose Lstat view did not change -/
theorem cinv_step {s s' : St} (h : CInv s) (hhs : s'.hs = s.hs) (hw : Fs.WF s'.fs) (hlru : Lru.Inv s'.ac)
    (hsub : ∀ e ∈ s'.ac.entries, e ∈ s.ac.entries ∧
      Fs.viewAt s'.fs (fsPath e.key) = Fs.viewAt s.fs (fsPath e.key))
    (hcfg : s'.cfg = s.cfg := by rfl) (hdci : DcI s'.dc := by dci_tac) : CInv s' where
  coh := fun e he => entryOK_of_view h.wf hw e (hsub e he).2 (h.coh e (hsub e he).1)
  lru := hlru
  keys := fun e he => h.keys e (hsub e he).1
  hcl := by intro x hx; rw [hhs] at hx; exact h.hcl x hx
  wf := hw
  htab := by rw [hcfg, hhs]; exact h.htab
  hdm := by rw [hcfg]; exact h.hdm
  dci := hdci

/-- changes outside the backend, the attribute cache and the handle table do not matter -/
theorem cinv_congr {s s' : St} (h : CInv s) (h1 : s'.fs = s.fs) (h2 : s'.ac = s.ac) (h3 : s'.hs = s.hs)
    (hcfg : s'.cfg = s.cfg := by rfl) (hdci : DcI s'.dc := by dci_tac) : CInv s' := by
  refine cinv_step h h3 (by rw [h1]; exact h.wf) (by rw [h2]; exact h.lru) ?_ hcfg hdci
  intro e he
  rw [h2] at he
  exact ⟨he, by rw [h1]⟩

theorem acGet_cinv {s : St} (h : CInv s) (now : Nat) (p : Bytes) : CInv (acGet s now p).1 :=
  cinv_step h rfl h.wf (Lru.inv_get h.lru now p) (fun e he => ⟨Lru.get_sub s.ac now p e he, rfl⟩)

theorem acInv_cinv {s : St} (h : CInv s) (p : Bytes) : CInv (acInv s p) :=
  cinv_step h rfl h.wf (Lru.inv_invalidate h.lru p) (fun e he => ⟨(Lru.invalidate_mem h.lru he).1, rfl⟩)

theorem acInvNegIn_cinv {s : St} (h : CInv s) (d : Bytes) : CInv (acInvNegIn s d) :=
  cinv_step h rfl h.wf (Lru.inv_invalidateNegativeInDir h.lru d) (fun e he => ⟨Lru.invalidateNegativeInDir_mem he, rfl⟩)

theorem acInvPrefix_cinv {s : St} (h : CInv s) (p : Bytes) : CInv (acInvPrefix s p) :=
  cinv_step h rfl h.wf (Lru.inv_invalidatePrefix h.lru p) (fun e he => ⟨(Lru.invalidatePrefix_mem he).1, rfl⟩)

theorem dcInv_cinv {s : St} (h : CInv s) (p : Bytes) : CInv (dcInv s p) := cinv_congr h rfl rfl rfl
theorem dcInvPrefix_cinv {s : St} (h : CInv s) (p : Bytes) : CInv (dcInvPrefix s p) := cinv_congr h rfl rfl rfl

theorem acPut_cinv {s : St} (h : CInv s) (now : Nat) (p : Bytes) (a : Attrs) (hp : CleanPath p) (ha : MatchesLstat s.fs p a) :
    CInv (acPut s now p a) where
  coh := acPut_coherent s now p a h.coh ha
  lru := Lru.inv_put h.lru now p a
  keys := by
    intro e he
    rcases Lru.putEntry_sub s.ac _ e he with h1 | h1
    · rw [h1]; exact hp
    · exact h.keys e h1
  hcl := h.hcl
  wf := h.wf
  htab := h.htab
  hdm := h.hdm
  dci := h.dci

theorem acPutNeg_cinv {s : St} (h : CInv s) (now : Nat) (p : Bytes) (hp : CleanPath p)
    (he : ∃ err, Fs.lstat s.fs (fsPath p) = .error err) : CInv (acPutNeg s now p) where
  coh := acPutNeg_coherent s now p h.coh he
  lru := Lru.inv_putNegative h.lru now p
  keys := by
    intro e hmem
    unfold acPutNeg Lru.putNegative at hmem
    simp only at hmem
    split at hmem
    · rcases Lru.putEntry_sub s.ac _ e hmem with h1 | h1
      · rw [h1]; exact hp
      · exact h.keys e h1
    · exact h.keys e hmem
  hcl := h.hcl
  wf := h.wf
  htab := h.htab
  hdm := h.hdm
  dci := h.dci

theorem lookupPath_cinv {s : St} (h : CInv s) (now : Nat) (p : Bytes) (hp : CleanPath p) : CInv (lookupPath s now p).1 := by
  unfold lookupPath
  split
  · exact h
  · have h1 := acGet_cinv h now p
    simp only
    split
    · exact h1
    · exact h1
    · split
      · rename_i e he
        split
        · exact acPutNeg_cinv h1 now p hp ⟨e, by simpa using he⟩
        · exact h1
      · rename_i i hi
        exact acPut_cinv h1 now p _ hp ⟨i, by simpa using hi, rfl, rfl, rfl, rfl⟩

theorem lookupPath_cinv' {s s' : St} {now : Nat} {p : Bytes} {r : Except Fs.Errno Node} (heq : lookupPath s now p = (s', r))
    (h : CInv s) (hp : CleanPath p) : CInv s' := by
  have := lookupPath_cinv h now p hp; rw [heq] at this; exact this

theorem getAttr_cinv {s : St} (h : CInv s) (now : Nat) (n : Node) (hp : CleanPath n.path) : CInv (getAttr s now n).1 := by
  unfold getAttr
  have h1 := acGet_cinv h now n.path
  simp only
  split
  · exact h1
  · rename_i i hi
    exact acPut_cinv h1 now n.path _ hp ⟨i, by simpa using hi, rfl, rfl, rfl, rfl⟩

theorem getAttr_cinv' {s s' : St} {now : Nat} {n : Node} {r : Except Fs.Errno Attrs} (heq : getAttr s now n = (s', r))
    (h : CInv s) (hp : CleanPath n.path) : CInv s' := by
  have := getAttr_cinv h now n hp; rw [heq] at this; exact this

theorem getAttrOr_cinv {s : St} (h : CInv s) (now : Nat) (n : Node) (d : Attrs) (hp : CleanPath n.path) :
    CInv (getAttrOr s now n d).1 := by
  unfold getAttrOr
  have := getAttr_cinv h now n hp
  split <;> simp_all

theorem getAttrOr_cinv' {s s' : St} {now : Nat} {n : Node} {d a : Attrs} (heq : getAttrOr s now n d = (s', a))
    (h : CInv s) (hp : CleanPath n.path) : CInv s' := by
  have := getAttrOr_cinv h now n d hp; rw [heq] at this; exact this

theorem allocate_cinv {s : St} (h : CInv s) (n : Node) (hp : CleanPath n.path) : CInv (allocate s n).1 where
  coh := h.coh
  lru := h.lru
  keys := h.keys
  hcl := allocate_clean s n h.hcl hp
  wf := h.wf
  htab := Handles.inv_alloc _ _ h.hdm s.hs n.path (cleanPath_ne_nil hp) h.htab
  hdm := h.hdm
  dci := h.dci

theorem allocate_cinv' {s s' : St} {n : Node} {fh : Nat} (heq : allocate s n = (s', fh)) (h : CInv s) (hp : CleanPath n.path) :
    CInv s' := by
  have := allocate_cinv h n hp; rw [heq] at this; exact this

theorem nodeOf_cleanI {s : St} {hd : Nat} {n : Node} (h : CInv s) (hn : nodeOf s hd = some n) : CleanPath n.path :=
  nodeOf_clean h.hcl hn

end Server
end Absnfs

namespace Absnfs
namespace Server

theorem sanitize_some {dir n p : Bytes} (h : sanitize dir n = some p) : p = joinName dir n := by
  unfold sanitize at h
  simp only at h
  split at h
  · simp at h
  · simp only [Option.some.injEq] at h; exact h.symm

theorem lookupEach_cinv (s : St) (now : Nat) (dir : Bytes) (names : List Bytes) (h : CInv s) (hd : CleanPath dir) :
    CInv (lookupEach s now dir names).1 ∧ ∀ n ∈ (lookupEach s now dir names).2, CleanPath n.path := by
  induction names generalizing s with
  | nil => exact ⟨h, fun n hn => by simp [lookupEach] at hn⟩
  | cons x xs ih =>
    unfold lookupEach
    split
    · exact ih s h
    · rename_i hx
      split
      · exact ih s h
      · rename_i p hp
        have hpc : CleanPath p := by
          rw [sanitize_some hp]
          exact .child dir x hd (listing_name_noSep x hx)
        split
        · rename_i s1 _ heq
          exact ih s1 (lookupPath_cinv' heq h hpc)
        · rename_i s1 node heq
          have := ih s1 (lookupPath_cinv' heq h hpc)
          refine ⟨this.1, ?_⟩
          intro n hn
          simp only [List.mem_cons] at hn
          rcases hn with rfl | hn
          · rw [lookupPath_path heq]; exact hpc
          · exact this.2 n hn

theorem readDir_cinv (s : St) (now : Nat) (d : Node) (h : CInv s) (hd : CleanPath d.path) :
    CInv (readDir s now d).1 ∧ ∀ nodes, (readDir s now d).2 = .ok nodes →
      ∀ n ∈ nodes, CleanPath n.path ∧ n.attrs.fileId = fnv64 n.path := by
  have key : ∀ (names : List Bytes) (s1 : St), s1.fs = s.fs → s1.ac = s.ac → s1.hs = s.hs ∧ s1.cfg = s.cfg → DcI s1.dc →
      CInv (lookupEach s1 now d.path names).1 ∧
      ∀ n ∈ (lookupEach s1 now d.path names).2, CleanPath n.path ∧ n.attrs.fileId = fnv64 n.path := by
    intro names s1 a b c dd
    have hs1 := cinv_congr h a b c.1 c.2 dd
    have h1 := lookupEach_cinv s1 now d.path names hs1 hd
    have h2 := lookupEach_fileIds s1 now d.path names hs1.coh
    exact ⟨h1.1, fun n hn => ⟨h1.2 n hn, h2 n hn⟩⟩
  unfold readDir
  simp only
  split
  · rename_i s1 names heq
    have hs1 : s1.fs = s.fs ∧ s1.ac = s.ac ∧ s1.hs = s.hs ∧ s1.cfg = s.cfg ∧ DcI s1.dc := by
      split at heq
      · simp at heq
      · rename_i c0 hc0
        split at heq
        · rename_i c1 nm hget
          simp only [Option.some.injEq, Prod.mk.injEq] at heq
          rw [← heq.1]
          refine ⟨rfl, rfl, rfl, rfl, ?_⟩
          intro c hc
          simp only [Option.some.injEq] at hc
          rw [← hc]
          have := Lru.inv_get (h.dci c0 hc0) now d.path
          rw [hget] at this; exact this
        · simp at heq
    have := key names s1 hs1.1 hs1.2.1 ⟨hs1.2.2.1, hs1.2.2.2.1⟩ hs1.2.2.2.2
    exact ⟨this.1, fun nodes hn => by simp only [Except.ok.injEq] at hn; rw [← hn]; exact this.2⟩
  · have hg : DcI (s.dc.map fun c => (Lru.get c now d.path).1) := h.dci.map_get now d.path
    split
    · exact ⟨cinv_congr h rfl rfl rfl rfl hg, fun nodes hn => by simp at hn⟩
    · rename_i ents _
      simp only
      refine ⟨(key _ _ ?_ ?_ ?_ ?_).1, fun nodes hn => ?_⟩
      · rfl
      · rfl
      · exact ⟨rfl, rfl⟩
      · exact hg.map_putIf _ now d.path _
      · simp only [Except.ok.injEq] at hn
        rw [← hn]
        refine (key _ _ ?_ ?_ ?_ ?_).2
        · rfl
        · rfl
        · exact ⟨rfl, rfl⟩
        · exact hg.map_putIf _ now d.path _

theorem refreshEach_cinv (s : St) (now : Nat) (l : List Node) (h : CInv s) (hl : ∀ n ∈ l, CleanPath n.path)
    (hids : ∀ n ∈ l, n.attrs.fileId = fnv64 n.path) :
    CInv (refreshEach s now l).1 ∧ ∀ n ∈ (refreshEach s now l).2, CleanPath n.path := by
  induction l generalizing s with
  | nil => exact ⟨h, fun n hn => by simp [refreshEach] at hn⟩
  | cons n ns ih =>
    unfold refreshEach
    simp only
    have h1 := acGet_cinv h now n.path
    have hn := hl n (List.mem_cons_self ..)
    have hrest : ∀ m ∈ ns, CleanPath m.path := fun m hm => hl m (List.mem_cons_of_mem _ hm)
    have hidr : ∀ m ∈ ns, m.attrs.fileId = fnv64 m.path := fun m hm => hids m (List.mem_cons_of_mem _ hm)
    split
    · have := ih _ h1 hrest hidr
      refine ⟨this.1, ?_⟩
      intro m hm
      simp only [List.mem_cons] at hm
      rcases hm with rfl | hm
      · exact hn
      · exact this.2 m hm
    · rename_i i hi
      have h2 := acPut_cinv h1 now n.path (attrsOfInfo i n.attrs.fileId n.attrs.uid n.attrs.gid) hn
        ⟨i, by simpa using hi, rfl, rfl, rfl, by simp [attrsOfInfo, hids n (List.mem_cons_self ..)]⟩
      have := ih _ h2 hrest hidr
      refine ⟨this.1, ?_⟩
      intro m hm
      simp only [List.mem_cons] at hm
      rcases hm with rfl | hm
      · exact hn
      · exact this.2 m hm

theorem fillDirPlus_cinv (limit cookie : Nat) (s : St) (i used cnt : Nat) (l : List Node) (h : CInv s)
    (hl : ∀ n ∈ l, CleanPath n.path) : CInv (fillDirPlus limit cookie s i used cnt l).1 := by
  induction l generalizing s i used cnt with
  | nil => exact h
  | cons e es ih =>
    have hrest : ∀ m ∈ es, CleanPath m.path := fun m hm => hl m (List.mem_cons_of_mem _ hm)
    unfold fillDirPlus
    split
    · exact ih s _ _ _ h hrest
    · simp only
      split
      · exact h
      · have h1 := allocate_cinv h e (hl e (List.mem_cons_self ..))
        have := ih (allocate s e).1 (i + 1) (used + entrySize (baseName e.path) + plusExtra) (cnt + 1) h1 hrest
        split
        · rename_i heq; rw [heq] at this; exact this
        · rename_i heq; rw [heq] at this; exact this

end Server
end Absnfs
